/-
Hand model of the record walk of `FixedStructReader` (src/readers/fixedstructreader.rs) on top of the
block-store model `S4V.Model.Stream` (`Rd`, `readBlock`, `dropBlock`):

* `BlockReader::read_data` / `read_data_to_buffer` (src/readers/blockreader.rs): the byte range
  `[beg, end)` copied out of 1..n blocks (`ReadDataParts::One / Two / Many`), `Done` / `Err` exits, the
  buffer-length checks, the slice panics of the copies;
* `FixedStructReader::preprocess_timevalues`: the loop over `fo = 0, sz, 2sz, …` that reads only the
  time-value bytes (into a buffer that PERSISTS between rounds), null skip, window prefilter, map insert,
  the four counters;
* `FixedStructReader::new` after the scan: empty-map exits, `first_entry_fileoffset`, `block_use_count`,
  the entry cache filled from the records `score_file` parsed;
* `process_entry_at`: scan of the map for "this offset, return the next", key removal, cache hit or fresh
  read, `FixedStruct::new` failure, `drop_entry`; `fileoffset_first`, `is_last`;
* the worker loop of `exec_fixedstructprocessor` (src/bin/s4.rs).

Index arithmetic, comparison operators and the order of the tests come from `S4V.Gen.FixedWalk`
(regenerated from the source); the facts a counter-model flips are collected in `Cfg` (`cfg0` = as coded).
-/
import S4V.Gen.FixedWalk
import S4V.Gen.Keys
import S4V.Model.Stream
import S4V.Model.SortDrain

namespace S4V.Model.FixedWalk
open S4V.Gen.Blocks S4V.Gen.Stream S4V.Gen.Keys S4V.Gen.FixedWalk S4V.Model.Lines S4V.Model.Stream
  S4V.Model.SortDrain

/-- `ResultS3` plus a panic outcome -/
inductive R3 (α : Type) where
  | found (a : α)
  | done
  | err
  | panic
  deriving DecidableEq, Repr, Inhabited

/-- `&block[beg..end]`: `none` = panic (`beg > end` or `end > len`) -/
def slice? (b : Bytes) (beg end_ : Nat) : Option Bytes :=
  if beg ≤ end_ ∧ end_ ≤ b.length then some ((b.drop beg).take (end_ - beg)) else none

/-! ### `read_data` -/

inductive Parts where
  | one (b : Bytes)
  | two (b1 b2 : Bytes)
  | many (bs : List Bytes)
  deriving DecidableEq, Repr, Inhabited

/-- the `while bo1 <= bo2` loop of the Many arm; `n` = rounds left -/
def manyLoop : Nat → Rd → Nat → List Bytes → R3 (List Bytes) × Rd
  | 0, r, _, acc => (.found acc, r)
  | n + 1, r, bo, acc =>
    match readBlock r bo with
    | (.found b, r') => manyLoop n r' (bo + 1) (acc ++ [b])
    | (.done, r') => (.found acc, r')
    | (.err, r') => (.err, r')
    | (.panic, r') => (.panic, r')

def lastLen (bs : List Bytes) : Nat := (bs.getLast?.map (·.length)).getD 0

/-- `BlockReader::read_data(beg, end, oneblock)`: parts, `bi1`, `bi2` -/
def readData (r : Rd) (beg e0 : Nat) (oneblock : Bool) : R3 (Parts × Nat × Nat) × Rd :=
  let e := rdEnd e0 r.fsz
  if rdEmpty beg e then (.done, r)
  else
    let bo1 := blockOffsetAtFileOffset beg r.bs
    match readBlock r bo1 with
    | (.done, r1) => (.done, r1)
    | (.err, r1) => (.err, r1)
    | (.panic, r1) => (.panic, r1)
    | (.found b1, r1) =>
      let bi1 := blockIndexAtFileOffset beg r.bs
      let bi2r := blockIndexAtFileOffset e r.bs
      let boEnd := blockOffsetAtFileOffset e r.bs
      let bi2 := rdBi2 bi2r r.bs
      let bo2 := rdBo2 bi2r boEnd
      if bo1 = bo2 ∨ bo1 = r.last then (.found (.one b1, bi1, min bi2 b1.length), r1)
      else if oneblock then (.done, r1)
      else if bo1 + 1 = bo2 then
        match readBlock r1 bo2 with
        | (.found b2, r2) => (.found (.two b1 b2, bi1, if bo2 = r.last then min bi2 b2.length else bi2), r2)
        | (.done, r2) => (.err, r2)
        | (.err, r2) => (.err, r2)
        | (.panic, r2) => (.panic, r2)
      else
        match manyLoop (if RD_MANY_LOOP_INCLUSIVE then bo2 - bo1 else bo2 - bo1 - 1) r1 (bo1 + 1) [b1] with
        | (.found bs, r2) => (.found (.many bs, bi1, min bi2 (lastLen bs)), r2)
        | (.done, r2) => (.done, r2)
        | (.err, r2) => (.err, r2)
        | (.panic, r2) => (.panic, r2)

/-! ### `read_data_to_buffer` -/

/-- `read_data_to_buffer_len_check!(len, need)` fails -/
def lenCheckFails (len need : Nat) : Bool :=
  if LEN_CHECK_STRICT then decide (len < need) else decide (len ≤ need)

/-- state of the copy: the prefix of the buffer written so far (`at` = its length) -/
inductive St where
  | ok (w : Bytes)
  | err
  | panic
  deriving DecidableEq, Repr, Inhabited

def St.bind (s : St) (f : Bytes → St) : St :=
  match s with
  | .ok w => f w
  | .err => .err
  | .panic => .panic

/-- `let n = …; len_check!(buffer.len(), at + n); buffer[DST].copy_from_slice(&blk[beg..end]); at += n`.
`copy_from_slice` panics when the lengths differ: destination `buffer[.. at + n]` has `at + n` bytes -/
def copyStep (buflen : Nat) (w blk : Bytes) (n beg end_ : Nat) (dstFromAt : Bool) : St :=
  if lenCheckFails buflen (w.length + n) then .err
  else
    match slice? blk beg end_ with
    | none => .panic
    | some s => if s.length ≠ n ∨ (dstFromAt = false ∧ w.length ≠ 0) then .panic else .ok (w ++ s)

def copyOne (buflen : Nat) (b : Bytes) (bi1 bi2 : Nat) : St :=
  let len := b.length
  let n := oneN bi1 bi2 len
  copyStep buflen [] b n (oneBeg bi1 bi2 n len) (oneEnd bi1 bi2 n len) oneDstFromAt

def copyTwo (buflen : Nat) (b1 b2 : Bytes) (bi1 bi2 : Nat) : St :=
  let n1 := twoFirstN bi1 bi2 b1.length
  (copyStep buflen [] b1 n1 (twoFirstBeg bi1 bi2 n1 b1.length) (twoFirstEnd bi1 bi2 n1 b1.length) twoFirstDstFromAt).bind fun w =>
    let n2 := twoLastN bi1 bi2 b2.length
    copyStep buflen w b2 n2 (twoLastBeg bi1 bi2 n2 b2.length) (twoLastEnd bi1 bi2 n2 b2.length) twoLastDstFromAt

def copyMids (buflen bi1 bi2 : Nat) : List Bytes → Bytes → St
  | [], w => .ok w
  | b :: rest, w =>
    let n := manyMidN bi1 bi2 b.length
    (copyStep buflen w b n (manyMidBeg bi1 bi2 n b.length) (manyMidEnd bi1 bi2 n b.length) manyMidDstFromAt).bind
      (copyMids buflen bi1 bi2 rest)

/-- `blockps[0]`, `blockps.iter().skip(1).take(len_ - 2)`, `blockps[len_ - 1]` (`len_ ≥ 3` from `read_data`;
an index out of range is a panic) -/
def copyMany (buflen : Nat) (bs : List Bytes) (bi1 bi2 : Nat) : St :=
  match bs.head?, bs.getLast? with
  | some b0, some bl =>
    let n0 := manyFirstN bi1 bi2 b0.length
    (copyStep buflen [] b0 n0 (manyFirstBeg bi1 bi2 n0 b0.length) (manyFirstEnd bi1 bi2 n0 b0.length) manyFirstDstFromAt).bind fun w =>
      (copyMids buflen bi1 bi2 ((bs.drop MANY_MID_SKIP).take (bs.length - MANY_MID_LESS)) w).bind fun w2 =>
        let nl := manyLastN bi1 bi2 bl.length
        copyStep buflen w2 bl nl (manyLastBeg bi1 bi2 nl bl.length) (manyLastEnd bi1 bi2 nl bl.length) manyLastDstFromAt
  | _, _ => .panic

/-- `BlockReader::read_data_to_buffer(beg, end, oneblock, buffer)` with `buffer.len() = buflen`:
`found w` = `Found(w.length)` and `buffer[..w.length] = w` (the rest of the buffer is untouched) -/
def readDataToBuffer (r : Rd) (beg e : Nat) (oneblock : Bool) (buflen : Nat) : R3 Bytes × Rd :=
  if lenCheckFails buflen 1 then (.err, r)
  else
    match readData r beg e oneblock with
    | (.done, r') => (.done, r')
    | (.err, r') => (.err, r')
    | (.panic, r') => (.panic, r')
    | (.found (parts, bi1, bi2), r') =>
      let st : Option St := match parts with
        | .one b => some (copyOne buflen b bi1 bi2)
        | .two b1 b2 => if oneblock then none else some (copyTwo buflen b1 b2 bi1 bi2)
        | .many bs => if oneblock then none else some (copyMany buflen bs bi1 bi2)
      match st with
      | none => (.done, r')
      | some (.ok w) => (.found w, r')
      | some .err => (.err, r')
      | some .panic => (.panic, r')

/-- a sequence of `read_data_to_buffer` calls on one reader -/
def readDataSeq (r : Rd) : List (Nat × Nat × Bool × Nat) → List (R3 Bytes) × Rd
  | [] => ([], r)
  | (b, e, o, l) :: rest =>
    let p := readDataToBuffer r b e o l
    match p.1 with
    | .panic => ([.panic], p.2)
    | _ => let q := readDataSeq p.2 rest; (p.1 :: q.1, q.2)

/-! ### configuration: the regenerated facts a counter-model flips -/

structure Cfg where
  /-- `process_entry_at`: take-next test before match-this test -/
  nextFirst : Bool
  /-- the key found is removed from the map -/
  removesKey : Bool
  /-- a cache hit removes the cached record -/
  cacheRemoves : Bool
  /-- `new` disables block dropping on a streamed file -/
  keepStreamed : Bool
  /-- prefilter: skip when `tv OP after` / `tv OP before` -/
  skipAfter : Int × Int → Int × Int → Bool
  skipBefore : Int × Int → Int × Int → Bool
  isNull : Int × Int → Bool
  /-- end offsets of the two reads -/
  tvEnd : Nat → Nat → Nat
  recEnd : Nat → Nat → Nat

/-- the source as it is -/
def cfg0 : Cfg :=
  { nextFirst := WALK_NEXT_CHECK_FIRST, removesKey := WALK_REMOVES_KEY, cacheRemoves := CACHE_HIT_REMOVES,
    keepStreamed := STREAMED_KEEPS_BLOCKS, skipAfter := fixedSkipAfter, skipBefore := fixedSkipBefore,
    isNull := fixedIsNull, tvEnd := tvEnd, recEnd := recEnd }

/-- what the model needs to know of the layout: record size, where the time value lies, how
`tv_pair_from_buffer` reads it from `buffer[..size_tv()]`, whether `FixedStruct::new` accepts a record -/
structure P where
  sz : Nat
  tvOff : Nat
  tvSz : Nat
  tvOf : Bytes → Option (Int × Int)
  newOk : Bytes → Bool

abbrev Map := List (Key × Nat)

/-! ### `preprocess_timevalues` -/

structure Cnt where
  total : Nat := 0
  invalid : Nat := 0
  noPass : Nat := 0
  ooo : Nat := 0
  deriving DecidableEq, Repr, Inhabited

def optSkip (f : Int × Int → Int × Int → Bool) (tv : Int × Int) : Option (Int × Int) → Bool
  | some flt => f tv flt
  | none => false

/-- the body of the loop after the time value was obtained (`PRE_STEPS`: invalid, null, ooo, prev, total,
after, before, insert): new `tv_pair_prev`, counters, map -/
def preBody (c : Cfg) (a b : Option (Int × Int)) (tvo : Option (Int × Int)) (fo : Nat)
    (prev : Option (Int × Int)) (k : Cnt) (m : Map) : Option (Int × Int) × Cnt × Map :=
  match tvo with
  | none => (prev, { k with invalid := k.invalid + 1 }, m)
  | some tv =>
    if c.isNull tv then (prev, k, m)
    else
      let k1 : Cnt := match prev with
        | some pv => if fixedOutOfOrder tv pv then { k with ooo := k.ooo + 1 } else k
        | none => k
      let k2 : Cnt := { k1 with total := k1.total + 1 }
      if optSkip c.skipAfter tv a then (some tv, { k2 with noPass := k2.noPass + 1 }, m)
      else if optSkip c.skipBefore tv b then (some tv, { k2 with noPass := k2.noPass + 1 }, m)
      else (some tv, k2, SortDrain.insert m (fixedKey ⟨tv, fo⟩) fo)

/-- the `loop` of `preprocess_timevalues`; `buf` = `buffer[..tv_sz]`, which keeps its content between
rounds (a short read overwrites only a prefix) -/
def preLoop (c : Cfg) (p : P) (a b : Option (Int × Int)) :
    Nat → Rd → Nat → Bytes → Option (Int × Int) → Cnt → Map → R3 (Cnt × Map) × Rd
  | 0, r, _, _, _, _, _ => (.err, r)
  | fuel + 1, r, fo, buf, prev, k, m =>
    let beg := tvBeg fo p.tvOff
    match readDataToBuffer r beg (c.tvEnd beg p.tvSz) PRE_ONEBLOCK p.tvSz with
    | (.done, r') => (.found (k, m), r')
    | (.err, r') => (.err, r')
    | (.panic, r') => (.panic, r')
    | (.found w, r') =>
      let buf' := w ++ buf.drop w.length
      let s := preBody c a b (p.tvOf buf') fo prev k m
      preLoop c p a b fuel r' (fo + p.sz) buf' s.1 s.2.1 s.2.2

def preprocess (c : Cfg) (p : P) (a b : Option (Int × Int)) (r : Rd) : R3 (Cnt × Map) × Rd :=
  preLoop c p a b (r.fsz + 2) r 0 (List.replicate p.tvSz 0) none {} []

/-! ### `FixedStructReader` state -/

abbrev UMap := List (Nat × Nat)

def uget (u : UMap) (k : Nat) : Option Nat := (u.find? (fun p => p.1 == k)).map (·.2)
def udel (u : UMap) (k : Nat) : UMap := u.filter (fun p => p.1 != k)
def uset (u : UMap) (k v : Nat) : UMap := (k, v) :: udel u k

/-- `block_use_count[bo] += 1` for `n` blocks from `bo` -/
def useBump : Nat → Nat → UMap → UMap
  | 0, _, u => u
  | n + 1, bo, u => useBump n (bo + 1) (uset u bo ((uget u bo).getD 0 + 1))

/-- number of blocks `block(fo) ..= block(fo + size)` (or `..`) -/
def spanBlocks (incl : Bool) (bs fo sz : Nat) : Nat :=
  let b0 := blockOffsetAtFileOffset fo bs
  let b1 := blockOffsetAtFileOffset (dropEndFo fo sz) bs
  if incl then b1 + 1 - b0 else b1 - b0

/-- the `block_use_count` loop of `new` -/
def useBuild (bs sz : Nat) (m : Map) : UMap :=
  m.foldl (fun u e => useBump (spanBlocks USE_COUNT_INCLUSIVE bs e.2 sz) (blockOffsetAtFileOffset e.2 bs) u) []

structure FR where
  rd : Rd
  map : Map
  /-- `cache_entries`: file offset ↦ the bytes the cached record was parsed from -/
  cache : List (Nat × Bytes)
  use : UMap
  hits : Nat := 0
  miss : Nat := 0
  processed : Nat := 0
  dropOk : Nat := 0
  dropErr : Nat := 0
  deriving Repr, Inhabited

/-- return value of `drop_block` (no other holder of the block: `Arc::try_unwrap` succeeds) -/
def dropBlockRet (r : Rd) : Bool := !(DROP_BLOCK_GUARDED_BY_DROP_DATA && !r.dropData)

/-- the `while bo_at <= bo_end` loop of `drop_entry`: reader, use counts, `dropped_ok`, `dropped_err` -/
def dropLoop : Nat → Rd → UMap → Nat → Nat → Nat → Rd × UMap × Nat × Nat
  | 0, rd, u, _, ok, er => (rd, u, ok, er)
  | n + 1, rd, u, bo, ok, er =>
    match uget u bo with
    | some cnt =>
      if dropWhen cnt then
        if dropBlockRet rd then dropLoop n (dropBlock rd bo) (udel u bo) (bo + 1) (ok + 1) er
        else dropLoop n rd u (bo + 1) ok (er + 1)
      else dropLoop n rd (uset u bo (cnt - 1)) (bo + 1) ok er
    | none => dropLoop n rd u (bo + 1) ok er

/-- `drop_entry(fixedstruct)` for the record at `fo` -/
def dropEntry (p : P) (fr : FR) (fo : Nat) : FR :=
  let q := dropLoop (spanBlocks DROP_LOOP_INCLUSIVE fr.rd.bs fo p.sz) fr.rd fr.use (blockOffsetAtFileOffset fo fr.rd.bs) 0 0
  { fr with rd := q.1, use := q.2.1,
            dropOk := if q.2.2.1 > 0 then fr.dropOk + 1 else fr.dropOk,
            dropErr := if q.2.2.2 > 0 then fr.dropErr + 1 else fr.dropErr }

/-! ### `process_entry_at` -/

/-- the `for (tv_pair_at, fo_at) in self.map_tvpair_fo.iter()` scan: `(fo_next_, tv_pair_at_opt)` -/
def scan (c : Cfg) (fileoffset : Nat) : Map → Bool → Nat → Option Key → Nat × Option Key
  | [], _, fn, k => (fn, k)
  | (k', fo') :: rest, np, fn, k =>
    if c.nextFirst then
      if np then (fo', k)
      else if fileoffset = fo' then scan c fileoffset rest true fn (some k')
      else scan c fileoffset rest np fn k
    else
      if fileoffset = fo' then (fo', some k')
      else if np then (fo', k)
      else scan c fileoffset rest np fn k

def cacheGet (l : List (Nat × Bytes)) (fo : Nat) : Option Bytes := (l.find? (fun p => p.1 == fo)).map (·.2)

inductive PE where
  /-- `Found((fo_next, record at fo))` -/
  | found (foNext fo : Nat) (rcd : Bytes) (cached : Bool)
  | done
  /-- `Err((fo_opt, _))` -/
  | err (foNext : Option Nat)
  | panic
  deriving DecidableEq, Repr, Inhabited

/-- `process_entry_at(fo, buffer)` with `buffer.len() = buflen` -/
def processEntryAt (c : Cfg) (p : P) (fr : FR) (fo buflen : Nat) : PE × FR :=
  let fileoffset := peFloor fo p.sz
  if (if PE_DONE_GE then decide (fileoffset ≥ fr.rd.fsz) else decide (fileoffset > fr.rd.fsz)) then (.done, fr)
  else
    let s := scan c fileoffset fr.map false fr.rd.fsz none
    let foNext := s.1
    let map' := match s.2 with
      | some k => if c.removesKey then fr.map.filter (fun e => e.1 != k) else fr.map
      | none => fr.map
    let fr1 := { fr with map := map' }
    match cacheGet fr1.cache fileoffset with
    | some rcd =>
      let fr2 := { fr1 with hits := fr1.hits + 1,
                            cache := if c.cacheRemoves then fr1.cache.filter (fun e => e.1 != fileoffset) else fr1.cache }
      (.found foNext fileoffset rcd true, if CACHE_HIT_DROPS then dropEntry p fr2 fileoffset else fr2)
    | none =>
      let fr2 := { fr1 with miss := fr1.miss + 1 }
      if buflen < p.sz then (.err none, fr2)
      else
        match readDataToBuffer fr2.rd (recBeg fileoffset p.sz) (c.recEnd fileoffset p.sz) REC_ONEBLOCK p.sz with
        | (.done, r') => (.done, { fr2 with rd := r' })
        | (.err, r') => (.err none, { fr2 with rd := r' })
        | (.panic, r') => (.panic, { fr2 with rd := r' })
        | (.found w, r') =>
          -- the slice was zeroed before the read
          let rcd := w ++ List.replicate (p.sz - w.length) 0
          let fr3 := { fr2 with rd := r' }
          if p.newOk rcd then
            let fr4 := { fr3 with processed := fr3.processed + 1 }
            (.found foNext fileoffset rcd false, if FRESH_READ_DROPS then dropEntry p fr4 fileoffset else fr4)
          else (.err (if NEW_ERR_CONTINUES then some foNext else none), fr3)

/-! ### `fileoffset_first`, the worker loop -/

def kvLt (x y : Key × Nat) : Bool := klt x.1 y.1 || (x.1 == y.1 && decide (x.2 < y.2))

/-- `map_tvpair_fo.iter().min_by_key(|(k, fo)| (*k, *fo))`: the first minimum in iteration order -/
def foFirst : Map → Option Nat
  | [] => none
  | x :: r => some (r.foldl (fun best y => if kvLt y best then y else best) x).2

/-- what the worker sends per visited key -/
inductive Emit where
  /-- `NewMessage(record at fo, is_last)` -/
  | msg (fo : Nat) (rcd : Bytes) (isLast : Bool)
  /-- a recoverable `Err((Some(_), _))`: `file_err` set, nothing sent -/
  | bad
  deriving DecidableEq, Repr, Inhabited

inductive End where
  | done
  | errStop
  | panic
  | fuel
  deriving DecidableEq, Repr, Inhabited

/-- the `loop` of `exec_fixedstructprocessor` -/
def walkLoop (c : Cfg) (p : P) (buflen : Nat) : Nat → FR → Nat → List Emit → List Emit × End × FR
  | 0, fr, _, acc => (acc, .fuel, fr)
  | n + 1, fr, fo, acc =>
    match processEntryAt c p fr fo buflen with
    | (.found fn fo' rcd _, fr') =>
      walkLoop c p buflen n fr' fn (acc ++ [.msg fo' rcd (isLastRec fo' p.sz fr.rd.fsz)])
    | (.done, fr') => (acc, .done, fr')
    | (.err (some fn), fr') => walkLoop c p buflen n fr' fn (acc ++ [.bad])
    | (.err none, fr') => (acc, .errStop, fr')
    | (.panic, fr') => (acc, .panic, fr')

/-- from `fileoffset_first()` until `Done` -/
def walk (c : Cfg) (p : P) (buflen : Nat) (fr : FR) : List Emit × End × FR :=
  match foFirst fr.map with
  | none => ([], .done, fr)
  | some fo => walkLoop c p buflen (fr.map.length + 2) fr fo []

/-! ### `FixedStructReader::new` (after the layout is known) -/

inductive NewRes where
  | ok (fr : FR) (cnt : Cnt) (firstEntryFo : Nat) (mapMaxLen : Nat)
  | errNoValid
  | errNotInWindow
  | errIo
  | panic
  deriving Repr, Inhabited

/-- `first_entry_fileoffset`: the minimum offset of the map, starting from `filesz` -/
def firstEntryFo (fsz : Nat) (m : Map) : Nat := m.foldl (fun best e => if best > e.2 then e.2 else best) fsz

/-- `new` from the reader state `r` reached after `score_file`; `scored` = the `(offset, record bytes)` list
`score_file` returned for the chosen layout whose `from_fixedstructptr` succeeded. An entry is cached iff its
offset is a value of the map. `insert_cache_entry` counts it as processed. -/
def frNew (c : Cfg) (p : P) (a b : Option (Int × Int)) (r : Rd) (scored : List (Nat × Bytes)) : NewRes :=
  match preprocess c p a b r with
  | (.err, _) => .errIo
  | (.done, _) => .errIo
  | (.panic, _) => .panic
  | (.found (k, m), r') =>
    if m.isEmpty then (if k.noPass > 0 then .errNotInWindow else .errNoValid)
    else
      let cache := scored.filter (fun e => m.any (fun x => x.2 == e.1))
      .ok { rd := r', map := m, cache := cache, use := useBuild r'.bs p.sz m, processed := cache.length }
        k (firstEntryFo r'.fsz m) m.length

/-- the reader `new` hands to `score_file`: `BlockReader::new`, then `disable_drop_data()` iff streamed -/
def rdNew (c : Cfg) (kind : Kind) (bs : Nat) (d : Bytes) (cs csPre : List Nat) : Rd :=
  let r := Rd.new kind bs d cs csPre
  if c.keepStreamed && decide (kind ≠ .plain) then r.disableDropData else r

/-- the reads `score_file` makes for ONE candidate layout of `sz`-byte records (`oneblock = false`,
buffer `[u8; ENTRY_SZ_MAX]`): offsets and bytes of the records sampled (not null per `isNullRec`), at most
`maxFound`; stops at `Done` or a short read -/
def scoreReads (isNullRec : Bytes → Bool) (sz buflen maxFound : Nat) :
    Nat → Rd → Nat → Nat → List (Nat × Bytes) → R3 (List (Nat × Bytes)) × Rd
  | 0, r, _, _, acc => (.found acc, r)
  | fuel + 1, r, fo, found, acc =>
    if found ≥ maxFound then (.found acc, r)
    else
      match readDataToBuffer r fo (fo + sz) false buflen with
      | (.done, r') => (.found acc, r')
      | (.err, r') => (.err, r')
      | (.panic, r') => (.panic, r')
      | (.found w, r') =>
        if w.length < sz then (.found acc, r')
        else if isNullRec w then scoreReads isNullRec sz buflen maxFound fuel r' (fo + sz) found acc
        else scoreReads isNullRec sz buflen maxFound fuel r' (fo + sz) (found + 1) (acc ++ [(fo, w)])

end S4V.Model.FixedWalk
