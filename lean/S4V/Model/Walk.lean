/-
Hand model of path expansion (C15):

* `process_path` (src/readers/filepreprocessor.rs): a named file is classified with
  `unparseable_are_text = true` on its *canonicalised* name; a directory is walked with
  `jwalk::WalkDir::new(path).follow_links(true).sort(true)` and every regular file met is
  classified with `unparseable_are_text = false` on the name it has in the walk.
* jwalk 0.8.1 (`src/lib.rs`): each directory's entries are filtered by
  `skip_hidden && is_hidden(file_name)` (default `skip_hidden = true`;
  `is_hidden = file_name.to_str().map(|s| s.starts_with('.')).unwrap_or(false)`, so a
  dot-name that is not UTF-8 is *not* hidden), then sorted by `file_name` (`OsString::cmp`,
  byte order on Unix) and walked depth-first; with `follow_links` a link is reported as
  its target's type under the link's own name.
* `cli_process_args` (src/bin/s4.rs): the first `-` among the path arguments is replaced, in
  place, by the lines of stdin; later `-` are skipped with a warning.
* `main`/`processing_loop` (src/bin/s4.rs): the per-argument result lists are concatenated in
  argument order and PathIds are the positions in that list (`enumerate()`), counting the
  entries that are not attempted.

The tree is finite and has its links resolved (a link to a file is a `file` with the
link's name, a link to a directory a `dir` with the link's name and the target's
children); link loops, which jwalk refuses, are outside the model.
-/
import S4V.Model.Path

namespace S4V.Model.Walk
open S4V.Model.Path S4V.Model.PathTypes

inductive Node where
  | file (name : Bytes)
  | dir (name : Bytes) (children : List Node)
  deriving Repr

def Node.name : Node → Bytes
  | .file n => n
  | .dir n _ => n

/-! ### orders -/

/-- `OsString::cmp` on Unix: byte-wise lexicographic `≤`. -/
def bytesLe : Bytes → Bytes → Bool
  | [], _ => true
  | _ :: _, [] => false
  | a :: as, b :: bs => a < b || (a == b && bytesLe as bs)

def bytesLt (a b : Bytes) : Bool := !bytesLe b a

/-- Component-wise lexicographic order on paths given as component lists
(what `std::path::Path::cmp` does). -/
def pathLt : List Bytes → List Bytes → Bool
  | [], [] => false
  | [], _ :: _ => true
  | _ :: _, [] => false
  | a :: as, b :: bs => bytesLt a b || (a == b && pathLt as bs)

def SLASH : UInt8 := 47

/-- the path as one byte string -/
def joinPath : List Bytes → Bytes
  | [] => []
  | [a] => a
  | a :: rest => a ++ SLASH :: joinPath rest

/-! ### the walk -/

/-- jwalk `is_hidden` -/
def isHidden (n : Bytes) : Bool := isUtf8 n && n.head? == some DOT

/-- the files found through one directory entry, keyed by the entry's name -/
abbrev Block := Bytes × List (List Bytes)

/-- stable insertion by key (`sort_by` is a stable sort; sibling names are distinct anyway) -/
def insertBlock (x : Block) : List Block → List Block
  | [] => [x]
  | y :: ys => if bytesLe x.1 y.1 then x :: y :: ys else y :: insertBlock x ys

def sortBlocks : List Block → List Block
  | [] => []
  | x :: xs => insertBlock x (sortBlocks xs)

def flatten (bs : List Block) : List (List Bytes) := bs.flatMap (·.2)

mutual
/-- Files reachable from a node, in walk order, as component paths starting with the
node's own name. The node's own name is not tested for hiddenness (jwalk applies the
test to directory entries only, never to the root). -/
def walkN (includeHidden : Bool) : Node → List (List Bytes)
  | .file n => [[n]]
  | .dir n cs => (flatten (sortBlocks (walkL includeHidden cs))).map (n :: ·)
/-- the surviving entries of a directory, each with the files below it -/
def walkL (includeHidden : Bool) : List Node → List Block
  | [] => []
  | c :: cs =>
    (if includeHidden || !isHidden c.name then [(c.name, walkN includeHidden c)] else [])
      ++ walkL includeHidden cs
end

/-- Pre-order traversal, every directory's entries sorted by name. Sorting the per-entry
result blocks by entry name is the same as sorting the entries and then descending;
it keeps the recursion structural. -/
def walk (includeHidden : Bool) (t : Node) : List (List Bytes) := walkN includeHidden t

mutual
/-- every file of the tree, in the order the tree happens to be written down -/
def filesN : Node → List (List Bytes)
  | .file n => [[n]]
  | .dir n cs => (filesL cs).map (n :: ·)
def filesL : List Node → List (List Bytes)
  | [] => []
  | c :: cs => filesN c ++ filesL cs
end

def files (t : Node) : List (List Bytes) := filesN t

def namesDistinct : List Bytes → Bool
  | [] => true
  | n :: ns => !ns.contains n && namesDistinct ns

mutual
/-- what a file system guarantees: the entries of one directory have distinct names -/
def okN : Node → Bool
  | .file _ => true
  | .dir _ cs => namesDistinct (cs.map Node.name) && okL cs
def okL : List Node → Bool
  | [] => true
  | c :: cs => okN c && okL cs
end

mutual
/-- no entry below the root has a hidden name -/
def noHiddenN : Node → Bool
  | .file _ => true
  | .dir _ cs => noHiddenL cs
def noHiddenL : List Node → Bool
  | [] => true
  | c :: cs => !isHidden c.name && noHiddenN c && noHiddenL cs
end

/-! ### classification of what the walk finds -/

inductive Outcome where
  | valid (r : Result)        -- `FileValid(path, filetype)`
  | notSupported              -- `FileErrNotSupported(path, None)`: listed, never read
  | tar (fta : Arch)          -- handed to `process_path_tar` (members not modelled here)
  | nofuel                    -- unreachable (`C16_terminates`)
  deriving DecidableEq, Repr

structure Entry where
  path : List Bytes
  out : Outcome
  deriving DecidableEq, Repr

def Outcome.attempted : Outcome → Bool
  | .valid _ => true
  | .tar _ => true
  | _ => false

/-- the loop body of `process_path` for a regular file met in the walk -/
def classifyWalked (p : List Bytes) : Entry :=
  match classify (p.getLastD []) false with
  | none => ⟨p, .nofuel⟩
  | some r =>
    match r.kind with
    | .unparsable => ⟨p, .notSupported⟩
    | .archiveTar => ⟨p, .tar r.arch⟩
    | _ => ⟨p, .valid r⟩

/-- the `is_file` branch of `process_path`: `canon` is the final component of
`path.canonicalize()` (the name given, unless that is a symbolic link). The result keeps
the path as given. -/
def classifyNamed (p : List Bytes) (canon : Bytes) : Entry :=
  match classify canon true with
  | none => ⟨p, .nofuel⟩
  | some r =>
    match r.kind with
    | .archiveTar => ⟨p, .tar r.arch⟩
    | _ => ⟨p, .valid r⟩

/-- everything `process_path(dir)` returns, relative to the directory's parent -/
def expandDirAll (includeHidden : Bool) (t : Node) : List Entry :=
  (walk includeHidden t).map classifyWalked

/-- the entries that will be read: `Unparsable` ones dropped -/
def expandDir (includeHidden : Bool) (t : Node) : List Entry :=
  (expandDirAll includeHidden t).filter (·.out.attempted)

/-- `process_path_tar(&path_to_fpath(entry), ..)` opens the *lossy* (`to_string_lossy`) path with
`File::open(path).unwrap()`: a tar-named file reached in a walk through a component that is
not UTF-8 aborts the program (the lossy path does not exist) — when the open is an `unwrap()`
(`S4V.Gen.WalkTar.tarOpenUnwraps`; repaired as F20: a failed open is now answered with `FileErr`). -/
def tarOpenPanics (e : Entry) : Bool :=
  match e.out with
  | .tar _ => !isUtf8 (joinPath e.path)
  | _ => false

/-- a path argument after the file system has been consulted -/
inductive Arg where
  | file (path : List Bytes) (canon : Bytes)
  | dir (parent : List Bytes) (t : Node)

def expandArg (includeHidden : Bool) : Arg → List Entry
  | .file p c => [classifyNamed p c]
  | .dir par t => (expandDirAll includeHidden t).map fun e => ⟨par ++ e.path, e.out⟩

/-- `main`: `for path in paths { processed_paths.extend(process_path(path)) }` -/
def expandArgs (includeHidden : Bool) (args : List Arg) : List Entry :=
  args.flatMap (expandArg includeHidden)

/-- `processing_loop`: `paths_results.drain(..).enumerate()` -/
def withIds (es : List Entry) : List (Entry × Nat) := es.zipIdx

/-- the sources that are read, with their PathIds -/
def sources (es : List Entry) : List (Entry × Nat) := (withIds es).filter (·.1.out.attempted)

/-! ### `-`: paths on stdin -/

def DASH : Bytes := [45]

/-- the loop over `args.paths` in `cli_process_args`; `seen` is `stdin_check` -/
def spliceAux (stdin : List Bytes) : Bool → List Bytes → List Bytes
  | _, [] => []
  | seen, a :: rest =>
    if a = DASH then
      if seen then spliceAux stdin true rest
      else stdin ++ spliceAux stdin true rest
    else a :: spliceAux stdin seen rest

def spliceStdin (stdin : List Bytes) (args : List Bytes) : List Bytes := spliceAux stdin false args

/-- split at `\n`; no empty last line after a final `\n` -/
def splitLines : Bytes → List Bytes
  | [] => []
  | b :: rest =>
    if b = 10 then [] :: splitLines rest
    else match splitLines rest with
      | [] => [[b]]
      | l :: ls => (b :: l) :: ls

def stripCR (l : Bytes) : Bytes := if l.getLast? = some 13 then l.dropLast else l

def takeUtf8 : List Bytes → List Bytes
  | [] => []
  | l :: ls => if isUtf8 l then l :: takeUtf8 ls else []

/-- `stdin.lock().lines()` until the first error (a line that is not UTF-8) -/
def stdinLines (raw : Bytes) : List Bytes := (takeUtf8 (splitLines raw)).map stripCR

/-- the whole expansion: splice, look every path up (`fs`), expand, concatenate -/
def expandRun (fs : Bytes → Arg) (includeHidden : Bool) (stdin : List Bytes) (args : List Bytes) : List Entry :=
  expandArgs includeHidden ((spliceStdin stdin args).map fs)

/-! ### `path_to_fpath`: `to_string_lossy` (only the driver's reply uses it) -/

def REPL : Bytes := [0xEF, 0xBF, 0xBD]

/-- `String::from_utf8_lossy`: every maximal ill-formed prefix of a sequence becomes U+FFFD -/
def lossyAux : Nat → Bytes → Bytes
  | 0, _ => []
  | _, [] => []
  | fuel + 1, b0 :: rest =>
    if b0 < 0x80 then b0 :: lossyAux fuel rest
    else if 0xC2 ≤ b0 && b0 ≤ 0xDF then
      match rest with
      | b1 :: r => if isCont b1 then b0 :: b1 :: lossyAux fuel r else REPL ++ lossyAux fuel rest
      | [] => REPL
    else if 0xE0 ≤ b0 && b0 ≤ 0xEF then
      let ok1 (b1 : UInt8) : Bool :=
        if b0 == 0xE0 then 0xA0 ≤ b1 && b1 ≤ 0xBF
        else if b0 == 0xED then 0x80 ≤ b1 && b1 ≤ 0x9F
        else isCont b1
      match rest with
      | b1 :: r1 =>
        if ok1 b1 then
          match r1 with
          | b2 :: r2 => if isCont b2 then b0 :: b1 :: b2 :: lossyAux fuel r2 else REPL ++ lossyAux fuel r1
          | [] => REPL
        else REPL ++ lossyAux fuel rest
      | [] => REPL
    else if 0xF0 ≤ b0 && b0 ≤ 0xF4 then
      let ok1 (b1 : UInt8) : Bool :=
        if b0 == 0xF0 then 0x90 ≤ b1 && b1 ≤ 0xBF
        else if b0 == 0xF4 then 0x80 ≤ b1 && b1 ≤ 0x8F
        else isCont b1
      match rest with
      | b1 :: r1 =>
        if ok1 b1 then
          match r1 with
          | b2 :: r2 =>
            if isCont b2 then
              match r2 with
              | b3 :: r3 => if isCont b3 then b0 :: b1 :: b2 :: b3 :: lossyAux fuel r3 else REPL ++ lossyAux fuel r2
              | [] => REPL
            else REPL ++ lossyAux fuel r1
          | [] => REPL
        else REPL ++ lossyAux fuel rest
      | [] => REPL
    else REPL ++ lossyAux fuel rest

def toStringLossy (b : Bytes) : Bytes := lossyAux (b.length + 1) b

end S4V.Model.Walk
