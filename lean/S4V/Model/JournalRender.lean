/-
Model of the ten text renderings of a journal entry
(`src/readers/journalreader.rs`: `next_dispatch`, `next_short` (7 variants), `next_verbose`,
`next_export`, `next_cat`, `get_source_realtime_timestamp`; `src/data/journal.rs`:
`realtime_or_source_realtime_timestamp_to_datetimel`, `realtime_timestamp_to_datetimel`).

libsystemd is abstracted to what it hands the reader for the current entry (trusted base):
the cursor string, `sd_journal_get_realtime_usec`, the monotonic time, and the raw `KEY=VALUE`
data items in the order `sd_journal_enumerate_available_data` yields them; `sd_journal_get_data(F)`
is the first item that starts with `F=`.

Everything that is a literal of the source (caps, keys, fallback order, brackets, separators,
strftime patterns, the verbose field order, the dating override, what `cat` does without MESSAGE)
comes from `S4V.Gen.JournalRender`, regenerated from the source on every run.

Release-build semantics: `debug_assert*` are no-ops. Not modelled: API-call failures inside the
enumeration loops (`continue` / `return Err`), chrono's panic for instants beyond year 262143
(libsystemd rejects entries with `realtime ≥ 2^55` µs, year 3111).
-/
import S4V.Gen.JournalRender
import S4V.Model.Time

namespace S4V.Model.JournalRender
open S4V.Gen.JournalRender S4V.Model.Time

/-- what libsystemd yields for the current entry -/
structure Entry where
  /-- `sd_journal_get_cursor` (`none`: the call failed) -/
  cursor : Option Bytes
  /-- `sd_journal_get_realtime_usec` = `__REALTIME_TIMESTAMP` (u64 microseconds) -/
  realtime : Nat
  /-- `get_monotonic_usec` (`none`: `sd_id128_get_boot` or `sd_journal_get_monotonic_usec` failed) -/
  monotonic : Option Nat
  /-- raw data items, enumeration order -/
  data : List Bytes
  deriving DecidableEq, Repr, Inhabited

/-! ## bytes helpers -/

/-- decimal digits of `n` (`u64::to_string`); `fuel` bounds the number of digits -/
def decimalAux : Nat → Nat → Bytes
  | 0, _ => []
  | fuel + 1, n => if n < 10 then [UInt8.ofNat (48 + n)] else decimalAux fuel (n / 10) ++ [UInt8.ofNat (48 + n % 10)]

def decimal (n : Nat) : Bytes := decimalAux (n + 1) n

def padLeft (w : Nat) (c : UInt8) (b : Bytes) : Bytes := List.replicate (w - b.length) c ++ b

/-- `{:0w}` of a natural number -/
def zpad (w n : Nat) : Bytes := padLeft w 48 (decimal n)

/-- `data.find_byte(sep)`: split at the FIRST `sep` into (before, after) -/
def splitAtByte (sep : UInt8) : Bytes → Option (Bytes × Bytes)
  | [] => none
  | b :: r => if b = sep then some ([], r) else (splitAtByte sep r).map fun (k, v) => (b :: k, v)

/-- libsystemd `sd_journal_get_data(field)`: the first item that starts with `field=` -/
def getData (field : Bytes) (data : List Bytes) : Option Bytes :=
  data.find? fun d => d.take (field.length + 1) = field ++ [61]

def isDigit (b : UInt8) : Bool := 48 ≤ b && b ≤ 57

/-- Rust `u64::from_str`: optional `+`, then one or more ASCII digits, value < 2^64 -/
def parseU64 (b : Bytes) : Option Nat :=
  let ds := match b with
    | 43 :: r => r
    | _ => b
  if ds.isEmpty || !ds.all isDigit then none
  else
    let n := ds.foldl (fun acc d => acc * 10 + (d.toNat - 48)) 0
    if n < 18446744073709551616 then some n else none

/-- `get_source_realtime_timestamp` -/
def sourceRealtime (e : Entry) : Option Nat :=
  match getData KEY_SOURCE_REALTIME e.data with
  | none => none
  | some d =>
    match splitAtByte 61 d with
    | none => none
    | some (_, v) => parseU64 v

/-- `realtime_or_source_realtime_timestamp_to_datetimel` for a given value of `DT_USES_SOURCE_OVERRIDE`
(1 = `Some(RealtimeTimestamp)`; 0 = `None` and 2 = `Some(SourceRealtimeTimestamp)` prefer the source field) -/
def actualUsG (ovr : Nat) (e : Entry) : Nat :=
  if ovr = 1 then e.realtime
  else match sourceRealtime e with
    | some s => s
    | none => e.realtime

/-- the microseconds every printed datetime is computed from (generated override) -/
def actualUs (e : Entry) : Nat := actualUsG DT_OVERRIDE e

/-! ## calendar + strftime (chrono `DateTime<FixedOffset>::format`) -/

structure Civil where
  year : Int
  month : Int
  day : Int
  hour : Nat
  minute : Nat
  second : Nat
  micro : Nat
  /-- 0 = Sunday -/
  weekday : Nat
  /-- seconds since the epoch (of the instant, zone independent) -/
  unix : Nat
  /-- zone offset, seconds east -/
  off : Int
  deriving DecidableEq, Repr

/-- `realtime_timestamp_to_datetimel`: UTC instant `us` seen in the zone `off` seconds east -/
def civilOf (us : Nat) (off : Int) : Civil :=
  let secs : Int := Int.ofNat (us / 1000000) + off
  let days := secs / 86400          -- Int `/` is floor division for a positive divisor
  let sod := (secs % 86400).toNat
  let (y, m, d) := civilFromDays days
  { year := y, month := m, day := d, hour := sod / 3600, minute := sod / 60 % 60, second := sod % 60,
    micro := us % 1000000, weekday := ((days + 4) % 7).toNat, unix := us / 1000000, off := off }

def MONTHS : List String := ["Jan", "Feb", "Mar", "Apr", "May", "Jun", "Jul", "Aug", "Sep", "Oct", "Nov", "Dec"]
def WEEKDAYS : List String := ["Sun", "Mon", "Tue", "Wed", "Thu", "Fri", "Sat"]

/-- bytes of an ASCII string literal (month / weekday names; kernel-reducible) -/
def str (s : String) : Bytes := s.toList.map fun c => UInt8.ofNat c.toNat

/-- chrono `%Y`: four digits inside 0..9999, otherwise an explicit sign and at least four digits -/
def fmtYear (y : Int) : Bytes :=
  if 0 ≤ y ∧ y ≤ 9999 then zpad 4 y.toNat
  else if y < 0 then 45 :: zpad 4 (-y).toNat
  else 43 :: zpad 4 y.toNat

/-- chrono `%z`: `+hhmm`, seconds rounded to the nearest minute -/
def fmtOffZ (off : Int) : Bytes :=
  let a := off.natAbs
  let minutes := (a + 30) / 60
  (if off < 0 then 45 else 43) :: (zpad 2 (minutes / 60) ++ zpad 2 (minutes % 60))

/-- chrono `%Z` on a `DateTime<FixedOffset>`: the offset's `Display`, `+hh:mm` (`+hh:mm:ss` with seconds) -/
def fmtOffName (off : Int) : Bytes :=
  let a := off.natAbs
  let sec := a % 60
  let mins := a / 60
  (if off < 0 then 45 else 43) :: (zpad 2 (mins / 60) ++ [58] ++ zpad 2 (mins % 60)
    ++ (if sec = 0 then [] else 58 :: zpad 2 sec))

/-- one specifier letter -/
def fmtSpec (c : Civil) (x : UInt8) : Bytes :=
  if x = 97 then str (WEEKDAYS.getD c.weekday "?")                      -- %a
  else if x = 98 then str (MONTHS.getD (c.month.toNat - 1) "?")          -- %b
  else if x = 100 then zpad 2 c.day.toNat                               -- %d
  else if x = 72 then zpad 2 c.hour                                     -- %H
  else if x = 77 then zpad 2 c.minute                                   -- %M
  else if x = 83 then zpad 2 c.second                                   -- %S
  else if x = 89 then fmtYear c.year                                    -- %Y
  else if x = 109 then zpad 2 c.month.toNat                             -- %m
  else if x = 122 then fmtOffZ c.off                                    -- %z
  else if x = 90 then fmtOffName c.off                                  -- %Z
  else if x = 115 then decimal c.unix                                   -- %s
  else [37, x]                                                          -- (rejected by the generator)

/-- scanner state of the pattern interpreter: in literal text, after `%`, after `%6` -/
inductive FmtState where
  | lit | pct | pct6
  deriving DecidableEq, Repr

/-- the strftime patterns the generator accepts: literals, `%<letter>` and `%6f` -/
def strftimeAux (c : Civil) : FmtState → Bytes → Bytes
  | .lit, [] => []
  | .pct, [] => [37]
  | .pct6, [] => [37, 54]
  | .lit, b :: r => if b = 37 then strftimeAux c .pct r else b :: strftimeAux c .lit r
  | .pct, x :: r => if x = 54 then strftimeAux c .pct6 r else fmtSpec c x ++ strftimeAux c .lit r
  | .pct6, y :: r =>
    if y = 102 then zpad 6 c.micro ++ strftimeAux c .lit r
    else [37, 54] ++ (if y = 37 then strftimeAux c .pct r else y :: strftimeAux c .lit r)

def strftime (c : Civil) (fmt : Bytes) : Bytes := strftimeAux c .lit fmt

/-- the datetime text of the entry for pattern `fmt` in the zone `off` -/
def dtText (fmt : Bytes) (off : Int) (e : Entry) : Bytes := strftime (civilOf (actualUs e) off) fmt

/-! ## `next_short` -/

structure Slots where
  hostname : Option Bytes := none
  ident : Option Bytes := none
  syslogPid : Option Bytes := none
  comm : Option Bytes := none
  pid : Option Bytes := none
  message : Option Bytes := none
  deriving DecidableEq, Repr, Inhabited

def Slots.get (s : Slots) : Slot → Option Bytes
  | .hostname => s.hostname | .ident => s.ident | .syslogPid => s.syslogPid
  | .comm => s.comm | .pid => s.pid | .message => s.message

def Slots.set (s : Slots) (sl : Slot) (v : Bytes) : Slots :=
  match sl with
  | .hostname => { s with hostname := some v } | .ident => { s with ident := some v }
  | .syslogPid => { s with syslogPid := some v } | .comm => { s with comm := some v }
  | .pid => { s with pid := some v } | .message => { s with message := some v }

/-- one loop iteration's `match key { … }` -/
def storeKey (s : Slots) (k v : Bytes) : Slots :=
  match SHORT_ARMS.find? (fun sl => slotKey sl = k) with
  | some sl => s.set sl v
  | none => s

/-- the early `break` test -/
def allNeeded (s : Slots) : Bool := SHORT_BREAK_NEEDS.all fun sl => (s.get sl).isSome

/-- the `while emerg_stop_data_enumerate < CAP` loop: `fuel` = iterations left. An item without `=`
consumes an iteration (`continue`); a later item with the same key overwrites; the loop stops as soon as
every needed slot is filled. -/
def shortScan : Nat → List Bytes → Slots → Slots
  | 0, _, s => s
  | _, [], s => s
  | fuel + 1, d :: r, s =>
    match splitAtByte FIELD_MID d with
    | none => shortScan fuel r s
    | some (k, v) =>
      let s' := storeKey s k v
      if allNeeded s' then s' else shortScan fuel r s'

def shortSlots (e : Entry) : Slots := shortScan SHORT_CAP e.data {}

/-- one output segment: the first alternative whose slot is present -/
def writeSeg (s : Slots) : List (Slot × Bytes × Bytes) → Bytes
  | [] => []
  | (sl, pre, post) :: r =>
    match s.get sl with
    | some v => pre ++ v ++ post
    | none => writeSeg s r

/-- everything after the timestamp, terminator included -/
def shortTail (s : Slots) : Bytes := (SHORT_SEGS.map (writeSeg s)).flatten ++ [SHORT_TERM]

/-- `format!("{:>W.P}", mu as f64 / 10^P)` as the exact decimal (the f64 detour is exact below
`2^32 · 10^6` µs ≈ 136 years of uptime; see `monoExactBound`) -/
def monoNumber (mu : Nat) : Bytes :=
  padLeft MONO_WIDTH 32 (decimal (mu / MONO_DIV) ++ [46] ++ zpad MONO_PREC (mu % MONO_DIV))

def monoExactBound : Nat := 4294967296000000

def monoText : Option Nat → Bytes
  | some mu => MONO_OPEN :: (monoNumber mu ++ [MONO_CLOSE])
  | none => MONO_NONE

def renderShort (fmt : Bytes) (mono : Bool) (off : Int) (e : Entry) : Bytes :=
  (if mono then monoText e.monotonic else dtText fmt off e) ++ shortTail (shortSlots e)

/-! ## `next_export` -/

def kvLine (t : Bytes × UInt8 × UInt8) (v : Bytes) : Bytes := t.1 ++ [t.2.1] ++ v ++ [t.2.2]

def exportHeader (e : Entry) : Bytes :=
  (match e.cursor with | some c => kvLine EXPORT_CURSOR c | none => [])
  ++ kvLine EXPORT_REALTIME (decimal e.realtime)
  ++ (match e.monotonic with | some m => kvLine EXPORT_MONOTONIC (decimal m) | none => [])

def exportFields (data : List Bytes) : Bytes := ((data.take EXPORT_CAP).map (· ++ [EXPORT_FIELD_END])).flatten

def renderExport (e : Entry) : Bytes := exportHeader e ++ exportFields e.data ++ [EXPORT_TERM]

/-! ## `next_verbose` -/

abbrev KV := Bytes × Bytes

/-- `HashMap::insert`: a later value for the same key replaces the earlier one -/
def mapInsert (m : List KV) (k v : Bytes) : List KV :=
  if m.any (fun p => p.1 = k) then m.map (fun p => if p.1 = k then (k, v) else p) else m ++ [(k, v)]

def mapGet (m : List KV) (k : Bytes) : Option Bytes := (m.find? fun p => p.1 = k).map (·.2)
def mapRemove (m : List KV) (k : Bytes) : List KV := m.filter fun p => p.1 ≠ k

/-- the `while value.ends_with(…)` trim -/
def trimEnd (set : Bytes) (v : Bytes) : Bytes := (v.reverse.dropWhile fun b => set.contains b).reverse

/-- key and value of one item (`unwrap_or(data.len())`: an item without `=` is a key with an empty value) -/
def verboseKV (d : Bytes) : KV :=
  let (k, v) := match splitAtByte FIELD_MID d with
    | some kv => kv
    | none => (d, [])
  (k, if k = VERBOSE_TRIM_KEY then trimEnd VERBOSE_TRIM_SET v else v)

/-- the collecting loop + the synthetic monotonic field -/
def verboseMap (e : Entry) : List KV :=
  let m := (e.data.take VERBOSE_CAP).foldl (fun m d => let kv := verboseKV d; mapInsert m kv.1 kv.2) []
  if (mapGet m VERBOSE_MONO_KEY).isSome then m
  else match e.monotonic with
    | some mu => mapInsert m VERBOSE_MONO_KEY (decimal mu)
    | none => m

def bytesLt : Bytes → Bytes → Bool
  | [], [] => false
  | [], _ :: _ => true
  | _ :: _, [] => false
  | a :: r, b :: s => a < b || (a == b && bytesLt r s)

/-- `Ord` of `(&[u8], &[u8])` -/
def kvLe (a b : KV) : Bool := bytesLt a.1 b.1 || (a.1 == b.1 && !bytesLt b.2 a.2)

def insertSorted (x : KV) : List KV → List KV
  | [] => [x]
  | y :: r => if kvLe x y then x :: y :: r else y :: insertSorted x r

def sortKV (l : List KV) : List KV := l.foldr insertSorted []

def verboseLine (kv : KV) : Bytes := VERBOSE_BEG ++ kv.1 ++ [VERBOSE_MID] ++ kv.2 ++ [VERBOSE_END]

/-- the `for field in FIELD_ORDER_VERBOSE { fields.remove(field) … }` pass: (lines, what is left) -/
def orderedPass : List Bytes → List KV → List KV × List KV
  | [], m => ([], m)
  | k :: ks, m =>
    match mapGet m k with
    | some v => let (o, m') := orderedPass ks (mapRemove m k); ((k, v) :: o, m')
    | none => orderedPass ks m

/-- the key/value pairs in the order they are written -/
def verboseOrder (m : List KV) : List KV :=
  let last := mapGet m VERBOSE_LAST_KEY
  let m1 := mapRemove m VERBOSE_LAST_KEY
  let (o, m2) := orderedPass VERBOSE_ORDER m1
  o ++ sortKV m2 ++ (match last with | some s => [(VERBOSE_LAST_KEY, s)] | none => [])

def verboseHeader (off : Int) (e : Entry) : Bytes :=
  dtText VERBOSE_FMT off e ++ [VERBOSE_SEP]
  ++ (match e.cursor with | some c => VERBOSE_CURSOR_OPEN :: (c ++ [VERBOSE_CURSOR_CLOSE]) | none => [])
  ++ [VERBOSE_HEADER_END]

def renderVerbose (off : Int) (e : Entry) : Bytes :=
  verboseHeader off e ++ ((verboseOrder (verboseMap e)).map verboseLine).flatten

/-! ## `next_cat` and the dispatch -/

inductive Outcome where
  /-- `ResultNext::Found`: these bytes are printed -/
  | found (text : Bytes)
  /-- `ResultNext::ErrIgnore`: nothing printed for this entry, the run continues -/
  | skip
  /-- `ResultNext::Err`: the run of this file stops -/
  | stop
  deriving DecidableEq, Repr

def renderCat (e : Entry) : Outcome :=
  match getData KEY_MESSAGE e.data with
  | none => if CAT_MISSING_IS_SKIP then .skip else .stop
  | some d =>
    let v := match splitAtByte FIELD_MID d with
      | some (_, v) => v
      | none => d
    .found (v ++ [CAT_TERM])

/-- `next_dispatch` -/
def render (mode : Mode) (off : Int) (e : Entry) : Outcome :=
  match dispatch mode with
  | .short fmt mono => .found (renderShort fmt mono off e)
  | .verbose => .found (renderVerbose off e)
  | .export => .found (renderExport e)
  | .cat => renderCat e

/-! ## the reader over a run of entries (is anything carried from one entry to the next?) -/

/-- One call of `next_*` with the bytes a buffer kept in the reader would still hold (`carry`);
`loc` says whether the text starts from an empty buffer. -/
def stepReaderG (loc : Bool) (mode : Mode) (off : Int) (carry : Bytes) (e : Entry) : Outcome × Bytes :=
  let start := if loc then [] else carry
  match render mode off e with
  | .found t => (.found (start ++ t), start ++ t)
  | o => (o, start)

def runReaderG (loc : Bool) (mode : Mode) (off : Int) : Bytes → List Entry → List Outcome
  | _, [] => []
  | carry, e :: r => (stepReaderG loc mode off carry e).1 :: runReaderG loc mode off (stepReaderG loc mode off carry e).2 r

/-- the reader as coded: `BUFFER_LOCAL` (generated: every renderer creates its `Vec` inside the call and the
reader has no byte-buffer field) -/
def runReader (mode : Mode) (off : Int) (carry : Bytes) (es : List Entry) : List Outcome :=
  runReaderG BUFFER_LOCAL mode off carry es

end S4V.Model.JournalRender
