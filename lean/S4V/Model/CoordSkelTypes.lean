/-
Vocabulary of the coordinator-loop skeleton that `gen/gen_coord.py` regenerates from the main
`loop { … }` of `processing_loop` (src/bin/s4.rs). Pure data; `S4V.Model.CoordSkel` interprets it.
-/
namespace S4V.Model.CoordSkel

/-- the three maps whose sizes the loop's wait condition reads -/
inductive MapName where
  | chans      -- `MAP_PATHID_CHANRECVDATUM.read().unwrap()`  (channels still connected)
  | pending    -- `map_pathid_datum`                          (sources with a message on hand)
  | fileinfo   -- `map_pathid_received_fileinfo`              (FileInfo bookkeeping, emptied once complete)
  deriving DecidableEq, Repr

inductive CmpOp where
  | ne | eq | lt | le | gt | ge
  deriving DecidableEq, Repr

/-- the boolean expression of `if <wait> { receive } else { print }`, as written -/
inductive WExpr where
  | cmpLen (a : MapName) (op : CmpOp) (b : MapName)   -- `a.len() op b.len()`
  | nonEmpty (m : MapName)                             -- `!m.is_empty()`
  | isEmpty (m : MapName)                              -- `m.is_empty()`
  | or (a b : WExpr)
  | and (a b : WExpr)
  deriving DecidableEq, Repr

/-- state changes found in the arm handling one kind of received datum, in source order -/
inductive Eff where
  | markFileinfo    -- `map_pathid_received_fileinfo.insert(pathid, true)`
  | errIfNotOk      -- `if !file_processing_result.is_ok() { _fileprocessing_not_okay += 1; }`
  | insertPending   -- `map_pathid_datum.insert(pathid, (log_message, is_last_message)); set_pathid.insert(pathid);`
  | storeSummary    -- `summary_update(&pathid, summary, &mut map_pathid_summary)`
  | disconnect      -- `disconnect.push(pathid)`
  | countErr        -- `chan_recv_err += 1`
  deriving DecidableEq, Repr

/-- the ways out of the loop -/
inductive Exit where
  | recvNone     -- `recv_many_chan(..)` returned `None` → `break`
  | noChannels   -- `map_pathid_chanrecvdatum.is_empty()` at the end of an iteration → `break`
  deriving DecidableEq, Repr

structure Skel where
  /-- `if <wait> {…recv…} else {…print…}` -/
  wait : WExpr
  /-- `recv_many_chan`: `if filter_.contains(pathid_chan.0) { continue; }` with `filter_ = &set_pathid`,
      the shadow of `map_pathid_datum`'s keys -/
  pollSkipsPending : Bool
  /-- `select.select()` (blocks until a polled channel is ready or disconnected), not a timeout/try variant -/
  selectBlocking : Bool
  /-- `recv_many_chan` returns `None` exactly when no channel was loaded into the `Select` -/
  noneMeansNothingPolled : Bool
  armFileInfo : List Eff
  armNewMessage : List Eff
  armFileSummary : List Eff
  armRecvError : List Eff
  /-- `if !fi.is_empty() && fi.iter().all(|(_, v)| v == &true) { … fi.clear(); }` closes the receive branch -/
  clearFileinfoWhenAllTrue : Bool
  /-- `min_by(..)` returned `None` → `continue` (skips the end-of-iteration bookkeeping) -/
  printNoneContinues : Bool
  /-- `map_pathid_datum.remove(&pathid_); set_pathid.remove(&pathid_);` after printing -/
  printRemovesPicked : Bool
  /-- `for pathid in disconnect.iter() { map_pathid_chanrecvdatum.remove(pathid); … }` -/
  disconnectRemovesChannel : Bool
  /-- the loop's `break`s, in source order -/
  exits : List Exit
  deriving Repr

end S4V.Model.CoordSkel
