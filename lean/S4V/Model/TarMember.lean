/-
Hand model of WHICH member of a `.tar` a listed entry `archive|member` reads back (C05, C15).

* An archive is what `tar::Archive::entries()` / `entries_with_seek()` (tar 0.4.44) report for the bytes of the
  file: the entries in stored order, GNU long-name (`L`) and pax (`x`) records already folded into the entry they
  describe. Per entry: `path` = the bytes of `entry.path()` (long-name record, else pax `path`, else the header
  field — `EntryFields::path_bytes`; on Unix no normalisation at all: `./`, `//`, `..`, a trailing `/` stay),
  `hdrPath` = the bytes of `entry.header().path()` (the 100-byte name field, ustar prefix joined with `/`),
  `regular` = `header().entry_type().is_file()` (typeflag `0` or NUL), `data` = the `header().size()` bytes after
  the header. An iteration error ends the iteration (`continue` in every loop, nothing follows), so it is not part
  of an archive here.
* `process_path_tar` lists `path SUBPATH_SEP to_string_lossy(<listAcc>)` for every entry passing the type filter.
* `BlockReader::new` (tar arm) splits the listed string at a separator, opens the first part and runs the loop
  `for (index, entry) { entry_index = index; if !hit { continue }; filesz_actual = size; break }` — `brLoop`,
  state `(entry_index, filesz_actual)` starting at `(0, 0)`; no hit is NOT an error: size 0 over the last entry.
  `read_block_FileTar` re-opens the archive, takes `entries.nth(entry_index)` (`None` → `Err`), answers `Done` when
  `filesz_actual == 0` and otherwise `read_exact`s `filesz_actual` bytes of that entry — `brReadAll`.
* `decompress_to_ntf` (tar arm) does the same split and loop keeping the entry itself (`ntfLoop`), copies its data
  to the temporary file; no hit → `Ok(None)` (the caller then opens the string `archive|member` as a plain path,
  which fails).
The site parameters (`LookupSite`, split direction, listing accessor) are the generated facts of
`S4V.Gen.TarMember`; every function here takes them explicitly (`…With`) so that the other value of each can be
evaluated, and has a version instantiated with the generated values.
-/
import S4V.Model.Walk
import S4V.Gen.TarMember

namespace S4V.Model.TarMember
open S4V.Model.Path (Bytes)
open S4V.Model.Walk (toStringLossy)
open S4V.Gen.TarMember

structure Entry where
  path : Bytes
  hdrPath : Bytes
  regular : Bool
  data : Bytes
  deriving DecidableEq, Repr

abbrev Archive := List Entry

/-- the files that exist: path string ↦ the archive stored there (`none`: `open` fails) -/
abbrev Fs := Bytes → Option Archive

def accName : NameAcc → Entry → Bytes
  | .entryPath, e => e.path
  | .headerPath, e => e.hdrPath

/-- `<accessor>.to_string_lossy().to_string()` -/
def candName (a : NameAcc) (e : Entry) : Bytes := toStringLossy (accName a e)

/-- the single byte of `SUBPATH_SEP` (the translator accepts an ASCII `char` only) -/
def sepB : UInt8 := match subpathSep with
  | [b] => b
  | _ => 0

/-! ### string comparisons -/

def splitSlash : Bytes → List Bytes
  | [] => [[]]
  | b :: r =>
    if b == 0x2F then [] :: splitSlash r
    else match splitSlash r with
      | [] => [[b]]
      | c :: cs => (b :: c) :: cs

/-- `Path::components()` without the root: empty and `.` components dropped (approximation: a leading `.` too) -/
def comps (b : Bytes) : List Bytes := (splitSlash b).filter fun c => c != [] && c != [0x2E]

def containsB (s : Bytes) : Bytes → Bool
  | [] => s.isEmpty
  | b :: r => s.isPrefixOf (b :: r) || containsB s r

/-- does candidate `c` pass the comparison with the wanted sub-path `s` -/
def cmpOk : Cmp → Bytes → Bytes → Bool
  | .eq, c, s => c == s
  | .strEndsWith, c, s => s.isSuffixOf c
  | .pathEndsWith, c, s => (comps s).isSuffixOf (comps c)
  | .strStartsWith, c, s => s.isPrefixOf c
  | .strContains, c, s => containsB s c

/-- one turn of a lookup loop does NOT `continue` -/
def hit (st : LookupSite) (sub : Bytes) (e : Entry) : Bool :=
  (!st.regularOnly || e.regular) && cmpOk st.cmp (candName st.acc e) sub

/-! ### splitting `archive|member` -/

/-- `str::split_once(sep)` -/
def splitFirst (sep : UInt8) : Bytes → Option (Bytes × Bytes)
  | [] => none
  | b :: r =>
    if b == sep then some ([], r)
    else match splitFirst sep r with
      | none => none
      | some (p, q) => some (b :: p, q)

/-- `str::rsplit_once(sep)` -/
def splitLast (sep : UInt8) (s : Bytes) : Option (Bytes × Bytes) :=
  match splitFirst sep s.reverse with
  | none => none
  | some (q, p) => some (p.reverse, q.reverse)

def splitFull (atLast : Bool) (s : Bytes) : Option (Bytes × Bytes) :=
  if atLast then splitLast sepB s else splitFirst sepB s

/-! ### `process_path_tar`: the listing -/

/-- `path SUBPATH_SEP lossy(name)` -/
def fullName (acc : NameAcc) (tarPath : Bytes) (e : Entry) : Bytes :=
  tarPath ++ subpathSep ++ candName acc e

/-- the listed strings, each with the entry it was produced from -/
def listedWith (acc : NameAcc) (regularOnly : Bool) (tarPath : Bytes) (ar : Archive) : List (Bytes × Entry) :=
  (ar.filter fun e => !regularOnly || e.regular).map fun e => (fullName acc tarPath e, e)

def listed (tarPath : Bytes) (ar : Archive) : List (Bytes × Entry) :=
  listedWith listAcc listRegularOnly tarPath ar

/-! ### `BlockReader::new` + `read_block_FileTar` -/

/-- the `for (index, entry_res) in entry_iter.enumerate()` loop of `BlockReader::new`; state `(entry_index, filesz_actual)` -/
def brLoop (st : LookupSite) (sub : Bytes) : Archive → Nat → Nat × Nat → Nat × Nat
  | [], _, s => s
  | e :: es, i, s =>
    if hit st sub e then
      if st.firstWins then (i, e.data.length) else brLoop st sub es (i + 1) (i, e.data.length)
    else brLoop st sub es (i + 1) (i, s.2)

/-- `TarData{ entry_index, filesz }` after the loop -/
def brNew (st : LookupSite) (sub : Bytes) (ar : Archive) : Nat × Nat := brLoop st sub ar 0 (0, 0)

inductive BrOut where
  | ok (d : Bytes)   -- the blocks `read_block(0..)` returned, concatenated
  | empty            -- `Done` at block 0
  | readErr          -- `read_block` returned `Err` (`nth` gave `None`, or `read_exact` hit the end of the entry)
  | newErrNoSep      -- `BlockReader::new`: `Err(InvalidInput)`, no separator in the name
  | newErrOpen       -- `BlockReader::new`: the archive part cannot be opened
  deriving DecidableEq, Repr

/-- `read_block_FileTar` for a reader with `TarData t` over the archive -/
def brReadAll (ar : Archive) (t : Nat × Nat) : BrOut :=
  match ar[t.1]? with
  | none => .readErr
  | some e =>
    if t.2 = 0 then .empty
    else if e.data.length < t.2 then .readErr
    else .ok (e.data.take t.2)

def brReadWith (st : LookupSite) (atLast : Bool) (fs : Fs) (full : Bytes) : BrOut :=
  match splitFull atLast full with
  | none => .newErrNoSep
  | some (p, sub) =>
    match fs p with
    | none => .newErrOpen
    | some ar => brReadAll ar (brNew st sub ar)

/-- what the real `BlockReader` reads for the listed string `full` -/
def brRead (fs : Fs) (full : Bytes) : BrOut := brReadWith brNewSite brSplitAtLast fs full

/-! ### `decompress_to_ntf` -/

/-- the `for` loop of `decompress_to_ntf`; state `entry_opt` -/
def ntfLoop (st : LookupSite) (sub : Bytes) : Archive → Option Entry → Option Entry
  | [], acc => acc
  | e :: es, acc =>
    if hit st sub e then
      if st.firstWins then some e else ntfLoop st sub es (some e)
    else ntfLoop st sub es acc

inductive NtfOut where
  | ok (d : Bytes)   -- `Ok(Some(temporary file))` holding `d`
  | none             -- `Ok(None)`
  | err              -- `Err` when no member matches (only if the source says so)
  | errNoSep         -- `Err(InvalidInput)`
  | errOpen          -- the archive part cannot be opened
  deriving DecidableEq, Repr

def ntfReadWith (st : LookupSite) (atLast : Bool) (nm : NoMatch) (fs : Fs) (full : Bytes) : NtfOut :=
  match splitFull atLast full with
  | none => .errNoSep
  | some (p, sub) =>
    match fs p with
    | none => .errOpen
    | some ar =>
      match ntfLoop st sub ar none with
      | some e => .ok e.data
      | none => match nm with
        | .okNone => .none
        | _ => .err

/-- what the real `decompress_to_ntf` extracts for the listed string `full` -/
def ntfRead (fs : Fs) (full : Bytes) : NtfOut := ntfReadWith ntfSite ntfSplitAtLast ntfNoMatch fs full

/-! ### what a listed entry should read: its own bytes -/

def brWant (e : Entry) : BrOut := if e.data = [] then .empty else .ok e.data
def ntfWant (e : Entry) : NtfOut := .ok e.data

/-- an entry as the harness writes it: the header name field holds the first 100 bytes of the name -/
def mkEntry (name : Bytes) (regular : Bool) (data : Bytes) : Entry := ⟨name, name.take 100, regular, data⟩

/-- a directory holding one archive -/
def oneTar (tarPath : Bytes) (ar : Archive) : Fs := fun p => if p = tarPath then some ar else none

end S4V.Model.TarMember
