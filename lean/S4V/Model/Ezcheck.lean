/-
EZCHECK: the cheap byte tests that let `SyslineReader::find_datetime_in_line` skip a regex
(src/readers/syslinereader.rs `ezcheck_slice`, `find_datetime_in_line`; src/data/datetime.rs
`slice_contains_X_2*`, `slice_contains_D2*`, `slice_contains_12_D2`).

Mirrors of the code (same loops, same early returns, same cursor arithmetic); the statistics
counters (`*_hit`, `*_miss`, `*_hit_max`, `get_boxptrs_*`, `regex_captures_attempted`) are not
modelled — they never influence control flow. `Line::get_boxptrs(a, b)` is modelled by its
contract "the bytes `line[a..b)`" (that contract is the `boxp` component's property).
-/
namespace S4V.Model.Ezcheck

/-! ### specifications -/

def isDigit (b : UInt8) : Bool := 48 ≤ b.toNat && b.toNat ≤ 57

/-- some byte of `s` satisfies `p` -/
def hasByte (p : UInt8 → Bool) (s : List UInt8) : Bool := s.any p

def is12 (b : UInt8) : Bool := b == 49 || b == 50

/-- the slice contains byte `'1'` or `'2'` -/
def has12 (s : List UInt8) : Bool := hasByte is12 s

/-- the slice contains an ASCII digit -/
def hasDigit (s : List UInt8) : Bool := hasByte isDigit s

/-- the slice contains two consecutive ASCII digits -/
def hasD2 : List UInt8 → Bool
  | a :: b :: t => (isDigit a && isDigit b) || hasD2 (b :: t)
  | _ => false

/-! ### `slice_contains_X_2` family -/

/-- `slice_contains_X_2_memchr` (the variant `slice_contains_X_2` calls): `memchr::memchr2(search[0],
search[1], slice_)` is `Some` iff one of the two bytes occurs (memchr's documented contract) -/
def sliceContainsX2Memchr (s : List UInt8) (a b : UInt8) : Bool :=
  match s.findIdx? (fun x => x == a || x == b) with
  | some _ => true
  | none => false

/-- `slice_contains_X_2` -/
def sliceContainsX2 (s : List UInt8) (a b : UInt8) : Bool := sliceContainsX2Memchr s a b

/-- the body shared by `slice_contains_<N>_2`, `N = 2 … 99`:
`for i in 0..N { if slice_[i] == search[0] || slice_[i] == search[1] { return true; } } false` -/
def sliceContainsN2 : List UInt8 → UInt8 → UInt8 → Bool
  | [], _, _ => false
  | x :: t, a, b => if x == a || x == b then true else sliceContainsN2 t a b

/-- `slice_contains_X_2_unroll`: lengths 2 … 99 dispatch to the hand-unrolled loops, every other
length (0, 1, ≥ 100) falls back to `slice_.contains(&search[0]) || slice_.contains(&search[1])` -/
def sliceContainsX2Unroll (s : List UInt8) (a b : UInt8) : Bool :=
  if 2 ≤ s.length ∧ s.length ≤ 99 then sliceContainsN2 s a b
  else s.contains a || s.contains b

/-! ### `slice_contains_D2` -/

/-- loop of `slice_contains_D2_custom`; the `Bool` is `byte_last_d` -/
def sliceContainsD2Go : Bool → List UInt8 → Bool
  | _, [] => false
  | last, x :: t =>
    if isDigit x then (if last then true else sliceContainsD2Go true t)
    else sliceContainsD2Go false t

/-- `slice_contains_D2` (= `slice_contains_D2_custom`) -/
def sliceContainsD2 (s : List UInt8) : Bool := sliceContainsD2Go false s

/-! ### `slice_contains_12_D2` -/

def sliceContains12D2Go : Bool → List UInt8 → Bool
  | _, [] => false
  | last, x :: t =>
    if x == 49 || x == 50 then true
    else if isDigit x then (if last then true else sliceContains12D2Go true t)
    else sliceContains12D2Go false t

/-- `slice_contains_12_D2` -/
def sliceContains12D2 (s : List UInt8) : Bool := sliceContains12D2Go false s

/-! ### `ezcheck_slice` -/

/-- `ezcheck12_min`, `ezcheckd2_min`, `ezcheck12d2_min` of `find_datetime_in_line` -/
structure Cur where
  c12 : Nat
  cd2 : Nat
  c12d2 : Nat
deriving Repr, DecidableEq

/-- what `ezcheck_slice` and the loop read from a `DateTimeParseInstr` -/
structure RowInfo where
  hasYear4 : Bool
  hasD2 : Bool
  rangeStart : Nat
  rangeEnd : Nat
deriving Repr, DecidableEq, Inhabited

/-- `&slice_[min(cursor, slice_.len())..]` -/
def tailFrom (cursor : Nat) (s : List UInt8) : List UInt8 := s.drop (min cursor s.length)

/-- `SyslineReader::ezcheck_slice`: `(returned bool, cursors afterwards)`; `true` = skip the regex -/
def ezcheckSlice (d : RowInfo) (slice : List UInt8) (charsz : Nat) (cur : Cur) : Bool × Cur :=
  if charsz ≠ 1 then (false, cur)
  else match d.hasYear4, d.hasD2 with
  | true, false =>
    if !sliceContainsX2 (tailFrom cur.c12 slice) 49 50 then
      (true, if d.rangeStart = 0 ∧ cur.c12 < slice.length then { cur with c12 := slice.length - charsz } else cur)
    else (false, cur)
  | false, true =>
    if !sliceContainsD2 (tailFrom cur.cd2 slice) then
      (true, if d.rangeStart = 0 ∧ cur.cd2 < slice.length then { cur with cd2 := slice.length - charsz } else cur)
    else (false, cur)
  | true, true =>
    if !sliceContains12D2 (tailFrom cur.c12d2 slice) then
      (true, if d.rangeStart = 0 ∧ cur.c12d2 < slice.length then { cur with c12d2 := slice.length - charsz } else cur)
    else (false, cur)
  | false, false => (false, cur)

/-- the stateless test: would `ezcheck_slice` with fresh cursors skip this row for this slice? -/
def ezcheckSkips (d : RowInfo) (slice : List UInt8) : Bool :=
  (ezcheckSlice d slice 1 ⟨0, 0, 0⟩).1

/-! ### `find_datetime_in_line` -/

/-- `line[a..b)` (contract of `Line::get_boxptrs(a, b)` + concatenation of the parts) -/
def lineSlice (line : List UInt8) (a b : Nat) : List UInt8 := (line.drop a).take (b - a)

/-- the `for` loop of `find_datetime_in_line` over `parse_data_indexes`.
`info i` = `DATETIME_PARSE_DATAS[i]`, `mt i slice` = `bytes_to_regex_to_datetime(slice, i, …)`
(`none` = the regex did not match or the captured text was not a date). -/
def findLoop {α : Type} (info : Nat → RowInfo) (mt : Nat → List UInt8 → Option α)
    (line : List UInt8) (charsz : Nat) : List Nat → Cur → Option (Nat × α)
  | [], _ => none
  | i :: rest, cur =>
    let d := info i
    if line.length ≤ d.rangeStart then findLoop info mt line charsz rest cur
    else if line.length ≤ cur.c12 then findLoop info mt line charsz rest cur
    else if line.length ≤ cur.cd2 then findLoop info mt line charsz rest cur
    else if line.length ≤ cur.c12d2 then findLoop info mt line charsz rest cur
    else
      let sliceEnd := min line.length d.rangeEnd
      if d.rangeStart ≥ sliceEnd then findLoop info mt line charsz rest cur
      else
        let slice := lineSlice line d.rangeStart sliceEnd
        -- `charsz == 1 && ezcheck_slice(…)`: short-circuit, cursors untouched when `charsz != 1`
        let ez := if charsz = 1 then ezcheckSlice d slice charsz cur else (false, cur)
        if ez.1 then findLoop info mt line charsz rest ez.2
        else match mt i slice with
          | none => findLoop info mt line charsz rest ez.2
          | some x => some (i, x)

/-- `SyslineReader::find_datetime_in_line`: `none` = either `Err` (too short / not found) -/
def findDatetimeInLine {α : Type} (strMin : Nat) (info : Nat → RowInfo) (mt : Nat → List UInt8 → Option α)
    (line : List UInt8) (charsz : Nat) (idxs : List Nat) : Option (Nat × α) :=
  if line.length < strMin then none
  else findLoop info mt line charsz idxs ⟨0, 0, 0⟩

/-- the same loop with every EZCHECK removed (no cursors, no `ezcheck_slice`) -/
def findLoopPlain {α : Type} (info : Nat → RowInfo) (mt : Nat → List UInt8 → Option α)
    (line : List UInt8) : List Nat → Option (Nat × α)
  | [] => none
  | i :: rest =>
    let d := info i
    if line.length ≤ d.rangeStart then findLoopPlain info mt line rest
    else
      let sliceEnd := min line.length d.rangeEnd
      if d.rangeStart ≥ sliceEnd then findLoopPlain info mt line rest
      else match mt i (lineSlice line d.rangeStart sliceEnd) with
        | none => findLoopPlain info mt line rest
        | some x => some (i, x)

def findDatetimeInLinePlain {α : Type} (strMin : Nat) (info : Nat → RowInfo) (mt : Nat → List UInt8 → Option α)
    (line : List UInt8) (idxs : List Nat) : Option (Nat × α) :=
  if line.length < strMin then none
  else findLoopPlain info mt line idxs

end S4V.Model.Ezcheck
