/-
Interpreter of the statement language of `S4V.Gen.Lines` (gen/gen_lines.py): `LineReader::find_line`
is DATA (`S4V.Gen.Lines.findLine`, regenerated from src/readers/linereader.rs on every run) and this
file gives that data its meaning. Nothing of `find_line`'s control flow is written here.

Frame shared with the hand models: the block arithmetic of `S4V.Gen.Blocks`, `blockAt`, and the
store operations of `S4V.Model.LinesCached` (`lruGet` / `lruPromote`, `linesGet`, `getLinep`,
`insertLine` = the pinned helpers `check_store_LRU`, `get_linep`, `insert_line`).

Conventions (each justified by a shape check of the generator):
* a `.scan` evaluates its step and its bound once, before the loop (the generator refuses a scan whose
  arm assigns either); indexing a block out of range is "not a newline" (the release build panics there);
* `.read` of a block beyond the last one returns `Done` as `read_block` does; every request is recorded in
  `St.reads` (the access trace, in request order);
* `u64`/`usize` arithmetic is on `Nat`, `-` truncated (the hand models do the same);
* the release-active assertions of `LinePart::new` / `Line::append` / `Line::prepend` are not modelled
  (a part is recorded as given: block pointer, declared block offset, indices, declared file offset);
* `while` loops run on fuel `|d| + 2` (more iterations than blocks exist); exhausting it is `.nofuel`.
-/
import S4V.Model.LinesCached
import S4V.Gen.Lines

namespace S4V.Model.LineSkel
open S4V.Gen.Blocks S4V.Model.Lines S4V.Model.LinesCached S4V.Gen.Lines

/-- a `LinePart` as constructed: the block the pointer came from (`src`), then the arguments of
`LinePart::new` -/
structure GPart where
  src : Nat
  bo : Nat
  biBeg : Nat
  biEnd : Nat
  fo : Nat
  deriving DecidableEq, Repr, Inhabited

def GPart.toPart (p : GPart) : Part := ⟨p.bo, p.biBeg, p.biEnd⟩

/-- a hand-model part seen as a constructed part: pointer of its own block, offset of its first byte -/
def ofPart (bs : Nat) (p : Part) : GPart := ⟨p.bo, p.bo, p.biBeg, p.biEnd, fileOffsetAtBlockOffsetIndex p.bo bs p.biBeg⟩

/-- `Line::fileoffset_begin` -/
def gLineFoBeg (l : List GPart) : Nat :=
  match l.head? with
  | some p => p.fo
  | none => 0

/-- `Line::fileoffset_end`: `last.fileoffset + last.len() - 1` -/
def gLineFoEnd (l : List GPart) : Nat :=
  match l.getLast? with
  | some p => p.fo + (p.biEnd - p.biBeg) - 1
  | none => 0

inductive GRes where
  | done
  | found (foNext beg fin : Nat) (parts : List GPart)
  | panic      -- a release-active `assert!` failed
  | nofuel
  | fell       -- control reached the end of the statement list (not expressible in Rust)
  deriving DecidableEq, Repr, Inhabited

/-- what the hand model `findLineCached` reports -/
def GRes.toR : GRes → Option R
  | .done => some .done
  | .found n b e _ => some (.found n b e)
  | _ => none

def ofR : R → GRes
  | .done => .done
  | .found n b e => .found n b e []

structure Env where
  bs : Nat
  d : Bytes
  lruOn : Bool := true
  checkStore : List (Lookup × Expr)

structure St where
  fileoffset : Nat := 0
  filesz : Nat := 0
  boLast : Nat := 0
  charszFo : Nat := 0
  charszBi : Nat := 0
  foNlA : Nat := 0
  foNlB : Nat := 0
  boMiddle : Nat := 0
  biMiddle : Nat := 0
  biMiddleEnd : Nat := 0
  biAt : Nat := 0
  biStop : Nat := 0
  biU : Nat := 0
  biBeg : Nat := 0
  biEnd : Nat := 0
  bof : Nat := 0
  foU : Nat := 0
  foNext : Nat := 0
  foStart : Nat := 0
  foNlA1 : Nat := 0
  biStart : Nat := 0
  biStartPrior : Nat := 0
  blen : Nat := 0
  bofA1 : Nat := 0
  foEnd : Nat := 0
  cBiUninit : Nat := 0
  cBiStop : Nat := 0
  foundNlA : Bool := false
  foundNlB : Bool := false
  foNlBInMiddle : Bool := false
  nlBEof : Bool := false
  begof : Bool := false
  bMiddle : Nat := 0
  bCur : Nat := 0
  bPrior : Nat := 0
  line : List GPart := []
  reads : List Nat := []
  store : Store := empty
  storedEnd : Nat := 0
  /-- `linep`: bounds and parts of the line `insert_line` returned -/
  inserted : Nat × Nat × List GPart := (0, 0, [])
  deriving Repr, Inhabited

def St.get (st : St) : Var → Nat
  | .fileoffset => st.fileoffset
  | .filesz => st.filesz
  | .boLast => st.boLast
  | .charszFo => st.charszFo
  | .charszBi => st.charszBi
  | .foNlA => st.foNlA
  | .foNlB => st.foNlB
  | .boMiddle => st.boMiddle
  | .biMiddle => st.biMiddle
  | .biMiddleEnd => st.biMiddleEnd
  | .biAt => st.biAt
  | .biStop => st.biStop
  | .biU => st.biU
  | .biBeg => st.biBeg
  | .biEnd => st.biEnd
  | .bof => st.bof
  | .foU => st.foU
  | .foNext => st.foNext
  | .foStart => st.foStart
  | .foNlA1 => st.foNlA1
  | .biStart => st.biStart
  | .biStartPrior => st.biStartPrior
  | .blen => st.blen
  | .bofA1 => st.bofA1
  | .foEnd => st.foEnd
  | .cBiUninit => st.cBiUninit
  | .cBiStop => st.cBiStop

def St.set (st : St) : Var → Nat → St
  | .fileoffset, n => { st with fileoffset := n }
  | .filesz, n => { st with filesz := n }
  | .boLast, n => { st with boLast := n }
  | .charszFo, n => { st with charszFo := n }
  | .charszBi, n => { st with charszBi := n }
  | .foNlA, n => { st with foNlA := n }
  | .foNlB, n => { st with foNlB := n }
  | .boMiddle, n => { st with boMiddle := n }
  | .biMiddle, n => { st with biMiddle := n }
  | .biMiddleEnd, n => { st with biMiddleEnd := n }
  | .biAt, n => { st with biAt := n }
  | .biStop, n => { st with biStop := n }
  | .biU, n => { st with biU := n }
  | .biBeg, n => { st with biBeg := n }
  | .biEnd, n => { st with biEnd := n }
  | .bof, n => { st with bof := n }
  | .foU, n => { st with foU := n }
  | .foNext, n => { st with foNext := n }
  | .foStart, n => { st with foStart := n }
  | .foNlA1, n => { st with foNlA1 := n }
  | .biStart, n => { st with biStart := n }
  | .biStartPrior, n => { st with biStartPrior := n }
  | .blen, n => { st with blen := n }
  | .bofA1, n => { st with bofA1 := n }
  | .foEnd, n => { st with foEnd := n }
  | .cBiUninit, n => { st with cBiUninit := n }
  | .cBiStop, n => { st with cBiStop := n }

def St.getFlag (st : St) : Flag → Bool
  | .foundNlA => st.foundNlA
  | .foundNlB => st.foundNlB
  | .foNlBInMiddle => st.foNlBInMiddle
  | .nlBEof => st.nlBEof
  | .begof => st.begof

def St.setFlag (st : St) : Flag → Bool → St
  | .foundNlA, b => { st with foundNlA := b }
  | .foundNlB, b => { st with foundNlB := b }
  | .foNlBInMiddle, b => { st with foNlBInMiddle := b }
  | .nlBEof, b => { st with nlBEof := b }
  | .begof, b => { st with begof := b }

def St.getBlk (st : St) : Blk → Nat
  | .middle => st.bMiddle
  | .cur => st.bCur
  | .prior => st.bPrior

def St.setBlk (st : St) : Blk → Nat → St
  | .middle, n => { st with bMiddle := n }
  | .cur, n => { st with bCur := n }
  | .prior, n => { st with bPrior := n }

/-- the byte `NLu8` -/
def nlByte : UInt8 := UInt8.ofNat NLu8

def blockOf (env : Env) (st : St) (b : Blk) : Bytes := blockAt env.d env.bs (st.getBlk b)

def _root_.S4V.Gen.Lines.Expr.eval (env : Env) (st : St) : Expr → Nat
  | .v x => st.get x
  | .lit n => n
  | .charsz => CHARSZ
  | .fileSz => env.d.length
  | .blockoffsetLast => blockOffsetLast env.d.length env.bs
  | .lineFoEnd => gLineFoEnd st.line
  | .nParts => st.line.length
  | .storedEnd => st.storedEnd
  | .add a b => a.eval env st + b.eval env st
  | .sub a b => a.eval env st - b.eval env st
  | .max a b => max (a.eval env st) (b.eval env st)
  | .boAt e => blockOffsetAtFileOffset (e.eval env st) env.bs
  | .biAt e => blockIndexAtFileOffset (e.eval env st) env.bs
  | .foAt bo bi => fileOffsetAtBlockOffsetIndex (bo.eval env st) env.bs (bi.eval env st)
  | .len b => (blockOf env st b).length
  | .linepEnd k =>
    match getLinep st.store (k.eval env st) with
    | some (_, e) => e
    | none => 0

def _root_.S4V.Gen.Lines.Cmp.eval (op : Cmp) (a b : Nat) : Bool :=
  match op with
  | .eq => a == b
  | .ne => a != b
  | .lt => decide (a < b)
  | .le => decide (a ≤ b)
  | .gt => decide (a > b)
  | .ge => decide (a ≥ b)

def _root_.S4V.Gen.Lines.BExpr.eval (env : Env) (st : St) : BExpr → Bool
  | .flag f => st.getFlag f
  | .not b => !(b.eval env st)
  | .and a b => a.eval env st && b.eval env st
  | .cmp op l r => op.eval (l.eval env st) (r.eval env st)
  | .isNL b i => (blockOf env st b)[i.eval env st]? == some nlByte
  | .linesHas k => (linesGet st.store.lines (k.eval env st)).isSome
  | .linepSome k => (getLinep st.store (k.eval env st)).isSome
  | .storesBo e => st.line.any (·.bo == e.eval env st)
  | .lruOn => env.lruOn

inductive Out where
  | norm (st : St)
  | brk (st : St)
  | ret (r : GRes) (st : St)
  deriving Repr, Inhabited

/-- forward scan `loop { if blk[i] == NL { …; break; } else { i += step; } if i OP bound { break; } }`:
`(hit?, final index)` -/
def scanFwdG (blk : Bytes) (step : Nat) (op : Cmp) (bound : Nat) : Nat → Nat → Bool × Nat
  | 0, i => (false, i)
  | fuel + 1, i =>
    if blk[i]? == some nlByte then (true, i)
    else if op.eval (i + step) bound then (false, i + step)
    else scanFwdG blk step op bound fuel (i + step)

/-- backward scan `loop { if blk[i] == NL { …; break; } if i OP bound { break; } i -= step; }` -/
def scanBwdG (blk : Bytes) (step : Nat) (op : Cmp) (bound : Nat) : Nat → Nat → Bool × Nat
  | 0, i => (false, i)
  | fuel + 1, i =>
    if blk[i]? == some nlByte then (true, i)
    else if op.eval i bound then (false, i)
    else scanBwdG blk step op bound fuel (i - step)

/-- `while c { body }`; `body` returns `.brk` for `break` -/
def whileG (c : St → Bool) (body : St → Out) : Nat → St → Out
  | 0, st => .ret .nofuel st
  | fuel + 1, st =>
    if c st then
      match body st with
      | .norm st' => whileG c body fuel st'
      | .brk st' => .norm st'
      | o => o
    else .norm st

/-- `LruCache::put` with the regenerated capacity -/
def lruPutG (l : List (Nat × R)) (fo : Nat) (r : R) : List (Nat × R) :=
  ((fo, r) :: l.filter (·.1 != fo)).take LRU_SZ

def lookupG (s : Store) : Lookup → Nat → Option (Nat × Nat)
  | .linesKey _, k => linesGet s.lines k
  | .linep _, k => getLinep s k

/-- `check_store(key)`: the lookups in order; the first hit is cached and returned -/
def storeCheckG (env : Env) (st : St) (key : Nat) : List (Lookup × Expr) → Out
  | [] => .norm st
  | (lk, nextE) :: rest =>
    let k := match lk with
      | .linesKey e => e.eval env { st with fileoffset := key }
      | .linep e => e.eval env { st with fileoffset := key }
    match lookupG st.store lk k with
    | some (b, e) =>
      let next := nextE.eval env { st with storedEnd := e }
      let r := R.found next b e
      .ret (ofR r) (if env.lruOn then { st with store := { st.store with lru := lruPutG st.store.lru key r } } else st)
    | none => storeCheckG env st key rest

mutual
def exec (env : Env) : Stmt → St → Out
  | .set x e, st => .norm (st.set x (e.eval env st))
  | .setFlag f b, st => .norm (st.setFlag f b)
  | .lineNew, st => .norm { st with line := [] }
  | .read dst bo, st =>
    let b := bo.eval env st
    let st' := { st with reads := st.reads ++ [b] }
    if b > blockOffsetLast env.d.length env.bs then .ret .done st'
    else .norm (st'.setBlk dst b)
  | .copyBlk dst src, st => .norm (st.setBlk dst (st.getBlk src))
  | .part w blk b e fo bo, st =>
    let p : GPart := ⟨st.getBlk blk, bo.eval env st, b.eval env st, e.eval env st, fo.eval env st⟩
    match w with
    | .prepend => .norm { st with line := p :: st.line }
    | .append => .norm { st with line := st.line ++ [p] }
  | .scan fwd blk idx hit step op rhs, st =>
    let r := if fwd then
        scanFwdG (blockOf env st blk) (step.eval env st) op (rhs.eval env st) (env.d.length + 1) (st.get idx)
      else
        scanBwdG (blockOf env st blk) (step.eval env st) op (rhs.eval env st) (env.d.length + 1) (st.get idx)
    if r.1 then execL env hit (st.set idx r.2) else .norm (st.set idx r.2)
  | .ite c t e, st => if c.eval env st then execL env t st else execL env e st
  | .while c body, st => whileG (fun s => c.eval env s) (fun s => execL env body s) (env.d.length + 2) st
  | .brk, st => .brk st
  | .assert c, st => if c.eval env st then .norm st else .ret .panic st
  | .insert, st =>
    let beg := gLineFoBeg st.line
    let fin := gLineFoEnd st.line
    .norm { st with store := insertLine st.store beg fin, inserted := (beg, fin, st.line) }
  | .lruPutFound key next, st =>
    .norm { st with store := { st.store with
      lru := lruPutG st.store.lru (key.eval env st) (.found (next.eval env st) st.inserted.1 st.inserted.2.1) } }
  | .lruPutDone key, st =>
    .norm { st with store := { st.store with lru := lruPutG st.store.lru (key.eval env st) .done } }
  | .retFound next, st => .ret (.found (next.eval env st) st.inserted.1 st.inserted.2.1 st.inserted.2.2) st
  | .retDone, st => .ret .done st
  | .lruCheck key, st =>
    if env.lruOn then
      match lruGet st.store.lru (key.eval env st) with
      | some r => .ret (ofR r) { st with store := { st.store with lru := lruPromote st.store.lru (key.eval env st) } }
      | none => .norm st
    else .norm st
  | .storeCheck key, st => storeCheckG env st (key.eval env st) env.checkStore
def execL (env : Env) : List Stmt → St → Out
  | [], st => .norm st
  | s :: r, st =>
    match exec env s st with
    | .norm st' => execL env r st'
    | o => o
end

/-- run a program as `find_line(fo)` on a reader of `d` (block size `bs`) whose caches hold `s`:
the result, the caches afterwards, the blocks requested (in order) -/
def runFind (prog : List Stmt) (env : Env) (s : Store) (fo : Nat) : GRes × Store × List Nat :=
  match execL env prog { fileoffset := fo, store := s } with
  | .ret r st => (r, st.store, st.reads)
  | .norm st => (.fell, st.store, st.reads)
  | .brk st => (.fell, st.store, st.reads)

/-- the regenerated `find_line` -/
def findLineG (bs : Nat) (d : Bytes) (s : Store) (fo : Nat) : GRes × Store × List Nat :=
  runFind S4V.Gen.Lines.findLine { bs := bs, d := d, checkStore := S4V.Gen.Lines.checkStore } s fo

/-! ### histories (as `S4V.Model.LinesCached.runOps`) -/

def applyOpG (prog : List Stmt) (env : Env) (s : Store) : Op → Option GRes × Store
  | .find fo => let r := runFind prog env s fo; (some r.1, r.2.1)
  | .drop fo =>
    match getLinep s fo with
    | some (b, _) => (none, dropLine s b)
    | none => (none, s)

def runOpsG (prog : List Stmt) (env : Env) : Store → List Op → List (Option GRes) × Store
  | s, [] => ([], s)
  | s, op :: ops =>
    let r := applyOpG prog env s op
    let rs := runOpsG prog env r.2 ops
    (r.1 :: rs.1, rs.2)

/-! ### rendering for the driver -/

def GRes.toString : GRes → String
  | .done => "done"
  | .found n _ _ ps => s!"found {n} {partsStr (ps.map GPart.toPart)}"
  | .panic => "panic"
  | .nofuel => "nofuel"
  | .fell => "fell"

end S4V.Model.LineSkel
