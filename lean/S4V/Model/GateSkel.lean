/-
Interpreter of the regenerated decision skeleton of the block-zero acceptance gate
(`S4V.Gen.Gate`, translated by gen/gen_gate.py from `SyslogProcessor::process_stage0_valid_file_check`,
`blockzero_analysis{,_bytes,_lines,_syslines}`). The line / sysline finders are those of the hand model
(`findLineInBlock`, `findSyslineInBlock`); everything the gate itself decides — the order of the checks,
every comparison with its operands, the threshold map consulted, the loop conditions and counter
updates, the early returns, the sequencing of the two sysline passes — is read from the generated data.

`multi` stands for `patt_count_a > pass2Guard` (more than one datetime pattern matched in pass one):
pass two then recounts from the generated reset values with the same parser.
-/
import S4V.Model.Gate
import S4V.Gen.Gate

namespace S4V.Model.GateSkel
open S4V.Model.Lines hiding Res
open S4V.Gen.Blocks S4V.Model.Gate S4V.Gen.Gate

def resVerdict : Res → Verdict
  | .FileOk => .ok | .FileErrEmpty => .empty | .FileErrTooSmall => .tooSmall
  | .FileErrNullBytes => .nullBytes | .FileErrNoLinesFound => .noLines
  | .FileErrNoSyslinesFound => .noSyslines

/-- the values the operands denote at one program point -/
structure Env where
  filesz : Nat
  blocksz0 : Nat
  blocksz : Nat
  found : Nat := 0
  foundMin : Nat := 0
  boFo : Nat := 0

def evalOpd (th : Thresholds) (e : Env) : Opd → Nat
  | .filesz => e.filesz | .blocksz0 => e.blocksz0 | .blocksz => e.blocksz
  | .found => e.found | .foundMin => e.foundMin | .boFo => e.boFo
  | .bytesMin => th.bytesMin | .nullMax => th.nullMax
  | .lit n => n
  | .min a b => min (evalOpd th e a) (evalOpd th e b)

def evalCmp : Cmp → Nat → Nat → Bool
  | .lt, a, b => a < b | .le, a, b => a ≤ b | .gt, a, b => a > b
  | .ge, a, b => a ≥ b | .eq, a, b => a = b | .ne, a, b => a ≠ b

def evalCond (th : Thresholds) (e : Env) (c : Cond) : Bool :=
  evalCmp c.cmp (evalOpd th e c.lhs) (evalOpd th e c.rhs)

def lookup (th : Thresholds) : MapName → Nat → Nat
  | .line => th.lineMin
  | .sysline => th.syslineMin

/-- early-return checks in order; `none` = fell through -/
def runChecks (th : Thresholds) (e : Env) (b0 : Bytes) : List Check → Option Res
  | [] => none
  | .cmp c r :: rest => if evalCond th e c then some r else runChecks th e b0 rest
  | .allNull n r :: rest =>
    if (b0.take (evalOpd th e n)).all (· == 0) then some r else runChecks th e b0 rest

/-- the collecting loop; `find fo` is `find_line_in_block` / `find_sysline_in_block` -/
def runLoop (th : Thresholds) (L : Loop) (find : Nat → SIB) (bs : Nat) (e : Env) : Nat → Nat → Nat → Nat
  | 0, _, found => found
  | fuel + 1, fo, found =>
    if L.whileConds.all (evalCond th { e with found := found, boFo := blockOffsetAtFileOffset fo bs }) then
      match find fo with
      | .found foNext =>
        let found' := found + L.foundInc
        if L.postBreak.any (evalCond th { e with found := found', boFo := blockOffsetAtFileOffset foNext bs })
        then found' else runLoop th L find bs e fuel foNext found'
      | .donePartial => found + L.partialInc
      | .done => found
    else found

/-- `find_line_in_block` seen through the arms the gate distinguishes -/
def lineFind (bs : Nat) (d : Bytes) (fo : Nat) : SIB :=
  match findLineInBlock bs d fo with
  | .found foNext _ => .found foNext
  | .part _ => .donePartial
  | .done => .done

def runFinal (th : Thresholds) (e : Env) (f : Final) : Res :=
  if evalCond th e f.cond then f.ifTrue else f.ifFalse

def env0 (bs : Nat) (d : Bytes) : Env := { filesz := d.length, blocksz0 := (blockAt d bs 0).length, blocksz := bs }

def runBytes (th : Thresholds) (C : Checks) (bs : Nat) (d : Bytes) : Res :=
  (runChecks th (env0 bs d) (blockAt d bs 0) C.checks).getD C.final

def runLines (th : Thresholds) (C : Collect) (bs : Nat) (d : Bytes) : Res :=
  let e := { env0 bs d with foundMin := lookup th C.map (evalOpd th (env0 bs d) C.key) }
  let found := runLoop th C.loop (lineFind bs d) bs e (d.length + 1) C.fo0 C.found0
  runFinal th { e with found := found } C.final

def runSyslines (th : Thresholds) (S : Syslines) (multi : Bool) (P : Bytes → Option Int) (bs : Nat) (d : Bytes) : Res :=
  let e := { env0 bs d with foundMin := lookup th S.map (evalOpd th (env0 bs d) S.key) }
  let find := findSyslineInBlock P bs d (d.length + 1)
  let found1 := runLoop th S.loop find bs e (d.length + 1) S.fo0 S.found0
  match runChecks th { e with found := found1 } (blockAt d bs 0) S.early with
  | some r => r
  | none =>
    let found := if multi then runLoop th S.pass2 find bs e (d.length + 1) S.pass2Fo0 S.pass2Found0 else found1
    runFinal th { e with found := found } S.final

def runFn (th : Thresholds) (G : Skel) (multi : Bool) (P : Bytes → Option Int) (bs : Nat) (d : Bytes) : Fn → Res
  | .bytes => runBytes th G.bytes bs d
  | .lines => runLines th G.lines bs d
  | .syslines => runSyslines th G.syslines multi P bs d

def runSteps (th : Thresholds) (G : Skel) (multi : Bool) (P : Bytes → Option Int) (bs : Nat) (d : Bytes) : List Step → Res
  | [] => .FileOk
  | .check c r :: rest => if evalCond th (env0 bs d) c then r else runSteps th G multi P bs d rest
  | .callRet f :: rest =>
    let r := runFn th G multi P bs d f
    if r ≠ .FileOk then r else runSteps th G multi P bs d rest
  | .callIgnore _ :: rest => runSteps th G multi P bs d rest
  | .tail f :: _ => runFn th G multi P bs d f

/-- stage 0, then (when it says `FileOk`) stage 1 = `blockzero_analysis` -/
def gateSkelWith (th : Thresholds) (G : Skel) (multi : Bool) (P : Bytes → Option Int) (bs : Nat) (d : Bytes) : Verdict :=
  let r0 := (runChecks th (env0 bs d) (blockAt d bs 0) G.stage0.checks).getD G.stage0.final
  resVerdict (if r0 ≠ .FileOk then r0 else runSteps th G multi P bs d G.analysis)

/-- the regenerated gate: generated skeleton, generated thresholds -/
def gateSkel (multi : Bool) (P : Bytes → Option Int) (bs : Nat) (d : Bytes) : Verdict :=
  gateSkelWith generated S4V.Gen.Gate.skel multi P bs d

end S4V.Model.GateSkel
