/-
Model of the text of one printed accounting record: `FixedStruct::as_bytes`
(src/data/fixedstruct.rs), all 16 `FixedStructType` layouts.

The per-layout *render programs* (which macro is applied to which field, in which order, between
which literals), the struct field tables, the `UT_TYPE_VAL_TO_STR` names, the epilogue and the print
buffer size are GENERATED (`S4V.Gen.FixedRender`, gen/gen_fixedrender.py). This file is the hand model
of what each macro writes (`emit`), mirroring the macro bodies the translator pins:

  * numbers: `numtoa(10, ..)` of the field's OWN type = canonical decimal, `-` for negatives;
  * `cstrn`: array elements up to the first NUL or the array end; an element goes through
    `u8::try_from(*b_)` with `Err(_) => 0`: for `c_char = i8` arrays every byte ≥ 0x80 is written as a
    NUL byte, for `u8` arrays it is written unchanged;
  * `ut_type`: the table name when `0 ≤ v < len`, the decimal number otherwise;
  * `bin4`: `format!("0b{:04b}", v)` of a one-byte value (two's complement bits for `i8`);
  * flag names: see `flagText` (includes the `buffer[at - 1] == b'|'` back-step);
  * `addr`: words 1..3 all zero ⇒ label + dotted quad of word 0's bytes in memory order, else label +
    the four words in upper-case hex (`{:X}` of `i32` = two's complement) joined by `:`;
  * `f32`: `format!("{}", f32)` — shortest round-trip decimal, never scientific (`fmtF32`, a
    transcription of `core::num::flt2dec` `decode` + `strategy::dragon::format_shortest` +
    `digits_to_dec_str`; Rust uses Grisu with Dragon as fallback, both yield the same digits);
  * epilogue: `\n` then NUL, both counted (known finding F12).

Byte order: fields are read from the `#[repr(C)]` struct natively; the model decodes little-endian
(x86_64, as in `S4V.Model.Fixed`).
-/
import S4V.Gen.FixedRender
import S4V.Model.Fixed

namespace S4V.Model.FixedRender
open S4V.Gen.Fixed (Prim)
open S4V.Gen.FixedRender
open S4V.Model.Fixed (Bytes leNat ofStored slice)

/-! ### decimal / binary / hex text of a natural number -/

def digitChar (d : Nat) : UInt8 := UInt8.ofNat (48 + d)

/-- most significant first; `fuel` bounds the number of digits -/
def decFuel : Nat → Nat → Bytes
  | 0, _ => []
  | f + 1, n => if n < 10 then [digitChar n] else decFuel f (n / 10) ++ [digitChar (n % 10)]

/-- canonical decimal text (`"0"` for 0, no leading zeros) -/
def decNat (n : Nat) : Bytes := decFuel (n + 1) n

/-- `numtoa(10, ..)` of a signed or unsigned integer -/
def decInt (v : Int) : Bytes := if v < 0 then 45 :: decNat v.natAbs else decNat v.toNat

def baseFuel (b : Nat) (dig : Nat → UInt8) : Nat → Nat → Bytes
  | 0, _ => []
  | f + 1, n => if n < b then [dig n] else baseFuel b dig f (n / b) ++ [dig (n % b)]

def binNat (n : Nat) : Bytes := baseFuel 2 digitChar (n + 1) n

def hexUpperChar (d : Nat) : UInt8 := if d < 10 then UInt8.ofNat (48 + d) else UInt8.ofNat (55 + d)

/-- `format!("{:X}", v)` of the stored (unsigned) bits -/
def hexUpperNat (n : Nat) : Bytes := baseFuel 16 hexUpperChar (n + 1) n

def padLeft (w : Nat) (c : UInt8) (s : Bytes) : Bytes := List.replicate (w - s.length) c ++ s

/-! ### decoding fields -/

/-- the raw unsigned content of `size` bytes at `off` -/
def storedAt (record : Bytes) (off size : Nat) : Nat := leNat (slice record off size)

/-- `decodeField` for integers: the value of the field as its DECLARED primitive type -/
def fieldInt (record : Bytes) (f : IntRef) : Int := ofStored f.prim (storedAt record f.off f.prim.bytes)

/-! ### `format!("{}", f32)` -/

structure Decoded where
  mant : Nat
  minus : Nat
  plus : Nat
  exp : Int
  inclusive : Bool
  deriving Repr, DecidableEq

inductive FullDecoded
  | nan | infinite | zero
  | finite (d : Decoded)
  deriving Repr, DecidableEq

/-- `flt2dec::decoder::decode::<f32>` on the 32 bits: (negative, decoded) -/
def decodeF32 (bits : Nat) : Bool × FullDecoded :=
  let neg := decide (bits / 2147483648 % 2 = 1)
  let e := bits / 8388608 % 256
  let frac := bits % 8388608
  -- `integer_decode`
  let mant := if e = 0 then frac * 2 else frac + 8388608
  let exp : Int := (e : Int) - 150
  let even := decide (mant % 2 = 0)
  if e = 255 then (neg, if frac = 0 then .infinite else .nan)
  else if e = 0 ∧ frac = 0 then (neg, .zero)
  else if e = 0 then (neg, .finite ⟨mant, 1, 1, exp, even⟩)
  else if mant = 8388608 then (neg, .finite ⟨mant * 4, 1, 2, exp - 2, even⟩)
  else (neg, .finite ⟨mant * 2, 1, 1, exp - 1, even⟩)

/-- `estimate_scaling_factor(mant, exp)` -/
def estimateK (mant : Nat) (exp : Int) : Int :=
  let nbits : Nat := if mant - 1 = 0 then 0 else Nat.log2 (mant - 1) + 1
  (((nbits : Int) + exp) * 1292913986) / 4294967296

/-- `a.cmp(b) < rounding` with `rounding = if inclusive { Greater } else { Equal }` -/
def cmpLt (inclusive : Bool) (a b : Nat) : Bool := if inclusive then decide (a ≤ b) else decide (a < b)

/-- the digit-generation loop of `dragon::format_shortest`: digits so far (most significant first),
then `(digits, mant, down, up)` at the `break` -/
def dragonLoop (inclusive : Bool) (scale : Nat) : Nat → Nat → Nat → Nat → List Nat → List Nat × Nat × Bool × Bool
  | 0, mant, _, _, ds => (ds, mant, true, false)
  | fuel + 1, mant, minus, plus, ds =>
    let d := mant / scale
    let mant := mant % scale
    let ds := ds ++ [d]
    let down := cmpLt inclusive mant minus
    let up := cmpLt inclusive scale (mant + plus)
    if down || up then (ds, mant, down, up)
    else dragonLoop inclusive scale fuel (mant * 10) (minus * 10) (plus * 10) ds

def digitsVal (ds : List Nat) : Nat := ds.foldl (fun a d => 10 * a + d) 0

/-- most significant first, exactly `n` digits of `v` (`v < 10^n`) -/
def toDigitsN : Nat → Nat → List Nat
  | 0, _ => []
  | n + 1, v => toDigitsN n (v / 10) ++ [v % 10]

/-- `dragon::format_shortest`: `(digits, k)` with value `0.d₀d₁… × 10^k` -/
def formatShortest (d : Decoded) : List Nat × Int :=
  let k0 := estimateK (d.mant + d.plus) d.exp
  let sh : Nat := d.exp.toNat
  let (mant, minus, plus, scale) :=
    if d.exp < 0 then (d.mant, d.minus, d.plus, 2 ^ (-d.exp).toNat)
    else (d.mant * 2 ^ sh, d.minus * 2 ^ sh, d.plus * 2 ^ sh, 1)
  let (mant, minus, plus, scale) :=
    if 0 ≤ k0 then (mant, minus, plus, scale * 10 ^ k0.toNat)
    else (mant * 10 ^ (-k0).toNat, minus * 10 ^ (-k0).toNat, plus * 10 ^ (-k0).toNat, scale)
  let (k, mant, minus, plus) :=
    if cmpLt d.inclusive scale (mant + plus) then (k0 + 1, mant, minus, plus)
    else (k0, mant * 10, minus * 10, plus * 10)
  let (ds, mant, down, up) := dragonLoop d.inclusive scale 64 mant minus plus []
  if up && (!down || decide (scale ≤ mant * 2)) then
    -- `round_up`
    let v := digitsVal ds + 1
    if v = 10 ^ ds.length then (1 :: List.replicate ds.length 0, k + 1)
    else (toDigitsN ds.length v, k)
  else (ds, k)

/-- `digits_to_dec_str(digits, exp, frac_digits = 0)` -/
def digitsToDecStr (ds : List Nat) (exp : Int) : Bytes :=
  let txt := ds.map digitChar
  if exp ≤ 0 then [48, 46] ++ List.replicate (-exp).toNat 48 ++ txt
  else if exp.toNat < ds.length then txt.take exp.toNat ++ [46] ++ txt.drop exp.toNat
  else txt ++ List.replicate (exp.toNat - ds.length) 48

/-- `format!("{}", f32::from_bits(bits))` -/
def fmtF32 (bits : Nat) : Bytes :=
  match decodeF32 bits with
  | (_, .nan) => [78, 97, 78]
  | (neg, .infinite) => (if neg then [45] else []) ++ [105, 110, 102]
  | (neg, .zero) => (if neg then [45] else []) ++ [48]
  | (neg, .finite d) =>
    let (ds, k) := formatShortest d
    (if neg then [45] else []) ++ digitsToDecStr ds k

/-! ### what each macro writes -/

/-- `set_buffer_at_or_err_cstrn!`: elements up to the first NUL (or the array end); each through
`set_buffer_at_or_err_i8!` = `u8::try_from(x)` with `Err(_) => 0` -/
def cstrText (record : Bytes) (off len : Nat) (elemSigned : Bool) : Bytes :=
  ((slice record off len).takeWhile (· ≠ 0)).map fun b => if elemSigned && decide (128 ≤ b.toNat) then 0 else b

/-- `set_buffer_at_or_err_ut_type!` -/
def utTypeText (v : Int) : Bytes :=
  if 0 ≤ v ∧ v < (utTypeNames.length : Int) then utTypeNames.getD v.toNat [] else decInt v

/-- `format!("0b{:04b}", v)` of a one-byte value with stored bits `n` -/
def bin4Text (n : Nat) : Bytes := [48, 98] ++ padLeft 4 48 (binNat n)

/-- the flag-name block; `n` = stored bits of the flag byte -/
def flagText (n : Nat) (opn : Bytes) (names : List (Nat × Bytes)) (cls : Bytes) : Bytes :=
  if n = 0 then []
  else
    let s := opn ++ (names.filter fun p => n &&& p.1 ≠ 0).flatMap (·.2)
    -- `if buffer[at - 1] == b'|' { at -= 1; }`
    let s := if s.getLast? = some 124 then s.dropLast else s
    s ++ cls

/-- `set_buffer_at_or_err_ipv4!`: the four bytes of the word in memory order, decimal, joined by `.` -/
def ipv4Text (record : Bytes) (off : Nat) : Bytes :=
  decNat (storedAt record off 1) ++ [46] ++ decNat (storedAt record (off + 1) 1) ++ [46]
    ++ decNat (storedAt record (off + 2) 1) ++ [46] ++ decNat (storedAt record (off + 3) 1)

/-- `set_buffer_at_or_err_ipv6!`: `format!("{:X}:{:X}:{:X}:{:X}", w0, w1, w2, w3)` -/
def ipv6Text (record : Bytes) (off : Nat) : Bytes :=
  hexUpperNat (storedAt record off 4) ++ [58] ++ hexUpperNat (storedAt record (off + 4) 4) ++ [58]
    ++ hexUpperNat (storedAt record (off + 8) 4) ++ [58] ++ hexUpperNat (storedAt record (off + 12) 4)

/-- `utmpx.ut_addr_v6[1..4].iter().all(|&x| x == 0)` -/
def addrIsV4 (record : Bytes) (off : Nat) : Bool :=
  storedAt record (off + 4) 4 == 0 && storedAt record (off + 8) 4 == 0 && storedAt record (off + 12) 4 == 0

/-- bytes one op appends -/
def emit (record : Bytes) : Op → Bytes
  | .str s => s
  | .byte b => [b]
  | .dtBeg => []
  | .dtEnd => []
  | .utType f _ => utTypeText (fieldInt record f)
  | .num f _ => decInt (fieldInt record f)
  | .f32 _ _ off => fmtF32 (storedAt record off 4)
  | .bin4 f => bin4Text (storedAt record f.off 1)
  | .cstrn _ _ off len sg => cstrText record off len sg
  | .flagNames f opn names cls => flagText (storedAt record f.off 1) opn names cls
  | .addr _ _ off _ l4 l6 =>
    if addrIsV4 record off then l4 ++ ipv4Text record off else l6 ++ ipv6Text record off

/-- text of a program (without the epilogue) -/
def progText (record : Bytes) (ops : List Op) : Bytes := ops.flatMap (emit record)

/-- `as_bytes` into a buffer that is large enough: the record's line, `\n`, NUL -/
def render (l : LayoutR) (record : Bytes) : Bytes := progText record l.prog ++ epilogue

/-- value of `at` when `marker` (`dtBeg` / `dtEnd`) is reached -/
def markAt (record : Bytes) (ops : List Op) (marker : Op) : Nat :=
  (progText record (ops.takeWhile (· ≠ marker))).length

inductive Info
  /-- `InfoAsBytes::Ok(at, dt_beg, dt_end)` with `buffer[..at]` -/
  | ok (text : Bytes) (dtBeg dtEnd : Nat)
  /-- `InfoAsBytes::Fail(at)` with `buffer[..at]` -/
  | fail (text : Bytes)
  deriving Repr, DecidableEq

/-- `as_bytes(buffer)` with `buffer.len() = cap`. Every byte is written through
`set_buffer_at_or_err_u8!` (`at >= buffer.len()` ⇒ `return Fail(at)`), `at` grows by one per byte, and the
only back-step (`at -= 1` in the flag block) is immediately followed by a write at the same index, so:
the call fails iff the full text is longer than `cap`, with `at = cap` and `buffer[..cap]` = the first
`cap` bytes of the full text. -/
def renderInto (cap : Nat) (l : LayoutR) (record : Bytes) : Info :=
  let full := render l record
  if full.length ≤ cap then .ok full (markAt record l.prog .dtBeg) (markAt record l.prog .dtEnd)
  else .fail (full.take cap)

end S4V.Model.FixedRender
