/-
Hand model of the acceptance gate of a text log — `SyslogProcessor::
blockzero_analysis{,_bytes,_lines,_syslines}` (src/readers/syslogprocessor.rs)
with `SyslineReader::find_sysline_in_block_year` (src/readers/syslinereader.rs)
on a fresh reader. Unlike everything above the line layer, the gate looks at
BLOCK ZERO only, so its verdict depends on the block size.

Thresholds come from `S4V.Gen.Consts` (regenerated from the source). The
thresholds are parameters of `gateWith` so that small witnesses can be
evaluated by the kernel; `gate` instantiates them with the generated values.
-/
import S4V.Model.Lines
import S4V.Gen.Consts

namespace S4V.Model.Gate
open S4V.Model.Lines S4V.Gen.Blocks S4V.Gen.Consts

inductive Verdict where
  | ok | empty | tooSmall | nullBytes | noLines | noSyslines
  deriving DecidableEq, Repr, Inhabited

def Verdict.toString : Verdict → String
  | .ok => "FileOk" | .empty => "FileErrEmpty" | .tooSmall => "FileErrTooSmall"
  | .nullBytes => "FileErrNullBytes" | .noLines => "FileErrNoLinesFound" | .noSyslines => "FileErrNoSyslinesFound"

structure Thresholds where
  bytesMin : Nat
  nullMax : Nat
  lineMin : Nat → Nat
  syslineMin : Nat → Nat

def generated : Thresholds :=
  ⟨BLOCKZERO_ANALYSIS_BYTES_MIN, BLOCKZERO_ANALYSIS_BYTES_NULL_MAX, lineCountMin, syslineCountMin⟩

def lineBytes (d : Bytes) (bs : Nat) (ps : List Part) : Bytes := partsBytes d bs ps

/-- `blockzero_analysis_lines` -/
def gateLinesLoop (bs : Nat) (d : Bytes) (foundMin : Nat) : Nat → Nat → Nat → Nat
  | 0, _, found => found
  | fuel + 1, fo, found =>
    if found ≥ foundMin then found
    else
      match findLineInBlock bs d fo with
      | .found foNext _ =>
        if blockOffsetAtFileOffset foNext bs ≠ 0 then found + 1
        else gateLinesLoop bs d foundMin fuel foNext (found + 1)
      | .part _ => found + 1
      | .done => found

inductive SIB where
  | found (foNext : Nat)
  | donePartial
  | done
  deriving DecidableEq, Repr

/-- part B of `find_sysline_in_block_year` -/
def sibPartB (P : Bytes → Option Int) (bs : Nat) (d : Bytes) (fin0 : Nat) : Nat → Nat → Nat → SIB
  | 0, _, _ => .done
  | fuel + 1, fo1, fin =>
    match findLineInBlock bs d fo1 with
    | .found fo2 ps =>
      match P (lineBytes d bs ps) with
      | some _ => .found fo1
      | none => sibPartB P bs d fin0 fuel fo2 (fo2 - 1)
    | _ =>
      if fo1 < d.length - 1 then .donePartial else .found (fin + 1)

/-- `find_sysline_in_block_year(fo)` on a reader without cached results -/
def findSyslineInBlock (P : Bytes → Option Int) (bs : Nat) (d : Bytes) : Nat → Nat → SIB
  | 0, _ => .done
  | fuel + 1, fo1 =>
    match findLineInBlock bs d fo1 with
    | .found fo2 ps =>
      match P (lineBytes d bs ps) with
      | some _ =>
        let fin := fo2 - 1
        if fin + 1 = d.length then .found fo2
        else sibPartB P bs d fin (d.length + 1) fo2 fin
      | none => findSyslineInBlock P bs d fuel fo2
    | .part ps =>
      match P (lineBytes d bs ps) with
      | some _ => .donePartial
      | none => .done
    | .done => .done

/-- `blockzero_analysis_syslines`, one pass -/
def gateSyslinesLoop (P : Bytes → Option Int) (bs : Nat) (d : Bytes) (foundMin : Nat) : Nat → Nat → Nat → Nat
  | 0, _, found => found
  | fuel + 1, fo, found =>
    if found ≥ foundMin ∨ blockOffsetAtFileOffset fo bs ≠ 0 then found
    else
      match findSyslineInBlock P bs d (d.length + 1) fo with
      | .found foNext => gateSyslinesLoop P bs d foundMin fuel foNext (found + 1)
      | .donePartial => found + 1
      | .done => found

def gateWith (th : Thresholds) (P : Bytes → Option Int) (bs : Nat) (d : Bytes) : Verdict :=
  if d.length = 0 then .empty
  else
    let b0 := blockAt d bs 0
    let sz0 := b0.length
    if sz0 < min th.bytesMin bs then .tooSmall
    else if (b0.take th.nullMax).all (· == 0) then .nullBytes
    else
      let lmin := th.lineMin sz0
      if gateLinesLoop bs d lmin (d.length + 1) 0 0 < lmin then .noLines
      else
        let smin := th.syslineMin sz0
        let found := gateSyslinesLoop P bs d smin (d.length + 1) 0 0
        if found = 0 ∨ found < smin then .noSyslines else .ok

/-- the gate with the thresholds of the source -/
def gate (P : Bytes → Option Int) (bs : Nat) (d : Bytes) : Verdict := gateWith generated P bs d

end S4V.Model.Gate
