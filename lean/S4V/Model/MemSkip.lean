/-
Refinement of `S4V.Model.Mem` by the one effect of `SyslogProcessor::drop_data`'s short-cut
`if blockoffset == self.drop_block_last { return false }` that is NOT the skip of a repeated drop:
`drop_block_last` is initialised with `DROP_BLOCK_LAST_INIT` (= 0, `SyslogProcessor::new`) and assigned
only after a `syslinereader.drop_data(blockoffset)` that ran, so a drop whose target equals the initial
value never runs.  With `drop_data_try` = `if bo_first > 1 { drop_data(bo_first - 2) }` the first
target of every file is `0`: it is skipped for as long as messages start in block 2, and the messages
of blocks 0, 1 and 2 are all stored when the first drop (target 1) happens.  The targets are
non-decreasing, so every later coincidence `blockoffset == drop_block_last` is the repetition of a drop
that ran and has nothing left to select (as `S4V.Model.Mem` says).

Everything else (`findMsg`, `dropTryG`, the consumer) is `S4V.Model.Mem`.  On the real binary the three
high-water marks of `--summary` equal the marks of `runS` exactly on generated files with several
messages per block (38 runs, plain and gz, `--blocksz` 256 … 4096), where `run` reports `lines high` /
`syslines high` one block's worth of messages too low.
-/
import S4V.Model.Mem

namespace S4V.Model.MemSkip
open S4V.Model.Mem S4V.Gen.Consts S4V.Gen.Stream

/-- `drop_data_try(message prev)`: nothing happens when the target is the initial `drop_block_last` -/
def dropTryS (visitAll : Bool) (msgs : List Msg) (held : Nat → Bool) (st : St) (prev : Nat) : St :=
  let boF := (msgs.getD prev []).first
  if boF > DROP_TRY_GUARD ∧ boF - DROP_TRY_BACK = DROP_BLOCK_LAST_INIT then st
  else dropTryG visitAll msgs held st prev

/-- `S4V.Model.Mem.loopG` with `dropTryS` -/
def loopS (visitAll streamed : Bool) (msgs : List Msg) (lag : Nat → Nat) : Nat → Nat → St → St
  | 0, _, st => st
  | fuel + 1, k, st =>
    if k < msgs.length then
      let st := findMsg streamed msgs st k
      if k + 1 = msgs.length then st
      else
        let st := if k ≥ 1 then dropTryS visitAll msgs (fun j => decide (k < j + min (lag k) (CHANNEL_CAPACITY + 2))) st (k - 1) else st
        loopS visitAll streamed msgs lag fuel (k + 1) st
    else st

def runSG (visitAll streamed : Bool) (lag : Nat → Nat) (msgs : List Msg) : St :=
  loopS visitAll streamed msgs lag (msgs.length + 1) 0 St.init

/-- the code as it is -/
def runS (streamed : Bool) (lag : Nat → Nat) (msgs : List Msg) : St :=
  runSG DROP_LINES_VISITS_ALL streamed lag msgs

end S4V.Model.MemSkip
