/-
Model of the coordinator loop `processing_loop` (src/bin/s4.rs): one worker
per source sends `FileInfo, NewMessage*, FileSummary` over its own FIFO
channel; the coordinator polls the channels that have no pending message
while `live.len ≠ pending.len ∨ fileinfo outstanding`, otherwise prints the
earliest pending message (first minimum in PathId order).

Layer 1 (this file, `St`/`step`): each source is the stream of data it will
still deliver; *which* eligible channel a poll returns is the nondeterminism
(`Ev.recv i`). Layer 2 (`BSt`/`bstep`): explicit bounded buffers and worker
send/close steps, refining layer 1.
-/
namespace S4V.Model.Coord

structure Msg where
  dt : Int        -- instant in ns (what `DateTime<FixedOffset>::cmp` compares)
  tag : Nat       -- identity of the message within its source
  deriving DecidableEq, Repr, Inhabited

inductive Datum where
  | fileInfo (ok : Bool)
  | msg (m : Msg)
  | summary (ok : Bool)
  deriving DecidableEq, Repr, Inhabited

/-- messages contained in a stream of data -/
def msgsOf : List Datum → List Msg
  | [] => []
  | .msg m :: r => m :: msgsOf r
  | _ :: r => msgsOf r

structure St where
  streams : List (List Datum)   -- per PathId: data not yet received (FIFO)
  live : List Bool              -- channel still in MAP_PATHID_CHANRECVDATUM
  pending : List (Option Msg)   -- map_pathid_datum
  fi : Option (List Bool)       -- map_pathid_received_fileinfo; `none` once cleared
  printed : List (Nat × Msg)    -- (PathId, message) in print order
  errs : Nat                    -- summaries/fileinfos that were not ok + disconnects
  fin : Bool                    -- loop left through "no channel left"
  broke : Bool                  -- loop left through `recv_many_chan → None`
  deriving Repr

def init (scripts : List (List Datum)) : St :=
  { streams := scripts
    live := scripts.map (fun _ => true)
    pending := scripts.map (fun _ => none)
    fi := some (scripts.map (fun _ => false))
    printed := []
    errs := 0
    fin := false
    broke := false }

def countTrue (l : List Bool) : Nat := (l.filter id).length
def countSome (l : List (Option Msg)) : Nat := (l.filter Option.isSome).length

/-- the loop's wait condition -/
def waitCond (s : St) : Bool :=
  countTrue s.live != countSome s.pending || s.fi.isSome

/-- channel `i` is polled: live and without a pending message -/
def eligible (s : St) (i : Nat) : Bool :=
  s.live.getD i false && (s.pending.getD i none).isNone

def anyEligible (s : St) : Bool :=
  (List.range s.live.length).any (eligible s)

/-- first minimum by `dt` in PathId order (`Iterator::min_by` keeps the first) -/
def minPendingAux : List (Option Msg) → Nat → Option (Nat × Msg) → Option (Nat × Msg)
  | [], _, best => best
  | none :: r, i, best => minPendingAux r (i + 1) best
  | some m :: r, i, none => minPendingAux r (i + 1) (some (i, m))
  | some m :: r, i, some (j, b) =>
    if m.dt < b.dt then minPendingAux r (i + 1) (some (i, m)) else minPendingAux r (i + 1) (some (j, b))

def minPending (p : List (Option Msg)) : Option (Nat × Msg) := minPendingAux p 0 none

inductive Ev where
  | recv (i : Nat)
  | print
  | brk
  | fin
  deriving DecidableEq, Repr

/-- after each iteration: leave the loop when no channel is left -/
def closeIfEmpty (s : St) : St :=
  if countTrue s.live = 0 then { s with fin := true } else s

def clearFiIfAll (s : St) : St :=
  match s.fi with
  | some flags => if flags.all id then { s with fi := none } else s
  | none => s

/-- one coordinator iteration; `none` = the event is not enabled in `s` -/
def step (s : St) : Ev → Option St
  | .recv i =>
    if s.fin || s.broke || !waitCond s || !eligible s i then none
    else
      match s.streams.getD i [] with
      | [] =>            -- sender gone, nothing buffered: `Err(RecvError)`
        some (closeIfEmpty (clearFiIfAll { s with live := s.live.set i false, errs := s.errs + 1 }))
      | .fileInfo ok :: r =>
        some (closeIfEmpty (clearFiIfAll { s with
          streams := s.streams.set i r
          fi := s.fi.map (fun f => f.set i true)
          errs := if ok then s.errs else s.errs + 1 }))
      | .msg m :: r =>
        some (closeIfEmpty (clearFiIfAll { s with
          streams := s.streams.set i r
          pending := s.pending.set i (some m) }))
      | .summary ok :: r =>
        some (closeIfEmpty (clearFiIfAll { s with
          streams := s.streams.set i r
          live := s.live.set i false
          errs := if ok then s.errs else s.errs + 1 }))
  | .print =>
    if s.fin || s.broke || waitCond s then none
    else
      match minPending s.pending with
      | some (i, m) =>
        some (closeIfEmpty { s with printed := s.printed ++ [(i, m)], pending := s.pending.set i none })
      | none => some (closeIfEmpty s)        -- `None => continue`
  | .brk =>
    if s.fin || s.broke || !waitCond s || anyEligible s then none
    else some { s with broke := true }
  | .fin => if s.fin then some s else none

def run (s : St) : List Ev → Option St
  | [] => some s
  | e :: es => match step s e with
    | some s' => run s' es
    | none => none

/-! ### the specification: k-way merge, first minimum in PathId order -/

def minHeadAux : List (List Msg) → Nat → Option (Nat × Msg) → Option (Nat × Msg)
  | [], _, best => best
  | [] :: r, i, best => minHeadAux r (i + 1) best
  | (m :: _) :: r, i, none => minHeadAux r (i + 1) (some (i, m))
  | (m :: _) :: r, i, some (j, b) =>
    if m.dt < b.dt then minHeadAux r (i + 1) (some (i, m)) else minHeadAux r (i + 1) (some (j, b))

def minHead (ls : List (List Msg)) : Option (Nat × Msg) := minHeadAux ls 0 none

def popAt (ls : List (List Msg)) (i : Nat) : List (List Msg) :=
  ls.set i ((ls.getD i []).tail)

def totalLen (ls : List (List Msg)) : Nat := (ls.map List.length).sum

def mergeAux : Nat → List (List Msg) → List (Nat × Msg)
  | 0, _ => []
  | fuel + 1, ls =>
    match minHead ls with
    | some (i, m) => (i, m) :: mergeAux fuel (popAt ls i)
    | none => []

/-- merge by instant; ties go to the lowest PathId -/
def merge (ls : List (List Msg)) : List (Nat × Msg) := mergeAux (totalLen ls) ls

/-- a source's script is well formed: `FileInfo` first -/
def wfScript : List Datum → Bool
  | .fileInfo _ :: _ => true
  | _ => false

/-! ### layer 2: bounded buffers and worker steps -/

structure BSt where
  toSend : List (List Datum)    -- per worker: not yet sent
  buf : List (List Datum)       -- per worker: in the channel (FIFO), length ≤ cap
  closed : List Bool            -- sender dropped
  core : St                     -- coordinator state; `core.streams` is ignored (see `abs`)
  deriving Repr

inductive BEv where
  | send (i : Nat)
  | close (i : Nat)
  | coord (e : Ev)
  deriving DecidableEq, Repr

def binit (scripts : List (List Datum)) : BSt :=
  { toSend := scripts
    buf := scripts.map (fun _ => [])
    closed := scripts.map (fun _ => false)
    core := init (scripts.map (fun _ => [])) }

/-- abstraction to layer 1: a source's stream is what is buffered plus what will be sent -/
def abs (b : BSt) : St :=
  { b.core with streams := (List.range b.toSend.length).map (fun i => b.buf.getD i [] ++ b.toSend.getD i []) }

def bstep (cap : Nat) (b : BSt) : BEv → Option BSt
  | .send i =>
    match b.toSend.getD i [] with
    | d :: r =>
      if (b.buf.getD i []).length < cap ∧ b.closed.getD i true = false then
        some { b with toSend := b.toSend.set i r, buf := b.buf.set i (b.buf.getD i [] ++ [d]) }
      else none
    | [] => none
  | .close i =>
    if b.toSend.getD i [] = [] ∧ b.closed.getD i true = false then some { b with closed := b.closed.set i true }
    else none
  | .coord (.recv i) =>
    -- the blocking select can return channel `i` only if it is ready:
    -- something buffered, or the sender is gone
    match b.buf.getD i [] with
    | d :: r =>
      match step { b.core with streams := b.core.streams.set i [d] } (.recv i) with
      | some c => some { b with buf := b.buf.set i r, core := { c with streams := b.core.streams } }
      | none => none
    | [] =>
      if b.closed.getD i false then
        match step { b.core with streams := b.core.streams.set i [] } (.recv i) with
        | some c => some { b with core := { c with streams := b.core.streams } }
        | none => none
      else none
  | .coord e =>
    match step b.core e with
    | some c => some { b with core := c }
    | none => none

/-! ### trace replay (Tie B): events observed in the real `processing_loop` -/

inductive TEv where
  | rI (i : Nat) (ok : Bool)
  | rM (i : Nat) (dt : Int)
  | rS (i : Nat) (ok : Bool)
  | rX (i : Nat)
  | p (i : Nat) (dt : Int)
  | b
  | e
  deriving DecidableEq, Repr

/-- replay one observed event; the observed datum must be the head of that
source's stream and the corresponding model event must be enabled -/
def replay1 (s : St) : TEv → Option St
  | .rI i ok => match s.streams.getD i [] with
    | .fileInfo ok' :: _ => if ok = ok' then step s (.recv i) else none
    | _ => none
  | .rM i dt => match s.streams.getD i [] with
    | .msg m :: _ => if m.dt = dt then step s (.recv i) else none
    | _ => none
  | .rS i ok => match s.streams.getD i [] with
    | .summary ok' :: _ => if ok = ok' then step s (.recv i) else none
    | _ => none
  | .rX i => match s.streams.getD i [] with
    | [] => step s (.recv i)
    | _ => none
  | .p i dt =>
    if waitCond s then none else
    match minPending s.pending with
    | some (j, m) => if i = j ∧ m.dt = dt then step s .print else none
    | none => none
  | .b => step s .brk
  | .e => if s.fin then some s else none

/-- index of the first event that is not enabled, or the final state -/
def replay : St → List TEv → Nat → Except Nat St
  | s, [], _ => .ok s
  | s, t :: ts, k => match replay1 s t with
    | some s' => replay s' ts (k + 1)
    | none => .error k

end S4V.Model.Coord
