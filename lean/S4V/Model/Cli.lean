/-
Model of the resolution of the `--dt-after` (`-a`) and `--dt-before` (`-b`) arguments of
`src/bin/s4.rs` (`process_dt`, `string_wdhms_to_duration`,
`string_to_rel_offset_datetime`, `cli_process_tz_offset`, the `-a` / `-b` block of
`cli_process_args`) and of `datetime_parse_from_str` (src/data/datetime.rs).

Strings are `List Char`. Instants: a resolved datetime is a `DT`
(`sec` = UTC epoch seconds of the wall-clock second, `frac` = nanoseconds
inside it — `≥ 10^9` for a leap-second reading `…:60` exactly as chrono stores
it —, `off` = the UTC offset it carries); `DT.ns : Int` is the instant in
NANOSECONDS since the epoch. `now` is epoch nanoseconds.

Modelled, not verified (validated only by the correspondence):
* chrono 0.4.40 `parse_from_str` for exactly the specifiers of the generated
  table (`strptimeCli`), `Parsed::to_naive_datetime_with_offset`/`to_datetime`
  (`resolve*`), `TimeDelta::try_*`, `checked_add_signed`;
* the `regex` crate on the one pattern `REGEX_DUR_OFFSET` (leftmost-first,
  greedy, a repeated named group keeps its last repetition; `\d` = Unicode Nd);
* Rust `char::is_whitespace`; `char::is_alphabetic` is modelled as ASCII
  letters (a non-ASCII letter in the trailing run makes the zone lookup fail
  in the code and the numeric parse fail in the model: the row is skipped
  either way).
-/
import S4V.Gen.CliTables
import S4V.Model.Time

namespace S4V.Model.Cli
open S4V.Gen.CliTables S4V.Model.Time

/-! ## characters -/

/-- Rust `char::is_whitespace` (Unicode `White_Space`) -/
def isWs (c : Char) : Bool :=
  let n := c.toNat
  (9 ≤ n && n ≤ 13) || n == 32 || n == 0x85 || n == 0xA0 || n == 0x1680 ||
  (0x2000 ≤ n && n ≤ 0x200A) || n == 0x2028 || n == 0x2029 || n == 0x202F || n == 0x205F || n == 0x3000

def isDig (c : Char) : Bool := 48 ≤ c.toNat && c.toNat ≤ 57
def digVal (c : Char) : Nat := c.toNat - 48
def isAlpha (c : Char) : Bool := (65 ≤ c.toNat && c.toNat ≤ 90) || (97 ≤ c.toNat && c.toNat ≤ 122)
/-- `\d` of the regex crate: Unicode general category Nd (generated table) -/
def isNd (c : Char) : Bool := ndRanges.any fun ab => ab.1 ≤ c.toNat && c.toNat ≤ ab.2

def trimStart (s : List Char) : List Char := s.dropWhile isWs

def i64Max : Nat := 9223372036854775807

/-! ## chrono `StrftimeItems` for the specifiers of the table -/

inductive Item
  | lit (c : Char)
  | space
  | year | month | day | hour | minute | second | timestamp
  | nano (digits : Nat)      -- `%3f` / `%6f`: fixed digit count, no dot
  | tz (permissive : Bool)   -- `%z`, `%:z` (false) / `%#z` (true)
  | tzName                   -- `%Z`
  | bad
  deriving DecidableEq, Repr

def parsePattern : List Char → List Item
  | [] => []
  | '%' :: 'Y' :: r => .year :: parsePattern r
  | '%' :: 'm' :: r => .month :: parsePattern r
  | '%' :: 'd' :: r => .day :: parsePattern r
  | '%' :: 'H' :: r => .hour :: parsePattern r
  | '%' :: 'M' :: r => .minute :: parsePattern r
  | '%' :: 'S' :: r => .second :: parsePattern r
  | '%' :: 's' :: r => .timestamp :: parsePattern r
  | '%' :: '3' :: 'f' :: r => .nano 3 :: parsePattern r
  | '%' :: '6' :: 'f' :: r => .nano 6 :: parsePattern r
  | '%' :: 'z' :: r => .tz false :: parsePattern r
  | '%' :: ':' :: 'z' :: r => .tz false :: parsePattern r
  | '%' :: '#' :: 'z' :: r => .tz true :: parsePattern r
  | '%' :: 'Z' :: r => .tzName :: parsePattern r
  | '%' :: _ => [.bad]
  | c :: r => (if isWs c then Item.space else Item.lit c) :: parsePattern r

/-! ## chrono `scan::number` -/

/-- up to `max` leading ASCII digits, and the rest -/
def takeDigits : Nat → List Char → List Char × List Char
  | 0, s => ([], s)
  | _ + 1, [] => ([], [])
  | n + 1, c :: r =>
    if isDig c then ((c :: (takeDigits n r).1), (takeDigits n r).2) else ([], c :: r)

def numVal (ds : List Char) : Nat := ds.foldl (fun a c => a * 10 + digVal c) 0

/-- `scan::number(s, min, max)`: between `min ≥ 1` and `max` digits; the value must fit `i64` -/
def scanNumber (s : List Char) (min max : Nat) : Option (Nat × List Char) :=
  let ds := (takeDigits max s).1
  if ds.length < min ∨ ds.length = 0 then none
  else if numVal ds > i64Max then none
  else some (numVal ds, (takeDigits max s).2)

/-! ## chrono `Parsed` (the fields the table can set) -/

structure Parsed where
  year : Option Int := none
  month : Option Int := none
  day : Option Int := none
  hour : Option Int := none
  minute : Option Int := none
  second : Option Int := none
  nano : Option Int := none
  offset : Option Int := none
  timestamp : Option Int := none
  deriving DecidableEq, Repr

/-- `set_if_consistent` -/
def setF (old : Option Int) (v : Int) : Option (Option Int) :=
  match old with
  | none => some (some v)
  | some o => if o = v then some (some o) else none

/-- `scan::timezone_offset(s, colon_or_space, allow_zulu := p, allow_missing_minutes := p, true)` -/
def scanTz (permissive : Bool) (s : List Char) : Option (Int × List Char) :=
  match s with
  | [] => none
  | c :: r =>
    if permissive && (c == 'Z' || c == 'z') then some (0, r)
    else if c == '+' || c == '-' || c.toNat == 0x2212 then
      let neg := c != '+'
      match r with
      | h1 :: h2 :: r2 =>
        if isDig h1 && isDig h2 then
          let hours : Int := (digVal h1 * 10 + digVal h2 : Nat)
          let r3 := r2.dropWhile fun x => x == ':' || isWs x
          match r3 with
          | m1 :: m2 :: r4 =>
            if isDig m1 && isDig m2 && digVal m1 ≤ 5 then
              let secs : Int := hours * 3600 + ((digVal m1 * 10 + digVal m2 : Nat) : Int) * 60
              some (if neg then -secs else secs, r4)
            else none
          | [_] => none
          | [] => if permissive then some (if neg then -(hours * 3600) else hours * 3600, []) else none
        else none
      | _ => none
    else none

/-- one step of chrono `parse_internal` -/
def parseItem (it : Item) (s : List Char) (p : Parsed) : Option (Parsed × List Char) :=
  match it with
  | .lit c => match s with
    | c' :: r => if c' = c then some (p, r) else none
    | [] => none
  | .space => some (p, trimStart s)
  | .year =>
    match trimStart s with
    | '-' :: r => (scanNumber r 1 r.length).bind fun vr => (setF p.year (-(vr.1 : Int))).map fun y => ({ p with year := y }, vr.2)
    | '+' :: r => (scanNumber r 1 r.length).bind fun vr => (setF p.year (vr.1 : Int)).map fun y => ({ p with year := y }, vr.2)
    | s' => (scanNumber s' 1 4).bind fun vr => (setF p.year (vr.1 : Int)).map fun y => ({ p with year := y }, vr.2)
  | .month => (scanNumber (trimStart s) 1 2).bind fun vr => (setF p.month vr.1).map fun y => ({ p with month := y }, vr.2)
  | .day => (scanNumber (trimStart s) 1 2).bind fun vr => (setF p.day vr.1).map fun y => ({ p with day := y }, vr.2)
  | .hour => (scanNumber (trimStart s) 1 2).bind fun vr => (setF p.hour vr.1).map fun y => ({ p with hour := y }, vr.2)
  | .minute => (scanNumber (trimStart s) 1 2).bind fun vr => (setF p.minute vr.1).map fun y => ({ p with minute := y }, vr.2)
  | .second => (scanNumber (trimStart s) 1 2).bind fun vr => (setF p.second vr.1).map fun y => ({ p with second := y }, vr.2)
  | .timestamp =>
    (scanNumber (trimStart s) 1 (trimStart s).length).bind fun vr =>
      (setF p.timestamp vr.1).map fun y => ({ p with timestamp := y }, vr.2)
  | .nano k => (scanNumber s k k).bind fun vr =>
      (setF p.nano ((vr.1 * 10 ^ (9 - k) : Nat) : Int)).map fun y => ({ p with nano := y }, vr.2)
  | .tz perm => (scanTz perm (trimStart s)).bind fun vr => (setF p.offset vr.1).map fun y => ({ p with offset := y }, vr.2)
  | .tzName => some (p, s.dropWhile fun c => !isWs c)
  | .bad => none

def parseItems : List Item → List Char → Parsed → Option (Parsed × List Char)
  | [], s, p => some (p, s)
  | it :: its, s, p => (parseItem it s p).bind fun ps => parseItems its ps.2 ps.1

/-- chrono `parse(&mut parsed, s, StrftimeItems::new(pattern))`: all of `s` must be consumed -/
def strptimeCliL (pattern s : List Char) : Option Parsed :=
  match parseItems (parsePattern pattern) s {} with
  | some (p, []) => some p
  | _ => none

def strptimeCli (pattern : String) (s : String) : Option Parsed := strptimeCliL pattern.toList s.toList

/-! ## resolution (`Parsed::to_naive_datetime_with_offset`, `to_datetime`) -/

/-- a resolved `DateTime<FixedOffset>` -/
structure DT where
  sec : Int
  frac : Nat
  off : Int
  deriving DecidableEq, Repr

/-- the instant, in nanoseconds since the epoch -/
def DT.ns (d : DT) : Int := d.sec * 1000000000 + d.frac
/-- chrono's ordering of datetimes (UTC date, then seconds of day, then the stored fraction) -/
def DT.gt (a b : DT) : Bool := a.sec > b.sec || (a.sec == b.sec && a.frac > b.frac)

/-- days since 1970-01-01, for every proleptic Gregorian year of chrono's range.
`S4V.Model.Time.daysFromCivil` divides with Lean's flooring `/` where Hinnant's
algorithm truncates, so it is off by one era for years below -399; the calendar
repeats every 400 years (146097 days), so it is evaluated 656 eras later. -/
def civilDays (y m d : Int) : Int := daysFromCivil (y + 262400) m d - 656 * 146097

def minYear : Int := -262143
def maxYear : Int := 262142
def minSec : Int := civilDays minYear 1 1 * 86400
def maxSec : Int := civilDays maxYear 12 31 * 86400 + 86399
def inRange (sec : Int) : Bool := minSec ≤ sec && sec ≤ maxSec

def toNaiveDate (p : Parsed) : Option Int :=
  match p.year, p.month, p.day with
  | some y, some m, some d =>
    if minYear ≤ y && y ≤ maxYear && validDate y m d then some (civilDays y m d) else none
  | _, _, _ => none

/-- seconds of day and fraction -/
def toNaiveTime (p : Parsed) : Option (Int × Nat) :=
  match p.hour, p.minute with
  | some h, some mi =>
    if 0 ≤ h && h ≤ 23 && 0 ≤ mi && mi ≤ 59 then
      let s := p.second.getD 0
      if 0 ≤ s && s ≤ 60 then
        match p.nano with
        | some n =>
          if p.second.isSome && 0 ≤ n && n ≤ 999999999 then
            some (h * 3600 + mi * 60 + (if s = 60 then 59 else s), (if s = 60 then 1000000000 else 0) + n.toNat)
          else none
        | none => some (h * 3600 + mi * 60 + (if s = 60 then 59 else s), if s = 60 then 1000000000 else 0)
      else none
    else none
  | _, _ => none

def Parsed.noCivil (p : Parsed) : Bool :=
  p.year.isNone && p.month.isNone && p.day.isNone && p.hour.isNone && p.minute.isNone && p.second.isNone && p.nano.isNone

/-- local (wall-clock) seconds since the epoch + fraction. The branch of chrono
that reconciles a timestamp with *partial* civil fields is not modelled (`none`);
the table fact `rows_timestamp_alone` says no row reaches it. -/
def toNaive (p : Parsed) (offset : Int) : Option (Int × Nat) :=
  match toNaiveDate p, toNaiveTime p with
  | some d, some (sod, frac) =>
    let loc := d * 86400 + sod
    match p.timestamp with
    | none => some (loc, frac)
    | some ts =>
      if ts = loc - offset || (frac ≥ 1000000000 && ts = loc - offset + 1) then some (loc, frac) else none
  | _, _ =>
    match p.timestamp with
    | some ts => if p.noCivil && inRange (ts + offset) then some (ts + offset, 0) else none
    | none => none

/-- the four-space / tab / line-end counting of `datetime_from_str_workaround_Issue660` -/
def wsCounts (s : List Char) : Nat × Nat × Nat :=
  let run := s.takeWhile fun c => c == ' ' || c == '\t' || c == '\n' || c == '\r'
  (run.count ' ', run.count '\t', run.count '\n' + run.count '\r')

def allWs3 (s : List Char) : Bool := s.all fun c => c == ' ' || c == '\t' || c == '\n' || c == '\r'

def issue660 (value pattern : List Char) : Bool :=
  wsCounts value == wsCounts pattern &&
  (if allWs3 value then (0, 0, 0) else wsCounts value.reverse) ==
  (if allWs3 pattern then (0, 0, 0) else wsCounts pattern.reverse)

/-- `datetime_parse_from_str(data, pattern, has_tz, tz_offset)` -/
def datetimeParseFromStr (data pattern : List Char) (hasTz : Bool) (tzOff : Int) : Option DT :=
  match strptimeCliL pattern data with
  | none => none
  | some p =>
    if hasTz then
      let offset? : Option Int := match p.offset, p.timestamp with
        | some o, _ => some o
        | none, some _ => some 0
        | none, none => none
      match offset? with
      | none => none
      | some o =>
        match toNaive p o with
        | none => none
        | some (loc, frac) =>
          if -86400 < o && o < 86400 && inRange (loc - o) && issue660 data pattern then some ⟨loc - o, frac, o⟩ else none
    else
      match toNaive p 0 with
      | none => none
      | some (loc, frac) =>
        if inRange (loc - tzOff) && issue660 data pattern then some ⟨loc - tzOff, frac, tzOff⟩ else none

/-! ## `process_dt`: the pattern rows -/

def lookupTz (name : List Char) : Option String :=
  (tzTable.find? fun kv => kv.1.toList == name).map (·.2)

/-- `pattern_.replacen("%Z", "%z", 1)` -/
def replaceZ : List Char → List Char
  | '%' :: 'Z' :: r => '%' :: 'z' :: r
  | c :: r => c :: replaceZ r
  | [] => []

/-- (value without its trailing alphabetic run, the run) -/
def splitAlphaTail (s : List Char) : List Char × List Char :=
  ((s.reverse.dropWhile isAlpha).reverse, (s.reverse.takeWhile isAlpha).reverse)

/-- the pattern handed to `datetime_parse_from_str` for one row (`%Z` rewritten to `%z`,
the midnight pattern appended to date-only rows) -/
def rowPattern (row : Row) : List Char :=
  (if row.hasTzZ then replaceZ row.pattern.toList else row.pattern.toList) ++
    (if row.hasTime then [] else appendTimePattern.toList)

/-- the value handed to `datetime_parse_from_str` for one row; `none` = `continue` (unknown zone name) -/
def rowValue (row : Row) (v : List Char) : Option (List Char) :=
  let v1 : Option (List Char) :=
    if row.hasTzZ then
      match lookupTz (splitAlphaTail v).2 with
      | some z => some ((splitAlphaTail v).1 ++ z.toList)
      | none => none
    else some v
  v1.map fun v1 => v1 ++ (if row.hasTime then [] else appendTimeValue.toList)

def attemptRow (row : Row) (v : List Char) (tz : Int) : Option DT :=
  match rowValue row v with
  | none => none
  | some d => datetimeParseFromStr d (rowPattern row) row.hasTz tz

def firstRow : List Row → List Char → Int → Option DT
  | [], _, _ => none
  | row :: rows, v, tz =>
    match attemptRow row v tz with
    | some dt => some dt
    | none => firstRow rows v tz

/-! ## the relative-offset regex -/

/-- what the named groups hold after a match: the digit strings of the LAST repetition of each unit -/
structure Caps where
  other : Bool
  neg : Bool
  s : Option (List Char) := none
  m : Option (List Char) := none
  h : Option (List Char) := none
  d : Option (List Char) := none
  w : Option (List Char) := none
  deriving DecidableEq, Repr

def Caps.set (c : Caps) (u : Char) (ds : List Char) : Caps :=
  if u = 's' then { c with s := some ds }
  else if u = 'm' then { c with m := some ds }
  else if u = 'h' then { c with h := some ds }
  else if u = 'd' then { c with d := some ds }
  else { c with w := some ds }

/-- one `[\d]+u` at the head of the string: (digits, unit, rest) -/
def unitAt (s : List Char) : Option (List Char × Char × List Char) :=
  if (s.takeWhile isNd).isEmpty then none
  else match s.dropWhile isNd with
    | u :: r => if durRegexAlternatives.contains u then some (s.takeWhile isNd, u, r) else none
    | [] => none

/-- the greedy `( … )+` after its first repetition -/
def unitsLoop : Nat → List Char → Caps → Caps × List Char
  | 0, s, c => (c, s)
  | fuel + 1, s, c =>
    match unitAt s with
    | some (ds, u, r) => unitsLoop fuel r (c.set u ds)
    | none => (c, s)

/-- a match starting exactly at the head of `s`: captures and the unmatched rest -/
def matchAt (s : List Char) : Option (Caps × List Char) :=
  let other := s.head? == some '@'
  let s1 := if other then s.drop 1 else s
  match s1 with
  | c :: r =>
    if c == '+' || c == '-' then
      match unitAt r with
      | some (ds, u, r') => some (unitsLoop r'.length r' (Caps.set { other := other, neg := c == '-' } u ds))
      | none => none
    else none
  | [] => none

/-- leftmost match of the regex with the given anchoring -/
def searchWith (anchoredStart anchoredEnd : Bool) : List Char → Option Caps
  | [] => none
  | c :: r =>
    match matchAt (c :: r) with
    | some (caps, rest) =>
      if !anchoredEnd || rest.isEmpty then some caps
      else if anchoredStart then none else searchWith anchoredStart anchoredEnd r
    | none => if anchoredStart then none else searchWith anchoredStart anchoredEnd r

/-- `REGEX_DUR_OFFSET.captures(val)`: whichever anchors the generated regex has -/
def search (s : List Char) : Option Caps := searchWith durRegexAnchoredStart durRegexAnchoredEnd s

inductive DurR
  | none
  | exit
  | panic
  | ok (secs : Int) (other : Bool)
  deriving DecidableEq, Repr

/-- `i64::from_str_radix(digits, 10)` on a non-empty run matched by `\d+` -/
def parseI64 (ds : List Char) : Option Nat :=
  if ds.all isDig && numVal ds ≤ i64Max then some (numVal ds) else none

/-- count of one capture group: `some 0` when absent, `none` when it does not parse (⇒ exit) -/
def groupCount (g : Option (List Char)) : Option Nat :=
  match g with
  | none => some 0
  | some ds => parseI64 ds

/-- `TimeDelta::MAX.secs` = `i64::MAX / 1000` -/
def durBound : Int := 9223372036854775

/-- the arithmetic tail of `string_wdhms_to_duration`: `Duration::try_*` of each unit, then their sum -/
def durArith (neg other : Bool) (s m h d w : Nat) : DurR :=
  let sg : Int := if neg then -1 else 1
  let vs : Int := sg * s
  let vm : Int := sg * m * 60
  let vh : Int := sg * h * 3600
  let vd : Int := sg * d * 86400
  let vw : Int := sg * w * 604800
  let fits := fun (x : Int) => decide (-durBound ≤ x ∧ x ≤ durBound)
  if fits vs && fits vm && fits vh && fits vd && fits vw then
    if fits (vs + vm + vh + vd + vw) then .ok (vs + vm + vh + vd + vw) other else .panic
  else .none

def durOfCaps (caps : Caps) : DurR :=
  match groupCount caps.s, groupCount caps.m, groupCount caps.h, groupCount caps.d, groupCount caps.w with
  | some s, some m, some h, some d, some w => durArith caps.neg caps.other s m h d w
  | _, _, _, _, _ => .exit

/-- `string_wdhms_to_duration` -/
def durOf (v : List Char) : DurR :=
  if v.isEmpty then .none else
  match search v with
  | none => .none
  | some caps => durOfCaps caps

/-! ## `string_to_rel_offset_datetime`, `process_dt` -/

inductive Result
  | some (dt : DT)
  | none
  | exit
  | panic
  deriving DecidableEq, Repr

/-- `DateTime::checked_add_signed` for a whole-second duration (chrono's leap-second rule) -/
def addDur (dt : DT) (d : Int) : Option DT :=
  let r : DT :=
    if dt.frac ≥ 1000000000 then
      if d > 0 then ⟨dt.sec + d, dt.frac - 1000000000, dt.off⟩
      else if d < 0 then ⟨dt.sec + 1 + d, dt.frac - 1000000000, dt.off⟩
      else dt
    else ⟨dt.sec + d, dt.frac, dt.off⟩
  if inRange r.sec then some r else none

def relToDt (v : List Char) (tz : Int) (other : Option DT) (now : Int) : Result :=
  match durOf v with
  | .none => .none
  | .exit => .exit
  | .panic => .panic
  | .ok d false =>
    match addDur ⟨now / 1000000000, 0, tz⟩ d with
    | some dt => .some dt
    | none => .none
  | .ok d true =>
    match other with
    | some o => match addDur o d with
      | some dt => .some dt
      | none => .none
    | none => .exit

def processDtL (v : List Char) (tz : Int) (other : Option DT) (now : Int) : Result :=
  match firstRow cliFilterPatterns v tz with
  | some dt => .some dt
  | none => relToDt v tz other now

def DT.ofNs (ns : Int) (off : Int) : DT := ⟨ns / 1000000000, (ns % 1000000000).toNat, off⟩

/-- `process_dt(Some(value), tz_offset, other, now)`; `other` given as epoch nanoseconds
(carrying offset `tzOffsetSec`), `now` epoch nanoseconds -/
def processDt (value : String) (tzOffsetSec : Int) (other : Option Int) (now : Int) : Result :=
  processDtL value.toList tzOffsetSec (other.map fun ns => DT.ofNs ns tzOffsetSec) now

/-! ## `cli_process_tz_offset` -/

def cliProcessTzOffset (tzo : String) : Option Int :=
  let tzo_ : Option (List Char) :=
    match (tzTable.find? fun kv => kv.1 == tzo).map (·.2) with
    | some v => if v.isEmpty then none else some v.toList
    | none => some tzo.toList
  match tzo_ with
  | none => none
  | some t =>
    (tzOffsetPatterns.findSome? fun pat =>
      datetimeParseFromStr (tzOffsetDummy.toList ++ t) pat.toList true (-9999)).map (·.off)

/-! ## `cli_process_args`: evaluation order of `-a` / `-b` -/

inductive Reject
  | bothRelative       -- "cannot pass both --dt-after and --dt-before as relative to the other"
  | unparsableAfter    -- process_dt_exit(-a) = None
  | unparsableBefore
  | otherUnset         -- '@' form but the other bound is absent
  | afterGtBefore
  | durExit            -- a `\d+` capture that i64 cannot hold / non-ASCII digits
  | panic              -- `TimeDelta + TimeDelta` overflow
  deriving DecidableEq, Repr

inductive AB
  | ok (after before : Option DT)
  | reject (r : Reject)
  deriving DecidableEq, Repr

/-- `process_dt_exit` -/
def processDtExit (v : Option (List Char)) (tz : Int) (other : Option DT) (now : Int) (unparsable : Reject) :
    Except Reject (Option DT) :=
  match v with
  | none => .ok none
  | some v =>
    match processDtL v tz other now with
    | .some dt => .ok (some dt)
    | .none => .error unparsable
    | .exit => .error (if (durOf v) = .exit then .durExit else .otherUnset)
    | .panic => .error .panic

def finishAB (a b : Option DT) : AB :=
  match a, b with
  | some dta, some dtb => if dta.gt dtb then .reject .afterGtBefore else .ok a b
  | _, _ => .ok a b

def resolveABL (a b : Option (List Char)) (tz : Int) (now : Int) : AB :=
  let pa := durOf (a.getD [])
  let pb := durOf (b.getD [])
  -- the tuple `(peek(-a), peek(-b))` is evaluated left to right
  if pa = .exit then .reject .durExit
  else if pa = .panic then .reject .panic
  else if pb = .exit then .reject .durExit
  else if pb = .panic then .reject .panic
  else
    match pa, pb with
    | .ok _ true, .ok _ true => .reject .bothRelative
    | .ok _ true, _ =>
      match processDtExit b tz none now .unparsableBefore with
      | .error r => .reject r
      | .ok fb =>
        match processDtExit a tz fb now .unparsableAfter with
        | .error r => .reject r
        | .ok fa => finishAB fa fb
    | _, _ =>
      match processDtExit a tz none now .unparsableAfter with
      | .error r => .reject r
      | .ok fa =>
        match processDtExit b tz fa now .unparsableBefore with
        | .error r => .reject r
        | .ok fb => finishAB fa fb

def resolveAB (a b : Option String) (tzOffsetSec : Int) (now : Int) : AB :=
  resolveABL (a.map String.toList) (b.map String.toList) tzOffsetSec now

end S4V.Model.Cli
