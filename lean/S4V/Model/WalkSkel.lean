/-
Interpreter of the regenerated decision skeleton of `process_path` and of the stdin splice of
`cli_process_args` (`S4V.Gen.WalkSkel`, translated by gen/gen_walkskel.py).

What the interpreter is GIVEN (the file system's and jwalk's part): for a directory argument the stream of
entries `jwalk::WalkDir` yields, in iteration order, each with its kind (`file_type()` after
`follow_links(true)`: regular file / directory / anything else / an `Err` item); for a `.tar` what the tar
reader reports (`TarFs`); name classification (`Model.Path.classify`, C16) and `process_path_tar`
(`Model.WalkTar.processPathTar`).

What it READS from the generated data: the order of the steps of the loop body, the `is_dir` skip, the
classification literal, the arguments of both `process_path_tar` calls, WHICH vector every push goes to and what
is appended after the loop, the three `canonicalize` error arms, the named-branch literal; for the splice: the
guard, the mark, and whether stdin is read inside the `-` arm or after the argument loop.

Every push is recorded as `(vector, result)` in program order (`emits`); the returned list is the `paths`
pushes followed — only if the epilogue says so — by the pushes to the other vector.
-/
import S4V.Model.WalkTar
import S4V.Gen.WalkSkel

namespace S4V.Model.WalkSkel
open S4V.Model.Path S4V.Model.PathTypes S4V.Model.Walk S4V.Model.WalkTar S4V.Gen.WalkSkel

inductive EKind where
  | file | dir | other | err
  deriving DecidableEq, Repr

/-- one item of the jwalk iteration; `path` starts with the walked directory's own name -/
structure WEntry where
  path : List Bytes
  kind : EKind
  deriving DecidableEq, Repr

/-- one `ProcessPathResult` -/
inductive SRes where
  | res (r : Res)                    -- a result the hand model knows
  | notAFile (path : List Bytes)     -- `FileErrNotAFile`
  | argErr (e : ErrRes)              -- `FileErrNotExist` / `FileErrNoPermissions` / `FileErr` of the argument
  deriving DecidableEq, Repr

/-- the loop body for a regular file with an explicit flag (`classifyWalked` is the instance `false`) -/
def classifyWith (ua : Bool) (p : List Bytes) : Entry :=
  match classify (p.getLastD []) ua with
  | none => ⟨p, .nofuel⟩
  | some r =>
    match r.kind with
    | .unparsable => ⟨p, .notSupported⟩
    | .archiveTar => ⟨p, .tar r.arch⟩
    | _ => ⟨p, .valid r⟩

def tag (s : Sink) (rs : List SRes) : List (Sink × SRes) := rs.map (s, ·)

/-- one turn of the walk loop: the pushes it makes, in order. `c` is the classification so far. -/
def bodyEmit (u : Bool) (fs : TarFs) (par : List Bytes) (w : WEntry) :
    List LoopStep → Option Outcome → List (Sink × SRes)
  | [], _ => []
  | .errContinue :: rest, c => if w.kind = .err then [] else bodyEmit u fs par w rest c
  | .notFile dirSkip s :: rest, c =>
    if w.kind = .file then bodyEmit u fs par w rest c
    else if w.kind = .dir && dirSkip then []
    else tag s [.notAFile (par ++ w.path)]
  | .classify ua :: rest, _ => bodyEmit u fs par w rest (some (classifyWith ua w.path).out)
  | .tarArm pp lit s :: rest, c =>
    match c with
    | some (.tar _) =>
      tag s ((walkedTarWith pp lit u (par ++ w.path) (fs (par ++ w.path))).map fun r => .res (.member r))
    | _ => bodyEmit u fs par w rest c
  | .pushByType s :: _, c =>
    match c with
    | some o => tag s [.res (.plain (par ++ w.path) o)]
    | none => []

/-- every push of the whole loop, in program order -/
def emits (sk : Skel) (u : Bool) (fs : TarFs) (par : List Bytes) (ws : List WEntry) : List (Sink × SRes) :=
  ws.flatMap fun w => bodyEmit u fs par w sk.steps none

def collect (s : Sink) (es : List (Sink × SRes)) : List SRes :=
  es.filterMap fun e => if e.1 = s then some e.2 else none

/-- the walk loop and the epilogue -/
def runLoop (sk : Skel) (u : Bool) (fs : TarFs) (par : List Bytes) (ws : List WEntry) : List SRes :=
  let es := emits sk u fs par ws
  collect .paths es ++ (if sk.after.contains .appendDeferred then collect .deferred es else [])

/-- the `std_path.is_file()` branch -/
def namedSkel (sk : Skel) (u : Bool) (fs : TarFs) (p : List Bytes) (canon : Bytes) : List SRes :=
  match classify canon sk.namedLit with
  | none => [.res (.plain p .nofuel)]
  | some r =>
    match r.kind with
    | .archiveTar =>
      (namedTarWith sk.namedTarPasses sk.namedTarLit u p (fs p)).map fun r => .res (.member r)
    | _ => [.res (.plain p (.valid r))]

inductive CanonErr where
  | notFound | denied | other
  deriving DecidableEq, Repr

/-- a path argument after the file system has been consulted -/
inductive SArg where
  | missing (why : CanonErr)                       -- `canonicalize()` failed
  | file (path : List Bytes) (canon : Bytes)       -- `is_file()`
  | dir (parent : List Bytes) (ws : List WEntry)   -- anything else: walked

/-- `process_path(arg, u)` read off the skeleton: canonicalize error, else `is_file`, else the walk -/
def processPathSkel (sk : Skel) (u : Bool) (fs : TarFs) : SArg → List SRes
  | .missing .notFound => [.argErr sk.canonNotFound]
  | .missing .denied => [.argErr sk.canonDenied]
  | .missing .other => [.argErr sk.canonOther]
  | .file p c => namedSkel sk u fs p c
  | .dir par ws => runLoop sk u fs par ws

/-- `main`: the loop over the (spliced) path arguments feeding `processing_loop` -/
def mainSkel (sk : Skel) (m : MainLoop) (fs : TarFs) (sargs : List SArg) : List SRes :=
  (if m.argsReversed then sargs.reverse else sargs).flatMap fun a =>
    let rs := processPathSkel sk m.flag fs a
    if m.resultsReversed then rs.reverse else rs

def filesOf (ws : List WEntry) : List (List Bytes) :=
  ws.filterMap fun w => if w.kind = .file then some w.path else none

/-! ### the jwalk stream of a finite tree (directories included, pre-order, entries sorted by name) -/

abbrev EBlock := Bytes × List WEntry

def insertE (x : EBlock) : List EBlock → List EBlock
  | [] => [x]
  | y :: ys => if bytesLe x.1 y.1 then x :: y :: ys else y :: insertE x ys

def sortE : List EBlock → List EBlock
  | [] => []
  | x :: xs => insertE x (sortE xs)

def pre (n : Bytes) (w : WEntry) : WEntry := ⟨n :: w.path, w.kind⟩

mutual
def entriesN (includeHidden : Bool) : Node → List WEntry
  | .file n => [⟨[n], .file⟩]
  | .dir n cs => ⟨[n], .dir⟩ :: ((sortE (entriesL includeHidden cs)).flatMap (·.2)).map (pre n)
def entriesL (includeHidden : Bool) : List Node → List EBlock
  | [] => []
  | c :: cs =>
    (if includeHidden || !isHidden c.name then [(c.name, entriesN includeHidden c)] else [])
      ++ entriesL includeHidden cs
end

/-! ### the stdin splice -/

def spliceSkelAux (sp : Splice) (stdin : List Bytes) : Bool → List Bytes → List Bytes
  | _, [] => []
  | seen, a :: rest =>
    if a = sp.dash then
      if sp.secondSkipped && seen then spliceSkelAux sp stdin seen rest
      else (if sp.readsInArm then stdin else []) ++ spliceSkelAux sp stdin (seen || sp.marks) rest
    else a :: spliceSkelAux sp stdin seen rest

/-- `stdin_check` after the argument loop -/
def seenAtEnd (sp : Splice) (args : List Bytes) : Bool := sp.marks && args.contains sp.dash

def spliceSkel (sp : Splice) (stdin : List Bytes) (args : List Bytes) : List Bytes :=
  spliceSkelAux sp stdin false args ++ (if sp.readsAfterLoop && seenAtEnd sp args then stdin else [])

end S4V.Model.WalkSkel
