/-
Interpreters for the search skeletons regenerated from the source (`S4V.Gen.Search`, by
gen/gen_search.py): the binary search, the linear search and
`find_sysline_between_datetime_filters` of `SyslineReader` as FUNCTIONS OF THE SKELETON.

Nothing of the searches' control flow is written here: which cursor is assigned what in which arm,
which assertion stands where, the order and the operators of the loop-exit tests, the convergence
handling and its decision table are all read from the skeleton. What is fixed here is only the
meaning of the skeleton language (`Expr.eval`, `BExpr.eval`, `execStmts`, first-match on tables)
and the frame shared with `S4V.Model.Syslines`: `findSysline` for `self.find_sysline`, the
generated `dtAfterOrBefore` / `dtPassFilters`, `isSyslineLast`, and the result type `Res`
(`.err` = a release-active assertion / `unwrap()` panicked).

`FileOffset` is `u64`; `-` is interpreted as truncated subtraction on `Nat` (the hand model does the
same; the release build wraps — the two agree wherever the subtraction does not underflow).
-/
import S4V.Model.Syslines
import S4V.Gen.Search

namespace S4V.Model.SearchSkel
open S4V.Model.Syslines S4V.Gen.Filter S4V.Gen.Search

/-- what is in scope besides the cursors: the arguments, `fo_end`, the sysline in scope with the
`fo` returned with it, the linear search's cursor -/
structure Env where
  fileoffset : Nat
  foEnd : Nat
  fo : Nat := 0
  s : Sysl := default
  foCursor : Nat := 0
  deriving Repr

def getCur (st : BS) : Cur → Nat
  | .tryFo => st.tryFo
  | .tryFoLast => st.tryFoLast
  | .foA => st.foA
  | .foB => st.foB

def setCur (st : BS) (c : Cur) (n : Nat) : BS :=
  match c with
  | .tryFo => { st with tryFo := n }
  | .tryFoLast => { st with tryFoLast := n }
  | .foA => { st with foA := n }
  | .foB => { st with foB := n }

def _root_.S4V.Gen.Search.Var.get (env : Env) (st : BS) : Var → Nat
  | .cur c => getCur st c
  | .fileoffset => env.fileoffset
  | .foEnd => env.foEnd
  | .fo => env.fo
  | .slBeg => env.s.beg
  | .slEnd => env.s.fin
  | .foCursor => env.foCursor

def _root_.S4V.Gen.Search.Expr.eval (env : Env) (st : BS) : Expr → Nat
  | .v x => x.get env st
  | .lit n => n
  | .add a b => a.eval env st + b.eval env st
  | .sub a b => a.eval env st - b.eval env st
  | .div a b => a.eval env st / b.eval env st
  | .min a b => min (a.eval env st) (b.eval env st)
  | .max a b => max (a.eval env st) (b.eval env st)

def _root_.S4V.Gen.Search.Cmp.eval (op : Cmp) (a b : Nat) : Bool :=
  match op with
  | .eq => a == b
  | .ne => a != b
  | .lt => decide (a < b)
  | .le => decide (a ≤ b)
  | .gt => decide (a > b)
  | .ge => decide (a ≥ b)

/-- `done` = the probe of this iteration returned `Done`; `last` = `self.is_sysline_last(&syslinep)` -/
def _root_.S4V.Gen.Search.BExpr.eval (ls : List LineInfo) (env : Env) (st : BS) (done : Bool) : BExpr → Bool
  | .done => done
  | .isLast => isSyslineLast ls env.s
  | .cmp op l r => op.eval (l.eval env st) (r.eval env st)
  | .and a b => a.eval ls env st done && b.eval ls env st done

/-- result of running the statements of an arm -/
inductive ArmOut where
  | fall (st : BS)
  | ret (r : Res)
  deriving Repr

/-- statements in source order; a failing assertion panics (`.err`) -/
def execStmts (ls : List LineInfo) (env : Env) : List Stmt → BS → ArmOut
  | [], st => .fall st
  | .assign c e :: r, st => execStmts ls env r (setCur st c (e.eval env st))
  | .assert c :: r, st => if c.eval ls env st false then execStmts ls env r st else .ret .err
  | .retFoundIf c :: r, st => if c.eval ls env st false then .ret (.found env.fo env.s) else execStmts ls env r st
  | .retFound :: _, _ => .ret (.found env.fo env.s)

/-- the first test of a chain that holds decides -/
def firstJump (ls : List LineInfo) (env : Env) (st : BS) (done : Bool) : List (BExpr × Jump) → Option Jump
  | [] => none
  | (c, j) :: r => if c.eval ls env st done then some j else firstJump ls env st done r

def patMatches (p : Option Result_Filter_DateTime1) (x : Result_Filter_DateTime1) : Bool :=
  match p with
  | none => true
  | some y => x == y

/-- `match (syslinep_compare, syslinep_next_compare)`: first matching row; a table without a matching
row cannot be written in Rust (the generator requires a catch-all), `.brk` is returned for totality -/
def chooseOf (x y : Result_Filter_DateTime1) :
    List (Option Result_Filter_DateTime1 × Option Result_Filter_DateTime1 × Choice) → Choice
  | [] => .brk
  | (p, q, c) :: r => if patMatches p x && patMatches q y then c else chooseOf x y r

def armOf (sk : BSkel) : Result_Filter_DateTime1 → List Stmt
  | .Pass => sk.pass
  | .OccursAtOrAfter => sk.atOrAfter
  | .OccursBefore => sk.before

/-- the convergence handling (`try_fo == try_fo_last` after a `Found`) -/
def converge (sk : BSkel) (ls : List LineInfo) (fileoffset : Nat) (flt : Option Int) (st : BS) : Res :=
  match st.last with
  | none => .err                                   -- `syslinep_opt.unwrap()` on `None`
  | some s =>
    let env : Env := { fileoffset := fileoffset, foEnd := fileSz ls, s := s }
    match firstJump ls env st false sk.convExits with
    | some .retDone => .done
    | some .brk => .done
    | some .cont => .nofuel                         -- not expressible in the convergence part (generator)
    | none =>
      if sk.refindIf.eval ls env st false then
        match findSysline ls (sk.refindAt.eval env st) with
        | .found _ sn =>
          match chooseOf (dtAfterOrBefore s.dt flt) (dtAfterOrBefore sn.dt flt) sk.choose with
          | .next => .found (sk.finalNext.eval { env with s := sn } st) sn
          | .cur => .found (sk.finalNext.eval env st) s
          | .brk => .done
        | _ => .done
      else .found (sk.finalNext.eval env st) s

/-- loop of `find_sysline_at_datetime_filter_binary_search`, for a skeleton -/
def bsearchLoopG (sk : BSkel) (ls : List LineInfo) (fileoffset : Nat) (flt : Option Int) : Nat → BS → Res
  | 0, _ => .nofuel
  | fuel + 1, st =>
    let env0 : Env := { fileoffset := fileoffset, foEnd := fileSz ls }
    let step : (Bool × BS) ⊕ Res :=
      match findSysline ls (sk.probe.eval env0 st) with
      | .found fo s =>
        match execStmts ls { env0 with fo := fo, s := s } (armOf sk (dtAfterOrBefore s.dt flt)) st with
        | .ret r => .inr r
        | .fall st' => .inl (false, if sk.setsLast then { st' with last := some s } else st')
      | .done =>
        match execStmts ls env0 sk.doneArm st with
        | .ret r => .inr r
        | .fall st' => .inl (true, st')
      | r => .inr r
    match step with
    | .inr r => r
    | .inl (done, st') =>
      match firstJump ls env0 st' done sk.exits with
      | some .brk => .done
      | some .retDone => .done
      | some .cont => bsearchLoopG sk ls fileoffset flt fuel st'
      | none => converge sk ls fileoffset flt st'

/-- the prologue: cursor initialisations in source order -/
def initState (env : Env) : List (Cur × Expr) → BS → BS
  | [], st => st
  | (c, e) :: r, st => initState env r (setCur st c (e.eval env st))

def bsearchG (sk : BSkel) (ls : List LineInfo) (fileoffset : Nat) (flt : Option Int) : Res :=
  bsearchLoopG sk ls fileoffset flt (2 * fileSz ls + 8)
    (initState { fileoffset := fileoffset, foEnd := fileSz ls } sk.init
      { tryFo := 0, tryFoLast := 0, foA := 0, foB := 0, last := none })

/-! ### linear search -/

def larmOf (sk : LSkel) : Result_Filter_DateTime1 → LArm
  | .Pass => sk.pass
  | .OccursAtOrAfter => sk.atOrAfter
  | .OccursBefore => sk.before

def noCursors : BS := { tryFo := 0, tryFoLast := 0, foA := 0, foB := 0, last := none }

/-- loop of `find_sysline_at_datetime_filter_linear_search`; the state is `fo_cursor` -/
def lsearchLoopG (sk : LSkel) (ls : List LineInfo) (fileoffset : Nat) (flt : Option Int) : Nat → Nat → Res
  | 0, _ => .nofuel
  | fuel + 1, cursor =>
    let env0 : Env := { fileoffset := fileoffset, foEnd := fileSz ls, foCursor := cursor }
    match findSysline ls (sk.probe.eval env0 noCursors) with
    | .found fo s =>
      match larmOf sk (dtAfterOrBefore s.dt flt) with
      | .retFound => .found fo s
      | .advance e => lsearchLoopG sk ls fileoffset flt fuel (e.eval { env0 with fo := fo, s := s } noCursors)
    | r => r

def lsearchG (sk : LSkel) (ls : List LineInfo) (flt : Option Int) (fuel : Nat) (fileoffset : Nat) : Res :=
  lsearchLoopG sk ls fileoffset flt fuel
    (sk.init.eval { fileoffset := fileoffset, foEnd := fileSz ls } noCursors)

/-! ### `find_sysline_between_datetime_filters` -/

def wactOf (sk : WSkel) : Result_Filter_DateTime2 → WAct
  | .InRange => sk.inRange
  | .BeforeRange => sk.beforeRange
  | .AfterRange => sk.afterRange

def betweenG (bk : BSkel) (lk : LSkel) (wk : WSkel) (ls : List LineInfo) (streamed : Bool) (fo : Nat)
    (a b : Option Int) : Res :=
  let flt := if wk.searchWithAfter then a else b
  let kind := if streamed then wk.whenStreamed else wk.whenPlain
  let r := match kind with
    | .linear => lsearchG lk ls flt (ls.length + 2) fo
    | .binary => bsearchG bk ls fo flt
  match r with
  | .found fo' s =>
    match wactOf wk (if wk.passInOrder then dtPassFilters s.dt a b else dtPassFilters s.dt b a) with
    | .retFound => .found fo' s
    | .retDone => .done
  | .done => .done
  | r => r

/-- the message loop of `exec_syslogprocessor` over the generated `between` -/
def streamLoopG (bk : BSkel) (lk : LSkel) (wk : WSkel) (ls : List LineInfo) (streamed : Bool)
    (a b : Option Int) : Nat → Nat → List Sysl
  | 0, _ => []
  | fuel + 1, fo =>
    match betweenG bk lk wk ls streamed fo a b with
    | .found fo' s => if isSyslineLast ls s then [s] else s :: streamLoopG bk lk wk ls streamed a b fuel fo'
    | _ => []

def streamAllG (bk : BSkel) (lk : LSkel) (wk : WSkel) (ls : List LineInfo) (streamed : Bool)
    (a b : Option Int) : List Sysl :=
  streamLoopG bk lk wk ls streamed a b (ls.length + 2) 0

/-! ### `find_sysline_year`: the two line walks (part A, part B) -/

/-- values an `AExpr` may mention -/
structure AVals where
  fo1 : Nat
  foAMax : Nat := 0
  fo2 : Nat
  lineBeg : Nat
  lineEnd : Nat
  fileoffset : Nat := 0
  foB : Nat := 0

def _root_.S4V.Gen.Search.AVar.get (x : AVals) : AVar → Nat
  | .fo1 => x.fo1
  | .foAMax => x.foAMax
  | .fo2 => x.fo2
  | .lineBeg => x.lineBeg
  | .lineEnd => x.lineEnd
  | .charsz => READER_CHARSZ
  | .fileoffset => x.fileoffset
  | .foB => x.foB

def _root_.S4V.Gen.Search.AExpr.eval (x : AVals) : AExpr → Nat
  | .v y => y.get x
  | .lit n => n
  | .add a b => a.eval x + b.eval x
  | .sub a b => a.eval x - b.eval x
  | .div a b => a.eval x / b.eval x
  | .min a b => min (a.eval x) (b.eval x)
  | .max a b => max (a.eval x) (b.eval x)

/-- state of part A: `fo1`, `fo_zero_tried`, `fo_a_max` -/
structure AState where
  fo1 : Nat
  zeroTried : Bool
  foAMax : Nat
  deriving Repr, DecidableEq

def avalsA (fileoffset : Nat) (l : LineInfo) (st : AState) : AVals :=
  { fo1 := st.fo1, foAMax := st.foAMax, fo2 := l.fin + 1, lineBeg := l.beg, lineEnd := l.fin, fileoffset := fileoffset }

def _root_.S4V.Gen.Search.ACond.eval (x : AVals) (zeroTried : Bool) : ACond → Bool
  | .zeroTried => zeroTried
  | .cmp op l r => op.eval (l.eval x) (r.eval x)
  | .and a b => a.eval x zeroTried && b.eval x zeroTried

def execSimples (fileoffset : Nat) (l : LineInfo) : List ASimple → AState → AState
  | [], st => st
  | .setFo1 e :: r, st => execSimples fileoffset l r { st with fo1 := e.eval (avalsA fileoffset l st) }
  | .setZeroTried :: r, st => execSimples fileoffset l r { st with zeroTried := true }

/-- `stored k` = `self.syslines_by_range.contains_key(&k)` -/
def execA (stored : Nat → Bool) (fileoffset : Nat) (l : LineInfo) : List AStmt → AState → AState
  | [], st => st
  | .simple s :: r, st => execA stored fileoffset l r (execSimples fileoffset l [s] st)
  | .ifStored key body :: r, st =>
    execA stored fileoffset l r
      (if stored (key.eval (avalsA fileoffset l st)) then execSimples fileoffset l body st else st)

/-- the `if / else if / else` chain: the first branch whose test holds -/
def chainA (stored : Nat → Bool) (fileoffset : Nat) (l : LineInfo) :
    List (Option ACond × List AStmt) → AState → AState
  | [], st => st
  | (none, b) :: _, st => execA stored fileoffset l b st
  | (some c, b) :: r, st =>
    if c.eval (avalsA fileoffset l st) st.zeroTried then execA stored fileoffset l b st
    else chainA stored fileoffset l r st

/-- part A for a skeleton: the line that starts the message, and `fo1` after it -/
def slPartAG (sk : ASkel) (stored : Nat → Bool) (ls : List LineInfo) (fileoffset : Nat) :
    Nat → AState → Option (LineInfo × Nat)
  | 0, _ => none
  | fuel + 1, st =>
    match lineAt ls st.fo1 with
    | none => none
    | some l =>
      let st1 : AState := { st with foAMax := sk.maxUpdate.eval (avalsA fileoffset l st) }
      match l.dt with
      | some _ => some (l, sk.foundNext.eval (avalsA fileoffset l st1))
      | none => slPartAG sk stored ls fileoffset fuel (chainA stored fileoffset l sk.chain st1)

/-- state of part B: `fo1`, `fo_b`, last byte of the last line pushed -/
structure PState where
  fo1 : Nat
  foB : Nat
  fin : Nat
  deriving Repr, DecidableEq

def avalsB (l : LineInfo) (st : PState) : AVals :=
  { fo1 := st.fo1, fo2 := l.fin + 1, lineBeg := l.beg, lineEnd := l.fin, foB := st.foB }

/-- statements of part B; the flag says a `break` was executed -/
def execP (l : LineInfo) : List PStmt → PState → PState × Bool
  | [], st => (st, false)
  | .push :: r, st => execP l r { st with fin := l.fin }
  | .brk :: _, st => (st, true)
  | .setFo1 e :: r, st => execP l r { st with fo1 := e.eval (avalsB l st) }
  | .setFoB e :: r, st => execP l r { st with foB := e.eval (avalsB l st) }

def slPartBG (sk : PSkel) (ls : List LineInfo) : Nat → PState → PState
  | 0, st => st
  | fuel + 1, st =>
    match lineAt ls st.fo1 with
    | none => st                                   -- `Done => break`
    | some l =>
      let r1 := execP l (match l.dt with | some _ => sk.hasDt | none => sk.noDt) st
      if r1.2 then r1.1
      else
        let r2 := execP l sk.tail r1.1
        if r2.2 then r2.1 else slPartBG sk ls fuel r2.1

/-- `find_sysline_year(fo)` with an empty store, for the generated walks -/
def findSyslineG (ak : ASkel) (pk : PSkel) (ls : List LineInfo) (fo : Nat) : Res :=
  let n := ls.length
  match slPartAG ak (fun _ => false) ls fo (2 * n + 2) { fo1 := fo, zeroTried := false, foAMax := 0 } with
  | none => .done
  | some (h, fo1) =>
    let st := slPartBG pk ls (n + 1) { fo1 := fo1, foB := fo1, fin := h.fin }
    .found st.foB ⟨h.beg, st.fin, h.dt.getD 0⟩

end S4V.Model.SearchSkel
