/-
Hand model of `LineReader::find_line` / `find_line_in_block`
(src/readers/linereader.rs) without the caches: the block walk (parts B1/B2,
A0, A2a/A2b, A4/A5) producing `LinePart`s. `charsz = 1`.

Arithmetic comes from `S4V.Gen.Blocks` (translated from blockreader.rs).
The specification `lineStart`/`lineEnd` is what the walk is proved equal to.
-/
import S4V.Gen.Blocks

namespace S4V.Model.Lines
open S4V.Gen.Blocks

abbrev Bytes := List UInt8

def NL : UInt8 := 10

/-- block `k` of data `d` at block size `bs` -/
def blockAt (d : Bytes) (bs k : Nat) : Bytes := (d.drop (k * bs)).take bs

/-- `LinePart`: slice `[biBeg, biEnd)` of block `bo` -/
structure Part where
  bo : Nat
  biBeg : Nat
  biEnd : Nat
  deriving DecidableEq, Repr, Inhabited

def Part.bytes (d : Bytes) (bs : Nat) (p : Part) : Bytes :=
  ((blockAt d bs p.bo).drop p.biBeg).take (p.biEnd - p.biBeg)

/-- file offset of the first byte of the part -/
def Part.foBeg (bs : Nat) (p : Part) : Nat := fileOffsetAtBlockOffsetIndex p.bo bs p.biBeg

inductive Res where
  | done
  | found (foNext : Nat) (parts : List Part)
  deriving DecidableEq, Repr, Inhabited

/-- result of `find_line_in_block`: found / partial line (no newline B in this
block) / nothing -/
inductive ResIB where
  | done
  | found (foNext : Nat) (parts : List Part)
  | part (parts : List Part)
  deriving DecidableEq, Repr, Inhabited

/-! ### specification -/

/-- index of the first `NL` at or after `i`, if any -/
def nlAtOrAfter : Bytes → Nat → Option Nat
  | [], _ => none
  | b :: rest, 0 => if b = NL then some 0 else (nlAtOrAfter rest 0).map (· + 1)
  | _ :: rest, i + 1 => (nlAtOrAfter rest i).map (· + 1)

/-- offset of the last byte of the line containing `fo` (`fo < |d|`) -/
def lineEnd (d : Bytes) (fo : Nat) : Nat :=
  match nlAtOrAfter d fo with
  | some i => i
  | none => d.length - 1

/-- index of the last `NL` strictly before `i`, if any -/
def nlBefore (d : Bytes) (i : Nat) : Option Nat :=
  match nlAtOrAfter (d.take i).reverse 0 with
  | some j => some ((min i d.length) - 1 - j)
  | none => none

/-- offset of the first byte of the line containing `fo` -/
def lineStart (d : Bytes) (fo : Nat) : Nat :=
  match nlBefore d fo with
  | some i => i + 1
  | none => 0

/-! ### the block walk -/

/-- forward scan of one block from index `i`: index of first NL, if any -/
def scanFwd (blk : Bytes) (i : Nat) : Option Nat := nlAtOrAfter blk i

/-- backward scan of one block from index `i` down to 0: index of the first NL met -/
def scanBwd (blk : Bytes) : Nat → Option Nat
  | 0 => if blk[0]? = some NL then some 0 else none
  | i + 1 => if blk[i + 1]? = some NL then some (i + 1) else scanBwd blk i

/-- part B2: walk blocks `bof, bof+1, … ≤ last` looking for newline B.
Returns the appended parts and `some foNlB` when a newline was found. -/
def walkFwd (d : Bytes) (bs last : Nat) : Nat → Nat → List Part × Option Nat
  | 0, _ => ([], none)
  | fuel + 1, bof =>
    if bof > last then ([], none)
    else
      let blk := blockAt d bs bof
      match scanFwd blk 0 with
      | some i => ([⟨bof, 0, i + 1⟩], some (fileOffsetAtBlockOffsetIndex bof bs i))
      | none =>
        let w := walkFwd d bs last fuel (bof + 1)
        (⟨bof, 0, blk.length⟩ :: w.1, w.2)

/-- does the line (list of parts) store block `bo`? (`Line::stores_blockoffset`) -/
def storesBo (ps : List Part) (bo : Nat) : Bool := ps.any (·.bo == bo)

/-- parts A4/A5: walk blocks `bof, bof-1, … ≥ 0` backwards looking for newline A,
prepending parts to `line`. `prior` is `(bi_start_prior)` of the block after. -/
def walkBwd (d : Bytes) (bs : Nat) : Nat → Nat → Nat → List Part → List Part
  | 0, _, _, line => line
  | fuel + 1, bof, biStartPrior, line =>
    let blk := blockAt d bs bof
    let biStart := blk.length - 1
    match scanBwd blk biStart with
    | some i =>
      let foNlA1 := fileOffsetAtBlockOffsetIndex bof bs i + 1
      let bofA1 := blockOffsetAtFileOffset foNlA1 bs
      if bofA1 = bof then ⟨bof, i + 1, biStart + 1⟩ :: line
      else if !storesBo line bofA1 then ⟨bofA1, 0, biStartPrior + 1⟩ :: line
      else line
    | none =>
      let line' := ⟨bof, 0, biStart + 1⟩ :: line
      if bof ≠ 0 then walkBwd d bs fuel (bof - 1) biStart line'
      else line'

/-- `Line::fileoffset_end`: offset of the last byte of the last part -/
def lineFoEnd (bs : Nat) (ps : List Part) : Nat :=
  match ps.getLast? with
  | some p => fileOffsetAtBlockOffsetIndex p.bo bs p.biEnd - 1
  | none => 0

/-- part B1 of `find_line`: scan the block holding `fo` forward for newline B.
Returns `(foundB, foNlB, biMEnd)`; end of file counts as newline B. -/
def partB1 (d : Bytes) (bs last fo : Nat) : Bool × Nat × Nat :=
  let boM := blockOffsetAtFileOffset fo bs
  let biM := blockIndexAtFileOffset fo bs
  let blkM := blockAt d bs boM
  let biStop := blkM.length
  match scanFwd blkM biM with
  | some i => (true, fileOffsetAtBlockOffsetIndex boM bs i, i)
  | none =>
    if boM = last then (true, fileOffsetAtBlockOffsetIndex boM bs (biStop - 1), biStop - 1)
    else (false, fo, biStop - 1)

/-- part B1 of `find_line_in_block`: as `partB1`, but as coded `bi_middle_end`
stays at `bi_middle` when newline B is not in the block. -/
def partB1IB (d : Bytes) (bs last fo : Nat) : Bool × Nat × Nat :=
  let boM := blockOffsetAtFileOffset fo bs
  let biM := blockIndexAtFileOffset fo bs
  let blkM := blockAt d bs boM
  let biStop := blkM.length
  match scanFwd blkM biM with
  | some i => (true, fileOffsetAtBlockOffsetIndex boM bs i, i)
  | none =>
    if boM = last then (true, fileOffsetAtBlockOffsetIndex boM bs (biStop - 1), biStop - 1)
    else (false, fo, biM)

/-- part B2 of `find_line`: when B1 did not find newline B, walk the following
blocks. Returns `(tailParts, foNlB)`. -/
def partB2 (d : Bytes) (bs last boM : Nat) (foundB : Bool) (foNlB : Nat) : List Part × Nat :=
  if foundB then ([], foNlB)
  else
    let w := walkFwd d bs last (last + 1 - boM) (boM + 1)
    match w.2 with
    | some f => (w.1, f)
    | none =>
      -- newline B is end of file: last block fully scanned
      let blkL := blockAt d bs last
      (w.1, fileOffsetAtBlockOffsetIndex last bs (blkL.length - 1))

/-- parts A0, A2a, A2b (+ A4/A5 via `walkBwd`) of `find_line`: find newline A
before `fo` and assemble the line from the middle part and `tailParts`. -/
def partA (d : Bytes) (bs fo biMEnd : Nat) (tailParts : List Part) (foNlB : Nat) : Res :=
  let boM := blockOffsetAtFileOffset fo bs
  let biM := blockIndexAtFileOffset fo bs
  let blkM := blockAt d bs boM
  if fo = 0 then
    -- A0
    .found (foNlB + 1) (⟨blockOffsetAtFileOffset 0 bs, blockIndexAtFileOffset 0 bs, biMEnd + 1⟩ :: tailParts)
  else
    let start := fo - 1
    let bof := blockOffsetAtFileOffset start bs
    if bof = boM then
      -- A2a
      let biAt := blockIndexAtFileOffset start bs
      match scanBwd blkM biAt with
      | some i => .found (lineFoEnd bs (⟨boM, i + 1, biMEnd + 1⟩ :: tailParts) + 1) (⟨boM, i + 1, biMEnd + 1⟩ :: tailParts)
      | none =>
        let line := ⟨boM, 0, biMEnd + 1⟩ :: tailParts
        let line' := if bof ≠ 0 then walkBwd d bs bof (bof - 1) biM line else line
        .found (lineFoEnd bs line' + 1) line'
    else
      -- A2b
      let line := ⟨boM, 0, biMEnd + 1⟩ :: tailParts
      let line' := walkBwd d bs (bof + 1) bof biM line
      .found (lineFoEnd bs line' + 1) line'

/-- `LineReader::find_line(fo)` on a reader with empty caches. -/
def findLine (bs : Nat) (d : Bytes) (fo : Nat) : Res :=
  let filesz := d.length
  if filesz = 0 ∨ fo ≥ filesz then .done
  else
    let last := blockOffsetLast filesz bs
    let boM := blockOffsetAtFileOffset fo bs
    -- B1: (foundB, foNlB, biMEnd)
    let b1 := partB1 d bs last fo
    -- B2: (tailParts, foNlB)
    let b2 := partB2 d bs last boM b1.1 b1.2.1
    -- A0 / A2a / A2b / A4 / A5
    partA d bs fo b1.2.2 b2.1 b2.2

/-- parts A0 / A2a of `find_line_in_block`: newline A must be in the same block
(or the block is the first one), else give up. -/
def partAIB (d : Bytes) (bs fo : Nat) (foundB : Bool) (foNlB biMEnd : Nat) : ResIB :=
  let boM := blockOffsetAtFileOffset fo bs
  let blkM := blockAt d bs boM
  let partialLine := !foundB
  if fo = 0 then
    let line := [⟨blockOffsetAtFileOffset 0 bs, blockIndexAtFileOffset 0 bs, biMEnd + 1⟩]
    if partialLine then .part line else .found (foNlB + 1) line
  else
    let start := fo - 1
    let bof := blockOffsetAtFileOffset start bs
    if bof ≠ boM then .done
    else
      let biAt := blockIndexAtFileOffset start bs
      match scanBwd blkM biAt with
      | some i =>
        let line := [⟨boM, i + 1, biMEnd + 1⟩]
        if partialLine then .part line else .found (foNlB + 1) line
      | none =>
        if bof = 0 then
          let line := [⟨boM, 0, biMEnd + 1⟩]
          if partialLine then .part line else .found (foNlB + 1) line
        else .done

/-- `LineReader::find_line_in_block(fo)` on a reader with empty caches. -/
def findLineInBlock (bs : Nat) (d : Bytes) (fo : Nat) : ResIB :=
  let filesz := d.length
  if filesz = 0 ∨ fo ≥ filesz then .done
  else
    let last := blockOffsetLast filesz bs
    -- B1: (foundB, foNlB, biMEnd)
    let b1 := partB1IB d bs last fo
    partAIB d bs fo b1.1 b1.2.1 b1.2.2

/-! ### rendering for the driver -/

def partsBytes (d : Bytes) (bs : Nat) (ps : List Part) : Bytes :=
  ps.foldr (fun p acc => p.bytes d bs ++ acc) []

def partsStr (ps : List Part) : String :=
  String.intercalate "," (ps.map fun p => s!"{p.bo}:{p.biBeg}:{p.biEnd}")

def Res.toString : Res → String
  | .done => "done"
  | .found n ps => s!"found {n} {partsStr ps}"

def ResIB.toString : ResIB → String
  | .done => "done"
  | .found n ps => s!"found {n} {partsStr ps}"
  | .part ps => s!"partial {partsStr ps}"

end S4V.Model.Lines
