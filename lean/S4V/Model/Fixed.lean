/-
Model of how the time value of an accounting record is taken from the record's bytes
(src/data/fixedstruct.rs).

ORDERING side  `FixedStructType::tv_pair_from_buffer` applied by
               `FixedStructReader::preprocess_timevalues` to the `size_tv()` bytes at
               `offset_tv()` of every record: the map key that decides print order and the
               `-a`/`-b` prefilter.
PRINTING side  `FixedStruct::new` = `buffer_to_fixedstructptr` (cast of the `size()` record bytes to
               the `#[repr(C, ..)]` struct) + `from_fixedstructptr` (reads the struct's time FIELD with
               its declared type; `tv_pair()`, `dt()`; the printed text shows the same field).

Which type is read on each side, at which offset, comes from the GENERATED table
`S4V.Gen.Fixed.layouts`. Byte order: both sides read natively; the model decodes little-endian
(the harness and the binary are built for x86_64; see `nativeIsLittleEndian`).
-/
import S4V.Gen.Fixed
import S4V.Model.SortDrain

namespace S4V.Model.Fixed
open S4V.Gen.Fixed

abbrev Bytes := List UInt8

/-- the targets `s4` is built for here (x86_64, aarch64) are little-endian -/
def nativeIsLittleEndian : Bool := true

/-- value of a little-endian byte string -/
def leNat : Bytes → Nat
  | [] => 0
  | b :: r => b.toNat + 256 * leNat r

/-- the bytes in the order in which `leNat` must see them -/
def ordered (o : ByteOrder) (bs : Bytes) : Bytes :=
  match o with
  | .native => if nativeIsLittleEndian then bs else bs.reverse
  | .le => bs
  | .be => bs.reverse

/-- two's complement reading of `n < 2^(8*bytes)` -/
def ofStored (p : Prim) (n : Nat) : Int :=
  if p.signed && decide (2 ^ (8 * p.bytes - 1) ≤ n) then (n : Int) - (2 ^ (8 * p.bytes) : Nat) else (n : Int)

/-- value of primitive `p` stored in `bs` (`bs.length = p.bytes`) -/
def decodePrim (o : ByteOrder) (p : Prim) (bs : Bytes) : Int := ofStored p (leNat (ordered o bs))

def slice (bs : Bytes) (off len : Nat) : Bytes := (bs.drop off).take len

/-- read primitive `p` at `off`; `none` when the bytes are not all there (in Rust: an out-of-bounds
pointer read, which the callers exclude by passing `size_tv()` / `size()` bytes) -/
def readAt (o : ByteOrder) (p : Prim) (off : Nat) (bs : Bytes) : Option Int :=
  let s := slice bs off p.bytes
  if s.length = p.bytes then some (decodePrim o p s) else none

/-- `x.try_into()` to primitive `p` succeeds -/
def fits (p : Prim) (v : Int) : Bool :=
  if p.signed then decide (-((2 ^ (8 * p.bytes - 1) : Nat) : Int) ≤ v) && decide (v < ((2 ^ (8 * p.bytes - 1) : Nat) : Int))
  else decide (0 ≤ v) && decide (v < ((2 ^ (8 * p.bytes) : Nat) : Int))

/-- `buffer_to_time_t!` / `buffer_to_timeval!` on a buffer holding one value of shape `s`:
tv_sec that does not fit `tv_sec_type` => `None`; tv_usec that does not fit => 0 -/
def readTv (o : ByteOrder) (s : TvShape) (buf : Bytes) : Option (Int × Int) :=
  match readAt o s.sec s.secOff buf with
  | none => none
  | some sec =>
    if !fits tvSecType sec then (if readSecOverflowIsNone then none else some (0, 0))
    else
      match s.usec with
      | none => some (sec, 0)
      | some (p, off) =>
        match readAt o p off buf with
        | none => none
        | some u => if fits tvUsecType u then some (sec, u) else (if readUsecOverflowIsZero then some (sec, 0) else none)

/-- `FixedStructType::tv_pair_from_buffer(buffer)` for `buffer.len() == size_tv()` -/
def tvPairFromBuffer (l : Layout) (buf : Bytes) : Option (Int × Int) :=
  if buf.length = l.sizeTv ∧ l.read.size ≤ buf.length then readTv readByteOrder l.read buf else none

/-- ORDERING side: the time value `preprocess_timevalues` computes for a record -/
def tvPair (l : Layout) (record : Bytes) : Option (Int × Int) :=
  if record.length = l.size then tvPairFromBuffer l (slice record l.offsetTv l.sizeTv) else none

/-- PRINTING side, as declared: the time FIELD of the struct the record is cast to, read with its
declared type at its declared offset -/
def fieldTv (l : Layout) (record : Bytes) : Option (Int × Int) :=
  if record.length = l.size then readTv structByteOrder l.decl (slice record l.fieldOffset l.decl.size) else none

/-- seconds / microseconds stored in the time field, by the DECLARED type (spec-level reading) -/
def fieldSec (l : Layout) (record : Bytes) : Int :=
  decodePrim structByteOrder l.decl.sec (slice record (l.fieldOffset + l.decl.secOff) l.decl.sec.bytes)

def fieldUsec (l : Layout) (record : Bytes) : Int :=
  match l.decl.usec with
  | none => 0
  | some (p, off) => decodePrim structByteOrder p (slice record (l.fieldOffset + off) p.bytes)

/-- raw (unsigned) content of the seconds bytes of the time field -/
def storedSec (l : Layout) (record : Bytes) : Nat :=
  leNat (ordered structByteOrder (slice record (l.fieldOffset + l.decl.secOff) l.decl.sec.bytes))

/-! ### `FixedStruct::new` (hand model of the parts outside the table) -/

/-- chrono 0.4 smallest and largest epoch second `FixedOffset(0).timestamp_opt` accepts (-262143-01-02T00:00:00 .. +262142-12-31T23:59:59; measured)
(`convert_tvpair_to_datetime` -> `timestamp_opt`); cross-checked through the correspondence -/
def chronoMinSec : Int := -8334601228800
def chronoMaxSec : Int := 8210266876799

/-- `FixedStruct::new(..).tv_pair()`: `none` = `Err` (all-0x00 / all-0xFF buffer, a value that does
not fit, or seconds outside chrono's range) -/
def newTv (l : Layout) (record : Bytes) : Option (Int × Int) :=
  if record.length ≠ l.size then none
  else if record.all (· == 0) || record.all (· == 255) then none
  else
    match readAt structByteOrder l.decl.sec (l.fieldOffset + l.decl.secOff) record with
    | none => none
    | some sec =>
      if !fits tvSecType sec then none else
      let usec : Option Int := match l.decl.usec with
        | none => some 0
        | some (p, off) =>
          match readAt structByteOrder p (l.fieldOffset + off) record with
          | none => none
          | some u => if fits tvUsecType u then some u else none
      match usec with
      | none => none
      | some u => if chronoMinSec ≤ sec ∧ sec ≤ chronoMaxSec then some (sec, u) else none

/-! ### a file of records, for the sort model -/

/-- records of a file as the sort model (`S4V.Model.SortDrain`) sees them: index in the file, time
value by `tv`; a record without a time value (`None`) is skipped (`invalid += 1; continue`) -/
def recsFrom (tv : Bytes → Option (Int × Int)) : Nat → List Bytes → List SortDrain.Rec
  | _, [] => []
  | i, r :: rest =>
    match tv r with
    | some t => ⟨t, i⟩ :: recsFrom tv (i + 1) rest
    | none => recsFrom tv (i + 1) rest

/-- the print order of an accounting-record file: `preprocess_timevalues` keys every record with
`tvPair` (generated: `keyIsTvPairOfRecordSlice`), the map is walked in key order -/
def filePrint (l : Layout) (file : List Bytes) (a b : Option (Int × Int)) : List Nat :=
  SortDrain.fixedPrint (recsFrom (tvPair l) 0 file) a b

end S4V.Model.Fixed
