/-
Interpreter of the regenerated `--summary` accounting (`S4V.Gen.Summary`, C19).

  src/printer/summary.rs   SummaryPrinted::summaryprint_update_dt / summaryprint_update_* /
                           summaryprint_map_update_* — translated to statement lists by gen/gen_summary.py
  src/bin/s4.rs            processing_loop, the four arms of `match log_message` — guarded atoms in source order
  src/readers/evtxreader.rs         EvtxReader::analyze, the `Ok(record)` arm of the record loop
  src/readers/fixedstructreader.rs  FixedStructReader::dt_first_last_update
  src/readers/journalreader.rs      JournalReader::em_first_last_update_accepted

Nothing here knows what the source says: every function takes the program (`Progs`, `List RStmt`, `List (OptMatch F)`)
as DATA and runs it.  `SRC` is the program as regenerated from the source; the counter-models in
`Props/SummarySpec.lean` are other values of the same type.  `Lemmas/Summary.lean` proves that running `SRC` IS the
hand model of `Model/Print.lean` (`account`, `coordAfter`), so every C19 theorem is a theorem about the regenerated form.
-/
import S4V.Model.Print
import S4V.Gen.Summary
import S4V.Gen.Filter

namespace S4V.Model.Summary
open S4V.Model.Print
open S4V.Gen.Summary

/-! ### expressions, comparisons, option-min/max matches -/

/-- the values an expression can mention: the locals `printed` / `flushed`, `<msg>.count_lines()`, `sepb.len()`,
`NLu8a.len()`; `dt` = `<msg>.dt()` -/
structure Vals where
  printed : Nat
  flushed : Nat
  nlines : Nat
  sepLen : Nat
  nlLen : Nat
  dt : Int
  deriving DecidableEq, Repr

def evalE (env : Vals) : Expr → Nat
  | .lit n => n
  | .printed => env.printed
  | .flushed => env.flushed
  | .countLines => env.nlines
  | .sepLen => env.sepLen
  | .nlLen => env.nlLen
  | .add a b => evalE env a + evalE env b
  | .mul a b => evalE env a * evalE env b

def evalCmp : Cmp → Int → Int → Bool
  | .lt, a, b => decide (a < b)
  | .gt, a, b => decide (a > b)
  | .le, a, b => decide (a ≤ b)
  | .ge, a, b => decide (a ≥ b)

/-- `self.G = Some(new);` for every `G` of the list -/
def assignAll {F S : Type} (set : S → F → Option Int → S) (new : Int) (s : S) (fs : List F) : S :=
  fs.foldl (fun s f => set s f (some new)) s

/-- `match self.F { Some(b) => { if L CMP R { assigns } } None => { assigns } }` over any record `S` with
`Option` fields named by `F` -/
def runOpt {F S : Type} (get : S → F → Option Int) (set : S → F → Option Int → S) (new : Int) (s : S)
    (m : OptMatch F) : S :=
  match get s m.scrut with
  | some b =>
    match m.someArm with
    | .guarded newOnLeft c fs =>
      if (if newOnLeft then evalCmp c new b else evalCmp c b new) then assignAll set new s fs else s
    | .plain fs => assignAll set new s fs
  | none => assignAll set new s m.noneArm

def runOpts {F S : Type} (get : S → F → Option Int) (set : S → F → Option Int → S) (prog : List (OptMatch F))
    (s : S) (new : Int) : S :=
  prog.foldl (runOpt get set new) s

/-! ### `SummaryPrinted` -/

def dtGet (s : SumPr) : DtF → Option Int
  | .first => s.dtFirst
  | .last => s.dtLast

def dtSet (s : SumPr) : DtF → Option Int → SumPr
  | .first, v => { s with dtFirst := v }
  | .last, v => { s with dtLast := v }

/-- `self.C += n` -/
def bump (s : SumPr) : Ctr → Nat → SumPr
  | .bytes, n => { s with bytes := s.bytes + n }
  | .flushed, n => { s with flushed := s.flushed + n }
  | .lines, n => { s with lines := s.lines + n }
  | .syslines, n => { s with syslines := s.syslines + n }
  | .fixedstructentries, n => { s with fixedstructentries := s.fixedstructentries + n }
  | .evtxentries, n => { s with evtxentries := s.evtxentries + n }
  | .journalentries, n => { s with journalentries := s.journalentries + n }

/-- everything regenerated that the accounting interpreter runs -/
structure Progs where
  updateDt : List (OptMatch DtF)
  update : K → List Stmt
  mapUpdate : K → MapUpd
  loop : K → List GAtom
  new : List (Ctr × Nat)
  nlLen : Nat

/-- the source as regenerated -/
def SRC : Progs := ⟨UPDATE_DT, UPDATE, MAP_UPDATE, LOOP, NEW, NL_LEN⟩

/-- `summaryprint_update_dt` -/
def runUpdateDt (P : Progs) (s : SumPr) (dt : Int) : SumPr := runOpts dtGet dtSet P.updateDt s dt

def runStmt (P : Progs) (env : Vals) (s : SumPr) : Stmt → SumPr
  | .add c e => bump s c (evalE env e)
  | .updateDt => runUpdateDt P s env.dt

/-- body of `summaryprint_update_<k>` with the parameters `printed`, `flushed` and the message in `env` -/
def runUpdate (P : Progs) (k : K) (env : Vals) (s : SumPr) : SumPr := (P.update k).foldl (runStmt P env) s

/-- `<recv>.summaryprint_update_<fn>(msg, a1, a2)` evaluated in the caller's `env` -/
def runCall (P : Progs) (env : Vals) (s : SumPr) (c : Call) : SumPr :=
  runUpdate P c.fn { env with printed := evalE env c.a1, flushed := evalE env c.a2 } s

/-- `SummaryPrinted::new(_)` -/
def fresh (P : Progs) : SumPr := P.new.foldl (fun s cn => bump s cn.1 cn.2) {}

/-- body of `summaryprint_map_update_*`: `match map_.get_mut(pathid)`; the map is an association list in insertion
order, as in the hand model -/
def runMapUpd (P : Progs) (mu : MapUpd) (env : Vals) (pid : Nat) : List (Nat × SumPr) → List (Nat × SumPr)
  | [] =>
    let sp := mu.noneCalls.foldl (runCall P env) (fresh P)
    if mu.inserts then [(pid, sp)] else []
  | (q, s) :: r =>
    if q = pid then (q, mu.someCalls.foldl (runCall P env) s) :: r
    else (q, s) :: runMapUpd P mu env pid r

/-! ### `processing_loop` -/

def kOf : Kind → K
  | .sysline => .sysline
  | .fixedstruct => .fixedstruct
  | .evtx => .evtx
  | .journal => .journalentry

/-- what does not change while one arm runs -/
structure Ctx where
  sep : Bytes
  summary : Bool
  isLast : Bool
  endsNL : Bool
  pid : Nat
  nlines : Nat
  dt : Int
  /-- result of `printer.print_*`: `Ok((a, b))` or `Err(_)` -/
  res : Option (Nat × Nat)
  deriving DecidableEq, Repr

/-- the locals `printed`, `flushed` (initially 0: checked by the translator), the accounting state, the coordinator's own
writes to stdout, `paths_printed_logmessages` -/
structure LState where
  printed : Nat := 0
  flushed : Nat := 0
  acct : Acct
  out : List Chunk := []
  paths : List Nat := []
  deriving DecidableEq, Repr

def evalV (cx : Ctx) : CVar → Bool
  | .sepbPrint => !cx.sep.isEmpty
  | .summary => cx.summary
  | .isLast => cx.isLast
  | .endsNL => cx.endsNL

def evalCond (cx : Ctx) (c : Cond) : Bool := if c.neg then !evalV cx c.v else evalV cx c.v

def envOf (P : Progs) (cx : Ctx) (st : LState) : Vals :=
  ⟨st.printed, st.flushed, cx.nlines, cx.sep.length, P.nlLen, cx.dt⟩

def runAtom (P : Progs) (cx : Ctx) (st : LState) : Atom → LState
  | .printCall _ printedFirst =>
    match cx.res with
    | some (a, b) => if printedFirst then { st with printed := a, flushed := b } else { st with printed := b, flushed := a }
    | none => st
  | .write .sepb => { st with out := st.out ++ [.coord cx.sep] }
  | .write .nl => { st with out := st.out ++ [.coord (List.replicate P.nlLen NL)] }
  | .add c e => { st with acct := { st.acct with total := bump st.acct.total c (evalE (envOf P cx st) e) } }
  | .notePath => if cx.pid ∈ st.paths then st else { st with paths := st.paths ++ [cx.pid] }
  | .mapUpdate fn a1 a2 =>
    let env := envOf P cx st
    let callee := { env with printed := evalE env a1, flushed := evalE env a2 }
    { st with acct := { st.acct with perFile := runMapUpd P (P.mapUpdate fn) callee cx.pid st.acct.perFile } }
  | .totalUpdate fn a1 a2 =>
    { st with acct := { st.acct with total := runCall P (envOf P cx st) st.acct.total ⟨fn, a1, a2⟩ } }

def runGAtom (P : Progs) (cx : Ctx) (st : LState) (g : GAtom) : LState :=
  if g.conds.all (evalCond cx) then runAtom P cx st g.atom else st

def runBlock (P : Progs) (cx : Ctx) (prog : List GAtom) (st : LState) : LState := prog.foldl (runGAtom P cx) st

def ctxOf (sep : Bytes) (summary : Bool) (pid : Nat) (m : Msg) (isLast : Bool) (dt : Int) (res : Option (Nat × Nat)) : Ctx :=
  ⟨sep, summary, isLast, endsNL m.payload, pid, m.nlines, dt, res⟩

/-- one arm of `match log_message` for the message `m` of file `pid` -/
def stepG (P : Progs) (a : Acct) (sep : Bytes) (summary : Bool) (pid : Nat) (m : Msg) (isLast : Bool) (dt : Int)
    (res : Option (Nat × Nat)) : LState :=
  runBlock P (ctxOf sep summary pid m isLast dt res) (P.loop (kOf m.kind)) { acct := a }

/-- `summaryprinted` / `map_pathid_sumpr` of a whole `--summary` run under program `P` (compare `runAcct`) -/
def runAcctG (P : Progs) (sep : Bytes) : Acct → List Ev → Acct
  | a, [] => a
  | a, ev :: r =>
    runAcctG P sep (stepG P a sep true ev.pid ev.m ev.isLast ev.dt (some (printedOf ev.o ev.m, ev.flushed))).acct r

/-! ### readers -/

/-- the statistics of `EvtxReader` that `analyze` maintains, and the keys of `self.events` in insertion order -/
structure EvSt where
  processed : Nat := 0
  accepted : Nat := 0
  firstProcessed : Option Int := none
  lastProcessed : Option Int := none
  firstAccepted : Option Int := none
  lastAccepted : Option Int := none
  stored : List Int := []
  deriving DecidableEq, Repr

def evGet (s : EvSt) : EvF → Option Int
  | .firstProcessed => s.firstProcessed
  | .lastProcessed => s.lastProcessed
  | .firstAccepted => s.firstAccepted
  | .lastAccepted => s.lastAccepted

def evSet (s : EvSt) : EvF → Option Int → EvSt
  | .firstProcessed, v => { s with firstProcessed := v }
  | .lastProcessed, v => { s with lastProcessed := v }
  | .firstAccepted, v => { s with firstAccepted := v }
  | .lastAccepted, v => { s with lastAccepted := v }

def evBump (s : EvSt) : EvC → Nat → EvSt
  | .processed, n => { s with processed := s.processed + n }
  | .accepted, n => { s with accepted := s.accepted + n }

/-- the `Ok(record)` arm for one record with timestamp `ts`; `continue` leaves the rest of the arm out -/
def runR (after before : Option Int) (ts : Int) : List RStmt → EvSt → EvSt
  | [], s => s
  | .add c n :: r, s => runR after before ts r (evBump s c n)
  | .opt m :: r, s => runR after before ts r (runOpt evGet evSet ts s m)
  | .filter ci cb ca :: r, s =>
    let cont := match S4V.Gen.Filter.tsPassFilters ts after before with
      | .InRange => ci
      | .BeforeRange => cb
      | .AfterRange => ca
    if cont then s else runR after before ts r s
  | .store :: r, s => runR after before ts r { s with stored := s.stored ++ [ts] }

/-- `EvtxReader::analyze` over the records' timestamps in file order -/
def analyze (prog : List RStmt) (after before : Option Int) (recs : List Int) (s : EvSt) : EvSt :=
  recs.foldl (fun s ts => runR after before ts prog s) s

/-- a first/last pair (`FixedStructReader.dt_first/dt_last`, `JournalReader.ts_first/last_accepted`) -/
structure FL where
  first : Option Int := none
  last : Option Int := none
  deriving DecidableEq, Repr

def flGet (s : FL) : DtF → Option Int
  | .first => s.first
  | .last => s.last

def flSet (s : FL) : DtF → Option Int → FL
  | .first, v => { s with first := v }
  | .last, v => { s with last := v }

/-- `dt_first_last_update` called once per element of `dts`, in order -/
def runFL (prog : List (OptMatch DtF)) (dts : List Int) (s : FL) : FL := dts.foldl (runOpts flGet flSet prog) s

end S4V.Model.Summary
