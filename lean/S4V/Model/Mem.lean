/-
Hand model of what stays stored while a text log is streamed (stage 3):
`exec_syslogprocessor`'s loop (src/bin/s4.rs) — find message `k`, send it, then
`drop_data_try(message k-1)` — and the drop path `SyslogProcessor::drop_data_try` →
`drop_data` → `SyslineReader::drop_data` → `drop_sysline` → `LineReader::drop_lines` →
`drop_line` → `BlockReader::drop_block`, plus the look-back drop of streamed readers.

A file is a list of messages; a message is the list of its lines; a line is the first and last
block it touches (so its parts are the blocks `f ..= l`). Only counts matter here.

As coded (constants from `S4V.Gen.Stream`, extracted from the source):
* `drop_data_try(m)`: `if bo_first(m) > DROP_TRY_GUARD { drop_data(bo_first(m) - DROP_TRY_BACK) }`;
* `drop_data(t)` takes every stored sysline whose LAST block is `≤ t`;
* `drop_sysline` removes the entry from `syslines` first and then tries `Arc::try_unwrap`: if the
  consumer still holds the message the unwrap fails, its lines stay in `lines`, and nothing
  refers to them again (`SYSLINE_REMOVED_BEFORE_UNWRAP`);
* `drop_sysline` hands every line of the unwrapped message to `drop_lines`
  (`DROP_SYSLINE_PASSES_ALL_LINES`); `drop_lines` calls `drop_line` on every one of them
  (`DROP_LINES_VISITS_ALL = true`) — the functions below take that fact as a parameter `visitAll`:
  with `false` (`lines.into_iter().any(|l| self.drop_line(l))` and its kin) the walk stops after the first
  line whose `drop_line` returned `true`, i.e. the first line with a part in an earlier block, and the
  later lines of the message stay in `lines` for good (`drop_block` is taken to return `true`: with a
  consumer that has let go, the earlier lines sharing the block were dropped before);
* `drop_line` drops the blocks of all parts but the last (`LINE_DROP_KEEP_PARTS = 1`): a line that
  lies inside one block drops nothing, so a block whose last byte ends a line is dropped by nobody;
* a streamed reader (gz/bz2/lz4) drops block `b-1` from `blocks` when it stores block `b`.
The `drop_block_last` short-cut of `SyslogProcessor::drop_data` only skips a repeated, idempotent
drop and is left out.
-/
import S4V.Gen.Consts
import S4V.Gen.Blocks
import S4V.Gen.Stream

namespace S4V.Model.Mem
open S4V.Gen.Consts S4V.Gen.Stream S4V.Gen.Blocks

structure Ln where
  f : Nat
  l : Nat
  deriving DecidableEq, Repr, Inhabited

abbrev Msg := List Ln

def Msg.first (m : Msg) : Nat := (m.head?.map (·.f)).getD 0
def Msg.last (m : Msg) : Nat := (m.getLast?.map (·.l)).getD 0

structure St where
  /-- keys of `syslines` (message indices) -/
  syslines : List Nat
  /-- stored lines `(message, line index)` -/
  lines : List (Nat × Nat)
  /-- keys of `blocks` -/
  blocks : List Nat
  /-- number of blocks read so far (blocks are read in ascending order while streaming) -/
  nread : Nat
  bHigh : Nat
  lHigh : Nat
  sHigh : Nat
  /-- messages removed from `syslines` whose lines were never dropped -/
  leaked : Nat
  deriving Repr, Inhabited

def St.init : St := ⟨[], [], [], 0, 0, 0, 0, 0⟩

/-- read blocks `nread ..= b`; a streamed reader drops the predecessor after each store -/
def readUpTo (streamed : Bool) : Nat → St → Nat → St
  | 0, st, _ => st
  | fuel + 1, st, b =>
    if st.nread ≤ b then
      let k := st.nread
      let bl := k :: st.blocks
      let hi := max st.bHigh bl.length
      let bl' := if streamed && READ_BLOCK_LOOKBACK_DROP && decide (0 < k) then bl.filter (· != k - 1) else bl
      readUpTo streamed fuel { st with blocks := bl', nread := k + 1, bHigh := hi } b
    else st

def addLine (st : St) (key : Nat × Nat) : St :=
  if key ∈ st.lines then st
  else
    let ls := key :: st.lines
    { st with lines := ls, lHigh := max st.lHigh ls.length }

/-- `find_sysline` for message `k`: its lines and the first line of message `k + 1` (the line that
shows message `k` has ended) are found and stored, the blocks they touch are read -/
def findMsg (streamed : Bool) (msgs : List Msg) (st : St) (k : Nat) : St :=
  let m := msgs.getD k []
  let look : List (Nat × Nat × Ln) :=
    (m.zipIdx.map fun (ln, i) => (k, i, ln)) ++
      (match (msgs.getD (k + 1) []).head? with
       | some ln => [(k + 1, 0, ln)]
       | none => [])
  let st := look.foldl (fun st (j, i, ln) => addLine (readUpTo streamed (ln.l + 1) st ln.l) (j, i)) st
  let ss := k :: st.syslines
  { st with syslines := ss, sHigh := max st.sHigh ss.length }

/-- blocks `f ..< l` : the parts of a line except the last -/
def dropParts (ln : Ln) : List Nat := (List.range (ln.l - ln.f)).map (· + ln.f)

/-- how many lines of a message `drop_lines` hands to `drop_line`: all of them, or (short-circuit
form) the lines up to and including the first one that has a part in an earlier block -/
def dropVisited (visitAll : Bool) (m : Msg) : Nat :=
  if visitAll then m.length else min m.length (m.findIdx (fun ln => decide (ln.f < ln.l)) + 1)

/-- `drop_data_try(message prev)` run after message `k` was sent; `held j` = the consumer still
references message `j` -/
def dropTryG (visitAll : Bool) (msgs : List Msg) (held : Nat → Bool) (st : St) (prev : Nat) : St :=
  let boF := (msgs.getD prev []).first
  if boF > DROP_TRY_GUARD then
    let t := boF - DROP_TRY_BACK
    let victims := st.syslines.filter fun j => decide ((msgs.getD j []).last ≤ t)
    let keep := st.syslines.filter fun j => !decide ((msgs.getD j []).last ≤ t)
    let ok := victims.filter fun j => !held j
    let bad := victims.filter held
    let gone : List Nat := ok.flatMap fun j =>
      ((msgs.getD j []).take (dropVisited visitAll (msgs.getD j []))).flatMap dropParts
    { st with syslines := keep,
              lines := st.lines.filter (fun p => !(ok.contains p.1 && decide (p.2 < dropVisited visitAll (msgs.getD p.1 [])))),
              blocks := st.blocks.filter (fun b => !gone.contains b),
              leaked := st.leaked + bad.length }
  else st

/-- the stage-3 loop over messages `k, k+1, …`: find, send, (last ⇒ break), drop behind `k - 1`.
`lag k` = how many of the most recent messages the consumer still references when the worker
reaches the drop after sending `k` (at most `CHANNEL_CAPACITY + 2`: a full channel, the message
being printed, the message just sent). -/
def loopG (visitAll streamed : Bool) (msgs : List Msg) (lag : Nat → Nat) : Nat → Nat → St → St
  | 0, _, st => st
  | fuel + 1, k, st =>
    if k < msgs.length then
      let st := findMsg streamed msgs st k
      if k + 1 = msgs.length then st  -- `is_last`: break before the drop
      else
        let st := if k ≥ 1 then dropTryG visitAll msgs (fun j => decide (k < j + min (lag k) (CHANNEL_CAPACITY + 2))) st (k - 1) else st
        loopG visitAll streamed msgs lag fuel (k + 1) st
    else st

def runG (visitAll streamed : Bool) (lag : Nat → Nat) (msgs : List Msg) : St :=
  loopG visitAll streamed msgs lag (msgs.length + 1) 0 St.init

/-- the code as it is: `drop_lines` as extracted from the source -/
def dropTry := dropTryG DROP_LINES_VISITS_ALL
def loop := loopG DROP_LINES_VISITS_ALL
def run (streamed : Bool) (lag : Nat → Nat) (msgs : List Msg) : St :=
  runG DROP_LINES_VISITS_ALL streamed lag msgs

/-- a consumer that has released everything by the time of the drop -/
def prompt : Nat → Nat := fun _ => 0
/-- a consumer that is as far behind as the channel allows -/
def lagging : Nat → Nat := fun _ => CHANNEL_CAPACITY + 2

/-! ### input families -/

/-- `n` one-line messages; message `i` starts in block `i` and ends in block `i + 1`
(every block boundary is straddled; a message spans 2 blocks) -/
def straddle (n : Nat) : List Msg := (List.range n).map fun i => [⟨i, i + 1⟩]

/-- `n` one-line messages, two per block, none crossing a block boundary (line ends coincide
with block ends) -/
def aligned (n : Nat) : List Msg := (List.range n).map fun i => [⟨i / 2, i / 2⟩]

/-- `n` messages of 7 lines spanning 4 blocks each (7 lines of ~30 bytes at `--blocksz 64`);
message `i` covers blocks `3 i ..= 3 i + 3` -/
def long7 (n : Nat) : List Msg := (List.range n).map fun i =>
  [⟨3 * i, 3 * i⟩, ⟨3 * i, 3 * i + 1⟩, ⟨3 * i + 1, 3 * i + 1⟩, ⟨3 * i + 1, 3 * i + 2⟩,
   ⟨3 * i + 2, 3 * i + 2⟩, ⟨3 * i + 2, 3 * i + 3⟩, ⟨3 * i + 3, 3 * i + 3⟩]

/-- `n` messages of 3 lines inside 2 blocks, the inner line crossing the block boundary: message `i`
is `[⟨i,i⟩, ⟨i,i+1⟩, ⟨i+1,i+1⟩]` (an ordinary multi-line message that happens to lie on a block end) -/
def cross3 (n : Nat) : List Msg := (List.range n).map fun i => [⟨i, i⟩, ⟨i, i + 1⟩, ⟨i + 1, i + 1⟩]

end S4V.Model.Mem
