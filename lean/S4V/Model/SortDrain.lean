/-
Model of "insert everything into a `BTreeMap`, then take the entries in key
order" as used for accounting records (`map_tvpair_fo`,
src/readers/fixedstructreader.rs preprocess_timevalues / fileoffset_first /
process_entry_at) and event-log records (`events`, src/readers/evtxreader.rs
analyze / next). Which fields form the key comes from `S4V.Gen.Keys`
(regenerated from the source).
-/
import S4V.Gen.Keys
import S4V.Gen.Filter

namespace S4V.Model.SortDrain
open S4V.Gen.Keys S4V.Gen.Filter

/-- keys are compared lexicographically (Rust tuple / derived `Ord`) -/
abbrev Key := Int × Int × Int

def klt (a b : Key) : Bool :=
  a.1 < b.1 || (a.1 == b.1 && (a.2.1 < b.2.1 || (a.2.1 == b.2.1 && a.2.2 < b.2.2)))

/-- `BTreeMap::insert` on a key-sorted association list: an equal key is replaced -/
def insert (m : List (Key × Nat)) (k : Key) (v : Nat) : List (Key × Nat) :=
  match m with
  | [] => [(k, v)]
  | (k', v') :: r =>
    if klt k k' then (k, v) :: (k', v') :: r
    else if k = k' then (k, v) :: r
    else (k', v') :: insert r k v

def build (xs : List (Key × Nat)) : List (Key × Nat) :=
  xs.foldl (fun m x => insert m x.1 x.2) []

/-- `pop_first` until empty / walking the map from its least key -/
def drain (m : List (Key × Nat)) : List Nat := m.map (·.2)

/-! ### accounting records -/

/-- a record: its time value `(sec, usec)` and its index in the file (file offset / record size) -/
structure Rec where
  tv : Int × Int
  idx : Nat
  deriving DecidableEq, Repr, Inhabited

/-- `preprocess_timevalues`: which records enter the map -/
def fixedKeep (a b : Option (Int × Int)) (r : Rec) : Bool :=
  !fixedIsNull r.tv
  && (match a with | some f => !fixedSkipAfter r.tv f | none => true)
  && (match b with | some f => !fixedSkipBefore r.tv f | none => true)

def fixedKey (r : Rec) : Key :=
  (r.tv.1, r.tv.2, if fixedKeyHasOffset then Int.ofNat r.idx else 0)

/-- indices of the records in print order -/
def fixedPrint (recs : List Rec) (a b : Option (Int × Int)) : List Nat :=
  drain (build ((recs.filter (fixedKeep a b)).map fun r => (fixedKey r, r.idx)))

/-! ### event-log records -/

/-- a record: creation time and enumeration index -/
structure Ev where
  ts : Int
  idx : Nat
  deriving DecidableEq, Repr, Inhabited

def evtxKey (e : Ev) : Key := (e.ts, if evtxKeyHasIndex then Int.ofNat e.idx else 0, 0)

def evtxPrint (evs : List Ev) (a b : Option Int) : List Nat :=
  drain (build ((evs.filter fun e => tsPassFilters e.ts a b == .InRange).map fun e => (evtxKey e, e.idx)))

/-! ### specification -/

/-- stable insertion sort by a key function -/
def insSorted (key : α → Key) (x : α) : List α → List α
  | [] => [x]
  | y :: r => if klt (key x) (key y) then x :: y :: r else y :: insSorted key x r

def stableSort (key : α → Key) (xs : List α) : List α := xs.foldl (fun acc x => insSorted key x acc) []

end S4V.Model.SortDrain
