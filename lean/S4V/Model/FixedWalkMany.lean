/-
Backwards-compatible extension of the counter-model mechanism of `S4V.Model.FixedWalk` to the Many arm of
`BlockReader::read_data` / `read_data_to_buffer`.

`S4V.Model.FixedWalk.readData` / `copyMany` use the regenerated facts of the Many arm (`RD_MANY_LOOP_INCLUSIVE`,
`MANY_MID_SKIP`, `MANY_MID_LESS`, `manyFirstN`, `manyLastN`) directly. Here the same two functions are written once more
with those five facts taken from a record `ManyCfg`; `mcfg0` holds the source values and
`readDataToBufferC mcfg0 = readDataToBuffer` (`readDataToBufferC_mcfg0`, by `rfl`: the two texts are the same).
A counter-model is `readDataToBufferC { mcfg0 with … }`.
-/
import S4V.Model.FixedWalk

namespace S4V.Model.FixedWalkMany
open S4V.Gen.Blocks S4V.Gen.Stream S4V.Gen.FixedWalk S4V.Model.Lines S4V.Model.Stream S4V.Model.FixedWalk

/-- the regenerated facts of the Many arm -/
structure ManyCfg where
  /-- `while bo1 <= bo2` (true) or `while bo1 < bo2` (false) -/
  loopInclusive : Bool
  /-- `blockps.iter().skip(midSkip).take(len_ - midLess)` -/
  midSkip : Nat
  midLess : Nat
  /-- `let n = …` of `blockps[0]` (`bi1`, `bi2`, block length) -/
  firstN : Nat → Nat → Nat → Nat
  /-- `let n = …` of `blockps[len_ - 1]` -/
  lastN : Nat → Nat → Nat → Nat

/-- the source as it is -/
def mcfg0 : ManyCfg :=
  { loopInclusive := RD_MANY_LOOP_INCLUSIVE, midSkip := MANY_MID_SKIP, midLess := MANY_MID_LESS,
    firstN := manyFirstN, lastN := manyLastN }

/-- `readData` with the Many-arm loop bound from `mc` -/
def readDataC (mc : ManyCfg) (r : Rd) (beg e0 : Nat) (oneblock : Bool) : R3 (Parts × Nat × Nat) × Rd :=
  let e := rdEnd e0 r.fsz
  if rdEmpty beg e then (.done, r)
  else
    let bo1 := blockOffsetAtFileOffset beg r.bs
    match readBlock r bo1 with
    | (.done, r1) => (.done, r1)
    | (.err, r1) => (.err, r1)
    | (.panic, r1) => (.panic, r1)
    | (.found b1, r1) =>
      let bi1 := blockIndexAtFileOffset beg r.bs
      let bi2r := blockIndexAtFileOffset e r.bs
      let boEnd := blockOffsetAtFileOffset e r.bs
      let bi2 := rdBi2 bi2r r.bs
      let bo2 := rdBo2 bi2r boEnd
      if bo1 = bo2 ∨ bo1 = r.last then (.found (.one b1, bi1, min bi2 b1.length), r1)
      else if oneblock then (.done, r1)
      else if bo1 + 1 = bo2 then
        match readBlock r1 bo2 with
        | (.found b2, r2) => (.found (.two b1 b2, bi1, if bo2 = r.last then min bi2 b2.length else bi2), r2)
        | (.done, r2) => (.err, r2)
        | (.err, r2) => (.err, r2)
        | (.panic, r2) => (.panic, r2)
      else
        match manyLoop (if mc.loopInclusive then bo2 - bo1 else bo2 - bo1 - 1) r1 (bo1 + 1) [b1] with
        | (.found bs, r2) => (.found (.many bs, bi1, min bi2 (lastLen bs)), r2)
        | (.done, r2) => (.done, r2)
        | (.err, r2) => (.err, r2)
        | (.panic, r2) => (.panic, r2)

/-- `copyMany` with the middle range and the two partial lengths from `mc` -/
def copyManyC (mc : ManyCfg) (buflen : Nat) (bs : List Bytes) (bi1 bi2 : Nat) : St :=
  match bs.head?, bs.getLast? with
  | some b0, some bl =>
    let n0 := mc.firstN bi1 bi2 b0.length
    (copyStep buflen [] b0 n0 (manyFirstBeg bi1 bi2 n0 b0.length) (manyFirstEnd bi1 bi2 n0 b0.length) manyFirstDstFromAt).bind fun w =>
      (copyMids buflen bi1 bi2 ((bs.drop mc.midSkip).take (bs.length - mc.midLess)) w).bind fun w2 =>
        let nl := mc.lastN bi1 bi2 bl.length
        copyStep buflen w2 bl nl (manyLastBeg bi1 bi2 nl bl.length) (manyLastEnd bi1 bi2 nl bl.length) manyLastDstFromAt
  | _, _ => .panic

def readDataToBufferC (mc : ManyCfg) (r : Rd) (beg e : Nat) (oneblock : Bool) (buflen : Nat) : R3 Bytes × Rd :=
  if lenCheckFails buflen 1 then (.err, r)
  else
    match readDataC mc r beg e oneblock with
    | (.done, r') => (.done, r')
    | (.err, r') => (.err, r')
    | (.panic, r') => (.panic, r')
    | (.found (parts, bi1, bi2), r') =>
      let st : Option St := match parts with
        | .one b => some (copyOne buflen b bi1 bi2)
        | .two b1 b2 => if oneblock then none else some (copyTwo buflen b1 b2 bi1 bi2)
        | .many bs => if oneblock then none else some (copyManyC mc buflen bs bi1 bi2)
      match st with
      | none => (.done, r')
      | some (.ok w) => (.found w, r')
      | some .err => (.err, r')
      | some .panic => (.panic, r')

/-- with the source values this IS `readDataToBuffer` -/
theorem readDataToBufferC_mcfg0 (r : Rd) (beg e : Nat) (oneblock : Bool) (buflen : Nat) :
    readDataToBufferC mcfg0 r beg e oneblock buflen = readDataToBuffer r beg e oneblock buflen := rfl

end S4V.Model.FixedWalkMany
