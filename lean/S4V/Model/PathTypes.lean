/-
Types shared by the generated path tables and the hand model of
`pathbuf_to_filetype_impl` (src/readers/filepreprocessor.rs).
-/
namespace S4V.Model.PathTypes

/-- `FileTypeArchive` (src/common.rs) -/
inductive Arch where
  | normal | bz2 | gz | lz4 | tar | xz
  deriving DecidableEq, Repr, Inhabited

/-- `FileTypeFixedStruct` (src/common.rs) -/
inductive Fixed where
  | acct | acctV3 | lastlog | lastlogx | utmp | utmpx
  deriving DecidableEq, Repr, Inhabited

/-- What one arm of the suffix / bare-name `match` does. -/
inductive Act where
  | compress (a : Arch)      -- recurse on `with_extension("")` with this container
  | evtx | journal | text
  | fixed (t : Fixed)
  | tarArchive               -- `PathToFiletypeResult::Archive(Tar, fta)`
  | nonlog                   -- known non-log: fallback text / Unparsable
  | nomatch
  deriving DecidableEq, Repr, Inhabited

/-- `PathToFiletypeResult` flattened. -/
inductive Kind where
  | evtx | journal | text | unparsable | archiveTar
  | fixed (t : Fixed)
  deriving DecidableEq, Repr, Inhabited

structure Result where
  kind : Kind
  arch : Arch      -- meaningless (always `.normal`) for `.unparsable`
  deriving DecidableEq, Repr, Inhabited

def Arch.toString : Arch → String
  | .normal => "Normal" | .bz2 => "Bz2" | .gz => "Gz" | .lz4 => "Lz4" | .tar => "Tar" | .xz => "Xz"

def Fixed.toString : Fixed → String
  | .acct => "Acct" | .acctV3 => "AcctV3" | .lastlog => "Lastlog" | .lastlogx => "Lastlogx"
  | .utmp => "Utmp" | .utmpx => "Utmpx"

def Result.toString (r : Result) : String :=
  match r.kind with
  | .unparsable => "Unparsable"
  | .evtx => "Evtx " ++ r.arch.toString
  | .journal => "Journal " ++ r.arch.toString
  | .text => "Text " ++ r.arch.toString
  | .archiveTar => "ArchiveTar " ++ r.arch.toString
  | .fixed t => "Fixed " ++ t.toString ++ " " ++ r.arch.toString

end S4V.Model.PathTypes
