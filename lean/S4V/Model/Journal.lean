/-
Model of `JournalReader` iteration and of the export / cat renderings
(src/readers/journalreader.rs `analyze`, `next_common`, `next_export`,
`next_cat`). libsystemd is abstracted to the list of entries it enumerates, in
journal order (`sd_journal_seek_head` / `sd_journal_seek_realtime_usec(A)` then
`sd_journal_next`): trusted base.
-/
import S4V.Gen.Journal

namespace S4V.Model.Journal
open S4V.Gen.Journal S4V.Gen.Filter

abbrev Bytes := List UInt8

structure Entry where
  realtime : Int                  -- `__REALTIME_TIMESTAMP`, microseconds
  cursor : Bytes
  monotonic : Int
  fields : List Bytes             -- raw `KEY=VALUE` data in enumeration order
  deriving DecidableEq, Repr, Inhabited

/-- `sd_journal_seek_realtime_usec(a)` / `seek_head`, then `next` repeatedly:
the entries from the first one at or after `a` (assumption on libsystemd) -/
def seek (a : Option Int) (es : List Entry) : List Entry :=
  match a with
  | none => es
  | some a => es.dropWhile (fun e => decide (e.realtime < a))

/-- `next_common` loop: take entries until the stop test fires -/
def iterate (b : Option Int) : List Entry → List Entry
  | [] => []
  | e :: r => if stopAt e.realtime b then [] else e :: iterate b r

/-- the entries a run prints -/
def select (a b : Option Int) (es : List Entry) : List Entry := iterate b (seek a es)

def NLb : UInt8 := 10
def EQb : UInt8 := 61

def natToBytes (n : Nat) : Bytes := (toString n).toUTF8.toList
def intToBytes (i : Int) : Bytes := (toString i).toUTF8.toList

/-- `next_export`: three synthetic lines, then each enumerated field + '\n' (at most
`fieldCap`), then an empty line -/
def renderExport (e : Entry) : Bytes :=
  "__CURSOR=".toUTF8.toList ++ e.cursor ++ [NLb]
  ++ "__REALTIME_TIMESTAMP=".toUTF8.toList ++ intToBytes e.realtime ++ [NLb]
  ++ "__MONOTONIC_TIMESTAMP=".toUTF8.toList ++ intToBytes e.monotonic ++ [NLb]
  ++ ((e.fields.take fieldCap).map (· ++ [NLb])).flatten
  ++ [NLb]

/-- the fields part of the export text, for the round-trip statement -/
def encodeFields (fs : List Bytes) : Bytes := (fs.map (· ++ [NLb])).flatten

/-- split on '\n' (every field is terminated) -/
def decodeFields : Bytes → Bytes → List Bytes
  | [], acc => if acc = [] then [] else [acc.reverse]
  | b :: r, acc => if b = NLb then acc.reverse :: decodeFields r [] else decodeFields r (b :: acc)

end S4V.Model.Journal
