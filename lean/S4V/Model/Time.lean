/-
Calendar arithmetic shared by the sysline driver (concrete parser `P`), C04
and C11: proleptic Gregorian `daysFromCivil` / `civilFromDays` (Hinnant's
algorithms) over `Int`, and instants as `Int` nanoseconds since the epoch.
-/
namespace S4V.Model.Time

/-- days since 1970-01-01 of the civil date `y-m-d` (`1 ≤ m ≤ 12`, `1 ≤ d ≤ 31`).
`/` on `Int` is floor division for a positive divisor (`Int.ediv`), so the era is
`y' / 400` directly (Hinnant's `y' - 399` correction is for truncating division and
would be wrong here for negative years). -/
def daysFromCivil (y m d : Int) : Int :=
  let y' := if m ≤ 2 then y - 1 else y
  let era := y' / 400
  let yoe := y' - era * 400
  let mp := (m + 9) % 12
  let doy := (153 * mp + 2) / 5 + d - 1
  let doe := yoe * 365 + yoe / 4 - yoe / 100 + doy
  era * 146097 + doe - 719468

/-- inverse of `daysFromCivil` -/
def civilFromDays (z : Int) : Int × Int × Int :=
  let z' := z + 719468
  let era := z' / 146097
  let doe := z' - era * 146097
  let yoe := (doe - doe / 1460 + doe / 36524 - doe / 146096) / 365
  let y := yoe + era * 400
  let doy := doe - (365 * yoe + yoe / 4 - yoe / 100)
  let mp := (5 * doy + 2) / 153
  let d := doy - (153 * mp + 2) / 5 + 1
  let m := if mp < 10 then mp + 3 else mp - 9
  (if m ≤ 2 then y + 1 else y, m, d)

def isLeap (y : Int) : Bool := (y % 4 == 0 && y % 100 != 0) || y % 400 == 0

def daysInMonth (y m : Int) : Int :=
  if m == 2 then (if isLeap y then 29 else 28)
  else if m == 4 || m == 6 || m == 9 || m == 11 then 30 else 31

def validDate (y m d : Int) : Bool := 1 ≤ m && m ≤ 12 && 1 ≤ d && d ≤ daysInMonth y m

/-- seconds since the epoch of a civil date-time at UTC offset `offS` seconds -/
def epochSeconds (y m d hh mm ss offS : Int) : Int :=
  daysFromCivil y m d * 86400 + hh * 3600 + mm * 60 + ss - offS

/-- instant in nanoseconds -/
def instantNs (y m d hh mm ss ns offS : Int) : Int :=
  epochSeconds y m d hh mm ss offS * 1000000000 + ns

def digitVal (b : UInt8) : Option Int := if 48 ≤ b && b ≤ 57 then some (Int.ofNat (b.toNat - 48)) else none

def num : List UInt8 → Option Int
  | [] => none
  | bs => bs.foldl (fun acc b => match acc, digitVal b with
      | some a, some v => some (a * 10 + v)
      | _, _ => none) (some 0)

/-- The concrete parser the correspondence generators are built for: a line is
a message head iff it begins `YYYY-MM-DD HH:MM:SS` with in-range fields;
result = epoch seconds, read as UTC. (Theorems are generic in the parser.) -/
def parseHead (l : List UInt8) : Option Int :=
  match l with
  | y0 :: y1 :: y2 :: y3 :: 45 :: m0 :: m1 :: 45 :: d0 :: d1 :: 32 :: h0 :: h1 :: 58 :: n0 :: n1 :: 58 :: s0 :: s1 :: _ =>
    match num [y0, y1, y2, y3], num [m0, m1], num [d0, d1], num [h0, h1], num [n0, n1], num [s0, s1] with
    | some y, some m, some d, some hh, some mm, some ss =>
      if validDate y m d && hh ≤ 23 && mm ≤ 59 && ss ≤ 60 then some (epochSeconds y m d hh mm ss 0) else none
    | _, _, _, _, _, _ => none
  | _ => none

end S4V.Model.Time
