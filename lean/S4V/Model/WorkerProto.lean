/-
Semantics of the worker skeletons of `S4V.Gen.Worker` (regenerated from the four `exec_*processor`
functions and `exec_fileprocessor_thread` of src/bin/s4.rs): the set of send-traces a skeleton can
produce. A skeleton is a nondeterministic over-approximation of the Rust function: loops run any
number of iterations, opaque branches go both ways, a computed `is_last` / result may be either value;
what is followed exactly are the tracked boolean locals and the two tests on the thread's start data.

* `Exec env p st t o st'` — big-step relation: block `p`, started in store `st`, sends `t`, ends with
  outcome `o` (falls through / `return` / `break` / `continue` / the thread dies here: `cut`) in store `st'`.
* `Produces env p t` — a complete run of the function (it returns or falls off its end; either way the
  sender it owns is dropped: `SENDER_OWNED_BY_WORKER`). `ProducesCut` — a run cut short by a panic.
* `post` — the reachable (monitor state × store) sets per outcome, for an arbitrary monitor of the sent
  events; with the protocol automaton as monitor it is the analysis behind `Props/WorkerProtoSpec`, with
  "what is left of an observed trace" as monitor it is the membership test `accepts` (driver op
  `wproto check`). `enumerate` lists the traces of bounded runs.
-/
import S4V.Gen.Worker

namespace S4V.Model.WorkerProto
open S4V.Gen.Worker

/-- what the coordinator receives from one worker -/
inductive Ev where
  | fileInfo (ok : Bool)
  | msg (isLast : Bool)
  | summary (ok : Bool)
  deriving DecidableEq, Repr, Inhabited

abbrev Trace := List Ev

/-- the part of `ThreadInitData` the skeletons test -/
structure Env where
  ft : FtKind
  lmsdJournal : Bool
  deriving DecidableEq, Repr

/-- values of the tracked boolean locals, by number -/
abbrev Store := List Bool

def initStore : Store := List.replicate N_VARS false

def getV (st : Store) (i : Nat) : Bool := st.getD i false

inductive Out where
  | normal | ret | brk | cont | cut
  deriving DecidableEq, Repr, Inhabited

def resAllows : Res → Bool → Bool
  | .ok, b => b
  | .err, b => !b
  | .unknown, _ => true

def flagAllows (st : Store) : Flag → Bool → Bool
  | .lit c, b => b == c
  | .var i, b => b == getV st i
  | .unknown, _ => true

/-- may this send site, in store `st`, send event `e`? -/
def sendAllows (st : Store) : Send → Ev → Bool
  | .fileInfo r, .fileInfo ok => resAllows r ok
  | .newMessage f, .msg b => flagAllows st f b
  | .fileSummary r, .summary ok => resAllows r ok
  | _, _ => false

/-- may the `then` (`c = true`) / `else` (`c = false`) branch be taken? -/
def guardMay (env : Env) (st : Store) : Guard → Bool → Bool
  | .opaque, _ => true
  | .var i, c => getV st i == c
  | .nvar i, c => getV st i != c
  | .ftIs k, c => decide (env.ft = k) == c
  | .lmsdJournal, c => env.lmsdJournal == c

/-- the values a `set i v` may store -/
def setVals : Option Bool → List Bool
  | some b => [b]
  | none => [true, false]

inductive Exec (env : Env) : List Stmt → Store → Trace → Out → Store → Prop
  | nil (st : Store) : Exec env [] st [] .normal st
  /-- the thread can die (panic inside a called function, failed `assert!`) at any point -/
  | cut (p : List Stmt) (st : Store) : Exec env p st [] .cut st
  | send {s : Send} {k : List Stmt} {st st' : Store} {e : Ev} {t : Trace} {o : Out} :
      sendAllows st s e = true → Exec env k st t o st' → Exec env (.send s :: k) st (e :: t) o st'
  | set {i : Nat} {v : Option Bool} {b : Bool} {k : List Stmt} {st st' : Store} {t : Trace} {o : Out} :
      b ∈ setVals v → Exec env k (st.set i b) t o st' → Exec env (.set i v :: k) st t o st'
  | ret (k : List Stmt) (st : Store) : Exec env (.ret :: k) st [] .ret st
  | brk (k : List Stmt) (st : Store) : Exec env (.brk :: k) st [] .brk st
  | cont (k : List Stmt) (st : Store) : Exec env (.cont :: k) st [] .cont st
  | iteNormal {g : Guard} {a b k : List Stmt} {c : Bool} {st st₁ st₂ : Store} {t₁ t₂ : Trace} {o : Out} :
      guardMay env st g c = true → Exec env (bif c then a else b) st t₁ .normal st₁ → Exec env k st₁ t₂ o st₂ →
      Exec env (.ite g a b :: k) st (t₁ ++ t₂) o st₂
  | iteAbrupt {g : Guard} {a b k : List Stmt} {c : Bool} {st st₁ : Store} {t : Trace} {o : Out} :
      guardMay env st g c = true → Exec env (bif c then a else b) st t o st₁ → o ≠ .normal →
      Exec env (.ite g a b :: k) st t o st₁
  | loopIter {body k : List Stmt} {st st₁ st₂ : Store} {t₁ t₂ : Trace} {o₁ o : Out} :
      Exec env body st t₁ o₁ st₁ → (o₁ = .normal ∨ o₁ = .cont) → Exec env (.loop body :: k) st₁ t₂ o st₂ →
      Exec env (.loop body :: k) st (t₁ ++ t₂) o st₂
  | loopBrk {body k : List Stmt} {st st₁ st₂ : Store} {t₁ t₂ : Trace} {o : Out} :
      Exec env body st t₁ .brk st₁ → Exec env k st₁ t₂ o st₂ → Exec env (.loop body :: k) st (t₁ ++ t₂) o st₂
  | loopAbrupt {body k : List Stmt} {st st₁ : Store} {t : Trace} {o : Out} :
      Exec env body st t o st₁ → (o = .ret ∨ o = .cut) → Exec env (.loop body :: k) st t o st₁

/-- a complete run of a worker function: it returns or falls off its end -/
def Produces (env : Env) (p : List Stmt) (t : Trace) : Prop :=
  ∃ o st', Exec env p initStore t o st' ∧ (o = .normal ∨ o = .ret)

/-- a run ended by a panic of the thread (only in builds that unwind; the shipped profile aborts the process) -/
def ProducesCut (env : Env) (p : List Stmt) (t : Trace) : Prop :=
  ∃ st', Exec env p initStore t .cut st'

/-! ### monitors and the reachable-set computation -/

/-- a deterministic monitor of the sent events -/
structure Mon (M : Type) where
  step : M → Ev → M

def Mon.run {M : Type} (mon : Mon M) (m : M) (t : Trace) : M := t.foldl mon.step m

abbrev Cfg (M : Type) := M × Store

structure Res5 (M : Type) where
  normal : List (Cfg M)
  ret : List (Cfg M)
  brk : List (Cfg M)
  cont : List (Cfg M)
  cut : List (Cfg M)

def Res5.sel {M : Type} (r : Res5 M) : Out → List (Cfg M)
  | .normal => r.normal
  | .ret => r.ret
  | .brk => r.brk
  | .cont => r.cont
  | .cut => r.cut

def Res5.addCut {M : Type} (S : List (Cfg M)) (r : Res5 M) : Res5 M := { r with cut := S ++ r.cut }

def Res5.joinIte {M : Type} (S : List (Cfg M)) (ra rb rk : Res5 M) : Res5 M :=
  ⟨rk.normal, ra.ret ++ rb.ret ++ rk.ret, ra.brk ++ rb.brk ++ rk.brk, ra.cont ++ rb.cont ++ rk.cont,
   S ++ ra.cut ++ rb.cut ++ rk.cut⟩

def Res5.joinLoop {M : Type} (S : List (Cfg M)) (rb rk : Res5 M) : Res5 M :=
  ⟨rk.normal, rb.ret ++ rk.ret, rk.brk, rk.cont, S ++ rb.cut ++ rk.cut⟩

def allEvs : List Ev :=
  [.fileInfo true, .fileInfo false, .msg true, .msg false, .summary true, .summary false]

section
variable {M : Type} [DecidableEq M]

/-- `acc` followed by the elements of `l` not yet present -/
def addNew (acc l : List (Cfg M)) : List (Cfg M) :=
  l.foldl (fun a x => if x ∈ a then a else a ++ [x]) acc

def dedup (l : List (Cfg M)) : List (Cfg M) := addNew [] l

def sendStep (mon : Mon M) (s : Send) (c : Cfg M) : List (Cfg M) :=
  (allEvs.filter (sendAllows c.2 s)).map (fun e => (mon.step c.1 e, c.2))

def setStep (i : Nat) (v : Option Bool) (c : Cfg M) : List (Cfg M) :=
  (setVals v).map (fun b => (c.1, c.2.set i b))

def subset (a b : List (Cfg M)) : Bool := a.all (fun x => decide (x ∈ b))

mutual
/-- reachable configurations per outcome of block `p` started from the configurations `S`;
`none` = out of fuel / a loop's reachable set did not settle -/
def post (mon : Mon M) (env : Env) : Nat → List Stmt → List (Cfg M) → Option (Res5 M)
  | 0, _, _ => none
  | _ + 1, [], S => some ⟨S, [], [], [], S⟩
  | f + 1, .send s :: k, S =>
    match post mon env f k (dedup (S.flatMap (sendStep mon s))) with
    | some r => some (r.addCut S)
    | none => none
  | f + 1, .set i v :: k, S =>
    match post mon env f k (dedup (S.flatMap (setStep i v))) with
    | some r => some (r.addCut S)
    | none => none
  | _ + 1, .ret :: _, S => some ⟨[], S, [], [], S⟩
  | _ + 1, .brk :: _, S => some ⟨[], [], S, [], S⟩
  | _ + 1, .cont :: _, S => some ⟨[], [], [], S, S⟩
  | f + 1, .ite g a b :: k, S =>
    match post mon env f a (S.filter (fun c => guardMay env c.2 g true)),
          post mon env f b (S.filter (fun c => guardMay env c.2 g false)) with
    | some ra, some rb =>
      match post mon env f k (dedup (ra.normal ++ rb.normal)) with
      | some rk => some (Res5.joinIte S ra rb rk)
      | none => none
    | _, _ => none
  | f + 1, .loop body :: k, S =>
    match grow mon env f body f (dedup S) with
    | some I =>
      match post mon env f body I with
      | some rb =>
        if subset S I && subset (rb.normal ++ rb.cont) I then
          match post mon env f k (dedup rb.brk) with
          | some rk => some (Res5.joinLoop S rb rk)
          | none => none
        else none
      | none => none
    | none => none
/-- candidate set of configurations at a loop head: add what an iteration reaches until nothing is new -/
def grow (mon : Mon M) (env : Env) : Nat → List Stmt → Nat → List (Cfg M) → Option (List (Cfg M))
  | 0, _, _, _ => none
  | _ + 1, _, 0, I => some I
  | f + 1, body, n + 1, I =>
    match post mon env f body I with
    | some rb =>
      let I' := addNew I (rb.normal ++ rb.cont)
      if I'.length = I.length then some I else grow mon env f body n I'
    | none => none
end

end

/-! ### the protocol automaton -/

/-- nothing sent yet / `FileInfo` sent / a message with `is_last` sent / `FileSummary` sent / protocol broken -/
inductive Phase where
  | start | open | last | closed | bad
  deriving DecidableEq, Repr, Inhabited

/-- `strict`: a message after a message flagged `is_last` breaks the protocol too -/
def phaseStep (strict : Bool) : Phase → Ev → Phase
  | .start, .fileInfo _ => .open
  | .open, .msg false => .open
  | .open, .msg true => .last
  | .open, .summary _ => .closed
  | .last, .msg _ => if strict then .bad else .last
  | .last, .summary _ => .closed
  | _, _ => .bad

def protoMon (strict : Bool) : Mon Phase := ⟨phaseStep strict⟩

def Phase.good : Phase → Bool
  | .open | .last | .closed => true
  | _ => false

def protoFuel : Nat := 120

/-- the analysis: every complete run of `p` ends with the automaton in `open`/`last`/`closed` (a `FileInfo` was sent
first, at most one summary, nothing after it), and no run cut short by a panic has broken the protocol before -/
def checkProto (strict : Bool) (env : Env) (p : List Stmt) : Bool :=
  match post (protoMon strict) env protoFuel p [(.start, initStore)] with
  | some r => (r.normal ++ r.ret).all (fun c => c.1.good) && r.cut.all (fun c => decide (c.1 ≠ .bad))
  | none => false

/-- `FileInfo`, then messages, then nothing or one `FileSummary` -/
def tidyTail : Trace → Bool
  | [] => true
  | [.summary _] => true
  | .msg _ :: r => tidyTail r
  | _ => false

def tidy : Trace → Bool
  | .fileInfo _ :: r => tidyTail r
  | _ => false

def noMsg : Trace → Bool
  | [] => true
  | .msg _ :: _ => false
  | _ :: r => noMsg r

/-- no message follows a message flagged `is_last` -/
def lastOk : Trace → Bool
  | [] => true
  | .msg true :: r => noMsg r
  | _ :: r => lastOk r

/-! ### membership test: is an observed trace one the skeleton can produce? -/

/-- monitor: what is left of the expected trace (`none` = the sends departed from it) -/
def restMon : Mon (Option Trace) where
  step
    | some (e' :: r), e => if e = e' then some r else none
    | _, _ => none

def fuelFor (t : Trace) : Nat := 4 * t.length + 200

/-- `t` is the trace of a complete run of `p` -/
def accepts (env : Env) (p : List Stmt) (t : Trace) : Bool :=
  match post restMon env (fuelFor t) p [(some t, initStore)] with
  | some r => (r.normal ++ r.ret).any (fun c => c.1 == some [])
  | none => false

/-- `t` is the trace of a run of `p` that was cut short by a panic -/
def acceptsCut (env : Env) (p : List Stmt) (t : Trace) : Bool :=
  match post restMon env (fuelFor t) p [(some t, initStore)] with
  | some r => r.cut.any (fun c => c.1 == some [])
  | none => false

/-! ### bounded enumeration of traces -/

def addNewT (acc l : List (Trace × Out × Store)) : List (Trace × Out × Store) :=
  l.foldl (fun a x => if x ∈ a then a else a ++ [x]) acc

/-- all `(trace, outcome, store)` of runs of `p` from `st` in which every loop does at most `n` iterations
(the `fuel` argument only has to exceed the size of `p` times `n`) -/
def runs (env : Env) (n : Nat) : Nat → List Stmt → Store → List (Trace × Out × Store)
  | 0, _, _ => []
  | _ + 1, [], st => [([], .normal, st)]
  | f + 1, .send s :: k, st =>
    (allEvs.filter (sendAllows st s)).flatMap (fun e => (runs env n f k st).map (fun r => (e :: r.1, r.2)))
  | f + 1, .set i v :: k, st => (setVals v).flatMap (fun b => runs env n f k (st.set i b))
  | _ + 1, .ret :: _, st => [([], .ret, st)]
  | _ + 1, .brk :: _, st => [([], .brk, st)]
  | _ + 1, .cont :: _, st => [([], .cont, st)]
  | f + 1, .ite g a b :: k, st =>
    let ra := if guardMay env st g true then runs env n f a st else []
    let rb := if guardMay env st g false then runs env n f b st else []
    addNewT [] ((ra ++ rb).flatMap (fun (r : Trace × Out × Store) =>
      if r.2.1 = Out.normal then (runs env n f k r.2.2).map (fun r' => (r.1 ++ r'.1, r'.2)) else [r]))
  | f + 1, .loop body :: k, st =>
    addNewT [] (loopRuns env n f body k n st)
where
  loopRuns (env : Env) (n : Nat) : Nat → List Stmt → List Stmt → Nat → Store → List (Trace × Out × Store)
  | 0, _, _, _, _ => []
  | _, _, _, 0, _ => []
  | f + 1, body, k, it + 1, st =>
    (runs env n f body st).flatMap (fun r =>
      match r.2.1 with
      | .normal | .cont => (loopRuns env n f body k it r.2.2).map (fun r' => (r.1 ++ r'.1, r'.2))
      | .brk => (runs env n f k r.2.2).map (fun r' => (r.1 ++ r'.1, r'.2))
      | o => [(r.1, o, r.2.2)])

/-- traces of complete runs with at most `n` iterations per loop -/
def enumerate (env : Env) (p : List Stmt) (n : Nat) : List Trace :=
  ((runs env n 400 p initStore).filter (fun r => r.2.1 = .normal ∨ r.2.1 = .ret)).map (fun r => r.1)

end S4V.Model.WorkerProto
