/-
Interpreter of the enumeration skeleton regenerated from the source (`S4V.Gen.JournalSkel.SKEL`:
`analyze`, `next`, `next_fill_buffer`, `next_common` of src/readers/journalreader.rs and the worker
loop of `exec_journalprocessor` in src/bin/s4.rs) over an ABSTRACT journal.

Trusted base (libsystemd): the journal is the list of its entries in journal order;
`sd_journal_seek_head` positions before the first entry, `sd_journal_seek_realtime_usec(a)` before
the first entry whose receive time is `≥ a`; `sd_journal_next` moves to the next entry and returns
`> 0`, returns `0` at the end, `< 0` on a fault. The seek position is the remaining suffix.
-/
import S4V.Model.JournalSkelTypes

namespace S4V.Model.JournalSkel
open S4V.Gen.Filter

/-- one position of the abstract journal -/
inductive Item (α : Type) where
  /-- an entry with receive time `t`; `rtOk = false`: `sd_journal_get_realtime_usec` fails on it -/
  | entry (t : Int) (rtOk : Bool) (p : α)
  /-- `sd_journal_next` returns a negative code here -/
  | fault
  deriving DecidableEq, Repr

/-- result of one `next*` call -/
inductive Out (α : Type) where
  | found (t : Int) (p : α) | done | err | errIgnore
  deriving DecidableEq, Repr

variable {α : Type}

/-- the libsystemd seek calls -/
def doSeekCall (c : SeekCall) (a : Int) (all : List (Item α)) : List (Item α) :=
  match c with
  | .head => all
  | .realtimeUsec => all.dropWhile (fun i => match i with | .entry t _ _ => decide (t < a) | .fault => false)

/-- `analyze(ts_filter_after)`: `none` = the call returned `Err` (`seekNeg`: the seek returned `< 0`) -/
def runAnalyze (sk : AnalyzeSkel) (seekNeg : Bool) (a : Option Int) (all : List (Item α)) : Option (List (Item α)) :=
  match a with
  | some x => if seekNeg && sk.someNegIsErr then none else some (doSeekCall sk.onSome x all)
  | none => if seekNeg && sk.noneNegIsErr then none else some (doSeekCall sk.onNone 0 all)

def retOut (r : Ret) (cur : Option (Int × Bool × α)) : Out α :=
  match r, cur with
  | .found, some (t, _, p) => .found t p
  | .found, none => .err
  | .done, _ => .done
  | .err, _ => .err
  | .errIgnore, _ => .errIgnore

/-- `next_common`: run the statements in source order -/
def runSteps (filter : Int → Option Int → Option Int → Result_Filter_DateTime2) (b : Option Int) :
    List Step → List (Item α) → Option (Int × Bool × α) → Out α × List (Item α)
  | [], rest, _ => (.err, rest)
  | .callNext z n :: ss, rest, cur =>
    match rest with
    | [] => (retOut z cur, [])
    | .fault :: r => (retOut n cur, r)
    | .entry t ok p :: r => runSteps filter b ss r (some (t, ok, p))
  | .readRealtime e :: ss, rest, cur =>
    match cur with
    | some (_, false, _) => (retOut e cur, rest)
    | _ => runSteps filter b ss rest cur
  | .stopTest on ret :: ss, rest, cur =>
    match cur with
    | some (t, _, _) => if decide (filter t none b ∈ on) then (retOut ret cur, rest) else runSteps filter b ss rest cur
    | none => runSteps filter b ss rest cur
  | .retFound :: _, rest, cur => (retOut .found cur, rest)

/-- `next_dispatch` → `next_<format>` → `next_common` (the renderers hand the result through) -/
def nextCommon (sk : Skel) (b : Option Int) (rest : List (Item α)) : Out α × List (Item α) :=
  runSteps sk.filter b sk.common rest none

/-! ### `next_fill_buffer` -/

structure FillSt (α : Type) where
  buf : List ((Int × Nat) × α)      -- the `BTreeMap<(dt, index), entry>` in key order
  idx : Nat
  looping : Bool

def FillSt.init : FillSt α := ⟨[], 0, true⟩

def keyLt (x y : Int × Nat) : Bool := decide (x.1 < y.1) || (decide (x.1 = y.1) && decide (x.2 < y.2))

def insertKey (k : Int × Nat) (v : α) : List ((Int × Nat) × α) → List ((Int × Nat) × α)
  | [] => [(k, v)]
  | (k', v') :: r => if keyLt k k' then (k, v) :: (k', v') :: r else (k', v') :: insertKey k v r

inductive FillCtl (α : Type) where
  | goOn | brk | ret (o : Out α)

def runFillActs : List FillAct → Option (Int × α) → FillSt α → FillCtl α × FillSt α
  | [], _, st => (.goOn, st)
  | .insertDtIndex :: as, cur, st =>
    match cur with
    | some (t, p) => runFillActs as cur { st with buf := insertKey (t, st.idx) p st.buf }
    | none => runFillActs as cur st
  | .incIndex :: as, cur, st => runFillActs as cur { st with idx := st.idx + 1 }
  | .popIfLenGe n :: as, cur, st =>
    if st.buf.length ≥ n then
      match st.buf with
      | (k, p) :: r => (.ret (.found k.1 p), { st with buf := r })
      | [] => runFillActs as cur st
    else runFillActs as cur st
  | .brk :: _, _, st => (.brk, st)
  | .cont :: _, _, st => (.goOn, st)
  | .retErr :: _, _, st => (.ret .err, st)

def fillDrain (fs : FillSkel) (rest : List (Item α)) (st : FillSt α) : Out α × List (Item α) × FillSt α :=
  let st := if fs.clearsFlagAfterLoop then { st with looping := false } else st
  match fs.drainsPopFirst, st.buf with
  | true, (k, p) :: r => (.found k.1 p, rest, { st with buf := r })
  | _, _ => (.done, rest, st)

def fillLoop (sk : Skel) (b : Option Int) : Nat → List (Item α) → FillSt α → Out α × List (Item α) × FillSt α
  | 0, rest, st => (.err, rest, st)
  | fuel + 1, rest, st =>
    let (o, rest') := nextCommon sk b rest
    let (acts, cur) : List FillAct × Option (Int × α) := match o with
      | .found t p => (sk.fill.onFound, some (t, p))
      | .done => (sk.fill.onDone, none)
      | .errIgnore => (sk.fill.onErrIgnore, none)
      | .err => (sk.fill.onErr, none)
    match runFillActs acts cur st with
    | (.ret o', st') => (o', rest', st')
    | (.brk, st') => fillDrain sk.fill rest' st'
    | (.goOn, st') => fillLoop sk b fuel rest' st'

def nextFill (sk : Skel) (b : Option Int) (rest : List (Item α)) (st : FillSt α) : Out α × List (Item α) × FillSt α :=
  if st.looping || !sk.fill.loopGuardedByFlag then fillLoop sk b (rest.length + 2) rest st
  else fillDrain sk.fill rest st

/-- `JournalReader::next` -/
def next (sk : Skel) (b : Option Int) (rest : List (Item α)) (st : FillSt α) : Out α × List (Item α) × FillSt α :=
  match sk.via with
  | .dispatch => let (o, r) := nextCommon sk b rest; (o, r, st)
  | .fillBuffer => nextFill sk b rest st

/-! ### the worker loop of `exec_journalprocessor` -/

inductive WResult where
  | ok            -- `FileSummary(.., FILEOK)`
  | ioErr         -- `FileSummary(.., FileErrIo(err))`
  | analyzeErr    -- `analyze` failed: `FileSummary(.., FileErrIoPath(err))`, nothing sent
  | fuelOut       -- the loop did not end (not reachable with the regenerated skeleton)
  deriving DecidableEq, Repr

structure WOut (α : Type) where
  sent : List α
  result : WResult
  deriving DecidableEq, Repr

/-- one arm of the worker `match`: (sent so far, error recorded, left the loop) -/
def runWActs : List WAct → Option α → List α × Bool × Bool → List α × Bool × Bool
  | [], _, s => s
  | .send :: as, p, (sent, rec, _) => runWActs as p (match p with | some x => sent ++ [x] | none => sent, rec, false)
  | .record :: as, p, (sent, _, _) => runWActs as p (sent, true, false)
  | .brk :: _, _, (sent, rec, _) => (sent, rec, true)

def workerLoop (sk : Skel) (b : Option Int) : Nat → List (Item α) → FillSt α → List α → Bool → WOut α
  | 0, _, _, sent, _ => ⟨sent, .fuelOut⟩
  | fuel + 1, rest, st, sent, rec =>
    match next sk b rest st with
    | (o, rest', st') =>
      let (acts, p) : List WAct × Option α := match o with
        | .found _ p => (sk.worker.onFound, some p)
        | .done => (sk.worker.onDone, none)
        | .err => (sk.worker.onErr, none)
        | .errIgnore => (sk.worker.onErrIgnore, none)
      match runWActs acts p (sent, rec, false) with
      | (sent', rec', true) => ⟨sent', if rec' then .ioErr else .ok⟩
      | (sent', rec', false) => workerLoop sk b fuel rest' st' sent' rec'

/-- the whole worker after the reader is open: `analyze(after)`, then the loop of `next(before)`.
`g`: the value of the condition in front of the loop, if the skeleton has one. -/
def runWorker (sk : Skel) (g seekNeg : Bool) (a b : Option Int) (all : List (Item α)) (fuel : Nat) : WOut α :=
  match runAnalyze sk.analyze seekNeg a all with
  | none => if sk.worker.analyzeErrReturns then ⟨[], .analyzeErr⟩ else ⟨[], .ok⟩
  | some rest =>
    if sk.worker.guard.isSome && !g then ⟨[], .ok⟩
    else workerLoop sk b fuel rest FillSt.init [] false

/-- enough iterations for every journal: one per position, and with the fill buffer one more per buffered entry -/
def fuelFor (all : List (Item α)) : Nat := 2 * all.length + 2

end S4V.Model.JournalSkel
