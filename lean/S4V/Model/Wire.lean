/-
Wire helpers for the driver: hex <-> bytes, number parsing, reply formatting.
-/
namespace S4V.Model.Wire

def hexVal (c : Char) : Option Nat :=
  if '0' ≤ c ∧ c ≤ '9' then some (c.toNat - '0'.toNat)
  else if 'a' ≤ c ∧ c ≤ 'f' then some (c.toNat - 'a'.toNat + 10)
  else if 'A' ≤ c ∧ c ≤ 'F' then some (c.toNat - 'A'.toNat + 10)
  else none

def unhexAux : List Char → List UInt8 → Option (List UInt8)
  | [], acc => some acc.reverse
  | [_], _ => none
  | a :: b :: rest, acc =>
    match hexVal a, hexVal b with
    | some x, some y => unhexAux rest (UInt8.ofNat (x * 16 + y) :: acc)
    | _, _ => none

/-- `-` denotes the empty byte string. -/
def unhex (s : String) : Option (List UInt8) :=
  if s = "-" then some [] else unhexAux s.toList []

def hexDigit (n : Nat) : Char :=
  if n < 10 then Char.ofNat (n + 48) else Char.ofNat (n - 10 + 97)

def hex (b : List UInt8) : String :=
  if b.isEmpty then "-" else
  String.ofList (b.foldr (fun x acc => hexDigit (x.toNat / 16) :: hexDigit (x.toNat % 16) :: acc) [])

def words (line : String) : List String :=
  (line.trimAscii.toString.splitOn " ").filter (· ≠ "")

def parseInt? (s : String) : Option Int :=
  if s.startsWith "-" then (s.drop 1).toString.toNat?.map (fun n => - (Int.ofNat n))
  else s.toNat?.map Int.ofNat

def optInt? (s : String) : Option (Option Int) :=
  if s = "none" then some none else (parseInt? s).map some

end S4V.Model.Wire
