/-
Model of `EvtxReader` (src/readers/evtxreader.rs) as `exec_evtxprocessor` (src/bin/s4.rs) drives it:
`new` (parser settings) → `analyze` (the whole record loop, BOTH arms) → `next()` until `None` → `summary()` /
`summary_complete()`.

  * what the evtx crate's `EvtxParser::records()` yields is a list of `Item`s: `ok ts id` (a record: creation time in
    ns, payload id) or `err` (an `Err(_)`: a record that does not deserialize, a torn record header — the crate then
    gives up on the rest of that chunk —, a chunk that cannot be read). The file is given chunk by chunk (`Chunk`), each
    with "is the stored CRC32 valid"; `parserItems` is the crate's only use of its `validate_checksums` setting
    (evtx 0.8.5 `EvtxChunkData::new`: with validation on, a chunk whose checksum does not match is ONE `Err`).
  * the regenerated parts: `S4V.Gen.Evtx` (parser settings, the `Err` arm, the out-of-order block, `next`, `summary`),
    `EVTX_ANALYZE` of `S4V.Gen.Summary` (statistics / window filter / store statements of the `Ok` arm, run by
    `S4V.Model.Summary.runR`), the map key of `S4V.Gen.Keys` (through `S4V.Model.SortDrain.evtxKey`) and
    `tsPassFilters` of `S4V.Gen.Filter`.
  * `self.events : BTreeMap<(Timestamp, usize), Evtx>` is the key-sorted association list of `S4V.Model.SortDrain`
    (`insert`); the stored `Evtx` is identified with the enumeration index of the record it was made from.
-/
import S4V.Gen.Evtx
import S4V.Model.Summary
import S4V.Model.SortDrain

namespace S4V.Model.EvtxReader
open S4V.Gen.Evtx S4V.Gen.Summary S4V.Gen.Filter S4V.Model.Summary S4V.Model.SortDrain

inductive Item where
  | ok (ts : Int) (id : Nat)
  | err
  deriving DecidableEq, Repr, Inhabited

def Item.isOk : Item → Bool
  | .ok _ _ => true
  | .err => false

structure Chunk where
  crcOk : Bool
  items : List Item
  deriving DecidableEq, Repr

/-- `EvtxParser::records()` under the given `validate_checksums` setting -/
def parserItems (validate : Bool) (cs : List Chunk) : List Item :=
  cs.flatMap fun c => if validate && !c.crcOk then [Item.err] else c.items

/-- the regenerated choices the control flow below depends on; `genCfg` is what the source has now, the other values
are the one-token edits the counter-models of `Props/EvtxReaderSpec` run -/
structure Cfg where
  validate : Bool
  errStores : Bool
  errExit : ErrExit
  oooBeforeFilter : Bool
  popsFirst : Bool
  deriving DecidableEq, Repr

def genCfg : Cfg :=
  { validate := PARSER_VALIDATE_CHECKSUMS, errStores := ERR_ARM_STORES_ERROR, errExit := ERR_ARM_EXIT,
    oooBeforeFilter := OOO_BEFORE_FILTER, popsFirst := NEXT_POPS_FIRST }

/-- the fields of `EvtxReader` that `analyze` / `next` / `summary` touch -/
structure Reader where
  ev : EvSt := {}
  events : List (Key × Nat) := []
  outOfOrder : Nat := 0
  /-- `self.error`: the enumeration index of the item whose error text is kept -/
  error : Option Nat := none
  analyzed : Bool := false
  deriving DecidableEq, Repr

/-- how many times the `Ok(record)` arm reaches `self.events.insert(..)` for a record with timestamp `ts` (its control
flow depends on nothing but the window filter) -/
def armStores (after before : Option Int) (ts : Int) : List RStmt → Nat
  | [] => 0
  | .add _ _ :: r => armStores after before ts r
  | .opt _ :: r => armStores after before ts r
  | .filter ci cb ca :: r =>
    let cont := match tsPassFilters ts after before with
      | .InRange => ci
      | .BeforeRange => cb
      | .AfterRange => ca
    if cont then 0 else armStores after before ts r
  | .store :: r => armStores after before ts r + 1

/-- the locals of the record loop of `analyze` next to `self`: `timestamp_last`, `index` (of `enumerate()`), and whether
the loop is still running / was left by a `return` -/
structure Loop where
  rd : Reader
  tsLast : Option Int := none
  index : Nat := 0
  live : Bool := true
  returned : Bool := false
  deriving DecidableEq, Repr

/-- `if let Some(ts_last_) = timestamp_last.as_ref() { if ts_last_ OP &record.timestamp {…} }` -/
def oooBump (last : Option Int) (ts : Int) : Bool :=
  match last with
  | some t => oooCounts t ts
  | none => false

/-- one turn of `for (index, result) in self.evtxparser.records().enumerate() { match result {…} }` -/
def step (cfg : Cfg) (after before : Option Int) (l : Loop) (it : Item) : Loop :=
  if !l.live then l else
  match it with
  | .ok ts _ =>
    -- the out-of-order block and `timestamp_last = Some(record.timestamp)`: before the filter, or (were they moved
    -- behind it) only for records that get past it
    let counted := cfg.oooBeforeFilter || (tsPassFilters ts after before == .InRange)
    let bump := counted && oooBump l.tsLast ts
    { l with
      rd := { l.rd with
        ev := runR after before ts EVTX_ANALYZE l.rd.ev
        events := if armStores after before ts EVTX_ANALYZE = 0 then l.rd.events
                  else insert l.rd.events (evtxKey ⟨ts, l.index⟩) l.index
        outOfOrder := if bump then l.rd.outOfOrder + 1 else l.rd.outOfOrder }
      tsLast := if counted then some ts else l.tsLast
      index := l.index + 1 }
  | .err =>
    { l with
      rd := { l.rd with error := if cfg.errStores then some l.index else l.rd.error }
      index := l.index + 1
      live := decide (cfg.errExit = .next)
      returned := decide (cfg.errExit = .returnEarly) }

/-- `EvtxReader::analyze` over what the parser yields -/
def analyze (cfg : Cfg) (after before : Option Int) (items : List Item) (rd : Reader) : Reader :=
  let l := items.foldl (step cfg after before) { rd := rd }
  { l.rd with analyzed := l.rd.analyzed || !l.returned }

/-- `EvtxReader::next`: `self.events.pop_first()` / `pop_last()`, the key dropped -/
def next (cfg : Cfg) (rd : Reader) : Option (Key × Nat) × Reader :=
  if cfg.popsFirst then
    match rd.events with
    | [] => (none, rd)
    | x :: r => (some x, { rd with events := r })
  else
    match rd.events.getLast? with
    | none => (none, rd)
    | some x => (some x, { rd with events := rd.events.dropLast })

/-- `while let Some(evtx) = evtxreader.next() { … }` (fuel: the loop ends when the map is empty) -/
def drainNext (cfg : Cfg) : Nat → Reader → List (Key × Nat) × Reader
  | 0, rd => ([], rd)
  | n + 1, rd =>
    match next cfg rd with
    | (none, rd') => ([], rd')
    | (some x, rd') => let (xs, rd'') := drainNext cfg n rd'; (x :: xs, rd'')

/-! ### `summary()` -/

inductive Val where
  | n (v : Nat)
  | t (v : Option Int)
  deriving DecidableEq, Repr

def rdGet (rd : Reader) (filesz : Nat) : RdField → Val
  | .eventsProcessed => .n rd.ev.processed
  | .eventsAccepted => .n rd.ev.accepted
  | .tsFirstProcessed => .t rd.ev.firstProcessed
  | .tsLastProcessed => .t rd.ev.lastProcessed
  | .tsFirstAccepted => .t rd.ev.firstAccepted
  | .tsLastAccepted => .t rd.ev.lastAccepted
  | .filesz => .n filesz
  | .outOfOrder => .n rd.outOfOrder

/-- a `SummaryEvtxReader` field, read through the regenerated table -/
def summary (rd : Reader) (filesz : Nat) (f : SumField) : Val :=
  match SUMMARY_SOURCES.lookup f with
  | some r => rdGet rd filesz r
  | none => .n 0

/-! ### the whole use of the reader by `exec_evtxprocessor` -/

/-- the record a map value stands for: `(payload id, timestamp)` of the item with that enumeration index -/
def recAt (items : List Item) (i : Nat) : Nat × Int :=
  match items[i]? with
  | some (.ok ts id) => (id, ts)
  | _ => (0, 0)

structure Result where
  /-- the messages sent, in order -/
  seq : List (Nat × Int)
  rd : Reader
  /-- the `Summary.error` handed to the coordinator is `Some(_)` -/
  errorReported : Bool
  deriving DecidableEq, Repr

/-- `new` → `analyze(after, before)` → `next()` until `None` → `summary_complete()`, on a file whose header is
readable (`cs` = its chunks as an independent reader sees them) -/
def runWith (cfg : Cfg) (after before : Option Int) (cs : List Chunk) : Result :=
  let items := parserItems cfg.validate cs
  let rd := analyze cfg after before items {}
  let (out, rd') := drainNext cfg rd.events.length rd
  { seq := out.map fun x => recAt items x.2, rd := rd', errorReported := SUMMARY_COMPLETE_PASSES_ERROR && rd'.error.isSome }

def run (after before : Option Int) (cs : List Chunk) : Result := runWith genCfg after before cs

end S4V.Model.EvtxReader
