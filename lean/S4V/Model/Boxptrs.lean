/-
Hand model of `Line::get_boxptrs(a, b)` (src/data/line.rs) and the `LinePart`
slicing helpers it calls.

A `Line` is modelled by the byte contents of its `LinePart`s, in order
(`List (List UInt8)`; each part is non-empty in every `Line` the readers build).
`LinePart::len()` is the length of the part, `LinePart::as_slice()` /
`block_boxptr()` is the part itself, and

* `block_boxptr_a(a)`     = `&part[a..]`    (Rust panics unless `a ≤ len`)
* `block_boxptr_b(b)`     = `&part[..b]`    (`b` exclusive; panics unless `b ≤ len`)
* `block_boxptr_ab(a, b)` = `&part[a..b]`   (panics unless `a ≤ b ≤ len`)

(the `debug_assert`s in those functions are compiled out in release builds; the
slice-index checks are not). `Line::len()` is computed from file offsets
(`fileoffset_end - fileoffset_begin + 1`), which for the contiguous parts the
readers build is the sum of the part lengths.

The model describes the code that exists: both loops are mirrored branch by
branch, including the second loop's handling of parts skipped before `a`
(`a -= len_` without `b -= len_`), which makes the multi-part result too long
when `a` lies beyond the first part (see `S4V.Props.BoxptrsSpec`).
-/
namespace S4V.Model.Boxptrs

abbrev Bytes := List UInt8

/-- `LinePartPtrs` -/
inductive Ptrs where
  | none
  | single (s : Bytes)
  | double (s t : Bytes)
  | multi (ss : List Bytes)
  deriving DecidableEq, Repr, Inhabited

/-- what the only caller (`SyslineReader::parse_datetime_in_line`) does with the
result: concatenate the slices -/
def Ptrs.bytes : Ptrs → Bytes
  | .none => []
  | .single s => s
  | .double s t => s ++ t
  | .multi ss => ss.flatten

/-- the slices, in order -/
def Ptrs.slices : Ptrs → List Bytes
  | .none => []
  | .single s => [s]
  | .double s t => [s, t]
  | .multi ss => ss

/-! ### `LinePart` helpers -/

/-- `LinePart::block_boxptr_a(a)` : `&part[a..]` -/
def boxA (p : Bytes) (a : Nat) : Bytes := p.drop a
/-- `LinePart::block_boxptr_b(b)` : `&part[..b]` -/
def boxB (p : Bytes) (b : Nat) : Bytes := p.take b
/-- `LinePart::block_boxptr_ab(a, b)` : `&part[a..b]` -/
def boxAB (p : Bytes) (a b : Nat) : Bytes := (p.take b).drop a

/-- Rust slice-index precondition of `&part[a..]` -/
def okA (p : Bytes) (a : Nat) : Bool := decide (a ≤ p.length)
/-- Rust slice-index precondition of `&part[..b]` -/
def okB (p : Bytes) (b : Nat) : Bool := decide (b ≤ p.length)
/-- Rust slice-index precondition of `&part[a..b]` -/
def okAB (p : Bytes) (a b : Nat) : Bool := decide (a ≤ b) && decide (b ≤ p.length)

/-- `Line::len()` -/
def lineLen (parts : List Bytes) : Nat := parts.flatten.length

/-! ### first loop: one or two parts -/

/-- outcome of the first `for linepart in &self.lineparts` loop (and the
`if let Some(..) = bptr_a` after it): a `return`, or fall through to the second loop -/
inductive L1 where
  | ret (p : Ptrs)
  | fall
  deriving DecidableEq, Repr, Inhabited

/-- First loop. State: `a1`, `b1`, `a_found`, `bptr_a`. -/
def loop1 : List Bytes → (a1 b1 : Nat) → (aFound : Bool) → (bptrA : Option Bytes) → L1
  | [], _, _, _, bptrA =>
    -- `if let Some(..) = bptr_a { return SinglePtr(bptr_a.unwrap()) }`
    match bptrA with
    | some s => .ret (.single s)
    | none => .fall
  | p :: ps, a1, b1, aFound, bptrA =>
    let len := p.length
    if a1 < len ∧ b1 ≤ len ∧ aFound = false then
      .ret (.single (boxAB p a1 b1))
    else if a1 < len ∧ len < b1 ∧ aFound = false then
      loop1 ps a1 (b1 - len) true (some (boxA p a1))
    else if b1 ≤ len ∧ aFound = true then
      .ret (.double (bptrA.getD []) (boxB p b1))
    else if len < b1 ∧ aFound = true then
      .fall      -- `bptr_a = None; break`
    else if aFound = true then
      .fall      -- `bptr_a = None; break`
    else
      loop1 ps (a1 - len) (b1 - len) aFound bptrA

/-- Slice-index (and `unwrap`) preconditions met at every call site of the first loop. -/
def loop1Ok : List Bytes → (a1 b1 : Nat) → (aFound : Bool) → (bptrA : Option Bytes) → Bool
  | [], _, _, _, _ => true
  | p :: ps, a1, b1, aFound, bptrA =>
    let len := p.length
    if a1 < len ∧ b1 ≤ len ∧ aFound = false then
      okAB p a1 b1
    else if a1 < len ∧ len < b1 ∧ aFound = false then
      okA p a1 && loop1Ok ps a1 (b1 - len) true (some (boxA p a1))
    else if b1 ≤ len ∧ aFound = true then
      bptrA.isSome && okB p b1
    else if len < b1 ∧ aFound = true then
      true
    else if aFound = true then
      true
    else
      -- `a1 -= len_; b1 -= len_` (usize: must not underflow)
      decide (len ≤ a1) && decide (len ≤ b1) && loop1Ok ps (a1 - len) (b1 - len) aFound bptrA

/-! ### second loop: three or more slices -/

/-- Second loop. State: `a`, `b` (the function's own mutable arguments),
`a_found`, `b_search`, `ptrs`. -/
def loop2 : List Bytes → (a b : Nat) → (aFound bSearch : Bool) → (ptrs : List Bytes) → Ptrs
  | [], _, _, _, _, ptrs => .multi ptrs
  | p :: ps, a, b, aFound, bSearch, ptrs =>
    let len := p.length
    if aFound = false ∧ a < len then
      -- a_found = true; b_search = true
      if b < len then
        .multi (ptrs ++ [boxAB p a b])
      else
        loop2 ps a (b - len) true true (ptrs ++ [boxA p a])
    else if aFound = false then
      -- `a -= len_; continue`   (b is NOT decremented)
      loop2 ps (a - len) b aFound bSearch ptrs
    else if bSearch = true ∧ b < len then
      .multi (ptrs ++ [boxB p b])       -- `break`
    else
      loop2 ps a (b - len) aFound bSearch (ptrs ++ [p])

/-- Slice-index preconditions (and no `usize` underflow) in the second loop. -/
def loop2Ok : List Bytes → (a b : Nat) → (aFound bSearch : Bool) → Bool
  | [], _, _, _, _ => true
  | p :: ps, a, b, aFound, bSearch =>
    let len := p.length
    if aFound = false ∧ a < len then
      if b < len then
        okAB p a b
      else
        okA p a && decide (len ≤ b) && loop2Ok ps a (b - len) true true
    else if aFound = false then
      decide (len ≤ a) && loop2Ok ps (a - len) b aFound bSearch
    else if bSearch = true ∧ b < len then
      okB p b
    else
      decide (len ≤ b) && loop2Ok ps a (b - len) aFound bSearch

/-! ### `Line::get_boxptrs` -/

def getBoxptrs (parts : List Bytes) (a b : Nat) : Ptrs :=
  if lineLen parts ≤ a then .none
  else
    match loop1 parts a b false none with
    | .ret p => p
    | .fall => loop2 parts a b false false []

/-- No call made by `get_boxptrs(a, b)` panics (slice index out of range,
`unwrap` of `None`, `usize` underflow). -/
def getBoxptrsOk (parts : List Bytes) (a b : Nat) : Bool :=
  if lineLen parts ≤ a then true
  else
    loop1Ok parts a b false none &&
    (match loop1 parts a b false none with
     | .ret _ => true
     | .fall => loop2Ok parts a b false false)

/-! ### specification -/

def flat (parts : List Bytes) : Bytes := parts.flatten

/-- bytes `[a, min b len)` of the line -/
def spec (parts : List Bytes) (a b : Nat) : Bytes :=
  ((flat parts).drop a).take (min b (flat parts).length - a)

/-- total length of the leading parts that lie wholly before line index `a`
(the parts the second loop skips with `a -= len_` — without `b -= len_`) -/
def skipLen : List Bytes → Nat → Nat
  | [], _ => 0
  | p :: ps, a => if a < p.length then 0 else p.length + skipLen ps (a - p.length)

/-- `[a, b)` reaches beyond the part after the one holding `a`
(three or more parts are needed; this is when the first loop gives up) -/
def spans3 : List Bytes → Nat → Nat → Bool
  | [], _, _ => false
  | p :: ps, a, b =>
    if a < p.length then
      match ps with
      | [] => false
      | q :: _ => decide (p.length + q.length < b)
    else spans3 ps (a - p.length) (b - p.length)

end S4V.Model.Boxptrs
