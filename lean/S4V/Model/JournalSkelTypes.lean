/-
Types of the control skeleton of the journal enumeration (`JournalReader::analyze`, `next`,
`next_fill_buffer`, `next_common`, and the worker loop of `exec_journalprocessor`), emitted as DATA
by gen/gen_journal.py (`generate_skel`) into `S4V.Gen.JournalSkel` and interpreted by
`S4V.Model.JournalSkel`.
-/
import S4V.Gen.Filter

namespace S4V.Model.JournalSkel
open S4V.Gen.Filter

/-- which libsystemd seek `analyze` calls -/
inductive SeekCall where
  | head            -- `sd_journal_seek_head`
  | realtimeUsec    -- `sd_journal_seek_realtime_usec(ts)`
  deriving DecidableEq, Repr

/-- `analyze`: `match ts_filter_after { Some(ts) => <call>; if r < 0 { return Err }, None => <call>; if r < 0 { return Err } }` -/
structure AnalyzeSkel where
  onSome : SeekCall
  onNone : SeekCall
  someNegIsErr : Bool
  noneNegIsErr : Bool
  deriving DecidableEq, Repr

/-- what a `next*` function returns (`ResultNextCommon` / `ResultNext` variants) -/
inductive Ret where
  | found | done | err | errIgnore
  deriving DecidableEq, Repr

/-- the statements of `next_common` that decide what is returned, in source order -/
inductive Step where
  /-- `call_sd_journal_next`: `r == 0` ⇒ return `onZero`, `r < 0` ⇒ return `onNeg`, `r > 0` ⇒ go on with that entry -/
  | callNext (onZero onNeg : Ret)
  /-- `call_sd_journal_get_realtime_usec`: `Err` ⇒ return `onErr`; `actual_epoch_usec = realtime_timestamp` -/
  | readRealtime (onErr : Ret)
  /-- `match em_pass_filters(&actual_epoch_usec, &None, rts_filter_before) { <stopOn> => return <ret>, _ => {} }` -/
  | stopTest (stopOn : List Result_Filter_DateTime2) (ret : Ret)
  /-- the tail `ResultNextCommon::Found((realtime_timestamp, …))` -/
  | retFound
  deriving DecidableEq, Repr

/-- which function `JournalReader::next` hands the call to (arm of the hard-wired `DT_USES_SOURCE_OVERRIDE`) -/
inductive Via where
  | dispatch | fillBuffer
  deriving DecidableEq, Repr

/-- statements of the arms of the `loop { match self.next_dispatch(..) {…} }` of `next_fill_buffer` -/
inductive FillAct where
  | insertDtIndex            -- `fill_buffer.insert((*je.dt(), next_fill_buffer_index), je)`
  | incIndex                 -- `next_fill_buffer_index += 1`
  | popIfLenGe (n : Nat)     -- `if fill_buffer.len() >= n { return Found(pop_first()) }`
  | brk | cont | retErr
  deriving DecidableEq, Repr

structure FillSkel where
  loopGuardedByFlag : Bool        -- `if self.next_fill_buffer_loop { loop {…} }`
  onFound : List FillAct
  onDone : List FillAct
  onErrIgnore : List FillAct
  onErr : List FillAct
  clearsFlagAfterLoop : Bool      -- `self.next_fill_buffer_loop = false;`
  drainsPopFirst : Bool           -- `if !fill_buffer.is_empty() { return Found(pop_first()) }` then `Done`
  deriving DecidableEq, Repr

/-- statements of the arms of the worker's `loop { match journalreader.next(..) {…} }` -/
inductive WAct where
  | send      -- `chan_send(NewMessage(LogMessage::Journal(journalentry), false))`
  | record    -- `result_err = Some(FileErrIo(err))`
  | brk
  deriving DecidableEq, Repr

structure WorkerSkel where
  /-- a condition in front of the loop (`if <cond> { loop {…} }`); `none`: the loop is entered unconditionally -/
  guard : Option String
  /-- the `--dt-after` bound goes to `analyze`, the `--dt-before` bound to every `next` (both through
      `datetimelopt_to_realtime_timestamp_opt`) -/
  boundsWired : Bool
  /-- `analyze` returning `Err` ends the worker before the loop -/
  analyzeErrReturns : Bool
  onFound : List WAct
  onDone : List WAct
  onErr : List WAct
  onErrIgnore : List WAct
  deriving DecidableEq, Repr

structure Skel where
  /-- `em_pass_filters` as translated from the source -/
  filter : Int → Option Int → Option Int → Result_Filter_DateTime2
  analyze : AnalyzeSkel
  common : List Step
  /-- `next_short` / `next_verbose` / `next_export` / `next_cat` start with `match self.next_common(..)` and hand
      `Done`, `Err`, `ErrIgnore` through unchanged; `next_dispatch` only selects among them -/
  renderersPassThrough : Bool
  via : Via
  fill : FillSkel
  worker : WorkerSkel

end S4V.Model.JournalSkel
