/-
`SyslineReader` WITH its stored state (src/readers/syslinereader.rs): what
`S4V.Model.Syslines` leaves out.

State kept between calls
* `syslines`            BTreeMap  begin offset ↦ message
* `syslines_by_range`   RangeMap  [begin, end+1) ↦ begin offset
* `find_sysline_lru_cache`  LRU   requested offset ↦ result (`Found(fo_next, msg)` or `Done`),
  capacity `FIND_SYSLINE_LRU_CACHE_SZ`, with its enable flag.
(`dt_first/dt_last`, the pattern counters and the line-parse LRU do not influence
answers and are omitted; the line layer is `S4V.Model.LinesCached`, proved transparent,
and is abstracted to the list of lines `ls` as in `S4V.Model.Syslines`.)

Operations, each mirroring the control flow of the release build
(`debug_assert!`/`de_wrn!` are no-ops):
* `checkStore`         `check_store`: LRU (only when enabled) → by-range → `syslines`;
                       a by-range hit reads `self.syslines[fo]`, which PANICS when the
                       key is gone (`BTreeMap: Index`), and puts the answer in the LRU
                       whether or not the LRU is enabled
* `findSyslineCached`  `find_sysline_year`: `check_store`, else the walk of
                       `Syslines.findSysline` with the extra "ran into a processed
                       sysline" switch of part A (`syslines_by_range.contains_key(fo1)`),
                       `insert_sysline`, LRU put (a `Done` is cached too)
* `findSyslineIBCached` `find_sysline_in_block_year`: `check_store`, else the forward-only
                       walk; whether the in-block walk completes depends on the block
                       size and on what the LINE layer has cached, so the model takes
                       that one bit (`walkFound`) as an input; a `Done` is not cached
* `dropData bs`        `drop_data(bo)` → `drop_sysline` of every stored message whose last
                       byte lies in a block ≤ bo: removes it from `syslines`, pops the LRU
                       at the message's begin offset — and (generated flag
                       `DROP_REMOVES_BY_RANGE`) leaves `syslines_by_range` alone
* `clearSyslines`, `removeSysline`  `clear_syslines`, `remove_sysline`
-/
import S4V.Model.Syslines
import S4V.Gen.SyslCache

namespace S4V.Model.SyslCached
open S4V.Model.Syslines S4V.Gen.SyslCache

/-- what a lookup returns (`panic`: the thread panics, `no entry found for key`) -/
inductive CRes where
  | done
  | found (foNext : Nat) (s : Sysl)
  | panic
  deriving DecidableEq, Repr, Inhabited

/-- the cache-free answer as a `CRes` -/
def ofRes : Res → CRes
  | .done => .done
  | .found n s => .found n s
  | .err => .panic
  | .nofuel => .panic

structure Store where
  /-- `syslines`: stored messages; the key is `beg` -/
  syslines : List Sysl
  /-- `syslines_by_range`: `(start, end (exclusive), value)` -/
  byRange : List (Nat × Nat × Nat)
  /-- `find_sysline_lru_cache`, most recently used first -/
  lru : List (Nat × CRes)
  lruEnabled : Bool
  deriving DecidableEq, Repr, Inhabited

def lruCap : Nat := FIND_SYSLINE_LRU_CACHE_SZ

/-- `SyslineReader::new` -/
def empty : Store := ⟨[], [], [], CACHE_ENABLE_DEFAULT⟩

/-- `new` followed by `LRU_cache_disable()` -/
def emptyNoLru : Store := ⟨[], [], [], false⟩

/-! ### the three containers -/

def lruGet (l : List (Nat × CRes)) (fo : Nat) : Option CRes := (l.find? (·.1 == fo)).map (·.2)

/-- `LruCache::get` promotes the entry -/
def lruPromote (l : List (Nat × CRes)) (fo : Nat) : List (Nat × CRes) :=
  match l.find? (·.1 == fo) with
  | some e => e :: l.filter (·.1 != fo)
  | none => l

/-- `LruCache::put` -/
def lruPut (l : List (Nat × CRes)) (fo : Nat) (r : CRes) : List (Nat × CRes) :=
  ((fo, r) :: l.filter (·.1 != fo)).take lruCap

/-- `LruCache::pop` -/
def lruPop (l : List (Nat × CRes)) (fo : Nat) : List (Nat × CRes) := l.filter (·.1 != fo)

/-- `self.syslines.get(&fo)` -/
def slGet (m : List Sysl) (beg : Nat) : Option Sysl := m.find? (·.beg == beg)

/-- `self.syslines.insert(beg, s)` -/
def slInsert (m : List Sysl) (s : Sysl) : List Sysl := s :: m.filter (·.beg != s.beg)

/-- `self.syslines.remove(&beg)` -/
def slRemove (m : List Sysl) (beg : Nat) : List Sysl := m.filter (·.beg != beg)

/-- `RangeMap::get_key_value(&fo)`: the value of the range containing `fo` -/
def rmGet (m : List (Nat × Nat × Nat)) (fo : Nat) : Option Nat :=
  (m.find? (fun e => e.1 ≤ fo && fo < e.2.1)).map (·.2.2)

def rmContains (m : List (Nat × Nat × Nat)) (fo : Nat) : Bool := (rmGet m fo).isSome

/-- `RangeMap::remove(a..b)`: cut `[a, b)` out of every stored range -/
def rmRemove (m : List (Nat × Nat × Nat)) (a b : Nat) : List (Nat × Nat × Nat) :=
  m.flatMap fun e =>
    if e.2.1 ≤ a ∨ b ≤ e.1 then [e]
    else (if e.1 < a then [(e.1, a, e.2.2)] else []) ++ (if b < e.2.1 then [(b, e.2.1, e.2.2)] else [])

/-- `RangeMap::insert(a..b, v)`: overwrites whatever `[a, b)` overlapped -/
def rmInsert (m : List (Nat × Nat × Nat)) (a b v : Nat) : List (Nat × Nat × Nat) :=
  (a, b, v) :: rmRemove m a b

/-! ### `check_store` -/

/-- `insert_sysline` -/
def insertSysline (st : Store) (s : Sysl) : Store :=
  { st with syslines := slInsert st.syslines s, byRange := rmInsert st.byRange s.beg (s.fin + 1) s.beg }

/-- `check_store(fo)`: `none` = nothing known, go on with the walk -/
def checkStore (ls : List LineInfo) (st : Store) (fo : Nat) : Option (CRes × Store) :=
  match (if st.lruEnabled then lruGet st.lru fo else none) with
  | some r => some (r, { st with lru := lruPromote st.lru fo })
  | none =>
    match rmGet st.byRange fo with
    | some v =>
      match slGet st.syslines v with
      | none => some (.panic, st)                     -- `self.syslines[fo]`: no entry found for key
      | some s =>
        let r := CRes.found (s.fin + 1) s
        some (r, { st with lru := lruPut st.lru fo r })  -- put, enabled or not
    | none =>
      match slGet st.syslines fo with
      | some s =>
        let r := CRes.found (s.fin + 1) s
        if isSyslineLast ls s || st.lruEnabled then some (r, { st with lru := lruPut st.lru fo r })
        else some (r, st)
      | none => none

/-! ### `find_sysline_year` -/

/-- part A with the store in view: walking backwards from a line without a timestamp,
an offset inside a known range switches the walk to forwards -/
def slPartAC (ls : List LineInfo) (known : Nat → Bool) : Nat → Nat → Bool → Nat → Option LineInfo
  | 0, _, _, _ => none
  | fuel + 1, fo1, zeroTried, foAMax =>
    match lineAt ls fo1 with
    | none => none
    | some l =>
      let foAMax := max foAMax (l.fin + 1)
      match l.dt with
      | some _ => some l
      | none =>
        if zeroTried then slPartAC ls known fuel foAMax true foAMax
        else if l.beg > 1 then
          if known (l.beg - 1) then slPartAC ls known fuel foAMax true foAMax
          else slPartAC ls known fuel (l.beg - 1) false foAMax
        else slPartAC ls known fuel 0 true foAMax

/-- the message that starts at line `h` (part B) -/
def msgFrom (ls : List LineInfo) (h : LineInfo) : Sysl :=
  ⟨h.beg, slPartB ls (ls.length + 1) (h.fin + 1) h.fin, h.dt.getD 0⟩

/-- `find_sysline(fo)` on a reader in state `st` -/
def findSyslineCached (ls : List LineInfo) (st : Store) (fo : Nat) : CRes × Store :=
  match checkStore ls st fo with
  | some x => x
  | none =>
    match slPartAC ls (rmContains st.byRange) (2 * ls.length + 2) fo false 0 with
    | none =>
      (.done, if st.lruEnabled then { st with lru := lruPut st.lru fo .done } else st)
    | some h =>
      let s := msgFrom ls h
      let st1 := insertSysline st s
      let r := CRes.found (s.fin + 1) s
      (r, if st.lruEnabled then { st1 with lru := lruPut st1.lru fo r } else st1)

/-! ### `find_sysline_in_block_year` -/

/-- the message an in-block walk builds when it completes: the line of `fo` if it carries a
timestamp, else the first timestamped line after it (forwards only, no switch) -/
def ibTarget (ls : List LineInfo) (fo : Nat) : Option LineInfo :=
  slPartA ls (2 * ls.length + 2) fo true 0

/-- `find_sysline_in_block(fo)`; `walkFound`: the in-block walk (parts A and B) stayed
inside the block / the lines the line layer had stored, i.e. it did not give up with `Done` -/
def findSyslineIBCached (ls : List LineInfo) (st : Store) (fo : Nat) (walkFound : Bool) : CRes × Store :=
  match checkStore ls st fo with
  | some x => x
  | none =>
    if walkFound then
      match ibTarget ls fo with
      | none => (.done, st)
      | some h =>
        let s := msgFrom ls h
        let st1 := insertSysline st s
        let r := CRes.found (s.fin + 1) s
        (r, if st.lruEnabled then { st1 with lru := lruPut st1.lru fo r } else st1)
    else (.done, st)

/-! ### drops -/

/-- `drop_sysline(beg)` for a message that is stored -/
def dropSysline (st : Store) (s : Sysl) : Store :=
  { st with
    syslines := slRemove st.syslines s.beg
    lru := lruPop st.lru s.beg
    byRange := if DROP_REMOVES_BY_RANGE then rmRemove st.byRange s.beg (s.fin + 1) else st.byRange }

/-- `drop_data(bo)`: every stored message whose last byte lies in a block `≤ bo` -/
def dropData (bs : Nat) (st : Store) (bo : Nat) : Store :=
  (st.syslines.filter (fun s => s.fin / bs ≤ bo)).foldl dropSysline st

/-- `clear_syslines` (`LRU_cache_disable` clears the LRU; the enable flag is restored) -/
def clearSyslines (st : Store) : Store := { st with syslines := [], byRange := [], lru := [] }

/-- `remove_sysline(fo)` -/
def removeSysline (st : Store) (fo : Nat) : Bool × Store :=
  match slGet st.syslines fo with
  | some s =>
    (true, { st with syslines := slRemove st.syslines fo
                     byRange := rmRemove st.byRange s.beg (s.fin + 1)
                     lru := [] })
  | none => (false, { st with lru := [] })

/-! ### histories -/

inductive Op where
  | find (fo : Nat)
  | findib (fo : Nat) (walkFound : Bool)
  | drop (bo : Nat)
  | clear
  | remove (fo : Nat)
  deriving DecidableEq, Repr

inductive Out where
  | res (r : CRes)
  | unit
  | removed (b : Bool)
  deriving DecidableEq, Repr, Inhabited

def applyOp (ls : List LineInfo) (bs : Nat) (st : Store) : Op → Out × Store
  | .find fo => let (r, st') := findSyslineCached ls st fo; (.res r, st')
  | .findib fo w => let (r, st') := findSyslineIBCached ls st fo w; (.res r, st')
  | .drop bo => (.unit, dropData bs st bo)
  | .clear => (.unit, clearSyslines st)
  | .remove fo => let (b, st') := removeSysline st fo; (.removed b, st')

def runOps (ls : List LineInfo) (bs : Nat) : Store → List Op → List Out × Store
  | st, [] => ([], st)
  | st, op :: ops =>
    let (o, st') := applyOp ls bs st op
    let (os, st'') := runOps ls bs st' ops
    (o :: os, st'')

/-- what a cache-free reader answers to the same request -/
def plainOut (ls : List LineInfo) : Op → Option CRes
  | .find fo => some (ofRes (findSysline ls fo))
  | _ => none

def CRes.toString : CRes → String
  | .done => "done"
  | .found n s => s!"found {n} {s.beg} {s.fin} {s.dt}"
  | .panic => "panic"

def Out.toString : Out → String
  | .res r => r.toString
  | .unit => "unit"
  | .removed b => if b then "remove 1" else "remove 0"

end S4V.Model.SyslCached
