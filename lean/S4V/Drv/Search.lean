/-
Driver ops of component `srch` (see harness/src/c_srch.rs for the wire format): every search request
is answered by BOTH Lean forms — the hand model of `S4V.Model.Syslines` and the interpreter of
`S4V.Model.SearchSkel` run on the skeletons regenerated from the source (`S4V.Gen.Search`). When the
two forms agree the common answer is printed (and compared with the real reader by the harness);
when they differ the reply is `FORMS-DIFFER hand=… gen=…`, which never equals a reader's reply.

  srch <bs> <plain|gz> <hex d> <ops..>
    B<fo>:<A>        find_sysline_at_datetime_filter_binary_search(fo, A)
    L<fo>:<A>        find_sysline_at_datetime_filter_linear_search(fo, A)
    A<fo>:<A>        find_sysline_at_datetime_filter(fo, A)            (linear iff streamed)
    W<fo>:<A>:<B>    find_sysline_between_datetime_filters(fo, A, B)
    S<A>:<B>         the loop of exec_syslogprocessor from offset 0   -> msgs <beg>-<end>-<dt>,…
    F<fo>            find_sysline(fo)   (hand `findSysline` and the generated part A / part B walks)
-/
import S4V.Model.Wire
import S4V.Model.Time
import S4V.Model.SearchSkel

namespace S4V.Drv.Search
open S4V.Model S4V.Model.Wire S4V.Model.Syslines S4V.Model.SearchSkel

def optT (s : String) : Option (Option Int) := if s = "n" then some none else (parseInt? s).map some

def both (hand gen : String) : String :=
  if hand = gen then hand else s!"FORMS-DIFFER hand={hand} gen={gen}"

def showMsgs (ms : List Sysl) : String :=
  "msgs " ++ String.intercalate "," (ms.map fun m => s!"{m.beg}-{m.fin}-{m.dt}")

/-- the skeletons the interpreter is run on; `brokenModel` (request kind `plain!` / `gz!`) swaps in a
deliberately wrong one, to show that the correspondence notices -/
def skB (broken : Bool) : S4V.Gen.Search.BSkel :=
  if broken then { S4V.Gen.Search.bsearch with
    before := [.assign .tryFoLast (.v (.cur .tryFo)),
               .assign .foA (.min (.v .slBeg) (.v (.cur .foB))),
               .assign .tryFo (.add (.v (.cur .foA)) (.div (.sub (.v (.cur .foB)) (.v (.cur .foA))) (.lit 2)))] }
  else S4V.Gen.Search.bsearch

def srchOp (ls : List LineInfo) (gz broken : Bool) (op : String) : String :=
  let kind := (op.take 1).toString
  let args := (op.drop 1).toString.splitOn ":"
  let bk := skB broken
  let lk := S4V.Gen.Search.lsearch
  let wk := S4V.Gen.Search.between
  match kind, args with
  | "F", [fo] =>
    match fo.toNat? with
    | some fo =>
      both (Syslines.findSysline ls fo).toString
        (findSyslineG S4V.Gen.Search.findA S4V.Gen.Search.findB ls fo).toString
    | none => "bad-op"
  | "B", [fo, a] =>
    match fo.toNat?, optT a with
    | some fo, some a => both (Syslines.bsearch ls fo a).toString (bsearchG bk ls fo a).toString
    | _, _ => "bad-op"
  | "L", [fo, a] =>
    match fo.toNat?, optT a with
    | some fo, some a =>
      both (Syslines.lsearch ls a (ls.length + 2) fo).toString (lsearchG lk ls a (ls.length + 2) fo).toString
    | _, _ => "bad-op"
  | "A", [fo, a] =>
    match fo.toNat?, optT a with
    | some fo, some a =>
      let lin := if S4V.Gen.Search.AT_LINEAR_IFF_STREAMED then gz else !gz
      both (if gz then Syslines.lsearch ls a (ls.length + 2) fo else Syslines.bsearch ls fo a).toString
           (if lin then lsearchG lk ls a (ls.length + 2) fo else bsearchG bk ls fo a).toString
    | _, _ => "bad-op"
  | "W", [fo, a, b] =>
    match fo.toNat?, optT a, optT b with
    | some fo, some a, some b =>
      both (Syslines.between ls gz fo a b).toString (betweenG bk lk wk ls gz fo a b).toString
    | _, _, _ => "bad-op"
  | "S", [a, b] =>
    match optT a, optT b with
    | some a, some b => both (showMsgs (Syslines.streamAll ls gz a b)) (showMsgs (streamAllG bk lk wk ls gz a b))
    | _, _ => "bad-op"
  | _, _ => "bad-op"

def stepSrch : List String → String
  | _bs :: kind :: h :: ops =>
    match unhex h with
    | some d =>
      let ls := Syslines.linesFrom Time.parseHead d
      let gz := kind = "gz" || kind = "gz!"
      let broken := kind = "plain!" || kind = "gz!"
      String.intercalate ";" (ops.map (srchOp ls gz broken))
    | none => "bad-op"
  | _ => "bad-op"

end S4V.Drv.Search
