/-
Driver ops for the regex slice of C04.

  rgx m <row> <hex slice>   -> `none` | `M <s>,<e> <name>=<s>,<e>|- …`   `search` of the row's translated
                               regex over the slice; named groups in group order
  rgx c <hex slice>         -> `<X2> <X2unroll> <D2>` (0/1): `slice_contains_X_2(_, b"12")`,
                               `slice_contains_X_2_unroll(_, b"12")`, `slice_contains_D2`
-/
import S4V.Model.Wire
import S4V.Model.Regex
import S4V.Model.Ezcheck
import S4V.Gen.Regex

namespace S4V.Drv.Regex
open S4V.Model S4V.Model.Wire S4V.Model.Regex S4V.Model.Ezcheck S4V.Gen.Regex

def rowsArr : Array Row := rows.toArray

def fmtRes (row : Row) : Option Res → String
  | none => "none"
  | some r =>
    let caps := row.names.map fun (nm, i) =>
      match capGet r.caps i with
      | some (a, b) => s!" {nm}={a},{b}"
      | none => s!" {nm}=-"
    s!"M {r.start},{r.stop}" ++ String.join caps

def b01 (b : Bool) : String := if b then "1" else "0"

def stepRegex : List String → String
  | ["m", idx, hx] =>
    match idx.toNat?, unhex hx with
    | some i, some bs =>
      match rowsArr[i]? with
      | some row => fmtRes row (search row.re bs)
      | none => "bad-row"
    | _, _ => "bad-op"
  | ["c", hx] =>
    match unhex hx with
    | some bs => s!"{b01 (sliceContainsX2 bs 49 50)} {b01 (sliceContainsX2Unroll bs 49 50)} {b01 (sliceContainsD2 bs)}"
    | none => "bad-op"
  | _ => "bad-op"

end S4V.Drv.Regex
