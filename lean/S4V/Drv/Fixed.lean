import S4V.Model.Wire
import S4V.Model.Fixed
import S4V.Model.SortDrain

namespace S4V.Drv
open S4V.Model S4V.Model.Wire S4V.Model.Fixed S4V.Gen.Fixed

def showTv : Option (Int × Int) → String → String
  | some (s, u), _ => s!"{s}.{u}"
  | none, d => d

def parsePairF (s : String) : Option (Int × Int) :=
  match s.splitOn ":" with
  | [a, b] => match parseInt? a, parseInt? b with
    | some a, some b => some (a, b)
    | _, _ => none
  | _ => none

def optPairF (s : String) : Option (Option (Int × Int)) :=
  if s = "n" then some none else (parsePairF s).map some

/-- `fixed tv <layout> <hex record>`:
      `tv <sec>.<usec>|none new <sec>.<usec>|err`  ordering side (`tv_pair_from_buffer` of the
      `size_tv()` bytes at `offset_tv()`) and printing side (`FixedStruct::new(..).tv_pair()`)
    `fixed sort <layout> <after|n> <before|n> <hex,hex,…>`: print order (record indices) of a file -/
def stepFixed : List String → String
  | ["tv", name, h] =>
    match layoutNamed name, unhex h with
    | some l, some r =>
      if r.length ≠ l.size then "bad-size"
      else s!"tv {showTv (tvPair l r) "none"} new {showTv (newTv l r) "err"}"
    | none, _ => "bad-layout"
    | _, none => "bad-op"
  | ["sort", name, a, b, recs] =>
    match layoutNamed name, optPairF a, optPairF b, (if recs = "-" then some [] else (recs.splitOn ",").mapM unhex) with
    | some l, some a, some b, some rs =>
      if rs.any (fun r => r.length ≠ l.size) then "bad-size"
      else String.intercalate "," ((filePrint l rs a b).map toString)
    | none, _, _, _ => "bad-layout"
    | _, _, _, _ => "bad-op"
  | _ => "bad-op"

end S4V.Drv
