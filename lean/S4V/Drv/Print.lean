/-
Driver ops for the printing model (`S4V.Model.Print`).

  prt pfx <name_hex> <nchars> <width> <psep_hex>
      → hex of the file-name field
  prt run <sep_hex> <npal> <pal_0> … <pal_{n-1}> <ev> …
      pal_i = `<dflt_hex>,<txt_hex>,<dt_hex>`   escape bytes of file i's printer
      ev    = `<pid>;<kind s|f|e|j>;<color 0|1>;<file_hex|n>;<date_hex|n>;<isLast 0|1>;<dt int>;<beg>;<end>;<payload>`
              payload = the message's lines as comma-separated hex (text logs) or one hex (other kinds)
      → `<stdout hex> T <bytes> <lines> <syslines> <fixedstruct> <evtx> <journal> <dtFirst|n> <dtLast|n> F <pid>:<bytes>:<lines>:<msgs> …`
  prt sys <bs> <file_hex> <color 0|1> <file_field_hex|n> <dfmt> <r,g,b> @ <pal> <msg> …
      everything before `@` is for the harness (it rebuilds the messages from the file); the model reads
      the colour flag and the file-name field from there, and after `@`:
      pal = `<dflt_hex>,<txt_hex>,<dt_hex>`
      msg = `<date_field_hex|n>;<dt_beg>;<dt_end>;<line>/<line>/…`, line = `<part_hex>,<part_hex>,…`
      one fresh printer prints the messages in order
      → per message `<stdout hex> <printed> <flushed> <label:hex,…>` joined by ` | `
        (label of a run of bytes = the colour in force: N none yet, D default, T text, U datetime)
-/
import S4V.Model.Wire
import S4V.Model.Print

namespace S4V.Drv.Print
open S4V.Model.Wire S4V.Model.Print

def optHex (s : String) : Option (Option Bytes) :=
  if s = "n" then some none else (unhex s).map some

def parsePal (s : String) : Option Pal :=
  match s.splitOn "," with
  | [a, b, c] =>
    match unhex a, unhex b, unhex c with
    | some a, some b, some c => some ⟨a, b, c⟩
    | _, _, _ => none
  | _ => none

def parseEv (s : String) : Option Ev :=
  match s.splitOn ";" with
  | [pid, kind, color, file, date, isLast, dt, beg, fin, payload] =>
    match pid.toNat?, optHex file, optHex date, parseInt? dt, beg.toNat?, fin.toNat? with
    | some pid, some file, some date, some dt, some beg, some fin =>
      let o : Opts := ⟨color = "1", file, date⟩
      let msg : Option Msg :=
        if kind = "s" then
          (if payload = "" then some [] else (payload.splitOn ",").mapM unhex).map fun ls => Msg.sysline ⟨ls, beg, fin⟩
        else
          (unhex payload).bind fun d =>
            if kind = "f" then some (Msg.fixedstruct ⟨d, beg, fin⟩)
            else if kind = "e" then some (Msg.evtx ⟨d, beg, fin⟩)
            else if kind = "j" then some (Msg.journal ⟨d, beg, fin⟩)
            else none
      msg.map fun m => ⟨pid, o, m, isLast = "1", dt, 0⟩
    | _, _, _, _, _, _ => none
  | _ => none

def optIntStr : Option Int → String
  | none => "n"
  | some i => toString i

def msgsOf (s : SumPr) : Nat := s.syslines + s.fixedstructentries + s.evtxentries + s.journalentries


/-! ### `prt sys`: real `Sysline`s (lineparts) through the buffer model -/

def parseParts (s : String) : Option (List Bytes) :=
  if s = "" then some [] else (s.splitOn ",").mapM unhex

def parseSysP (s : String) : Option (Option Bytes × SysMsgP) :=
  match s.splitOn ";" with
  | [date, b, e, ls] =>
    match optHex date, b.toNat?, e.toNat?, (if ls = "" then some [] else (ls.splitOn "/").mapM parseParts) with
    | some date, some b, some e, some ls => some (date, ⟨ls, b, e⟩)
    | _, _, _, _ => none
  | _ => none

def labelOf (p : Pal) : Last → String
  | none => "N"
  | some b => if b = p.dt then "U" else if b = p.txt then "T" else if b = p.dflt then "D" else "X"

/-- runs of bytes with the colour in force, adjacent runs of one colour merged, empty runs dropped -/
def labelled (p : Pal) : Last → List Chunk → List (String × Bytes) → List (String × Bytes)
  | _, [], acc => acc.reverse
  | _, .esc b :: r, acc => labelled p (some b) r acc
  | l, c :: r, acc =>
    let bs := c.bytes
    if bs = [] then labelled p l r acc
    else
      match acc with
      | (lab, x) :: t => if lab = labelOf p l then labelled p l r ((lab, x ++ bs) :: t) else labelled p l r ((labelOf p l, bs) :: acc)
      | [] => labelled p l r [(labelOf p l, bs)]

def sysRun (p : Pal) (color : Bool) (file : Option Bytes) : Last → List (Option Bytes × SysMsgP) → List String
  | _, [] => []
  | last, (date, m) :: r =>
    let res := printM (Env.code p) Flags.code ⟨color, file, date⟩ (.sysline m) (Dev.fresh last)
    let chunks := (labelled p last res.1.out []).map fun (l, b) => s!"{l}:{hex b}"
    s!"{hex (bytesOf res.1.out)} {res.2.1} {res.2.2} {if chunks = [] then "-" else String.intercalate "," chunks}" ::
      sysRun p color file res.1.last r

def stepSys (ws : List String) : String :=
  let pre := ws.takeWhile (· ≠ "@")
  let post := (ws.dropWhile (· ≠ "@")).drop 1
  match pre, post with
  | [_bs, _file, color, ff, _dfmt, _rgb], pal :: msgs =>
    match optHex ff, parsePal pal, msgs.mapM parseSysP with
    | some ff, some pal, some msgs => String.intercalate " | " (sysRun pal (color = "1") ff none msgs)
    | _, _, _ => "bad-op"
  | _, _ => "bad-op"

def stepPrint : List String → String
  | "sys" :: rest => stepSys rest
  | ["pfx", name, nchars, width, psep] =>
    match unhex name, nchars.toNat?, width.toNat?, unhex psep with
    | some name, some nchars, some width, some psep => hex (fileField name nchars width psep)
    | _, _, _, _ => "bad-op"
  | "run" :: sep :: npal :: rest =>
    match unhex sep, npal.toNat? with
    | some sep, some npal =>
      match (rest.take npal).mapM parsePal, (rest.drop npal).mapM parseEv with
      | some pals, some evs =>
        let pal : Nat → Pal := fun i => pals.getD i ⟨[], [], []⟩
        let out := runOut pal sep (fun _ => none) evs
        let a := runAcct sep {} evs
        let t := a.total
        let per := a.perFile.map fun (pid, s) => s!"{pid}:{s.bytes}:{s.lines}:{msgsOf s}"
        s!"{hex (bytesOf out)} T {t.bytes} {t.lines} {t.syslines} {t.fixedstructentries} {t.evtxentries} {t.journalentries} {optIntStr t.dtFirst} {optIntStr t.dtLast} F " ++
          String.intercalate " " per
      | _, _ => "bad-op"
    | _, _ => "bad-op"
  | _ => "bad-op"

end S4V.Drv.Print
