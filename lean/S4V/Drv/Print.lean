/-
Driver ops for the printing model (`S4V.Model.Print`).

  prt pfx <name_hex> <nchars> <width> <psep_hex>
      → hex of the file-name field
  prt run <sep_hex> <npal> <pal_0> … <pal_{n-1}> <ev> …
      pal_i = `<dflt_hex>,<txt_hex>,<dt_hex>`   escape bytes of file i's printer
      ev    = `<pid>;<kind s|f|e|j>;<color 0|1>;<file_hex|n>;<date_hex|n>;<isLast 0|1>;<dt int>;<beg>;<end>;<payload>`
              payload = the message's lines as comma-separated hex (text logs) or one hex (other kinds)
      → `<stdout hex> T <bytes> <lines> <syslines> <fixedstruct> <evtx> <journal> <dtFirst|n> <dtLast|n> F <pid>:<bytes>:<lines>:<msgs> …`
-/
import S4V.Model.Wire
import S4V.Model.Print

namespace S4V.Drv.Print
open S4V.Model.Wire S4V.Model.Print

def optHex (s : String) : Option (Option Bytes) :=
  if s = "n" then some none else (unhex s).map some

def parsePal (s : String) : Option Pal :=
  match s.splitOn "," with
  | [a, b, c] =>
    match unhex a, unhex b, unhex c with
    | some a, some b, some c => some ⟨a, b, c⟩
    | _, _, _ => none
  | _ => none

def parseEv (s : String) : Option Ev :=
  match s.splitOn ";" with
  | [pid, kind, color, file, date, isLast, dt, beg, fin, payload] =>
    match pid.toNat?, optHex file, optHex date, parseInt? dt, beg.toNat?, fin.toNat? with
    | some pid, some file, some date, some dt, some beg, some fin =>
      let o : Opts := ⟨color = "1", file, date⟩
      let msg : Option Msg :=
        if kind = "s" then
          (if payload = "" then some [] else (payload.splitOn ",").mapM unhex).map fun ls => Msg.sysline ⟨ls, beg, fin⟩
        else
          (unhex payload).bind fun d =>
            if kind = "f" then some (Msg.fixedstruct ⟨d, beg, fin⟩)
            else if kind = "e" then some (Msg.evtx ⟨d, beg, fin⟩)
            else if kind = "j" then some (Msg.journal ⟨d, beg, fin⟩)
            else none
      msg.map fun m => ⟨pid, o, m, isLast = "1", dt, 0⟩
    | _, _, _, _, _, _ => none
  | _ => none

def optIntStr : Option Int → String
  | none => "n"
  | some i => toString i

def msgsOf (s : SumPr) : Nat := s.syslines + s.fixedstructentries + s.evtxentries + s.journalentries

def stepPrint : List String → String
  | ["pfx", name, nchars, width, psep] =>
    match unhex name, nchars.toNat?, width.toNat?, unhex psep with
    | some name, some nchars, some width, some psep => hex (fileField name nchars width psep)
    | _, _, _, _ => "bad-op"
  | "run" :: sep :: npal :: rest =>
    match unhex sep, npal.toNat? with
    | some sep, some npal =>
      match (rest.take npal).mapM parsePal, (rest.drop npal).mapM parseEv with
      | some pals, some evs =>
        let pal : Nat → Pal := fun i => pals.getD i ⟨[], [], []⟩
        let out := runOut pal sep (fun _ => none) evs
        let a := runAcct sep {} evs
        let t := a.total
        let per := a.perFile.map fun (pid, s) => s!"{pid}:{s.bytes}:{s.lines}:{msgsOf s}"
        s!"{hex (bytesOf out)} T {t.bytes} {t.lines} {t.syslines} {t.fixedstructentries} {t.evtxentries} {t.journalentries} {optIntStr t.dtFirst} {optIntStr t.dtLast} F " ++
          String.intercalate " " per
      | _, _ => "bad-op"
    | _, _ => "bad-op"
  | _ => "bad-op"

end S4V.Drv.Print
