/-
Driver ops for component `syslc`: one history of `find_sysline` /
`find_sysline_in_block` / `drop_data` / `clear_syslines` / `remove_sysline`
through the cached model `S4V.Model.SyslCached`.

request: syslc <bs> <lru 0|1> <hex d> <ops..>     (ops: s<fo>  i<fo>[:f|:d]  d<bo>  c  r<fo>)
reply:   one answer per op, joined by `;`
-/
import S4V.Model.Wire
import S4V.Model.Time
import S4V.Model.SyslCached

namespace S4V.Drv
open S4V.Model S4V.Model.Wire S4V.Model.SyslCached

def parseSyslcOp (op : String) : Option Op :=
  let kind := (op.take 1).toString
  let rest := (op.drop 1).toString
  if kind = "c" then (if rest = "" then some .clear else none)
  else
    match rest.splitOn ":" with
    | [n] =>
      match n.toNat? with
      | some fo =>
        if kind = "s" then some (.find fo)
        else if kind = "i" then some (.findib fo true)
        else if kind = "d" then some (.drop fo)
        else if kind = "r" then some (.remove fo)
        else none
      | none => none
    | [n, w] =>
      match n.toNat? with
      | some fo => if kind = "i" then some (.findib fo (w = "f")) else none
      | none => none
    | _ => none

def syslcOut : Op → Out → String
  | .drop _, _ => "drop"
  | .clear, _ => "clear"
  | _, o => o.toString

/-- the in-block request starts its message where the full walk does (`IbSafe`) -/
def ibSafeB (ls : List Syslines.LineInfo) : Op → Bool
  | .findib fo _ => decide (ibTarget ls fo = Syslines.slPartA ls (2 * ls.length + 2) fo false 0)
  | _ => true

/-- self-check of the model against the cache-free model (`runOps_transparent`): as long as
every earlier in-block request was safe, a `find` answers the cache-free answer or `panic`,
and the cache-free answer when no `drop` came before -/
def soundCheck (ls : List Syslines.LineInfo) : List Op → List Out → Bool → Bool → Bool
  | op :: ops, o :: os, safe, nodrop =>
    let ok := match op, o with
      | .find fo, .res r =>
        !safe || (r == ofRes (Syslines.findSysline ls fo) || (!nodrop && r == .panic))
      | _, _ => true
    let nodrop' := match op with | .drop _ => false | _ => nodrop
    ok && soundCheck ls ops os (safe && ibSafeB ls op) nodrop'
  | _, _, _, _ => true

def stepSyslC : List String → String
  | bs :: lru :: h :: ops =>
    match bs.toNat?, unhex h, ops.mapM parseSyslcOp with
    | some bs, some d, some ops =>
      let ls := Syslines.linesFrom Time.parseHead d
      let st0 : Store := if lru = "1" then empty else emptyNoLru
      let outs := (runOps ls bs st0 ops).1
      let reply := String.intercalate ";" ((ops.zip outs).map fun (op, o) => syslcOut op o)
      if soundCheck ls ops outs true true then reply else "CACHED-MODEL-UNSOUND " ++ reply
    | _, _, _ => "bad-op"
  | _ => "bad-op"

end S4V.Drv
