/-
Driver ops of the `fwalk` component (model side of harness/src/c_fixedwalk.rs).

  fwalk rd <plain|gz> <bs> <hex d> <beg:end:oneblock:buflen,…>
      a sequence of `read_data_to_buffer` calls on ONE `BlockReader::new` (block dropping as `new` leaves it)
      reply  r,r,…   r = F<len>:<hash> | D | E | P   (the sequence stops after P)
  fwalk walk <kind> <plain|gz> <bs> <after|n> <before|n> <hex d>
      `FixedStructReader::new` for a file of kind Acct|AcctV3|Lastlog|Lastlogx|Utmp|Utmpx (the layout is chosen by
      `S4V.Model.LayoutDetect.scoreFile`), then the worker loop
      reply  new:<kind>  |
             ok layout=<FixedStructType> first=<fo|none> seq=<fo:hash:L|l,…|-> end=<done|errstop|panic|fuel> ooo=… maxlen=… hits=… miss=… proc=… dok=… derr=… fef=…
             (`!` = a recoverable error entry)
-/
import S4V.Model.Wire
import S4V.Model.Fixed
import S4V.Model.FixedWalk
import S4V.Model.LayoutDetect

namespace S4V.Drv
open S4V.Model S4V.Model.Wire S4V.Model.Fixed S4V.Gen.Fixed S4V.Model.Stream S4V.Model.FixedWalk

def fwHash (b : List UInt8) : Nat := b.foldl (fun h x => (h * 31 + x.toNat) % 4294967296) 7

def fwKind (s : String) : Option Kind :=
  if s = "plain" then some .plain else if s = "gz" then some .gz else none

def fwCall (s : String) : Option (Nat × Nat × Bool × Nat) :=
  match s.splitOn ":" with
  | [a, b, o, l] =>
    match a.toNat?, b.toNat?, l.toNat? with
    | some a, some b, some l => some (a, b, o = "1", l)
    | _, _, _ => none
  | _ => none

def fwShowR : R3 (List UInt8) → String
  | .found w => s!"F{w.length}:{fwHash w}"
  | .done => "D"
  | .err => "E"
  | .panic => "P"

def fwPair (s : String) : Option (Int × Int) :=
  match s.splitOn ":" with
  | [a, b] => match parseInt? a, parseInt? b with
    | some a, some b => some (a, b)
    | _, _ => none
  | _ => none

def fwOptPair (s : String) : Option (Option (Int × Int)) :=
  if s = "n" then some none else (fwPair s).map some

/-- `ENTRY_SZ_MAX` = the largest record size of the generated layout table -/
def entrySzMax : Nat := (layouts.map (·.size)).foldl max 0

def pOf (l : Layout) : P :=
  { sz := l.size, tvOff := l.offsetTv, tvSz := l.sizeTv, tvOf := tvPairFromBuffer l,
    newOk := fun r => (newTv l r).isSome }

def fwEmit : Emit → String
  | .msg fo r il => s!"{fo}:{fwHash r}:{if il then "L" else "l"}"
  | .bad => "!"

def fwEnd : End → String
  | .done => "done" | .errStop => "errstop" | .panic => "panic" | .fuel => "fuel"

def fwNullRec (r : List UInt8) : Bool := r.all (· == 0) || r.all (· == 255)

def fwKindOf : String → Option S4V.Gen.LayoutDetect.Kind
  | "Acct" => some .acct
  | "AcctV3" => some .acctV3
  | "Lastlog" => some .lastlog
  | "Lastlogx" => some .lastlogx
  | "Utmp" => some .utmp
  | "Utmpx" => some .utmpx
  | _ => none

/-- the layout `new` reads the file with: `filesz_to_types` + `score_file` (LayoutDetect slice); `none` = no candidate /
no positive score (`FileErrNoValidFixedStruct`) -/
def fwLayout (k : S4V.Gen.LayoutDetect.Kind) (d : List UInt8) : Option Layout :=
  if (S4V.Model.LayoutDetect.fileszToTypes k d.length).isNone then none
  else
    match S4V.Model.LayoutDetect.scoreFile d (S4V.Model.LayoutDetect.iterOrder k d.length) with
    | some (n, _) => layoutNamed n
    | none => none

def stepFixedWalk : List String → String
  | ["rd", kind, bs, h, calls] =>
    match fwKind kind, bs.toNat?, unhex h, (if calls = "-" then some [] else (calls.splitOn ",").mapM fwCall) with
    | some k, some bs, some d, some cs =>
      if bs = 0 then "bad-op" else
      String.intercalate "," ((readDataSeq (Rd.new k bs d [] []) cs).1.map fwShowR)
    | _, _, _, _ => "bad-op"
  | ["walk", fkind, kind, bs, a, b, h] =>
    match fwKindOf fkind, fwKind kind, bs.toNat?, fwOptPair a, fwOptPair b, unhex h with
    | some fk, some k, some bs, some a, some b, some d =>
      if bs = 0 then "bad-op" else
      if d.length = 0 ∨ d.length < S4V.Gen.LayoutDetect.ENTRY_SZ_MIN then "new:other" else
      match fwLayout fk d with
      | none => "new:novalid"
      | some l =>
      let p := pOf l
      let r0 := rdNew cfg0 k bs d [] []
      match scoreReads fwNullRec p.sz entrySzMax S4V.Gen.LayoutDetect.COUNT_FOUND_ENTRIES_MAX (d.length + 2) r0 0 0 [] with
      | (.found scored, r1) =>
        match frNew cfg0 p a b r1 (scored.filter (fun e => p.newOk e.2)) with
        | .errNoValid => "new:novalid"
        | .errNotInWindow => "new:notinwindow"
        | .errIo => "new:io"
        | .panic => "new:panic"
        | .ok fr k fef mx =>
          let first := match foFirst fr.map with | some f => toString f | none => "none"
          let w := walk cfg0 p entrySzMax fr
          let sq := if w.1.isEmpty then "-" else String.intercalate "," (w.1.map fwEmit)
          let f := w.2.2
          s!"ok layout={l.name} first={first} seq={sq} end={fwEnd w.2.1} ooo={k.ooo} maxlen={mx} hits={f.hits} miss={f.miss} proc={f.processed} dok={f.dropOk} derr={f.dropErr} fef={fef}"
      | (.err, _) => "new:io"
      | (.done, _) => "new:io"
      | (.panic, _) => "new:panic"
    | _, _, _, _, _, _ => "bad-op"
  | _ => "bad-op"

end S4V.Drv
