/-
Driver op for the `tarm` component (`S4V.Model.TarMember`):

  tarm <bs> <archive> <members> <probes>
      <archive>  hex of the archive's path below the temporary directory
      <members>  `-` or `,`-joined `<hex stored path>:<type>:<fmt>:<hex data>` (`r`/`R` regular; the formats all
                 report the stored path as `entry.path()` and its first 100 bytes as the header name)
      <probes>   `-` or `,`-joined hex names
  → `<listing>#<probes>`: per listed entry `<m|e><hex listed name>=<br>/<ntf>`, per probe `<br>/<ntf>`
The block size does not enter the model: the reply is the concatenation of all blocks.
-/
import S4V.Model.Wire
import S4V.Model.TarMember

namespace S4V.Drv.TarMember
open S4V.Model.Wire S4V.Model.TarMember S4V.Gen.TarMember

def parseMember (tok : String) : Option Entry :=
  match tok.splitOn ":" with
  | [n, ty, _fmt, d] =>
    match unhex n, unhex d with
    | some n, some d => some (mkEntry n (ty == "r" || ty == "R") d)
    | _, _ => none
  | _ => none

def parseList {α : Type} (f : String → Option α) (s : String) : Option (List α) :=
  if s == "-" then some [] else (s.splitOn ",").mapM f

def showBr : BrOut → String
  | .ok d => "ok:" ++ hex d
  | .empty => "empty"
  | .readErr => "err:UnexpectedEof"
  | .newErrNoSep => "new:InvalidInput"
  | .newErrOpen => "new:NotFound"

def showNtf : NtfOut → String
  | .ok d => "ok:" ++ hex d
  | .none => "none"
  | .err => "err:Other"
  | .errNoSep => "err:InvalidInput"
  | .errOpen => "err:NotFound"

def joinOr (l : List String) : String := if l.isEmpty then "-" else ";".intercalate l

def tmpDir : List UInt8 := "/tmp/s4h-tarm/".toUTF8.toList

def stepTarMember : List String → String
  | [_bs, a, ms, ps] =>
    match unhex a, parseList parseMember ms, parseList unhex ps with
    | some a, some ar, some probes =>
      let tp := tmpDir ++ a
      let fs := oneTar tp ar
      let pre := (tp ++ subpathSep).length
      let ls := (listed tp ar).map fun (full, e) =>
        (if e.data.isEmpty then "e" else "m") ++ hex (full.drop pre) ++ "=" ++ showBr (brRead fs full) ++ "/" ++ showNtf (ntfRead fs full)
      let qs := probes.map fun q =>
        let full := tp ++ subpathSep ++ q
        showBr (brRead fs full) ++ "/" ++ showNtf (ntfRead fs full)
      joinOr ls ++ "#" ++ joinOr qs
    | _, _, _ => "bad-op"
  | _ => "bad-op"

end S4V.Drv.TarMember
