/-
Driver op of component `walktar` (see harness/src/c_walktar.rs for the wire format):
  walk tar <u> <dirs> <tar name> <siblings> <end> <members>
    → `<results of process_path(root, u)>#<results of process_path(root/dirs/tar, u)>`
each `;`-joined `<hex path relative to the root>=<outcome>` (`-` when empty).
Flags: the generated `walkIncludesHidden`, `walkTarPassesFlag`/`…Lit`, `namedTarPassesFlag`/`…Lit`.
-/
import S4V.Model.Wire
import S4V.Model.WalkTar

namespace S4V.Drv.WalkTar
open S4V.Model S4V.Model.Wire S4V.Model.Walk S4V.Model.WalkTar S4V.Model.Path S4V.Model.PathTypes
open S4V.Gen.PathTables S4V.Gen.WalkTar

def splitBytes (sep : UInt8) : Bytes → List Bytes
  | [] => [[]]
  | b :: rest =>
    match splitBytes sep rest with
    | [] => [[b]]   -- unreachable
    | c :: cs => if b = sep then [] :: c :: cs else (b :: c) :: cs

def hexList (s : String) : Option (List Bytes) :=
  if s = "-" then some [] else (s.splitOn ",").mapM unhex

def decMember (tok : String) : Option Member :=
  match tok.splitOn ":" with
  | [n, ty, sz, _fmt] =>
    match unhex n with
    | none => none
    | some n =>
      let kind := if ty = "r" ∨ ty = "R" then MKind.regular else MKind.other
      if sz = "z" then some ⟨splitBytes SLASH n, kind, true⟩
      else if sz = "n" then some ⟨splitBytes SLASH n, kind, false⟩
      else none
  | _ => none

def decMembers (s : String) : Option (List Member) :=
  if s = "-" then some [] else (s.splitOn ",").mapM decMember

/-- `FileTypeArchive`'s `Display` (src/common.rs) -/
def archDisplay : Arch → String
  | .normal => "Normal" | .bz2 => "BZIP2" | .gz => "GZIP" | .lz4 => "LZMA4" | .tar => "TAR" | .xz => "XZ"

def tarOutStr : TarOut → String
  | .valid r => r.toString
  | .empty => "Empty"
  | .notSupported => "NotSupported"
  | .cannotExtract a => "NotSupported:" ++ tarMsgCannotPre ++ archDisplay a ++ tarMsgCannotPost
  | .nested => "NotSupported:" ++ tarMsgNested
  | .err => "Err"
  | .nofuel => "nofuel"

def plainOutStr : Outcome → String
  | .valid r => r.toString
  | .notSupported => "NotSupported"
  | .tar _ => "tar?"
  | .nofuel => "nofuel"

/-- the root directory is called `r`; replies are relative to it -/
def ROOT : Bytes := [114]

def resStr : Res → String
  | .plain p o => hex (toStringLossy (joinPath (p.drop 1))) ++ "=" ++ plainOutStr o
  | .member r => hex (r.path.drop 2) ++ "=" ++ tarOutStr r.out

def resList (rs : List Res) : String :=
  if rs.isEmpty then "-" else String.intercalate ";" (rs.map resStr)

def nest (dirs : List Bytes) (leaves : List Node) : List Node :=
  match dirs with
  | [] => leaves
  | d :: ds => [.dir d (nest ds leaves)]

def stepWalkTar : List String → String
  | [u, dirs, tname, sibs, brk, mems] =>
    match hexList dirs, unhex tname, hexList sibs, decMembers mems with
    | some dirs, some tname, some sibs, some mems =>
      if (u ≠ "0" ∧ u ≠ "1") ∨ brk.toNat?.isNone then "bad-op" else
      let u := u = "1"
      let broken := brk = "1" ∨ brk = "2" ∨ brk = "3"
      let ar : Archive := ⟨mems, broken⟩
      let tpath := ROOT :: dirs ++ [tname]
      -- every other tar-named file holds non-tar bytes
      let fs : TarFs := fun p => if p = tpath then ar else ⟨[], true⟩
      let tree : Node := .dir ROOT (nest dirs (.file tname :: sibs.map .file))
      let es := expandDirAll walkIncludesHidden tree
      let w :=
        if es.any tarOpenPanics then
          "panic called `Result::unwrap()` on an `Err` value: Os { code: 2, kind: NotFound, message: \"No such file or directory\" }"
        else resList (expandArgFull walkIncludesHidden u fs (.dir [] tree))
      let n :=
        if !isUtf8 (joinPath tpath) then "not-utf8"
        else resList (expandArgFull walkIncludesHidden u fs (.file tpath tname))
      w ++ "#" ++ n
    | _, _, _, _ => "bad-op"
  | _ => "bad-op"

end S4V.Drv.WalkTar
