import S4V.Model.Wire
import S4V.Model.Fixed
import S4V.Model.FixedRender

namespace S4V.Drv.FixedRender
open S4V.Model S4V.Model.Wire S4V.Model.FixedRender

/-- `frender <buffer capacity> <layout> <hex record>`:
      `ok <hex text> <dt_beg> <dt_end>` | `fail <hex text>` | `err` (`FixedStruct::new` fails: `S4V.Model.Fixed.newTv`)
      | `bad-layout` | `bad-size` | `bad-op` -/
def stepFrender : List String → String
  | [cap, name, h] =>
    match cap.toNat?, S4V.Gen.FixedRender.layoutNamed name, S4V.Gen.Fixed.layoutNamed name, unhex h with
    | some cap, some l, some lt, some r =>
      if cap > 65536 then "bad-op"
      else if r.length ≠ l.size ∨ l.size ≠ lt.size then "bad-size"
      else if (S4V.Model.Fixed.newTv lt r).isNone then "err"
      else
        match renderInto cap l r with
        | .ok t b e => s!"ok {hex t} {b} {e}"
        | .fail t => s!"fail {hex t}"
    | none, _, _, _ => "bad-op"
    | _, none, _, _ => "bad-layout"
    | _, _, none, _ => "bad-layout"
    | _, _, _, none => "bad-op"
  | _ => "bad-op"

end S4V.Drv.FixedRender
