/-
Driver ops of the `walk` / `walktar` correspondences, second model: the INTERPRETER of the regenerated
`process_path` skeleton (`S4V.Model.WalkSkel.processPathSkel S4V.Gen.WalkSkel.skel`) answers the same requests
as the real `process_path` and the hand model (`drv_walk`):
  walk tree <spec>  |  walk named <hex> <hex|->  |  walk tar <u> <dirs> <tar name> <siblings> <end> <members>
The jwalk stream handed to the interpreter is `entriesN` of the request's tree (directories included, hidden
entries per the regenerated `.skip_hidden(false)`); wire formats are those of `Drv.Walk` / `Drv.WalkTar`.
Plus `wskel splice <hex stdin lines,> <hex args,>`: the regenerated `-` arm (model-only op).
-/
import S4V.Model.Wire
import S4V.Model.WalkSkel
import S4V.Drv.Walk
import S4V.Drv.WalkTar

namespace S4V.Drv.WalkSkel
open S4V.Model S4V.Model.Wire S4V.Model.Walk S4V.Model.WalkTar S4V.Model.Path S4V.Model.PathTypes
open S4V.Gen.WalkSkel S4V.Model.WalkSkel S4V.Drv.WalkTar

def errStr : ErrRes → String
  | .notExist => "NotExist" | .noPermissions => "NoPermissions" | .err => "Err"

/-- `walk tree` / `walk named` wire: root name is empty, tar-named files hold non-tar bytes -/
def sresStrTree : SRes → String
  | .res (.plain p o) => hex (toStringLossy (joinPath (p.drop 1))) ++ "=" ++ S4V.Drv.Walk.outcomeStr o
  | .res (.member r) => hex (r.path.drop 1) ++ "=" ++ tarOutStr r.out
  | .notAFile p => hex (toStringLossy (joinPath (p.drop 1))) ++ "=NotAFile"
  | .argErr e => "-=" ++ errStr e

def sresOut : SRes → String
  | .res (.plain _ o) => S4V.Drv.Walk.outcomeStr o
  | .res (.member r) => tarOutStr r.out
  | .notAFile _ => "NotAFile"
  | .argErr e => errStr e

/-- `walk tar` wire (root `r`) -/
def sresStrTar : SRes → String
  | .res r => resStr r
  | .notAFile p => hex (toStringLossy (joinPath (p.drop 1))) ++ "=NotAFile"
  | .argErr e => "-=" ++ errStr e

def joinOr (rs : List String) : String := if rs.isEmpty then "-" else String.intercalate ";" rs

def notTar : TarFs := fun _ => ⟨[], true⟩

def stepWskel : List String → String
  | ["tree", spec] =>
    match S4V.Drv.Walk.decodeSpec spec with
    | none => "bad-op"
    | some t =>
      joinOr ((processPathSkel skel true notTar (.dir [] (entriesN skel.skipHiddenFalse t))).map sresStrTree)
  | ["named", n, t] =>
    match unhex n, (if t = "-" then some none else (unhex t).map some) with
    | some n, some t =>
      match processPathSkel skel true notTar (.file [n] (t.getD n)) with
      | [r] => sresOut r
      | _ => "multi"
    | _, _ => "bad-op"
  | ["tar", u, dirs, tname, sibs, brk, mems] =>
    match hexList dirs, unhex tname, hexList sibs, decMembers mems with
    | some dirs, some tname, some sibs, some mems =>
      if (u ≠ "0" ∧ u ≠ "1") ∨ brk.toNat?.isNone then "bad-op" else
      let u := u = "1"
      let broken := brk = "1" ∨ brk = "2" ∨ brk = "3"
      let ar : Archive := ⟨mems, broken⟩
      let tpath := ROOT :: dirs ++ [tname]
      let fs : TarFs := fun p => if p = tpath then ar else ⟨[], true⟩
      let tree : Node := .dir ROOT (nest dirs (.file tname :: sibs.map .file))
      let ws := entriesN skel.skipHiddenFalse tree
      let w :=
        if (filesOf ws).any (fun p => tarOpenPanics (classifyWith false p)) then
          "panic called `Result::unwrap()` on an `Err` value: Os { code: 2, kind: NotFound, message: \"No such file or directory\" }"
        else joinOr ((processPathSkel skel u fs (.dir [] ws)).map sresStrTar)
      let n :=
        if !isUtf8 (joinPath tpath) then "not-utf8"
        else joinOr ((processPathSkel skel u fs (.file tpath tname)).map sresStrTar)
      w ++ "#" ++ n
    | _, _, _, _ => "bad-op"
  | _ => "bad-op"

def stepSplice : List String → String
  | [lines, args] =>
    match hexList lines, hexList args with
    | some lines, some args =>
      let out := spliceSkel splice lines args
      if out.isEmpty then "-" else String.intercalate "," (out.map hex)
    | _, _ => "bad-op"
  | _ => "bad-op"

end S4V.Drv.WalkSkel
