import S4V.Model.Wire
import S4V.Model.Lines
import S4V.Model.Boxptrs

namespace S4V.Drv
open S4V.Model S4V.Model.Wire S4V.Model.Boxptrs

def ptrsStr : Ptrs → String
  | .none => "none"
  | .single s => s!"single {hex s}"
  | .double s t => s!"double {hex s},{hex t}"
  | .multi ss => s!"multi {String.intercalate "," (ss.map hex)}"

/-- `boxp <bs> <hex file bytes> <fo> <a> <b>`: the parts of the line found by
`find_line(fo)` at block size `bs`, then `get_boxptrs(a, b)` on them.
reply: `done` (no line) | `panic` | `<variant> <hex>,<hex>…` -/
def stepBoxp : List String → String
  | [bs, h, fo, a, b] =>
    match bs.toNat?, unhex h, fo.toNat?, a.toNat?, b.toNat? with
    | some bs, some d, some fo, some a, some b =>
      match Lines.findLine bs d fo with
      | .done => "done"
      | .found _ ps =>
        let parts := ps.map (Lines.Part.bytes d bs)
        if getBoxptrsOk parts a b then ptrsStr (getBoxptrs parts a b) else "panic"
    | _, _, _, _, _ => "bad-op"
  | _ => "bad-op"

end S4V.Drv
