import S4V.Model.Wire
import S4V.Model.JournalRender

namespace S4V.Drv.JournalRender
open S4V.Model S4V.Model.Wire S4V.Model.JournalRender S4V.Gen.JournalRender

def modeNamed (s : String) : Option Mode := allModes.find? fun m => modeName m = s

/-- `-` = no items; items separated by `,`; `.` = an empty item -/
def parseItems (s : String) : Option (List Bytes) :=
  if s = "-" then some [] else (s.splitOn ",").mapM fun w => if w = "." then some [] else unhex w

def optNat? (s : String) : Option (Option Nat) := if s = "none" then some none else s.toNat?.map some
def optHex? (s : String) : Option (Option Bytes) := if s = "none" then some none else (unhex s).map some

def showOutcome : Outcome → String
  | .found t => s!"found {hex t}"
  | .skip => "skip"
  | .stop => "stop"

/-- `jrender e <mode> <offset seconds> <cursor hex|none> <realtime µs> <monotonic µs|none> <items>` -> `found <hex>` | `skip` | `stop`
    `jrender fmt <pattern hex> <µs> <offset seconds>` -> `<hex>`   (chrono `format` of the instant in the zone)
    `jrender mono <µs>` -> `<hex>`                                  (`format!("{:>12.6}", µs as f64 / 1e6)`)
    `jrender run <mode> <offset> <n> e1… ` is not needed: `runReader = map render` is a theorem. -/
def stepJrender : List String → String
  | ["e", mode, off, cur, rt, mono, items] =>
    match modeNamed mode, parseInt? off, optHex? cur, rt.toNat?, optNat? mono, parseItems items with
    | some m, some off, some cur, some rt, some mono, some items =>
      showOutcome (render m off { cursor := cur, realtime := rt, monotonic := mono, data := items })
    | _, _, _, _, _, _ => "bad-op"
  | ["fmt", pat, us, off] =>
    match unhex pat, us.toNat?, parseInt? off with
    | some pat, some us, some off => hex (strftime (civilOf us off) pat)
    | _, _, _ => "bad-op"
  | ["mono", mu] =>
    match mu.toNat? with
    | some mu => hex (monoNumber mu)
    | none => "bad-op"
  | _ => "bad-op"

end S4V.Drv.JournalRender
