import S4V.Model.Wire
import S4V.Model.JournalSkel
import S4V.Gen.JournalSkel

namespace S4V.Drv.JournalSkel
open S4V.Model S4V.Model.Wire S4V.Model.JournalSkel

/-- `jrn <a|n> <b|n> t0,t1,…` (also `jskel …`) -> indices of the entries the worker REGENERATED from the source
(`S4V.Gen.JournalSkel.SKEL` run by the interpreter) sends, in that order; `!<result>` appended when the run does not
end with `FILEOK`. Same request and reply format as `S4V.Drv.stepJournal` (the hand model). -/
def stepJskel : List String → String
  | [a, b, ts] =>
    let opt (s : String) : Option (Option Int) := if s = "n" then some none else (parseInt? s).map some
    match opt a, opt b, (if ts = "-" then some [] else (ts.splitOn ",").mapM parseInt?) with
    | some a, some b, some tss =>
      let all : List (Item Nat) := tss.zipIdx.map fun (t, i) => .entry t true i
      let r := runWorker S4V.Gen.JournalSkel.SKEL true false a b all (fuelFor all)
      String.intercalate "," (r.sent.map toString) ++
        (match r.result with | .ok => "" | .ioErr => "!ioErr" | .analyzeErr => "!analyzeErr" | .fuelOut => "!fuelOut")
    | _, _, _ => "bad-op"
  | _ => "bad-op"

end S4V.Drv.JournalSkel
