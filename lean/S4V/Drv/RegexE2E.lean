/-
Driver op for the end-to-end regex slice (C04): the WHOLE per-row pipeline of the model on a line —
`S4V.Lemmas.RegexE2E.rowPipeline` = slice to `range_regex`, the row's generated regex (`search`), named groups →
buffer → chrono model. It answers the requests of the existing harness component `time` verbatim:
  time norm <row> <hex line> <fill year|n> <off s> [<group>=<hex> …]   -> instant ns | none | panic
(the `<group>=<hex>` fields, which `drv_time` uses INSTEAD of the regex, are ignored here), so
`s4h time --n N | grep '^time norm' | cut -f1 | drv_regexe2e` reproduces column 2: the real
`bytes_to_regex_to_datetime` on the real slice vs the model's regex + post-capture pipeline.
-/
import S4V.Model.Wire
import S4V.Lemmas.RegexE2ERow

namespace S4V.Drv.RegexE2E
open S4V.Model.Wire S4V.Model.Regex S4V.Model.DtParse S4V.Lemmas.RegexE2E
open S4V.Props.RegexCapture (capturesOf)
open S4V.Model.Ezcheck (lineSlice)

def optN (s : String) : Option (Option Int) := if s = "n" then some none else (parseInt? s).map some

def showOpt : Option Int → String
  | some t => toString t
  | none => "none"

def stepRegexE2E : List String → String
  | "norm" :: idx :: line :: fill :: off :: _ =>
    match idx.toNat?, unhex line, optN fill, parseInt? off with
    | some i, some line, some fill, some off =>
      match S4V.Gen.Regex.rows[i]? with
      | some row =>
        let slice := lineSlice line row.rangeStart (min line.length row.rangeEnd)
        match search row.re slice with
        | none => "none"
        | some res =>
          -- `panic` = `captures_to_buffer_bytes` panics (missing group, unknown month name, overflow)
          match capturesToBuffer row.dtfs (capturesOf row slice res.caps) (offString off) fill with
          | none => "panic"
          | some _ => showOpt (rowPipeline row line off fill)
      | none => "bad-row"
    | _, _, _, _ => "bad-op"
  | _ => "bad-op"

end S4V.Drv.RegexE2E
