/-
Driver op `cskel <nsources> <tok>…` (trace format of `vlib/coord_common.py`, hook H1): every observed event of
the real `processing_loop` is replayed through BOTH models — the hand transition system `Coord.step` and the
interpreter `CoordSkel.skelStep` of the skeleton regenerated from the source — and the two must agree on
enabledness and on the resulting state after every event.
  reply  `ok printed=<n> merged=<b> fin=<b> broke=<b>`          both accept the whole trace, same states
         `not-enabled <k>`                                        both refuse event k
         `models-disagree <k> hand=<some|none> skel=<some|none>`  the two models part at event k
-/
import S4V.Model.Wire
import S4V.Model.Coord
import S4V.Model.CoordSkel
import S4V.Gen.Coord

namespace S4V.Drv.CoordSkel
open S4V.Model.Wire S4V.Model

def parseTEv (t : String) : Option Coord.TEv :=
  match t.splitOn ":" with
  | ["RI", i, ok] => i.toNat?.map (fun i => .rI i (ok = "1"))
  | ["RM", i, dt] => match i.toNat?, parseInt? dt with
    | some i, some dt => some (.rM i dt)
    | _, _ => none
  | ["RS", i, ok] => i.toNat?.map (fun i => .rS i (ok = "1"))
  | ["RX", i] => i.toNat?.map (fun i => .rX i)
  | ["P", i, dt] => match i.toNat?, parseInt? dt with
    | some i, some dt => some (.p i dt)
    | _, _ => none
  | ["B"] => some .b
  | ["E"] => some .e
  | _ => none

/-- scripts = per-source subsequence of the observed receive events -/
def scriptsOf (n : Nat) (evs : List Coord.TEv) : List (List Coord.Datum) :=
  (List.range n).map fun i =>
    let ds := evs.filterMap fun
      | .rI j ok => if i = j then some (Coord.Datum.fileInfo ok) else none
      | .rM j dt => if i = j then some (Coord.Datum.msg ⟨dt, 0⟩) else none
      | .rS j ok => if i = j then some (Coord.Datum.summary ok) else none
      | _ => none
    (ds.foldl (fun (acc : List Coord.Datum × Nat) d =>
      match d with
      | .msg m => (acc.1 ++ [Coord.Datum.msg ⟨m.dt, acc.2⟩], acc.2 + 1)
      | d => (acc.1 ++ [d], acc.2)) ([], 0)).1

def sameSt (a b : Coord.St) : Bool :=
  decide (a.streams = b.streams) && decide (a.live = b.live) && decide (a.pending = b.pending) &&
  decide (a.fi = b.fi) && decide (a.printed = b.printed) && decide (a.errs = b.errs) &&
  decide (a.fin = b.fin) && decide (a.broke = b.broke)

inductive Out where
  | ok (s : Coord.St)
  | refused (k : Nat)
  | disagree (k : Nat) (hand skel : Bool)

/-- lock-step replay: the hand model's state is carried; the interpreter is run from the same state -/
def both : Coord.St → List Coord.TEv → Nat → Out
  | s, [], _ => .ok s
  | s, t :: ts, k =>
    match Coord.replay1 s t, CoordSkel.skelReplay1 S4V.Gen.Coord.SKEL s t with
    | some a, some b => if sameSt a b then both a ts (k + 1) else .disagree k true true
    | none, none => .refused k
    | some _, none => .disagree k true false
    | none, some _ => .disagree k false true

def stepCoordSkel : List String → String
  | n :: toks =>
    match n.toNat? with
    | none => "bad-op"
    | some n =>
      match toks.mapM parseTEv with
      | none => "bad-op"
      | some evs =>
        let scripts := scriptsOf n evs
        match both (Coord.init scripts) evs 0 with
        | .refused k => s!"not-enabled {k}"
        | .disagree k h sk => s!"models-disagree {k} hand={if h then "some" else "none"} skel={if sk then "some" else "none"}"
        | .ok s =>
          let merged := decide (s.printed = Coord.merge (scripts.map Coord.msgsOf))
          s!"ok printed={s.printed.length} merged={merged} fin={s.fin} broke={s.broke}"
  | _ => "bad-op"

end S4V.Drv.CoordSkel
