/-
Driver ops of the `lskel` component: every request is answered by the hand models
(`S4V.Model.Lines.findLine`, `S4V.Model.LinesCached.runOps`) AND by the interpreter of the regenerated
`find_line` (`S4V.Model.LineSkel`); the reply is the interpreter's when the two agree and a line naming
both otherwise, so that the correspondence compares real = hand = interpreter.

  lskel fresh <bs> <hex d> <fo>          -> done | found <next> <bo:bi_beg:bi_end,…>
  lskel hist <bs> <hex d> <f<fo>|d<fo>>… -> per op `found <next> <beg> <end>` | `done` | `drop`, joined by ';'
  lskel freshib <bs> <hex d> <fo>        -> done | found <next> <parts> | partial <parts>   (`find_line_in_block`:
                                            hand `findLineInBlock` AND the interpreter of `S4V.Gen.Lines2`)
  lskel hist2 <bs> <hex d> <f<fo>|i<fo>|d<fo>>… -> as `hist`, with `i` = `find_line_in_block`
                                            (`found <next> <beg> <end>` | `partial <parts>` | `done`) and `d` =
                                            `drop_line` from the regenerated facts
-/
import S4V.Model.Wire
import S4V.Model.LineSkel
import S4V.Model.LineSkel2

namespace S4V.Drv.LineSkel
open S4V.Model.Wire S4V.Model.Lines S4V.Model.LinesCached S4V.Model.LineSkel

def rStr : Option R → String
  | some .done => "done"
  | some (.found n b e) => s!"found {n} {b} {e}"
  | none => "drop"

def gStr : Option GRes → String
  | some .done => "done"
  | some (.found n b e _) => s!"found {n} {b} {e}"
  | some .panic => "panic"
  | some .nofuel => "nofuel"
  | some .fell => "fell"
  | none => "drop"

def parseOps (ops : List String) : Option (List Op) :=
  ops.mapM fun op =>
    let kind := (op.take 1).toString
    match (op.drop 1).toString.toNat? with
    | some fo => if kind = "f" then some (.find fo) else if kind = "d" then some (.drop fo) else none
    | none => none

def parseOps2 (ops : List String) : Option (List S4V.Model.LineSkel2.Op2) :=
  ops.mapM fun op =>
    let kind := (op.take 1).toString
    match (op.drop 1).toString.toNat? with
    | some fo =>
      if kind = "f" then some (.find fo) else if kind = "i" then some (.findib fo)
      else if kind = "d" then some (.drop fo) else none
    | none => none

open S4V.Model.LineSkel2 in
def stepLskel2 : List String → String
  | "freshib" :: bs :: h :: fo :: [] =>
    match bs.toNat?, unhex h, fo.toNat? with
    | some bs, some d, some fo =>
      let hand := (findLineInBlock bs d fo).toString
      let g := findLineInBlockG bs d empty fo
      let wfp := fun (ps : List GPart) => ps.all (fun p => p == ofPart bs p.toPart)
      let wf := match g.1 with
        | .res (.found _ b e ps) => wfp ps && b == gLineFoBeg ps && e == gLineFoEnd ps
        | .part ps => wfp ps
        | _ => true
      let gs := g.1.toString
      if hand = gs && wf then gs else s!"MISMATCH hand={hand} interp={gs} wf={wf}"
    | _, _, _ => "bad-op"
  | "hist2" :: bs :: h :: ops =>
    match bs.toNat?, unhex h, parseOps2 ops with
    | some bs, some d, some cops =>
      let hr := runOps2 bs d empty cops
      let gr := runOps2G bs d empty cops
      let hand := String.intercalate ";" (hr.1.map GResIB.short)
      let gs := String.intercalate ";" (gr.1.map GResIB.short)
      let same := gr.2 == hr.2
      if hand = gs && same then gs else s!"MISMATCH hand={hand} interp={gs} stores-equal={same}"
    | _, _, _ => "bad-op"
  | _ => "bad-op"

def stepLskel : List String → String
  | "freshib" :: rest => stepLskel2 ("freshib" :: rest)
  | "hist2" :: rest => stepLskel2 ("hist2" :: rest)
  | "fresh" :: bs :: h :: fo :: [] =>
    match bs.toNat?, unhex h, fo.toNat? with
    | some bs, some d, some fo =>
      let hand := (findLine bs d fo).toString
      let g := findLineG bs d empty fo
      let wf := match g.1 with
        | .found _ b e ps => ps.all (fun p => p == ofPart bs p.toPart) && b == gLineFoBeg ps && e == gLineFoEnd ps
        | _ => true
      let gs := g.1.toString
      if hand = gs && wf then gs else s!"MISMATCH hand={hand} interp={gs} wf={wf}"
    | _, _, _ => "bad-op"
  | "hist" :: bs :: h :: ops =>
    match bs.toNat?, unhex h, parseOps ops with
    | some bs, some d, some cops =>
      let hand := String.intercalate ";" ((runOps d empty cops).1.map rStr)
      let env : Env := { bs := bs, d := d, checkStore := S4V.Gen.Lines.checkStore }
      let g := runOpsG S4V.Gen.Lines.findLine env empty cops
      let gs := String.intercalate ";" (g.1.map gStr)
      let same := g.2 == (runOps d empty cops).2
      if hand = gs && same then gs else s!"MISMATCH hand={hand} interp={gs} stores-equal={same}"
    | _, _, _ => "bad-op"
  | _ => "bad-op"

end S4V.Drv.LineSkel
