/-
Driver ops of component `walk` (see harness/src/c_walk.rs for the wire format):
  walk tree <spec>            → `;`-joined `<hex relative path>=<outcome>`
  walk named <hex> <hex|->    → outcome of naming the file (through a link when a target is given)
The hidden-entry flag is the generated `walkIncludesHidden`.
-/
import S4V.Gen.WalkTar
import S4V.Model.Wire
import S4V.Model.Walk

namespace S4V.Drv.Walk
open S4V.Model S4V.Model.Wire S4V.Model.Walk S4V.Model.Path S4V.Model.PathTypes
open S4V.Gen.PathTables

/-- prefix decoding with fuel (= number of tokens) -/
def decNode : Nat → List String → Option (Node × List String)
  | 0, _ => none
  | _, [] => none
  | fuel + 1, t :: rest =>
    let rec decNodes (k : Nat) (toks : List String) : Option (List Node × List String) :=
      match k with
      | 0 => some ([], toks)
      | k + 1 =>
        match decNode fuel toks with
        | none => none
        | some (n, toks') =>
          match decNodes k toks' with
          | none => none
          | some (ns, toks'') => some (n :: ns, toks'')
    match t.splitOn ":" with
    | ["F", n] => (unhex n).map fun n => (Node.file n, rest)
    | ["LF", n, _t] => (unhex n).map fun n => (Node.file n, rest)
    | ["D", n, k] =>
      match unhex n, k.toNat? with
      | some n, some k => (decNodes k rest).map fun (cs, r) => (Node.dir n cs, r)
      | _, _ => none
    | ["LD", n, _t, k] =>
      match unhex n, k.toNat? with
      | some n, some k => (decNodes k rest).map fun (cs, r) => (Node.dir n cs, r)
      | _, _ => none
    | _ => none

def decodeSpec (spec : String) : Option Node :=
  match spec.splitOn "," with
  | k :: toks =>
    match k.toNat? with
    | none => none
    | some k =>
      -- the root: a directory with `k` children; its own name never matters
      match decNode (toks.length + 2) (s!"D:-:{k}" :: toks) with
      | some (n, []) => some n
      | _ => none
  | [] => none

def outcomeStr : Outcome → String
  | .valid r => r.toString
  | .notSupported => "NotSupported"
  | .tar _ => "Err"          -- harness files named `*.tar` hold non-tar bytes
  | .nofuel => "nofuel"

def stepWalk : List String → String
  | ["tree", spec] =>
    match decodeSpec spec with
    | none => "bad-op"
    | some t =>
      let es := expandDirAll walkIncludesHidden t
      if S4V.Gen.WalkTar.tarOpenUnwraps && es.any tarOpenPanics then
        "panic called `Result::unwrap()` on an `Err` value: Os { code: 2, kind: NotFound, message: \"No such file or directory\" }"
      else if es.isEmpty then "-" else
      String.intercalate ";" (es.map fun e =>
        hex (toStringLossy (joinPath (e.path.drop 1))) ++ "=" ++ outcomeStr e.out)
  | ["named", n, t] =>
    match unhex n, (if t = "-" then some none else (unhex t).map some) with
    | some n, some t => outcomeStr (classifyNamed [n] (t.getD n)).out
    | _, _ => "bad-op"
  | _ => "bad-op"

end S4V.Drv.Walk
