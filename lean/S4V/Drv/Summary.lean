/-
Driver ops for the regenerated `--summary` accounting (`S4V.Model.Summary`, program `SRC`):

  summ upd <op>…        op = `<pid>,<kind>,<nlines>,<printed>,<flushed>,<dt>`; kind = s | f | e | j (text, fixedstruct, evtx,
                        journal); for every op, in order, the `mapUpdate` and `totalUpdate` atoms of the regenerated arm
                        `LOOP kind` are run with the locals `printed`, `flushed` as given (what `processing_loop` does after a
                        print call that returned them), starting from `SummaryPrinted::default()` and an empty map
      → `T <c> | <pid>:<c> | …`   c = `bytes,flushed,lines,syslines,fixedstruct,evtx,journal,first,last` (`-` = None); the
                        per-file entries in ascending pid order (iteration order of the `BTreeMap`)
  summ evtx <after> <before> <ts>…   `EvtxReader::analyze` bookkeeping over the record timestamps (`-` = no bound)
      → `processed accepted firstProcessed lastProcessed firstAccepted lastAccepted`
-/
import S4V.Model.Wire
import S4V.Model.Summary

namespace S4V.Drv.Summary
open S4V.Model.Wire S4V.Model.Print S4V.Model.Summary S4V.Gen.Summary

def kindOf? : String → Option Kind
  | "s" => some .sysline
  | "f" => some .fixedstruct
  | "e" => some .evtx
  | "j" => some .journal
  | _ => none

structure Op where
  pid : Nat
  k : Kind
  nlines : Nat
  printed : Nat
  flushed : Nat
  dt : Int

def nat? (s : String) : Option Nat := s.toNat?

def parseOp (s : String) : Option Op :=
  match s.splitOn "," with
  | [a, b, c, d, e, f] => do
    let pid ← nat? a
    let k ← kindOf? b
    let n ← nat? c
    let p ← nat? d
    let fl ← nat? e
    let dt ← parseInt? f
    pure ⟨pid, k, n, p, fl, dt⟩
  | _ => none

def isUpd : Atom → Bool
  | .mapUpdate .. => true
  | .totalUpdate .. => true
  | _ => false

def stepOp (a : Acct) (o : Op) : Acct :=
  let cx : Ctx := ⟨[], true, false, true, o.pid, o.nlines, o.dt, none⟩
  let st : LState := { printed := o.printed, flushed := o.flushed, acct := a }
  (((SRC.loop (kOf o.k)).filter (fun g => isUpd g.atom)).foldl (fun st g => runAtom SRC cx st g.atom) st).acct

def showOpt : Option Int → String
  | none => "-"
  | some i => toString i

def showSp (s : SumPr) : String :=
  s!"{s.bytes},{s.flushed},{s.lines},{s.syslines},{s.fixedstructentries},{s.evtxentries},{s.journalentries},{showOpt s.dtFirst},{showOpt s.dtLast}"

def insertSorted (x : Nat × SumPr) : List (Nat × SumPr) → List (Nat × SumPr)
  | [] => [x]
  | y :: r => if x.1 ≤ y.1 then x :: y :: r else y :: insertSorted x r

def sortPid (l : List (Nat × SumPr)) : List (Nat × SumPr) := l.foldl (fun acc x => insertSorted x acc) []

def optBound? (s : String) : Option (Option Int) := if s = "-" then some none else (parseInt? s).map some

def stepSummary : List String → String
  | "upd" :: ops =>
    match ops.mapM parseOp with
    | none => "bad-op"
    | some os =>
      let a := os.foldl stepOp ({} : Acct)
      String.intercalate " | " (("T " ++ showSp a.total) :: (sortPid a.perFile).map (fun x => s!"{x.1}:{showSp x.2}"))
  | "evtx" :: a :: b :: tss =>
    match optBound? a, optBound? b, tss.mapM parseInt? with
    | some a, some b, some ts =>
      let t := analyze EVTX_ANALYZE a b ts {}
      s!"{t.processed} {t.accepted} {showOpt t.firstProcessed} {showOpt t.lastProcessed} {showOpt t.firstAccepted} {showOpt t.lastAccepted}"
    | _, _, _ => "bad-op"
  | _ => "bad-op"

end S4V.Drv.Summary
