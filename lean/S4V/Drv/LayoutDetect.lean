/-
Driver ops of the `layout` component (see harness/src/c_layout.rs for the wire format):

  layout score <FixedStructType variant> <bonus> <hex record>
      → bad-layout | bad-size | none (all 0x00 / all 0xFF) | overread | score <n>
  layout file <kind> <hex file>
      → ERR Empty | ERR TooSmall | ERR NoValid - | overread-risk
      | <verdict> <variant>=<high_score>,…      (candidates in insertion order of `filesz_to_types`)
        verdict = OK <variant> <score> | ERR NoValid      (ordered candidate set: `newOutcome`)
                | TIE <score> <v1>|<v2>…                  (only when the generated set is unordered)
-/
import S4V.Model.Wire
import S4V.Model.LayoutDetect

namespace S4V.Drv.LayoutDetect
open S4V.Model.Wire S4V.Model.LayoutDetect S4V.Gen.LayoutDetect

def kindOf : String → Option Kind
  | "Acct" => some .acct
  | "AcctV3" => some .acctV3
  | "Lastlog" => some .lastlog
  | "Lastlogx" => some .lastlogx
  | "Utmp" => some .utmp
  | "Utmpx" => some .utmpx
  | _ => none

def stepLayout : List String → String
  | ["score", name, bonus, h] =>
    match layoutNamed name, parseInt? bonus, unhex h with
    | some l, some b, some rec =>
      if rec.length ≠ l.size then "bad-size"
      else if isNullRec rec then "none"
      else if overreads l rec then "overread"
      else s!"score {scoreRecord l b rec}"
    | none, _, _ => "bad-layout"
    | _, _, _ => "bad-op"
  | ["file", kind, h] =>
    match kindOf kind, unhex h with
    | some k, some file =>
      if file.length = 0 then "ERR Empty"
      else if file.length < ENTRY_SZ_MIN then "ERR TooSmall"
      else
        match fileszToTypes k file.length with
        | none => "ERR NoValid -"
        | some cs =>
          if fileOverreadRisk file cs then "overread-risk" else
          let scores := cs.map (fun c => (c.1, candScore file c))
          let lst := String.intercalate "," (scores.map (fun p => s!"{p.1}={p.2}"))
          if setIsOrdered then
            match newOutcome k file with
            | .ok n sc => s!"OK {n} {sc} {lst}"
            | _ => s!"ERR NoValid {lst}"
          else
          let m := maxScore file cs
          match winners file cs with
          | [] => s!"ERR NoValid {lst}"
          | [w] => if hasTimed w file then s!"OK {w} {m} {lst}" else s!"ERR NoValid {lst}"
          | ws => s!"TIE {m} {String.intercalate "|" ws} {lst}"
    | _, _ => "bad-op"
  | _ => "bad-op"

end S4V.Drv.LayoutDetect
