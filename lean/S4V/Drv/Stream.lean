/-
Driver op `asm`: what `S4V.Model.Stream` answers for a sequence of `read_block` calls.

request  asm <kind> <bs> <hex d> <order> <segs> <recipe…>
reply    fsz=<filesz_actual> <r,r,..> high=<blocks_highest> nread=<blocks_read.len()>
         r = <len>:<fnv1a-64>[!] | done | err | panic (sequence stops after panic)

For gz / bz2 the chunk script is empty (full reads): the answer is chunking independent
(`S4V.Props.StreamSpec.assemble_eq`). For lz4 the answer as coded depends on it; the script is
computed from `<segs>` — the decompressed lengths of the frame's blocks, which is where
lz4_flex's `FrameDecoder::read` returns short.
-/
import S4V.Model.Wire
import S4V.Model.Stream

namespace S4V.Drv.Stream
open S4V.Model S4V.Model.Wire S4V.Model.Stream S4V.Gen.Blocks

def fnv1a (b : List UInt8) : UInt64 :=
  b.foldl (fun h x => (h ^^^ x.toUInt64) * 0x100000001b3) 0xcbf29ce484222325

def hex16 (n : UInt64) : String :=
  let ds := Nat.toDigits 16 n.toNat
  String.ofList (List.replicate (16 - ds.length) '0' ++ ds)

def parseKind : String → Option Kind
  | "plain" => some .plain | "gz" => some .gz | "bz2" => some .bz2
  | "lz4" => some .lz4 | "xz" => some .xz | "tar" => some .tar
  | _ => none

def parseList (s : String) : Option (List Nat) :=
  if s = "-" then some [] else (s.splitOn ",").mapM (·.toNat?)

/-- sizes lz4_flex returns for the one `read` per block when blocks `0, 1, …` are decoded in
order: `min need (what is left of the current frame block)` -/
def lz4Script (bs fsz : Nat) : Nat → Nat → List Nat → List Nat
  | 0, _, _ => []
  | n + 1, bo, segs =>
    match segs with
    | [] => []
    | s :: rest =>
      let need := blockSzAtBlockOffset bo (blockOffsetLast fsz bs) bs fsz
      let c := min need s
      c :: lz4Script bs fsz n (bo + 1) (if s - c = 0 then rest else (s - c) :: rest)

def showRes (d : List UInt8) (bs : Nat) (k : Nat) : Res → String
  | .found b => s!"{b.length}:{hex16 (fnv1a b)}{if b = Lines.blockAt d bs k then "" else "!"}"
  | .done => "done"
  | .err => "err"
  | .panic => "panic"

def cutAtPanic : List Res → List Res
  | [] => []
  | .panic :: _ => [.panic]
  | r :: rs => r :: cutAtPanic rs

def stepAsm : List String → String
  | kind :: bs :: h :: order :: segs :: _ =>
    match parseKind kind, bs.toNat?, unhex h, parseList order, parseList segs with
    | some kind, some bs, some d, some order, some segs =>
      if bs = 0 then "bad-op" else
      let cs := if kind = .lz4 then lz4Script bs d.length (d.length / bs + 2) 0 segs else []
      let r0 := Rd.new kind bs d cs []
      let p := readSeq r0 order
      let rs := cutAtPanic p.1
      let body := if rs.isEmpty then "-" else String.intercalate "," ((rs.zip order).map fun (r, k) => showRes d bs k r)
      s!"fsz={r0.fsz} {body} high={p.2.high} nread={p.2.blocksRead.length}"
    | _, _, _, _, _ => "bad-op"
  | _ => "bad-op"

end S4V.Drv.Stream
