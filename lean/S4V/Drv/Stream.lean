/-
Driver op `asm`: what `S4V.Model.Stream` answers for a sequence of `read_block` calls.

request  asm <kind> <bs> <hex d> <order> <segs> <recipe…>
reply    fsz=<filesz_actual> <r,r,..> high=<blocks_highest> nread=<blocks_read.len()>
         r = <len>:<fnv1a-64>[!] | done | err | panic (sequence stops after panic)

For gz / bz2 the chunk script is empty (full reads): the answer is chunking independent
(`S4V.Props.StreamSpec.assemble_eq`). For lz4 the script is computed from `<segs>` — the
decompressed lengths of the frame's blocks, which is where lz4_flex's `FrameDecoder::read` returns
short — for the reads that `read_block_FileLz4` makes according to the generated `LZ4_FILL_LOOP`:
with the fill loop the answer is chunking independent too (`assemble_eq_lz4`); with the single read
(the source before the repair) it is not, and the script is what decides the predicted bytes.
-/
import S4V.Model.Wire
import S4V.Model.Stream
import S4V.Model.StreamSearch

namespace S4V.Drv.Stream
open S4V.Model S4V.Model.Wire S4V.Model.Stream S4V.Gen.Blocks S4V.Gen.Stream S4V.Model.StreamSearch

def fnv1a (b : List UInt8) : UInt64 :=
  b.foldl (fun h x => (h ^^^ x.toUInt64) * 0x100000001b3) 0xcbf29ce484222325

def hex16 (n : UInt64) : String :=
  let ds := Nat.toDigits 16 n.toNat
  String.ofList (List.replicate (16 - ds.length) '0' ++ ds)

def parseKind : String → Option Kind
  | "plain" => some .plain | "gz" => some .gz | "bz2" => some .bz2
  | "lz4" => some .lz4 | "xz" => some .xz | "tar" => some .tar
  | _ => none

def parseList (s : String) : Option (List Nat) :=
  if s = "-" then some [] else (s.splitOn ",").mapM (·.toNat?)

/-- sizes lz4_flex returns for the `read` calls made while blocks `0, 1, …` are decoded in order:
each read returns `min (what the block still lacks) (what is left of the current frame block)`.
`fillLoop`: a short read is followed by another read for the same block (`got` bytes already in
it); otherwise there is one read per block. -/
def lz4Script (fillLoop : Bool) (bs fsz : Nat) : Nat → Nat → Nat → List Nat → List Nat
  | 0, _, _, _ => []
  | n + 1, bo, got, segs =>
    match segs with
    | [] => []
    | s :: rest =>
      let need := blockSzAtBlockOffset bo (blockOffsetLast fsz bs) bs fsz - got
      let c := min need s
      let segs' := if s - c = 0 then rest else (s - c) :: rest
      if fillLoop && decide (c < need) then c :: lz4Script fillLoop bs fsz n bo (got + c) segs'
      else c :: lz4Script fillLoop bs fsz n (bo + 1) 0 segs'

def showRes (d : List UInt8) (bs : Nat) (k : Nat) : Res → String
  | .found b => s!"{b.length}:{hex16 (fnv1a b)}{if b = Lines.blockAt d bs k then "" else "!"}"
  | .done => "done"
  | .err => "err"
  | .panic => "panic"

def cutAtPanic : List Res → List Res
  | [] => []
  | .panic :: _ => [.panic]
  | r :: rs => r :: cutAtPanic rs

def stepAsm : List String → String
  | kind :: bs :: h :: order :: segs :: _ =>
    match parseKind kind, bs.toNat?, unhex h, parseList order, parseList segs with
    | some kind, some bs, some d, some order, some segs =>
      if bs = 0 then "bad-op" else
      let cs := if kind = .lz4 then lz4Script LZ4_FILL_LOOP bs d.length (d.length / bs + 2 + segs.length) 0 0 segs else []
      let r0 := Rd.new kind bs d cs []
      let p := readSeq r0 order
      let rs := cutAtPanic p.1
      let body := if rs.isEmpty then "-" else String.intercalate "," ((rs.zip order).map fun (r, k) => showRes d bs k r)
      s!"fsz={r0.fsz} {body} high={p.2.high} nread={p.2.blocksRead.length}"
    | _, _, _, _, _ => "bad-op"
  | _ => "bad-op"

/-! ### op `strm`: the `is_streamed_file` table and what the readers above do with it

request  strm flag <ft> <arch>
reply    streamed=<bool> (generated `IS_STREAMED_TABLE`) | unopenable (file types `read_block`'s dispatch
         answers with `panic!`: Evtx, Journal, Unparsable — `BlockReader::new` refuses them as well)

request  strm seq <kind> <bs> <hex d> <keep 0|1> <order> <recipe…>
reply    as `asm`; keep = 1: `disable_drop_data()` right after `new`. The chunk script is empty: with the
         generated fill loops the answer is chunking independent (`assemble_eq_*`).

request  strm proc <kind> <bs> <y|n> <A|n> <B|n> <recipe> <hex d>
reply    same drop=<bool> streamed=<bool>: the container yields the plain file's messages (C05), the flag is
         the table's for `FileType::Text`, and `drop_data` after block-zero analysis is off exactly under the
         generated `keepAllBlocks` condition. -/

def archOfKind : String → String
  | "plain" => "Normal" | "gz" => "Gz" | "bz2" => "Bz2" | "lz4" => "Lz4" | "xz" => "Xz" | "tar" => "Tar"
  | s => s

def stepStrm : List String → String
  | ["flag", ft, arch] =>
    let arch := if arch = "-" then "" else arch
    match READ_BLOCK_DISPATCH.find? (fun r => r.1 == ft && (r.2.1 == arch || r.2.1 == "_")) with
    | none => "bad-op"
    | some (_, _, fn) =>
      if fn = "panic" then "unopenable"
      else match isStreamed ft arch with
        | some b => s!"streamed={b}"
        | none => "bad-op"
  | "seq" :: kind :: bs :: h :: keep :: order :: _ =>
    match parseKind kind, bs.toNat?, unhex h, parseList order with
    | some kind, some bs, some d, some order =>
      if bs = 0 then "bad-op" else
      let r0 := Rd.new kind bs d [] []
      let r1 := if keep = "1" then r0.disableDropData else r0
      let p := readSeq r1 order
      let rs := cutAtPanic p.1
      let body := if rs.isEmpty then "-" else String.intercalate "," ((rs.zip order).map fun (r, k) => showRes d bs k r)
      s!"fsz={r0.fsz} {body} high={p.2.high} nread={p.2.blocksRead.length}"
    | _, _, _, _ => "bad-op"
  | "proc" :: kind :: _bs :: y :: _ =>
    match isStreamed "Text" (archOfKind kind) with
    | some s => s!"same drop={!(keepAllBlocks s (y == "y"))} streamed={s}"
    | none => "bad-op"
  | _ => "bad-op"

end S4V.Drv.Stream
