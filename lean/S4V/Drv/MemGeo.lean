/-
Driver op for the stage-3 counting models (`S4V.Model.Mem`, `S4V.Model.MemSkip`):

  memgeo <plain|streamed> <skip|noskip> <prompt|lagging> <msg>…
      msg = the lines of one message, `f:l` (first and last block the line touches) joined by `,`
      → `<blocks high> <lines high> <syslines high>` of `runS` (skip) / `run` (noskip)
      → `bad-arg` when a token does not parse

`vlib/props/C17.py` derives the geometry of a generated file (line offsets / block size), asks for the marks
and compares them with the `blocks high` / `lines high` / `syslines high` of `s4 --summary`.
-/
import S4V.Model.Wire
import S4V.Model.Mem
import S4V.Model.MemSkip

namespace S4V.Drv.MemGeo
open S4V.Model.Mem S4V.Model.MemSkip

def parseLn (s : String) : Option Ln :=
  match s.splitOn ":" with
  | [a, b] => do
    let f ← a.toNat?
    let l ← b.toNat?
    pure ⟨f, l⟩
  | _ => none

def parseMsg (s : String) : Option Msg := (s.splitOn ",").mapM parseLn

def stepMemGeo : List String → String
  | kind :: skip :: cons :: rest =>
    match rest.mapM parseMsg with
    | none => "bad-arg"
    | some msgs =>
      let streamed? : Option Bool := if kind = "plain" then some false else if kind = "streamed" then some true else none
      let lag? : Option (Nat → Nat) := if cons = "prompt" then some prompt else if cons = "lagging" then some lagging else none
      match streamed?, lag? with
      | some streamed, some lag =>
        let st? : Option St :=
          if skip = "skip" then some (runS streamed lag msgs) else if skip = "noskip" then some (run streamed lag msgs) else none
        match st? with
        | some st => s!"{st.bHigh} {st.lHigh} {st.sHigh}"
        | none => "bad-arg"
      | _, _ => "bad-arg"
  | _ => "bad-arg"

end S4V.Drv.MemGeo
