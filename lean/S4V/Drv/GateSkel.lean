/-
Driver op of the `gate` correspondence, third party: the INTERPRETER of the regenerated gate skeleton
(`S4V.Model.GateSkel.gateSkel`) answers the same `gate <bs> <hex d>` requests as the real
`SyslogProcessor` stages 0-1 and the hand model (`drv`). The request does not say how many datetime
patterns matched in pass one, so the interpreter is run both ways (`multi = false / true`); the two
must agree (`gateSkel_pass2_irrelevant`), otherwise the reply is `pass2-dependent`.
-/
import S4V.Model.Wire
import S4V.Model.Time
import S4V.Model.GateSkel

namespace S4V.Drv.GateSkel
open S4V.Model.Wire S4V.Model

def stepGskel : List String → String
  | [bs, h] =>
    match bs.toNat?, unhex h with
    | some bs, some d =>
      let a := GateSkel.gateSkel false Time.parseHead bs d
      let b := GateSkel.gateSkel true Time.parseHead bs d
      if a = b then a.toString else "pass2-dependent"
    | _, _ => "bad-op"
  | _ => "bad-op"

end S4V.Drv.GateSkel
