/-
Driver ops for the worker skeletons (`S4V.Model.WorkerProto`):

  wproto check <kind> <tok>…   kind = text | fixed | evtx | journal;  toks = what the coordinator received from that
                               worker (H1 trace): `I0`/`I1` FileInfo(err/ok), `M` NewMessage (the trace does not record
                               `is_last`: either value), `M0`/`M1` NewMessage with the flag, `S0`/`S1` FileSummary(err/ok),
                               `X` = channel closed without summary (only as the last token)
      → `ok`              a complete run of `exec_fileprocessor_thread` for that kind produces exactly this
        `ok-cut`          only a run ended by a panic does (the thread died; builds that unwind)
        `not-producible`  no run of the skeleton sends this
  wproto enum <kind> <n>       → number of traces with ≤ n iterations per loop, whether `accepts` takes them all, whether
                               all are tidy
-/
import S4V.Model.Wire
import S4V.Model.WorkerProto

namespace S4V.Drv.WorkerProto
open S4V.Gen.Worker S4V.Model.WorkerProto

/-- an observed datum; `none` flag = not recorded -/
inductive Obs where
  | info (ok : Bool)
  | msg (f : Option Bool)
  | sum (ok : Bool)
  deriving DecidableEq, Repr

def obsMatches : Obs → Ev → Bool
  | .info a, .fileInfo b => a == b
  | .msg none, .msg _ => true
  | .msg (some a), .msg b => a == b
  | .sum a, .summary b => a == b
  | _, _ => false

/-- monitor: what is left of the observation -/
def obsMon : Mon (Option (List Obs)) where
  step
    | some (o :: r), e => if obsMatches o e then some r else none
    | _, _ => none

def envOf : String → Option Env
  | "text" => some ⟨.text, false⟩
  | "fixed" => some ⟨.fixedStruct, false⟩
  | "evtx" => some ⟨.evtx, false⟩
  | "journal" => some ⟨.journal, true⟩
  | _ => none

def parseObs : List String → Option (List Obs × Bool)
  | [] => some ([], false)
  | ["X"] => some ([], true)
  | w :: r =>
    let o : Option Obs := match w with
      | "I0" => some (.info false) | "I1" => some (.info true)
      | "M" => some (.msg none) | "M0" => some (.msg (some false)) | "M1" => some (.msg (some true))
      | "S0" => some (.sum false) | "S1" => some (.sum true)
      | _ => none
    match o, parseObs r with
    | some o, some (l, x) => some (o :: l, x)
    | _, _ => none

def check (env : Env) (obs : List Obs) : String :=
  match post obsMon env (4 * obs.length + 200) workerThread [(some obs, initStore)] with
  | some r =>
    if (r.normal ++ r.ret).any (fun c => c.1 == some []) then "ok"
    else if r.cut.any (fun c => c.1 == some []) then "ok-cut"
    else "not-producible"
  | none => "analysis-failed"

def evToObs : Ev → Obs
  | .fileInfo b => .info b
  | .msg b => .msg (some b)
  | .summary b => .sum b

def stepWorkerProto : List String → String
  | "check" :: kind :: toks =>
    match envOf kind, parseObs toks with
    | some env, some (obs, _) => check env obs
    | _, _ => "bad-request"
  | ["enum", kind, n] =>
    match envOf kind, n.toNat? with
    | some env, some n =>
      let ts := enumerate env workerThread n
      s!"n={ts.length} accepted={ts.all (fun t => check env (t.map evToObs) == "ok")} tidy={ts.all tidy}"
    | _, _ => "bad-request"
  | _ => "bad-op"

end S4V.Drv.WorkerProto
