/-
Driver ops for the time slice (C04, C11).

  time civil <days>                       -> "<y> <m> <d>"
  time days <y> <m> <d>                   -> "<days>" | "invalid"
  time year <mtime_s> <off_s> <after_s|n> <mo>:<day>:<sod>,...   -> "<t|n>,<t|n>,..."   (file order)
  time yearx <mtime_s> <off_s> <after_s|n> <lead> <mo>:<day>:<sod>,... [<cont> <bs>]   -> same; lead = number of lines
                                          without a timestamp before the first message; the trailing fields are for the
                                          implementation side (in-process correspondence with the real `SyslogProcessor`,
                                          harness c_year.rs)
  time norm / time parse                  -> see `S4V.Drv.TimeNorm` (added by the DtParse part)
-/
import S4V.Model.Wire
import S4V.Model.Time
import S4V.Model.Year
import S4V.Model.DtParse

namespace S4V.Drv.Time
open S4V.Model S4V.Model.Wire

def parseMsg (s : String) : Option Year.Msg :=
  match s.splitOn ":" with
  | [a, b, c] =>
    match parseInt? a, parseInt? b, parseInt? c with
    | some a, some b, some c => some ⟨a, b, c⟩
    | _, _, _ => none
  | _ => none

def optN (s : String) : Option (Option Int) := if s = "n" then some none else (parseInt? s).map some

def showOpt : Option Int → String
  | some t => toString t
  | none => "n"

def stepYear : List String → String
  | [mt, off, after, msgs] =>
    match parseInt? mt, parseInt? off, optN after, (if msgs = "-" then some [] else (msgs.splitOn ",").mapM parseMsg) with
    | some mt, some off, some after, some ms =>
      let r := Year.processMissingYear off (Year.yearOfInstant off mt) ms after
      if r.isEmpty then "-" else String.intercalate "," (r.map showOpt)
    | _, _, _, _ => "bad-op"
  | _ => "bad-op"

def stepYearX : List String → String
  | mt :: off :: after :: lead :: msgs :: _impl =>
    match parseInt? mt, parseInt? off, optN after, lead.toNat?,
        (if msgs = "-" then some [] else (msgs.splitOn ",").mapM parseMsg) with
    | some mt, some off, some after, some lead, some ms =>
      let r := Year.processMissingYearL (decide (0 < lead)) off (Year.yearOfInstant off mt) ms after
      if r.isEmpty then "-" else String.intercalate "," (r.map showOpt)
    | _, _, _, _, _ => "bad-op"
  | _ => "bad-op"

def stepCal : List String → Option String
  | ["civil", z] =>
    some <| match parseInt? z with
    | some z => let r := Time.civilFromDays z; s!"{r.1} {r.2.1} {r.2.2}"
    | none => "bad-op"
  | ["days", y, m, d] =>
    some <| match parseInt? y, parseInt? m, parseInt? d with
    | some y, some m, some d => if Time.validDate y m d then toString (Time.daysFromCivil y m d) else "invalid"
    | _, _, _ => "bad-op"
  | "year" :: rest => some (stepYear rest)
  | "yearx" :: rest => some (stepYearX rest)
  | _ => none

/-! `time norm <row> <hex line> <fill year|n> <off s> <group>=<hex> …` -> instant ns | none
(the line is for the implementation side only; the model gets the field values)
`time parse <hex pattern> <0|1 has_tz> <off s> <hex buf>` -> instant ns | none -/

def setCap (c : DtParse.Captures) (kv : String) : Option DtParse.Captures :=
  match kv.splitOn "=" with
  | [k, v] =>
    match unhex v with
    | none => none
    | some b =>
      if k = "year" then some { c with year := some b }
      else if k = "month" then some { c with month := some b }
      else if k = "day" then some { c with day := some b }
      else if k = "hour" then some { c with hour := some b }
      else if k = "minute" then some { c with minute := some b }
      else if k = "second" then some { c with second := some b }
      else if k = "fractional" then some { c with fractional := some b }
      else if k = "tz" then some { c with tz := some b }
      else if k = "epoch" then some { c with epoch := some b }
      else none
  | _ => none

def stepNorm : List String → String
  | idx :: _line :: fill :: off :: kvs =>
    match idx.toNat?, optN fill, parseInt? off, kvs.foldlM setCap ({} : DtParse.Captures) with
    | some i, some fill, some off, some caps =>
      match S4V.Gen.TimeTables.rows[i]? with
      | some row =>
        -- `panic` = `captures_to_buffer_bytes` panics (missing group, unknown month name, overflow)
        match DtParse.capturesToBuffer row.dtfs caps (DtParse.offString off) fill with
        | none => "panic"
        | some buf => showOptNone (DtParse.parseBuf row.dtfs.pattern (DtParse.hasTz row.dtfs) off buf)
      | none => "bad-row"
    | _, _, _, _ => "bad-op"
  | _ => "bad-op"
where showOptNone : Option Int → String
  | some t => toString t
  | none => "none"

def stepParse : List String → String
  | [pat, tz, off, buf] =>
    match unhex pat, parseInt? off, unhex buf with
    | some pat, some off, some buf =>
      match DtParse.parseBuf pat (tz = "1") off buf with
      | some t => toString t
      | none => "none"
    | _, _, _ => "bad-op"
  | _ => "bad-op"

def stepTime : List String → String
  | "norm" :: rest => stepNorm rest
  | "parse" :: rest => stepParse rest
  | ws => (stepCal ws).getD "bad-op"

end S4V.Drv.Time
