/-
Driver ops for the CLI datetime-argument model (C14). String operands are the
lowercase hex of their UTF-8 bytes (`-` = empty string), `~` = argument absent.

  cli tz <hex>                      -> ok <offset secs> | err
  cli dur <hex>                     -> some <secs> now|other | none | panic | exit
  cli dt <hex> <tz> <other> <now>   -> some <secs> <subsec ns> <offset secs> | none | panic | exit | bad-tz
       <tz> a --tz-offset value (e.g. +05:30); <other> `-` | <epoch ns> | <epoch ns>/<offset secs>; <now> epoch ns
  cli ab <hexA|~> <hexB|~> <tz> <now>
                                    -> ok <a> <b> (each `-` or secs.subsec.offset) | reject <reason>
-/
import S4V.Model.Wire
import S4V.Model.Cli

open S4V.Model S4V.Model.Wire S4V.Model.Cli

namespace S4V.Drv.Cli

def unhexStr (h : String) : Option String :=
  match unhex h with
  | some bs => String.fromUTF8? ⟨bs.toArray⟩
  | none => none

def optStr (h : String) : Option (Option String) :=
  if h = "~" then some none else (unhexStr h).map some

def parseOther (s : String) (tz : Int) : Option (Option DT) :=
  if s = "-" then some none else
  match s.splitOn "/" with
  | [ns] => (parseInt? ns).map fun ns => some (DT.ofNs ns tz)
  | [ns, off] =>
    match parseInt? ns, parseInt? off with
    | some ns, some off => some (some (DT.ofNs ns off))
    | _, _ => none
  | _ => none

def showDT (d : DT) : String := s!"{d.sec}.{d.frac}.{d.off}"
def showOpt : Option DT → String
  | some d => showDT d
  | none => "-"

def showReject : Reject → String
  | .bothRelative => "both-relative"
  | .unparsableAfter => "unparsable-after"
  | .unparsableBefore => "unparsable-before"
  | .otherUnset => "other-unset"
  | .afterGtBefore => "after-gt-before"
  | .durExit => "dur-exit"
  | .panic => "panic"

def showResult : Result → String
  | .some d => s!"some {d.sec} {d.frac} {d.off}"
  | .none => "none"
  | .exit => "exit"
  | .panic => "panic"

end S4V.Drv.Cli

open S4V.Drv.Cli in
def stepCli : List String → String
  | ["tz", h] =>
    match unhexStr h with
    | some s => match cliProcessTzOffset s with
      | some o => s!"ok {o}"
      | none => "err"
    | none => "bad-op"
  | ["dur", h] =>
    match unhexStr h with
    | some s => match durOf s.toList with
      | .ok d o => s!"some {d} {if o then "other" else "now"}"
      | .none => "none"
      | .panic => "panic"
      | .exit => "exit"
    | none => "bad-op"
  | ["dt", h, tz, other, now] =>
    match unhexStr h, parseInt? now with
    | some s, some now =>
      match cliProcessTzOffset tz with
      | none => "bad-tz"
      | some tzo =>
        match parseOther other tzo with
        | some o => showResult (processDtL s.toList tzo o now)
        | none => "bad-op"
    | _, _ => "bad-op"
  | ["ab", ha, hb, tz, now] =>
    match optStr ha, optStr hb, parseInt? now with
    | some a, some b, some now =>
      match cliProcessTzOffset tz with
      | none => "bad-tz"
      | some tzo =>
        match resolveAB a b tzo now with
        | .ok fa fb => s!"ok {showOpt fa} {showOpt fb}"
        | .reject r => s!"reject {showReject r}"
    | _, _, _ => "bad-op"
  | _ => "bad-op"
