import S4V.Model.Wire
import S4V.Model.Journal

namespace S4V.Drv
open S4V.Model S4V.Model.Wire

/-- `jrn <a|n> <b|n> t0,t1,…` -> indices of the selected entries -/
def stepJournal : List String → String
  | [a, b, ts] =>
    let opt (s : String) : Option (Option Int) := if s = "n" then some none else (parseInt? s).map some
    match opt a, opt b, (if ts = "-" then some [] else (ts.splitOn ",").mapM parseInt?) with
    | some a, some b, some tss =>
      let es : List Journal.Entry := tss.zipIdx.map fun (t, i) => ⟨t, [], Int.ofNat i, []⟩
      String.intercalate "," ((Journal.select a b es).map fun e => toString e.monotonic)
    | _, _, _ => "bad-op"
  | _ => "bad-op"

end S4V.Drv
