import S4V.Model.Wire
import S4V.Model.Tmp

namespace S4V.Drv
open S4V.Model S4V.Model.Tmp S4V.Gen.Tmp

/-- advance worker `i` until it has sent its summary (phase `.summarised` or `.done`) -/
def untilSummary (s : St) (i : Nat) : Nat → St
  | 0 => s
  | fuel + 1 =>
    match s.phase.getD i .done with
    | .summarised | .done => s
    | _ => match stepGen s (.work i) with
      | some s' => untilSummary s' i fuel
      | none => s

/-- `tmp normal <n>`: every worker runs until its summary is sent, then the process exits.
`tmp gap <n>`: worker 0 takes its first step, the handler runs, the process exits.
`tmp late <n>`: the handler runs, then worker 0 reaches `decompress_to_ntf`, then the process exits.
reply: number of files left behind -/
def stepTmp : List String → String
  | ["normal", n] =>
    match n.toNat? with
    | some n =>
      let s := (List.range n).foldl (fun s i => untilSummary s i 8) (init n)
      match stepGen s .exit with
      | some s' => toString (leftovers s')
      | none => "exit-not-enabled"
    | none => "bad-op"
  | ["gap", n] =>
    match n.toNat? with
    | some n =>
      match runGen (init n) [.work 0, .sigint, .exit] with
      | some s => toString (leftovers s)
      | none => "not-enabled"
    | none => "bad-op"
  | ["late", n] =>
    match n.toNat? with
    | some n =>
      match runGen (init n) [.sigint, .work 0, .exit] with
      | some s => toString (leftovers s)
      | none => "not-enabled"
    | none => "bad-op"
  | _ => "bad-op"

end S4V.Drv
