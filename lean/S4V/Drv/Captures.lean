/-
Driver op for slice CapXlate (C04): the `time norm` request answered from the REGENERATED
`captures_to_buffer_bytes` (`S4V.Gen.Captures.body` interpreted by `S4V.Model.Captures`).

  capx norm <row> <hex line> <fill year|n> <off s> <group>=<hex> …   -> instant ns | none | panic
      (`panic` = the function panics: absent group, unknown month name, overflow of the buffer)
      When the hand model `DtParse.capturesToBuffer` writes a different buffer the reply is
      `SPLIT interp=<hex|panic> hand=<hex|panic>` — `captures_skeleton_is_model` proves this never
      happens for text captures; the driver checks it on every request anyway.
  capx buf  <same fields>                                             -> the buffer in hex | panic
-/
import S4V.Model.Wire
import S4V.Model.Captures
import S4V.Drv.Time

namespace S4V.Drv.Captures
open S4V.Model S4V.Model.Wire

def showBuf : Option (List UInt8) → String
  | some b => if b.isEmpty then "-" else hex b
  | none => "panic"

def parseReq : List String → Option (S4V.Gen.TimeTables.Row × Option Int × Int × DtParse.Captures)
  | idx :: _line :: fill :: off :: kvs =>
    match idx.toNat?, S4V.Drv.Time.optN fill, parseInt? off, kvs.foldlM S4V.Drv.Time.setCap ({} : DtParse.Captures) with
    | some i, some fill, some off, some caps =>
      match S4V.Gen.TimeTables.rows[i]? with
      | some row => some (row, fill, off, caps)
      | none => none
    | _, _, _, _ => none
  | _ => none

def stepNorm (ws : List String) : String :=
  match parseReq ws with
  | none => "bad-op"
  | some (row, fill, off, caps) =>
    let tzs := DtParse.offString off
    let g := S4V.Model.Captures.capturesToBufferG S4V.Gen.Captures.body row.dtfs caps tzs fill
    let h := DtParse.capturesToBuffer row.dtfs caps tzs fill
    if g != h then s!"SPLIT interp={showBuf g} hand={showBuf h}" else
    match g with
    | none => "panic"
    | some buf =>
      match DtParse.parseBuf row.dtfs.pattern (DtParse.hasTz row.dtfs) off buf with
      | some t => toString t
      | none => "none"

def stepBuf (ws : List String) : String :=
  match parseReq ws with
  | none => "bad-op"
  | some (row, fill, off, caps) =>
    showBuf (S4V.Model.Captures.capturesToBufferG S4V.Gen.Captures.body row.dtfs caps (DtParse.offString off) fill)

def stepCapx : List String → String
  | "norm" :: rest => stepNorm rest
  | "buf" :: rest => stepBuf rest
  | _ => "bad-op"

end S4V.Drv.Captures
