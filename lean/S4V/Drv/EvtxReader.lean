/-
Driver op for the event-log reader (`S4V.Model.EvtxReader`):

  evtxr <after ns|n> <before ns|n> <file>
      <file> = `!` (file header unreadable: `EvtxReader::new` fails) | `-` (no chunk) | chunk(`;`chunk)*
      chunk  = <crcOk 0|1>`:`[item(`,`item)*]        item = `e` | <timestamp ns>`.`<payload id>
    → `new-err` | p=<processed> a=<accepted> o=<out of order> fp= lp= fa= la=<ns|n> e=<0|1> s=<id@ns,…|->
-/
import S4V.Model.Wire
import S4V.Model.EvtxReader

namespace S4V.Drv.EvtxReader
open S4V.Model.Wire S4V.Model.EvtxReader S4V.Gen.Evtx

def parseItem (s : String) : Option Item :=
  if s = "e" then some .err else
  match s.splitOn "." with
  | [t, i] =>
    match parseInt? t, i.toNat? with
    | some t, some i => some (.ok t i)
    | _, _ => none
  | _ => none

def parseChunk (s : String) : Option Chunk :=
  match s.splitOn ":" with
  | [c, its] =>
    let crc? : Option Bool := if c = "1" then some true else if c = "0" then some false else none
    let items? : Option (List Item) := if its = "" then some [] else (its.splitOn ",").mapM parseItem
    match crc?, items? with
    | some crc, some items => some ⟨crc, items⟩
    | _, _ => none
  | _ => none

def parseBound (s : String) : Option (Option Int) :=
  if s = "n" then some none else (parseInt? s).map some

def showVal : Val → String
  | .n v => toString v
  | .t none => "n"
  | .t (some v) => toString v

def render (r : Result) : String :=
  let f := fun x => showVal (summary r.rd 0 x)
  s!"p={f .processed} a={f .accepted} o={f .outOfOrder} fp={f .firstProcessed} lp={f .lastProcessed} " ++
  s!"fa={f .firstAccepted} la={f .lastAccepted} e={if r.errorReported then 1 else 0} s=" ++
  (if r.seq.isEmpty then "-" else ",".intercalate (r.seq.map fun p => s!"{p.1}@{p.2}"))

def stepEvtxReader : List String → String
  | [a, b, file] =>
    match parseBound a, parseBound b with
    | some a, some b =>
      if file = "!" then "new-err"
      else
        let cs? : Option (List Chunk) := if file = "-" then some [] else (file.splitOn ";").mapM parseChunk
        match cs? with
        | some cs => render (run a b cs)
        | none => "bad-request"
    | _, _ => "bad-request"
  | _ => "bad-request"

end S4V.Drv.EvtxReader
