/-
Driver op `patsel run …` for `S4V.Model.PatSel.runFile` (see harness/src/c_patsel.rs for the wire format).
-/
import S4V.Model.Wire
import S4V.Model.PatSel

namespace S4V.Drv.PatSel
open S4V.Model.Wire S4V.Model.PatSel

/-- one table entry: `hex|row=ns/row=ns…` -/
def parseEntry (s : String) : Option (Bytes × List (Nat × Int)) :=
  match s.splitOn "|" with
  | [h, ms] =>
    match unhex h with
    | none => none
    | some b =>
      let items := (ms.splitOn "/").filter (· ≠ "")
      let rec go : List String → List (Nat × Int) → Option (List (Nat × Int))
        | [], acc => some acc.reverse
        | x :: xs, acc =>
          match x.splitOn "=" with
          | [r, t] => match r.toNat?, parseInt? t with
            | some r, some t => go xs ((r, t) :: acc)
            | _, _ => none
          | _ => none
      (go items []).map (fun m => (b, m))
  | _ => none

def parseTable (s : String) : Option (Array (Bytes × List (Nat × Int))) :=
  if s = "-" then some #[] else
  (s.splitOn ";").foldl (fun acc e => match acc, parseEntry e with
    | some a, some x => some (a.push x)
    | _, _ => none) (some #[])

/-- `key:id,…` → `(key, bytes)` -/
def parseRefs (tab : Array (Bytes × List (Nat × Int))) (s : String) : Option (List (Nat × Bytes)) :=
  if s = "-" then some [] else
  (s.splitOn ",").foldr (fun e acc => match acc, e.splitOn ":" with
    | some a, [k, i] => match k.toNat?, i.toNat? with
      | some k, some i => (tab[i]?).map (fun x => (k, x.1) :: a)
      | _, _ => none
    | _, _ => none) (some [])

/-- the matrix of the table (lines are identified by their bytes) -/
def matrixOf (tab : Array (Bytes × List (Nat × Int))) : Matrix := fun r ℓ =>
  match tab.toList.lookup ℓ with
  | some ms => ms.lookup r
  | none => none

def countsStr (cs : Counts) : String :=
  let v := (cs.filter (fun p => p.2 > 0)).map (fun p => s!"{p.1}:{p.2}")
  if v.isEmpty then "-" else String.intercalate "," v

def rowStr (cs : Counts) : String :=
  match cs.filter (fun p => p.2 > 0) with
  | [p] => toString p.1
  | _ => "n"

def stepPatSel : List String → String
  | ["run", bs, b0, dfo, fol, gate, chain, part, file, table] =>
    match bs.toNat?, b0.toNat?, dfo.toNat?, fol.toNat?, parseTable table with
    | some bs, some b0, some dfo, some fol, some tab =>
      match parseRefs tab chain, parseRefs tab part, parseRefs tab file with
      | some ch, some pt, some fl =>
        if gate ≠ "1" then "gate" else
        let z : Zero := { chain := ch, partialLine := pt.head?, doneFo := dfo, foLast := fol, bs := bs, blocksz0 := b0 }
        match runFile (matrixOf tab) S4V.Gen.PatSel.N_ROWS z fl with
        | (s, out, _) =>
          let post := s.rs.st.counts
          match s.verdict with
          | .noSyslines => s!"nosys pre={countsStr s.pre} post={countsStr post} row={rowStr post} out=-"
          | .fileOk =>
            let o := out.map (fun r => match r with | some (_, t) => toString t | none => "n")
            s!"ok pre={countsStr s.pre} post={countsStr post} row={rowStr post} out={if o.isEmpty then "-" else String.intercalate "," o}"
      | _, _, _ => "bad-op"
    | _, _, _, _, _ => "bad-op"
  | _ => "bad-op"

end S4V.Drv.PatSel
