-- GENERATION FAILED: month_bB_to_month_m_bytes: trailing arms not the modelled `data_ => panic!`: 'b"may." | b"May." | b"MAY." => buffer.copy_from_slice(MONTH_05_m),\n        MONTH'
#eval (show Nat from "translator failed: item left the subset")
