-- GENERATION FAILED: read_block_FileLz4: neither the single-read nor the fill-loop shape
#eval (show Nat from "translator failed: item left the subset")
