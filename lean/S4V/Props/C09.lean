/-
C09 — journal files: every entry once, in journal order, fields intact; window
on the journal receive time. libsystemd's enumeration is the trusted base;
what is proved is what the reader does with it.
-/
import S4V.Model.Journal
import S4V.Props.FilterSpec

namespace S4V.Props.C09
open S4V.Model.Journal S4V.Gen.Journal S4V.Gen.Filter S4V.Props.FilterSpec

/-- the stop test regenerated from `next_common` fires exactly at an entry strictly after `--dt-before` -/
theorem C09_stop_iff (t : Int) (b : Option Int) : stopAt t b = true ↔ ∃ y, b = some y ∧ y < t := by
  unfold stopAt
  rw [beq_iff_eq, emPassFilters_after_iff]
  constructor
  · rintro ⟨_, y, hy, hlt⟩; exact ⟨y, hy, hlt⟩
  · rintro ⟨y, hy, hlt⟩; exact ⟨(by intro x hx; cases hx), y, hy, hlt⟩

/-- the instant of an entry is its journal receive time (`DT_USES_SOURCE_OVERRIDE`) -/
theorem C09_uses_realtime : usesRealtimeTimestamp = true := by decide

theorem iterate_sublist (b : Option Int) (es : List Entry) : (iterate b es).Sublist es := by
  induction es with
  | nil => exact List.Sublist.slnil
  | cons e r ih =>
    unfold iterate
    split
    · exact List.nil_sublist _
    · exact ih.cons_cons e

/-- without a window every enumerated entry is printed exactly once, in journal order -/
theorem C09_all_once (es : List Entry) : select none none es = es := by
  unfold select seek
  induction es with
  | nil => rfl
  | cons e r ih =>
    simp only at ih ⊢
    unfold iterate
    have : stopAt e.realtime none = false := by
      cases h : stopAt e.realtime none with
      | false => rfl
      | true => obtain ⟨y, hy, _⟩ := (C09_stop_iff _ _).1 h; cases hy
    rw [this]; simp only [Bool.false_eq_true, ↓reduceIte]; rw [ih]

/-- the selection keeps journal order and never duplicates: it is a sublist of the enumeration -/
theorem C09_order (a b : Option Int) (es : List Entry) : (select a b es).Sublist es := by
  unfold select
  refine (iterate_sublist b _).trans ?_
  unfold seek
  cases a with
  | none => exact List.Sublist.refl _
  | some a => exact List.dropWhile_sublist _

theorem iterate_eq_filter (b : Option Int) (es : List Entry)
    (hs : es.Pairwise (fun x y => x.realtime ≤ y.realtime)) :
    iterate b es = es.filter (fun e => !stopAt e.realtime b) := by
  induction es with
  | nil => rfl
  | cons e r ih =>
    unfold iterate
    rw [List.pairwise_cons] at hs
    cases h : stopAt e.realtime b with
    | true =>
      simp only [↓reduceIte, List.filter_cons, h, Bool.not_true, Bool.false_eq_true]
      symm
      rw [List.filter_eq_nil_iff]
      intro x hx
      obtain ⟨y, hy, hlt⟩ := (C09_stop_iff _ _).1 h
      have : stopAt x.realtime b = true := (C09_stop_iff _ _).2 ⟨y, hy, by have := hs.1 x hx; omega⟩
      simp [this]
    | false =>
      simp only [Bool.false_eq_true, ↓reduceIte, List.filter_cons, h, Bool.not_false]
      rw [ih hs.2]

theorem dropWhile_eq_filter (a : Int) (es : List Entry)
    (hs : es.Pairwise (fun x y => x.realtime ≤ y.realtime)) :
    es.dropWhile (fun e => decide (e.realtime < a)) = es.filter (fun e => decide (a ≤ e.realtime)) := by
  induction es with
  | nil => rfl
  | cons e r ih =>
    rw [List.pairwise_cons] at hs
    by_cases h : e.realtime < a
    · simp only [List.dropWhile_cons, h, decide_true, ↓reduceIte, List.filter_cons]
      have : ¬ a ≤ e.realtime := by omega
      simp only [this, decide_false, Bool.false_eq_true, ↓reduceIte]
      exact ih hs.2
    · simp only [List.dropWhile_cons, h, decide_false, Bool.false_eq_true, ↓reduceIte, List.filter_cons]
      have h' : a ≤ e.realtime := by omega
      simp only [h', decide_true, ↓reduceIte]
      congr 1
      symm
      rw [List.filter_eq_self]
      intro x hx
      have := hs.1 x hx
      simp only [decide_eq_true_eq]; omega

/-- C09 window: for a journal whose receive times are non-decreasing in journal order the
selection is exactly the entries with `A ≤ t ≤ B` (both inclusive), in journal order -/
theorem C09_window (a b : Option Int) (es : List Entry)
    (hs : es.Pairwise (fun x y => x.realtime ≤ y.realtime)) :
    select a b es = es.filter (fun e => emPassFilters e.realtime a b == .InRange) := by
  unfold select
  have hseek : seek a es = es.filter (fun e => match a with | none => true | some a => decide (a ≤ e.realtime)) := by
    cases a with
    | none => simp only [seek]; exact (List.filter_eq_self.2 (fun _ _ => rfl)).symm
    | some a => simp only [seek]; exact dropWhile_eq_filter a es hs
  have hs' : (seek a es).Pairwise (fun x y => x.realtime ≤ y.realtime) := by
    rw [hseek]; exact hs.filter _
  rw [iterate_eq_filter b _ hs', hseek, List.filter_filter]
  apply List.filter_congr
  intro e _
  have h1 := emPassFilters_iff e.realtime a b
  cases hst : stopAt e.realtime b with
  | true =>
    obtain ⟨y, hy, hlt⟩ := (C09_stop_iff _ _).1 hst
    have : ¬ emPassFilters e.realtime a b = .InRange := by
      rw [h1]; rintro ⟨_, h⟩; have := h y hy; omega
    simp [this]
  | false =>
    have hns : ¬ ∃ y, b = some y ∧ y < e.realtime := by
      intro h; have := (C09_stop_iff _ _).2 h; rw [hst] at this; cases this
    cases a with
    | none =>
      have : emPassFilters e.realtime none b = .InRange := by
        rw [emPassFilters_iff]; refine ⟨(by intro x hx; cases hx), ?_⟩
        intro y hy; exact Decidable.byContradiction (fun hc => hns ⟨y, hy, by omega⟩)
      simp [this]
    | some a =>
      by_cases ha : a ≤ e.realtime
      · have : emPassFilters e.realtime (some a) b = .InRange := by
          rw [emPassFilters_iff]; refine ⟨(by intro x hx; cases hx; exact ha), ?_⟩
          intro y hy; exact Decidable.byContradiction (fun hc => hns ⟨y, hy, by omega⟩)
        simp [this, ha]
      · have : ¬ emPassFilters e.realtime (some a) b = .InRange := by
          rw [emPassFilters_iff]; rintro ⟨h, _⟩; exact ha (h a rfl)
        simp [this, ha]

def exEntries : List Entry :=
  [⟨10, [99], 1, [[65, 61, 49]]⟩, ⟨20, [100], 2, [[66, 61, 50], [67, 61, 51]]⟩, ⟨20, [101], 3, []⟩, ⟨30, [102], 4, [[68, 61]]⟩]

example : exEntries.Pairwise (fun x y => x.realtime ≤ y.realtime) := by decide
example : (select (some 20) (some 20) exEntries).map (·.cursor) = [[100], [101]] := by decide

/-- the export text carries, after the three synthetic lines, every enumerated field
unchanged (entries with at most `fieldCap` fields), each followed by '\n', then an empty line -/
theorem C09_export_fields (e : Entry) (h : e.fields.length ≤ fieldCap) :
    ∃ pre, renderExport e = pre ++ encodeFields e.fields ++ [NLb] := by
  unfold renderExport encodeFields
  rw [List.take_of_length_le h]
  exact ⟨_, rfl⟩

example : (exEntries.getD 1 default).fields.length ≤ fieldCap := by decide

theorem decodeFields_acc (f : Bytes) (hf : NLb ∉ f) (rest acc : Bytes) :
    decodeFields (f ++ NLb :: rest) acc = (acc.reverse ++ f) :: decodeFields rest [] := by
  induction f generalizing acc with
  | nil => simp [decodeFields]
  | cons c f ih =>
    have hc : c ≠ NLb := by intro h; exact hf (by simp [h])
    have hf' : NLb ∉ f := by intro h; exact hf (by simp [h])
    simp only [List.cons_append, decodeFields, hc, ↓reduceIte]
    rw [ih hf']; simp

/-- the fields can be read back from the export text iff no value contains a newline
(the code writes multi-line values raw, not in journalctl's length-prefixed form) -/
theorem C09_export_decodable (fs : List Bytes) (h : ∀ f ∈ fs, NLb ∉ f) :
    decodeFields (encodeFields fs) [] = fs := by
  induction fs with
  | nil => rfl
  | cons f r ih =>
    have hf := h f (by simp)
    have : encodeFields (f :: r) = f ++ NLb :: encodeFields r := by
      simp [encodeFields]
    rw [this, decodeFields_acc f hf]
    simp only [List.reverse_nil, List.nil_append]
    rw [ih (fun g hg => h g (by simp [hg]))]

/-- the unrestricted round trip is false: a value with an embedded newline is split -/
def C09_export_decodable_full : Prop := ∀ fs : List Bytes, decodeFields (encodeFields fs) [] = fs

theorem C09_export_decodable_full_false : ¬ C09_export_decodable_full := by
  intro h
  have := h [[77, 61, 97, 10, 98]]
  revert this; decide

/-! ### how a datetime-filter bound reaches the reader (`datetimel_to_realtime_timestamp`) -/

/-- the unsigned microsecond value the reader compares entry times with, for a bound `x` (microseconds since the
epoch, possibly negative: a date before 1970). `clamp = true`: `.max(0) as u64`; `false`: a bare `as u64`, which
wraps a negative value to `x + 2^64` -/
def boundOf (clamp : Bool) (x : Int) : Int :=
  if x < 0 then (if clamp then 0 else x + 18446744073709551616) else x

/-- **C09_bound_after.** A `--dt-after` bound selects the same entries as the instant it denotes, also when it lies
before 1970 (every entry time is `≥ 0`). Unfolds the regenerated `boundClampsPreEpoch` (the cast that wrapped was
repaired by this work; a regression regenerates `false` and this proof breaks). -/
theorem C09_bound_after (x t : Int) (ht : 0 ≤ t) : boundOf boundClampsPreEpoch x ≤ t ↔ x ≤ t := by
  have h : boundClampsPreEpoch = true := by decide
  unfold boundOf; rw [h]
  by_cases hx : x < 0 <;> simp [hx] <;> omega

/-- **C09_bound_before.** Likewise for `--dt-before`, for every entry time after the epoch itself -/
theorem C09_bound_before (x t : Int) (ht : 0 < t) : t ≤ boundOf boundClampsPreEpoch x ↔ t ≤ x := by
  have h : boundClampsPreEpoch = true := by decide
  unfold boundOf; rw [h]
  by_cases hx : x < 0 <;> simp [hx] <;> omega

/-- counter-model (the defect repaired by this work): with the wrapping cast a `--dt-after` bound before 1970
excludes every entry, and a `--dt-before` bound before 1970 includes every entry -/
theorem wrapped_bound_selects_wrongly :
    ¬ (boundOf false (-1) ≤ 1700000000000000 ↔ (-1 : Int) ≤ 1700000000000000) ∧
    ¬ ((1700000000000000 : Int) ≤ boundOf false (-1) ↔ (1700000000000000 : Int) ≤ -1) := by
  decide

example : boundOf boundClampsPreEpoch (-315619200000000) = 0 := by decide

end S4V.Props.C09
