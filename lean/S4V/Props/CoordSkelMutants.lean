/-
Counter-models for slice CoordSkel: the other value of each regenerated piece of the coordinator loop.
Each `def mut… : Skel` is what `gen_coord.py` would regenerate from the named one-token edit of
`processing_loop` (checked on edited source text, see DESIGN §10.6 row CoordSkel); each theorem shows, by a
concrete decided run of the interpreter, that the edited loop is no longer the hand model AND violates the
C06 / C01 / C07 statement that the unedited loop satisfies (`CoordSkelSpec`).
-/
import S4V.Props.CoordSkelSpec

namespace S4V.Props.CoordSkelMutants
open S4V.Model.Coord S4V.Model.CoordSkel S4V.Gen.Coord

/-- two healthy sources; the later-named one has the earlier message -/
def exLate : List (List Datum) :=
  [ [.fileInfo true, .msg ⟨5, 0⟩, .summary true],
    [.fileInfo true, .msg ⟨1, 0⟩, .summary true] ]

example : S4V.Lemmas.Coord.WF exLate := by decide
example : merge (exLate.map msgsOf) = [(1, ⟨1, 0⟩), (0, ⟨5, 0⟩)] := by decide

/-! ### 1. wait condition `!=` → `<` -/

/-- `if chans.len() < pending.len() || !fileinfo.is_empty()` -/
def mutWaitLt : Skel := { SKEL with wait := .or (.cmpLen .chans .lt .pending) (.nonEmpty .fileinfo) }

/-- once every FileInfo is in, the edited loop never waits again: it takes the print branch with nothing
pending, `min_by → None → continue`, for ever — nothing is received, nothing printed, the loop does not end
(C06 termination and no-deadlock fail), and the hand model has no such step -/
theorem wait_lt_spins : ∃ s, skelRun mutWaitLt (init exLate) [.recv 0, .recv 1] = some s ∧
    evalW s mutWaitLt.wait = false ∧ skelStep mutWaitLt s .print = some s ∧
    s.fin = false ∧ s.printed = [] ∧ step s .print = none :=
  ⟨_, rfl, rfl, rfl, rfl, rfl, rfl⟩

/-! ### 2. `|| !map_pathid_received_fileinfo.is_empty()` dropped -/

def mutNoFileinfoClause : Skel := { SKEL with wait := .cmpLen .chans .ne .pending }

/-- a worker whose first datum is a message (not FileInfo) -/
def exMsgFirst : List (List Datum) := [[.msg ⟨5, 0⟩, .fileInfo true, .summary true]]

/-- the edited loop prints before the FileInfo arrived; the hand model (and the source) does not -/
theorem no_fileinfo_clause_prints_early : ∃ s s', skelRun mutNoFileinfoClause (init exMsgFirst) [.recv 0] = some s ∧
    run (init exMsgFirst) [.recv 0] = some s ∧
    skelStep mutNoFileinfoClause s .print = some s' ∧ s'.printed = [(0, ⟨5, 0⟩)] ∧ s'.fi.isSome = true ∧
    step s .print = none :=
  ⟨_, _, rfl, rfl, rfl, rfl, rfl, rfl⟩

/-! ### 3. channel removed only on FileSummary, not on disconnect -/

/-- `Err(RecvError) => { chan_recv_err += 1; }` without `disconnect.push(pathid)` -/
def mutKeepDisconnected : Skel := { SKEL with armRecvError := [.countErr] }

/-- a worker that dies after its FileInfo (C07's faulty source) -/
def exDies : List (List Datum) := [[.fileInfo true]]

def stuck (e : Nat) : St :=
  { streams := [[]], live := [true], pending := [none], fi := none, printed := [], errs := e, fin := false, broke := false }

theorem stuck_step (e : Nat) : skelStep mutKeepDisconnected (stuck e) (.recv 0) = some (stuck (e + 1)) := by
  rfl

theorem stuck_run (n e : Nat) :
    skelRun mutKeepDisconnected (stuck e) (List.replicate n (.recv 0)) = some (stuck (e + n)) := by
  induction n generalizing e with
  | zero => rfl
  | succ n ih =>
    simp only [List.replicate, skelRun, stuck_step]
    rw [ih]; congr 2; omega

/-- the dead channel stays in the map and is polled for ever: runs of every length, none finished — the
bound `C06_skeleton_terminates` (here 5 iterations) fails, and the run never ends (C06, C07) -/
theorem keep_disconnected_never_ends (n : Nat) :
    ∃ s, skelRun mutKeepDisconnected (init exDies) (List.replicate (n + 1) (.recv 0)) = some s ∧ s.fin = false := by
  refine ⟨stuck n, ?_, rfl⟩
  have h1 : skelStep mutKeepDisconnected (init exDies) (.recv 0) = some (stuck 0) := by rfl
  simp only [List.replicate, skelRun, h1]
  simpa using stuck_run n 0

/-- whereas the unedited loop ends at once -/
example : (skelRun SKEL (init exDies) [.recv 0, .recv 0]).map (fun s => (s.fin, s.errs)) = some (true, 1) := by decide

/-! ### 4. print when not all sources have delivered -/

/-- `if map_pathid_datum.is_empty() || !fileinfo.is_empty()`: wait only while nothing at all is pending -/
def mutPrintEager : Skel := { SKEL with wait := .or (.isEmpty .pending) (.nonEmpty .fileinfo) }

/-- a finished run of the edited loop whose output is not the merge (C01, C06 confluence fail) -/
theorem print_eager_misorders : ∃ s,
    skelRun mutPrintEager (init exLate) [.recv 0, .recv 1, .recv 0, .print, .recv 1, .print, .recv 0, .recv 1] = some s ∧
    s.fin = true ∧ s.printed = [(0, ⟨5, 0⟩), (1, ⟨1, 0⟩)] ∧
    s.printed ≠ merge (exLate.map (fun sc => msgsOf (S4V.Lemmas.Coord.deliverable sc))) :=
  ⟨_, rfl, rfl, rfl, by decide⟩

/-! ### 5. `select()` → a non-blocking / timed variant whose timeout is reported as `None` (seeded C06-a) -/

def mutSelectTimeout : Skel := { SKEL with selectBlocking := false }

/-- the edited loop may leave through `recv_many_chan → None → break` before anything was received -/
theorem select_timeout_stops_early : ∃ s, skelStep mutSelectTimeout (init exLate) .brk = some s ∧
    s.broke = true ∧ s.printed = [] ∧ step (init exLate) .brk = none :=
  ⟨_, rfl, rfl, rfl, rfl⟩

/-! ### 6. `recv_many_chan` without the filter (polls channels that already have a message on hand) -/

def mutNoFilter : Skel := { SKEL with pollSkipsPending := false }

def exTwoMsgs : List (List Datum) :=
  [ [.fileInfo true, .msg ⟨1, 0⟩, .msg ⟨2, 1⟩, .summary true],
    [.fileInfo true, .msg ⟨3, 0⟩, .summary true] ]

/-- the second message of source 0 overwrites the first in `map_pathid_datum`: a message is lost (C01) -/
theorem no_filter_loses_message : ∃ s,
    skelRun mutNoFilter (init exTwoMsgs)
      [.recv 0, .recv 1, .recv 0, .recv 0, .recv 1, .print, .recv 0, .print, .recv 1] = some s ∧
    s.fin = true ∧ s.printed = [(0, ⟨2, 1⟩), (1, ⟨3, 0⟩)] ∧
    s.printed ≠ merge (exTwoMsgs.map (fun sc => msgsOf (S4V.Lemmas.Coord.deliverable sc))) :=
  ⟨_, rfl, rfl, rfl, by decide⟩

/-! ### 7. the printed entry is not removed -/

def mutNoRemove : Skel := { SKEL with printRemovesPicked := false }

/-- the same message is printed again and again -/
theorem no_remove_reprints : ∃ s,
    skelRun mutNoRemove (init exLate) [.recv 0, .recv 1, .recv 0, .recv 1, .print, .print, .print] = some s ∧
    s.printed = [(1, ⟨1, 0⟩), (1, ⟨1, 0⟩), (1, ⟨1, 0⟩)] :=
  ⟨_, rfl, rfl⟩

/-! ### 8. `swap_remove`-style removal (pending kept in a `Vec` sorted by PathId; seeded C01-d)

`gen_coord.py` refuses this shape (the map type is no longer `BTreeMap<PathId, _>`, and `swap_remove` in the
print branch raises GenError): the hand state keys the pending messages by PathId and has no iteration order
to perturb. The order-sensitive pick is shown on a three-entry vector. -/

/-- first minimum in the order the vector is visited -/
def vecPick : List (Nat × Msg) → Option (Nat × Msg)
  | [] => none
  | x :: r => some (r.foldl (fun b y => if y.2.dt < b.2.dt then y else b) x)

/-- `Vec::swap_remove(k)`: the last element takes the place of the removed one -/
def swapRemove (v : List (Nat × Msg)) (k : Nat) : List (Nat × Msg) :=
  match v.getLast? with
  | some l => if k + 1 = v.length then v.dropLast else (v.set k l).dropLast
  | none => v

/-- sources 1 and 2 tie; after source 0's entry is swap-removed source 2 is visited first and wins the tie,
while the keyed map (the source, the hand model) prints source 1 first -/
theorem swap_remove_breaks_tie_rule :
    vecPick (swapRemove [(0, ⟨1, 0⟩), (1, ⟨2, 0⟩), (2, ⟨2, 0⟩)] 0) = some (2, ⟨2, 0⟩) ∧
    minPending [none, some ⟨2, 0⟩, some ⟨2, 0⟩] = some (1, ⟨2, 0⟩) := by decide

end S4V.Props.CoordSkelMutants
