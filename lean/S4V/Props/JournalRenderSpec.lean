/-
C09 ("the fields shown by the export rendering and the text shown by the cat rendering are exactly those stored
in the entry"; C13 relies on every rendering ending in a newline) — the ten text renderings of a journal entry.

Model: `S4V.Model.JournalRender` (mirror of `JournalReader::{next_dispatch, next_short, next_verbose, next_export,
next_cat, get_source_realtime_timestamp}` and of `realtime_or_source_realtime_timestamp_to_datetimel`). Every
literal of the source — the three caps (200), the keys, the fallback order, brackets and separators, the seven
strftime patterns, the 102-key verbose order, the dating override, `ErrIgnore` for an entry without MESSAGE,
"the buffer is local to the call" — is regenerated (`S4V.Gen.JournalRender`); the theorems below unfold them, so an
edit of any of these regenerates a different model and the proofs fail.

Proved here
* `C09_cat_is_message`, `C09_cat_without_message`        cat = value of the first stored MESSAGE + "\n"; no MESSAGE ⇒ the entry is skipped (not an error)
* `C09_export_all_fields`, `C09_export_nothing_dropped`   export = synthetic lines, then each of the first 200 items + "\n", then "\n"
* `C09_export_full_false`                                 FALSE beyond 200 fields (reachable: journald stores up to 1024 fields per entry)
* `C09_short_fields`                                      exact text after the timestamp for all 64 present/missing combinations
* `C09_short_line`, `C09_short_slots_sound`               the line is timestamp ++ that text; every printed value is a stored item of that key
* `C09_short_message_full_false`, `C09_short_cat_disagree` FALSE: MESSAGE beyond the cap is not printed; repeated MESSAGE: short prints the last, cat the first
* `C09_verbose_all_fields` (+ `verboseOrder_perm`, `verboseMap_keys_nodup`, `verboseMap_of_distinct`)  the lines are a permutation of the stored items
* `C09_verbose_full_false`                                FALSE for a repeated key (one value is dropped)
* `C09_render_ends_with_newline`                          every mode, every entry, every zone
* `C09_render_depends_only_on_entry` + `stale_buffer_leaks` nothing is carried from one entry to the next
* `C09_timestamp_is_realtime` + `source_override_changes_text`  every datetime text is computed from `__REALTIME_TIMESTAMP`
* `C09_timestamp_denotes_instant`                         the printed calendar fields denote that instant in the zone
* `C09_short_iso_text`, `C09_verbose_text`, `C09_monotonic_text`  the timestamp texts spelled out
-/
import S4V.Model.JournalRender
import S4V.Lemmas.Time

namespace S4V.Props.JournalRenderSpec
open S4V.Gen.JournalRender S4V.Model.JournalRender S4V.Model.Time

/-! ## helpers -/

theorem splitAtByte_some {sep : UInt8} {d k v : Bytes} (h : splitAtByte sep d = some (k, v)) :
    d = k ++ [sep] ++ v ∧ sep ∉ k := by
  induction d generalizing k v with
  | nil => simp [splitAtByte] at h
  | cons b r ih =>
    unfold splitAtByte at h
    by_cases hb : b = sep
    · simp [hb] at h; obtain ⟨rfl, rfl⟩ := h; simp [hb]
    · simp only [hb, if_false, Option.map_eq_some_iff] at h
      obtain ⟨⟨k', v'⟩, hk, heq⟩ := h
      simp only [Prod.mk.injEq] at heq
      obtain ⟨rfl, rfl⟩ := heq
      obtain ⟨h1, h2⟩ := ih hk
      refine ⟨by simp [h1], ?_⟩
      intro hm
      rcases List.mem_cons.mp hm with h | h
      · exact hb h.symm
      · exact h2 h

theorem splitAtByte_key_eq' {sep : UInt8} (k v : Bytes) (hk : sep ∉ k) :
    splitAtByte sep (k ++ sep :: v) = some (k, v) := by
  induction k with
  | nil => simp [splitAtByte]
  | cons b r ih =>
    have hb : b ≠ sep := fun h => hk (by simp [h])
    have hr : sep ∉ r := fun h => hk (by simp [h])
    simp [splitAtByte, hb, ih hr]

theorem splitAtByte_key_eq {sep : UInt8} (k v : Bytes) (hk : sep ∉ k) :
    splitAtByte sep (k ++ [sep] ++ v) = some (k, v) := by
  simpa using splitAtByte_key_eq' k v hk

theorem find?_skip {α} (p : α → Bool) (pre : List α) (x : α) (post : List α) (hpre : ∀ d ∈ pre, p d = false) (hx : p x = true) :
    (pre ++ [x] ++ post).find? p = some x := by
  induction pre with
  | nil => simp [hx]
  | cons y r ih =>
    simp only [List.cons_append, List.find?_cons, hpre y (by simp)]
    exact ih (fun d hd => hpre d (by simp [hd]))

/-- a byte string ends in a newline -/
def EndsNL (t : Bytes) : Prop := ∃ p, t = p ++ [10]

theorem EndsNL.getLast? {t : Bytes} (h : EndsNL t) : t.getLast? = some 10 := by
  obtain ⟨p, rfl⟩ := h; simp

theorem endsNL_append {a b : Bytes} (h : EndsNL b) : EndsNL (a ++ b) := by
  obtain ⟨p, rfl⟩ := h; exact ⟨a ++ p, by simp⟩

theorem endsNL_flatten {α} (f : α → Bytes) (hf : ∀ x, EndsNL (f x)) (a : Bytes) (ha : EndsNL a) (l : List α) :
    EndsNL (a ++ (l.map f).flatten) := by
  induction l generalizing a with
  | nil => simpa using ha
  | cons x r ih =>
    have : a ++ ((x :: r).map f).flatten = (a ++ f x) ++ (r.map f).flatten := by simp
    rw [this]
    exact ih _ (endsNL_append (hf x))

/-! ## cat -/

/-- **C09 (cat)**: when libsystemd finds a MESSAGE item `d`, it is `MESSAGE=v` and the cat rendering is exactly
`v` followed by one newline — for every entry, every zone. -/
theorem C09_cat_is_message (off : Int) (e : Entry) (d : Bytes) (h : getData KEY_MESSAGE e.data = some d) :
    ∃ v, d = KEY_MESSAGE ++ [61] ++ v ∧ d ∈ e.data ∧ render .Cat off e = .found (v ++ [10]) := by
  have hm : d ∈ e.data := List.mem_of_find?_eq_some h
  have hp := List.find?_some h
  simp only [decide_eq_true_eq] at hp
  refine ⟨d.drop (KEY_MESSAGE.length + 1), ?_, hm, ?_⟩
  · conv => lhs; rw [← List.take_append_drop (KEY_MESSAGE.length + 1) d]
    rw [hp]
  · have hd : d = KEY_MESSAGE ++ [61] ++ d.drop (KEY_MESSAGE.length + 1) := by
      conv => lhs; rw [← List.take_append_drop (KEY_MESSAGE.length + 1) d]
      rw [hp]
    have hs : splitAtByte FIELD_MID d = some (KEY_MESSAGE, d.drop (KEY_MESSAGE.length + 1)) := by
      conv => lhs; rw [hd]
      exact splitAtByte_key_eq (sep := FIELD_MID) KEY_MESSAGE _ (by decide)
    simp only [render, dispatch, renderCat, h, hs, CAT_TERM]

/-- the first stored item named MESSAGE wins (libsystemd's `sd_journal_get_data`) -/
theorem C09_cat_first_message (off : Int) (e : Entry) (pre post : List Bytes) (v : Bytes)
    (hd : e.data = pre ++ [KEY_MESSAGE ++ [61] ++ v] ++ post)
    (hpre : ∀ d ∈ pre, d.take (KEY_MESSAGE.length + 1) ≠ KEY_MESSAGE ++ [61]) :
    render .Cat off e = .found (v ++ [10]) := by
  have hg : getData KEY_MESSAGE e.data = some (KEY_MESSAGE ++ [61] ++ v) := by
    rw [hd, getData]
    apply find?_skip
    · intro d hd; simpa using hpre d hd
    · simp [KEY_MESSAGE]
  obtain ⟨v', hv, -, hr⟩ := C09_cat_is_message off e _ hg
  have : v' = v := by
    have := List.append_cancel_left hv
    exact this.symm
  rw [hr, this]

/-- **C09-a**: an entry without MESSAGE is skipped (`ErrIgnore`), it does not stop the run. Unfolds the generated
`CAT_MISSING_IS_SKIP`. -/
theorem C09_cat_without_message (off : Int) (e : Entry) (h : getData KEY_MESSAGE e.data = none) :
    render .Cat off e = .skip := by
  simp [render, dispatch, renderCat, h, CAT_MISSING_IS_SKIP]

example : render .Cat 0 { cursor := none, realtime := 1, monotonic := none, data := [str "FOO=bar"] } = .skip := by decide
example : render .Cat 0 { cursor := none, realtime := 1, monotonic := none, data := [str "A=1", str "MESSAGE=hi=x", str "MESSAGE=2"] }
    = .found (str "hi=x\n") := by decide

/-! ## export -/

/-- **C09 (export)**: the synthetic lines, then every one of the first 200 enumerated items, each followed by a
newline, then an empty line — raw bytes, nothing added. Unfolds the generated cap and terminators. -/
theorem C09_export_all_fields (off : Int) (e : Entry) :
    render .Export off e = .found (exportHeader e ++ ((e.data.take 200).map (· ++ [10])).flatten ++ [10]) := by
  simp [render, dispatch, renderExport, exportFields, EXPORT_CAP, EXPORT_FIELD_END, EXPORT_TERM]

/-- nothing is dropped when the entry has at most 200 fields -/
theorem C09_export_nothing_dropped (off : Int) (e : Entry) (h : e.data.length ≤ 200) :
    render .Export off e = .found (exportHeader e ++ (e.data.map (· ++ [10])).flatten ++ [10]) := by
  rw [C09_export_all_fields, List.take_of_length_le h]

/-- the three synthetic lines (cursor and monotonic time present) -/
theorem C09_export_header (c : Bytes) (rt mu : Nat) (data : List Bytes) :
    exportHeader { cursor := some c, realtime := rt, monotonic := some mu, data := data }
      = str "__CURSOR=" ++ c ++ [10] ++ str "__REALTIME_TIMESTAMP=" ++ decimal rt ++ [10]
        ++ str "__MONOTONIC_TIMESTAMP=" ++ decimal mu ++ [10] := by
  have h1 : str "__CURSOR=" = EXPORT_CURSOR.1 ++ [EXPORT_CURSOR.2.1] := by decide
  have h2 : str "__REALTIME_TIMESTAMP=" = EXPORT_REALTIME.1 ++ [EXPORT_REALTIME.2.1] := by decide
  have h3 : str "__MONOTONIC_TIMESTAMP=" = EXPORT_MONOTONIC.1 ++ [EXPORT_MONOTONIC.2.1] := by decide
  rw [h1, h2, h3]
  simp [exportHeader, kvLine, EXPORT_CURSOR, EXPORT_REALTIME, EXPORT_MONOTONIC]

/-- the unrestricted statement: every stored item is shown -/
def C09_export_full : Prop :=
  ∀ e : Entry, renderExport e = exportHeader e ++ (e.data.map (· ++ [10])).flatten ++ [10]

/-- FALSE: the 201st field is silently dropped (journald accepts up to 1024 fields per entry; reproduced on the
real reader with a journal written by the real journald, see the `jrender` correspondence) -/
theorem C09_export_full_false : ¬ C09_export_full := by
  intro h
  have := congrArg List.length (h { cursor := none, realtime := 0, monotonic := none, data := List.replicate 201 [] })
  revert this
  decide +kernel

/-! ## short -/

def opt (pre : Bytes) (v : Option Bytes) (post : Bytes) : Bytes :=
  match v with
  | some x => pre ++ x ++ post
  | none => []

/-- **C09 (short)**: the text after the timestamp, for every combination of present/missing values:
` HOST` if any; ` IDENT` from `SYSLOG_IDENTIFIER`, else from `_COMM`, else nothing; `[PID]` from `_PID`, else from
`SYSLOG_PID`, else nothing (no brackets); `: MESSAGE` if any (no colon otherwise); newline. Unfolds the generated
segments (slots, fallback order, brackets). -/
theorem C09_short_fields (s : Slots) :
    shortTail s =
      opt [32] s.hostname []
      ++ (match s.ident with | some i => 32 :: i | none => opt [32] s.comm [])
      ++ (match s.pid with | some p => 91 :: (p ++ [93]) | none => opt [91] s.syslogPid [93])
      ++ opt [58, 32] s.message []
      ++ [10] := by
  obtain ⟨h, i, sp, c, p, m⟩ := s
  cases h <;> cases i <;> cases sp <;> cases c <;> cases p <;> cases m <;>
    simp [shortTail, SHORT_SEGS, SHORT_TERM, writeSeg, Slots.get, opt]

/-- the short line is the timestamp text followed by that tail -/
theorem C09_short_line (fmt : Bytes) (off : Int) (e : Entry) :
    renderShort fmt false off e = dtText fmt off e ++ shortTail (shortSlots e) := by
  simp [renderShort]

/-- which key fills which slot -/
theorem C09_short_keys :
    slotKey .hostname = str "_HOSTNAME" ∧ slotKey .ident = str "SYSLOG_IDENTIFIER" ∧ slotKey .comm = str "_COMM"
    ∧ slotKey .pid = str "_PID" ∧ slotKey .syslogPid = str "SYSLOG_PID" ∧ slotKey .message = str "MESSAGE" := by decide

/-- invariant of the scan: every filled slot holds the value of one of the given items of that slot's key -/
def SlotsFrom (data : List Bytes) (s : Slots) : Prop :=
  ∀ sl v, s.get sl = some v → slotKey sl ++ [61] ++ v ∈ data

theorem get_set (s : Slots) (sl sl' : Slot) (v : Bytes) :
    (s.set sl v).get sl' = if sl' = sl then some v else s.get sl' := by
  cases sl <;> cases sl' <;> simp [Slots.set, Slots.get]

theorem storeKey_from (data : List Bytes) (s : Slots) (k v : Bytes) (hs : SlotsFrom data s)
    (hm : k ++ [61] ++ v ∈ data) : SlotsFrom data (storeKey s k v) := by
  unfold storeKey
  cases hf : SHORT_ARMS.find? (fun sl => slotKey sl = k) with
  | none => exact hs
  | some sl =>
    have hk : slotKey sl = k := by simpa using List.find?_some hf
    intro sl' v' hg
    rw [get_set] at hg
    by_cases h : sl' = sl
    · simp [h] at hg; subst hg; rw [h, hk]; exact hm
    · simp [h] at hg; exact hs sl' v' hg

theorem shortScan_from (data : List Bytes) (fuel : Nat) (l : List Bytes) (s : Slots)
    (hl : ∀ d ∈ l, d ∈ data) (hs : SlotsFrom data s) : SlotsFrom data (shortScan fuel l s) := by
  induction fuel generalizing l s with
  | zero => simpa [shortScan] using hs
  | succ n ih =>
    cases l with
    | nil => simpa [shortScan] using hs
    | cons d r =>
      have hr : ∀ x ∈ r, x ∈ data := fun x hx => hl x (by simp [hx])
      simp only [shortScan]
      cases hsp : splitAtByte FIELD_MID d with
      | none => exact ih r s hr hs
      | some kv =>
        obtain ⟨k, v⟩ := kv
        have hd := (splitAtByte_some hsp).1
        have hs' : SlotsFrom data (storeKey s k v) :=
          storeKey_from data s k v hs (by have := hl d (by simp); rw [hd] at this; simpa [FIELD_MID] using this)
        simp only []
        split
        · exact hs'
        · exact ih r _ hr hs'

/-- **C09 (short, soundness)**: every value the short rendering prints is the value of a stored item with that
slot's key, among the first 200 enumerated — nothing is invented, no value is attributed to another key. -/
theorem C09_short_slots_sound (e : Entry) (sl : Slot) (v : Bytes) (h : (shortSlots e).get sl = some v) :
    slotKey sl ++ [61] ++ v ∈ e.data := by
  have := shortScan_from e.data SHORT_CAP e.data {} (fun _ h => h) (by intro sl v h; cases sl <;> simp [Slots.get] at h)
  exact this sl v h

def mk (data : List String) : Entry := { cursor := none, realtime := 0, monotonic := none, data := data.map str }

/-- the unrestricted statement: a stored MESSAGE is printed by the short rendering -/
def C09_short_message_full : Prop :=
  ∀ (e : Entry) (v : Bytes), KEY_MESSAGE ++ [61] ++ v ∈ e.data → ∃ v', (shortSlots e).message = some v'

/-- FALSE: a MESSAGE enumerated after 200 other fields is not printed at all (the line is `timestamp host…` with
no text) — reproduced on the real reader: a 316-field entry prints `Sep 30 00:31:49 vm` only. -/
theorem C09_short_message_full_false : ¬ C09_short_message_full := by
  intro h
  obtain ⟨v', hv⟩ := h { cursor := none, realtime := 0, monotonic := none, data := List.replicate 200 (str "A=") ++ [str "MESSAGE=x"] } (str "x") (by decide +kernel)
  have hn : (shortSlots { cursor := none, realtime := 0, monotonic := none, data := List.replicate 200 (str "A=") ++ [str "MESSAGE=x"] }).message = none := by
    decide +kernel
  rw [hn] at hv
  cases hv

/-- A repeated MESSAGE: the short rendering prints the LAST enumerated value, cat the FIRST (reproduced on the real
reader with the corpus journal's `dup` entry). -/
theorem C09_short_cat_disagree :
    (shortSlots (mk ["MESSAGE=a", "MESSAGE=b"])).message = some (str "b")
    ∧ render .Cat 0 (mk ["MESSAGE=a", "MESSAGE=b"]) = .found (str "a\n") := by decide

example : renderShort (str "%s") false 0 (mk ["_HOSTNAME=h", "_COMM=c", "SYSLOG_PID=7", "MESSAGE=m"]) = str "0 h c[7]: m\n" := by decide
example : renderShort (str "%s") false 0 (mk ["MESSAGE=m"]) = str "0: m\n" := by decide
example : renderShort (str "%s") false 0 (mk ["_PID=1", "_COMM=c", "SYSLOG_IDENTIFIER=i", "X"]) = str "0 i[1]\n" := by decide

/-! ## every rendering ends in a newline (C13's prepend mode relies on it) -/

theorem verboseLine_endsNL (kv : KV) : EndsNL (verboseLine kv) :=
  ⟨VERBOSE_BEG ++ kv.1 ++ [VERBOSE_MID] ++ kv.2, by simp [verboseLine, VERBOSE_END]⟩

theorem verboseHeader_endsNL (off : Int) (e : Entry) : EndsNL (verboseHeader off e) :=
  ⟨_, by simp only [verboseHeader, VERBOSE_HEADER_END]; rfl⟩

/-- **C09 / C13**: whatever a rendering prints ends in `\n` — every mode, every entry (any fields, any bytes,
missing cursor / monotonic time / MESSAGE included), every zone. Unfolds the four generated terminators. -/
theorem C09_render_ends_with_newline (mode : Mode) (off : Int) (e : Entry) (t : Bytes)
    (h : render mode off e = .found t) : t.getLast? = some 10 := by
  apply EndsNL.getLast?
  have hshort : ∀ fmt mono, EndsNL (renderShort fmt mono off e) := fun fmt mono =>
    endsNL_append ⟨(SHORT_SEGS.map (writeSeg (shortSlots e))).flatten, by simp [shortTail, SHORT_TERM]⟩
  have hverb : EndsNL (renderVerbose off e) := endsNL_flatten verboseLine verboseLine_endsNL _ (verboseHeader_endsNL off e) _
  have hexp : EndsNL (renderExport e) := ⟨exportHeader e ++ exportFields e.data, by simp [renderExport, EXPORT_TERM]⟩
  cases mode <;> simp only [render, dispatch, Outcome.found.injEq] at h <;> try (subst h; first | exact hshort _ _ | exact hverb | exact hexp)
  -- cat
  simp only [renderCat] at h
  split at h
  · split at h <;> cases h
  · simp only [Outcome.found.injEq] at h; subst h; exact ⟨_, by simp only [CAT_TERM]; rfl⟩

/-! ## nothing is carried from one entry to the next -/

/-- **C09**: the sequence of outcomes of a run is the entry-wise rendering — whatever the reader held before
(`carry`), whatever entries came earlier. Unfolds the generated `BUFFER_LOCAL`. -/
theorem C09_render_depends_only_on_entry (mode : Mode) (off : Int) (carry : Bytes) (es : List Entry) :
    runReader mode off carry es = es.map (render mode off) := by
  unfold runReader
  induction es generalizing carry with
  | nil => rfl
  | cons e r ih =>
    simp only [runReaderG, List.map_cons, ih]
    congr 1
    simp only [stepReaderG, BUFFER_LOCAL, if_true]
    cases render mode off e <;> simp

/-- counter-model: were the buffer kept in the reader and not cleared, the second entry would start with the
first entry's text -/
theorem stale_buffer_leaks :
    runReaderG false .Cat 0 [] [mk ["MESSAGE=a"], mk ["MESSAGE=b"]] = [.found (str "a\n"), .found (str "a\nb\n")]
    ∧ runReader .Cat 0 [] [mk ["MESSAGE=a"], mk ["MESSAGE=b"]] = [.found (str "a\n"), .found (str "b\n")] := by
  decide +kernel

/-! ## the timestamp -/

/-- **C09**: the datetime text of every mode (the seven short variants and verbose) is computed from
`__REALTIME_TIMESTAMP` (`sd_journal_get_realtime_usec`) alone — never from `_SOURCE_REALTIME_TIMESTAMP` or any other
field. Unfolds the generated `DT_USES_SOURCE_OVERRIDE`. -/
theorem C09_timestamp_is_realtime (fmt : Bytes) (off : Int) (e : Entry) :
    dtText fmt off e = strftime (civilOf e.realtime off) fmt := by
  simp [dtText, actualUs, actualUsG, DT_OVERRIDE]

theorem C09_timestamp_ignores_fields (fmt : Bytes) (off : Int) (e e' : Entry) (h : e.realtime = e'.realtime) :
    dtText fmt off e = dtText fmt off e' := by
  rw [C09_timestamp_is_realtime, C09_timestamp_is_realtime, h]

/-- counter-model: with the override absent (`None`) the text would follow the source field -/
theorem source_override_changes_text :
    actualUsG 0 { cursor := none, realtime := 1680331472784185, monotonic := none, data := [str "_SOURCE_REALTIME_TIMESTAMP=1680331472788150"] } = 1680331472788150
    ∧ actualUs { cursor := none, realtime := 1680331472784185, monotonic := none, data := [str "_SOURCE_REALTIME_TIMESTAMP=1680331472788150"] } = 1680331472784185 := by
  decide +kernel

/-- **C09**: the calendar fields that are printed denote the instant: the civil date is valid, the time of day is in
range, and `epochSeconds` of (date, time, zone) is `__REALTIME_TIMESTAMP / 10^6` — for every instant and every zone. -/
theorem C09_timestamp_denotes_instant (us : Nat) (off : Int) :
    let c := civilOf us off
    validDate c.year c.month c.day = true ∧ c.hour ≤ 23 ∧ c.minute ≤ 59 ∧ c.second ≤ 59 ∧ c.micro ≤ 999999
    ∧ epochSeconds c.year c.month c.day c.hour c.minute c.second off = Int.ofNat (us / 1000000)
    ∧ c.unix = us / 1000000 := by
  intro c
  have hr := S4V.Lemmas.Time.civil_roundtrip₂ ((Int.ofNat (us / 1000000) + off) / 86400)
  have hy : c.year = (civilFromDays ((Int.ofNat (us / 1000000) + off) / 86400)).1 := rfl
  have hm : c.month = (civilFromDays ((Int.ofNat (us / 1000000) + off) / 86400)).2.1 := rfl
  have hd : c.day = (civilFromDays ((Int.ofNat (us / 1000000) + off) / 86400)).2.2 := rfl
  have hH : c.hour = ((Int.ofNat (us / 1000000) + off) % 86400).toNat / 3600 := rfl
  have hM : c.minute = ((Int.ofNat (us / 1000000) + off) % 86400).toNat / 60 % 60 := rfl
  have hS : c.second = ((Int.ofNat (us / 1000000) + off) % 86400).toNat % 60 := rfl
  have hU : c.micro = us % 1000000 := rfl
  refine ⟨by rw [hy, hm, hd]; exact hr.1, by omega, by omega, by omega, by omega, ?_, rfl⟩
  unfold epochSeconds
  rw [hy, hm, hd, hr.2, hH, hM, hS]
  omega

/-- the `short-iso` timestamp spelled out (pattern regenerated from `DATETIME_FORMAT_SHORT_ISO`) -/
theorem C09_short_iso_text (off : Int) (e : Entry) :
    ∃ t, render .ShortIso off e = .found (t ++ shortTail (shortSlots e)) ∧
      let c := civilOf e.realtime off
      t = fmtYear c.year ++ [45] ++ zpad 2 c.month.toNat ++ [45] ++ zpad 2 c.day.toNat ++ [32]
          ++ zpad 2 c.hour ++ [58] ++ zpad 2 c.minute ++ [58] ++ zpad 2 c.second := by
  refine ⟨dtText [37, 89, 45, 37, 109, 45, 37, 100, 32, 37, 72, 58, 37, 77, 58, 37, 83] off e, by simp [render, dispatch, renderShort], ?_⟩
  rw [C09_timestamp_is_realtime]
  simp [strftime, strftimeAux, fmtSpec]

/-- the `verbose` header spelled out: `Sat 2023-04-01 06:44:32.788150 +00:00 [cursor]` -/
theorem C09_verbose_text (off : Int) (e : Entry) (cur : Bytes) (hc : e.cursor = some cur) :
    let c := civilOf e.realtime off
    verboseHeader off e = str (WEEKDAYS.getD c.weekday "?") ++ [32] ++ fmtYear c.year ++ [45] ++ zpad 2 c.month.toNat ++ [45] ++ zpad 2 c.day.toNat ++ [32]
          ++ zpad 2 c.hour ++ [58] ++ zpad 2 c.minute ++ [58] ++ zpad 2 c.second ++ [46] ++ zpad 6 c.micro ++ [32] ++ fmtOffName off
          ++ [32, 91] ++ cur ++ [93, 10] := by
  intro c
  simp only [verboseHeader, hc, C09_timestamp_is_realtime]
  simp [strftime, strftimeAux, fmtSpec, VERBOSE_FMT, VERBOSE_SEP, VERBOSE_CURSOR_OPEN, VERBOSE_CURSOR_CLOSE, VERBOSE_HEADER_END, c, civilOf]

/-- `short-monotonic`: `[` + seconds.microseconds right-aligned in 12 columns + `]`, or 12 blanks when libsystemd
gives no monotonic time; the datetime pattern plays no role -/
theorem C09_monotonic_text (off : Int) (e : Entry) :
    render .ShortMonotonic off e = .found (
      (match e.monotonic with
        | some mu => [91] ++ padLeft 12 32 (decimal (mu / 1000000) ++ [46] ++ zpad 6 (mu % 1000000)) ++ [93]
        | none => str "[            ]") ++ shortTail (shortSlots e)) := by
  have hn : MONO_NONE = str "[            ]" := by decide
  cases hmo : e.monotonic <;>
    simp [render, dispatch, renderShort, monoText, monoNumber, hmo, hn, MONO_OPEN, MONO_CLOSE, MONO_WIDTH, MONO_PREC, MONO_DIV]

example : dtText (str "%a %Y-%m-%d %H:%M:%S.%6f %Z") 0 { cursor := none, realtime := 1680331472788150, monotonic := none, data := [] }
    = str "Sat 2023-04-01 06:44:32.788150 +00:00" := by decide +kernel
example : dtText (str "%b %d %H:%M:%S %z %s") (-28800) { cursor := none, realtime := 1680331472788150, monotonic := none, data := [] }
    = str "Mar 31 22:44:32 -0800 1680331472" := by decide +kernel
example : monoNumber 74212842 = str "   74.212842" := by decide +kernel

/-! ## verbose -/

def Keys (m : List KV) : List Bytes := m.map (·.1)

theorem mapGet_some {m : List KV} {k v : Bytes} (h : mapGet m k = some v) : (k, v) ∈ m := by
  simp only [mapGet, Option.map_eq_some_iff] at h
  obtain ⟨p, hp, rfl⟩ := h
  have h1 := List.find?_some hp
  have h2 := List.mem_of_find?_eq_some hp
  simp only [decide_eq_true_eq] at h1
  rw [← h1]; exact h2

theorem mapGet_none {m : List KV} {k : Bytes} (h : mapGet m k = none) : k ∉ Keys m := by
  simp only [mapGet, Option.map_eq_none_iff, List.find?_eq_none, decide_eq_true_eq] at h
  intro hk
  obtain ⟨p, hp, rfl⟩ := List.mem_map.mp hk
  exact h p hp rfl

theorem mapRemove_of_not_mem {m : List KV} {k : Bytes} (h : k ∉ Keys m) : mapRemove m k = m := by
  simp only [mapRemove, List.filter_eq_self, decide_eq_true_eq]
  intro p hp hk
  exact h (List.mem_map.mpr ⟨p, hp, hk⟩)

theorem keys_mapRemove_sublist (m : List KV) (k : Bytes) : (Keys (mapRemove m k)).Sublist (Keys m) :=
  List.Sublist.map _ List.filter_sublist

theorem perm_remove {m : List KV} {k v : Bytes} (hn : (Keys m).Nodup) (hg : mapGet m k = some v) :
    m.Perm ((k, v) :: mapRemove m k) := by
  induction m with
  | nil => simp [mapGet] at hg
  | cons p r ih =>
    have hn' : (Keys r).Nodup := (List.nodup_cons.mp hn).2
    have hp : p.1 ∉ Keys r := (List.nodup_cons.mp hn).1
    by_cases hk : p.1 = k
    · have hv : p = (k, v) := by
        simp only [mapGet, List.find?_cons, hk, decide_true, Option.map_some, Option.some.injEq] at hg
        exact Prod.ext hk hg
      have : mapRemove (p :: r) k = r := by
        have h2 : mapRemove (p :: r) k = mapRemove r k := by simp [mapRemove, hk]
        rw [h2]; exact mapRemove_of_not_mem (hk ▸ hp)
      rw [this, hv]
    · have hg' : mapGet r k = some v := by
        simpa only [mapGet, List.find?_cons, hk, decide_false] using hg
      have h2 : mapRemove (p :: r) k = p :: mapRemove r k := by simp [mapRemove, hk]
      rw [h2]
      exact ((ih hn' hg').cons p).trans (List.Perm.swap _ _ _)

theorem insertSorted_perm (x : KV) (l : List KV) : (insertSorted x l).Perm (x :: l) := by
  induction l with
  | nil => simp [insertSorted]
  | cons y r ih =>
    simp only [insertSorted]
    split
    · exact List.Perm.refl _
    · exact (ih.cons y).trans (List.Perm.swap _ _ _)

theorem sortKV_perm (l : List KV) : (sortKV l).Perm l := by
  induction l with
  | nil => simp [sortKV]
  | cons x r ih =>
    simp only [sortKV, List.foldr_cons]
    exact (insertSorted_perm x _).trans (ih.cons x)

theorem orderedPass_perm (ks : List Bytes) (m : List KV) (hn : (Keys m).Nodup) :
    ((orderedPass ks m).1 ++ (orderedPass ks m).2).Perm m := by
  induction ks generalizing m with
  | nil => simp [orderedPass]
  | cons k ks ih =>
    simp only [orderedPass]
    cases hg : mapGet m k with
    | none => exact ih m hn
    | some v =>
      have hn' : (Keys (mapRemove m k)).Nodup := hn.sublist (keys_mapRemove_sublist m k)
      simp only [List.cons_append]
      exact ((ih _ hn').cons (k, v)).trans (perm_remove hn hg).symm

/-- the regenerated `FIELD_ORDER_VERBOSE`: 102 keys, none twice (so no `remove` is attempted twice), the synthetic
monotonic key is one of them, the key written last is not -/
theorem C09_verbose_order_facts :
    VERBOSE_ORDER.length = 102 ∧ VERBOSE_ORDER.Nodup ∧ VERBOSE_MONO_KEY ∈ VERBOSE_ORDER ∧ VERBOSE_LAST_KEY ∉ VERBOSE_ORDER
    ∧ VERBOSE_LAST_KEY = KEY_SOURCE_REALTIME ∧ VERBOSE_TRIM_SET = [0, 13, 10, 32] := by decide +kernel

/-- the verbose writer emits every pair of its map exactly once (map = key-unique list) -/
theorem verboseOrder_perm (m : List KV) (hn : (Keys m).Nodup) : (verboseOrder m).Perm m := by
  have hn1 : (Keys (mapRemove m VERBOSE_LAST_KEY)).Nodup := hn.sublist (keys_mapRemove_sublist m _)
  have hp := orderedPass_perm VERBOSE_ORDER (mapRemove m VERBOSE_LAST_KEY) hn1
  have hmid : ((orderedPass VERBOSE_ORDER (mapRemove m VERBOSE_LAST_KEY)).1
      ++ sortKV (orderedPass VERBOSE_ORDER (mapRemove m VERBOSE_LAST_KEY)).2).Perm (mapRemove m VERBOSE_LAST_KEY) :=
    (List.Perm.append_left _ (sortKV_perm _)).trans hp
  simp only [verboseOrder]
  cases hg : mapGet m VERBOSE_LAST_KEY with
  | none =>
    simp only [List.append_nil]
    have hrm := mapRemove_of_not_mem (mapGet_none hg)
    rw [hrm] at hmid ⊢
    exact hmid
  | some s =>
    exact (List.perm_append_comm.trans ((hmid.cons _))).trans (perm_remove hn hg).symm

theorem mapInsert_keys_nodup (m : List KV) (k v : Bytes) (hn : (Keys m).Nodup) : (Keys (mapInsert m k v)).Nodup := by
  unfold mapInsert
  split
  · have : Keys (m.map fun p => if p.1 = k then (k, v) else p) = Keys m := by
      simp only [Keys, List.map_map]
      apply List.map_congr_left
      intro p _
      by_cases h : p.1 = k <;> simp [h]
    rw [this]; exact hn
  · rename_i h
    have hk : k ∉ Keys m := by
      intro hk
      obtain ⟨p, hp, rfl⟩ := List.mem_map.mp hk
      exact h (List.any_eq_true.mpr ⟨p, hp, by simp⟩)
    simp only [Keys, List.map_append, List.map_cons, List.map_nil]
    exact List.nodup_append.mpr ⟨hn, by simp, by intro a ha b hb; simp at hb; subst hb; intro h; exact hk (h ▸ ha)⟩

theorem foldl_insert_nodup (l : List Bytes) (m : List KV) (hn : (Keys m).Nodup) :
    (Keys (l.foldl (fun m d => mapInsert m (verboseKV d).1 (verboseKV d).2) m)).Nodup := by
  induction l generalizing m with
  | nil => exact hn
  | cons d r ih => exact ih _ (mapInsert_keys_nodup m _ _ hn)

/-- the map built from an entry never holds a key twice (`HashMap`) -/
theorem verboseMap_keys_nodup (e : Entry) : (Keys (verboseMap e)).Nodup := by
  have h := foldl_insert_nodup (e.data.take VERBOSE_CAP) [] (by simp [Keys])
  unfold verboseMap
  simp only []
  split
  · exact h
  · split
    · exact mapInsert_keys_nodup _ _ _ h
    · exact h

theorem foldl_insert_distinct (l : List Bytes) (m : List KV) (hn : (Keys m ++ Keys (l.map verboseKV)).Nodup) :
    l.foldl (fun m d => mapInsert m (verboseKV d).1 (verboseKV d).2) m = m ++ l.map verboseKV := by
  induction l generalizing m with
  | nil => simp
  | cons d r ih =>
    have hk : (verboseKV d).1 ∉ Keys m := by
      intro hk
      have := (List.nodup_append.mp hn).2.2 _ hk (verboseKV d).1 (by simp [Keys])
      exact this rfl
    have hins : mapInsert m (verboseKV d).1 (verboseKV d).2 = m ++ [verboseKV d] := by
      unfold mapInsert
      have : m.any (fun p => p.1 = (verboseKV d).1) = false := by
        apply Bool.eq_false_iff.mpr
        intro h
        obtain ⟨p, hp, hpk⟩ := List.any_eq_true.mp h
        simp only [decide_eq_true_eq] at hpk
        exact hk (List.mem_map.mpr ⟨p, hp, hpk⟩)
      simp [this]
    simp only [List.foldl_cons, hins]
    rw [ih]
    · simp
    · simpa [Keys, List.append_assoc] using hn

/-- **C09 (verbose)**: for an entry with at most 200 fields whose keys are distinct (and none is the synthetic
`__MONOTONIC_TIMESTAMP`), the rendering is the header line followed by one line `    KEY=VALUE\n` for every stored
field and for the monotonic time — a permutation of exactly those, nothing dropped, nothing added (values as stored,
except the trailing blanks/NULs of `_SELINUX_CONTEXT`, see `verboseKV`). Unfolds the generated cap and keys. -/
theorem C09_verbose_all_fields (off : Int) (e : Entry) (mu : Nat) (hmu : e.monotonic = some mu)
    (hlen : e.data.length ≤ 200) (hd : (Keys (e.data.map verboseKV)).Nodup)
    (hm : VERBOSE_MONO_KEY ∉ Keys (e.data.map verboseKV)) :
    ∃ lines : List KV, render .Verbose off e = .found (verboseHeader off e ++ (lines.map verboseLine).flatten)
      ∧ lines.Perm (e.data.map verboseKV ++ [(VERBOSE_MONO_KEY, decimal mu)]) := by
  refine ⟨verboseOrder (verboseMap e), by simp [render, dispatch, renderVerbose], ?_⟩
  have hfold : (e.data.take VERBOSE_CAP).foldl (fun m d => mapInsert m (verboseKV d).1 (verboseKV d).2) [] = e.data.map verboseKV := by
    rw [List.take_of_length_le (by simpa [VERBOSE_CAP] using hlen), foldl_insert_distinct _ _ (by simpa [Keys] using hd)]
    simp
  have hmap : verboseMap e = e.data.map verboseKV ++ [(VERBOSE_MONO_KEY, decimal mu)] := by
    unfold verboseMap
    simp only [hfold, hmu]
    have hnone : mapGet (e.data.map verboseKV) VERBOSE_MONO_KEY = none := by
      cases hg : mapGet (e.data.map verboseKV) VERBOSE_MONO_KEY with
      | none => rfl
      | some v => exact absurd (List.mem_map.mpr ⟨_, mapGet_some hg, rfl⟩) hm
    simp only [hnone, Option.isSome_none, Bool.false_eq_true, if_false]
    unfold mapInsert
    have : (e.data.map verboseKV).any (fun p => p.1 = VERBOSE_MONO_KEY) = false := by
      apply Bool.eq_false_iff.mpr
      intro h
      obtain ⟨p, hp, hpk⟩ := List.any_eq_true.mp h
      simp only [decide_eq_true_eq] at hpk
      exact hm (List.mem_map.mpr ⟨p, hp, hpk⟩)
    simp [this]
  rw [← hmap]
  exact verboseOrder_perm _ (verboseMap_keys_nodup e)

-- the hypotheses of `C09_verbose_all_fields` are satisfiable by a non-trivial entry
example : let e : Entry := { cursor := some (str "s=1"), realtime := 1680331472788150, monotonic := some 74212842, data := [str "_UID=0", str "MESSAGE=m", str "ZZ=1"] }
    e.data.length ≤ 200 ∧ (Keys (e.data.map verboseKV)).Nodup ∧ VERBOSE_MONO_KEY ∉ Keys (e.data.map verboseKV) := by decide +kernel

/-- the unrestricted statement: every stored item has its line -/
def C09_verbose_full : Prop :=
  ∀ (e : Entry) (d : Bytes), d ∈ e.data → verboseKV d ∈ verboseOrder (verboseMap e)

/-- FALSE for a repeated key: only the value enumerated last is shown (`journalctl -o verbose` shows all) —
reproduced on the real reader with the corpus journal's `dup` entry -/
theorem C09_verbose_full_false : ¬ C09_verbose_full := by
  intro h
  have := h (mk ["A=1", "A=2"]) (str "A=1") (by decide +kernel)
  revert this
  decide +kernel

-- the order of the lines: keys of `FIELD_ORDER_VERBOSE` first (in that order), then the rest sorted bytewise,
-- `_SOURCE_REALTIME_TIMESTAMP` last
example : (verboseOrder (verboseMap { cursor := none, realtime := 0, monotonic := some 5, data := [str "ZZ=1", str "_SOURCE_REALTIME_TIMESTAMP=9", str "MESSAGE=m", str "AA=2", str "_SELINUX_CONTEXT=u \n", str "_UID=0", str "NOEQ"] })).map verboseLine
    = [str "    _UID=0\n", str "    _SELINUX_CONTEXT=u\n", str "    MESSAGE=m\n", str "    __MONOTONIC_TIMESTAMP=5\n", str "    AA=2\n", str "    NOEQ=\n", str "    ZZ=1\n",
       str "    _SOURCE_REALTIME_TIMESTAMP=9\n"] := by decide +kernel

end S4V.Props.JournalRenderSpec
