/-
An obligation over a fact regenerated from the source, with the counter-model of the seeded change that showed the fact
matters (wave 7). See DESIGN.md §10.5.
-/
import S4V.Gen.CliTables

namespace S4V.Props.FactsCli

/-! ### C14: "now" of the now-relative forms is the program start -/

/-- the bound a now-relative value `now + d` resolves to, given which clock reading is handed to `process_dt`:
the program-start reading `start`, or a later reading `start + late` -/
def relBound (nowIsStart : Bool) (start late d : Int) : Int := (if nowIsStart then start else start + late) + d

/-- **C14_now_is_program_start.** Unfolds the regenerated `RELATIVE_NOW_IS_PROGRAM_START`: a now-relative bound is the
program-start instant plus the offset, however late the argument processing reaches it (e.g. after reading a slow path
list from stdin). -/
theorem C14_now_is_program_start (start late d : Int) :
    relBound S4V.Gen.CliTables.RELATIVE_NOW_IS_PROGRAM_START start late d = start + d := by
  have h : S4V.Gen.CliTables.RELATIVE_NOW_IS_PROGRAM_START = true := by decide
  simp [relBound, h]

/-- counter-model (seeded change C14-d): with a fresh clock reading the bound moves by the delay -/
theorem later_now_shifts_bound : relBound false 1700000000 5 0 = 1700000005 := by decide

end S4V.Props.FactsCli
