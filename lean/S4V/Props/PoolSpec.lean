/-
C06 — "the program neither deadlocks nor stops before every source has been drained":
why no worker may WAIT FOR ANOTHER WORKER before it runs its per-file function.

`C06_progress` / `C06_no_deadlock_skeletons` are about the coordinator model `S4V.Model.Coord`, in which every
spawned worker can always take its next step unless its own channel is full. That premise is a fact about
`exec_fileprocessor_thread` (src/bin/s4.rs): between the spawn and the dispatch `match` there is no channel,
lock, semaphore or sleep operation. The translator extracts it (`S4V.Gen.Worker.WORKER_STARTS_UNCONDITIONALLY`,
`WORKER_DISPATCH_IS_LAST`) and `C06_workers_start_unconditionally` below unfolds it, so a change that throttles
the workers (a pool of open files, a semaphore: seeded change C06-d) breaks this obligation.

The counter-model shows what such a throttle does. Abstract state: how many workers have taken a slot
(`started`), how many have ended (`finished`), how many messages the coordinator has printed (`printed`).
  * a worker takes a slot only while fewer than `p` slots are in use;
  * the coordinator prints only when EVERY one of the `n` sources has delivered its first message
    (the wait condition of `processing_loop`), i.e. when all `n` workers have started;
  * a worker with more messages than its channel holds ends (and frees its slot) only after the coordinator
    has printed something.
With `p < n` no state with a printed message is reachable: the run hangs with nothing on stdout, for every
schedule. With `p ≥ n` (no throttle) printing is reachable.
-/
import S4V.Gen.Worker

namespace S4V.Props.PoolSpec
open S4V.Gen.Worker

/-- **C06_workers_start_unconditionally.** Regenerated from `exec_fileprocessor_thread` on every run. -/
theorem C06_workers_start_unconditionally :
    WORKER_STARTS_UNCONDITIONALLY = true ∧ WORKER_DISPATCH_IS_LAST = true := by decide

structure PS where
  started : Nat
  finished : Nat
  printed : Nat
  deriving DecidableEq, Repr

/-- one step of the throttled system with `n` sources and `p` slots -/
inductive PStep (n p : Nat) : PS → PS → Prop
  | start (s : PS) (hslot : s.started - s.finished < p) (hn : s.started < n) :
      PStep n p s { s with started := s.started + 1 }
  | print (s : PS) (hall : s.started = n) :
      PStep n p s { s with printed := s.printed + 1 }
  | finish (s : PS) (hrun : s.finished < s.started) (hpr : 0 < s.printed) :
      PStep n p s { s with finished := s.finished + 1 }

inductive Reach (n p : Nat) : PS → Prop
  | init : Reach n p ⟨0, 0, 0⟩
  | step {s t : PS} : Reach n p s → PStep n p s t → Reach n p t

/-- **bounded_pool_deadlocks.** With fewer slots than sources nothing is ever printed and no worker ever ends:
every run hangs (the coordinator waits for a source that waits for a slot held by a worker that waits for the
coordinator). -/
theorem bounded_pool_deadlocks (n p : Nat) (h : p < n) (s : PS) (hr : Reach n p s) :
    s.printed = 0 ∧ s.finished = 0 ∧ s.started ≤ p := by
  induction hr with
  | init => exact ⟨rfl, rfl, Nat.zero_le _⟩
  | step _ hst ih =>
    obtain ⟨h1, h2, h3⟩ := ih
    cases hst with
    | start hslot hn => exact ⟨h1, h2, by simp only; omega⟩
    | print hall => exact absurd hall (by omega)
    | finish hrun hpr => exact absurd hpr (by omega)

/-- ... and a state in which some worker still waits for a slot and no step but that `start` could help is reached:
all `p` slots taken, `n - p` sources never started. -/
theorem bounded_pool_stuck_state (n p : Nat) (h : p < n) : Reach n p ⟨p, 0, 0⟩ ∧
    ∀ t, ¬ PStep n p ⟨p, 0, 0⟩ t := by
  constructor
  · have : ∀ k, k ≤ p → Reach n p ⟨k, 0, 0⟩ := by
      intro k
      induction k with
      | zero => intro _; exact .init
      | succ k ih =>
        intro hk
        exact .step (ih (by omega)) (.start ⟨k, 0, 0⟩ (by simp only; omega) (by simp only; omega))
    exact this p (Nat.le_refl _)
  · intro t ht
    cases ht with
    | start hslot _ => exact absurd hslot (by simp)
    | print hall => exact absurd hall (by simp; omega)
    | finish _ hpr => exact absurd hpr (by simp)

/-- without a throttle (at least as many slots as sources) the coordinator gets to print -/
theorem unbounded_pool_prints (n p : Nat) (h : n ≤ p) : Reach n p ⟨n, 0, 1⟩ := by
  have : ∀ k, k ≤ n → Reach n p ⟨k, 0, 0⟩ := by
    intro k
    induction k with
    | zero => intro _; exact .init
    | succ k ih =>
      intro hk
      exact .step (ih (by omega)) (.start ⟨k, 0, 0⟩ (by simp only; omega) (by simp only; omega))
  exact .step (this n (Nat.le_refl _)) (.print ⟨n, 0, 0⟩ rfl)

-- the seeded change: 500 slots, 600 sources
example : ∀ s, Reach 600 500 s → s.printed = 0 := fun s hr => (bounded_pool_deadlocks 600 500 (by decide) s hr).1

end S4V.Props.PoolSpec
