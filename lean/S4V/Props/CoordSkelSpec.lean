import S4V.Model.CoordSkel
import S4V.Gen.Coord
import S4V.Props.C06

namespace S4V.Props.CoordSkelSpec
open S4V.Model.Coord S4V.Model.CoordSkel S4V.Gen.Coord

theorem wait_is_waitCond (s : St) : evalW s SKEL.wait = waitCond s := by
  simp [SKEL, evalW, evalCmp, lenOf, nonEmptyOf, waitCond]

theorem polled_is_eligible (s : St) (i : Nat) : polled SKEL s i = eligible s i := by
  simp [SKEL, polled, eligible]

theorem anyPolled_is_anyEligible (s : St) : anyPolled SKEL s = anyEligible s := by
  have : polled SKEL s = eligible s := funext (polled_is_eligible s)
  unfold anyPolled anyEligible
  rw [this]

theorem closeIfEmpty_alive {s : St} (h : Alive s) (hf : s.fin = false) : closeIfEmpty s = s := by
  unfold closeIfEmpty
  split
  · rename_i h0; have := h h0; simp_all
  · rfl

theorem clearFi_live (t : St) (l : List Bool) :
    { clearFiIfAll t with live := l } = clearFiIfAll { t with live := l } := by
  rcases t with ⟨a, b, c, fi, d, e, f, g⟩
  cases fi with
  | none => rfl
  | some fl => simp only [clearFiIfAll]; split <;> rfl

@[simp] theorem clearFi_live_eq (t : St) : (clearFiIfAll t).live = t.live := by
  rcases t with ⟨a, b, c, fi, d, e, f, g⟩
  cases fi with
  | none => rfl
  | some fl => simp only [clearFiIfAll]; split <;> rfl

theorem C06_coord_skeleton_is_model (s : St) (e : Ev) (h : Alive s) :
    skelStep SKEL s e = step s e := by
  cases e with
  | recv i =>
    simp only [skelStep, step, wait_is_waitCond, polled_is_eligible]
    generalize s.streams.getD i [] = st
    split
    · rfl
    · rcases st with _ | ⟨d, r⟩
      · simp [recvArm, endIter, applyEff, SKEL, List.foldl, clearFi_live]
      · cases d <;> simp [recvArm, endIter, applyEff, SKEL, List.foldl, clearFi_live]
  | print =>
    simp only [skelStep, step, wait_is_waitCond]
    generalize minPending s.pending = mp
    split
    · rfl
    · rename_i hc
      rcases mp with _ | ⟨i, m⟩
      · have : s.fin = false := by simp_all
        simp [SKEL, closeIfEmpty_alive h this]
      · simp [endIter, SKEL]
  | brk =>
    simp only [skelStep, step, wait_is_waitCond, anyPolled_is_anyEligible]
    simp [SKEL]
  | fin => rfl

/-! ## transfer: runs of the regenerated loop are runs of the hand model -/

theorem alive_close (x : St) : Alive (closeIfEmpty x) := by
  unfold closeIfEmpty Alive
  split <;> simp_all

theorem alive_step {s s' : St} {e : Ev} (h : Alive s) (hs : step s e = some s') : Alive s' := by
  cases e with
  | recv i =>
    simp only [step] at hs
    split at hs
    · cases hs
    · split at hs <;> (cases hs; exact alive_close _)
  | print =>
    simp only [step] at hs
    split at hs
    · cases hs
    · split at hs <;> (cases hs; exact alive_close _)
  | brk =>
    simp only [step] at hs
    split at hs
    · cases hs
    · cases hs; exact h
  | fin =>
    simp only [step] at hs
    split at hs
    · cases hs; exact h
    · cases hs

theorem countTrue_map_true {α : Type} (l : List α) : countTrue (l.map (fun _ => true)) = l.length := by
  induction l with
  | nil => rfl
  | cons a t ih => simp [countTrue] at ih ⊢; exact ih

theorem alive_init {scripts : List (List Datum)} (hne : scripts ≠ []) : Alive (init scripts) := by
  intro h0
  simp only [init, countTrue_map_true] at h0
  exact absurd (List.eq_nil_of_length_eq_zero h0) hne

theorem skelRun_eq_run {s : St} (h : Alive s) (evs : List Ev) : skelRun SKEL s evs = run s evs := by
  induction evs generalizing s with
  | nil => rfl
  | cons e es ih =>
    simp only [skelRun, run, C06_coord_skeleton_is_model s e h]
    cases hs : step s e with
    | none => rfl
    | some s' => exact ih (alive_step h hs)

/-- states the regenerated loop can reach -/
def SkelReachable (scripts : List (List Datum)) (s : St) : Prop :=
  ∃ evs, skelRun SKEL (init scripts) evs = some s

theorem skelReachable_iff {scripts : List (List Datum)} (hne : scripts ≠ []) (s : St) :
    SkelReachable scripts s ↔ CoordSpec.Reachable scripts s := by
  unfold SkelReachable CoordSpec.Reachable
  constructor <;> (rintro ⟨evs, h⟩; refine ⟨evs, ?_⟩) <;> simpa [skelRun_eq_run (alive_init hne)] using h

theorem skelReachable_alive {scripts : List (List Datum)} (hne : scripts ≠ []) {s : St}
    (hr : SkelReachable scripts s) : Alive s := by
  obtain ⟨evs, h⟩ := hr
  rw [skelRun_eq_run (alive_init hne)] at h
  have : ∀ (evs : List Ev) (a : St), Alive a → run a evs = some s → Alive s := by
    intro evs
    induction evs with
    | nil => intro a ha h; cases h; exact ha
    | cons e es ih =>
      intro a ha h
      simp only [run] at h
      cases hs : step a e with
      | none => simp [hs] at h
      | some a' => rw [hs] at h; exact ih a' (alive_step ha hs) h
  exact this evs _ (alive_init hne) h

/-- C06/C01 for the regenerated loop: whatever the schedule, a finished run has printed the merge -/
theorem C06_skeleton_output_is_merge {scripts : List (List Datum)} (hne : scripts ≠ []) (evs : List Ev) (s : St)
    (hr : skelRun SKEL (init scripts) evs = some s) (hf : s.fin = true) :
    s.printed = merge (scripts.map (fun sc => msgsOf (S4V.Lemmas.Coord.deliverable sc))) := by
  rw [skelRun_eq_run (alive_init hne)] at hr
  exact CoordSpec.confluence scripts evs s hr hf

/-- C06 for the regenerated loop: bound on the number of iterations of any run -/
theorem C06_skeleton_terminates {scripts : List (List Datum)} (hne : scripts ≠ []) (evs : List Ev) (s : St)
    (hr : skelRun SKEL (init scripts) evs = some s) :
    S4V.Lemmas.Coord.iterations evs ≤ 2 * (scripts.map List.length).sum + scripts.length + 2 := by
  rw [skelRun_eq_run (alive_init hne)] at hr
  exact CoordSpec.terminates scripts evs s hr

/-- C06 for the regenerated loop: `recv_many_chan → None → break` is never taken -/
theorem C06_skeleton_never_stops_early {scripts : List (List Datum)} (hwf : S4V.Lemmas.Coord.WF scripts)
    (hne : scripts ≠ []) {s : St} (hr : SkelReachable scripts s) : skelStep SKEL s .brk = none := by
  rw [C06_coord_skeleton_is_model s .brk (skelReachable_alive hne hr)]
  exact CoordSpec.no_break hwf hne ((skelReachable_iff hne s).1 hr)

/-- C06 for the regenerated loop: an unfinished reachable state can receive or print -/
theorem C06_skeleton_progress {scripts : List (List Datum)} (hwf : S4V.Lemmas.Coord.WF scripts)
    (hne : scripts ≠ []) {s : St} (hr : SkelReachable scripts s) (hf : s.fin = false) :
    (skelStep SKEL s .print).isSome = true ∨ ∃ i, (skelStep SKEL s (.recv i)).isSome = true := by
  have ha := skelReachable_alive hne hr
  simp only [C06_coord_skeleton_is_model _ _ ha]
  exact CoordSpec.progress hwf hne ((skelReachable_iff hne s).1 hr) hf

/-- non-vacuity: the running example of `CoordSpec` runs to the end through the interpreter -/
example : (skelRun SKEL (init CoordSpec.ex2) CoordSpec.ex2run).map (fun s => (s.fin, s.broke, s.printed.length)) =
    some (true, false, 4) := by decide

end S4V.Props.CoordSkelSpec
