/-
Message layer: readable statements of the proved properties (C02 at the message
level, C03 for the datetime search and the streamed window), each with a concrete
instance.  Proofs are in `S4V.Lemmas.Syslines` and the files it imports.

Vocabulary (all from `S4V.Model.Syslines` / `S4V.Lemmas.Syslines`):
* `WFLines ls`   – the lines tile `[0, fileSz ls)`;
* `messages ls`  – the specification: a timestamped line plus the following
                   lines without timestamp;
* `Sorted ls`    – the `dt` of `messages ls` is non-decreasing;
* `TwoBytes ls`  – every message has at least two bytes;
* `firstAtOrAfter A M` – `.found (m.fin+1) m` for the first `m ∈ M` with
                   `A ≤ m.dt`, `.done` if there is none.
-/
import S4V.Lemmas.Syslines

namespace S4V.Props.SyslSpec
open S4V.Model.Lines S4V.Model.Syslines S4V.Gen.Filter S4V.Lemmas.Syslines

/-! ### running examples -/

/-- 4 lines, 3 messages, one continuation line, duplicate instants -/
def exA : List LineInfo := [⟨0, 3, some 5⟩, ⟨4, 6, none⟩, ⟨7, 9, some 5⟩, ⟨10, 12, some 8⟩]

/-- 4 lines, 2 messages: a head-less first line, a continuation line, duplicate instants -/
def exB : List LineInfo := [⟨0, 1, none⟩, ⟨2, 4, some 3⟩, ⟨5, 5, none⟩, ⟨6, 8, some 3⟩]

example : WFLines exA ∧ Sorted exA ∧ TwoBytes exA := by decide
example : WFLines exB ∧ Sorted exB ∧ TwoBytes exB := by decide
example : messages exA = [⟨0, 6, 5⟩, ⟨7, 9, 5⟩, ⟨10, 12, 8⟩] := by decide
example : messages exB = [⟨2, 5, 3⟩, ⟨6, 8, 3⟩] := by decide

/-! ### the generated filter functions (`S4V.Gen.Filter`) -/

theorem dtAfterOrBefore_none (t : Int) : dtAfterOrBefore t none = .Pass :=
  S4V.Lemmas.Syslines.dtAfterOrBefore_none t

theorem dtAfterOrBefore_some (t a : Int) :
    dtAfterOrBefore t (some a) = if t < a then .OccursBefore else .OccursAtOrAfter :=
  S4V.Lemmas.Syslines.dtAfterOrBefore_some t a

theorem dtPassFilters_inRange (t : Int) (a b : Option Int) :
    dtPassFilters t a b = .InRange ↔ (∀ x, a = some x → x ≤ t) ∧ (∀ y, b = some y → t ≤ y) :=
  dtPassFilters_inRange_iff t a b

theorem dtPassFilters_beforeRange (t : Int) (a b : Option Int) :
    dtPassFilters t a b = .BeforeRange ↔ ∃ x, a = some x ∧ t < x :=
  dtPassFilters_beforeRange_iff t a b

theorem dtPassFilters_afterRange (t : Int) (a b : Option Int) :
    dtPassFilters t a b = .AfterRange ↔
      (∀ x, a = some x → x ≤ t) ∧ ∃ y, b = some y ∧ y < t :=
  dtPassFilters_afterRange_iff t a b

example : dtPassFilters 5 (some 5) (some 5) = .InRange := by decide
example : dtPassFilters 4 (some 5) none = .BeforeRange := by decide
example : dtPassFilters 6 none (some 5) = .AfterRange := by decide
example : dtAfterOrBefore 5 (some 5) = .OccursAtOrAfter := by decide

/-! ### `linesFrom` produces well-formed line lists -/

/-- `WFLines`, element-wise: non-empty lines, the first at 0, consecutive -/
theorem wfLines_iff (ls : List LineInfo) :
    WFLines ls ↔ (∀ l ∈ ls, l.beg ≤ l.fin) ∧ (∀ l, ls.head? = some l → l.beg = 0) ∧
      (∀ k (h : k + 1 < ls.length), ls[k + 1].beg = ls[k].fin + 1) := WFLines_iff ls

/-- whatever the parser and the bytes, `linesFrom P d` is well formed, covers the
whole file, and each line is `[beg, lineEnd d beg]` with `P` applied to exactly
those bytes -/
theorem linesFrom_wellformed (P : Bytes → Option Int) (d : Bytes) :
    WFLines (linesFrom P d) ∧ fileSz (linesFrom P d) = d.length ∧
    ∀ l ∈ linesFrom P d, l.beg < d.length ∧ l.fin = lineEnd d l.beg ∧
      l.dt = P ((d.drop l.beg).take (l.fin + 1 - l.beg)) :=
  ⟨linesFrom_wf P d, linesFrom_fileSz P d, linesFrom_mem P d⟩

/-- toy parser: a line beginning with an ASCII digit carries that digit as instant -/
def toyP (b : Bytes) : Option Int :=
  match b with
  | c :: _ => if 48 ≤ c.toNat ∧ c.toNat ≤ 57 then some (c.toNat - 48 : Int) else none
  | [] => none

/-- "`5a⏎ b⏎5c⏎8`" -/
def exBytes : Bytes := [53, 97, 10, 32, 98, 10, 53, 99, 10, 56]

example : linesFrom toyP exBytes = [⟨0, 2, some 5⟩, ⟨3, 5, none⟩, ⟨6, 8, some 5⟩, ⟨9, 9, some 8⟩] := by
  decide

/-! ### 1. `lineAt` -/

theorem lineAt_spec {ls : List LineInfo} (hwf : WFLines ls) :
    (∀ fo l, lineAt ls fo = some l ↔ l ∈ ls ∧ l.beg ≤ fo ∧ fo ≤ l.fin) ∧
    (∀ fo, lineAt ls fo = none ↔ fileSz ls ≤ fo) :=
  S4V.Lemmas.Syslines.lineAt_spec hwf

example : lineAt exA 5 = some ⟨4, 6, none⟩ ∧ lineAt exA 13 = none ∧ fileSz exA = 13 := by decide

/-! ### 2. C02, message level: the messages partition the file -/

theorem messages_partition {ls : List LineInfo} (hwf : WFLines ls) :
    -- consecutive: `m_{k+1}.beg = m_k.fin + 1`
    (∀ k (h : k + 1 < (messages ls).length),
      (messages ls)[k + 1].beg = (messages ls)[k].fin + 1) ∧
    -- non-empty
    (∀ m ∈ messages ls, m.beg ≤ m.fin) ∧
    -- the first message begins at the first timestamped line
    ((messages ls).head?.map (·.beg) = (ls.find? (fun l => l.dt.isSome)).map (·.beg)) ∧
    -- the last message ends at the last byte of the file
    (∀ m, (messages ls).getLast? = some m → m.fin + 1 = fileSz ls) ∧
    -- every timestamped line begins a message that carries its instant …
    (∀ l ∈ ls, ∀ t, l.dt = some t → ∃ m ∈ messages ls, m.beg = l.beg ∧ m.dt = t) ∧
    -- … exactly one
    (∀ m ∈ messages ls, ∀ m' ∈ messages ls, m.beg = m'.beg → m = m') ∧
    -- every message begins at a timestamped line with that instant …
    (∀ m ∈ messages ls, ∃ l ∈ ls, l.beg = m.beg ∧ l.dt = some m.dt) ∧
    -- … and contains no other timestamped line
    (∀ m ∈ messages ls, ∀ l ∈ ls, l.dt.isSome → m.beg ≤ l.beg → l.beg ≤ m.fin →
      l.beg = m.beg) ∧
    -- no messages iff no timestamps
    (messages ls = [] ↔ ∀ l ∈ ls, l.dt = none) :=
  S4V.Lemmas.Syslines.messages_partition hwf

example : messages exB = [⟨2, 5, 3⟩, ⟨6, 8, 3⟩] ∧ fileSz exB = 9 := by decide
example : messages [⟨0, 1, none⟩, ⟨2, 2, none⟩] = [] := by decide

/-! ### 3. `findSysline` -/

theorem findSysline_spec {ls : List LineInfo} (hwf : WFLines ls) :
    -- (a) at or past the end of the file
    (∀ fo, fileSz ls ≤ fo → findSysline ls fo = .done) ∧
    -- (b) inside a message (any byte of it, continuation lines included)
    (∀ m ∈ messages ls, ∀ fo, m.beg ≤ fo → fo ≤ m.fin →
      findSysline ls fo = .found (m.fin + 1) m) ∧
    -- (c) before the first message: the first message, or `done` if there is none
    (∀ fo, (∀ m ∈ messages ls, fo < m.beg) →
      findSysline ls fo = match (messages ls).head? with
        | some m0 => .found (m0.fin + 1) m0
        | none => .done) :=
  S4V.Lemmas.Syslines.findSysline_spec hwf

/-- equivalently: the first message whose last byte is at or after `fo` -/
theorem findSysline_eq_first {ls : List LineInfo} (hwf : WFLines ls) (fo : Nat) :
    findSysline ls fo = match (messages ls).find? (fun m => fo ≤ m.fin) with
      | some m => .found (m.fin + 1) m
      | none => .done :=
  findSysline_eq hwf fo

example : findSysline exB 0 = .found 6 ⟨2, 5, 3⟩ ∧       -- (c) head-less prefix
          findSysline exB 5 = .found 6 ⟨2, 5, 3⟩ ∧       -- (b) continuation line
          findSysline exB 6 = .found 9 ⟨6, 8, 3⟩ ∧
          findSysline exB 9 = .done := by decide           -- (a)

/-! ### 4. C02: unfiltered streaming sends every message exactly once, in order -/

theorem streamAll_unfiltered {ls : List LineInfo} (hwf : WFLines ls) (streamed : Bool) :
    streamAll ls streamed none none = messages ls :=
  S4V.Lemmas.Syslines.streamAll_unfiltered hwf streamed

example : streamAll exA true none none = [⟨0, 6, 5⟩, ⟨7, 9, 5⟩, ⟨10, 12, 8⟩] ∧
          streamAll exA false none none = [⟨0, 6, 5⟩, ⟨7, 9, 5⟩, ⟨10, 12, 8⟩] := by decide

/-! ### 5. C03: searching for a datetime -/

/-- linear search: first message with `dt ≥ A` (no ordering hypothesis needed) -/
theorem lsearch_spec {ls : List LineInfo} (hwf : WFLines ls) (A : Int) :
    lsearch ls (some A) (ls.length + 2) 0 = firstAtOrAfter A (messages ls) :=
  S4V.Lemmas.Syslines.lsearch_spec hwf A

/-- … and from the first byte of any message: first message at or after it -/
theorem lsearch_spec_at {ls : List LineInfo} (hwf : WFLines ls) (A : Int) {M1 M2 : List Sysl}
    {m : Sysl} (hM : messages ls = M1 ++ m :: M2) :
    lsearch ls (some A) (ls.length + 2) m.beg = firstAtOrAfter A (m :: M2) :=
  S4V.Lemmas.Syslines.lsearch_spec_at hwf A hM

/-- binary search on a sorted file whose messages have at least two bytes:
the FIRST message with `dt ≥ A` (so with duplicates the earliest one), `.done` if
none; in particular never `.err` (the `assert_le!(fo_a, fo_b)`) nor `.nofuel` -/
theorem bsearch_spec {ls : List LineInfo} (hwf : WFLines ls) (hs : Sorted ls) (h2 : TwoBytes ls)
    (A : Int) : bsearch ls 0 (some A) = firstAtOrAfter A (messages ls) :=
  S4V.Lemmas.Syslines.bsearch_spec hwf hs h2 A

/-- … and from the first byte of any message (how the streaming loop calls it,
with the previous result's `foNext`): the first message at or after it -/
theorem bsearch_spec_at {ls : List LineInfo} (hwf : WFLines ls) (hs : Sorted ls)
    (h2 : TwoBytes ls) (A : Int) {M1 M2 : List Sysl} {m : Sysl}
    (hM : messages ls = M1 ++ m :: M2) :
    bsearch ls m.beg (some A) = firstAtOrAfter A (m :: M2) :=
  S4V.Lemmas.Syslines.bsearch_spec_at hwf hs h2 A hM

/-- … and from the end of the file -/
theorem bsearch_spec_end {ls : List LineInfo} (hwf : WFLines ls) (a : Option Int) :
    bsearch ls (fileSz ls) a = .done :=
  S4V.Lemmas.Syslines.bsearch_spec_end hwf a

theorem search_no_err {ls : List LineInfo} (hwf : WFLines ls) (hs : Sorted ls) (h2 : TwoBytes ls)
    (A : Int) :
    bsearch ls 0 (some A) ≠ .err ∧ bsearch ls 0 (some A) ≠ .nofuel ∧
    lsearch ls (some A) (ls.length + 2) 0 ≠ .err ∧
    lsearch ls (some A) (ls.length + 2) 0 ≠ .nofuel :=
  ⟨(bsearch_no_err hwf hs h2 A).1, (bsearch_no_err hwf hs h2 A).2,
   (lsearch_no_err hwf A).1, (lsearch_no_err hwf A).2⟩

example : bsearch exA 0 (some 5) = .found 7 ⟨0, 6, 5⟩ ∧      -- duplicates: the first one
          lsearch exA (some 5) 6 0 = .found 7 ⟨0, 6, 5⟩ ∧
          bsearch exA 0 (some 6) = .found 13 ⟨10, 12, 8⟩ ∧
          lsearch exA (some 6) 6 0 = .found 13 ⟨10, 12, 8⟩ ∧
          bsearch exA 0 (some 9) = .done ∧
          bsearch exA 7 (some 5) = .found 10 ⟨7, 9, 5⟩ ∧    -- from a message boundary
          firstAtOrAfter 6 (messages exA) = .found 13 ⟨10, 12, 8⟩ := by decide

/-- `TwoBytes` cannot be dropped: a sorted file with 1-byte messages on which the
binary search returns a message before the filter, although a later one passes -/
theorem bsearch_twobytes_needed :
    WFLines oneByteFile ∧ Sorted oneByteFile ∧
      bsearch oneByteFile 0 (some 1) = .found 2 ⟨1, 1, 0⟩ ∧
      firstAtOrAfter 1 (messages oneByteFile) = .found 4 ⟨2, 3, 1⟩ :=
  S4V.Lemmas.Syslines.bsearch_twobytes_needed

/-- `bsearch_spec` without `TwoBytes` … -/
def bsearch_spec_full : Prop :=
  ∀ (ls : List LineInfo) (A : Int), WFLines ls → Sorted ls →
    bsearch ls 0 (some A) = firstAtOrAfter A (messages ls)

/-- … is false -/
theorem bsearch_spec_full_false : ¬ bsearch_spec_full := by
  intro h
  have := h oneByteFile 1 (by decide) (by decide)
  revert this
  decide

/-! ### 6. C03: streaming a datetime window -/

/-- exactly the messages with `a ≤ dt ≤ b` (a missing bound is no bound), in file
order; holds for every `a`, `b` (if `a > b` both sides are empty) -/
theorem streamAll_window {ls : List LineInfo} (hwf : WFLines ls) (hs : Sorted ls)
    (h2 : TwoBytes ls) (streamed : Bool) (a b : Option Int) :
    streamAll ls streamed a b
      = (messages ls).filter (fun m => dtPassFilters m.dt a b = .InRange) :=
  S4V.Lemmas.Syslines.streamAll_window hwf hs h2 streamed a b

example : streamAll exA false (some 5) (some 7) = [⟨0, 6, 5⟩, ⟨7, 9, 5⟩] ∧
          streamAll exA true (some 5) (some 7) = [⟨0, 6, 5⟩, ⟨7, 9, 5⟩] ∧
          streamAll exA false (some 6) none = [⟨10, 12, 8⟩] ∧
          streamAll exA false none (some 4) = [] ∧
          streamAll exA false (some 9) (some 5) = [] := by decide

end S4V.Props.SyslSpec
