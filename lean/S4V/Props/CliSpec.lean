/-
C14 — `--dt-after` / `--dt-before` arguments resolve to the documented instant.

Statements are over `S4V.Model.Cli` (strings are `List Char`; a resolved
datetime is a `DT`, its instant `DT.ns` is in nanoseconds since the epoch).
Generated constants (`cliFilterPatterns`, `durRegexAnchored*`, `tzTable`,
`durRegexAlternatives`) are unfolded by the proofs, never assumed.
-/
import S4V.Lemmas.Cli
import S4V.Lemmas.CliRows
import S4V.Lemmas.CliTime
import S4V.Lemmas.CliAbs

namespace S4V.Props.CliSpec
open S4V.Model.Cli S4V.Gen.CliTables S4V.Lemmas.Cli S4V.Lemmas.CliRows

/-! ## relative forms -/

/-- seconds per unit letter -/
def mult (u : Char) : Nat :=
  if u = 's' then 1 else if u = 'm' then 60 else if u = 'h' then 3600 else if u = 'd' then 86400 else 604800

/-- Σ count × unit over the tokens as written -/
def totalOf (toks : List Tok) : Nat := (toks.map fun t => numVal t.ds * mult t.u).sum

theorem totalOf_by_unit (toks : List Tok) (wf : ∀ t ∈ toks, t.WF) :
    (totalOf toks : Int) = (sumOf 's' toks : Int) + sumOf 'm' toks * 60 + sumOf 'h' toks * 3600 +
      sumOf 'd' toks * 86400 + sumOf 'w' toks * 604800 := by
  induction toks with
  | nil => simp [totalOf, sumOf]
  | cons t ts ih =>
    have := ih (fun x hx => wf x (by simp [hx]))
    have hu := (wf t (by simp)).2.2
    simp only [totalOf, sumOf] at this ⊢
    simp at hu
    rcases hu with h | h | h | h | h <;>
      simp [h, mult, List.filter_cons] at this ⊢ <;> omega

/-- **C14_rel.** The regex does not fix the order of the units: for every string
`[@]?[+-](N u)+` with ASCII digit strings `N` (any length, leading zeros allowed, value ≤ 10^9),
unit letters among w d h m s in ANY order, each unit at most once, the duration is the signed sum
of count × unit, and the `@` decides whether it is relative to the other bound. -/
theorem C14_rel (other neg : Bool) (t : Tok) (ts : List Tok) (wf : ∀ x ∈ t :: ts, x.WF)
    (small : ∀ x ∈ t :: ts, numVal x.ds ≤ 1000000000) (distinct : ((t :: ts).map (·.u)).Nodup) :
    durOf (relPrefix other neg ++ renderToks (t :: ts)) =
      .ok ((if neg then -1 else 1) * (totalOf (t :: ts) : Int)) other := by
  rw [durOf_render other neg t ts wf small, totalOf_by_unit (t :: ts) wf]
  rw [valOf_lastOf_nodup 's' _ distinct, valOf_lastOf_nodup 'm' _ distinct, valOf_lastOf_nodup 'h' _ distinct,
    valOf_lastOf_nodup 'd' _ distinct, valOf_lastOf_nodup 'w' _ distinct]

/-- as coded, for repeated units too: each unit counts with its LAST occurrence only -/
theorem C14_rel_lastwins (other neg : Bool) (t : Tok) (ts : List Tok) (wf : ∀ x ∈ t :: ts, x.WF)
    (small : ∀ x ∈ t :: ts, numVal x.ds ≤ 1000000000) :
    durOf (relPrefix other neg ++ renderToks (t :: ts)) =
      .ok ((if neg then -1 else 1) *
        ((valOf (lastOf 's' none (t :: ts)) : Int) + valOf (lastOf 'm' none (t :: ts)) * 60 +
          valOf (lastOf 'h' none (t :: ts)) * 3600 + valOf (lastOf 'd' none (t :: ts)) * 86400 +
          valOf (lastOf 'w' none (t :: ts)) * 604800)) other :=
  durOf_render other neg t ts wf small

-- hypotheses of C14_rel are satisfiable: "-1w22h" (the help text's example), units out of order
example : durOf (relPrefix false true ++ renderToks [⟨['2', '2'], 'h'⟩, ⟨['1'], 'w'⟩]) = .ok (-(22 * 3600 + 604800)) false := by
  have h := C14_rel false true ⟨['2', '2'], 'h'⟩ [⟨['1'], 'w'⟩]
    (by intro x hx; simp at hx; rcases hx with h | h <;> subst h <;> simp [Tok.WF] <;> decide)
    (by intro x hx; simp at hx; rcases hx with h | h <;> subst h <;> decide) (by decide)
  rw [h]; decide

/-! ## `@` forms: evaluation order of `-a` / `-b` -/

/-- the peek at a value that is not itself of the `@` form and neither exits nor panics -/
def plainPeek (x : List Char) : Prop := (∀ d, durOf x ≠ .ok d true) ∧ durOf x ≠ .exit ∧ durOf x ≠ .panic

/-- a value starting with `@` skips every pattern row and is resolved against the other bound -/
theorem processDtL_at (r : List Char) (D : Int) (tz now : Int) (o : DT) (hy : durOf ('@' :: r) = .ok D true) :
    processDtL ('@' :: r) tz (some o) now =
      match addDur o D with
      | some dt => .some dt
      | none => .none := by
  simp only [processDtL, firstRow_at_none r tz, relToDt, hy]
  cases addDur o D <;> rfl

/-- `-a X -b @±D`: `-a` is resolved first (alone), then `-b` is `X ± D` -/
theorem resolve_at_before (x r : List Char) (D : Int) (tz now : Int) (dtx : DT)
    (hy : durOf ('@' :: r) = .ok D true) (hp : plainPeek x) (hx : processDtL x tz none now = .some dtx) :
    resolveABL (some x) (some ('@' :: r)) tz now =
      match addDur dtx D with
      | some dtb => finishAB (some dtx) (some dtb)
      | none => .reject .unparsableBefore := by
  obtain ⟨h1, h2, h3⟩ := hp
  have hrow := fun o => processDtL_at r D tz now o hy
  unfold resolveABL
  simp only [Option.getD, hy]
  cases hpx : durOf x with
  | exit => exact absurd hpx h2
  | panic => exact absurd hpx h3
  | none =>
    simp [processDtExit, hx, hrow]
    cases addDur dtx D <;> simp
  | ok d o =>
    cases o with
    | true => exact absurd hpx (h1 d)
    | false =>
      simp [processDtExit, hx, hrow]
      cases addDur dtx D <;> simp

/-- `-a @±D -b X`: `-b` is resolved first (alone), then `-a` is `X ± D` -/
theorem resolve_at_after (x r : List Char) (D : Int) (tz now : Int) (dtx : DT)
    (hy : durOf ('@' :: r) = .ok D true) (hp : plainPeek x) (hx : processDtL x tz none now = .some dtx) :
    resolveABL (some ('@' :: r)) (some x) tz now =
      match addDur dtx D with
      | some dta => finishAB (some dta) (some dtx)
      | none => .reject .unparsableAfter := by
  obtain ⟨h1, h2, h3⟩ := hp
  have hrow := fun o => processDtL_at r D tz now o hy
  unfold resolveABL
  simp only [Option.getD, hy]
  cases hpx : durOf x with
  | exit => exact absurd hpx h2
  | panic => exact absurd hpx h3
  | none =>
    simp [processDtExit, hx, hrow]
    cases addDur dtx D <;> simp
  | ok d o =>
    cases o with
    | true => exact absurd hpx (h1 d)
    | false =>
      simp [processDtExit, hx, hrow]
      cases addDur dtx D <;> simp

/-- two plain values: `-a` first, then `-b` with `-a`'s result as its "other" -/
theorem resolve_plain (x y : List Char) (tz now : Int) (dtx dty : DT)
    (hpx : plainPeek x) (hpy : durOf y ≠ .exit ∧ durOf y ≠ .panic)
    (hx : processDtL x tz none now = .some dtx) (hy : processDtL y tz (some dtx) now = .some dty) :
    resolveABL (some x) (some y) tz now = finishAB (some dtx) (some dty) := by
  obtain ⟨h1, h2, h3⟩ := hpx
  unfold resolveABL
  simp only [Option.getD]
  cases hpx : durOf x with
  | exit => exact absurd hpx h2
  | panic => exact absurd hpx h3
  | none =>
    cases hpy' : durOf y <;> simp_all [processDtExit]
  | ok d o =>
    cases o with
    | true => exact absurd hpx (h1 d)
    | false => cases hpy' : durOf y <;> simp_all [processDtExit]

/-- **C14_at.** `-a X -b @±D` resolves exactly as `-a X -b Y` for any plain `Y` that denotes `X ± D`
(the help text's "-a 20220102 -b @+1d is equivalent to -a 20220102 -b 20220103"), for every string
`@[+-](N u)+` of the relative grammar. -/
theorem C14_at (x y : List Char) (neg : Bool) (t : Tok) (ts : List Tok) (wf : ∀ k ∈ t :: ts, k.WF)
    (small : ∀ k ∈ t :: ts, numVal k.ds ≤ 1000000000) (distinct : ((t :: ts).map (·.u)).Nodup)
    (tz now : Int) (dtx dty : DT) (hpx : plainPeek x) (hpy : plainPeek y)
    (hx : processDtL x tz none now = .some dtx)
    (hd : addDur dtx ((if neg then -1 else 1) * (totalOf (t :: ts) : Int)) = some dty)
    (hy : processDtL y tz (some dtx) now = .some dty) :
    resolveABL (some x) (some (relPrefix true neg ++ renderToks (t :: ts))) tz now =
      resolveABL (some x) (some y) tz now := by
  have hdur := C14_rel true neg t ts wf small distinct
  have e : relPrefix true neg ++ renderToks (t :: ts) = '@' :: ([if neg then '-' else '+'] ++ renderToks (t :: ts)) := by
    simp [relPrefix]
  rw [e] at hdur ⊢
  rw [resolve_at_before x _ _ tz now dtx hdur hpx hx, hd, resolve_plain x y tz now dtx dty hpx ⟨hpy.2.1, hpy.2.2⟩ hx hy]

/-- symmetric: `-a @±D -b X` resolves with `-a = X ± D` -/
theorem C14_at_after (x : List Char) (neg : Bool) (t : Tok) (ts : List Tok) (wf : ∀ k ∈ t :: ts, k.WF)
    (small : ∀ k ∈ t :: ts, numVal k.ds ≤ 1000000000) (distinct : ((t :: ts).map (·.u)).Nodup)
    (tz now : Int) (dtx dta : DT) (hpx : plainPeek x)
    (hx : processDtL x tz none now = .some dtx)
    (hd : addDur dtx ((if neg then -1 else 1) * (totalOf (t :: ts) : Int)) = some dta) :
    resolveABL (some (relPrefix true neg ++ renderToks (t :: ts))) (some x) tz now = finishAB (some dta) (some dtx) := by
  have hdur := C14_rel true neg t ts wf small distinct
  have e : relPrefix true neg ++ renderToks (t :: ts) = '@' :: ([if neg then '-' else '+'] ++ renderToks (t :: ts)) := by
    simp [relPrefix]
  rw [e] at hdur ⊢
  rw [resolve_at_after x _ _ tz now dtx hdur hpx hx, hd]

/-! ## rejections -/

/-- **C14_reject (both relative).** -/
theorem C14_reject_both_relative (a b : List Char) (da db : Int) (tz now : Int)
    (ha : durOf a = .ok da true) (hb : durOf b = .ok db true) :
    resolveABL (some a) (some b) tz now = .reject .bothRelative := by
  simp [resolveABL, ha, hb]

theorem finishAB_ok (a b fa fb : Option DT) (h : finishAB a b = .ok fa fb) :
    ∀ dta dtb, fa = some dta → fb = some dtb → dta.gt dtb = false := by
  intro dta dtb ea eb
  unfold finishAB at h
  split at h
  · split at h
    · cases h
    · cases h; cases ea; cases eb; simp_all
  · cases h; subst ea; subst eb; simp_all

/-- **C14_reject (after > before).** whatever `-a`/`-b` are, an accepted pair is ordered -/
theorem C14_reject_after_gt_before (a b : Option (List Char)) (tz now : Int) (fa fb : Option DT)
    (h : resolveABL a b tz now = .ok fa fb) (dta dtb : DT) (ea : fa = some dta) (eb : fb = some dtb) :
    dta.gt dtb = false := by
  unfold resolveABL at h
  dsimp only at h
  split at h
  · cases h
  split at h
  · cases h
  split at h
  · cases h
  split at h
  · cases h
  split at h
  · cases h
  · split at h
    · cases h
    split at h
    · cases h
    exact finishAB_ok _ _ _ _ h dta dtb ea eb
  · split at h
    · cases h
    split at h
    · cases h
    exact finishAB_ok _ _ _ _ h dta dtb ea eb

/-- **C14_reject (ambiguous zone, `--tz-offset`).** every name the generated table marks ambiguous is refused -/
theorem C14_reject_ambiguous_tz_offset :
    tzTable.all (fun kv => kv.2 != "" || (cliProcessTzOffset kv.1).isNone) = true := by
  decide +kernel

/-- as coded in `process_dt`: an ambiguous (or any) zone name contributes the table's text, so an
ambiguous name contributes nothing and the row parses the rest alone -/
theorem rowValue_named (row : Row) (v : List Char) (z : String) (hz : row.hasTzZ = true)
    (hl : lookupTz (splitAlphaTail v).2 = some z) :
    rowValue row v = some ((splitAlphaTail v).1 ++ z.toList ++ (if row.hasTime then [] else appendTimeValue.toList)) := by
  simp [rowValue, hz, hl]

/-- an ambiguous name after a documented date-time is rejected (decided instance, all 76 rows + the regex) … -/
theorem C14_reject_ambiguous_instance :
    processDtL ['2','0','2','2','-','0','1','-','0','2','T','0','3',':','0','4',':','0','5',' ','S','S','T'] 0 none 0 = .none := by
  decide +kernel

/-! ## garbage: the relative regex is anchored (finding F5, repaired) -/

/-- the documented relative grammar `[@]?[+-](N u)+` (digits as the regex sees them) -/
def InRelGrammar (v : List Char) : Prop :=
  ∃ other neg t ts, (∀ x ∈ t :: ts, Tok.WFNd x) ∧ v = relPrefix other neg ++ renderToks (t :: ts)

/-- "every string outside the relative grammar is refused by the relative branch" — TRUE on this
tree: `C14_reject_garbage` -/
def C14_reject_garbage_full : Prop := ∀ v : List Char, ¬ InRelGrammar v → durOf v = .none

/-- the generated regex carries both anchors (`^…$`) -/
theorem dur_regex_anchored : durRegexAnchoredStart = true ∧ durRegexAnchoredEnd = true := by decide

/-- **C14_rel_partial.** With both anchors (`^…$`) the relative branch accepts only the grammar:
a whole-string match is `[@]?[+-](N u)+`. (Repeated units still resolve last-wins: `C14_rel_lastwins`.) -/
theorem C14_rel_partial (v : List Char) (caps : Caps) (h : searchWith true true v = some caps) : InRelGrammar v := by
  cases v with
  | nil => simp [searchWith] at h
  | cons c r =>
    unfold searchWith at h
    split at h
    · rename_i caps' rest hm
      simp at h
      have hr : rest = [] := by
        rcases h with ⟨h1, _⟩
        simpa using h1
      subst hr
      exact matchAt_inv _ _ hm
    · simp at h

-- non-vacuity of C14_rel_partial: `-1w22h` is matched whole
example : (searchWith true true ['-', '1', 'w', '2', '2', 'h']).isSome = true := by decide

/-- the search `string_wdhms_to_duration` runs is the whole-string one (generated anchors unfolded) -/
theorem search_anchored (v : List Char) : search v = searchWith true true v := by
  unfold search
  rw [dur_regex_anchored.1, dur_regex_anchored.2]

/-- **C14_reject (garbage).** every string outside `[@]?[+-](N u)+` is refused by the relative branch -/
theorem C14_reject_garbage : C14_reject_garbage_full := by
  intro v hv
  unfold durOf
  split
  · rfl
  · rw [search_anchored]
    cases hs : searchWith true true v with
    | none => rfl
    | some caps => exact absurd (C14_rel_partial v caps hs) hv

/-- the same, read forwards: any outcome of the relative branch other than "no match" (a duration,
the i64 exit, the overflow panic) comes from a string of the grammar -/
theorem C14_rel_only_grammar (v : List Char) (h : durOf v ≠ .none) : InRelGrammar v :=
  Classical.byContradiction fun hn => h (C14_reject_garbage v hn)

/-- … through the whole of `process_dt`: a value outside the relative grammar that no pattern row
reads is unparsable, whatever the other bound and the clock -/
theorem C14_reject_garbage_processDt (v : List Char) (tz now : Int) (other : Option DT)
    (hv : ¬ InRelGrammar v) (hrow : firstRow cliFilterPatterns v tz = none) :
    processDtL v tz other now = .none := by
  simp [processDtL, hrow, relToDt, C14_reject_garbage v hv]

theorem not_grammar_prefix_instance : ¬ InRelGrammar ['f', 'o', 'o', '+', '1', 'd'] := by
  rintro ⟨other, neg, t, ts, _, e⟩
  cases other <;> cases neg <;> simp [relPrefix] at e

/-- the former witnesses of F5 through the whole of `process_dt` (all 76 rows, then the regex):
`foo+1d` and `@+1d+11h` are now unparsable (`Result.none` = "no row and no relative match") … -/
theorem garbage_prefix_rejected :
    processDtL ['f', 'o', 'o', '+', '1', 'd'] 0 none 0 = .none := by decide +kernel
theorem garbage_tail_rejected :
    processDtL ['@', '+', '1', 'd', '+', '1', '1', 'h'] 0 (some ⟨0, 0, 0⟩) 0 = .none := by decide +kernel
/-- … while `@+1d2d` IS in the grammar `(N u)+` and stays + 2 days: an instance of `C14_rel_lastwins` -/
theorem rel_repeat_last_wins_instance :
    processDtL ['@', '+', '1', 'd', '2', 'd'] 0 (some ⟨0, 0, 0⟩) 0 = .some ⟨172800, 0, 0⟩ := by decide +kernel

/-- counter-model (the defect as it was): without the anchors the same search accepts `foo+1d` as
`+1d` and `@+1d+11h` as `@+1d` -/
theorem unanchored_accepts_garbage :
    (searchWith false false ['f', 'o', 'o', '+', '1', 'd']).isSome = true := by decide
theorem unanchored_drops_tail :
    searchWith false false ['@', '+', '1', 'd', '+', '1', '1', 'h'] =
      some { other := true, neg := false, d := some ['1'] } := by decide

/-! ## `+epoch` -/

/-- "`+N` is the Unix epoch second N" for every `--tz-offset` — FALSE on this tree: the row `+%s` has
`has_tz = false`, so chrono's naive result is read as LOCAL time in the `--tz-offset` zone -/
def C14_epoch_full : Prop :=
  ∀ tz : Int, processDtL ['+', '9', '4', '6', '6', '8', '4', '8', '0', '0'] tz none 0 = .some ⟨946684800, 0, tz⟩

theorem C14_epoch_full_false : ¬ C14_epoch_full := by
  intro h
  have h1 := h 19800
  have h2 : processDtL ['+', '9', '4', '6', '6', '8', '4', '8', '0', '0'] 19800 none 0 = .some ⟨946684800 - 19800, 0, 19800⟩ := by
    decide +kernel
  rw [h2] at h1
  cases h1

/-- the help text's example holds when `--tz-offset` is zero -/
theorem C14_epoch_instance :
    processDtL ['+', '9', '4', '6', '6', '8', '4', '8', '0', '0'] 0 none 0 = .some ⟨946684800, 0, 0⟩ := by
  decide +kernel

/-! ## absolute forms: a representative value of every row (table fact) -/

/-- a value of the documented grammar of a pattern: 2024-02-29 23:59:58, fraction .123 / .123456,
zone `+0530` (`%z`), `+05:30` (`%:z`), `+05` (`%#z`), `PST` (`%Z`); `%s` = 946684800 -/
def reprValue : List Char → List Char
  | [] => []
  | '%' :: 'Y' :: r => ['2', '0', '2', '4'] ++ reprValue r
  | '%' :: 'm' :: r => ['0', '2'] ++ reprValue r
  | '%' :: 'd' :: r => ['2', '9'] ++ reprValue r
  | '%' :: 'H' :: r => ['2', '3'] ++ reprValue r
  | '%' :: 'M' :: r => ['5', '9'] ++ reprValue r
  | '%' :: 'S' :: r => ['5', '8'] ++ reprValue r
  | '%' :: 's' :: r => ['9', '4', '6', '6', '8', '4', '8', '0', '0'] ++ reprValue r
  | '%' :: '3' :: 'f' :: r => ['1', '2', '3'] ++ reprValue r
  | '%' :: '6' :: 'f' :: r => ['1', '2', '3', '4', '5', '6'] ++ reprValue r
  | '%' :: 'z' :: r => ['+', '0', '5', '3', '0'] ++ reprValue r
  | '%' :: ':' :: 'z' :: r => ['+', '0', '5', ':', '3', '0'] ++ reprValue r
  | '%' :: '#' :: 'z' :: r => ['+', '0', '5'] ++ reprValue r
  | '%' :: 'Z' :: r => ['P', 'S', 'T'] ++ reprValue r
  | c :: r => c :: reprValue r

/-- the documented denotation of `reprValue row.pattern`, from the calendar arithmetic of
`S4V.Model.Time` (not from the interpreter): a bare date means 00:00:00, a zone-less value is read
at `tz`, `+N` is N seconds read at `tz` (see `C14_epoch_full_false`) -/
def reprDenote (row : Row) (tz : Int) : DT :=
  let items := parsePattern row.pattern.toList
  let off : Int :=
    if items.contains (.tz true) then 18000
    else if items.contains (.tz false) then 19800
    else if items.contains .tzName then -28800
    else tz
  if items.contains .timestamp then ⟨946684800 - tz, 0, tz⟩
  else
    let frac : Nat := if items.contains (.nano 3) then 123000000 else if items.contains (.nano 6) then 123456000 else 0
    if row.hasTime then ⟨S4V.Model.Time.epochSeconds 2024 2 29 23 59 58 off, frac, off⟩
    else ⟨S4V.Model.Time.epochSeconds 2024 2 29 0 0 0 off, 0, off⟩

/-- **C14_abs (representatives).** every one of the generated rows resolves its representative
grammar value, through its own row, to the documented instant (at `--tz-offset +05:30`) -/
theorem C14_abs_repr_own_row :
    cliFilterPatterns.all (fun row =>
      attemptRow row (reprValue row.pattern.toList) 19800 == some (reprDenote row 19800)) = true := by
  decide +kernel

/-- … and at `--tz-offset -08:00` -/
theorem C14_abs_repr_own_row_west :
    cliFilterPatterns.all (fun row =>
      attemptRow row (reprValue row.pattern.toList) (-28800) == some (reprDenote row (-28800))) = true := by
  decide +kernel

/-- **C14_no_steal (representatives).** for the forms the help text documents (rows 0, 15, 30, 57,
72–75) and one row of each zone flavour, the FIRST matching row of the whole table yields the
documented instant too (an earlier row may match — e.g. `%z` also reads `+05:30` — but agrees) -/
theorem C14_no_steal_repr :
    ([0, 15, 30, 57, 72, 73, 74, 75, 3, 6, 9, 12, 22, 50, 71].all fun i =>
      match cliFilterPatterns[i]? with
      | some row => firstRow cliFilterPatterns (reprValue row.pattern.toList) 19800 == some (reprDenote row 19800)
      | none => false) = true := by
  decide +kernel

/-! ## absolute forms: EVERY value of every row (C14_abs)

A value is given by its fields (`S4V.Lemmas.CliAbs.Fields`): year, month, day, hour, minute,
second, milliseconds (`%3f`), microseconds (`%6f`), a numeric zone (sign character, hours, minutes
and one of the spellings `±HHMM`, `±HH:MM`, and for `%#z` also `±HH`, `Z`, `z`), a zone name (`%Z`)
and the digits of `%s`. `render row f` writes the fields through the row's OWN pattern items
(`parsePattern row.pattern`): `%Y` four digits, `%m %d %H %M %S` two digits, `%3f`/`%6f` exactly
three / six digits, literals as they stand. `Fields.Valid` is the range the interpreter accepts:
year `0000 … 9999` (an unsigned `%Y` reads at most four digits), a valid calendar date, hour `≤ 23`,
minute `≤ 59`, second `≤ 60` (`60` = leap-second reading: stored as `:59` with a fraction `≥ 10^9`,
the instant is that of `:60`, see `C14_abs_instant`), zone sign `+`, `-` or U+2212, zone hours `≤ 23`,
zone minutes `≤ 59`, a zone name the generated table maps to a non-empty offset, `%s` a non-empty
digit string `≤ 8210266790399` (chrono's last second minus one day). `denote row f tz` is computed from
`S4V.Model.Time.epochSeconds`, not from the interpreter. -/

section AbsAll
open S4V.Lemmas.CliAbs

/-- "every value of every supported absolute notation resolves, through its own row, to the instant it
denotes": explicit zone wins, zone-less is read at `--tz-offset`, a bare date means 00:00:00 — TRUE on
this tree for all 76 generated rows: `C14_abs`. (`styleOk`: a `%z` / `%:z` row is given the minutes;
`%#z` rows take every spelling.) -/
def C14_abs_full : Prop :=
  ∀ row ∈ cliFilterPatterns, ∀ f : Fields, f.Valid → styleOk f (parsePattern row.pattern.toList) = true →
    ∀ tz : Int, -86400 < tz ∧ tz < 86400 →
      attemptRow row (render row f) tz = some (denote row f tz)

/-- **C14_abs.** For EVERY row of the generated table and EVERY value of the row's grammar. The proof
unfolds the generated rows and the generated zone-name table (`rows_ok`, `tzTable_ok`: decided table
facts) and lifts them by the round-trip lemmas of `S4V.Lemmas.CliAbs`. -/
theorem C14_abs : C14_abs_full := fun row hrow f hf hst tz htz =>
  attemptRow_render row f hf tz htz (List.all_eq_true.mp rows_ok row hrow) hst

/-- all 76 rows satisfy the decidable per-row condition the general proof needs (none is left to its
representative fact) -/
theorem C14_abs_rows_covered : (cliFilterPatterns.filter RowOk).length = cliFilterPatternsCount := by
  decide +kernel

/-- what `denote` says, civil rows: the instant (nanoseconds since the epoch) of the written
date-time — midnight for a bare date — with the fraction the pattern carries, at the written numeric
zone, else at the named zone, else at `--tz-offset`. Holds for the leap-second reading `:60` too. -/
theorem C14_abs_instant (row : Row) (f : Fields) (tz : Int)
    (hts : (parsePattern row.pattern.toList).contains .timestamp = false) :
    (denote row f tz).ns =
      let its := parsePattern row.pattern.toList
      let off : Int := if hasZone its then f.zoneOff else if its.contains .tzName then nameOff f.zname else tz
      let nano : Nat := (nanoOpt f its).getD 0
      if its.contains .hour then
        S4V.Model.Time.instantNs f.year f.month f.day f.hour f.minute f.second nano off
      else S4V.Model.Time.instantNs f.year f.month f.day 0 0 0 nano off := by
  simp only [denote, hts, Bool.false_eq_true, if_false]
  split <;> exact civilDT_ns _ _ _ _ _ _ _ _

/-- explicit zone wins: with a written zone (numeric or named) the result does not depend on `--tz-offset` -/
theorem C14_abs_zone_wins (row : Row) (f : Fields) (tz tz' : Int)
    (hts : (parsePattern row.pattern.toList).contains .timestamp = false)
    (hz : hasZone (parsePattern row.pattern.toList) = true ∨ (parsePattern row.pattern.toList).contains .tzName = true) :
    denote row f tz = denote row f tz' := by
  simp only [denote, hts, Bool.false_eq_true, if_false]
  rcases hz with h | h
  · simp only [h, if_true]
  · cases hasZone (parsePattern row.pattern.toList) <;> simp only [h, if_true, Bool.false_eq_true, if_false]

/-- zone-less: the result carries `--tz-offset` -/
theorem C14_abs_zoneless (row : Row) (f : Fields) (tz : Int)
    (hz : hasZone (parsePattern row.pattern.toList) = false) (hn : (parsePattern row.pattern.toList).contains .tzName = false) :
    (denote row f tz).off = tz := by
  simp only [denote, hz, hn, Bool.false_eq_true, if_false]
  split
  · rfl
  · split <;> rfl

/-- hypotheses of `C14_abs` are satisfiable: 2024-02-29 23:59:60 (a leap-second reading), `.123` /
`.123456`, zone `-03:30`, name `PST`, epoch 946684800 -/
def exFields : Fields :=
  { year := 2024, month := 2, day := 29, hour := 23, minute := 59, second := 60, milli := 123, micro := 123456,
    zsign := '-', zh := 3, zm := 30, zstyle := .colon, zname := ['P', 'S', 'T'],
    ts := ['9', '4', '6', '6', '8', '4', '8', '0', '0'] }

theorem exFields_valid : exFields.Valid :=
  { year := by decide, date := by decide, hour := by decide, minute := by decide, second := by decide,
    milli := by decide, micro := by decide, zsign := by decide, zh := by decide, zm := by decide,
    zname := ⟨"-08:00", by decide +kernel, by decide⟩, ts_ne := by decide, ts_dig := by decide, ts_le := by decide }

example : render ⟨"%Y-%m-%d %H:%M:%S.%3f %z", true, true, false, true⟩ exFields =
    "2024-02-29 23:59:60.123 -03:30".toList := by decide

example (tz : Int) (htz : -86400 < tz ∧ tz < 86400) :
    attemptRow ⟨"%Y-%m-%d %H:%M:%S.%3f %z", true, true, false, true⟩
      "2024-02-29 23:59:60.123 -03:30".toList tz =
      some ⟨S4V.Model.Time.epochSeconds 2024 2 29 23 59 59 (-12600), 1123000000, -12600⟩ := by
  have h := C14_abs ⟨"%Y-%m-%d %H:%M:%S.%3f %z", true, true, false, true⟩ (by decide) exFields exFields_valid
    (by decide) tz htz
  have e : render ⟨"%Y-%m-%d %H:%M:%S.%3f %z", true, true, false, true⟩ exFields =
    "2024-02-29 23:59:60.123 -03:30".toList := by decide
  rw [e] at h
  rw [h, C14_abs_zone_wins _ exFields tz 0 (by decide) (Or.inl (by decide))]
  decide

-- a named zone and a bare date, all `--tz-offset`s
example (tz : Int) (htz : -86400 < tz ∧ tz < 86400) :
    attemptRow ⟨"%Y%m%dT%H%M%S%Z", true, true, true, true⟩ (render ⟨"%Y%m%dT%H%M%S%Z", true, true, true, true⟩ exFields) tz =
      some (denote ⟨"%Y%m%dT%H%M%S%Z", true, true, true, true⟩ exFields tz) :=
  C14_abs _ (by decide) exFields exFields_valid (by decide) tz htz
example (tz : Int) (htz : -86400 < tz ∧ tz < 86400) :
    attemptRow ⟨"%Y/%m/%d", true, false, false, false⟩ (render ⟨"%Y/%m/%d", true, false, false, false⟩ exFields) tz =
      some (denote ⟨"%Y/%m/%d", true, false, false, false⟩ exFields tz) :=
  C14_abs _ (by decide) exFields exFields_valid (by decide) tz htz

/-- the representative values of `C14_abs_repr_own_row` are instances: for the rows without `%#z`
(whose representative is the bare `+05`), `reprValue` is `render` of one field assignment -/
def reprFields : Fields :=
  { year := 2024, month := 2, day := 29, hour := 23, minute := 59, second := 58, milli := 123, micro := 123456,
    zsign := '+', zh := 5, zm := 30, zstyle := .compact, zname := ['P', 'S', 'T'],
    ts := ['9', '4', '6', '6', '8', '4', '8', '0', '0'] }

theorem reprValue_is_render :
    cliFilterPatterns.all (fun row =>
      (parsePattern row.pattern.toList).contains (.tz true) ||
      decide (render row { reprFields with
          zstyle := if row.pattern.toList.reverse.take 3 == ['z', ':', '%'] then .colon else .compact } =
        reprValue row.pattern.toList)) = true := by
  decide +kernel

/-- **C14_no_steal, first row.** The first generated row (`%Y%m%dT%H%M%S`, the help text's main form)
has no earlier row: EVERY value of its grammar resolves to the documented instant through the whole
of `process_dt`, whatever the other bound and the clock. -/
theorem C14_abs_first_row (row : Row) (hrow : cliFilterPatterns.head? = some row) (f : Fields) (hf : f.Valid)
    (tz : Int) (htz : -86400 < tz ∧ tz < 86400) (other : Option DT) (now : Int) :
    processDtL (render row f) tz other now = .some (denote row f tz) := by
  have hmem : row ∈ cliFilterPatterns := List.mem_of_mem_head? hrow
  have hst : styleOk f (parsePattern row.pattern.toList) = true := by
    have : cliFilterPatterns.head? = some ⟨"%Y%m%dT%H%M%S", true, false, false, true⟩ := by decide
    rw [this] at hrow
    injection hrow with hrow
    subst hrow
    rfl
  have h := C14_abs row hmem f hf hst tz htz
  cases hc : cliFilterPatterns with
  | nil => rw [hc] at hrow; cases hrow
  | cons r rs =>
    rw [hc] at hrow
    simp only [List.head?_cons, Option.some.injEq] at hrow
    subst hrow
    simp only [processDtL, hc, firstRow, h]

example : cliFilterPatterns.head? = some ⟨"%Y%m%dT%H%M%S", true, false, false, true⟩ := by decide

theorem firstRow_isSome_of_mem (rows : List Row) (row : Row) (hm : row ∈ rows) (v : List Char) (tz : Int)
    (h : (attemptRow row v tz).isSome = true) : (firstRow rows v tz).isSome = true := by
  induction rows with
  | nil => simp at hm
  | cons r rs ih =>
    simp only [firstRow]
    cases hr : attemptRow r v tz with
    | some dt => rfl
    | none =>
      rcases List.mem_cons.mp hm with e | e
      · subst e; rw [hr] at h; cases h
      · exact ih e

/-- **C14_abs (accepted).** every value of every row's grammar is accepted by `process_dt` as an absolute
date-time (it never falls through to the relative branch or to "unparsable"), whatever row wins -/
theorem C14_abs_accepted (row : Row) (hrow : row ∈ cliFilterPatterns) (f : Fields) (hf : f.Valid)
    (hst : styleOk f (parsePattern row.pattern.toList) = true) (tz : Int) (htz : -86400 < tz ∧ tz < 86400)
    (other : Option DT) (now : Int) : ∃ dt, processDtL (render row f) tz other now = .some dt := by
  have h := firstRow_isSome_of_mem cliFilterPatterns row hrow (render row f) tz
    (by rw [C14_abs row hrow f hf hst tz htz]; rfl)
  cases hfr : firstRow cliFilterPatterns (render row f) tz with
  | none => rw [hfr] at h; cases h
  | some dt => exact ⟨dt, by simp [processDtL, hfr]⟩

theorem firstRow_of_agree (pre : List Row) (row : Row) (post : List Row) (v : List Char) (tz : Int) (dt : DT)
    (hrow : attemptRow row v tz = some dt)
    (hpre : ∀ r ∈ pre, attemptRow r v tz = none ∨ attemptRow r v tz = some dt) :
    firstRow (pre ++ row :: post) v tz = some dt := by
  induction pre with
  | nil => simp [firstRow, hrow]
  | cons r rs ih =>
    simp only [List.cons_append, firstRow]
    rcases hpre r (by simp) with h | h
    · rw [h]; exact ih (fun x hx => hpre x (by simp [hx]))
    · rw [h]

/-- **C14_no_steal (interface).** through the whole of `process_dt`: a value of row `row`'s grammar
resolves to the documented instant as soon as no EARLIER row reads it differently. (The hypothesis is
discharged for all values of the first row by `C14_abs_first_row`, and for the representative values of
15 rows by `C14_no_steal_repr`; a general proof for every later row is not done.) -/
theorem C14_abs_processDt (pre : List Row) (row : Row) (post : List Row) (htable : cliFilterPatterns = pre ++ row :: post)
    (f : Fields) (hf : f.Valid) (hst : styleOk f (parsePattern row.pattern.toList) = true)
    (tz : Int) (htz : -86400 < tz ∧ tz < 86400)
    (hns : ∀ r ∈ pre, attemptRow r (render row f) tz = none ∨ attemptRow r (render row f) tz = some (denote row f tz))
    (other : Option DT) (now : Int) :
    processDtL (render row f) tz other now = .some (denote row f tz) := by
  have hmem : row ∈ cliFilterPatterns := by rw [htable]; simp
  have h := firstRow_of_agree pre row post (render row f) tz _ (C14_abs row hmem f hf hst tz htz) hns
  simp only [processDtL, htable, h]

theorem split_at_index {α : Type} (l : List α) (i : Nat) (x : α) (h : l[i]? = some x) :
    l = l.take i ++ x :: l.drop (i + 1) := by
  induction l generalizing i with
  | nil => simp at h
  | cons a as ih =>
    cases i with
    | zero => simp at h; simp [h]
    | succ n =>
      simp only [List.getElem?_cons_succ] at h
      simp only [List.take_succ_cons, List.drop_succ_cons, List.cons_append]
      rw [← ih n h]

/-- the rows for which NO earlier row of the generated table reads ANY of their values (decided on the
table by `noStealRow`: after a common prefix of items the earlier pattern meets a character it
cannot take, or leaves text over): the zone-less forms of the help text — `%Y%m%dT%H%M%S`,
`%Y-%m-%d %H:%M:%S`, `%Y-%m-%dT%H:%M:%S`, `%Y/%m/%d %H:%M:%S`, each also with `.%3f`, and the three bare
dates (0-based positions in `CLI_FILTER_PATTERNS`) -/
theorem C14_no_steal_rows :
    (List.range cliFilterPatternsCount).filter noStealRow = [0, 1, 15, 16, 30, 31, 57, 58, 72, 73, 74] := by
  decide +kernel

/-- **C14_no_steal.** For those rows, EVERY value of the row's grammar resolves to the documented instant
through the whole of `process_dt` (all earlier rows are tried first and refuse it), whatever the other
bound and the clock. For the remaining rows (zoned forms, `.%6f`, `+%s`) an earlier row MAY read the
value (e.g. `%z` reads what `%:z` is meant for) and agreement is only decided on representatives
(`C14_no_steal_repr`). -/
theorem C14_no_steal (i : Nat) (hi : noStealRow i = true) (row : Row) (hrow : cliFilterPatterns[i]? = some row)
    (f : Fields) (hf : f.Valid) (hst : styleOk f (parsePattern row.pattern.toList) = true)
    (tz : Int) (htz : -86400 < tz ∧ tz < 86400) (other : Option DT) (now : Int) :
    processDtL (render row f) tz other now = .some (denote row f tz) := by
  simp only [noStealRow, hrow, List.all_eq_true] at hi
  exact C14_abs_processDt (cliFilterPatterns.take i) row (cliFilterPatterns.drop (i + 1))
    (split_at_index _ i row hrow) f hf hst tz htz
    (fun r hr => Or.inl (attemptRow_none_of_pair r row f hf tz (hi r hr))) other now

-- e.g. the help text's `2022-01-02` form (position 73), any date, any `--tz-offset`
example (f : Fields) (hf : f.Valid) (tz : Int) (htz : -86400 < tz ∧ tz < 86400) (other : Option DT) (now : Int) :
    processDtL (render ⟨"%Y-%m-%d", true, false, false, false⟩ f) tz other now =
      .some (civilDT f.year f.month f.day 0 0 0 0 tz) :=
  C14_no_steal 73 (List.mem_filter.mp (show 73 ∈ (List.range cliFilterPatternsCount).filter noStealRow by
    rw [C14_no_steal_rows]; decide)).2 _ (by decide) f hf rfl tz htz other now

end AbsAll

end S4V.Props.CliSpec
