/-
Properties of the coordinator loop model (`S4V/Model/Coord.lean`).

Notation used below (all defined in `S4V/Lemmas/Coord.lean`):
* `WF scripts`        every source's script starts with its `FileInfo`;
* `deliverable sc`    the prefix of `sc` up to and including the first `summary`
                      (the channel is removed there, later data is never received);
* `specMsgs scripts`  per source, the messages of its deliverable script;
* `merge`             (model) k-way merge by instant, ties to the lowest PathId;
* `Inv scripts s`     the invariant (`Base ∧ FinInv ∧ FiInv`);
* `μ`                 the termination measure.

Deviations from the requested statements (each is justified by a refutation of
the requested form, see `*_full`/`*_full_false`):
* `no_break`/`progress`/`bprogress` need `scripts ≠ []`: `init []` has
  `fi = some []`, so `waitCond` holds with nothing to poll and `brk` is enabled.
  (The real program returns before the loop when no channel was created.)
* the run-length bound counts loop iterations, i.e. all events except the
  stutter `Ev.fin`, which is enabled forever once `fin = true`.
* `confluence`, `isolation`, `errs_spec`, `terminates` hold for arbitrary scripts
  (no `WF` needed); `WF` is needed exactly for "never stops early".
-/
import S4V.Lemmas.Coord

namespace S4V.Props.CoordSpec
open S4V.Model.Coord S4V.Lemmas.Coord

/-- states reachable at layer 1 -/
def Reachable (scripts : List (List Datum)) (s : St) : Prop :=
  ∃ evs, run (init scripts) evs = some s

/-! ### running examples -/

/-- two well-formed sources with interleaved and equal instants -/
def ex2 : List (List Datum) :=
  [ [.fileInfo true, .msg ⟨1, 0⟩, .msg ⟨3, 1⟩, .summary true],
    [.fileInfo true, .msg ⟨1, 0⟩, .msg ⟨2, 1⟩, .summary false] ]

/-- one complete schedule of `ex2` -/
def ex2run : List Ev :=
  [.recv 1, .recv 0, .recv 0, .recv 1, .print, .recv 0, .print, .recv 1, .print, .recv 1, .print, .recv 0]

example : WF ex2 := by decide
example : ex2 ≠ [] := by decide

example : (run (init ex2) ex2run).map (fun s => (s.fin, s.broke, s.errs, s.printed)) =
    some (true, false, 1, [(0, ⟨1, 0⟩), (1, ⟨1, 0⟩), (1, ⟨2, 1⟩), (0, ⟨3, 1⟩)]) := by decide

theorem ex2_reachable : ∃ s, run (init ex2) ex2run = some s ∧ s.fin = true :=
  ⟨_, rfl, rfl⟩

/-- a faulty source: data after its summary, and a source that disconnects without summary -/
def exFaulty : List (List Datum) :=
  [ [.fileInfo true, .msg ⟨5, 0⟩, .summary true, .msg ⟨6, 1⟩],
    [.fileInfo false, .msg ⟨4, 0⟩] ]

example : WF exFaulty := by decide

/-! ## 1. the invariant -/

theorem inv_holds_init (scripts : List (List Datum)) : Inv scripts (init scripts) :=
  inv_init scripts

theorem inv_preserved {scripts : List (List Datum)} (hwf : WF scripts) {s s' : St} {e : Ev}
    (hi : Inv scripts s) (hs : step s e = some s') : Inv scripts s' :=
  inv_step hwf hi hs

theorem inv_reachable {scripts : List (List Datum)} (hwf : WF scripts) {s : St}
    (hr : Reachable scripts s) : Inv scripts s := by
  obtain ⟨evs, h⟩ := hr
  exact inv_run hwf (inv_init scripts) h

/-- the part of the invariant that needs no well-formedness -/
theorem inv0_reachable {scripts : List (List Datum)} {s : St}
    (hr : Reachable scripts s) : Inv0 scripts s := by
  obtain ⟨evs, h⟩ := hr
  exact inv0_run (inv0_init scripts) h

/-- what `Inv` says, spelled out -/
theorem inv_spelled {scripts : List (List Datum)} {s : St} (h : Inv scripts s) :
    -- shapes
    (s.streams.length = scripts.length ∧ s.live.length = scripts.length ∧
      s.pending.length = scripts.length) ∧
    -- a pending message belongs to a live channel
    (∀ i : Nat, (s.pending.getD i none).isSome = true → s.live.getD i false = true) ∧
    -- what is still to come is a suffix of the script
    (∀ i : Nat, s.streams.getD i [] <:+ scripts.getD i []) ∧
    -- while the FileInfo flags exist: flag `false` ⇔ nothing of that source was received
    (∀ flags, s.fi = some flags → ∀ i, i < scripts.length →
      (flags.getD i true = false ↔ s.streams.getD i [] = scripts.getD i []) ∧
      (flags.getD i true = false → s.live.getD i false = true ∧ s.pending.getD i none = none)) ∧
    -- flags cleared: every source's FileInfo has been received
    (s.fi = none → ∀ i, i < scripts.length →
      (s.streams.getD i []).length < (scripts.getD i []).length) ∧
    -- conservation of messages and of errors
    s.printed ++ merge (rems s) = merge (specMsgs scripts) ∧
    s.errs + ((List.range scripts.length).map (errsRem s)).sum = (scripts.map errsOf).sum ∧
    -- the loop ends exactly when no channel is left
    (s.fin = true → countTrue s.live = 0) := by
  obtain ⟨hb, hf, hfi⟩ := h
  refine ⟨⟨hb.len_streams, hb.len_live, hb.len_pending⟩, hb.pend_live, hb.suffix, ?_, hfi.fi_none,
    hb.cons, hb.errs, hf.fin_dead⟩
  intro flags hfl i hi
  obtain ⟨h1, h2⟩ := hfi.fi_some flags hfl i hi
  refine ⟨⟨fun h => (h1 h).1, fun h => ?_⟩, fun h => (h1 h).2⟩
  cases hf' : flags.getD i true with
  | false => rfl
  | true => have := h2 hf'; rw [h] at this; omega

example : Reachable ex2 (init ex2) := ⟨[], rfl⟩

/-- for scripts with nothing after the first summary, everything is deliverable -/
theorem deliverable_of_tidy (sc : List Datum)
    (h : ∀ pre ok post, sc = pre ++ Datum.summary ok :: post → post = []) : deliverable sc = sc :=
  deliverable_eq_self sc h

example : ∀ sc ∈ ex2, deliverable sc = sc := by decide
example : deliverable (exFaulty.getD 0 []) = [.fileInfo true, .msg ⟨5, 0⟩, .summary true] := by decide

/-! ## 2. C06: the loop never stops early -/

theorem no_break {scripts : List (List Datum)} (hwf : WF scripts) (hne : scripts ≠ []) {s : St}
    (hr : Reachable scripts s) : step s .brk = none :=
  inv_no_break hne (inv_reachable hwf hr)

/-- equivalently: whenever the loop waits, some channel is polled -/
theorem wait_has_eligible {scripts : List (List Datum)} (hwf : WF scripts) (hne : scripts ≠ [])
    {s : St} (hr : Reachable scripts s) (hw : waitCond s = true) : ∃ i, eligible s i = true :=
  anyEligible_iff.1 (inv_anyEligible hne (inv_reachable hwf hr) hw)

/-- and no reachable state is `broke` -/
theorem never_broke {scripts : List (List Datum)} (hwf : WF scripts) (hne : scripts ≠ []) {s : St}
    (hr : Reachable scripts s) : s.broke = false := by
  obtain ⟨evs, h⟩ := hr
  exact inv_broke hwf hne (inv_init scripts) rfl h

example : ∀ s, Reachable ex2 s → step s .brk = none :=
  fun _ hr => no_break (by decide) (by decide) hr

/-- the requested form (without `scripts ≠ []`) is false of the model -/
def no_break_full : Prop :=
  ∀ (scripts : List (List Datum)) (s : St), WF scripts → Reachable scripts s → step s .brk = none

theorem no_break_full_false : ¬ no_break_full := by
  intro h
  have := h [] (init []) (by intro sc hsc; cases hsc) ⟨[], rfl⟩
  revert this
  decide

/-- `WF` is needed: if a worker dies before sending its FileInfo (script `[]`), the
loop can stop early, printing nothing although a message was received. -/
def exDead : List (List Datum) := [[.fileInfo true, .msg ⟨1, 0⟩, .summary true], []]

theorem wf_needed :
    ∃ evs s, run (init exDead) evs = some s ∧ s.broke = true ∧ s.printed = [] ∧
      merge (specMsgs exDead) ≠ [] :=
  ⟨[.recv 0, .recv 0, .recv 1, .brk], _, rfl, rfl, rfl, by decide⟩

example : ¬ WF exDead := by decide

/-! ## 3. C01/C06: the output is a function of the inputs -/

/-- whatever the schedule, a finished run has printed exactly the merge -/
theorem confluence (scripts : List (List Datum)) (evs : List Ev) (s : St)
    (hr : run (init scripts) evs = some s) (hf : s.fin = true) :
    s.printed = merge (scripts.map (fun sc => msgsOf (deliverable sc))) :=
  fin_printed (inv0_reachable ⟨evs, hr⟩) hf

/-- two finished runs print the same -/
theorem confluence' (scripts : List (List Datum)) (evs₁ evs₂ : List Ev) (s₁ s₂ : St)
    (h₁ : run (init scripts) evs₁ = some s₁) (h₂ : run (init scripts) evs₂ = some s₂)
    (f₁ : s₁.fin = true) (f₂ : s₂.fin = true) : s₁.printed = s₂.printed := by
  rw [confluence scripts evs₁ s₁ h₁ f₁, confluence scripts evs₂ s₂ h₂ f₂]

example : ∃ s, run (init ex2) ex2run = some s ∧ s.fin = true ∧
    s.printed = merge (ex2.map (fun sc => msgsOf (deliverable sc))) :=
  ⟨_, rfl, rfl, by decide⟩

/-- at every moment the printed sequence is a prefix of the specification -/
theorem printed_prefix {scripts : List (List Datum)} {s : St} (hr : Reachable scripts s) :
    s.printed <+: merge (specMsgs scripts) :=
  ⟨_, (inv0_reachable hr).1.cons⟩

/-! ## 4. termination and progress -/

/-- every enabled event except the final stutter strictly decreases `μ` (no invariant needed) -/
theorem measure_decreases {s s' : St} {e : Ev} (hs : step s e = some s') (he : e ≠ .fin) :
    μ s' < μ s :=
  step_decreases hs he

example : ∃ s', step (init ex2) (.recv 1) = some s' ∧ μ s' < μ (init ex2) := ⟨_, rfl, by decide⟩

/-- number of loop iterations of any run -/
theorem terminates (scripts : List (List Datum)) (evs : List Ev) (s : St)
    (hr : run (init scripts) evs = some s) :
    iterations evs ≤ 2 * (scripts.map List.length).sum + scripts.length + 2 := by
  have := run_iterations hr
  rw [μ_init] at this
  omega

example : iterations ex2run = 12 ∧ 2 * (ex2.map List.length).sum + ex2.length + 2 = 20 := by decide

/-- once finished, only the stutter `Ev.fin` is enabled and it changes nothing -/
theorem after_fin {s s' : St} {e : Ev} (hf : s.fin = true) (hs : step s e = some s') : s' = s :=
  step_of_fin hf hs

/-- a bound on the raw length of runs is false: `Ev.fin` stutters -/
def run_length_full : Prop :=
  ∀ (scripts : List (List Datum)) (evs : List Ev) (s : St), WF scripts →
    run (init scripts) evs = some s →
    evs.length ≤ (scripts.map List.length).sum + 2 * scripts.length +
      ((scripts.map msgsOf).map List.length).sum + 1

theorem run_length_full_false : ¬ run_length_full := by
  intro h
  have := h [[.fileInfo true, .summary true]] [.recv 0, .recv 0, .fin, .fin, .fin, .fin] _
    (by decide) rfl
  revert this
  decide

/-- a reachable state that is neither finished nor broken can take a `recv` or `print` step -/
theorem progress {scripts : List (List Datum)} (hwf : WF scripts) (hne : scripts ≠ []) {s : St}
    (hr : Reachable scripts s) (hf : s.fin = false) :
    (step s .print).isSome = true ∨ ∃ i, (step s (.recv i)).isSome = true :=
  inv_progress hne (inv_reachable hwf hr) hf (never_broke hwf hne hr)

example : (step (init ex2) .print).isSome = true ∨ ∃ i, (step (init ex2) (.recv i)).isSome = true :=
  progress (by decide) (by decide) ⟨[], rfl⟩ rfl

/-- hence (with `terminates`) every run can be extended to a finished one, and by
`confluence` all of them print the same. -/
theorem can_finish {scripts : List (List Datum)} (hwf : WF scripts) (hne : scripts ≠ []) :
    ∀ (n : Nat) (s : St), Reachable scripts s → μ s ≤ n →
      ∃ evs s', run s evs = some s' ∧ s'.fin = true := by
  intro n
  induction n with
  | zero =>
    intro s hr hμ
    cases hf : s.fin with
    | true => exact ⟨[], s, rfl, hf⟩
    | false => simp [μ, hf] at hμ
  | succ n ih =>
    intro s hr hμ
    cases hf : s.fin with
    | true => exact ⟨[], s, rfl, hf⟩
    | false =>
      have key : ∀ e s1, e ≠ Ev.fin → step s e = some s1 → ∃ evs s', run s evs = some s' ∧ s'.fin = true := by
        intro e s1 he h1
        obtain ⟨evs0, hr0⟩ := hr
        have hr1 : Reachable scripts s1 := by
          refine ⟨evs0 ++ [e], ?_⟩
          have : ∀ (es : List Ev) (a : St), run a es = some s → run a (es ++ [e]) = some s1 := by
            intro es
            induction es with
            | nil => intro a ha; cases (Option.some.inj ha : a = s); simp [run, h1]
            | cons x xs ihx =>
              intro a ha
              simp only [run, List.cons_append] at ha ⊢
              cases hx : step a x with
              | none => rw [hx] at ha; cases ha
              | some a1 => rw [hx] at ha; exact ihx a1 ha
          exact this evs0 _ hr0
        have := step_decreases h1 he
        obtain ⟨evs, s', h2, h3⟩ := ih s1 hr1 (by omega)
        exact ⟨e :: evs, s', by simp only [run, h1]; exact h2, h3⟩
      rcases progress hwf hne hr hf with h | ⟨i, h⟩
      · cases h1 : step s .print with
        | none => rw [h1] at h; cases h
        | some s1 => exact key _ s1 (by simp) h1
      · cases h1 : step s (.recv i) with
        | none => rw [h1] at h; cases h
        | some s1 => exact key _ s1 (by simp) h1

/-! ## 5. the specification `merge` (pure list facts) -/

/-- each source's messages appear exactly once, in order -/
theorem merge_per_source (ls : List (List Msg)) (i : Nat) :
    ((merge ls).filter (fun p => p.1 = i)).map (fun p => p.2) = ls.getD i [] :=
  S4V.Lemmas.Coord.merge_per_source ls i

/-- the element selected: head of its list, no head earlier, lower-numbered heads strictly later -/
theorem minHead_spec {ls : List (List Msg)} {i : Nat} {m : Msg} (h : minHead ls = some (i, m)) :
    (ls.getD i []).head? = some m ∧
    (∀ (j : Nat) (m' : Msg), (ls.getD j []).head? = some m' → m.dt ≤ m'.dt) ∧
    (∀ (j : Nat) (m' : Msg), j < i → (ls.getD j []).head? = some m' → m.dt < m'.dt) :=
  minHead_eq_some_iff.1 h

/-- and conversely (so `minHead` is characterised) -/
theorem minHead_complete {ls : List (List Msg)} {i : Nat} {m : Msg}
    (h1 : (ls.getD i []).head? = some m)
    (h2 : ∀ (j : Nat) (m' : Msg), (ls.getD j []).head? = some m' → m.dt ≤ m'.dt)
    (h3 : ∀ (j : Nat) (m' : Msg), j < i → (ls.getD j []).head? = some m' → m.dt < m'.dt) :
    minHead ls = some (i, m) :=
  minHead_eq_some_iff.2 ⟨h1, h2, h3⟩

theorem minHead_none_iff {ls : List (List Msg)} : minHead ls = none ↔ ∀ j : Nat, ls.getD j [] = [] :=
  minHead_eq_none_iff

theorem merge_unfold {ls : List (List Msg)} {i : Nat} {m : Msg} (h : minHead ls = some (i, m)) :
    merge ls = (i, m) :: merge (popAt ls i) :=
  merge_step h

/-- two sources, interleaved and equal instants -/
def exLs : List (List Msg) := [[⟨1, 0⟩, ⟨3, 1⟩, ⟨3, 2⟩], [⟨1, 0⟩, ⟨2, 1⟩, ⟨3, 2⟩]]

example : minHead exLs = some (0, ⟨1, 0⟩) := by decide
example : merge exLs =
    [(0, ⟨1, 0⟩), (1, ⟨1, 0⟩), (1, ⟨2, 1⟩), (0, ⟨3, 1⟩), (0, ⟨3, 2⟩), (1, ⟨3, 2⟩)] := by decide

/-- every element of the output was, when emitted, the first minimum among the heads of
what was then left -/
theorem merge_next_is_earliest {ls : List (List Msg)} {pre post : List (Nat × Msg)} {i : Nat}
    {m : Msg} (h : merge ls = pre ++ (i, m) :: post) :
    ∃ ls' : List (List Msg), ls'.length = ls.length ∧ (∀ j : Nat, ls'.getD j [] <:+ ls.getD j []) ∧
      merge ls' = (i, m) :: post ∧
      (ls'.getD i []).head? = some m ∧
      (∀ (j : Nat) (m' : Msg), (ls'.getD j []).head? = some m' → m.dt ≤ m'.dt) ∧
      (∀ (j : Nat) (m' : Msg), j < i → (ls'.getD j []).head? = some m' → m.dt < m'.dt) :=
  S4V.Lemmas.Coord.merge_next_is_earliest h

example : merge exLs = [(0, ⟨1, 0⟩), (1, ⟨1, 0⟩)] ++ (1, ⟨2, 1⟩) :: [(0, ⟨3, 1⟩), (0, ⟨3, 2⟩), (1, ⟨3, 2⟩)] := by
  decide

/-- sorted inputs give a sorted output -/
theorem merge_sorted (ls : List (List Msg))
    (h : ∀ j : Nat, (ls.getD j []).Pairwise (fun a b => a.dt ≤ b.dt)) :
    ((merge ls).map (fun p => p.2.dt)).Pairwise (· ≤ ·) :=
  S4V.Lemmas.Coord.merge_sorted ls h

/-- … in fact sorted lexicographically by (instant, PathId) -/
theorem merge_sorted_lex (ls : List (List Msg))
    (h : ∀ j : Nat, (ls.getD j []).Pairwise (fun a b => a.dt ≤ b.dt)) :
    (merge ls).Pairwise (fun a b => a.2.dt < b.2.dt ∨ (a.2.dt = b.2.dt ∧ a.1 ≤ b.1)) :=
  S4V.Lemmas.Coord.merge_sorted_lex ls h

/-- ties: with sorted inputs, of two messages with the same instant the one from the lower
PathId is printed first -/
theorem merge_ties {ls : List (List Msg)}
    (hs : ∀ j : Nat, (ls.getD j []).Pairwise (fun a b => a.dt ≤ b.dt))
    {pre mid post : List (Nat × Msg)} {i j : Nat} {m m' : Msg}
    (h : merge ls = pre ++ (i, m) :: (mid ++ (j, m') :: post)) (hdt : m.dt = m'.dt) : i ≤ j :=
  S4V.Lemmas.Coord.merge_ties hs h hdt

theorem exLs_sorted : ∀ j : Nat, (exLs.getD j []).Pairwise (fun a b => a.dt ≤ b.dt) := by
  intro j
  match j with
  | 0 => decide
  | 1 => decide
  | j + 2 => simp [exLs]

example : ((merge exLs).map (fun p => p.2.dt)).Pairwise (· ≤ ·) := merge_sorted exLs exLs_sorted

/-! ## 6. C07 isolation, and the error count -/

/-- restricting the merge to a set `h` of sources = merging only those sources -/
theorem filter_merge (h : Nat → Bool) (ls : List (List Msg)) :
    (merge ls).filter (fun p => h p.1) =
      merge (ls.mapIdx (fun i l => if h i then l else [])) :=
  S4V.Lemmas.Coord.filter_merge h ls

example : (merge exLs).filter (fun p => p.1 == 1) = merge [[], [⟨1, 0⟩, ⟨2, 1⟩, ⟨3, 2⟩]] := by decide

/-- what is printed for the healthy sources does not depend on the other sources' scripts:
it is the merge of the healthy sources' messages (indices preserved) -/
theorem isolation (healthy : Nat → Bool) (scripts : List (List Datum)) (evs : List Ev) (s : St)
    (hr : run (init scripts) evs = some s) (hf : s.fin = true) :
    s.printed.filter (fun p => healthy p.1) =
      merge ((specMsgs scripts).mapIdx (fun i l => if healthy i then l else [])) := by
  rw [confluence scripts evs s hr hf]
  exact S4V.Lemmas.Coord.filter_merge healthy (specMsgs scripts)

/-- in particular two script lists that agree on the healthy sources print the same for them -/
theorem isolation' (healthy : Nat → Bool) (sc₁ sc₂ : List (List Datum))
    (hlen : sc₁.length = sc₂.length)
    (hag : ∀ i, healthy i = true → sc₁.getD i [] = sc₂.getD i [])
    (evs₁ evs₂ : List Ev) (s₁ s₂ : St)
    (h₁ : run (init sc₁) evs₁ = some s₁) (h₂ : run (init sc₂) evs₂ = some s₂)
    (f₁ : s₁.fin = true) (f₂ : s₂.fin = true) :
    s₁.printed.filter (fun p => healthy p.1) = s₂.printed.filter (fun p => healthy p.1) := by
  rw [isolation healthy sc₁ evs₁ s₁ h₁ f₁, isolation healthy sc₂ evs₂ s₂ h₂ f₂]
  congr 1
  apply List.ext_getElem?
  intro j
  simp only [List.getElem?_mapIdx, specMsgs, List.getElem?_map]
  by_cases hj : j < sc₁.length
  · have hj2 : j < sc₂.length := hlen ▸ hj
    have := hag j
    simp only [List.getD_eq_getElem?_getD, List.getElem?_eq_getElem hj, List.getElem?_eq_getElem hj2,
      Option.getD_some] at this
    simp only [List.getElem?_eq_getElem hj, List.getElem?_eq_getElem hj2, Option.map_some]
    cases hh : healthy j with
    | false => simp
    | true => simp [this hh]
  · have hj2 : ¬ j < sc₂.length := hlen ▸ hj
    simp [List.getElem?_eq_none (Nat.le_of_not_lt hj), List.getElem?_eq_none (Nat.le_of_not_lt hj2)]

example : ∃ s, run (init exFaulty) [.recv 0, .recv 1, .recv 1, .recv 0, .print, .recv 1, .print, .recv 0] = some s ∧
    s.fin = true ∧ s.printed.filter (fun p => p.1 == 0) = [(0, ⟨5, 0⟩)] := ⟨_, rfl, rfl, by decide⟩

/-- the error count at the end: not-ok FileInfo/Summary data received, plus disconnects -/
theorem errs_spec (scripts : List (List Datum)) (evs : List Ev) (s : St)
    (hr : run (init scripts) evs = some s) (hf : s.fin = true) :
    s.errs = (scripts.map (fun sc =>
      ((deliverable sc).filter (fun d => !okDatum d)).length +
        (if (deliverable sc).any isSummary then 0 else 1))).sum := by
  rw [fin_errs (inv0_reachable ⟨evs, hr⟩) hf]
  congr 1
  apply List.map_congr_left
  intro sc _
  exact errsOf_eq sc

/-- the run reports success iff all deliverable data are ok and every source sent its summary -/
theorem errs_zero_iff (scripts : List (List Datum)) (evs : List Ev) (s : St)
    (hr : run (init scripts) evs = some s) (hf : s.fin = true) :
    s.errs = 0 ↔ ∀ sc ∈ scripts,
      (∀ d ∈ deliverable sc, okDatum d = true) ∧ (deliverable sc).any isSummary = true := by
  rw [fin_errs (inv0_reachable ⟨evs, hr⟩) hf]
  exact sum_errsOf_eq_zero_iff scripts

example : ∃ s, run (init exFaulty) [.recv 0, .recv 1, .recv 1, .recv 0, .print, .recv 1, .print, .recv 0] = some s ∧
    s.fin = true ∧ s.errs = 2 := ⟨_, rfl, rfl, rfl⟩

/-! ## 7. layer 2: bounded buffers -/

/-- every layer-2 step is a worker step invisible at layer 1, or a layer-1 step -/
theorem bstep_refines {scripts : List (List Datum)} {cap : Nat} {b b' : BSt} {ev : BEv}
    (hw : BWf scripts b) (h : bstep cap b ev = some b') :
    match ev with
    | .coord e => step (abs b) e = some (abs b')
    | _ => abs b' = abs b :=
  S4V.Lemmas.Coord.bstep_refines hw h

/-- `BWf` (shapes agree; a closed worker has nothing left to send) is an invariant of layer 2 -/
theorem bwf_invariant {scripts : List (List Datum)} {cap : Nat} :
    BWf scripts (binit scripts) ∧
    ∀ {b b' : BSt} {ev : BEv}, BWf scripts b → bstep cap b ev = some b' → BWf scripts b' :=
  ⟨bwf_init scripts, fun hw h => bwf_step hw h⟩

/-- every layer-2 execution projects to a layer-1 execution -/
theorem layer2_projects {cap : Nat} {scripts : List (List Datum)} {b : BSt}
    (h : BReach cap scripts b) : Reachable scripts (abs b) :=
  (breach_abs h).2

/-- an execution with capacity 1: the workers block, the coordinator drains -/
def ex2brun : List BEv :=
  [.send 0, .send 1, .coord (.recv 1), .coord (.recv 0), .send 0, .send 1, .coord (.recv 0)]

theorem ex2_breach : ∃ b, brun 1 (binit ex2) ex2brun = some b ∧
    b.core.pending = [some ⟨1, 0⟩, none] ∧ b.buf = [[], [.msg ⟨1, 0⟩]] := ⟨_, rfl, rfl, rfl⟩

/-- transfer of 2, 3, 6 to layer 2 -/
theorem b_no_break {cap : Nat} {scripts : List (List Datum)} (hwf : WF scripts) (hne : scripts ≠ [])
    {b : BSt} (h : BReach cap scripts b) : bstep cap b (.coord .brk) = none := by
  have h1 := no_break hwf hne (layer2_projects h)
  have h2 := step_other_frame b.core (absStreams b) .brk (by simp)
  rw [← abs_eq, h1] at h2
  simp only [bstep]
  cases hc : step b.core .brk with
  | none => rfl
  | some c => rw [hc] at h2; cases h2

theorem b_confluence {cap : Nat} {scripts : List (List Datum)} {b : BSt}
    (h : BReach cap scripts b) (hf : b.core.fin = true) :
    b.core.printed = merge (scripts.map (fun sc => msgsOf (deliverable sc))) := by
  obtain ⟨evs, hr⟩ := layer2_projects h
  exact confluence scripts evs (abs b) hr hf

theorem b_isolation {cap : Nat} (healthy : Nat → Bool) {scripts : List (List Datum)} {b : BSt}
    (h : BReach cap scripts b) (hf : b.core.fin = true) :
    b.core.printed.filter (fun p => healthy p.1) =
      merge ((specMsgs scripts).mapIdx (fun i l => if healthy i then l else [])) := by
  obtain ⟨evs, hr⟩ := layer2_projects h
  exact isolation healthy scripts evs (abs b) hr hf

/-- no deadlock: with capacity ≥ 1 some layer-2 step is enabled until the loop has ended -/
theorem bprogress {cap : Nat} (hcap : 1 ≤ cap) {scripts : List (List Datum)} (hwf : WF scripts)
    (hne : scripts ≠ []) {b : BSt} (hr : BReach cap scripts b) (hf : b.core.fin = false) :
    ∃ ev, (bstep cap b ev).isSome = true :=
  S4V.Lemmas.Coord.bprogress hcap hwf hne hr hf

example : ∃ b, BReach 1 ex2 b ∧ b.core.fin = false :=
  ⟨_, ⟨ex2brun, rfl⟩, rfl⟩

end S4V.Props.CoordSpec
