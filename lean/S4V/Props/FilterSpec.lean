/-
Property C03 (decision functions): what the translated date-time window
functions decide, stated as plain inequalities.

All proofs unfold the GENERATED definitions (`S4V.Gen.Filter`, `S4V.Gen.Keys`);
if the source comparison operators change (`<` to `<=`, a bound is dropped,
the null-record test changes) the regenerated definitions no longer satisfy
these statements and this file stops compiling.
-/
import S4V.Model.SortDrain

namespace S4V.Props.FilterSpec
open S4V.Gen.Filter S4V.Gen.Keys S4V.Model.SortDrain

/-! ### F1: the two-sided window functions -/

/-- `dt_pass_filters`: in range iff not before the lower bound and not after the upper bound
(both bounds inclusive; an absent bound does not constrain) -/
theorem dtPassFilters_iff (t : Int) (a b : Option Int) :
    dtPassFilters t a b = .InRange ↔ (∀ x, a = some x → x ≤ t) ∧ (∀ y, b = some y → t ≤ y) := by
  cases a <;> cases b <;> simp only [dtPassFilters] <;> (repeat' split) <;> simp_all <;> omega

theorem dtPassFilters_before_iff (t : Int) (a b : Option Int) :
    dtPassFilters t a b = .BeforeRange ↔ ∃ x, a = some x ∧ t < x := by
  cases a <;> cases b <;> simp only [dtPassFilters] <;> (repeat' split) <;> simp_all

theorem dtPassFilters_after_iff (t : Int) (a b : Option Int) :
    dtPassFilters t a b = .AfterRange ↔ (∀ x, a = some x → x ≤ t) ∧ ∃ y, b = some y ∧ y < t := by
  cases a <;> cases b <;> simp only [dtPassFilters] <;> (repeat' split) <;> simp_all <;> omega

theorem tsPassFilters_iff (t : Int) (a b : Option Int) :
    tsPassFilters t a b = .InRange ↔ (∀ x, a = some x → x ≤ t) ∧ (∀ y, b = some y → t ≤ y) := by
  cases a <;> cases b <;> simp only [tsPassFilters] <;> (repeat' split) <;> simp_all <;> omega

theorem tsPassFilters_before_iff (t : Int) (a b : Option Int) :
    tsPassFilters t a b = .BeforeRange ↔ ∃ x, a = some x ∧ t < x := by
  cases a <;> cases b <;> simp only [tsPassFilters] <;> (repeat' split) <;> simp_all

theorem tsPassFilters_after_iff (t : Int) (a b : Option Int) :
    tsPassFilters t a b = .AfterRange ↔ (∀ x, a = some x → x ≤ t) ∧ ∃ y, b = some y ∧ y < t := by
  cases a <;> cases b <;> simp only [tsPassFilters] <;> (repeat' split) <;> simp_all <;> omega

theorem emPassFilters_iff (t : Int) (a b : Option Int) :
    emPassFilters t a b = .InRange ↔ (∀ x, a = some x → x ≤ t) ∧ (∀ y, b = some y → t ≤ y) := by
  cases a <;> cases b <;> simp only [emPassFilters] <;> (repeat' split) <;> simp_all <;> omega

theorem emPassFilters_before_iff (t : Int) (a b : Option Int) :
    emPassFilters t a b = .BeforeRange ↔ ∃ x, a = some x ∧ t < x := by
  cases a <;> cases b <;> simp only [emPassFilters] <;> (repeat' split) <;> simp_all

theorem emPassFilters_after_iff (t : Int) (a b : Option Int) :
    emPassFilters t a b = .AfterRange ↔ (∀ x, a = some x → x ≤ t) ∧ ∃ y, b = some y ∧ y < t := by
  cases a <;> cases b <;> simp only [emPassFilters] <;> (repeat' split) <;> simp_all <;> omega

/-- the three outcomes are exhaustive (they are mutually exclusive by constructor disjointness) -/
theorem dtPassFilters_cases (t : Int) (a b : Option Int) :
    dtPassFilters t a b = .InRange ∨ dtPassFilters t a b = .BeforeRange
      ∨ dtPassFilters t a b = .AfterRange := by
  cases dtPassFilters t a b <;> simp

-- boundaries are inclusive, on both sides
example : dtPassFilters 5 (some 5) (some 5) = .InRange := by decide
example : dtPassFilters 4 (some 5) (some 9) = .BeforeRange := by decide
example : dtPassFilters 10 (some 5) (some 9) = .AfterRange := by decide
example : dtPassFilters 9 (some 5) (some 9) = .InRange := by decide
example : dtPassFilters (-7) none (some (-7)) = .InRange := by decide
-- an inverted window: the lower bound wins
example : dtPassFilters 5 (some 9) (some 1) = .BeforeRange := by decide
example : tsPassFilters 5 (some 5) none = .InRange := by decide
example : emPassFilters 6 none (some 5) = .AfterRange := by decide

/-! ### F2: the one-sided functions -/

theorem dtAfterOrBefore_pass_iff (t : Int) (f : Option Int) :
    dtAfterOrBefore t f = .Pass ↔ f = none := by
  cases f with
  | none => simp [dtAfterOrBefore]
  | some x => by_cases h : t < x <;> simp [dtAfterOrBefore, unwrapD, h] <;> omega

theorem dtAfterOrBefore_before_iff (t : Int) (f : Option Int) :
    dtAfterOrBefore t f = .OccursBefore ↔ ∃ x, f = some x ∧ t < x := by
  cases f with
  | none => simp [dtAfterOrBefore]
  | some x => by_cases h : t < x <;> simp [dtAfterOrBefore, unwrapD, h] <;> omega

theorem dtAfterOrBefore_atOrAfter_iff (t : Int) (f : Option Int) :
    dtAfterOrBefore t f = .OccursAtOrAfter ↔ ∃ x, f = some x ∧ x ≤ t := by
  cases f with
  | none => simp [dtAfterOrBefore]
  | some x => by_cases h : t < x <;> simp [dtAfterOrBefore, unwrapD, h] <;> omega

/-- all three clauses of F2 in one statement -/
theorem dtAfterOrBefore_iff (t : Int) (f : Option Int) :
    (dtAfterOrBefore t f = .Pass ↔ f = none)
    ∧ (dtAfterOrBefore t f = .OccursBefore ↔ ∃ x, f = some x ∧ t < x)
    ∧ (dtAfterOrBefore t f = .OccursAtOrAfter ↔ ∃ x, f = some x ∧ x ≤ t) :=
  ⟨dtAfterOrBefore_pass_iff t f, dtAfterOrBefore_before_iff t f, dtAfterOrBefore_atOrAfter_iff t f⟩

theorem emAfterOrBefore_pass_iff (t : Int) (f : Option Int) :
    emAfterOrBefore t f = .Pass ↔ f = none := by
  cases f with
  | none => simp [emAfterOrBefore]
  | some x => by_cases h : t < x <;> simp [emAfterOrBefore, unwrapD, h] <;> omega

theorem emAfterOrBefore_before_iff (t : Int) (f : Option Int) :
    emAfterOrBefore t f = .OccursBefore ↔ ∃ x, f = some x ∧ t < x := by
  cases f with
  | none => simp [emAfterOrBefore]
  | some x => by_cases h : t < x <;> simp [emAfterOrBefore, unwrapD, h] <;> omega

theorem emAfterOrBefore_atOrAfter_iff (t : Int) (f : Option Int) :
    emAfterOrBefore t f = .OccursAtOrAfter ↔ ∃ x, f = some x ∧ x ≤ t := by
  cases f with
  | none => simp [emAfterOrBefore]
  | some x => by_cases h : t < x <;> simp [emAfterOrBefore, unwrapD, h] <;> omega

theorem emAfterOrBefore_iff (t : Int) (f : Option Int) :
    (emAfterOrBefore t f = .Pass ↔ f = none)
    ∧ (emAfterOrBefore t f = .OccursBefore ↔ ∃ x, f = some x ∧ t < x)
    ∧ (emAfterOrBefore t f = .OccursAtOrAfter ↔ ∃ x, f = some x ∧ x ≤ t) :=
  ⟨emAfterOrBefore_pass_iff t f, emAfterOrBefore_before_iff t f, emAfterOrBefore_atOrAfter_iff t f⟩

/-- all three clauses of F1 in one statement -/
theorem dtPassFilters_spec (t : Int) (a b : Option Int) :
    (dtPassFilters t a b = .InRange ↔ (∀ x, a = some x → x ≤ t) ∧ (∀ y, b = some y → t ≤ y))
    ∧ (dtPassFilters t a b = .BeforeRange ↔ ∃ x, a = some x ∧ t < x)
    ∧ (dtPassFilters t a b = .AfterRange ↔ (∀ x, a = some x → x ≤ t) ∧ ∃ y, b = some y ∧ y < t) :=
  ⟨dtPassFilters_iff t a b, dtPassFilters_before_iff t a b, dtPassFilters_after_iff t a b⟩

example : dtAfterOrBefore 5 none = .Pass := by decide
example : dtAfterOrBefore 5 (some 5) = .OccursAtOrAfter := by decide
example : dtAfterOrBefore 4 (some 5) = .OccursBefore := by decide
example : emAfterOrBefore 5 (some 5) = .OccursAtOrAfter := by decide
example : emAfterOrBefore (-1) (some 0) = .OccursBefore := by decide

/-! ### F3: which accounting records enter the map -/

/-- lexicographic `≤` on `(seconds, microseconds)` -/
def lexLe (x y : Int × Int) : Prop := x.1 < y.1 ∨ (x.1 = y.1 ∧ x.2 ≤ y.2)

instance (x y : Int × Int) : Decidable (lexLe x y) := by unfold lexLe; infer_instance

/-- a record is kept iff it is not a null record and lies within the window, both bounds
inclusive -/
theorem fixedKeep_iff (a b : Option (Int × Int)) (r : Rec) :
    fixedKeep a b r = true ↔
      r.tv ≠ (0, 0) ∧ (∀ f, a = some f → lexLe f r.tv) ∧ (∀ f, b = some f → lexLe r.tv f) := by
  obtain ⟨⟨s, u⟩, i⟩ := r
  cases a <;> cases b <;>
    simp [fixedKeep, fixedIsNull, fixedSkipAfter, fixedSkipBefore, lexLe] <;>
    intros <;> omega

-- a record exactly on either bound is kept; the null record is dropped even when in the window
example : fixedKeep (some (3, 1)) (some (3, 1)) ⟨(3, 1), 7⟩ = true := by decide
example : fixedKeep (some (3, 1)) (some (8, 0)) ⟨(3, 0), 7⟩ = false := by decide
example : fixedKeep (some (3, 1)) (some (8, 0)) ⟨(8, 1), 7⟩ = false := by decide
example : fixedKeep (some (-3, 0)) (some (8, 0)) ⟨(0, 0), 7⟩ = false := by decide
example : fixedKeep none none ⟨(0, 0), 7⟩ = false := by decide
example : fixedKeep none none ⟨(0, 1), 7⟩ = true := by decide

end S4V.Props.FilterSpec
