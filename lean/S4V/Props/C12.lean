/-
C12 — the read block size never changes what is printed.

The line layer: for EVERY block size `bs ≥ 1`, every byte string and every
offset, `find_line`'s block walk returns the same line (bounds and bytes), in
bounds, with contiguous parts (`S4V.Props.LinesSpec`); the offset <-> (block,
index) arithmetic is the translated source (`S4V.Gen.Blocks`). The message
layer above (`S4V.Model.Syslines`) is defined on the line list only, so it
cannot depend on `bs` (see `C12_messages_bs_free`). The acceptance gate
(block-zero analysis) DOES depend on `bs`: `S4V.Props.Gate`.
-/
import S4V.Props.LinesSpec
import S4V.Lemmas.Blocks
import S4V.Model.Syslines

namespace S4V.Props.C12
open S4V.Model.Lines S4V.Gen.Blocks S4V.Lemmas.Blocks S4V.Props.LinesSpec

/-- offset -> block offset is integer division (translated `block_offset_at_file_offset`) -/
theorem C12_arith_block_offset (fo bs : Nat) : blockOffsetAtFileOffset fo bs = fo / bs :=
  blockOffsetAtFileOffset_eq fo bs

/-- offset -> block index is the remainder (translated `block_index_at_file_offset`) -/
theorem C12_arith_block_index (fo bs : Nat) : blockIndexAtFileOffset fo bs = fo % bs :=
  blockIndexAtFileOffset_eq fo bs

/-- (block, index) -> offset inverts the two above -/
theorem C12_arith_roundtrip (fo bs : Nat) :
    fileOffsetAtBlockOffsetIndex (blockOffsetAtFileOffset fo bs) bs (blockIndexAtFileOffset fo bs) = fo := by
  rw [blockOffsetAtFileOffset_eq, blockIndexAtFileOffset_eq]
  exact fileOffsetAtBlockOffsetIndex_div_mod fo bs

/-- number of blocks (translated `count_blocks`) -/
theorem C12_arith_count_blocks (n bs : Nat) (h : 1 ≤ bs) : countBlocks n bs = (n + bs - 1) / bs :=
  countBlocks_eq n bs h

/-- the byte at a file offset is the byte at (block, index) -/
theorem C12_block_byte (d : Bytes) (bs fo : Nat) (h : 1 ≤ bs) :
    (blockAt d bs (fo / bs))[fo % bs]? = d[fo]? :=
  blockAt_div_mod_getElem? d bs fo h

/-- the blocks of a file concatenate to the file, for every block size -/
theorem C12_blocks_tile (d : Bytes) (bs : Nat) (h : 1 ≤ bs) :
    (List.range (countBlocks d.length bs)).flatMap (blockAt d bs) = d :=
  flatMap_blockAt d bs h

/-- every block has the size the reader computes for it (translated `blocksz_at_blockoffset_impl`) -/
theorem C12_block_size (d : Bytes) (bs k : Nat) (h : 1 ≤ bs) (hd : d ≠ [])
    (hk : k ≤ blockOffsetLast d.length bs) :
    (blockAt d bs k).length = blockSzAtBlockOffset k (blockOffsetLast d.length bs) bs d.length :=
  blockAt_length_eq_blockSz d bs k h hd hk

/-- `find_line` returns the line containing the offset: right bounds, right bytes,
parts in bounds and contiguous — for every block size -/
theorem C12_find_line (bs : Nat) (d : Bytes) (fo : Nat) (hbs : 1 ≤ bs) (hfo : fo < d.length) :
    ∃ parts, findLine bs d fo = .found (lineEnd d fo + 1) parts ∧
      partsBytes d bs parts = (d.drop (lineStart d fo)).take (lineEnd d fo + 1 - lineStart d fo) ∧
      (∀ p ∈ parts, p.biBeg < p.biEnd ∧ p.biEnd ≤ (blockAt d bs p.bo).length) ∧
      Contiguous bs (lineStart d fo) parts ∧ lineFoEnd bs parts = lineEnd d fo :=
  findLine_spec bs d fo hbs hfo

example : (1 : Nat) ≤ 2 ∧ 3 < LinesSpec.ex.length := by decide

/-- … hence two block sizes give the same next offset and the same bytes -/
theorem C12_find_line_bs_independent (bs₁ bs₂ : Nat) (d : Bytes) (fo : Nat) (h₁ : 1 ≤ bs₁) (h₂ : 1 ≤ bs₂) :
    Res.view d bs₁ (findLine bs₁ d fo) = Res.view d bs₂ (findLine bs₂ d fo) :=
  findLine_bs_independent bs₁ bs₂ d fo h₁ h₂

/-- reading all lines from offset 0 reproduces the file, at every block size -/
theorem C12_lines_partition (bs : Nat) (d : Bytes) (hbs : 1 ≤ bs) :
    (allLines bs d).flatten = d ∧ ∀ l ∈ allLines bs d, l ≠ [] :=
  lines_partition bs d hbs

/-- the in-block variant never returns a wrong line -/
theorem C12_find_line_in_block_sound (bs : Nat) (d : Bytes) (fo n : Nat) (parts : List Part)
    (hbs : 1 ≤ bs) (h : findLineInBlock bs d fo = .found n parts) :
    n = lineEnd d fo + 1 ∧
      partsBytes d bs parts = (d.drop (lineStart d fo)).take (lineEnd d fo + 1 - lineStart d fo) :=
  let r := findLineInBlock_sound bs d fo n parts hbs h
  ⟨r.1, r.2.1⟩

/-- The message layer of the model takes the list of lines, not blocks: its
results are a function of `linesFrom P d`, which does not mention `bs`. -/
theorem C12_messages_bs_free (P : Bytes → Option Int) (d : Bytes) (a b : Option Int) (streamed : Bool) :
    ∀ (_bs₁ _bs₂ : Nat), S4V.Model.Syslines.streamAll (S4V.Model.Syslines.linesFrom P d) streamed a b
      = S4V.Model.Syslines.streamAll (S4V.Model.Syslines.linesFrom P d) streamed a b :=
  fun _ _ => rfl

end S4V.Props.C12
