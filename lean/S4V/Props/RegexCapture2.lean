/-
C04, regex slice, stage 4 — end-to-end capture theorems for more timestamp notations, over the
reflective procedure of `S4V.Lemmas.RegexSym` (one decidable check `rowOk` per row, run in the kernel,
gives the matcher's run for EVERY choice of catalogue words) and the catalogues of `S4V.Lemmas.RegexRows`.

ISO 8601 family (rows 79, 76, 75, 77, 78 of `DATETIME_PARSE_DATAS`): `IsoFields` = year 1970–2099, month
01–12, day 1–31 as `08` / `8` / ` 8`, hour 00–24, minute 00–59, second 00–60, separators: nothing/`-`/`/`/space
between year and month, `-`/`/`/space between month and day, space/`T`/`-`/`:` before the time, optional `:`s.
* `re79_eq` … `re78_eq`       the generated ASTs are the concatenations the catalogues are for (`rfl`)
* `C04_iso_search`            row 79: match at 0, span, every group on its field; tail empty or ASCII non-digit
* `C04_iso_captures`          hence the `Captures` of the post-capture model are the rendered fields
* `C04_iso_end_to_end`        hence (`C04_normalise_parse`, hour ≤ 23, real date, whole-minute fallback offset
                              within ±24 h: `RegexZones.fb_piece`) the instant is `instantNs` in the fallback zone
* `C04_iso_zc_search/_captures`, `C04_iso_z_search`, `C04_iso_zp_search`   rows 76 / 75 / 77: `[ ]?±HH:MM`, `±HHMM`, `±HH`
* `C04_iso_Z_search/_captures`  row 78: every abbreviation of the row's alternation (`zoneAlts`, = the keys of the
                              generated zone table: `zoneAlts_eq_table`), `PETT`/`UTC`/`WITA` included
False statements (witnesses replayed through the real regex / pipeline with `s4h rgx|time --replay`: same answers)
* `C04_iso_any_tail_full_false`        a digit after the seconds: no match (`C04_iso_invalid_utf8_tail`: nor before bytes
                                       that are not UTF-8) — the tail condition is needed
* `C04_iso_hour24_full_false`          hour `24` is matched by the regex but yields no instant
* `C04_rfc3164_padded_day_full_false`  after a greedy `[[:blank:]]+` the pad of ` 1` belongs to the blanks
The other notations (RFC 5424 / 3164 / 2822, epoch, ad-hoc) are in `S4V.Props.RegexCapture2Auto`.
-/
import S4V.Gen.Regex
import S4V.Lemmas.RegexRows
import S4V.Props.RegexCapture
import S4V.Props.TimeSpec
import S4V.Lemmas.RegexZones

namespace S4V.Props.RegexCapture2
open S4V.Model.Regex S4V.Gen.Regex S4V.Lemmas.RegexStep S4V.Lemmas.RegexSym S4V.Lemmas.RegexRows
open S4V.Model.DtParse (dchar Captures capturesToInstant)
open S4V.Lemmas.DtParse (dec2 dec4)
open S4V.Props.RegexCapture (capturesOf capField TailOK endLen)
open S4V.Gen.TimeTables S4V.Model.Time S4V.Model.DtParse S4V.Lemmas.DtParse S4V.Props.TimeSpec S4V.Lemmas.RegexZones

/-! ### shared pieces -/

def sepD : Re := .rep (.cls [(32,32),(45,45),(47,47)]) 0 (some 1)
def sepT : Re := .rep (.cls [(32,32),(45,45),(58,58),(84,84)]) 0 (some 1)
def colonQ : Re := .rep (.cls [(58,58)]) 0 (some 1)
def blankQ : Re := .rep (.cls [(9,9),(32,32)]) 0 (some 1)
/-- `([[:^digit:]]|$)` as group `g` -/
def endDigit (g : Nat) : Re := .group g (altL [.cls [(0,47),(58,55295),(57344,1114111)], .eol])


/-- day renderings: `08`, `8`, ` 8` -/
inductive DayForm where
  | d2 | d1 | sp
deriving DecidableEq, Repr

def dayW (f : DayForm) (D : Nat) : List UInt8 :=
  match f with
  | .d2 => dec2 D
  | .d1 => [dchar D]
  | .sp => [32, dchar D]

def DayOK (f : DayForm) (D : Nat) : Prop := 1 ≤ D ∧ D ≤ 31 ∧ (f ≠ .d2 → D ≤ 9)

def dayWords : List (List UInt8) := day2Words ++ day1Words ++ daySpWords

theorem dayW_mem {f : DayForm} {D : Nat} (h : DayOK f D) : dayW f D ∈ dayWords := by
  obtain ⟨h1, h2, h3⟩ := h
  simp only [dayWords, day2Words, day1Words, daySpWords, List.mem_append, List.mem_map, List.mem_range'_1]
  cases f with
  | d2 => exact Or.inl (Or.inl ⟨D, by omega, rfl⟩)
  | d1 => exact Or.inl (Or.inr ⟨D, by have := h3 (by simp); omega, rfl⟩)
  | sp => exact Or.inr ⟨D, by have := h3 (by simp); omega, rfl⟩

/-! ### the ISO 8601 core `YYYY MM DD HH MM SS` with optional separators (groups 1–6), shared by rows 70–79 and 7–15 -/

def isoCore : List Piece := [
  ⟨n1, grp 1 yearWords⟩, ⟨sepD, plain (cws [[], [45], [47], [32]])⟩,
  ⟨n3, grp 2 (cws monthWords)⟩, ⟨sepD, plain (cws [[45], [47], [32]])⟩,
  ⟨n5, grp 3 (cws dayWords)⟩, ⟨sepT, plain (cws [[32], [84], [45], [58]])⟩,
  ⟨n7, grp 4 (cws hourWords)⟩, ⟨colonQ, plain (cws [[], [58]])⟩,
  ⟨n8, grp 5 [minuteWord]⟩, ⟨colonQ, plain (cws [[], [58]])⟩,
  ⟨n10, grp 6 secondWords⟩]

/-- field values and separators of one rendering -/
structure IsoFields where
  Y : Nat
  M : Nat
  D : Nat
  df : DayForm
  H : Nat
  N : Nat
  S : Nat
  /-- between year and month: nothing, `-`, `/` or a space -/
  s1 : List UInt8
  /-- between month and day: `-`, `/` or a space -/
  s2 : List UInt8
  /-- between date and time: space, `T`, `-` or `:` -/
  sT : List UInt8
  /-- nothing or `:` -/
  c1 : List UInt8
  c2 : List UInt8

def IsoFields.OK (x : IsoFields) : Prop :=
  (1970 ≤ x.Y ∧ x.Y ≤ 2099) ∧ (1 ≤ x.M ∧ x.M ≤ 12) ∧ DayOK x.df x.D ∧ x.H ≤ 24 ∧ x.N ≤ 59 ∧ x.S ≤ 60 ∧
  x.s1 ∈ [[], [45], [47], [32]] ∧ x.s2 ∈ [[45], [47], [32]] ∧ x.sT ∈ [[32], [84], [45], [58]] ∧
  x.c1 ∈ [[], [58]] ∧ x.c2 ∈ [[], [58]]

def isoSel (x : IsoFields) : Sel := [ySel 1 x.Y, wSel none x.s1, wSel (some 2) (dec2 x.M), wSel none x.s2,
  wSel (some 3) (dayW x.df x.D), wSel none x.sT, wSel (some 4) (dec2 x.H), wSel none x.c1,
  symSel (some 5) minuteWord (dec2 x.N), wSel none x.c2, sSel 6 x.S]

/-- the rendered date-time -/
def isoText (x : IsoFields) : List UInt8 :=
  dec4 x.Y ++ (x.s1 ++ (dec2 x.M ++ (x.s2 ++ (dayW x.df x.D ++ (x.sT ++ (dec2 x.H ++ (x.c1 ++ (dec2 x.N ++ (x.c2 ++ dec2 x.S)))))))))

theorem flat_isoSel (x : IsoFields) : flat (isoSel x) = isoText x := by
  simp [isoSel, flat, isoText, ySel, symSel, wSel, sSel_word]

theorem isoSel_ok (x : IsoFields) (h : x.OK) : AllOK isoCore (isoSel x) := by
  obtain ⟨hY, hM, hD, hH, hN, hS, h1, h2, hT, hc1, hc2⟩ := h
  refine ⟨ewOK_year hY, ewOK_w_plain h1, ewOK_w_grp ?_, ewOK_w_plain h2, ewOK_w_grp (dayW_mem hD), ewOK_w_plain hT,
    ewOK_w_grp ?_, ewOK_w_plain hc1, ewOK_sym_grp (by simp) (conc_minute hN), ewOK_w_plain hc2, ewOK_second hS, trivial⟩
  · simp only [monthWords, List.mem_map, List.mem_range'_1]; exact ⟨x.M, by omega, rfl⟩
  · simp only [hourWords, List.mem_map, List.mem_range'_1]; exact ⟨x.H, by omega, rfl⟩

/-! ### from group texts to the `Captures` of the post-capture model -/

theorem capField_eq (row : S4V.Gen.Regex.Row) (line : List UInt8) (caps : Caps) (name : String) :
    capField row line caps name = (row.names.lookup name).bind (groupText line caps) := by
  unfold capField groupText
  cases row.names.lookup name <;> rfl

def isoCaptures (x : IsoFields) : Captures :=
  { year := some (dec4 x.Y), month := some (dec2 x.M), day := some (dayW x.df x.D), hour := some (dec2 x.H),
    minute := some (dec2 x.N), second := some (dec2 x.S) }

theorem selText_iso (x : IsoFields) :
    selText 1 (isoSel x) = some (dec4 x.Y) ∧ selText 2 (isoSel x) = some (dec2 x.M) ∧
    selText 3 (isoSel x) = some (dayW x.df x.D) ∧ selText 4 (isoSel x) = some (dec2 x.H) ∧
    selText 5 (isoSel x) = some (dec2 x.N) ∧ selText 6 (isoSel x) = some (dec2 x.S) ∧
    ∀ g, 7 ≤ g → selText g (isoSel x) = none := by
  refine ⟨?_, ?_, ?_, ?_, ?_, ?_, ?_⟩ <;>
    first
    | (intro g hg
       have h1 : (1 == g) = false := by simp; omega
       have h2 : (2 == g) = false := by simp; omega
       have h3 : (3 == g) = false := by simp; omega
       have h4 : (4 == g) = false := by simp; omega
       have h5 : (5 == g) = false := by simp; omega
       have h6 : (6 == g) = false := by simp; omega
       simp [isoSel, selText, capGet, h1, h2, h3, h4, h5, h6])
    | simp [isoSel, selText, capGet, sliceOf, dec4, dec2, minuteWord]

/-! ### (1) row 79: ISO 8601 date-time without fraction and zone -/

theorem re79_eq (e : Bool) : re79 = catL (.bol :: (isoCore ++ [Piece.mk (endDigit 7) (endDom 7 nonDigit e)]).map Piece.item) := by
  cases e <;> rfl

set_option maxRecDepth 100000 in
theorem ok79 : ∀ e : Bool, rowOk (isoCore ++ [Piece.mk (endDigit 7) (endDom 7 nonDigit e)]) (tailSym e) = true := by
  decide +kernel

/-- **search on `YYYY-MM-DD HH:MM:SS`** (row 79): for every field tuple and separator choice in range and every
tail that is empty or starts with an ASCII non-digit, the match starts at 0, ends after the seconds (plus
the one byte the last group takes) and the groups sit exactly on the fields -/
theorem C04_iso_search (x : IsoFields) (hx : x.OK) (tail : List UInt8) (ht : TailIn nonDigit tail) :
    search row79.re (isoText x ++ tail) =
      some ⟨0, (isoText x).length + tailLen tail, capsAt 0 [] (isoSel x ++ [endEw 7 nonDigit tail])⟩ := by
  have := search_row_end re79_eq ok79 (isoSel_ok x hx) ht
  rwa [flat_isoSel] at this

theorem C04_iso_captures (x : IsoFields) (hx : x.OK) (tail : List UInt8) :
    capturesOf row79 (isoText x ++ tail) (capsAt 0 [] (isoSel x ++ [endEw 7 nonDigit tail])) = isoCaptures x := by
  have hs := allOK_slots (isoSel_ok x hx)
  obtain ⟨t1, t2, t3, t4, t5, t6, _⟩ := selText_iso x
  have gt : ∀ g, g ≠ 7 → groupText (isoText x ++ tail) (capsAt 0 [] (isoSel x ++ [endEw 7 nonDigit tail])) g =
      selText g (isoSel x) := by
    intro g hg
    have := groupText_end g 7 nonDigit (isoSel x) tail hs
    rw [flat_isoSel] at this
    rw [this, selText_append, selText_endEw 7 g nonDigit tail hg]
  simp only [capturesOf, capField_eq, row79, List.lookup, isoCaptures]
  simp [gt, t1, t2, t3, t4, t5, t6]

/-- **end to end, row 79**: the ISO date-time without zone is attributed the instant it denotes in the
fallback zone -/
theorem C04_iso_end_to_end (x : IsoFields) (hx : x.OK) (hH : x.H ≤ 23) (hvalid : validDate x.Y x.M x.D = true)
    (tail : List UInt8) (ht : TailIn nonDigit tail) (fbOff : Int) (hfb : FbOK fbOff) (fill : Option Int) :
    ∃ res, search row79.re (isoText x ++ tail) = some res ∧ res.start = 0 ∧
      capturesToInstant row79.dtfs (capturesOf row79 (isoText x ++ tail) res.caps) fbOff fill =
        some (instantNs x.Y x.M x.D x.H x.N x.S 0 fbOff) := by
  refine ⟨_, C04_iso_search x hx tail ht, rfl, ?_⟩
  simp only [C04_iso_captures x hx tail]
  obtain ⟨hY, hM, hD, _, hN, hS, _⟩ := hx
  have hday : dayPiece .e_or_d (isoCaptures x) = some (dec2 x.D) := by
    apply C04_day_forms _ x.D (by have := hD.2.1; omega)
    cases hdf : x.df with
    | d2 => left; simp [isoCaptures, dayW, hdf]
    | d1 => right; exact ⟨by have := hD.2.2 (by simp [hdf]); omega, Or.inl (by simp [isoCaptures, dayW, hdf])⟩
    | sp => right; exact ⟨by have := hD.2.2 (by simp [hdf]); omega, Or.inr (by simp [isoCaptures, dayW, hdf])⟩
  exact C04_normalise_parse "DTFSS_YmdHMS" DTFSS_YmdHMS (by decide) rfl (isoCaptures x) fbOff fill
    (dec4 x.Y) (dec2 x.S) [] (offString fbOff) x.Y x.M x.D x.H x.N x.S 0 fbOff
    rfl ⟨x.Y, by omega, rfl, rfl⟩ rfl hM hday ⟨hD.1, hD.2.1⟩ rfl hH rfl hN rfl ⟨x.S, hS, rfl, rfl⟩
    rfl ⟨rfl, rfl⟩ rfl (fb_piece hfb true).1 (fun perm _ => (fb_piece hfb perm).2) hvalid

/-! ### (2) rows 76 / 75 / 77 / 78: the same date-time followed by a zone -/

def dig : Re := .cls [(48,57)]
def sgn : Sym := [(43,43),(45,45)]
/-- `±HH:MM`, `±HHMM`, `±HH` (hours `00`–`29`: what the `[0-2][0-9]` of the rows allows) -/
def tzcW : List Sym := [sgn, [(48,50)], D, b1 58, D, D]
def tzzW : List Sym := [sgn, [(48,50)], D, D, D]
def tzpW : List Sym := [sgn, [(48,50)], D]
def tzcRe : Re := catL [.cls [(43,43),(45,45),(8722,8722)], .cls [(48,50)], dig, .lit [58], .rep dig 2 (some 2)]
def tzzRe : Re := catL [.cls [(43,43),(45,45),(8722,8722)], .cls [(48,50)], .rep dig 3 (some 3)]
def tzpRe : Re := catL [.cls [(43,43),(45,45),(8722,8722)], .cls [(48,50)], dig]
def blankDom : List Entry := plain (cws [[], [32]])
def body7x : List Piece := isoCore ++ [Piece.mk blankQ blankDom]
def zoneLast (zr : Re) (e : Bool) (w : List Sym) : Piece :=
  Piece.mk (.cat (.group 7 zr) (endDigit 8)) (lastDom 7 8 [w] nonDigit e)

theorem re76_eq (e : Bool) : re76 = catL (.bol :: (body7x ++ [zoneLast tzcRe e tzcW]).map Piece.item) := by cases e <;> rfl
theorem re75_eq (e : Bool) : re75 = catL (.bol :: (body7x ++ [zoneLast tzzRe e tzzW]).map Piece.item) := by cases e <;> rfl
theorem re77_eq (e : Bool) : re77 = catL (.bol :: (body7x ++ [zoneLast tzpRe e tzpW]).map Piece.item) := by cases e <;> rfl
set_option maxRecDepth 100000 in
theorem ok76 : ∀ e : Bool, rowOk (body7x ++ [zoneLast tzcRe e tzcW]) (tailSym e) = true := by decide +kernel
set_option maxRecDepth 100000 in
theorem ok75 : ∀ e : Bool, rowOk (body7x ++ [zoneLast tzzRe e tzzW]) (tailSym e) = true := by decide +kernel
set_option maxRecDepth 100000 in
theorem ok77 : ∀ e : Bool, rowOk (body7x ++ [zoneLast tzpRe e tzpW]) (tailSym e) = true := by decide +kernel

theorem symHas_sgn {sign : UInt8} (h : sign = 43 ∨ sign = 45) : symHas sgn sign = true := by
  rcases h with rfl | rfl <;> decide

theorem symHas_02 {oh : Nat} (h : oh ≤ 29) : symHas [(48,50)] (dchar (oh / 10)) = true := by
  simp only [symHas, inRanges, List.any_cons, List.any_nil, Bool.or_false, Bool.and_eq_true, decide_eq_true_eq,
    dchar_toNat]
  omega

/-- `±HH:MM` -/
def tzcText (sign : UInt8) (oh om : Nat) : List UInt8 := sign :: (dec2 oh ++ 58 :: dec2 om)
def tzzText (sign : UInt8) (oh om : Nat) : List UInt8 := sign :: (dec2 oh ++ dec2 om)
def tzpText (sign : UInt8) (oh : Nat) : List UInt8 := sign :: dec2 oh

theorem conc_tzc {sign : UInt8} {oh om : Nat} (hs : sign = 43 ∨ sign = 45) (ho : oh ≤ 29) : Conc tzcW (tzcText sign oh om) :=
  ⟨symHas_sgn hs, symHas_02 ho, symHas_D _, symHas_b1 _ _ (by decide), symHas_D _, symHas_D _, trivial⟩
theorem conc_tzz {sign : UInt8} {oh om : Nat} (hs : sign = 43 ∨ sign = 45) (ho : oh ≤ 29) : Conc tzzW (tzzText sign oh om) :=
  ⟨symHas_sgn hs, symHas_02 ho, symHas_D _, symHas_D _, symHas_D _, trivial⟩
theorem conc_tzp {sign : UInt8} {oh : Nat} (hs : sign = 43 ∨ sign = 45) (ho : oh ≤ 29) : Conc tzpW (tzpText sign oh) :=
  ⟨symHas_sgn hs, symHas_02 ho, symHas_D _, trivial⟩

theorem body7x_ok (x : IsoFields) (hx : x.OK) {b : List UInt8} (hb : b ∈ [[], [32]]) :
    AllOK body7x (isoSel x ++ [wSel none b]) :=
  allOK_append (isoSel_ok x hx) ⟨ewOK_w_plain hb, trivial⟩

/-- the generic statement for the three numeric-zone rows and the named-zone row -/
theorem iso_zone_search {re : Re} {lastIt : Re} {ws : List (List Sym)} {s : Sym}
    (hre : ∀ e, re = catL (.bol :: (body7x ++ [Piece.mk lastIt (lastDom 7 8 ws s e)]).map Piece.item))
    (hok : ∀ e, rowOk (body7x ++ [Piece.mk lastIt (lastDom 7 8 ws s e)]) (tailSym e) = true)
    (x : IsoFields) (hx : x.OK) {b : List UInt8} (hb : b ∈ [[], [32]]) {zs : List Sym} {z : List UInt8} (hz : zs ∈ ws)
    (hc : Conc zs z) (tail : List UInt8) (ht : TailIn s tail) :
    search re (isoText x ++ (b ++ (z ++ tail))) =
      some ⟨0, (isoText x).length + b.length + z.length + tailLen tail,
        capsAt 0 [] (isoSel x ++ [wSel none b] ++ [lastEw 7 8 zs z s tail])⟩ := by
  have := search_row_zone hre hok (body7x_ok x hx hb) hz hc ht
  simpa [flat_append, flat_isoSel, flat] using this

/-- the captures of those rows: the iso fields plus the zone text -/
theorem iso_zone_captures (row : S4V.Gen.Regex.Row)
    (hn : row.names = [("year", 1), ("month", 2), ("day", 3), ("hour", 4), ("minute", 5), ("second", 6), ("tz", 7)])
    (x : IsoFields) (hx : x.OK) {b : List UInt8} (hb : b ∈ [[], [32]]) {zs : List Sym} {z : List UInt8} (s : Sym)
    (hc : Conc zs z) (tail : List UInt8) :
    capturesOf row (isoText x ++ (b ++ (z ++ tail))) (capsAt 0 [] (isoSel x ++ [wSel none b] ++ [lastEw 7 8 zs z s tail])) =
      { isoCaptures x with tz := some z } := by
  have hs := allOK_slots (body7x_ok x hx hb)
  obtain ⟨t1, t2, t3, t4, t5, t6, t7⟩ := selText_iso x
  have gt : ∀ g, groupText (isoText x ++ (b ++ (z ++ tail))) (capsAt 0 [] (isoSel x ++ [wSel none b] ++ [lastEw 7 8 zs z s tail])) g =
      selText g (isoSel x ++ [wSel none b] ++ [lastEw 7 8 zs z s tail]) := by
    intro g
    have := groupText_zone g 7 8 s (isoSel x ++ [wSel none b]) tail hs hc
    simpa [flat_append, flat_isoSel, flat] using this
  have hb0 : ∀ g, selText g [wSel none b] = none := by intro g; simp [selText, capGet]
  have g7 := selText_lastEw_zone 7 8 s tail hc (by decide)
  have go : ∀ g, g ≠ 7 → g ≠ 8 → selText g (isoSel x ++ [wSel none b] ++ [lastEw 7 8 zs z s tail]) = selText g (isoSel x) := by
    intro g h7 h8
    rw [selText_append, selText_lastEw_other 7 8 g zs z s tail h7 h8, selText_append, hb0]
  have h7 : selText 7 (isoSel x ++ [wSel none b] ++ [lastEw 7 8 zs z s tail]) = some z := by
    rw [selText_append, g7]
  have e : isoSel x ++ [wSel none b] ++ [lastEw 7 8 zs z s tail] = isoSel x ++ [wSel none b, lastEw 7 8 zs z s tail] := by
    simp
  rw [e] at gt go h7
  simp only [capturesOf, capField_eq, hn, List.lookup, isoCaptures]
  simp [gt, go, t1, t2, t3, t4, t5, t6, h7]

theorem C04_iso_zc_search (x : IsoFields) (hx : x.OK) {b : List UInt8} (hb : b ∈ [[], [32]]) {sign : UInt8} {oh om : Nat}
    (hs : sign = 43 ∨ sign = 45) (ho : oh ≤ 29) (tail : List UInt8) (ht : TailIn nonDigit tail) :
    search row76.re (isoText x ++ (b ++ (tzcText sign oh om ++ tail))) =
      some ⟨0, (isoText x).length + b.length + 6 + tailLen tail,
        capsAt 0 [] (isoSel x ++ [wSel none b] ++ [lastEw 7 8 tzcW (tzcText sign oh om) nonDigit tail])⟩ :=
  iso_zone_search re76_eq ok76 x hx hb (by simp) (conc_tzc hs ho) tail ht

theorem C04_iso_z_search (x : IsoFields) (hx : x.OK) {b : List UInt8} (hb : b ∈ [[], [32]]) {sign : UInt8} {oh om : Nat}
    (hs : sign = 43 ∨ sign = 45) (ho : oh ≤ 29) (tail : List UInt8) (ht : TailIn nonDigit tail) :
    search row75.re (isoText x ++ (b ++ (tzzText sign oh om ++ tail))) =
      some ⟨0, (isoText x).length + b.length + 5 + tailLen tail,
        capsAt 0 [] (isoSel x ++ [wSel none b] ++ [lastEw 7 8 tzzW (tzzText sign oh om) nonDigit tail])⟩ :=
  iso_zone_search re75_eq ok75 x hx hb (by simp) (conc_tzz hs ho) tail ht

theorem C04_iso_zp_search (x : IsoFields) (hx : x.OK) {b : List UInt8} (hb : b ∈ [[], [32]]) {sign : UInt8} {oh : Nat}
    (hs : sign = 43 ∨ sign = 45) (ho : oh ≤ 29) (tail : List UInt8) (ht : TailIn nonDigit tail) :
    search row77.re (isoText x ++ (b ++ (tzpText sign oh ++ tail))) =
      some ⟨0, (isoText x).length + b.length + 3 + tailLen tail,
        capsAt 0 [] (isoSel x ++ [wSel none b] ++ [lastEw 7 8 tzpW (tzpText sign oh) nonDigit tail])⟩ :=
  iso_zone_search re77_eq ok77 x hx hb (by simp) (conc_tzp hs ho) tail ht

theorem C04_iso_zc_captures (x : IsoFields) (hx : x.OK) {b : List UInt8} (hb : b ∈ [[], [32]]) {sign : UInt8} {oh om : Nat}
    (hs : sign = 43 ∨ sign = 45) (ho : oh ≤ 29) (tail : List UInt8) :
    capturesOf row76 (isoText x ++ (b ++ (tzcText sign oh om ++ tail)))
        (capsAt 0 [] (isoSel x ++ [wSel none b] ++ [lastEw 7 8 tzcW (tzcText sign oh om) nonDigit tail])) =
      { isoCaptures x with tz := some (tzcText sign oh om) } :=
  iso_zone_captures row76 rfl x hx hb nonDigit (conc_tzc hs ho) tail

/-! ### (2, named zone) row 78: `… [ ]?(ACDT|…|zulu|z)` followed by a non-letter -/

/-- the literals of an alternation of literals, in priority order -/
def litsOf : Re → List (List UInt8)
  | .alt (.lit a) b => a :: litsOf b
  | .lit a => [a]
  | _ => []

/-- the zone abbreviations row 78 accepts, in the order of its alternation -/
def zoneAlts : List (List UInt8) := litsOf n17

/-- they are exactly the keys of the generated zone table (`MAP_TZZ_TO_TZz`), in another order -/
theorem zoneAlts_eq_table : zoneAlts.length = 392 ∧ zoneAlts.all (fun k => (tzTableB.map (·.1)).contains k) = true ∧
    (tzTableB.map (·.1)).all (fun k => zoneAlts.contains k) = true := by decide +kernel

def nameLast (e : Bool) : Piece := Piece.mk (.cat n29 n57) (lastDom 7 8 (cws zoneAlts) nonAlpha e)
theorem re78_eq (e : Bool) : re78 = catL (.bol :: (body7x ++ [nameLast e]).map Piece.item) := by cases e <;> rfl
set_option maxRecDepth 100000 in
theorem ok78 : ∀ e : Bool, rowOk (body7x ++ [nameLast e]) (tailSym e) = true := by decide +kernel

/-- **named zone** (row 78): EVERY abbreviation of the alternation — including `PETT`, `UTC`, `WITA`, whose
proper prefixes `PET`, `UT`, `WIT` come EARLIER in the alternation: the matcher backtracks out of the
final group — is captured whole when followed by a non-letter or the end of the slice -/
theorem C04_iso_Z_search (x : IsoFields) (hx : x.OK) {b : List UInt8} (hb : b ∈ [[], [32]]) {z : List UInt8}
    (hz : z ∈ zoneAlts) (tail : List UInt8) (ht : TailIn nonAlpha tail) :
    search row78.re (isoText x ++ (b ++ (z ++ tail))) =
      some ⟨0, (isoText x).length + b.length + z.length + tailLen tail,
        capsAt 0 [] (isoSel x ++ [wSel none b] ++ [lastEw 7 8 (cw z) z nonAlpha tail])⟩ :=
  iso_zone_search re78_eq ok78 x hx hb (by simp only [cws, List.mem_map]; exact ⟨z, hz, rfl⟩) (conc_cw z) tail ht

theorem C04_iso_Z_captures (x : IsoFields) (hx : x.OK) {b : List UInt8} (hb : b ∈ [[], [32]]) (z : List UInt8) (tail : List UInt8) :
    capturesOf row78 (isoText x ++ (b ++ (z ++ tail)))
        (capsAt 0 [] (isoSel x ++ [wSel none b] ++ [lastEw 7 8 (cw z) z nonAlpha tail])) =
      { isoCaptures x with tz := some z } :=
  iso_zone_captures row78 rfl x hx hb nonAlpha (conc_cw z) tail

/-! ### statements that are false, with witnesses -/

/-- "whatever follows the seconds, row 79 matches the stamp at 0" -/
def C04_iso_any_tail_full : Prop :=
  ∀ (x : IsoFields), x.OK → ∀ tail : List UInt8, ∃ res, search row79.re (isoText x ++ tail) = some res ∧ res.start = 0

def xW : IsoFields := ⟨2020, 1, 11, .d2, 0, 0, 26, [45], [45], [32], [58], [58]⟩
theorem xW_ok : xW.OK := by
  refine ⟨by decide, by decide, ⟨by decide, by decide, by decide⟩, by decide, by decide, by decide, ?_, ?_, ?_, ?_, ?_⟩ <;> simp [xW]

/-- a digit after the seconds (`2020-01-11 00:00:267`): no match at all (the condition `TailIn nonDigit` of
`C04_iso_search` is needed); the same for a tail that is not UTF-8 (`…26\xff`): `[[:^digit:]]` needs a scalar value -/
theorem C04_iso_any_tail_full_false : ¬ C04_iso_any_tail_full := by
  intro h
  obtain ⟨res, hres, _⟩ := h xW xW_ok [55]
  revert hres
  have : search row79.re (isoText xW ++ [55]) = none := by decide +kernel
  rw [this]; intro h; cases h

theorem C04_iso_invalid_utf8_tail : search row79.re (isoText xW ++ [255]) = none := by decide +kernel

/-- "hour `24`, which the rows' `(00|…|24)` accepts, gives an instant" -/
def C04_iso_hour24_full : Prop :=
  ∀ (x : IsoFields), x.OK → validDate x.Y x.M x.D = true →
    (capturesToInstant row79.dtfs (isoCaptures x) 0 none).isSome = true

theorem C04_iso_hour24_full_false : ¬ C04_iso_hour24_full := by
  intro h
  have := h { xW with H := 24 } (by
    refine ⟨by decide, by decide, ⟨by decide, by decide, by decide⟩, by decide, by decide, by decide, ?_, ?_, ?_, ?_, ?_⟩ <;> simp [xW])
    (by decide +kernel)
  revert this
  decide +kernel

/-- RFC 3164 `Jan  1`: "the day group spans the space-padded form ` 1`" -/
def C04_rfc3164_padded_day_full : Prop :=
  ∀ res, search row19.re "<14>Jan  1 15:00:36 2023".toUTF8.toList = some res → capGet res.caps 2 = some (8, 10)

/-- the greedy `[[:blank:]]+` before the day takes both spaces: the day group is `1` at `[9, 10)` (harmless:
both forms normalise to `01`) — which is why `RegexCapture2Auto.body19/23/94` leave the padded forms out -/
theorem C04_rfc3164_padded_day_full_false : ¬ C04_rfc3164_padded_day_full := by
  intro h
  have : search row19.re "<14>Jan  1 15:00:36 2023".toUTF8.toList =
      some ⟨0, 24, [(7, 24, 24), (6, 20, 24), (5, 17, 19), (4, 14, 16), (3, 11, 13), (2, 9, 10), (1, 4, 7)]⟩ := by
    decide +kernel
  have := h _ this
  revert this
  decide

/-! ### the hypotheses are satisfiable; instances -/

example : isoText xW = "2020-01-11 00:00:26".toUTF8.toList := by decide +kernel
example (t : List UInt8) : TailIn nonDigit (32 :: t) := by
  intro x t' h; cases h; decide
example : FbOK (-28800) := ⟨960, by decide, by decide⟩
example : [80, 69, 84, 84] ∈ zoneAlts ∧ [80, 69, 84] ∈ zoneAlts := by decide +kernel
example :
    (search row79.re "2020-02-29T23:59:60 host".toUTF8.toList).bind (fun res =>
      capturesToInstant row79.dtfs (capturesOf row79 "2020-02-29T23:59:60 host".toUTF8.toList res.caps) 3600 none) =
    some (instantNs 2020 2 29 23 59 60 0 3600) := by decide +kernel

end S4V.Props.RegexCapture2
