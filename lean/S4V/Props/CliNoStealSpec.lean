/-
C14 — first-match agreement for ALL rows of `CLI_FILTER_PATTERNS`.

`process_dt` (src/bin/s4.rs) tries the 76 pattern rows in table order and returns what the FIRST
row that parses gives. `C14_abs` (S4V.Props.CliSpec) says what each row gives for the values of its
OWN grammar; `C14_no_steal` closed the gap to `process_dt` for 11 rows only. Here the gap is closed
for every row: for each ordered pair (earlier row `rj`, later row `ri`) the generated table decides
(`S4V.Lemmas.CliNoSteal.pairOk`) that `rj`

* refuses every value of `ri` (`noStealPair`: the analysis of `C14_no_steal`; `refusePair`: fractions
  `%3f`/`%6f`, zone items, zone names, a signed `%Y` against `+%s`, the appended midnight), or
* refuses it or reads it to the same chrono `Parsed` record under the same `has_tz` flag
  (`agreePair`: `%z` reading `%:z` / `%#z` spellings, one pattern space more or less, `%#z` reading the
  zone names `Z` / `z` — which needs the generated zone table to map them to `+00:00`).

The facts come from `S4V.Gen.CliTables` (rows, zone-name table, appended midnight); `S4V.Gen.CliItems` is a
generated CACHE of the rows' item lists, checked in Lean against the rows (`infos_eq`). Every theorem
below rests on decisions that unfold `cliFilterPatterns` (`infos_eq`, `table_pairs`, `rows_ok`) and
`tzTable` (`tzTable_ok`, `zulu_names`, `lookupTz_nil`), so adding, editing or reordering a row in s4.rs
re-runs the decision.
-/
import S4V.Props.CliSpec
import S4V.Lemmas.CliNoStealTable

namespace S4V.Props.CliNoStealSpec
open S4V.Model.Cli S4V.Gen.CliTables S4V.Lemmas.CliAbs S4V.Lemmas.CliNoSteal S4V.Props.CliSpec

/-- **C14_first_match_full.** For EVERY row of the generated table, EVERY value of the row's grammar
(`Fields.Valid`; `styleOk`: a `%z` / `%:z` row is given the minutes) resolves through the WHOLE of
`process_dt` — all earlier rows tried first — to the documented instant, whatever `--tz-offset`, the
other bound and the clock. -/
theorem C14_first_match_full (i : Nat) (row : Row) (hrow : cliFilterPatterns[i]? = some row)
    (f : Fields) (hf : f.Valid) (hst : styleOk f (parsePattern row.pattern.toList) = true)
    (tz : Int) (htz : -86400 < tz ∧ tz < 86400) (other : Option DT) (now : Int) :
    processDtL (render row f) tz other now = .some (denote row f tz) := by
  have hmem : row ∈ cliFilterPatterns := List.mem_of_getElem? hrow
  have hok : RowOk row = true := List.all_eq_true.mp rows_ok row hmem
  exact C14_abs_processDt (cliFilterPatterns.take i) row (cliFilterPatterns.drop (i + 1))
    (split_at_index _ i row hrow) f hf hst tz htz
    (fun r hr => pairOk_sound r row f hf tz htz hst hok (pairOk_table i row hrow r hr)) other now

/-- the same, by membership -/
theorem C14_first_match_mem (row : Row) (hrow : row ∈ cliFilterPatterns)
    (f : Fields) (hf : f.Valid) (hst : styleOk f (parsePattern row.pattern.toList) = true)
    (tz : Int) (htz : -86400 < tz ∧ tz < 86400) (other : Option DT) (now : Int) :
    processDtL (render row f) tz other now = .some (denote row f tz) := by
  obtain ⟨i, hi⟩ := List.getElem?_of_mem hrow
  exact C14_first_match_full i row hi f hf hst tz htz other now

/-- `process_dt` as called (`String` value, other bound in epoch nanoseconds) -/
theorem C14_first_match_processDt (row : Row) (hrow : row ∈ cliFilterPatterns)
    (f : Fields) (hf : f.Valid) (hst : styleOk f (parsePattern row.pattern.toList) = true)
    (tz : Int) (htz : -86400 < tz ∧ tz < 86400) (other : Option Int) (now : Int) :
    processDt (String.ofList (render row f)) tz other now = .some (denote row f tz) := by
  simp only [processDt, String.toList_ofList]
  exact C14_first_match_mem row hrow f hf hst tz htz _ now

/-! ### the hypotheses are satisfiable; the statement says something for stolen rows -/

-- a `%Z` value: `2024-02-29T23:59:60 PST` (row 54) is FIRST read by row 51 (`%S%Z`), with the same result
example (tz : Int) (htz : -86400 < tz ∧ tz < 86400) (other : Option DT) (now : Int) :
    processDtL "2024-02-29T23:59:60 PST".toList tz other now =
      .some (civilDT 2024 2 29 23 59 60 0 (-28800)) := by
  have h := C14_first_match_full 54 ⟨"%Y-%m-%dT%H:%M:%S %Z", true, true, true, true⟩ (by decide) exFields exFields_valid
    (by decide) tz htz other now
  have e : render ⟨"%Y-%m-%dT%H:%M:%S %Z", true, true, true, true⟩ exFields = "2024-02-29T23:59:60 PST".toList := by
    decide
  rw [e] at h
  rw [h, C14_abs_zone_wins _ exFields tz 0 (by decide) (Or.inr (by decide))]
  decide +kernel

-- any `%:z` value of the help text's ISO form, any valid fields
example (f : Fields) (hf : f.Valid) (hz : f.zstyle = .colon) (tz : Int) (htz : -86400 < tz ∧ tz < 86400)
    (other : Option DT) (now : Int) :
    processDtL (render ⟨"%Y-%m-%dT%H:%M:%S%:z", true, true, false, true⟩ f) tz other now =
      .some (civilDT f.year f.month f.day f.hour f.minute f.second 0 f.zoneOff) :=
  C14_first_match_full 39 _ (by decide) f hf (by simp [styleOk, parsePattern, hz]) tz htz other now

/-- an earlier row really does read values of later rows (so refusal alone cannot prove the statement):
row 33 `%Y-%m-%dT%H:%M:%S%z` accepts the value `2024-02-29T23:59:58 +0530` of row 34 (`%S %z`) -/
theorem C14_steal_happens :
    (match cliFilterPatterns[33]?, cliFilterPatterns[34]? with
     | some rj, some ri => (attemptRow rj (render ri reprFields) 0).isSome && !refusePair rj ri && agreePair rj ri
     | _, _ => false) = true := by decide +kernel

/-! ### which rows are never read by an earlier row; how the pairs are settled -/

/-- the rows ALL of whose earlier rows refuse every value (decided on the table): the 11 rows of
`C14_no_steal_rows`, the zone-less `.%6f` rows, the first `%z` rows of each skeleton and `+%s` -/
def refusedRows : List Nat :=
  [0, 1, 2, 3, 4, 5, 15, 16, 17, 18, 19, 20, 30, 31, 32, 33, 35, 36, 57, 58, 59, 60, 61, 62, 72, 73, 74, 75]

theorem C14_refused_rows : rowsWhere refusePairI (cliFilterPatterns.map rowInfo) = refusedRows := by
  rw [infos_eq]; exact table_refused

/-- **C14_no_steal (extended).** for those 28 rows no earlier row reads ANY value of the row -/
theorem C14_no_steal_ext (i : Nat) (hi : i ∈ refusedRows) (row : Row) (hrow : cliFilterPatterns[i]? = some row)
    (f : Fields) (hf : f.Valid) (tz : Int) :
    ∀ r ∈ cliFilterPatterns.take i, attemptRow r (render row f) tz = none := by
  rw [← C14_refused_rows] at hi
  intro r hr
  exact refusePair_sound r row f hf tz (rowsWhere_sound refusePairI i hi row hrow r hr)

/-- how the 2850 ordered pairs (earlier, later) are settled: 2754 refused, 96 "refused or the same `Parsed`",
none open -/
theorem C14_pair_kinds :
    (List.range infosGen.length).foldl (fun acc i =>
      match infosGen[i]? with
      | some b => (infosGen.take i).foldl (fun acc a =>
          match pairKindI a b with
          | 0 => (acc.1 + 1, acc.2.1, acc.2.2)
          | 1 => (acc.1, acc.2.1 + 1, acc.2.2)
          | _ => (acc.1, acc.2.1, acc.2.2 + 1)) acc
      | none => acc) (0, 0, 0) = (2754, 96, 0) := table_kinds

/-! ### what the agreement rests on: counter-models

`firstRow` takes the row list as an argument, so a table edited in one token can be run. -/

/-- the table with the `has_tz` flag of row 33 (`%Y-%m-%dT%H:%M:%S%z`) flipped to `false` -/
def tableHasTzFlipped : List Row :=
  cliFilterPatterns.set 33 ⟨"%Y-%m-%dT%H:%M:%S%z", true, false, false, true⟩

/-- **counter-model (one flag).** With `has_tz` of row 33 flipped, the UNEDITED row 39
(`%Y-%m-%dT%H:%M:%S%:z`) no longer gets its documented instant: `2024-02-29T23:59:58+05:30` is read first by
row 33, which now ignores the written zone (`agreePair` demands equal `has_tz` flags). -/
theorem C14_first_match_needs_hasTz :
    (match cliFilterPatterns[39]? with
     | some ri =>
       let f := { reprFields with zstyle := .colon }
       attemptRow ri (render ri f) 0 == some (denote ri f 0) &&
       firstRow tableHasTzFlipped (render ri f) 0 != some (denote ri f 0) &&
       firstRow cliFilterPatterns (render ri f) 0 == some (denote ri f 0)
     | none => false) = true := by decide +kernel

/-- the decision notices it: on the table with that one flag flipped `allPairs pairOkI` is false, so
`table_pairs` (hence `C14_first_match_full`) would not re-prove -/
theorem C14_decision_detects_hasTz_flip :
    allPairs pairOkI (infosGen.set 33 ⟨false, false, true,
      (parsePattern "%Y-%m-%dT%H:%M:%S%z".toList), (parsePattern "%Y-%m-%dT%H:%M:%S%z".toList),
      (parsePattern "%Y-%m-%dT%H:%M:%S%z".toList)⟩) = false := by decide +kernel

/-- **what the `%#z` / `%Z` agreement rests on.** `2024-02-29T23:59:58Z` is a value of row 51 (`%S%Z`, zone name
`Z`) and is read FIRST by row 45 (`%S%#z`) as UTC: the two agree because the generated zone table maps
`Z` and `z` to `+00:00` (`S4V.Lemmas.CliNoSteal.zulu_names`); an entry `("Z", "+01:00")` would make
`process_dt` return an instant one hour from the documented one. -/
theorem C14_zulu_name_is_stolen :
    (match cliFilterPatterns[45]?, cliFilterPatterns[51]? with
     | some rj, some ri =>
       let f := { reprFields with zname := ['Z'] }
       attemptRow rj (render ri f) 0 == some (denote ri f 0) && nameOff ['Z'] == 0 &&
       (attemptRow rj (render ri f) 0).map (·.off) == some 0
     | _, _ => false) = true := by decide +kernel

end S4V.Props.CliNoStealSpec
