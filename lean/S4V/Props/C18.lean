/-
C18 — temporary files: when the process exits, no temporary file it created is
left on disk — after a normal run (although the main thread does not join the
workers) and after a SIGINT, at whatever moment the handler runs and at whatever
moment the process exits after it (`C18_full_holds`).

The source refuses to create a temporary file once the handler has run (the
NAMED_TEMP_FILES_CLOSED flag, set and tested under the NAMED_TEMP_FILES lock;
regenerated as `createRefusedAfterHandler`). Without that flag the statement
needs the proviso "no worker creates its file after the handler ran"
(`C18_sigint_param`) and is false without it (`C18_full_without_flag_false`).

The theorems about `runGen` unfold the generated constants `createUnderLock`,
`dropBeforeSummary` and `createRefusedAfterHandler` inside their proofs:
regenerating any of them as `false` breaks them, and `gap_without_lock` /
`summary_before_drop` / `late_create_without_flag` show the leftover each of
the three other orders produces.
-/
import S4V.Lemmas.Tmp

namespace S4V.Props.C18
open S4V.Model.Tmp S4V.Gen.Tmp S4V.Lemmas.Tmp

/-- the source, as regenerated: creation+listing under the lock, reader dropped before the final
summary, creation refused once the handler ran. Proved by unfolding the three generated constants:
regenerating any of them as `false` breaks this (and everything below that rests on it). -/
theorem runGen_eq : runGen = runC true true := rfl

/-! ## 1. normal run -/

/-- repaired order, as parameters: a run without SIGINT that ends with the process exited leaves no file -/
theorem C18_normal_param (n : Nat) (evs : List Ev) (s : St)
    (hrun : run true true (init n) evs = some s) (hex : s.exited = true) (hno : Ev.sigint ∉ evs) :
    leftovers s = 0 :=
  leftovers_zero_of_noLate hrun hex (noLate_of_no_sigint true true (init n) evs rfl hno)

/-- the source's order: a normal run leaves no temporary file, although the main thread exits after
the last summary without waiting for the workers -/
theorem C18_normal (n : Nat) (evs : List Ev) (s : St)
    (hrun : runGen (init n) evs = some s) (hex : s.exited = true) (hno : Ev.sigint ∉ evs) :
    leftovers s = 0 := by
  rw [runGen_eq] at hrun
  rw [runC_eq_run_of_no_sigint true true (init n) evs rfl hno] at hrun
  exact C18_normal_param n evs s hrun hex hno

/-! ## 2. run with (or without) a SIGINT -/

/-- parametric form of `NoLateCreate` (order of operations as parameters); see there -/
def NoLateCreateP (ul df : Bool) (n : Nat) (evs : List Ev) : Prop := noLate ul df (init n) evs = true

/-- `NoLateCreate n evs`: in the run of `evs` by `n` workers (source order), no `work i` event that
moves worker `i` out of phase `.start` — i.e. that creates worker `i`'s temporary file — occurs
after the `.sigint` event.

Formalisation: a predicate over the run's intermediate states. `noLate ul df s evs` walks `evs`
from `s` with `step` and checks, in the state reached before each event, that the event is not a
`lateCreate` (`= work i` with `handlerRan = true` and worker `i` in phase `.start`); it says nothing
past the point where the run is rejected. It is a `Bool`, hence decidable and `#eval`-able.
`NoLateCreate_iff` restates it without the auxiliary function, with "after the `.sigint` event"
taken literally (`Ev.sigint ∈ pre`), and `runNoLate_eq_some_iff` (Lemmas) shows it is the same as
running with a `step` that rejects late creations. -/
def NoLateCreate (n : Nat) (evs : List Ev) : Prop := NoLateCreateP createUnderLock dropBeforeSummary n evs

instance (ul df n evs) : Decidable (NoLateCreateP ul df n evs) := by unfold NoLateCreateP; infer_instance
instance (n evs) : Decidable (NoLateCreate n evs) := by unfold NoLateCreate; infer_instance

/-- `NoLateCreate` read on the event list: for every split `evs = pre ++ work i :: post` with the
`.sigint` inside `pre`, worker `i` is not in phase `.start` in the state reached after `pre` -/
theorem NoLateCreateP_iff (ul df : Bool) (n : Nat) (evs : List Ev) :
    NoLateCreateP ul df n evs ↔
      ∀ pre i post t, evs = pre ++ Ev.work i :: post → Ev.sigint ∈ pre →
        run ul df (init n) pre = some t → t.phase.getD i .done ≠ .start := by
  unfold NoLateCreateP
  rw [noLate_iff]
  constructor
  · intro H pre i post t heq hsig hrun hst
    have hr : t.handlerRan = true := (handlerRan_run hrun).2 (.inr hsig)
    have := H pre (.work i) post t heq hrun
    simp only [lateCreate, hr, hst] at this
    exact absurd this (by decide)
  · intro H pre e post t heq hrun
    cases e with
    | sigint => rfl
    | exit => rfl
    | work i =>
      cases hr : t.handlerRan with
      | false => simp only [lateCreate, hr, Bool.false_and]
      | true =>
        have hsig : Ev.sigint ∈ pre := by
          rcases (handlerRan_run hrun).1 hr with h | h
          · cases h
          · exact h
        have := H pre i post t heq hsig hrun
        simp only [lateCreate, hr, Bool.true_and]
        exact beq_false_of_ne this

theorem NoLateCreate_iff (n : Nat) (evs : List Ev) :
    NoLateCreate n evs ↔
      ∀ pre i post t, evs = pre ++ Ev.work i :: post → Ev.sigint ∈ pre →
        run createUnderLock dropBeforeSummary (init n) pre = some t → t.phase.getD i .done ≠ .start :=
  NoLateCreateP_iff _ _ n evs

/-- a run without SIGINT has no late creation -/
theorem NoLateCreate_of_no_sigint (n : Nat) (evs : List Ev) (hno : Ev.sigint ∉ evs) : NoLateCreate n evs :=
  noLate_of_no_sigint _ _ (init n) evs rfl hno

/-- order without the closed flag, as parameters: the proviso is needed (see §3) -/
theorem C18_sigint_param (n : Nat) (evs : List Ev) (s : St)
    (hrun : run true true (init n) evs = some s) (hex : s.exited = true)
    (hnl : NoLateCreateP true true n evs) : leftovers s = 0 :=
  leftovers_zero_of_noLate hrun hex hnl

/-- the statement of C18 for the model: every exited run — with or without a SIGINT, the handler
running at any moment, the process exiting at any moment after it — leaves no temporary file -/
def C18_full : Prop :=
  ∀ (n : Nat) (evs : List Ev) (s : St), runGen (init n) evs = some s → s.exited = true → leftovers s = 0

/-- the source's order of operations (creation and listing under the lock, reader dropped before the
final summary, creation refused once the handler ran): C18 holds at full strength -/
theorem C18_full_holds : C18_full := by
  intro n evs s hrun hex
  rw [runGen_eq] at hrun
  exact leftovers_zero_closed hrun hex

/-- the same, in the words of the property: after a SIGINT at any moment -/
theorem C18_sigint (n : Nat) (evs : List Ev) (s : St)
    (hrun : runGen (init n) evs = some s) (hex : s.exited = true) : leftovers s = 0 :=
  C18_full_holds n evs s hrun hex

/-- SIGINT first, then the worker reaches `decompress_to_ntf`: it is refused, nothing is created -/
example : runGen (init 1) [.sigint, .work 0, .exit] = some ⟨[.done], [false], [false], true, true⟩ := by decide

/-! ## 3. without the closed flag the unrestricted statement is false -/

/-- the statement of C18 for the order of operations without the closed flag -/
def C18_full_without_flag : Prop :=
  ∀ (n : Nat) (evs : List Ev) (s : St), run true true (init n) evs = some s → s.exited = true → leftovers s = 0

/-- one worker, SIGINT first: the handler finds nothing listed, the worker then creates and lists
its file, the main thread sees EXIT_EARLY and exits — the file stays -/
theorem late_create_without_flag :
    run true true (init 1) [.sigint, .work 0, .exit] = some ⟨[.listed], [true], [true], true, true⟩ := by
  decide

theorem C18_full_without_flag_false : ¬ C18_full_without_flag := by
  intro h
  exact absurd (h 1 [.sigint, .work 0, .exit] _ late_create_without_flag (by decide)) (by decide)

/-- the witness is excluded by the proviso of `C18_sigint_param`, as it should be -/
example : ¬ NoLateCreateP true true 1 [.sigint, .work 0, .exit] := by decide

/-! ## 4. why the two source orders matter -/

/-- creation outside the NAMED_TEMP_FILES lock: the handler can run between creation and listing,
sees nothing listed, and the file stays -/
theorem gap_without_lock :
    ∃ evs s, run false true (init 1) evs = some s ∧ s.exited = true ∧ leftovers s = 1 :=
  ⟨[.work 0, .sigint, .exit], ⟨[.created], [true], [false], true, true⟩, by decide, by decide, by decide⟩

/-- no late creation is involved in that gap: the file was created before the handler ran -/
example : NoLateCreateP false true 1 [.work 0, .sigint, .exit] := by decide

/-- summary sent before the reader is dropped: the main thread exits after the last summary while
the worker's file still exists — a leftover in a normal run -/
theorem summary_before_drop :
    ∃ evs s, run true false (init 1) evs = some s ∧ s.exited = true ∧ Ev.sigint ∉ evs ∧ leftovers s = 1 :=
  ⟨[.work 0, .work 0, .exit], ⟨[.summarised], [true], [true], false, true⟩,
    by decide, by decide, by decide, by decide⟩

/-! ## 5. sanity -/

/-- the three per-worker lists keep length `n` along any run, in any order of operations -/
theorem lengths_preserved (ul df : Bool) (n : Nat) (evs : List Ev) (s : St)
    (hrun : run ul df (init n) evs = some s) :
    s.phase.length = n ∧ s.onDisk.length = n ∧ s.listed.length = n :=
  lens_run hrun (lens_init n)

/-- repaired order: a file on disk is always listed (so the handler removes it), its worker is in
phase `.listed`, and only the phases start / listed / deleted / done are reachable -/
theorem listed_of_onDisk (n : Nat) (evs : List Ev) (s : St) (hrun : run true true (init n) evs = some s) (i : Nat) :
    (s.onDisk.getD i false = true → s.listed.getD i false = true ∧ s.phase.getD i .done = .listed) ∧
    (s.phase.getD i .done = .start ∨ s.phase.getD i .done = .listed ∨
      s.phase.getD i .done = .deleted ∨ s.phase.getD i .done = .done) := by
  have hinv := inv0_run hrun (inv0_init n)
  refine ⟨fun h => ⟨(hinv.disk i h).2, (hinv.disk i h).1⟩, ?_⟩
  have := hinv.ph i
  cases hp : s.phase.getD i .done <;> simp_all

/-- a complete normal run with two workers, interleaved; the main thread exits after the last summary -/
example : (runGen (init 2) [.work 0, .work 1, .work 0, .work 1, .work 0, .work 1, .exit]).map
    (fun s => (s.exited, leftovers s)) = some (true, 0) := by decide

/-- a SIGINT in the middle: worker 0 has already deleted its file, worker 1's file is listed and is
removed by the handler; the process exits while worker 1 is still in phase `.listed` -/
example : (runGen (init 2) [.work 0, .work 1, .work 0, .sigint, .work 0, .exit]).map
    (fun s => (s.exited, leftovers s, s.phase)) = some (true, 0, [.done, .listed]) := by decide

example : NoLateCreate 2 [.work 0, .work 1, .work 0, .sigint, .work 0, .exit] := by decide

/-- two workers, the second reaches `decompress_to_ntf` only after the handler ran: worker 0's listed
file is removed by the handler, worker 1 is refused; nothing is left -/
example : (runGen (init 2) [.work 0, .sigint, .work 1, .exit]).map
    (fun s => (s.exited, leftovers s, s.phase)) = some (true, 0, [.listed, .done]) := by decide

/-- the main thread cannot exit in the middle of a normal run -/
example : runGen (init 2) [.work 0, .work 1, .work 0, .exit] = none := by decide

/-! ### the handler exists in every run that can create a temporary file -/

/-- **C18_handler_installed.** `processing_loop` installs the SIGINT handler whenever there is any path to process, before
any worker thread is spawned (regenerated from the source on every run). `C18_full_holds` models Ctrl-C as "the handler
runs"; that is only what happens if a handler was installed for THIS run. -/
theorem C18_handler_installed : handlerInstalledWheneverWorkers = true := by decide

/-- without a handler Ctrl-C has its default disposition: the process dies on the spot and whatever is on disk stays -/
def killed (s : St) : St := { s with exited := true }

/-- counter-model (seeded change C18-c: handler installed only when some source is a COMPRESSED journal / evtx, so a run over
tar-archived ones has none): one worker step after the start the temporary file exists; a kill there leaves it behind -/
theorem no_handler_leaves_file :
    (runGen (init 1) [.work 0]).map (fun s => leftovers (killed s)) = some 1 := by decide

end S4V.Props.C18
