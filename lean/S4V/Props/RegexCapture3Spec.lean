/-
C04, regex slice, stage 5 — reading guide, the link to the post-capture model, and the FALSE statements for the
automatic per-row capture theorems `C04_rowN_search` (`S4V.Props.RegexCapture3a` …, indexed with the table
row → theorem | why not in `S4V.Props.RegexCapture3`).

What a row theorem says. `rowBodyE reN skip` / `rowBodyP reN skip` (`S4V.Lemmas.RegexAuto`) is the catalogue DERIVED from
the generated AST `reN`: per item of the row's top-level concatenation every symbolic word the item can consume (every
alternative, every bounded repetition count — unbounded ones: minimum and one more —, the ASCII part of every class),
  * restricted by the GREEDY-FIRST policy (`restrictFirst`: right after an item that can end with a greedy variable-count
    class repetition a word may not start with a member of that class — the repetition takes the byte), and
  * pruned from right to left (`pruneA`) to the entries for which the symbolic re-run of the matcher (`am`, sound by
    `am_sound`) is determinate given the first bytes of what can follow.
`C04_rowN_search`: for EVERY selection `sel` of one kept entry and one concrete word per item (`Valid`), and every tail
that is empty or starts with an ASCII byte of the final class (`TailIn`; rows without a final group: `TailF (autoTail reN)`),
`RowResult`: `search` on `flat sel ++ tail` matches at 0, ends after the words (plus the byte the final group takes), the
slots are `capsAt`, and `Captures::get(g)` is the word of the item that records `g`. `factsN` pins the (kept, total) entry
counts per item and a digest of the whole catalogue (`catDigest`) and shows the hypotheses satisfiable on the row's own test line. Soundness needs no per-row check
(`rowOkA_prune`: the pruned catalogue passes `rowOk` by construction; `am_mono`: the same catalogue serves the empty and the
non-empty tail); a changed pattern in datetime.rs regenerates `reN`, hence the catalogue, and breaks `factsN`.

* `rowResult_capField`   the named fields `captures_to_buffer_bytes` reads are the words of the items (link to
                         `S4V.Props.RegexCapture.capturesOf`, the input of `capturesToInstant`)
* `row74_instance`       a worked instance (ISO 8601 with fraction)
False statements (witnesses replayed on the real regex crate with `s4h rgx --replay`: same spans)
* `C04_row74_padded_day_full_false`   `2020-01 8 …`: with no separator after the month the optional separator class (space, slash, dash) takes the pad
                                      of ` 8`; the day group is `8` (harmless: both forms normalise to `08`)
* `C04_row27_padded_day_full_false`   `Jan  1 …`: the greedy `[[:blank:]]+` takes both blanks (the policy's reason)
* `C04_row10_zone_prefix_full_false`  `… PETx`: the final group of row 10 is `[^0-9]|$`, so `PET` + letter is attributed
                                      the zone `PET` — why `PET`/`UT`/`WIT`/`Z` are pruned from row 10's zone catalogue
                                      (a letter tail could also complete `PETT`/`UTC`/`WITA`/`ZULU`)
Not covered: rows 65–69 (`[^\n]+` before the stamp: the matcher backtracks from the end of the line).
-/
import S4V.Props.RegexCapture3
import S4V.Props.RegexCapture2

namespace S4V.Props.RegexCapture3Spec
open S4V.Model.Regex S4V.Gen.Regex S4V.Lemmas.RegexStep S4V.Lemmas.RegexSym S4V.Lemmas.RegexRows S4V.Lemmas.RegexAuto
open S4V.Props.RegexCapture (capturesOf capField)
open S4V.Props.RegexCapture2 (capField_eq)

/-- **named fields**: after a row theorem, the text of the named group `name` is the word of the item that records it
(or what the head recorded: the empty text at 0 for the group of a `(^|…)` head) -/
theorem rowResult_capField (row : S4V.Gen.Regex.Row) {line : List UInt8} {stop : Nat} {c0 : Caps} {sel : Sel}
    (h : RowResult row.re line stop c0 sel) (name : String) :
    capField row line (capsAt 0 c0 sel) name =
      (row.names.lookup name).bind (fun g =>
        match selText g sel with
        | some t => some t
        | none => groupText line c0 g) := by
  rw [capField_eq]
  cases row.names.lookup name with
  | none => rfl
  | some g => simp only [Option.bind_some]; exact h.2 g

/-- the match found by `search` is the one the row theorem describes -/
theorem rowResult_search {re : Re} {line : List UInt8} {stop : Nat} {c0 : Caps} {sel : Sel}
    (h : RowResult re line stop c0 sel) : ∃ res, search re line = some res ∧ res.start = 0 ∧ res.stop = stop ∧ res.caps = capsAt 0 c0 sel :=
  ⟨_, h.1, rfl, rfl, rfl⟩

/-- worked instance: row 74 (`2000-01-01 00:00:01.123…`, the row's own test line): the split exists (`facts74`), so
`C04_row74_search` applies to it with the tail that follows the fraction -/
theorem row74_instance : ∃ sel rest, Valid (rowBodyE re74 1) sel ∧
    (TailIn (rowEndSym re74) rest →
      RowResult row74.re (flat sel ++ rest) ((flat sel).length + tailLen rest) [] (sel ++ [rowEndEw re74 rest])) := by
  obtain ⟨sel, rest, hv, _⟩ := valid_of_splitsL RegexCapture3.facts74.2.2
  exact ⟨sel, rest, hv, fun ht => RegexCapture3.C04_row74_search sel hv rest ht⟩

/-! ### statements that are false, with witnesses -/

/-- "row 74: the day group spans the rendered day form, here ` 8` at [7, 9)" -/
def C04_row74_padded_day_full : Prop :=
  ∀ res, search row74.re "2020-01 8 12:00:00.5".toUTF8.toList = some res → capGet res.caps 3 = some (7, 9)

theorem C04_row74_padded_day_full_false : ¬ C04_row74_padded_day_full := by
  intro h
  have : search row74.re "2020-01 8 12:00:00.5".toUTF8.toList =
      some ⟨0, 20, [(8, 20, 20), (7, 19, 20), (6, 16, 18), (5, 13, 15), (4, 10, 12), (3, 8, 9), (2, 5, 7), (1, 0, 4)]⟩ := by
    decide +kernel
  have := h _ this
  revert this
  decide

/-- "row 27: the day group spans the space-padded form ` 1` at [4, 6)" -/
def C04_row27_padded_day_full : Prop :=
  ∀ res, search row27.re "Jan  1 12:00:00 2020 PST".toUTF8.toList = some res → capGet res.caps 2 = some (4, 6)

theorem C04_row27_padded_day_full_false : ¬ C04_row27_padded_day_full := by
  intro h
  have : search row27.re "Jan  1 12:00:00 2020 PST".toUTF8.toList =
      some ⟨0, 24, [(8, 24, 24), (7, 21, 24), (6, 16, 20), (5, 13, 15), (4, 10, 12), (3, 7, 9), (2, 5, 6), (1, 0, 3)]⟩ := by
    decide +kernel
  have := h _ this
  revert this
  decide

/-- "row 10: whatever ASCII non-digit follows the zone name `PET`, the match ends right after that one byte and the zone
group is the name that was rendered" — with the tail `T` the zone group is `PETT` and the match ends at the end of the line -/
def C04_row10_zone_prefix_full : Prop :=
  ∀ (x : UInt8), symHas nonDigit x = true →
    ∀ res, search row10.re ("<1>2020-01-02 03:04:05.6 PET".toUTF8.toList ++ [x]) = some res →
      capGet res.caps 8 = some (25, 28) ∧ res.stop = 29

theorem C04_row10_zone_prefix_full_false : ¬ C04_row10_zone_prefix_full := by
  intro h
  have : search row10.re ("<1>2020-01-02 03:04:05.6 PET".toUTF8.toList ++ [84]) =
      some ⟨0, 29, [(9, 29, 29), (8, 25, 29), (7, 23, 24), (6, 20, 22), (5, 17, 19), (4, 14, 16), (3, 11, 13), (2, 8, 10), (1, 3, 7)]⟩ := by
    decide +kernel
  have := h 84 (by decide) _ this
  revert this
  decide

/-- and with a letter that completes no longer name, the zone `PET` is attributed to `PETx` -/
theorem C04_row10_zone_prefix_attributed :
    search row10.re "<1>2020-01-02 03:04:05.6 PETx".toUTF8.toList =
      some ⟨0, 29, [(9, 28, 29), (8, 25, 28), (7, 23, 24), (6, 20, 22), (5, 17, 19), (4, 14, 16), (3, 11, 13), (2, 8, 10), (1, 3, 7)]⟩ := by
  decide +kernel

end S4V.Props.RegexCapture3Spec
