/-
C08 (also C07) — WHICH of the `FixedStructType` layouts an accounting-record file is read with.

Model: `S4V.Model.LayoutDetect` (hand) over `S4V.Gen.LayoutDetect` (regenerated from src/data/fixedstruct.rs
`filesz_to_types`, `buffer_to_fixedstructptr`, `score_fixedstruct` + the eight `score_fixedstruct_*!` macros, and
src/readers/fixedstructreader.rs `FixedStructReader::new` / `preprocess_fixedstructtype` / `score_file`). Every
statement that speaks about "every layout" / "every kind" is decided over the GENERATED tables (unfolded: a source
change that regenerates a different table, constant or comparison re-runs the proof against it).

Two defects found by this slice were repaired in the source (the candidate set became a `BTreeMap` keyed by the
enum, which now derives `Ord`; `Fs_Netbsd_x8664_Lastlogx` got its rows): `C08_candidates_by_size_full_holds` and
`C08_choice_deterministic` are the obligations that hold since; the former behaviour is kept as counter-models
(`candidates_without_lastlogx_row_lose`, `C08_choice_order_independent_full_false`). Still false of the code, each
with its witness:

  * `C08_score_reads_in_bounds_full_false`   `score_fixedstruct_cstr!` walks a `CStr::from_ptr`: a record without a
                                          NUL byte after the start of its last string field is read beyond its end;
  * `C08_kind_bonus_decides_full_false`   (separation) for the equal-sized pair acct / acct_v3 the file-name hint
                                          is worth `BONUS` = 15 points only; a well-formed v3 record is read as `acct`
                                          when its uid looks like a date and its counters like text.
-/
import S4V.Lemmas.LayoutDetect

namespace S4V.Props.LayoutDetectSpec
open S4V.Gen.LayoutDetect S4V.Model.LayoutDetect S4V.Lemmas.LayoutDetect
open S4V.Model.Fixed (Bytes)

/-! ## 1. Candidates (`filesz_to_types`) -/

/-- every row of `filesz_to_types` tests divisibility by the size of the very layout it inserts -/
theorem C08_candidate_rows_use_layout_size :
    (∀ k ∈ kinds, ∀ r ∈ bonusRows k, (layoutNamed r.1).map (·.size) = some r.2) ∧
    (∀ r ∈ allRows, (layoutNamed r.1).map (·.size) = some r.2.1) := by decide +kernel

theorem kinds_complete (k : Kind) : k ∈ kinds := by cases k <;> decide

/-- every layout has a row in the "try all types anyway" part -/
theorem C08_layouts_with_row :
    layouts.all (fun l => allRows.any (fun r => r.1 == l.name && r.2.1 == l.size)) = true := by decide +kernel

/-- FULL statement: for every layout, every kind and every `n ≥ 1`, a file of `n` records of that layout has the
layout among its candidates. -/
def C08_candidates_by_size_full : Prop :=
  ∀ l ∈ layouts, ∀ (k : Kind) (n : Nat), 1 ≤ n → ∃ b, (l.name, b) ∈ cands k (n * l.size)

/-- It HOLDS (since the rows for `Fs_Netbsd_x8664_Lastlogx` were added). -/
theorem C08_candidates_by_size_full_holds : C08_candidates_by_size_full := by
  intro l hl k n _
  have h1 := List.all_eq_true.mp C08_layouts_with_row l hl
  simp only [List.any_eq_true, Bool.and_eq_true, beq_iff_eq] at h1
  obtain ⟨r, hr, hrn, hrs⟩ := h1
  rw [cands_eq]
  have := foldl_addRow_has (n * l.size) allRows
    ((bonusRows k).filterMap (fun r => if (n * l.size) % r.2 = 0 then some (r.1, BONUS) else none)) r hr
    (by rw [hrs]; exact Nat.mul_mod_left _ _)
  rw [hrn] at this
  exact this

/-- counter-model (the tree before the repair): WITHOUT the rows of `Fs_Netbsd_x8664_Lastlogx` a one-record file of that
layout has no candidate at all — no other layout's size divides 432 — and `FixedStructReader::new` answers
`FileErrNoValidFixedStruct` (it did: reproduced with the binary before the repair). With the rows it is the only
candidate, and under its own kind it carries the bonus. -/
theorem candidates_without_lastlogx_row_lose :
    candsWith (fun k => (bonusRows k).filter (·.1 != "Fs_Netbsd_x8664_Lastlogx"))
      (allRows.filter (·.1 != "Fs_Netbsd_x8664_Lastlogx")) .lastlogx 432 = [] ∧
    cands .lastlogx 432 = [("Fs_Netbsd_x8664_Lastlogx", BONUS)] ∧
    cands .utmpx 432 = [("Fs_Netbsd_x8664_Lastlogx", 0)] ∧
    (layoutNamed "Fs_Netbsd_x8664_Lastlogx").map (·.size) = some 432 := by decide +kernel

/-- PARTIAL (kept from before the repair; now a special case of `_full_holds`): everything but that layout. -/
theorem C08_candidates_by_size_partial (l : LayoutS) (hl : l ∈ layouts) (hx : l.name ≠ "Fs_Netbsd_x8664_Lastlogx")
    (k : Kind) (n : Nat) (_hn : 1 ≤ n) : ∃ b, (l.name, b) ∈ cands k (n * l.size) := by
  have htab : layouts.all (fun l => l.name == "Fs_Netbsd_x8664_Lastlogx" ||
      allRows.any (fun r => r.1 == l.name && r.2.1 == l.size)) = true := by decide +kernel
  have h1 := List.all_eq_true.mp htab l hl
  simp only [Bool.or_eq_true, beq_iff_eq, List.any_eq_true, Bool.and_eq_true] at h1
  rcases h1 with h1 | ⟨r, hr, hrn, hrs⟩
  · exact absurd h1 hx
  · rw [cands_eq]
    have := foldl_addRow_has (n * l.size) allRows
      ((bonusRows k).filterMap (fun r => if (n * l.size) % r.2 = 0 then some (r.1, BONUS) else none)) r hr
      (by rw [hrs]; exact Nat.mul_mod_left _ _)
    rw [hrn] at this
    exact this

/-- … and under the kind that names it, with the bonus. -/
theorem C08_candidates_bonus (k : Kind) (r : String × Nat) (hr : r ∈ bonusRows k) (n : Nat) :
    (r.1, BONUS) ∈ cands k (n * r.2) := by
  rw [cands_eq]
  apply foldl_addRow_keeps
  rw [List.mem_filterMap]
  exact ⟨r, hr, by simp [Nat.mul_mod_left]⟩

/-- no candidate whose record size fails to divide the file size -/
theorem C08_candidates_divide (k : Kind) (filesz : Nat) (c : String × Int) (hc : c ∈ cands k filesz) :
    ∃ l, layoutNamed c.1 = some l ∧ filesz % l.size = 0 := by
  have hrows := C08_candidate_rows_use_layout_size
  rw [cands_eq] at hc
  rcases foldl_addRow_origin _ _ _ _ hc with h | ⟨r, hr, hn, _, hd⟩
  · rw [List.mem_filterMap] at h
    obtain ⟨r, hr, hsome⟩ := h
    by_cases hd : filesz % r.2 = 0
    · rw [if_pos hd] at hsome
      have hc1 : c.1 = r.1 := by cases hsome; rfl
      have := hrows.1 k (kinds_complete k) r hr
      cases hl : layoutNamed r.1 with
      | none => rw [hl] at this; cases this
      | some l =>
        rw [hl] at this
        refine ⟨l, by rw [hc1]; exact hl, ?_⟩
        have : l.size = r.2 := by simpa using this
        rw [this]; exact hd
    · rw [if_neg hd] at hsome; cases hsome
  · have := hrows.2 r hr
    cases hl : layoutNamed r.1 with
    | none => rw [hl] at this; cases this
    | some l =>
      rw [hl] at this
      refine ⟨l, by rw [← hn]; exact hl, ?_⟩
      have : l.size = r.2.1 := by simpa using this
      rw [this]; exact hd

/-- `ENTRY_SZ_MIN` is the smallest layout size, so `FileErrTooSmall` files have no candidate anyway -/
theorem C08_entry_sz_min : layouts.all (fun l => decide (ENTRY_SZ_MIN ≤ l.size)) = true ∧
    layouts.any (fun l => l.size == ENTRY_SZ_MIN) = true := by decide +kernel

/-! ## 2. The choice: first candidate, in iteration order, with the best positive score -/

/-- `score_file`, for ANY iteration order `ord` of the candidate map: `FileOk(n, s)` means that `n` is in `ord`, has
`high_score` `s > 0`, every candidate visited before it scored strictly less, every candidate after it at most `s`;
`FileErrNoHighScore` means no candidate scored above 0. (Unfolds the generated comparison `high_score > highest_score`.) -/
theorem C08_choice_deterministic_first_max (file : Bytes) (ord : List (String × Int)) :
    (∀ n s, scoreFile file ord = some (n, s) →
      ∃ pre c post, ord = pre ++ c :: post ∧ c.1 = n ∧ candScore file c = s ∧ 0 < s ∧
        (∀ d ∈ pre, candScore file d < s) ∧ (∀ d ∈ post, candScore file d ≤ s)) ∧
    (scoreFile file ord = none → ∀ c ∈ ord, candScore file c ≤ 0) := by
  have hstrict : replaceStrict = true := by decide
  constructor
  · intro n s h
    unfold scoreFile at h
    cases hc : chooseGo (candScore file) ord (0, none) with
    | mk s' w =>
      rw [hc] at h
      rcases chooseGo_spec hstrict _ _ _ _ _ _ hc with ⟨hw, _, _⟩ | ⟨pre, c, post, hsplit, hw, hs, hgt, hpre, hpost⟩
      · subst hw; simp at h
      · subst hw
        simp only [Option.some.injEq, Prod.mk.injEq] at h
        obtain ⟨h1, h2⟩ := h
        subst h1; subst h2
        exact ⟨pre, c, post, hsplit, rfl, hs.symm, by omega, by intro d hd; rw [hs]; exact hpre d hd,
          by intro d hd; rw [hs]; exact hpost d hd⟩
  · intro h
    unfold scoreFile at h
    cases hc : chooseGo (candScore file) ord (0, none) with
    | mk s' w =>
      rw [hc] at h
      rcases chooseGo_spec hstrict _ _ _ _ _ _ hc with ⟨_, _, hall⟩ | ⟨pre, c, post, _, hw, _, _, _, _⟩
      · exact hall
      · subst hw; simp at h

/-- FULL statement: the outcome of `FixedStructReader::new` does not depend on the iteration order of the candidate map. -/
def C08_choice_order_independent_full : Prop :=
  ∀ (k : Kind) (file : Bytes) (o₁ o₂ : List (String × Int)),
    ValidOrder k file o₁ → ValidOrder k file o₂ → newWith k file o₁ = newWith k file o₂

/-- a 64-byte file: `ac_version`/byte 1 = 3, the four bytes at 8 and at 24 hold 1700000000, everything else 0.
Read as `acct` (time at 8, padding clean) and as `acct_v3` (time at 24, version set) it scores 32 both ways. -/
def tieFile : Bytes :=
  [0, 3, 0, 0, 0, 0, 0, 0, 0, 0xF1, 0x53, 0x65, 0, 0, 0, 0, 0, 0, 0, 0, 0, 0, 0, 0, 0, 0xF1, 0x53, 0x65] ++ List.replicate 36 0

/-- It is FALSE — this is the behaviour of an UNORDERED candidate set (`HashMap`, the tree before the repair): for
`tieFile` under the kind `Utmp` the two iteration orders below give two different layouts. It was reproduced on the real
`FixedStructReader::new` then (either layout from run to run). With the generated ORDERED set the order is fixed:
`C08_choice_deterministic`, `tieFile_now`. -/
theorem C08_choice_order_independent_full_false : ¬ C08_choice_order_independent_full := by
  intro h
  have hc : cands .utmp tieFile.length
      = [("Fs_Linux_x86_Acct", 0), ("Fs_Linux_x86_Acct_v3", 0), ("Fs_Netbsd_x8664_Lastlog", 0)] := by decide +kernel
  have h1 : ValidOrder .utmp tieFile [("Fs_Linux_x86_Acct", 0), ("Fs_Linux_x86_Acct_v3", 0), ("Fs_Netbsd_x8664_Lastlog", 0)] := by
    unfold ValidOrder; rw [hc]
  have h2 : ValidOrder .utmp tieFile [("Fs_Linux_x86_Acct_v3", 0), ("Fs_Linux_x86_Acct", 0), ("Fs_Netbsd_x8664_Lastlog", 0)] := by
    unfold ValidOrder; rw [hc]; exact List.Perm.swap _ _ _
  have := h .utmp tieFile _ _ h1 h2
  revert this
  decide +kernel

theorem tieFile_outcomes :
    newWith .utmp tieFile [("Fs_Linux_x86_Acct", 0), ("Fs_Linux_x86_Acct_v3", 0), ("Fs_Netbsd_x8664_Lastlog", 0)]
      = .ok "Fs_Linux_x86_Acct" 32 ∧
    newWith .utmp tieFile [("Fs_Linux_x86_Acct_v3", 0), ("Fs_Linux_x86_Acct", 0), ("Fs_Netbsd_x8664_Lastlog", 0)]
      = .ok "Fs_Linux_x86_Acct_v3" 32 := by decide +kernel

/-! ### the generated candidate set is ordered: declaration order of `FixedStructType` -/

theorem C08_decl_order_table :
    setIsOrdered = true ∧ setIsHashMap = false ∧ declOrder = layouts.map (·.name) ∧ declOrder.Nodup ∧
    (∀ k ∈ kinds, ((bonusRows k).map (·.1)).Nodup ∧ ∀ r ∈ bonusRows k, r.1 ∈ declOrder) ∧
    (∀ r ∈ allRows, r.1 ∈ declOrder) := by decide +kernel

theorem cands_names_nodup (k : Kind) (filesz : Nat) : ((cands k filesz).map (·.1)).Nodup := by
  rw [cands_eq]
  apply foldl_addRow_names_nodup
  exact List.Nodup.sublist (filterMap_names_sublist filesz (bonusRows k)) (C08_decl_order_table.2.2.2.2.1 k (kinds_complete k)).1

theorem cands_names_declared (k : Kind) (filesz : Nat) (c : String × Int) (hc : c ∈ cands k filesz) : c.1 ∈ declOrder := by
  rw [cands_eq] at hc
  rcases foldl_addRow_origin _ _ _ _ hc with h | ⟨r, hr, hn, _, _⟩
  · rw [List.mem_filterMap] at h
    obtain ⟨r, hr, hsome⟩ := h
    by_cases hd : filesz % r.2 = 0
    · rw [if_pos hd] at hsome
      have : c.1 = r.1 := by cases hsome; rfl
      rw [this]; exact (C08_decl_order_table.2.2.2.2.1 k (kinds_complete k)).2 r hr
    · rw [if_neg hd] at hsome; cases hsome
  · rw [← hn]; exact C08_decl_order_table.2.2.2.2.2 r hr

/-- `orderedCands` has exactly the candidates … -/
theorem orderedCands_mem (k : Kind) (filesz : Nat) (c : String × Int) : c ∈ orderedCands k filesz ↔ c ∈ cands k filesz := by
  unfold orderedCands
  rw [mem_filterMap_find declOrder _ (cands_names_nodup k filesz)]
  exact ⟨fun h => h.1, fun h => ⟨h, cands_names_declared k filesz c h⟩⟩

/-- … in declaration order -/
theorem orderedCands_sorted (k : Kind) (filesz : Nat) : ((orderedCands k filesz).map (·.1)).Sublist declOrder :=
  filterMap_find_names_sublist _ _

/-- so it is one of the orders an unordered set could have had -/
theorem orderedCands_valid (k : Kind) (file : Bytes) : ValidOrder k file (orderedCands k file.length) := by
  unfold ValidOrder
  have n1 : (orderedCands k file.length).Nodup :=
    nodup_of_map_nodup _ _ (List.Nodup.sublist (orderedCands_sorted k file.length) C08_decl_order_table.2.2.2.1)
  have n2 : (cands k file.length).Nodup := nodup_of_map_nodup _ _ (cands_names_nodup k file.length)
  exact (List.perm_ext_iff_of_nodup n1 n2).mpr (orderedCands_mem k file.length)

/-- DETERMINISM (unfolds the generated `setIsOrdered`): the outcome of `FixedStructReader::new` is a function of the
kind and the file's bytes — `newOutcome`, i.e. `newWith` along `orderedCands`, the candidates in the declaration order
of `FixedStructType`. The layout `score_file` returns is the FIRST maximum in that order: it scores `s > 0`, every
candidate declared before it scores strictly less, every candidate declared after it at most `s`. -/
theorem C08_choice_deterministic (k : Kind) (file : Bytes) :
    iterOrder k file.length = orderedCands k file.length ∧
    newOutcome k file = newWith k file (orderedCands k file.length) ∧
    chooseLayout k file = chooseLayoutWith k file (orderedCands k file.length) ∧
    (∀ c, c ∈ orderedCands k file.length ↔ c ∈ cands k file.length) ∧
    ((orderedCands k file.length).map (·.1)).Sublist declOrder ∧
    (∀ n s, scoreFile file (orderedCands k file.length) = some (n, s) →
      ∃ pre c post, orderedCands k file.length = pre ++ c :: post ∧ c.1 = n ∧ candScore file c = s ∧ 0 < s ∧
        (∀ d ∈ pre, candScore file d < s) ∧ (∀ d ∈ post, candScore file d ≤ s)) ∧
    (scoreFile file (orderedCands k file.length) = none → ∀ c ∈ cands k file.length, candScore file c ≤ 0) := by
  have ho : setIsOrdered = true := by decide
  have hi : iterOrder k file.length = orderedCands k file.length := by unfold iterOrder; rw [if_pos ho]
  have spec := C08_choice_deterministic_first_max file (orderedCands k file.length)
  refine ⟨hi, by unfold newOutcome; rw [hi], by unfold chooseLayout; rw [hi], orderedCands_mem k file.length,
    orderedCands_sorted k file.length, spec.1, ?_⟩
  intro h c hc
  exact spec.2 h c ((orderedCands_mem k file.length c).mpr hc)

/-- `tieFile` today: `acct` and `acct_v3` still both score 32, `Fs_Linux_x86_Acct` is declared first and is the layout
the file is read with, on every run (real reader: 400 of 400 runs, harness `s4h layout demo-tie`). -/
theorem tieFile_now :
    orderedCands .utmp tieFile.length = [("Fs_Linux_x86_Acct", 0), ("Fs_Linux_x86_Acct_v3", 0), ("Fs_Netbsd_x8664_Lastlog", 0)] ∧
    (orderedCands .utmp tieFile.length).map (candScore tieFile) = [32, 32, 0] ∧
    newOutcome .utmp tieFile = .ok "Fs_Linux_x86_Acct" 32 ∧ chooseLayout .utmp tieFile = some "Fs_Linux_x86_Acct" := by decide +kernel

/-- PARTIAL: when at most one candidate reaches the best positive score, every iteration order makes `score_file`
return the same layout and score. -/
theorem C08_choice_order_independent_partial (file : Bytes) (o₁ o₂ : List (String × Int)) (hp : o₁.Perm o₂)
    (huniq : ∀ c ∈ o₁, ∀ d ∈ o₁, 0 < candScore file c → candScore file c = candScore file d →
      (∀ e ∈ o₁, candScore file e ≤ candScore file c) → c.1 = d.1) :
    scoreFile file o₁ = scoreFile file o₂ := by
  have s1 := C08_choice_deterministic_first_max file o₁
  have s2 := C08_choice_deterministic_first_max file o₂
  cases r1 : scoreFile file o₁ with
  | none =>
    cases r2 : scoreFile file o₂ with
    | none => rfl
    | some p =>
      obtain ⟨n, s⟩ := p
      obtain ⟨pre, c, post, hsplit, _, hs, hpos, _, _⟩ := s2.1 n s r2
      have hc2 : c ∈ o₂ := by rw [hsplit]; simp
      have := s1.2 r1 c (hp.mem_iff.mpr hc2)
      omega
  | some p =>
    obtain ⟨n, s⟩ := p
    obtain ⟨pre, c, post, hsplit, hcn, hs, hpos, hpre, hpost⟩ := s1.1 n s r1
    have hc1 : c ∈ o₁ := by rw [hsplit]; simp
    have hmax1 : ∀ e ∈ o₁, candScore file e ≤ candScore file c := by
      intro e he
      rw [hsplit] at he
      rcases List.mem_append.mp he with h | h
      · have := hpre e h; omega
      · rcases List.mem_cons.mp h with h | h
        · subst h; omega
        · have := hpost e h; omega
    cases r2 : scoreFile file o₂ with
    | none =>
      have := s2.2 r2 c (hp.mem_iff.mp hc1)
      omega
    | some q =>
      obtain ⟨n', s'⟩ := q
      obtain ⟨pre', c', post', hsplit', hcn', hs', hpos', hpre', hpost'⟩ := s2.1 n' s' r2
      have hc2 : c' ∈ o₂ := by rw [hsplit']; simp
      have hc2' : c' ∈ o₁ := hp.mem_iff.mpr hc2
      have hmax2 : ∀ e ∈ o₂, candScore file e ≤ candScore file c' := by
        intro e he
        rw [hsplit'] at he
        rcases List.mem_append.mp he with h | h
        · have := hpre' e h; omega
        · rcases List.mem_cons.mp h with h | h
          · subst h; omega
          · have := hpost' e h; omega
      have e1 := hmax1 c' hc2'
      have e2 := hmax2 c (hp.mem_iff.mp hc1)
      have heq : candScore file c = candScore file c' := by omega
      have hname := huniq c hc1 c' hc2' (by omega) heq hmax1
      rw [← hcn, ← hcn', ← hs, ← hs', hname, heq]

example : ∃ file o₁ o₂, o₁ ≠ o₂ ∧ o₁.Perm o₂ ∧ scoreFile file o₁ = scoreFile file o₂ ∧ (scoreFile file o₁).isSome :=
  ⟨0 :: 0 :: tieFile.drop 2, [("Fs_Linux_x86_Acct", 0), ("Fs_Linux_x86_Acct_v3", 0)], [("Fs_Linux_x86_Acct_v3", 0), ("Fs_Linux_x86_Acct", 0)],
    by decide, List.Perm.swap _ _ _, by decide +kernel, by decide +kernel⟩

/-! ## 3. Only the sampled records matter -/

/-- the generated sampling limit -/
theorem C08_sample_limit : COUNT_FOUND_ENTRIES_MAX = 5 ∧ nullIsAllZeroOrAllFF = true := by decide

/-- at most `COUNT_FOUND_ENTRIES_MAX` records of a candidate are scored; none of them is all-0x00 / all-0xFF -/
theorem C08_sampled_bound (sz : Nat) (file : Bytes) :
    (sampled (chunks sz file) COUNT_FOUND_ENTRIES_MAX).length ≤ 5 ∧
    ∀ r ∈ sampled (chunks sz file) COUNT_FOUND_ENTRIES_MAX, isNullRec r = false ∧ r ∈ chunks sz file :=
  ⟨sampled_length_le _ _, sampled_all_nonnull _ _⟩

/-- a candidate's `high_score` is a function of its sampled records alone -/
theorem C08_highscore_of_sampled (l : LayoutS) (bonus : Int) (f g : Bytes)
    (h : sampled (chunks l.size f) COUNT_FOUND_ENTRIES_MAX = sampled (chunks l.size g) COUNT_FOUND_ENTRIES_MAX) :
    highScore l bonus f = highScore l bonus g := by
  unfold highScore
  rw [scanGo_sampled, scanGo_sampled (rs := chunks l.size g), h]

theorem chooseGo_congr (s₁ s₂ : String × Int → Int) : ∀ (ord : List (String × Int)) (st : Int × Option String),
    (∀ c ∈ ord, s₁ c = s₂ c) → chooseGo s₁ ord st = chooseGo s₂ ord st := by
  intro ord
  induction ord with
  | nil => intro st _; rfl
  | cons c cs ih =>
    intro st h
    obtain ⟨best, who⟩ := st
    simp only [chooseGo]
    rw [h c List.mem_cons_self]
    have ih' := fun st => ih st (fun d hd => h d (List.mem_cons_of_mem _ hd))
    split <;> split <;> exact ih' _

/-- two files of the same size whose sampled records agree, for every candidate layout, get the same layout and score
from `score_file` — for every iteration order. (The later test "some record has a time value" of `new` looks at the
whole file; it can turn the outcome into `FileErrNoValidFixedStruct` but never into another layout.) -/
theorem C08_choice_depends_on_sampled_prefix (k : Kind) (f g : Bytes) (hlen : f.length = g.length)
    (hs : ∀ c ∈ cands k f.length, ∀ l, layoutNamed c.1 = some l →
      sampled (chunks l.size f) COUNT_FOUND_ENTRIES_MAX = sampled (chunks l.size g) COUNT_FOUND_ENTRIES_MAX)
    (ord : List (String × Int)) (hord : ValidOrder k f ord) :
    scoreFile f ord = scoreFile g ord ∧ ValidOrder k g ord := by
  constructor
  · unfold scoreFile
    rw [chooseGo_congr (candScore f) (candScore g) ord (0, none)]
    intro c hc
    have hc' : c ∈ cands k f.length := hord.mem_iff.mp hc
    unfold candScore
    cases hl : layoutNamed c.1 with
    | none => rfl
    | some l => exact C08_highscore_of_sampled l c.2 f g (hs c hc' l hl)
  · unfold ValidOrder at hord ⊢; rw [← hlen]; exact hord

/-! ## 4. Locality and bounds -/

def opInBounds (size : Nat) : SOp → Bool
  | .cstr _ off len => decide (off + len ≤ size) && decide (1 ≤ len)
  | .noDataAfterNull _ off len => decide (off + len ≤ size) && decide (1 ≤ len)
  | .nullTerminator _ off len => decide (off + len ≤ size) && decide (1 ≤ len)
  | .allNull _ off len => decide (off + len ≤ size) && decide (1 ≤ len)
  | .valueNotZero _ off p => decide (off + p.bytes ≤ size)
  | .utType _ off p _ => decide (off + p.bytes ≤ size)
  | .acFlags _ off p mask => decide (off + 1 ≤ size) && decide (p.bytes = 1) && decide (mask < 128)
  | .timeRange _ off p => decide (off + p.bytes ≤ size) && decide (p.bytes ≤ 8)

/-- every FIELD a score program names lies inside the record, for all 16 layouts (the string ops: the field they
start in; how far `CStr::from_ptr` runs is `overreads`) -/
theorem C08_score_fields_in_bounds : layouts.all (fun l => l.prog.all (opInBounds l.size)) = true := by decide +kernel

/-- record `i` of a file is the `size` bytes at `i * size`: its score depends on no other byte of the file -/
theorem C08_score_locality (l : LayoutS) (bonus : Int) (f g : Bytes) (i : Nat)
    (hf : i < f.length / l.size) (hg : i < g.length / l.size)
    (h : (f.drop (i * l.size)).take l.size = (g.drop (i * l.size)).take l.size) :
    ((chunks l.size f)[i]?).map (scoreRecord l bonus) = ((chunks l.size g)[i]?).map (scoreRecord l bonus) ∧
    (chunks l.size f)[i]? = some ((f.drop (i * l.size)).take l.size) := by
  unfold chunks
  rw [chunksN_getElem? _ _ _ _ hf, chunksN_getElem? _ _ _ _ hg, h]
  exact ⟨rfl, rfl⟩

/-- FULL statement: scoring a record reads nothing beyond the record. -/
def C08_score_reads_in_bounds_full : Prop :=
  ∀ l ∈ layouts, ∀ rec : Bytes, rec.length = l.size → isNullRec rec = false → overreads l rec = false

/-- It is FALSE: 32 bytes `A` as a `Fs_Netbsd_x8664_Lastlog` record — `ll_host` (the last 16 bytes) has no NUL, the
real `CStr::from_ptr` continues behind the 32-byte `Box`. Reproduced: the real `score_fixedstruct` returns values
that the 32 bytes cannot explain and that change with the heap's contents (harness `s4h layout demo-overread`). -/
theorem C08_score_reads_in_bounds_full_false : ¬ C08_score_reads_in_bounds_full := by
  intro h
  have hl : (layoutNamed "Fs_Netbsd_x8664_Lastlog").isSome = true := by decide +kernel
  cases hn : layoutNamed "Fs_Netbsd_x8664_Lastlog" with
  | none => rw [hn] at hl; cases hl
  | some l =>
    have hmem : l ∈ layouts := List.mem_of_find?_eq_some hn
    have key : ((layoutNamed "Fs_Netbsd_x8664_Lastlog").map (fun l =>
        decide ((List.replicate 32 (65 : UInt8)).length = l.size) && !isNullRec (List.replicate 32 65) && overreads l (List.replicate 32 65)))
        = some true := by decide +kernel
    rw [hn] at key
    simp only [Option.map_some, Option.some.injEq, Bool.and_eq_true, decide_eq_true_eq, Bool.not_eq_true'] at key
    have := h l hmem (List.replicate 32 65) key.1.1 key.1.2
    rw [key.2] at this
    cases this

/-- PARTIAL: a record that ends in a NUL byte is never over-read, whatever the layout. -/
theorem C08_score_reads_in_bounds_partial (l : LayoutS) (hl : l ∈ layouts) (rec : Bytes) (hlen : rec.length = l.size)
    (hlast : rec.getLast? = some 0) : overreads l rec = false := by
  have htab := List.all_eq_true.mp C08_score_fields_in_bounds l hl
  unfold overreads
  rw [Bool.eq_false_iff]
  intro hany
  obtain ⟨o, ho, hov⟩ := List.any_eq_true.mp hany
  have hb := List.all_eq_true.mp htab o ho
  cases o with
  | cstr p off len =>
    simp only [opInBounds, Bool.and_eq_true, decide_eq_true_eq] at hb
    simp only [opOverreads] at hov
    rw [cstrOverreads_false_of_last_nul rec off (by omega) hlast] at hov
    cases hov
  | _ => simp [opOverreads] at hov

example : ∃ l ∈ layouts, ∃ rec : Bytes, rec.length = l.size ∧ rec.getLast? = some 0 ∧ isNullRec rec = false :=
  ⟨_, List.mem_cons_self, 1 :: List.replicate 279 0, by decide +kernel, by decide +kernel, by decide +kernel⟩

/-! ## 5. Separation: when is the intended layout the one chosen? -/

/-- The exact sufficient condition, for every iteration order: the intended candidate's best sampled score is positive
and strictly above every other candidate's. Then `score_file` returns it, with that score. (With a tie the outcome
depends on the order: `C08_choice_order_independent_full_false`.) -/
theorem C08_separation (k : Kind) (file : Bytes) (c₀ : String × Int) (hc₀ : c₀ ∈ cands k file.length)
    (hpos : 0 < candScore file c₀)
    (hbeats : ∀ d ∈ cands k file.length, d ≠ c₀ → candScore file d < candScore file c₀)
    (ord : List (String × Int)) (hord : ValidOrder k file ord) :
    scoreFile file ord = some (c₀.1, candScore file c₀) := by
  have spec := C08_choice_deterministic_first_max file ord
  have hc₀' : c₀ ∈ ord := hord.mem_iff.mpr hc₀
  cases r : scoreFile file ord with
  | none => have := spec.2 r c₀ hc₀'; omega
  | some p =>
    obtain ⟨n, s⟩ := p
    obtain ⟨pre, c, post, hsplit, hcn, hs, _, hpre, hpost⟩ := spec.1 n s r
    have hc : c ∈ ord := by rw [hsplit]; simp
    have hle : candScore file c₀ ≤ s := by
      rw [hsplit] at hc₀'
      rcases List.mem_append.mp hc₀' with h | h
      · have := hpre c₀ h; omega
      · rcases List.mem_cons.mp h with h | h
        · rw [h]; omega
        · exact hpost c₀ h
    by_cases hne : c = c₀
    · rw [← hcn, ← hs, hne]
    · have := hbeats c (hord.mem_iff.mp hc) hne
      omega

/-- the three record shapes the framework synthesises end to end (vlib/props/C08.py `rec`, `rec_acct_v3`, `rec_lastlog`,
record 0, time 1700000000) -/
def utmpxRec : Bytes :=
  [7, 0, 0, 0, 232, 3, 0, 0, 112, 116, 115, 47, 48] ++ List.replicate 27 0 ++ [48, 48, 48, 48, 117, 115, 101, 114, 48] ++ List.replicate 27 0 ++ [104, 111, 115, 116, 48, 46, 101, 120, 97, 109, 112, 108, 101] ++ List.replicate 252 0 ++ [241, 83, 101, 5] ++ List.replicate 39 0
def acctV3Rec : Bytes :=
  [1, 3, 0, 0, 0, 0, 0, 0, 232, 3, 0, 0, 232, 3, 0, 0, 232, 3, 0, 0, 1, 0, 0, 0, 0, 241, 83, 101] ++ List.replicate 20 0 ++ [99, 109, 100, 48] ++ List.replicate 12 0
def lastlogRec : Bytes :=
  [0, 241, 83, 101, 112, 116, 115, 47, 48] ++ List.replicate 27 0 ++ [104, 111, 115, 116, 48, 46, 101, 120, 97, 109, 112, 108, 101] ++ List.replicate 243 0

/-- candidates and their scores for the three synthesised shapes (one-record files, the kind their names give) -/
theorem C08_trio_scores :
    (cands .utmpx utmpxRec.length).map (fun c => (c.1, candScore utmpxRec c))
      = [("Fs_Linux_x86_Utmpx", 148), ("Fs_Linux_x86_Acct", 0), ("Fs_Linux_x86_Acct_v3", 0), ("Fs_Netbsd_x8664_Lastlog", 0)] ∧
    (cands .acctV3 acctV3Rec.length).map (fun c => (c.1, candScore acctV3Rec c))
      = [("Fs_Linux_x86_Acct_v3", 59), ("Fs_Linux_x86_Acct", 0), ("Fs_Netbsd_x8664_Lastlog", 0)] ∧
    (cands .lastlog lastlogRec.length).map (fun c => (c.1, candScore lastlogRec c))
      = [("Fs_Linux_x86_Lastlog", 83)] := by decide +kernel

/-- … so each is read with the intended layout whatever the iteration order of the candidate map -/
theorem C08_trio_separated :
    (∀ ord, ValidOrder .utmpx utmpxRec ord → newWith .utmpx utmpxRec ord = .ok "Fs_Linux_x86_Utmpx" 148) ∧
    (∀ ord, ValidOrder .acctV3 acctV3Rec ord → newWith .acctV3 acctV3Rec ord = .ok "Fs_Linux_x86_Acct_v3" 59) ∧
    (∀ ord, ValidOrder .lastlog lastlogRec ord → newWith .lastlog lastlogRec ord = .ok "Fs_Linux_x86_Lastlog" 83) := by
  refine ⟨?_, ?_, ?_⟩
  · intro ord hord
    have h := C08_separation .utmpx utmpxRec ("Fs_Linux_x86_Utmpx", BONUS) (by decide +kernel) (by decide +kernel)
      (by decide +kernel) ord hord
    have e : candScore utmpxRec ("Fs_Linux_x86_Utmpx", BONUS) = 148 := by decide +kernel
    rw [e] at h
    unfold newWith
    rw [h]
    decide +kernel
  · intro ord hord
    have h := C08_separation .acctV3 acctV3Rec ("Fs_Linux_x86_Acct_v3", BONUS) (by decide +kernel) (by decide +kernel)
      (by decide +kernel) ord hord
    have e : candScore acctV3Rec ("Fs_Linux_x86_Acct_v3", BONUS) = 59 := by decide +kernel
    rw [e] at h
    unfold newWith
    rw [h]
    decide +kernel
  · intro ord hord
    have h := C08_separation .lastlog lastlogRec ("Fs_Linux_x86_Lastlog", BONUS) (by decide +kernel) (by decide +kernel)
      (by decide +kernel) ord hord
    have e : candScore lastlogRec ("Fs_Linux_x86_Lastlog", BONUS) = 83 := by decide +kernel
    rw [e] at h
    unfold newWith
    rw [h]
    decide +kernel

/-- … and with the generated ordered set: -/
theorem C08_trio_chosen :
    chooseLayout .utmpx utmpxRec = some "Fs_Linux_x86_Utmpx" ∧ chooseLayout .acctV3 acctV3Rec = some "Fs_Linux_x86_Acct_v3" ∧
    chooseLayout .lastlog lastlogRec = some "Fs_Linux_x86_Lastlog" := by decide +kernel

/-- what `score_fixedstruct` can see of a well-formed Linux `acct_v3` record: 64 bytes, `ac_version` = 3, `ac_flag` inside
the mask, `ac_btime` a date between 2000 and 2038, `ac_comm` a non-empty printable string followed by NULs only -/
def wfAcctV3 (rec : Bytes) : Bool :=
  decide (rec.length = 64) && decide (rec[1]? = some 3) && decide (acFlagsScore 31 (S4V.Model.Fixed.leNat (S4V.Model.Fixed.slice rec 0 1)) ≠ - flagsBad)
    && decide (timeRangeScore (intAt ⟨false, 4⟩ 24 rec) = timeIn)
    && decide (0 < cstrScore (cstrFrom rec 48)) && ((cstrFrom rec 48).all (fun b => decide (32 ≤ b.toNat ∧ b.toNat ≤ 126)))
    && decide (afterNullGo false (S4V.Model.Fixed.slice rec 48 16) = 0) && decide (rec.getLast? = some 0)

/-- FULL statement (equal-sized pair `acct` / `acct_v3`, 64 bytes each, both candidates of every 64·n-byte file): a
file of one well-formed `acct_v3` record whose name says `AcctV3` (so `acct_v3` gets `BONUS`) is read as `acct_v3`. -/
def C08_kind_bonus_decides_full : Prop :=
  ∀ rec : Bytes, wfAcctV3 rec = true → ∀ ord, ValidOrder .acctV3 rec ord →
    ∃ s, scoreFile rec ord = some ("Fs_Linux_x86_Acct_v3", s)

/-- uid = gid = 1500000000 (a value inside the directory-service id ranges, and inside 2000‥2038 when read as
`acct.ac_btime`), the eight `comp_t` counters 0x2020 (two spaces when read as `acct.ac_comm`), command `kworker` -/
def ambiguousV3 : Bytes :=
  [0, 3, 0, 0, 0, 0, 0, 0, 0, 47, 104, 89, 0, 47, 104, 89, 210, 4, 0, 0, 1, 0, 0, 0, 0, 241, 83, 101, 0, 0, 192, 63, 32, 32, 32, 32, 32, 32, 32, 32, 32, 32, 32, 32, 32, 32, 32, 32, 107, 119, 111, 114, 107, 101, 114] ++ List.replicate 9 0

/-- It is FALSE: `ambiguousV3` is well-formed as `acct_v3` and scores 62 as such (bonus included), but 71 as `acct`
(`chooseLayout` = `Fs_Linux_x86_Acct`, `ambiguousV3_scores`)
(uid taken for the time, the counters and the command taken for a 19-character command name). The real
`FixedStructReader::new` answers `Fs_Linux_x86_Acct` too (harness replay). An honest ambiguity of the heuristic. -/
theorem C08_kind_bonus_decides_full_false : ¬ C08_kind_bonus_decides_full := by
  intro h
  have hw : wfAcctV3 ambiguousV3 = true := by decide +kernel
  have hc : cands .acctV3 ambiguousV3.length
      = [("Fs_Linux_x86_Acct_v3", 15), ("Fs_Linux_x86_Acct", 0), ("Fs_Netbsd_x8664_Lastlog", 0)] := by decide +kernel
  have hv : ValidOrder .acctV3 ambiguousV3 [("Fs_Linux_x86_Acct_v3", 15), ("Fs_Linux_x86_Acct", 0), ("Fs_Netbsd_x8664_Lastlog", 0)] := by
    unfold ValidOrder; rw [hc]
  obtain ⟨s, hs⟩ := h ambiguousV3 hw _ hv
  have : scoreFile ambiguousV3 [("Fs_Linux_x86_Acct_v3", 15), ("Fs_Linux_x86_Acct", 0), ("Fs_Netbsd_x8664_Lastlog", 0)]
      = some ("Fs_Linux_x86_Acct", 71) := by decide +kernel
  rw [this] at hs
  simp at hs

theorem ambiguousV3_scores :
    (cands .acctV3 ambiguousV3.length).map (fun c => (c.1, candScore ambiguousV3 c))
      = [("Fs_Linux_x86_Acct_v3", 62), ("Fs_Linux_x86_Acct", 71), ("Fs_Netbsd_x8664_Lastlog", 16)] ∧
    chooseLayout .acctV3 ambiguousV3 = some "Fs_Linux_x86_Acct" := by decide +kernel

end S4V.Props.LayoutDetectSpec
