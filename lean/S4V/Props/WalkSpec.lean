/-
C15 — directories and stdin path lists expand to the same run as explicit files.

Statements are about `S4V.Model.Walk` (hand model of `process_path`, of jwalk's sorted
walk, of the `-` handling in `cli_process_args` and of PathId assignment) over the flags
regenerated from the source (`S4V.Gen.PathTables.walkIncludesHidden`). Helper lemmas live
in `S4V.Lemmas.Walk`; the two classification facts come from C16.

"Sorted path order" is what the code relies on: jwalk sorts each directory's entries by
`file_name` (byte order) and walks depth-first. `C15_walk_order` shows that this is the
component-wise lexicographic order of paths (Rust's `Path` ordering) — which is *not* the
byte order of the joined path strings (`C15_not_string_order`).
-/
import S4V.Lemmas.Walk
import S4V.Props.C16

namespace S4V.Props.WalkSpec
open S4V.Model.Walk S4V.Model.Path S4V.Model.PathTypes S4V.Gen.PathTables
open S4V.Lemmas.Walk S4V.Props.C16

/-! ### the order of a walked directory -/

/-- The walk lists files in strictly increasing component-wise path order, whenever the
entries of each directory have distinct names (which a file system guarantees). -/
theorem C15_walk_order (includeHidden : Bool) (t : Node) (h : okN t = true) :
    (walk includeHidden t).Pairwise (fun p q => pathLt p q = true) :=
  walkN_sorted includeHidden t h

/-- `d/{a-b, a/x, a.log}` -/
def exTree : Node := .dir [100] [.file [97, 45, 98], .dir [97] [.file [120]], .file [97, 46, 108, 111, 103]]

example : okN exTree = true := by decide

/-- … so no path is listed twice. -/
theorem C15_walk_nodup (includeHidden : Bool) (t : Node) (h : okN t = true) :
    (walk includeHidden t).Nodup :=
  (C15_walk_order includeHidden t h).imp (fun {a b} hab e => by
    subst e; simp [pathLt_irrefl] at hab)

/-- `pathLt` is a strict order (irreflexive, transitive), so "sorted" determines the list. -/
theorem C15_order_strict :
    (∀ p, pathLt p p = false) ∧ (∀ p q r, pathLt p q = true → pathLt q r = true → pathLt p r = true) :=
  ⟨pathLt_irrefl, pathLt_trans⟩

/-- Remark: component order is not the byte order of the joined strings. `a/x` is walked
before `a-b` (and before `a.log`), although `"a-b" < "a.log" < "a/x"` as strings
(`-` 0x2D, `.` 0x2E, `/` 0x2F). -/
theorem C15_not_string_order :
    walk true exTree = [[[100], [97], [120]], [[100], [97, 45, 98]], [[100], [97, 46, 108, 111, 103]]]
    ∧ pathLt [[97], [120]] [[97, 45, 98]] = true
    ∧ bytesLt (joinPath [[97, 45, 98]]) (joinPath [[97], [120]]) = true := by decide

/-! ### completeness -/

/-- With hidden entries included, the walk is a rearrangement of the files of the tree:
together with `C15_walk_nodup`, every file appears exactly once. -/
theorem C15_walk_complete (t : Node) : (walk true t).Perm (files t) :=
  walkN_perm t

/-- The same for the flag the source actually sets. -/
def C15_full : Prop := ∀ t : Node, okN t = true → (walk walkIncludesHidden t).Perm (files t)

/-- `d/{a.log, .b.log, .hid/c.log}` -/
def hiddenWitness : Node :=
  .dir [100] [.file [97, 46, 108, 111, 103], .file [46, 98, 46, 108, 111, 103],
    .dir [46, 104, 105, 100] [.file [99, 46, 108, 111, 103]]]

/-- If the walk skipped hidden entries (jwalk's default, which the source used to rely on:
finding F10, repaired) the statement would be false: `d/.b.log` and `d/.hid/c.log` are files of
the tree and would not be walked. Kept as a counter-model. -/
theorem skip_hidden_loses : ¬ (walk false hiddenWitness).Perm (files hiddenWitness) := by
  intro h
  have hp := h.length_eq
  revert hp
  decide

/-- Once the source includes hidden entries the full statement holds … -/
theorem C15_full_if_included (h : walkIncludesHidden = true) : C15_full := by
  intro t _
  rw [h]
  exact C15_walk_complete t

/-- … and the source does: `process_path` calls `.skip_hidden(false)` (generated flag, unfolded, so
dropping the call breaks this proof). Every regular file beneath a directory is walked. -/
theorem C15_full_holds : C15_full :=
  C15_full_if_included (by unfold walkIncludesHidden; decide)

/-- The model describes a sorted, link-following walk: the source must ask jwalk for both
(generated flags, unfolded). -/
theorem C15_walk_flags : walkSorted = true ∧ walkFollowsLinks = true := by
  unfold walkSorted walkFollowsLinks
  decide

/-- what would be walked from the witness with hidden entries skipped: only `d/a.log` -/
example : walk false hiddenWitness = [[[100], [97, 46, 108, 111, 103]]] := by decide

/-- Trees without hidden names below the root are walked completely, whatever the flag. -/
theorem C15_partial (includeHidden : Bool) (t : Node) (h : noHiddenN t = true) :
    (walk includeHidden t).Perm (files t) := by
  unfold walk
  rw [walkN_noHidden includeHidden t h]
  exact walkN_perm t

example : noHiddenN exTree = true := by decide

/-- jwalk's notion of hidden: a UTF-8 name starting with `.`; `.\xFF.log` is not hidden. -/
example : isHidden [46, 98] = true ∧ isHidden [46, 0xFF, 46, 108, 111, 103] = false := by decide

/-- The sorted list of the files of a tree is unique, and (no hidden names) it is the walk. -/
theorem C15_walk_is_sorted_files (includeHidden : Bool) (t : Node) (hok : okN t = true)
    (hh : noHiddenN t = true) (l : List (List Bytes)) (hl : l.Perm (files t))
    (hs : l.Pairwise (fun p q => pathLt p q = true)) : walk includeHidden t = l :=
  sorted_perm_eq (C15_walk_order includeHidden t hok) hs ((C15_partial includeHidden t hh).trans hl.symm)

/-! ### a directory vs. its files named explicitly -/

/-- `name`'s type when walked is not `Unparsable` -/
def keptWhenWalked (p : List Bytes) : Bool := keep p

/-- the argument that names the file `parent/p` itself (no symbolic link involved: the
canonical name is the name given) -/
def fileArg (parent p : List Bytes) : Arg := .file (parent ++ p) (p.getLastD [])

/-- For a tree without hidden names: what is read when the directory is named equals what
is read when the sorted list of its files, restricted to those whose name is not of a known
non-log type, is named explicitly — same paths, same order, same file types. -/
theorem C15_dir_eq_explicit (includeHidden : Bool) (parent : List Bytes) (t : Node)
    (hok : okN t = true) (hh : noHiddenN t = true)
    (l : List (List Bytes)) (hl : l.Perm (files t)) (hs : l.Pairwise (fun p q => pathLt p q = true)) :
    (expandArgs includeHidden [.dir parent t]).filter (·.out.attempted)
      = expandArgs includeHidden ((l.filter keptWhenWalked).map (fileArg parent)) := by
  have hw := C15_walk_is_sorted_files includeHidden t hok hh l hl hs
  simp only [expandArgs, List.flatMap_cons, List.flatMap_nil, List.append_nil, expandArg, expandDirAll, hw,
    List.map_map, List.flatMap_map, fileArg]
  rw [List.filter_map]
  have hf : (fun e : Entry => e.out.attempted) ∘ ((fun e : Entry => (⟨parent ++ e.path, e.out⟩ : Entry)) ∘ classifyWalked)
      = keptWhenWalked := by
    funext p
    simp only [Function.comp, keptWhenWalked]
    exact classifyWalked_attempted p
  rw [hf]
  have hsing : ∀ (f : List Bytes → Entry) (l : List (List Bytes)), l.flatMap (fun a => [f a]) = l.map f := by
    intro f l; induction l <;> simp_all
  rw [hsing]
  apply List.map_congr_left
  intro p hp
  have hk : keep p = true := by simpa [keptWhenWalked] using (List.mem_filter.mp hp).2
  have hpth : (classifyWalked p).path = p := by
    unfold classifyWalked; split
    · rfl
    · split <;> rfl
  simp only [Function.comp, hpth]
  exact classifyWalked_eq_named parent p hk

example : okN exTree = true ∧ noHiddenN exTree = true
    ∧ (walk true exTree).Pairwise (fun p q => pathLt p q = true) := by decide

/-- The expansion of the directory `d/{a-b, a/x, a.log, p.png}`: `p.png` is listed as not
supported and not read; naming it is read as text. -/
example :
    expandDir false (.dir [100] [.file [97, 45, 98], .dir [97] [.file [120]], .file [112, 46, 112, 110, 103]])
      = [⟨[[100], [97], [120]], .valid ⟨.text, .normal⟩⟩, ⟨[[100], [97, 45, 98]], .valid ⟨.text, .normal⟩⟩]
    ∧ classifyNamed [[100], [112, 46, 112, 110, 103]] [112, 46, 112, 110, 103]
      = ⟨[[100], [112, 46, 112, 110, 103]], .valid ⟨.text, .normal⟩⟩ := by decide

/-- A file named explicitly is never dropped, whatever its suffix … -/
theorem C15_explicit_always (p : List Bytes) (canon : Bytes) :
    (classifyNamed p canon).out.attempted = true :=
  classifyNamed_attempted p canon

/-- … and it is never read as `Unparsable` (from `C16_explicit_always`). -/
theorem C15_explicit_type (p : List Bytes) (canon : Bytes) (r : Result)
    (h : (classifyNamed p canon).out = .valid r) : r.kind ≠ .unparsable := by
  unfold classifyNamed at h
  cases hc : classify canon true with
  | none => simp [hc] at h
  | some r' =>
    rw [hc] at h
    have hne := C16_explicit_always canon r' hc
    have he : r = r' := by
      obtain ⟨k, a⟩ := r'
      cases k <;> simp at h <;> exact h.symm
    exact he ▸ hne

example : (classifyNamed [[112]] [112]).out = .valid ⟨.text, .normal⟩ := by decide

/-- The statement one would like for links: a walked file is read as it would be if named.
As coded it fails for symbolic links: the walk classifies the link's own name, naming the link
classifies the name of its target (`canonicalize()`). -/
def C15_link_same_type_full : Prop :=
  ∀ (p : List Bytes) (canon : Bytes), keep p = true →
    (classifyWalked p).out = (classifyNamed p canon).out

/-- Witness: the link `l.log -> t.gz` is read as plain text when its directory is walked and
as gzip when named. -/
theorem C15_link_same_type_full_false : ¬ C15_link_same_type_full := by
  intro h
  have := h [[108, 46, 108, 111, 103]] [116, 46, 103, 122] (by decide)
  revert this
  decide

/-- It holds whenever the target's name classifies like the link's name (in particular when
there is no link). -/
theorem C15_link_same_type_partial (p : List Bytes) (canon : Bytes) (hk : keep p = true)
    (hc : classify canon true = classify (p.getLastD []) true) :
    (classifyWalked p).out = (classifyNamed p canon).out := by
  have h := classifyWalked_eq_named [] p hk
  simp only [List.nil_append] at h
  have h2 : (classifyNamed p canon).out = (classifyNamed p (p.getLastD [])).out := by
    unfold classifyNamed; rw [hc]
  rw [h2, ← h]

example : keep [[97, 46, 108, 111, 103]] = true
    ∧ classify [98, 46, 116, 120, 116] true = classify ([[97, 46, 108, 111, 103]].getLastD []) true := by decide

/-! ### `-`: paths on stdin -/

/-- The first `-` is replaced in place by the stdin lines; every later `-` is dropped (the
program prints a warning). Lines are taken verbatim: a line `-` stays a path named `-`. -/
theorem C15_stdin (lines pre post : List Bytes) (hpre : DASH ∉ pre) :
    spliceStdin lines (pre ++ DASH :: post) = pre ++ lines ++ post.filter (· ≠ DASH) := by
  unfold spliceStdin
  rw [spliceAux_prefix lines false pre _ hpre, spliceAux]
  simp [spliceAux_seen, List.append_assoc]

/-- Without `-`, stdin is not consulted. -/
theorem C15_stdin_unused (lines args : List Bytes) (h : DASH ∉ args) : spliceStdin lines args = args := by
  have := spliceAux_prefix lines false args [] h
  simpa [spliceStdin, spliceAux] using this

/-- Paths supplied on stdin are equivalent to the same paths given as arguments at the
position of the `-` (given that none of them is itself `-`). -/
theorem C15_stdin_equiv (fs : Bytes → Arg) (includeHidden : Bool) (lines pre post : List Bytes)
    (hpre : DASH ∉ pre) (hpost : DASH ∉ post) (hlines : DASH ∉ lines) :
    expandRun fs includeHidden lines (pre ++ DASH :: post)
      = expandRun fs includeHidden [] (pre ++ lines ++ post) := by
  unfold expandRun
  rw [C15_stdin lines pre post hpre, filter_ne_of_not_mem post hpost]
  rw [C15_stdin_unused [] (pre ++ lines ++ post)]
  simp only [List.mem_append, not_or]
  exact ⟨⟨hpre, hlines⟩, hpost⟩

/-- `s4 a.log - b.log - c.log` with `x`, `-` on stdin: the second `-` argument is ignored,
the stdin line `-` is kept as a path. -/
example : spliceStdin [[120], DASH] [[97], DASH, [98], DASH, [99]] = [[97], [120], DASH, [98], [99]] := by
  decide

example : DASH ∉ ([[97]] : List Bytes) ∧ DASH ∉ ([[98]] : List Bytes) ∧ DASH ∉ ([[120]] : List Bytes) := by
  decide

/-- `BufRead::lines`: `\n` and `\r\n` ends, no empty last line, reading stops at a line that
is not UTF-8. -/
example : stdinLines [97, 10, 98, 13, 10, 10, 99] = [[97], [98], [], [99]]
    ∧ stdinLines [97, 10] = [[97]] ∧ stdinLines [97, 10, 0xFF, 10, 98] = [[97]] := by decide

/-! ### PathIds -/

/-- PathIds are the positions in the concatenated list … -/
theorem C15_pathid (es : List Entry) :
    (withIds es).map (·.1) = es ∧ (withIds es).map (·.2) = List.range es.length := by
  unfold withIds
  exact ⟨List.zipIdx_map_fst 0 es, by rw [List.zipIdx_map_snd, List.range_eq_range']⟩

/-- … so all entries of an earlier argument have smaller PathIds than those of a later one … -/
theorem C15_pathid_args (includeHidden : Bool) (as bs : List Arg) :
    withIds (expandArgs includeHidden (as ++ bs))
      = withIds (expandArgs includeHidden as)
        ++ (expandArgs includeHidden bs).zipIdx (expandArgs includeHidden as).length := by
  unfold withIds expandArgs
  rw [List.flatMap_append, List.zipIdx_append]
  simp

/-- … and the sources that are read are the attempted entries in list order with strictly
increasing PathIds: equal expansions give the same tie order. -/
theorem C15_pathid_sources (es : List Entry) :
    (sources es).map (·.1) = es.filter (·.out.attempted)
    ∧ ((sources es).map (·.2)).Pairwise (· < ·) := by
  constructor
  · unfold sources withIds
    have : (fun x : Entry × Nat => x.1.out.attempted) = (fun e : Entry => e.out.attempted) ∘ Prod.fst := rfl
    rw [this, ← List.filter_map, List.zipIdx_map_fst]
  · unfold sources
    have h : ((withIds es).map (·.2)).Pairwise (· < ·) := by
      rw [(C15_pathid es).2]; exact List.pairwise_lt_range
    exact List.Pairwise.map _ (fun a b hab => hab) ((List.pairwise_map.mp h).filter _)

end S4V.Props.WalkSpec
