/-
C15 — directories and stdin path lists expand to the same run as explicit files.

Statements are about `S4V.Model.Walk` (hand model of `process_path`, of jwalk's sorted
walk, of the `-` handling in `cli_process_args` and of PathId assignment) over the flags
regenerated from the source (`S4V.Gen.PathTables.walkIncludesHidden`). Helper lemmas live
in `S4V.Lemmas.Walk`; the two classification facts come from C16.

"Sorted path order" is what the code relies on: jwalk sorts each directory's entries by
`file_name` (byte order) and walks depth-first. `C15_walk_order` shows that this is the
component-wise lexicographic order of paths (Rust's `Path` ordering) — which is *not* the
byte order of the joined path strings (`C15_not_string_order`).
-/
import S4V.Lemmas.Walk
import S4V.Props.C16
import S4V.Model.WalkTar

namespace S4V.Props.WalkSpec
open S4V.Model.Walk S4V.Model.Path S4V.Model.PathTypes S4V.Gen.PathTables
open S4V.Lemmas.Walk S4V.Props.C16

/-! ### the order of a walked directory -/

/-- The walk lists files in strictly increasing component-wise path order, whenever the
entries of each directory have distinct names (which a file system guarantees). -/
theorem C15_walk_order (includeHidden : Bool) (t : Node) (h : okN t = true) :
    (walk includeHidden t).Pairwise (fun p q => pathLt p q = true) :=
  walkN_sorted includeHidden t h

/-- `d/{a-b, a/x, a.log}` -/
def exTree : Node := .dir [100] [.file [97, 45, 98], .dir [97] [.file [120]], .file [97, 46, 108, 111, 103]]

example : okN exTree = true := by decide

/-- … so no path is listed twice. -/
theorem C15_walk_nodup (includeHidden : Bool) (t : Node) (h : okN t = true) :
    (walk includeHidden t).Nodup :=
  (C15_walk_order includeHidden t h).imp (fun {a b} hab e => by
    subst e; simp [pathLt_irrefl] at hab)

/-- `pathLt` is a strict order (irreflexive, transitive), so "sorted" determines the list. -/
theorem C15_order_strict :
    (∀ p, pathLt p p = false) ∧ (∀ p q r, pathLt p q = true → pathLt q r = true → pathLt p r = true) :=
  ⟨pathLt_irrefl, pathLt_trans⟩

/-- Remark: component order is not the byte order of the joined strings. `a/x` is walked
before `a-b` (and before `a.log`), although `"a-b" < "a.log" < "a/x"` as strings
(`-` 0x2D, `.` 0x2E, `/` 0x2F). -/
theorem C15_not_string_order :
    walk true exTree = [[[100], [97], [120]], [[100], [97, 45, 98]], [[100], [97, 46, 108, 111, 103]]]
    ∧ pathLt [[97], [120]] [[97, 45, 98]] = true
    ∧ bytesLt (joinPath [[97, 45, 98]]) (joinPath [[97], [120]]) = true := by decide

/-! ### completeness -/

/-- With hidden entries included, the walk is a rearrangement of the files of the tree:
together with `C15_walk_nodup`, every file appears exactly once. -/
theorem C15_walk_complete (t : Node) : (walk true t).Perm (files t) :=
  walkN_perm t

/-- The same for the flag the source actually sets. -/
def C15_full : Prop := ∀ t : Node, okN t = true → (walk walkIncludesHidden t).Perm (files t)

/-- `d/{a.log, .b.log, .hid/c.log}` -/
def hiddenWitness : Node :=
  .dir [100] [.file [97, 46, 108, 111, 103], .file [46, 98, 46, 108, 111, 103],
    .dir [46, 104, 105, 100] [.file [99, 46, 108, 111, 103]]]

/-- If the walk skipped hidden entries (jwalk's default, which the source used to rely on:
finding F10, repaired) the statement would be false: `d/.b.log` and `d/.hid/c.log` are files of
the tree and would not be walked. Kept as a counter-model. -/
theorem skip_hidden_loses : ¬ (walk false hiddenWitness).Perm (files hiddenWitness) := by
  intro h
  have hp := h.length_eq
  revert hp
  decide

/-- Once the source includes hidden entries the full statement holds … -/
theorem C15_full_if_included (h : walkIncludesHidden = true) : C15_full := by
  intro t _
  rw [h]
  exact C15_walk_complete t

/-- … and the source does: `process_path` calls `.skip_hidden(false)` (generated flag, unfolded, so
dropping the call breaks this proof). Every regular file beneath a directory is walked. -/
theorem C15_full_holds : C15_full :=
  C15_full_if_included (by unfold walkIncludesHidden; decide)

/-- The model describes a sorted, link-following walk: the source must ask jwalk for both
(generated flags, unfolded). -/
theorem C15_walk_flags : walkSorted = true ∧ walkFollowsLinks = true := by
  unfold walkSorted walkFollowsLinks
  decide

/-- what would be walked from the witness with hidden entries skipped: only `d/a.log` -/
example : walk false hiddenWitness = [[[100], [97, 46, 108, 111, 103]]] := by decide

/-- Trees without hidden names below the root are walked completely, whatever the flag. -/
theorem C15_partial (includeHidden : Bool) (t : Node) (h : noHiddenN t = true) :
    (walk includeHidden t).Perm (files t) := by
  unfold walk
  rw [walkN_noHidden includeHidden t h]
  exact walkN_perm t

example : noHiddenN exTree = true := by decide

/-- jwalk's notion of hidden: a UTF-8 name starting with `.`; `.\xFF.log` is not hidden. -/
example : isHidden [46, 98] = true ∧ isHidden [46, 0xFF, 46, 108, 111, 103] = false := by decide

/-- The sorted list of the files of a tree is unique, and (no hidden names) it is the walk. -/
theorem C15_walk_is_sorted_files (includeHidden : Bool) (t : Node) (hok : okN t = true)
    (hh : noHiddenN t = true) (l : List (List Bytes)) (hl : l.Perm (files t))
    (hs : l.Pairwise (fun p q => pathLt p q = true)) : walk includeHidden t = l :=
  sorted_perm_eq (C15_walk_order includeHidden t hok) hs ((C15_partial includeHidden t hh).trans hl.symm)

/-! ### a directory vs. its files named explicitly -/

/-- `name`'s type when walked is not `Unparsable` -/
def keptWhenWalked (p : List Bytes) : Bool := keep p

/-- the argument that names the file `parent/p` itself (no symbolic link involved: the
canonical name is the name given) -/
def fileArg (parent p : List Bytes) : Arg := .file (parent ++ p) (p.getLastD [])

/-- For a tree without hidden names: what is read when the directory is named equals what
is read when the sorted list of its files, restricted to those whose name is not of a known
non-log type, is named explicitly — same paths, same order, same file types. -/
theorem C15_dir_eq_explicit (includeHidden : Bool) (parent : List Bytes) (t : Node)
    (hok : okN t = true) (hh : noHiddenN t = true)
    (l : List (List Bytes)) (hl : l.Perm (files t)) (hs : l.Pairwise (fun p q => pathLt p q = true)) :
    (expandArgs includeHidden [.dir parent t]).filter (·.out.attempted)
      = expandArgs includeHidden ((l.filter keptWhenWalked).map (fileArg parent)) := by
  have hw := C15_walk_is_sorted_files includeHidden t hok hh l hl hs
  simp only [expandArgs, List.flatMap_cons, List.flatMap_nil, List.append_nil, expandArg, expandDirAll, hw,
    List.map_map, List.flatMap_map, fileArg]
  rw [List.filter_map]
  have hf : (fun e : Entry => e.out.attempted) ∘ ((fun e : Entry => (⟨parent ++ e.path, e.out⟩ : Entry)) ∘ classifyWalked)
      = keptWhenWalked := by
    funext p
    simp only [Function.comp, keptWhenWalked]
    exact classifyWalked_attempted p
  rw [hf]
  have hsing : ∀ (f : List Bytes → Entry) (l : List (List Bytes)), l.flatMap (fun a => [f a]) = l.map f := by
    intro f l; induction l <;> simp_all
  rw [hsing]
  apply List.map_congr_left
  intro p hp
  have hk : keep p = true := by simpa [keptWhenWalked] using (List.mem_filter.mp hp).2
  have hpth : (classifyWalked p).path = p := by
    unfold classifyWalked; split
    · rfl
    · split <;> rfl
  simp only [Function.comp, hpth]
  exact classifyWalked_eq_named parent p hk

example : okN exTree = true ∧ noHiddenN exTree = true
    ∧ (walk true exTree).Pairwise (fun p q => pathLt p q = true) := by decide

/-- The expansion of the directory `d/{a-b, a/x, a.log, p.png}`: `p.png` is listed as not
supported and not read; naming it is read as text. -/
example :
    expandDir false (.dir [100] [.file [97, 45, 98], .dir [97] [.file [120]], .file [112, 46, 112, 110, 103]])
      = [⟨[[100], [97], [120]], .valid ⟨.text, .normal⟩⟩, ⟨[[100], [97, 45, 98]], .valid ⟨.text, .normal⟩⟩]
    ∧ classifyNamed [[100], [112, 46, 112, 110, 103]] [112, 46, 112, 110, 103]
      = ⟨[[100], [112, 46, 112, 110, 103]], .valid ⟨.text, .normal⟩⟩ := by decide

/-- A file named explicitly is never dropped, whatever its suffix … -/
theorem C15_explicit_always (p : List Bytes) (canon : Bytes) :
    (classifyNamed p canon).out.attempted = true :=
  classifyNamed_attempted p canon

/-- … and it is never read as `Unparsable` (from `C16_explicit_always`). -/
theorem C15_explicit_type (p : List Bytes) (canon : Bytes) (r : Result)
    (h : (classifyNamed p canon).out = .valid r) : r.kind ≠ .unparsable := by
  unfold classifyNamed at h
  cases hc : classify canon true with
  | none => simp [hc] at h
  | some r' =>
    rw [hc] at h
    have hne := C16_explicit_always canon r' hc
    have he : r = r' := by
      obtain ⟨k, a⟩ := r'
      cases k <;> simp at h <;> exact h.symm
    exact he ▸ hne

example : (classifyNamed [[112]] [112]).out = .valid ⟨.text, .normal⟩ := by decide

/-- The statement one would like for links: a walked file is read as it would be if named.
As coded it fails for symbolic links: the walk classifies the link's own name, naming the link
classifies the name of its target (`canonicalize()`). -/
def C15_link_same_type_full : Prop :=
  ∀ (p : List Bytes) (canon : Bytes), keep p = true →
    (classifyWalked p).out = (classifyNamed p canon).out

/-- Witness: the link `l.log -> t.gz` is read as plain text when its directory is walked and
as gzip when named. -/
theorem C15_link_same_type_full_false : ¬ C15_link_same_type_full := by
  intro h
  have := h [[108, 46, 108, 111, 103]] [116, 46, 103, 122] (by decide)
  revert this
  decide

/-- It holds whenever the target's name classifies like the link's name (in particular when
there is no link). -/
theorem C15_link_same_type_partial (p : List Bytes) (canon : Bytes) (hk : keep p = true)
    (hc : classify canon true = classify (p.getLastD []) true) :
    (classifyWalked p).out = (classifyNamed p canon).out := by
  have h := classifyWalked_eq_named [] p hk
  simp only [List.nil_append] at h
  have h2 : (classifyNamed p canon).out = (classifyNamed p (p.getLastD [])).out := by
    unfold classifyNamed; rw [hc]
  rw [h2, ← h]

example : keep [[97, 46, 108, 111, 103]] = true
    ∧ classify [98, 46, 116, 120, 116] true = classify ([[97, 46, 108, 111, 103]].getLastD []) true := by decide

/-! ### `-`: paths on stdin -/

/-- The first `-` is replaced in place by the stdin lines; every later `-` is dropped (the
program prints a warning). Lines are taken verbatim: a line `-` stays a path named `-`. -/
theorem C15_stdin (lines pre post : List Bytes) (hpre : DASH ∉ pre) :
    spliceStdin lines (pre ++ DASH :: post) = pre ++ lines ++ post.filter (· ≠ DASH) := by
  unfold spliceStdin
  rw [spliceAux_prefix lines false pre _ hpre, spliceAux]
  simp [spliceAux_seen, List.append_assoc]

/-- Without `-`, stdin is not consulted. -/
theorem C15_stdin_unused (lines args : List Bytes) (h : DASH ∉ args) : spliceStdin lines args = args := by
  have := spliceAux_prefix lines false args [] h
  simpa [spliceStdin, spliceAux] using this

/-- Paths supplied on stdin are equivalent to the same paths given as arguments at the
position of the `-` (given that none of them is itself `-`). -/
theorem C15_stdin_equiv (fs : Bytes → Arg) (includeHidden : Bool) (lines pre post : List Bytes)
    (hpre : DASH ∉ pre) (hpost : DASH ∉ post) (hlines : DASH ∉ lines) :
    expandRun fs includeHidden lines (pre ++ DASH :: post)
      = expandRun fs includeHidden [] (pre ++ lines ++ post) := by
  unfold expandRun
  rw [C15_stdin lines pre post hpre, filter_ne_of_not_mem post hpost]
  rw [C15_stdin_unused [] (pre ++ lines ++ post)]
  simp only [List.mem_append, not_or]
  exact ⟨⟨hpre, hlines⟩, hpost⟩

/-- `s4 a.log - b.log - c.log` with `x`, `-` on stdin: the second `-` argument is ignored,
the stdin line `-` is kept as a path. -/
example : spliceStdin [[120], DASH] [[97], DASH, [98], DASH, [99]] = [[97], [120], DASH, [98], [99]] := by
  decide

example : DASH ∉ ([[97]] : List Bytes) ∧ DASH ∉ ([[98]] : List Bytes) ∧ DASH ∉ ([[120]] : List Bytes) := by
  decide

/-- `BufRead::lines`: `\n` and `\r\n` ends, no empty last line, reading stops at a line that
is not UTF-8. -/
example : stdinLines [97, 10, 98, 13, 10, 10, 99] = [[97], [98], [], [99]]
    ∧ stdinLines [97, 10] = [[97]] ∧ stdinLines [97, 10, 0xFF, 10, 98] = [[97]] := by decide

/-! ### PathIds -/

/-- PathIds are the positions in the concatenated list … -/
theorem C15_pathid (es : List Entry) :
    (withIds es).map (·.1) = es ∧ (withIds es).map (·.2) = List.range es.length := by
  unfold withIds
  exact ⟨List.zipIdx_map_fst 0 es, by rw [List.zipIdx_map_snd, List.range_eq_range']⟩

/-- … so all entries of an earlier argument have smaller PathIds than those of a later one … -/
theorem C15_pathid_args (includeHidden : Bool) (as bs : List Arg) :
    withIds (expandArgs includeHidden (as ++ bs))
      = withIds (expandArgs includeHidden as)
        ++ (expandArgs includeHidden bs).zipIdx (expandArgs includeHidden as).length := by
  unfold withIds expandArgs
  rw [List.flatMap_append, List.zipIdx_append]
  simp

/-- … and the sources that are read are the attempted entries in list order with strictly
increasing PathIds: equal expansions give the same tie order. -/
theorem C15_pathid_sources (es : List Entry) :
    (sources es).map (·.1) = es.filter (·.out.attempted)
    ∧ ((sources es).map (·.2)).Pairwise (· < ·) := by
  constructor
  · unfold sources withIds
    have : (fun x : Entry × Nat => x.1.out.attempted) = (fun e : Entry => e.out.attempted) ∘ Prod.fst := rfl
    rw [this, ← List.filter_map, List.zipIdx_map_fst]
  · unfold sources
    have h : ((withIds es).map (·.2)).Pairwise (· < ·) := by
      rw [(C15_pathid es).2]; exact List.pairwise_lt_range
    exact List.Pairwise.map _ (fun a b hab => hab) ((List.pairwise_map.mp h).filter _)

/-! ### tar archives: members reached by walking a directory vs. by naming the archive

Model: `S4V.Model.WalkTar` (`process_path_tar` and its two call sites in `process_path`) over the
constants regenerated from the source (`S4V.Gen.WalkTar`). -/

section Tar
open S4V.Model.WalkTar S4V.Gen.WalkTar

/-- **C15 for tar members.** For every archive content, every flag value of the caller and every
path, the results for a `.tar` met while walking a directory are the results for the same `.tar`
named explicitly: same members, same order, same types, same sub-paths. Both call sites must hand
`process_path_tar` the same `unparseable_are_text` (generated constants, unfolded: a source change
at either call site regenerates another value and breaks this proof).
Hypothesis: the path is valid UTF-8, i.e. `path_to_fpath` (lossy) leaves it as it is — every path
that can be named on the command line is (arguments are `String`s). -/
theorem C15_tar_members (u : Bool) (p : List Bytes) (ar : Archive)
    (hp : toStringLossy (joinPath p) = joinPath p) :
    walkedTar u p ar = namedTar u p ar := by
  unfold walkedTar namedTar walkedTarWith namedTarWith fpath
  rw [hp]
  unfold walkTarPassesFlag walkTarFlagLit namedTarPassesFlag namedTarFlagLit
  rfl

/-- `d/b.tar` -/
def tarPathEx : List Bytes := [[100], [98, 46, 116, 97, 114]]

/-- an archive with the one regular, non-empty member `dump.bin` -/
def dumpArchive : Archive := ⟨[⟨[[100, 117, 109, 112, 46, 98, 105, 110]], .regular, false⟩], false⟩

example : toStringLossy (joinPath tarPathEx) = joinPath tarPathEx := by decide

/-- Counter-model (the planted change `process_path_tar(&path_to_fpath(std_path_entry), false, fta)`):
if the walk arm passed the literal `false` instead of its parameter, then — as `main` calls
`process_path` — there is an archive whose walked expansion differs from the named one. -/
theorem tar_flag_false_loses :
    walkedTarWith false false mainUnparseableAreText tarPathEx dumpArchive
      ≠ namedTar mainUnparseableAreText tarPathEx dumpArchive := by
  decide

/-- … namely: walked with `false`, `d/b.tar|dump.bin` is listed as not supported and never read;
named, it is read as text from the tar. -/
example :
    walkedTarWith false false true tarPathEx dumpArchive
      = [⟨[100, 47, 98, 46, 116, 97, 114, 124, 100, 117, 109, 112, 46, 98, 105, 110], .notSupported⟩]
    ∧ namedTar true tarPathEx dumpArchive
      = [⟨[100, 47, 98, 46, 116, 97, 114, 124, 100, 117, 109, 112, 46, 98, 105, 110], .valid ⟨.text, .tar⟩⟩]
    ∧ walkedTar true tarPathEx dumpArchive = namedTar true tarPathEx dumpArchive := by decide

/-- The flag is the only way the two call sites can differ: with equal flags and a UTF-8 path the
expansions agree whatever the call-site shapes are. -/
theorem C15_tar_members_of_flags (pw lw pn ln u : Bool) (p : List Bytes) (ar : Archive)
    (hp : toStringLossy (joinPath p) = joinPath p) (hf : flagArg pw lw u = flagArg pn ln u) :
    walkedTarWith pw lw u p ar = namedTarWith pn ln u p ar := by
  unfold walkedTarWith namedTarWith fpath
  rw [hp, hf]

example : flagArg true false true = flagArg true true true := by decide

/-- What the generator checked in the member loop of `process_path_tar` (it raises an error
otherwise) and the separator between the archive's path and the member's. -/
theorem C15_tar_shape : tarSkipsNonRegular = true ∧ tarZeroSizeIsEmpty = true ∧ tarMemberUsesFlag = true
    ∧ subpathSep = [124] := by
  unfold tarSkipsNonRegular tarZeroSizeIsEmpty tarMemberUsesFlag subpathSep
  decide

/-- The final `match` of `process_path_tar` (generated table): a member is read exactly when its own
name classifies with `archival_type: Normal`; a compressed member (`x.log.gz` inside the tar) is
answered with "cannot extract", whatever its family. -/
theorem C15_tar_rows (f : Family) (a : Arch) : lookupRow f a = some (a == .normal) := by
  cases f <;> cases a <;> decide

/-- Non-regular entries (directories, links, …) give no result, whatever their name and size. -/
theorem C15_tar_other_skipped (tp : Bytes) (ua : Bool) (n : List Bytes) (z : Bool) :
    memberResult tp ua ⟨n, .other, z⟩ = none := rfl

/-- A regular member of size 0 is reported `FileErrEmpty` without looking at its name. -/
theorem C15_tar_empty (tp : Bytes) (ua : Bool) (n : List Bytes) :
    memberResult tp ua ⟨n, .regular, true⟩ = some ⟨fullPath tp ⟨n, .regular, true⟩, .empty⟩ := rfl

/-- The order of results is the stored order of the members; an iteration error comes last. -/
theorem C15_tar_order (tp : Bytes) (ua : Bool) (ms₁ ms₂ : List Member) (b : Bool) :
    processPathTar tp ua ⟨ms₁ ++ ms₂, b⟩ = processPathTar tp ua ⟨ms₁, false⟩ ++ processPathTar tp ua ⟨ms₂, b⟩ := by
  simp [processPathTar, List.filterMap_append]

/-- As `main` calls it (`unparseable_are_text = true`), no regular non-empty member is dropped for
its suffix (`FileErrNotSupported(_, None)` never arises): `C16_explicit_always` inside the tar. -/
theorem C15_tar_main_never_drops (m : Member) : memberOut mainUnparseableAreText m ≠ .notSupported := by
  unfold mainUnparseableAreText memberOut
  cases hc : classify (m.name.getLastD []) true with
  | none => simp
  | some r =>
    have hne := C16_explicit_always _ r hc
    obtain ⟨k, a⟩ := r
    cases k <;> simp_all [familyOf, C15_tar_rows] <;> (generalize (a == Arch.normal) = b; cases b <;> simp)

/-- `x.tar` holding: directory `sub/`, `sub/app.log`, empty `e.log`, `dump.bin`, `x.log.gz`,
`in.tar`; then a corrupt header. Named by `main` (flag `true`). -/
example :
    (processPathTar [120] true
      ⟨[⟨[[115, 117, 98], []], .other, true⟩,
        ⟨[[115, 117, 98], [97, 112, 112, 46, 108, 111, 103]], .regular, false⟩,
        ⟨[[101, 46, 108, 111, 103]], .regular, true⟩,
        ⟨[[100, 117, 109, 112, 46, 98, 105, 110]], .regular, false⟩,
        ⟨[[120, 46, 108, 111, 103, 46, 103, 122]], .regular, false⟩,
        ⟨[[105, 110, 46, 116, 97, 114]], .regular, false⟩], true⟩).map (·.out)
      = [.valid ⟨.text, .tar⟩, .empty, .valid ⟨.text, .tar⟩, .cannotExtract .gz, .nested, .err] := by decide

/-- One walked entry, archives expanded: unless it is a `.tar` there is nothing to expand, and a
`.tar` expands as it would when named. -/
theorem C15_tar_entry (u : Bool) (fs : TarFs) (e : Entry)
    (hp : toStringLossy (joinPath e.path) = joinPath e.path) :
    expandWalked u fs e = expandNamed u fs e := by
  unfold expandWalked expandNamed
  cases e.out <;> simp [C15_tar_members u e.path (fs e.path) hp]

example : toStringLossy (joinPath (⟨tarPathEx, .tar .normal⟩ : Entry).path) = joinPath (⟨tarPathEx, .tar .normal⟩ : Entry).path := by
  decide

theorem classifyNamed_path (p : List Bytes) (c : Bytes) : (classifyNamed p c).path = p := by
  unfold classifyNamed
  split
  · rfl
  · split <;> rfl

/-- A kept file met in the walk — plain or `.tar` — contributes exactly the results of naming it
(given that its path is valid UTF-8). -/
theorem C15_tar_walked_eq_named (u : Bool) (fs : TarFs) (par p : List Bytes) (hk : keep p = true)
    (hp : toStringLossy (joinPath (par ++ p)) = joinPath (par ++ p)) :
    expandWalked u fs ⟨par ++ p, (classifyWalked p).out⟩
      = expandArgFull false u fs (fileArg par p) := by
  unfold fileArg expandArgFull
  rw [classifyWalked_eq_named par p hk]
  exact C15_tar_entry u fs _ (by rw [classifyNamed_path]; exact hp)

example : keep [[98, 46, 116, 97, 114]] = true
    ∧ toStringLossy (joinPath ([[100]] ++ [[98, 46, 116, 97, 114]])) = joinPath ([[100]] ++ [[98, 46, 116, 97, 114]]) := by
  decide

/-- A file met in the walk whose name is of a known non-log type contributes nothing that is read. -/
theorem C15_tar_walked_dropped (u : Bool) (fs : TarFs) (par p : List Bytes) (hk : keep p = false) :
    (expandWalked u fs ⟨par ++ p, (classifyWalked p).out⟩).filter Res.attempted = [] := by
  have ha := classifyWalked_attempted p
  rw [hk] at ha
  unfold expandWalked
  cases ho : (classifyWalked p).out <;> simp_all [Res.attempted, Outcome.attempted]

example : keep [[112, 46, 112, 110, 103]] = false := by decide

theorem flatMap_filter_keep {α β : Type} (k : α → Bool) (q : β → Bool) (f g : α → List β) :
    ∀ l : List α, (∀ a ∈ l, k a = true → f a = g a) → (∀ a ∈ l, k a = false → (f a).filter q = []) →
      (l.flatMap f).filter q = ((l.filter k).flatMap g).filter q
  | [], _, _ => rfl
  | a :: l, hkeep, hdrop => by
    have ih := flatMap_filter_keep k q f g l (fun b hb => hkeep b (List.mem_cons_of_mem a hb))
      (fun b hb => hdrop b (List.mem_cons_of_mem a hb))
    cases h : k a
    · simp [h, hdrop a List.mem_cons_self h, ih]
    · simp [h, hkeep a List.mem_cons_self h, ih]

/-- **Directory = explicit list, archives included.** For a tree without hidden names whose paths are
valid UTF-8: what is read when the directory is named — plain files and the members of every `.tar`
below it — is what is read when the sorted list of its kept files is named explicitly (each `.tar`
then being expanded by the named branch), in the same order with the same types.
Extends `C15_dir_eq_explicit` to `S4V.Model.WalkTar`; `fs` is any content of the tar-named files. -/
theorem C15_dir_eq_explicit_tar (includeHidden u : Bool) (fs : TarFs) (parent : List Bytes) (t : Node)
    (hok : okN t = true) (hh : noHiddenN t = true)
    (l : List (List Bytes)) (hl : l.Perm (files t)) (hs : l.Pairwise (fun p q => pathLt p q = true))
    (hutf : ∀ p ∈ l, toStringLossy (joinPath (parent ++ p)) = joinPath (parent ++ p)) :
    (expandArgsFull includeHidden u fs [.dir parent t]).filter Res.attempted
      = (expandArgsFull includeHidden u fs ((l.filter keptWhenWalked).map (fileArg parent))).filter Res.attempted := by
  have hw := C15_walk_is_sorted_files includeHidden t hok hh l hl hs
  have hpth : ∀ p, (classifyWalked p).path = p := by
    intro p; unfold classifyWalked; split
    · rfl
    · split <;> rfl
  simp only [expandArgsFull, List.flatMap_cons, List.flatMap_nil, List.append_nil, expandArgFull, expandDirAll, hw,
    List.flatMap_map, hpth]
  exact flatMap_filter_keep keptWhenWalked Res.attempted _ _ l
    (fun p hm hk => C15_tar_walked_eq_named u fs parent p (by simpa [keptWhenWalked] using hk) (hutf p hm))
    (fun p _ hk => C15_tar_walked_dropped u fs parent p (by simpa [keptWhenWalked] using hk))

/-- the hypotheses are satisfiable: `d/{a-b, a/x, a.log}` below the parent `p` -/
example : okN exTree = true ∧ noHiddenN exTree = true
    ∧ (walk true exTree).Perm (files exTree) ∧ (walk true exTree).Pairwise (fun p q => pathLt p q = true)
    ∧ ∀ p ∈ walk true exTree, toStringLossy (joinPath ([[112]] ++ p)) = joinPath ([[112]] ++ p) := by
  refine ⟨by decide, by decide, C15_walk_complete exTree, by decide, by decide⟩

/-- `d/{a.log, b.tar, p.png}` with `b.tar` = {`dump.bin`}: naming `d` reads `d/a.log` and `d/b.tar|dump.bin`
(as text), exactly what naming `d/a.log d/b.tar` reads; `d/p.png` is listed and not read. -/
example :
    let fs : TarFs := fun _ => dumpArchive
    let d : Node := .dir [100] [.file [97, 46, 108, 111, 103], .file [98, 46, 116, 97, 114], .file [112, 46, 112, 110, 103]]
    (expandArgsFull true true fs [.dir [] d]).filter Res.attempted
      = [.plain [[100], [97, 46, 108, 111, 103]] (.valid ⟨.text, .normal⟩),
         .member ⟨[100, 47, 98, 46, 116, 97, 114, 124, 100, 117, 109, 112, 46, 98, 105, 110], .valid ⟨.text, .tar⟩⟩]
    ∧ (expandArgsFull true true fs [.dir [] d]).filter Res.attempted
      = (expandArgsFull true true fs [fileArg [] [[100], [97, 46, 108, 111, 103]], fileArg [] [[100], [98, 46, 116, 97, 114]]]).filter
          Res.attempted := by
  decide

/-- **C15/C07** — an archive that cannot be opened (e.g. a walked `*.tar` below a path component that is not
UTF-8: the lossy path does not exist) is answered with one `FileErr`; it does not abort the run. Generated from
`process_path_tar`'s open statement (was finding F20: `File::open(path).unwrap()`). -/
theorem C15_tar_open_no_abort : S4V.Gen.WalkTar.tarOpenUnwraps = false := by decide

/-- with the `unwrap()` form (before the repair) a walked tree holding a tar-named file below a non-UTF-8
directory makes the whole expansion abort -/
theorem tar_open_unwrap_aborts :
    (expandDirAll true (.dir [0xFF, 100] [.file [100, 46, 116, 97, 114]])).any tarOpenPanics = true := by decide

end Tar

end S4V.Props.WalkSpec
