/-
Property theorems for the Lines model (`S4V.Model.Lines`):
`findLine` / `findLineInBlock` against the specification `lineStart` / `lineEnd`.

All proofs appeal to `S4V.Lemmas.Lines`; this file holds the readable statements.
Core Lean only.
-/
import S4V.Lemmas.Lines

namespace S4V.Props.LinesSpec
open S4V.Gen.Blocks S4V.Model.Lines S4V.Lemmas.Lines

/-- running example: `"ab\ncd"` -/
def ex : Bytes := [97, 98, 10, 99, 100]

/-! ### 3. sanity of the specification -/

theorem lineStart_le (d : Bytes) (fo : Nat) : lineStart d fo ≤ fo :=
  (isLineStart_lineStart d fo).1

theorem le_lineEnd (d : Bytes) (fo : Nat) (hfo : fo < d.length) : fo ≤ lineEnd d fo :=
  (isLineEnd_lineEnd d fo hfo).1

theorem lineEnd_lt (d : Bytes) (fo : Nat) (hfo : fo < d.length) : lineEnd d fo < d.length :=
  (isLineEnd_lineEnd d fo hfo).2.1

/-- the line ends with a newline or at the end of the file -/
theorem lineEnd_nl_or_last (d : Bytes) (fo : Nat) (hfo : fo < d.length) :
    d[lineEnd d fo]? = some NL ∨ lineEnd d fo = d.length - 1 :=
  (isLineEnd_lineEnd d fo hfo).2.2.1

/-- no newline in `d[lineStart .. lineEnd)` -/
theorem no_nl_in_line (d : Bytes) (fo : Nat) (hfo : fo < d.length) (k : Nat)
    (h1 : lineStart d fo ≤ k) (h2 : k < lineEnd d fo) : d[k]? ≠ some NL := by
  rcases Nat.lt_or_ge k fo with h | h
  · exact (isLineStart_lineStart d fo).2.2 k h1 h
  · exact (isLineEnd_lineEnd d fo hfo).2.2.2 k h h2

/-- the line starts at the start of the file or just after a newline -/
theorem lineStart_zero_or_nl (d : Bytes) (fo : Nat) :
    lineStart d fo = 0 ∨ d[lineStart d fo - 1]? = some NL :=
  (isLineStart_lineStart d fo).2.1

/-- every offset of a line has the same `lineStart` and `lineEnd` -/
theorem same_line (d : Bytes) (fo fo' : Nat) (hfo : fo < d.length)
    (h1 : lineStart d fo ≤ fo') (h2 : fo' ≤ lineEnd d fo) :
    lineStart d fo' = lineStart d fo ∧ lineEnd d fo' = lineEnd d fo :=
  S4V.Lemmas.Lines.same_line d fo fo' hfo h1 h2

/-- `lineStart` / `lineEnd` are characterised by these properties -/
theorem lineStart_unique (d : Bytes) (fo S : Nat) (h1 : S ≤ fo)
    (h2 : S = 0 ∨ d[S - 1]? = some NL) (h3 : ∀ k, S ≤ k → k < fo → d[k]? ≠ some NL) :
    lineStart d fo = S :=
  IsLineStart.eq ⟨h1, h2, h3⟩

theorem lineEnd_unique (d : Bytes) (fo E : Nat) (h1 : fo ≤ E) (h2 : E < d.length)
    (h3 : d[E]? = some NL ∨ E = d.length - 1) (h4 : ∀ k, fo ≤ k → k < E → d[k]? ≠ some NL) :
    lineEnd d fo = E :=
  IsLineEnd.eq ⟨h1, h2, h3, h4⟩

example : lineStart ex 4 = 3 ∧ lineEnd ex 4 = 4 ∧ lineStart ex 1 = 0 ∧ lineEnd ex 1 = 2 := by decide
example : ex[lineEnd ex 1]? = some NL ∨ lineEnd ex 1 = ex.length - 1 :=
  lineEnd_nl_or_last ex 1 (by decide)
example : lineStart ex 4 = lineStart ex 3 ∧ lineEnd ex 4 = lineEnd ex 3 :=
  same_line ex 3 4 (by decide) (by decide) (by decide)
example : ex[3]? ≠ some NL := no_nl_in_line ex 3 (by decide) 3 (by decide) (by decide)

/-! ### 1. `findLine` finds the line -/

/-- the parts tile the file from offset `start`: the first part begins at `start`
and each following part begins where the previous one ended -/
def Contiguous (bs : Nat) : Nat → List Part → Prop
  | _, [] => True
  | start, p :: ps =>
    p.foBeg bs = start ∧ Contiguous bs (fileOffsetAtBlockOffsetIndex p.bo bs p.biEnd) ps

theorem contiguous_of_chain {bs n : Nat} :
    ∀ {ps : List Part} {a b : Nat}, Chain bs n a b ps → Contiguous bs a ps
  | [], _, _, _ => trivial
  | _ :: _, _, _, h => ⟨h.1, contiguous_of_chain h.2.2.2.2⟩

/-- main theorem: on a fresh reader `findLine` returns the line containing `fo`:
next offset, bytes, every part non-empty and inside its block, no gap/overlap. -/
theorem findLine_spec (bs : Nat) (d : Bytes) (fo : Nat) (hbs : 1 ≤ bs) (hfo : fo < d.length) :
    ∃ parts, findLine bs d fo = .found (lineEnd d fo + 1) parts ∧
      partsBytes d bs parts
        = (d.drop (lineStart d fo)).take (lineEnd d fo + 1 - lineStart d fo) ∧
      (∀ p ∈ parts, p.biBeg < p.biEnd ∧ p.biEnd ≤ (blockAt d bs p.bo).length) ∧
      Contiguous bs (lineStart d fo) parts ∧
      lineFoEnd bs parts = lineEnd d fo := by
  obtain ⟨parts, h1, h2⟩ := findLine_chain bs d fo hbs hfo
  have hlt : lineStart d fo < lineEnd d fo + 1 := by
    have := lineStart_le d fo; have := le_lineEnd d fo hfo; omega
  have := h2.lineFoEnd (h2.ne_nil hlt)
  exact ⟨parts, h1, h2.bytes, h2.inBounds, contiguous_of_chain h2, by omega⟩

/-- staged corollaries of `findLine_spec` -/
theorem findLine_foNext (bs : Nat) (d : Bytes) (fo : Nat) (hbs : 1 ≤ bs) (hfo : fo < d.length) :
    ∃ parts, findLine bs d fo = .found (lineEnd d fo + 1) parts :=
  let ⟨parts, h, _⟩ := findLine_spec bs d fo hbs hfo
  ⟨parts, h⟩

theorem findLine_bytes (bs : Nat) (d : Bytes) (fo n : Nat) (parts : List Part) (hbs : 1 ≤ bs)
    (h : findLine bs d fo = .found n parts) :
    n = lineEnd d fo + 1 ∧ partsBytes d bs parts
      = (d.drop (lineStart d fo)).take (lineEnd d fo + 1 - lineStart d fo) := by
  rcases Nat.lt_or_ge fo d.length with hfo | hfo
  · obtain ⟨parts', h1, h2, _⟩ := findLine_spec bs d fo hbs hfo
    rw [h1] at h
    injection h with e1 e2
    subst e1 e2
    exact ⟨rfl, h2⟩
  · rw [findLine_done bs d fo hfo] at h; cases h

example : findLine 2 ex 3 = .found 5 [⟨1, 1, 2⟩, ⟨2, 0, 1⟩] := by decide
example : findLine 2 ex 1 = .found 3 [⟨0, 0, 2⟩, ⟨1, 0, 1⟩] := by decide
example : ∃ parts, findLine 2 ex 3 = .found (lineEnd ex 3 + 1) parts ∧
    partsBytes ex 2 parts = (ex.drop (lineStart ex 3)).take (lineEnd ex 3 + 1 - lineStart ex 3) ∧
    (∀ p ∈ parts, p.biBeg < p.biEnd ∧ p.biEnd ≤ (blockAt ex 2 p.bo).length) ∧
    Contiguous 2 (lineStart ex 3) parts ∧ lineFoEnd 2 parts = lineEnd ex 3 :=
  findLine_spec 2 ex 3 (by decide) (by decide)

/-! ### 2. past the end -/

theorem findLine_done (bs : Nat) (d : Bytes) (fo : Nat) (h : d.length ≤ fo) :
    findLine bs d fo = .done :=
  S4V.Lemmas.Lines.findLine_done bs d fo h

example : findLine 2 ex 5 = .done := findLine_done 2 ex 5 (by decide)

/-! ### 4. the block size does not matter -/

/-- what a caller sees of a result: next offset and line bytes -/
def Res.view (d : Bytes) (bs : Nat) : Res → Option (Nat × Bytes)
  | .done => none
  | .found n parts => some (n, partsBytes d bs parts)

theorem findLine_view (bs : Nat) (d : Bytes) (fo : Nat) (hbs : 1 ≤ bs) :
    Res.view d bs (findLine bs d fo) =
      if fo < d.length then
        some (lineEnd d fo + 1,
          (d.drop (lineStart d fo)).take (lineEnd d fo + 1 - lineStart d fo))
      else none := by
  split
  · rename_i hfo
    obtain ⟨parts, h1, h2, _⟩ := findLine_spec bs d fo hbs hfo
    rw [h1, Res.view, h2]
  · rename_i hfo
    rw [findLine_done bs d fo (by omega), Res.view]

theorem findLine_bs_independent (bs₁ bs₂ : Nat) (d : Bytes) (fo : Nat) (h₁ : 1 ≤ bs₁)
    (h₂ : 1 ≤ bs₂) :
    Res.view d bs₁ (findLine bs₁ d fo) = Res.view d bs₂ (findLine bs₂ d fo) := by
  rw [findLine_view bs₁ d fo h₁, findLine_view bs₂ d fo h₂]

example : Res.view ex 2 (findLine 2 ex 3) = Res.view ex 3 (findLine 3 ex 3) :=
  findLine_bs_independent 2 3 ex 3 (by decide) (by decide)
example : Res.view ex 2 (findLine 2 ex 3) = some (5, [99, 100]) := by decide

/-! ### 5. the lines partition the file -/

/-- iterate `findLine` from `fo`, following the returned next offset -/
def allLinesFrom (bs : Nat) (d : Bytes) : Nat → Nat → List Bytes
  | 0, _ => []
  | fuel + 1, fo =>
    match findLine bs d fo with
    | .found foNext parts => partsBytes d bs parts :: allLinesFrom bs d fuel foNext
    | .done => []

/-- all lines of the file, as found by `findLine` from offset 0 -/
def allLines (bs : Nat) (d : Bytes) : List Bytes := allLinesFrom bs d d.length 0

theorem allLinesFrom_spec (bs : Nat) (d : Bytes) (hbs : 1 ≤ bs) :
    ∀ fuel fo, d.length - fo ≤ fuel → (fo = 0 ∨ d[fo - 1]? = some NL ∨ d.length ≤ fo) →
      (allLinesFrom bs d fuel fo).flatten = d.drop fo ∧
        ∀ l ∈ allLinesFrom bs d fuel fo, l ≠ [] := by
  intro fuel
  induction fuel with
  | zero =>
    intro fo h _
    simp only [allLinesFrom, List.flatten_nil, List.not_mem_nil, false_imp_iff, implies_true,
      and_true]
    rw [List.drop_eq_nil_of_le (by omega)]
  | succ fuel ih =>
    intro fo hfuel hst
    rcases Nat.lt_or_ge fo d.length with hfo | hfo
    · have hst' : fo = 0 ∨ d[fo - 1]? = some NL := by
        rcases hst with h | h | h
        · exact Or.inl h
        · exact Or.inr h
        · omega
      obtain ⟨parts, h1, h2⟩ := findLine_at_start bs d fo hbs hfo hst'
      have hle := le_lineEnd d fo hfo
      have hlt := lineEnd_lt d fo hfo
      have hnext : lineEnd d fo + 1 = 0 ∨ d[lineEnd d fo + 1 - 1]? = some NL ∨
          d.length ≤ lineEnd d fo + 1 := by
        rcases lineEnd_nl_or_last d fo hfo with h | h
        · exact Or.inr (Or.inl (by simpa using h))
        · exact Or.inr (Or.inr (by omega))
      obtain ⟨ih1, ih2⟩ := ih (lineEnd d fo + 1) (by omega) hnext
      simp only [allLinesFrom, h1]
      constructor
      · rw [List.flatten_cons, ih1, h2]
        have e : lineEnd d fo + 1 = fo + (lineEnd d fo + 1 - fo) := by omega
        conv => lhs; rhs; rw [e, ← List.drop_drop]
        exact List.take_append_drop _ _
      · intro l hl
        rcases List.mem_cons.mp hl with rfl | hl
        · rw [h2, ← List.length_pos_iff, List.length_take, List.length_drop]
          omega
        · exact ih2 l hl
    · simp only [allLinesFrom, S4V.Lemmas.Lines.findLine_done bs d fo hfo, List.flatten_nil,
        List.not_mem_nil, false_imp_iff, implies_true, and_true]
      rw [List.drop_eq_nil_of_le hfo]

theorem lines_partition (bs : Nat) (d : Bytes) (hbs : 1 ≤ bs) :
    (allLines bs d).flatten = d ∧ ∀ l ∈ allLines bs d, l ≠ [] := by
  have := allLinesFrom_spec bs d hbs d.length 0 (by omega) (Or.inl rfl)
  simpa [allLines] using this

example : allLines 2 ex = [[97, 98, 10], [99, 100]] := by decide
example : (allLines 2 ex).flatten = ex := (lines_partition 2 ex (by decide)).1

/-! ### 6. `findLineInBlock` is sound -/

/-- `.found`: it is the true line, as one part inside block `fo / bs` -/
theorem findLineInBlock_sound (bs : Nat) (d : Bytes) (fo n : Nat) (parts : List Part)
    (hbs : 1 ≤ bs) (h : findLineInBlock bs d fo = .found n parts) :
    n = lineEnd d fo + 1 ∧
      partsBytes d bs parts
        = (d.drop (lineStart d fo)).take (lineEnd d fo + 1 - lineStart d fo) ∧
      ∃ p, parts = [p] ∧ p.bo = fo / bs ∧ p.biBeg < p.biEnd ∧
        p.biEnd ≤ (blockAt d bs p.bo).length ∧ p.foBeg bs = lineStart d fo := by
  obtain ⟨h1, p, h2, h3, h4, _, h6, _, h8⟩ := findLineInBlock_found bs d fo n parts hbs h
  refine ⟨h1, h8.bytes, p, h2, h3, h4, ?_, h6⟩
  exact (Chain.inBounds d bs h8 p (by rw [h2]; exact List.mem_singleton.mpr rfl)).2

/-- `.part`: newline B is not in the block of `fo`; the line continues into the next block -/
theorem findLineInBlock_part (bs : Nat) (d : Bytes) (fo : Nat) (parts : List Part)
    (hbs : 1 ≤ bs) (h : findLineInBlock bs d fo = .part parts) :
    (fo / bs + 1) * bs ≤ lineEnd d fo :=
  S4V.Lemmas.Lines.findLineInBlock_part bs d fo parts hbs h

example : findLineInBlock 3 ex 1 = .found 3 [⟨0, 0, 3⟩] := by decide
example : 3 = lineEnd ex 1 + 1 :=
  (findLineInBlock_sound 3 ex 1 3 [⟨0, 0, 3⟩] (by decide) (by decide)).1
example : findLineInBlock 2 ex 1 = .part [⟨0, 0, 2⟩] := by decide
example : (1 / 2 + 1) * 2 ≤ lineEnd ex 1 :=
  findLineInBlock_part 2 ex 1 [⟨0, 0, 2⟩] (by decide) (by decide)

end S4V.Props.LinesSpec
