/-
C05 — the search strategy and the drop policy match what a one-way stream can answer.

`read_block_File{Gz,Bz2,Lz4}` decode forwards only and (look-back drop) keep just the highest block
decoded; a request for a block that was dropped ends in `Done`. `S4V.Props.StreamSpec` proves the
answers right for NON-DECREASING request sequences. This file ties that premise to what the
readers above do, through `BlockReader::is_streamed_file()`:

* `C05_streamed_table` — in the generated `is_streamed_file` table every (file type, archive) whose
  archive is one of the look-back-dropping kinds (generated `LOOKBACK_DROP_ARCHIVES` = bz2, gz, lz4)
  has the flag `true`; `C05_streamed_table_rest` — xz and tar `true`, plain and `Unparsable` `false`.
  Proved by `decide` over the generated table: a flipped row breaks the proof.
* `C05_streamed_search_is_linear`, `C05_search_on_streamed_ok` — with the generated choice
  (`searchIsLinear`: linear iff streamed) the datetime-filter search on such a file makes a linear
  trace, and every request of a linear trace gets the plain file's block (`C05_linear_on_stream_ok`,
  every kind, every chunking, every block size);
* `binary_on_stream_loses` — why the flag matters: a bisection trace on a gz / bz2 / lz4 reader gets
  `Done` for a block that exists (`C05_binary_on_stream_full_false`); the plain reader answers it;
* `C05_yearless_keep` — a year-less log is read backwards from the end: under the generated
  condition (`keepAllBlocks`: streamed ∧ no year) `disable_drop_data()` is called and the reader
  then answers EVERY request order (`C05_keep_any_order`); with drop left on the backwards trace
  loses blocks (`backward_on_stream_drop_loses`); with a year the drop stays on (`year_keeps_drop`).
* `lsearch_probes_increasing` / `lsearch_probe_blocks_linear` — bridge to `S4V.Model.Syslines`: the
  offsets at which the modelled linear search calls `find_sysline` are strictly increasing, so the
  blocks holding them form a linear trace.

The traces (`S4V.Model.StreamSearch`) are an abstract model at the level of block offsets; the
block accesses INSIDE one `find_sysline` call (line scan, the look at the following line) are not
modelled there — the line and message caches that serve them are covered by the correspondence of
C01/C04 and, end to end, by the multi-block oracle of C05.
-/
import S4V.Props.StreamSpec
import S4V.Lemmas.StreamKeep
import S4V.Lemmas.SyslFind
import S4V.Model.StreamSearch

namespace S4V.Props.StreamSearchSpec
open S4V.Gen.Blocks S4V.Gen.Stream S4V.Model.Lines S4V.Model.Stream S4V.Lemmas.Stream
  S4V.Lemmas.StreamKeep S4V.Model.StreamSearch S4V.Props.StreamSpec

/-! ### the table -/

/-- **C05_streamed_table**: every row whose archive kind drops behind itself says "streamed" —
for every file type; the rows exist for every file type; and those archive kinds are the model's
gz, bz2, lz4 -/
theorem C05_streamed_table :
    (∀ row ∈ IS_STREAMED_TABLE, row.2.1 ∈ LOOKBACK_DROP_ARCHIVES → row.2.2 = true)
    ∧ (∀ ft ∈ FILE_TYPES, ∀ a ∈ LOOKBACK_DROP_ARCHIVES, isStreamed ft a = some true)
    ∧ lookbackKinds = [.bz2, .gz, .lz4] := by decide

/-- what the table says for the other kinds: xz (decoded whole in `new`, blocks dropped by the
layers above cannot be decoded again) and tar `true`; a plain file and `Unparsable` `false`; and the
table is the full product file type × archive plus `Unparsable` -/
theorem C05_streamed_table_rest :
    (∀ ft ∈ FILE_TYPES, isStreamed ft "Xz" = some true ∧ isStreamed ft "Tar" = some true
      ∧ isStreamed ft "Normal" = some false)
    ∧ isStreamed "Unparsable" "" = some false
    ∧ IS_STREAMED_TABLE.map (fun r => (r.1, r.2.1))
        = (FILE_TYPES.flatMap fun ft => ARCHIVES.map fun a => (ft, a)) ++ [("Unparsable", "")] := by decide

/-- the look-back-dropping functions are the three stream decoders, and `read_block` sends
exactly bz2, gz, lz4 to them -/
theorem lookback_fns_dispatch :
    LOOKBACK_DROP_FNS = ["read_block_FileBz2", "read_block_FileGz", "read_block_FileLz4"]
    ∧ ∀ row ∈ READ_BLOCK_DISPATCH, (row.2.2 ∈ LOOKBACK_DROP_FNS ↔ row.2.1 ∈ LOOKBACK_DROP_ARCHIVES) := by decide

theorem decOk_of_lookback {kind : Kind} (h : kind ∈ lookbackKinds) (bs : Nat) (cs : List Nat) : DecOk kind bs cs := by
  rw [C05_streamed_table.2.2] at h
  simp only [List.mem_cons, List.not_mem_nil, or_false] at h
  rcases h with rfl | rfl | rfl
  · exact Or.inr (Or.inl rfl)
  · exact Or.inl rfl
  · exact Or.inr (Or.inr (Or.inl rfl))

theorem kind_mem_lookback {a : String} {kind : Kind} (ha : a ∈ LOOKBACK_DROP_ARCHIVES)
    (hk : kindOfArchive a = some kind) : kind ∈ lookbackKinds :=
  List.mem_filterMap.mpr ⟨a, ha, hk⟩

/-! ### linear search on a stream -/

theorem linearTrace_isLinear (k : Nat) : IsLinearTrace (linearTrace k) := range_pairwise _

/-- **C05_linear_on_stream_ok**: on a streamed reader — any of the look-back-dropping kinds, any
chunking of the decoder and of the size pre-pass, any block size, any content — every request of a
linear (non-decreasing) trace gets the plain file's answer -/
theorem C05_linear_on_stream_ok (kind : Kind) (hkind : kind ∈ lookbackKinds) (bs : Nat) (d : Bytes)
    (cs csPre : List Nat) (ks : List Nat) (hbs : 1 ≤ bs) (hlin : IsLinearTrace ks) :
    (readSeq (Rd.new kind bs d cs csPre) ks).1 = ks.map (specRes d bs)
    ∧ (readSeq (Rd.new kind bs d cs csPre) ks).1 = (readSeq (Rd.new .plain bs d [] []) ks).1 := by
  have hk := decOk_of_lookback hkind bs cs
  have h2 := C05_blocks_equal kind bs d cs csPre ks hbs hk hlin
  exact ⟨by rw [h2]; exact plain_any_order bs d ks hbs, h2⟩

/-- the hypotheses are satisfiable, and the conclusion is not vacuous -/
example : Kind.bz2 ∈ lookbackKinds := by decide
example : (readSeq (Rd.new .bz2 2 [1, 2, 3, 4, 5] [1, 3] [2]) (linearTrace 3)).1
    = [.found [1, 2], .found [3, 4], .found [5], .done] := by decide

/-- **C05_streamed_search_is_linear**: for every file type in a bz2 / gz / lz4 container the
generated choice of search, applied to the generated flag, is the linear one. Unfolds
`IS_STREAMED_TABLE`, `LOOKBACK_DROP_ARCHIVES` and `searchIsLinear`. -/
theorem C05_streamed_search_is_linear :
    ∀ ft ∈ FILE_TYPES, ∀ a ∈ LOOKBACK_DROP_ARCHIVES, (isStreamed ft a).map searchIsLinear = some true := by decide

/-- and for a plain file it is the binary one -/
theorem plain_search_is_binary :
    ∀ ft ∈ FILE_TYPES, (isStreamed ft "Normal").map searchIsLinear = some false := by decide

/-- **C05_search_on_streamed_ok**: file type `ft` in container `a` (bz2 / gz / lz4), the flag as the
table gives it, the search as the source chooses it: every block request of the datetime-filter
search is answered as the plain file would -/
theorem C05_search_on_streamed_ok (ft a : String) (hft : ft ∈ FILE_TYPES) (ha : a ∈ LOOKBACK_DROP_ARCHIVES)
    (kind : Kind) (hkind : kindOfArchive a = some kind) (streamed : Bool) (hs : isStreamed ft a = some streamed)
    (bs : Nat) (d : Bytes) (cs csPre : List Nat) (lin bin : List Nat) (hbs : 1 ≤ bs) (hlin : IsLinearTrace lin) :
    (readSeq (Rd.new kind bs d cs csPre) (searchTrace streamed lin bin)).1
      = (searchTrace streamed lin bin).map (specRes d bs) := by
  have h1 := C05_streamed_search_is_linear ft hft a ha
  rw [hs] at h1
  simp only [Option.map_some, Option.some.injEq] at h1
  unfold searchTrace
  rw [h1, if_pos rfl]
  exact (C05_linear_on_stream_ok kind (kind_mem_lookback ha hkind) bs d cs csPre lin hbs hlin).1

example : "Text" ∈ FILE_TYPES ∧ "Bz2" ∈ LOOKBACK_DROP_ARCHIVES ∧ kindOfArchive "Bz2" = some .bz2
    ∧ isStreamed "Text" "Bz2" = some true := by decide

/-! ### binary search on a stream: the counter-model -/

/-- "a streamed reader answers a bisection like the plain reader does" -/
def C05_binary_on_stream_full : Prop :=
  ∀ (kind : Kind), kind ∈ lookbackKinds → ∀ (bs : Nat) (d : Bytes) (t : Nat), 1 ≤ bs →
    t ≤ blockOffsetLast d.length bs →
    (readSeq (Rd.new kind bs d [] []) (binaryTrace (blockOffsetLast d.length bs) t)).1
      = (binaryTrace (blockOffsetLast d.length bs) t).map (specRes d bs)

/-- **binary_on_stream_loses**: 4 bytes, `bs = 1` (blocks 0 … 3), the message sought is in block 0:
the bisection asks for blocks `0, 1, 0`; decoding block 1 dropped block 0, and the second request
for it — a block that exists — is answered `Done`. Same for gz, bz2 and lz4; the plain reader
answers all three requests. -/
theorem binary_on_stream_loses :
    binaryTrace 3 0 = [0, 1, 0]
    ∧ (∀ kind ∈ lookbackKinds,
        (readSeq (Rd.new kind 1 [1, 2, 3, 4] [] []) (binaryTrace 3 0)).1 = [.found [1], .found [2], .done])
    ∧ (readSeq (Rd.new .plain 1 [1, 2, 3, 4] [] []) (binaryTrace 3 0)).1 = [.found [1], .found [2], .found [1]]
    ∧ specRes [1, 2, 3, 4] 1 0 = .found [1] := by decide

theorem C05_binary_on_stream_full_false : ¬ C05_binary_on_stream_full := by
  intro h
  have := h .gz (by decide) 1 [1, 2, 3, 4] 0 (by decide) (by decide)
  revert this
  decide

/-- a larger bisection: 8 blocks, target block 1 — probes `0, 3, 1`; block 1 was decoded on the way to
block 3 and dropped -/
example : binaryTrace 7 1 = [0, 3, 1] := by decide
example : (readSeq (Rd.new .bz2 2 [1, 2, 3, 4, 5, 6, 7, 8, 9, 10, 11, 12, 13, 14, 15] [] []) (binaryTrace 7 1)).1
    = [.found [1, 2], .found [7, 8], .done] := by decide

/-- with the flag `false` the source would pick the bisection: what a flipped row would cause -/
theorem flag_false_picks_binary (lin bin : List Nat) : searchTrace false lin bin = bin := by
  unfold searchTrace
  rw [if_neg (by decide)]

/-! ### the year-less log: read backwards, keep every block -/

/-- **C05_keep_any_order**: after `disable_drop_data()` a streamed reader answers every request
sequence, in ANY order, as the plain reader does (every chunking, block size, content) -/
theorem C05_keep_any_order (kind : Kind) (hkind : kind ∈ lookbackKinds) (bs : Nat) (d : Bytes)
    (cs csPre : List Nat) (ks : List Nat) (hbs : 1 ≤ bs) :
    (readSeq (Rd.new kind bs d cs csPre).disableDropData ks).1 = ks.map (specRes d bs) := by
  obtain ⟨h, e⟩ := KInv.new kind bs d cs csPre hbs (decOk_of_lookback hkind bs cs)
  have := readSeq_keep d ks _ 0 h
  rw [e] at this
  exact this

/-- the backwards trace with `drop_data` left on: only the last block is answered -/
theorem backward_on_stream_drop_loses :
    backwardTrace 2 = [2, 1, 0]
    ∧ (∀ kind ∈ lookbackKinds,
        (readSeq (Rd.new kind 1 [1, 2, 3] [] []) (backwardTrace 2)).1 = [.found [3], .done, .done])
    ∧ (∀ kind ∈ lookbackKinds,
        (readSeq (Rd.new kind 1 [1, 2, 3] [] []).disableDropData (backwardTrace 2)).1
          = [.found [3], .found [2], .found [1]]) := by decide

/-- "with `drop_data` on, the backwards pass is answered" — false -/
def C05_backward_with_drop_full : Prop :=
  ∀ (kind : Kind), kind ∈ lookbackKinds → ∀ (bs : Nat) (d : Bytes), 1 ≤ bs →
    (readSeq (Rd.new kind bs d [] []) (backwardTrace (blockOffsetLast d.length bs))).1
      = (backwardTrace (blockOffsetLast d.length bs)).map (specRes d bs)

theorem C05_backward_with_drop_full_false : ¬ C05_backward_with_drop_full := by
  intro h
  have := h .gz (by decide) 1 [1, 2, 3] (by decide)
  revert this
  decide

/-- the generated condition, applied to the generated flag: for every file type in a bz2 / gz / lz4
container without a year in its timestamps every block is kept -/
theorem yearless_streamed_keeps_all :
    ∀ ft ∈ FILE_TYPES, ∀ a ∈ LOOKBACK_DROP_ARCHIVES,
      (isStreamed ft a).map (fun s => keepAllBlocks s false) = some true := by decide

/-- with a year, or for a plain file, `drop_data` stays on (memory stays bounded: C17) -/
theorem year_keeps_drop (s : Bool) : keepAllBlocks s true = false ∧ keepAllBlocks false s = false := by
  cases s <;> decide

/-- **C05_yearless_keep**: file type `ft` in container `a` (bz2 / gz / lz4), no year in the
timestamps, the flag as the table gives it, `disable_drop_data()` as the source conditions it:
every request order — the backwards year pass in particular — is answered as the plain file would -/
theorem C05_yearless_keep (ft a : String) (hft : ft ∈ FILE_TYPES) (ha : a ∈ LOOKBACK_DROP_ARCHIVES)
    (kind : Kind) (hkind : kindOfArchive a = some kind) (streamed : Bool) (hs : isStreamed ft a = some streamed)
    (bs : Nat) (d : Bytes) (cs csPre : List Nat) (ks : List Nat) (hbs : 1 ≤ bs) :
    (readSeq (afterBlockzero (Rd.new kind bs d cs csPre) streamed false) ks).1 = ks.map (specRes d bs)
    ∧ (readSeq (afterBlockzero (Rd.new kind bs d cs csPre) streamed false) (backwardTrace (blockOffsetLast d.length bs))).1
        = (backwardTrace (blockOffsetLast d.length bs)).map (specRes d bs) := by
  have h1 := yearless_streamed_keeps_all ft hft a ha
  rw [hs] at h1
  simp only [Option.map_some, Option.some.injEq] at h1
  unfold afterBlockzero
  rw [h1, if_pos rfl]
  have hk := kind_mem_lookback ha hkind
  exact ⟨C05_keep_any_order kind hk bs d cs csPre ks hbs, C05_keep_any_order kind hk bs d cs csPre _ hbs⟩

example : (readSeq (afterBlockzero (Rd.new .lz4 2 [1, 2, 3, 4, 5] [1, 1, 2] [3]) true false) (backwardTrace 2)).1
    = [.found [5], .found [3, 4], .found [1, 2]] := by decide
/-- with a year the reader is left as it was: the backwards trace would lose blocks, but no
backwards pass is made for such a log -/
example : (readSeq (afterBlockzero (Rd.new .lz4 2 [1, 2, 3, 4, 5] [] []) true true) (backwardTrace 2)).1
    = [.found [5], .done, .done] := by decide

/-- `FixedStructReader::new` keeps every block of a streamed file (records are visited in time
order after the scan) -/
theorem fixedstruct_streamed_keeps_all :
    ∀ ft ∈ FILE_TYPES, ∀ a ∈ LOOKBACK_DROP_ARCHIVES, (isStreamed ft a).map fixedstructKeepAllBlocks = some true := by decide

/-! ### bridge to the model of `SyslineReader` -/

open S4V.Model.Syslines S4V.Lemmas.Syslines in
/-- a `find_sysline(fo)` that finds a message returns an offset beyond `fo` -/
theorem findSysline_advances {ls : List LineInfo} (hwf : WFLines ls) {fo fo' : Nat} {s : Sysl}
    (h : findSysline ls fo = .found fo' s) : fo < fo' := by
  rw [findSysline_eq hwf] at h
  unfold fsM at h
  split at h
  · rename_i m hm
    have := List.find?_some hm
    simp only [decide_eq_true_eq] at this
    cases h
    omega
  · cases h

open S4V.Model.Syslines S4V.Lemmas.Syslines in
/-- **lsearch_probes_increasing**: the file offsets at which the linear datetime-filter search calls
`find_sysline` are strictly increasing (every well-formed line list, every filter) -/
theorem lsearch_probes_increasing {ls : List LineInfo} (hwf : WFLines ls) (flt : Option Int) :
    ∀ (fuel fo : Nat), (lsearchProbes ls flt fuel fo).Pairwise (· < ·)
      ∧ ∀ x ∈ lsearchProbes ls flt fuel fo, fo ≤ x := by
  intro fuel
  induction fuel with
  | zero => intro fo; exact ⟨List.Pairwise.nil, fun x hx => by cases hx⟩
  | succ fuel ih =>
    intro fo
    unfold lsearchProbes
    cases hf : findSysline ls fo with
    | found fo' s =>
      have hlt := findSysline_advances hwf hf
      simp only
      cases hdt : S4V.Gen.Filter.dtAfterOrBefore s.dt flt with
      | OccursBefore =>
        obtain ⟨i1, i2⟩ := ih fo'
        simp only
        refine ⟨List.pairwise_cons.mpr ⟨fun x hx => by have := i2 x hx; omega, i1⟩, ?_⟩
        intro x hx
        rcases List.mem_cons.mp hx with rfl | hx
        · exact Nat.le_refl _
        · have := i2 x hx; omega
      | _ => simp
    | _ => simp

open S4V.Model.Syslines S4V.Lemmas.Syslines in
/-- the blocks holding those offsets form a linear trace, at every block size -/
theorem lsearch_probe_blocks_linear {ls : List LineInfo} (hwf : WFLines ls) (flt : Option Int) (fuel fo bs : Nat) :
    IsLinearTrace ((lsearchProbes ls flt fuel fo).map (blockOffsetAtFileOffset · bs)) := by
  unfold IsLinearTrace
  rw [List.pairwise_map]
  exact List.Pairwise.imp (fun h => Nat.div_le_div_right (Nat.le_of_lt h)) (lsearch_probes_increasing hwf flt fuel fo).1

open S4V.Model.Syslines in
/-- three messages, filter after the second: probes at 0, 4, 8 -/
example : lsearchProbes [⟨0, 3, some 10⟩, ⟨4, 7, some 20⟩, ⟨8, 11, some 30⟩] (some 25) 5 0 = [0, 4, 8] := by decide
open S4V.Model.Syslines S4V.Lemmas.Syslines in
example : WFLines [⟨0, 3, some 10⟩, ⟨4, 7, some 20⟩, ⟨8, 11, some 30⟩] := by decide

end S4V.Props.StreamSearchSpec
