/-
Property C08, the part about WHICH time value orders and filters an accounting record:

  the value `preprocess_timevalues` keys its map with (`tv_pair_from_buffer` of the `size_tv()` bytes
  at `offset_tv()`) is the value of the record's time FIELD, read with the type the struct
  definition declares for it, at the offset the `#[repr(C, ..)]` field list gives it — for every
  `FixedStructType` layout.

Everything about the layouts comes from the GENERATED table `S4V.Gen.Fixed.layouts`
(regenerated from src/data/fixedstruct.rs on every run). `C08_tv_types_agree` and
`layouts_wellformed` are decided over that table: if `tv_pair_from_buffer` starts reading a
field with another primitive type than declared (say `ac_btime: u32` as `i32`), or another offset /
size, the table changes and these proofs — and everything below that rests on them — stop
compiling. `signed_read_of_unsigned_misorders` shows what such a change does.
-/
import S4V.Model.Fixed
import S4V.Props.SortSpec

namespace S4V.Props.FixedSpec
open S4V.Gen.Fixed S4V.Model.Fixed
open S4V.Model.SortDrain
open S4V.Props.SortSpec (C08_order)

/-! ### F1: the table -/

/-- (a) for every layout: the primitive type(s) used for ORDERING are the declared type(s) of the
struct's time field, `offset_tv()` is that field's offset, `size_tv()` its size, and both sides
use the same byte order -/
theorem C08_tv_types_agree :
    ∀ l ∈ layouts, l.read = l.decl ∧ l.offsetTv = l.fieldOffset ∧ l.sizeTv = l.decl.size
      ∧ readByteOrder = structByteOrder := by decide

/-- the primitives that occur: widening them to `tv_sec_type` / `tv_usec_type` (i64) cannot fail -/
def primOk (p : Prim) : Bool := p == ⟨true, 8⟩ || p == ⟨true, 4⟩ || p == ⟨false, 4⟩

def shapeOk (s : TvShape) : Bool :=
  primOk s.sec && decide (s.secOff + s.sec.bytes ≤ s.size)
  && (match s.usec with
      | none => true
      | some (p, off) => primOk p && decide (off + p.bytes ≤ s.size))

/-- every layout: the time value lies inside the record, the type read fits the `size_tv()` bytes,
seconds / microseconds lie inside the time value and are i64, i32 or u32 -/
theorem layouts_wellformed :
    ∀ l ∈ layouts, shapeOk l.read = true ∧ shapeOk l.decl = true
      ∧ l.offsetTv + l.sizeTv ≤ l.size ∧ l.read.size = l.sizeTv
      ∧ l.fieldOffset + l.decl.size ≤ l.size := by decide

theorem widening_is_to_i64 : tvSecType = ⟨true, 8⟩ ∧ tvUsecType = ⟨true, 8⟩ := by decide

theorem sixteen_layouts : layouts.length = 16 ∧ (layouts.map (·.name)).Nodup := by decide

/-! ### F2: decoding -/

theorem leNat_lt (bs : Bytes) : leNat bs < 256 ^ bs.length := by
  induction bs with
  | nil => simp [leNat]
  | cons b r ih =>
    have hb := b.toNat_lt
    simp only [leNat, List.length_cons, Nat.pow_succ]
    omega

theorem ordered_length (o : ByteOrder) (bs : Bytes) : (ordered o bs).length = bs.length := by
  cases o <;> simp [ordered] <;> split <;> simp

theorem slice_length (bs : Bytes) (off len : Nat) (h : off + len ≤ bs.length) :
    (slice bs off len).length = len := by
  simp [slice]; omega

theorem slice_slice (bs : Bytes) (a n b m : Nat) (h : b + m ≤ n) :
    slice (slice bs a n) b m = slice bs (a + b) m := by
  simp only [slice, List.drop_take, List.take_take, List.drop_drop]
  congr 1
  omega

/-- a stored i64 / i32 / u32 always converts to i64 -/
theorem fits_decode (o : ByteOrder) (p : Prim) (bs : Bytes) (hp : primOk p = true)
    (hl : bs.length = p.bytes) : fits ⟨true, 8⟩ (decodePrim o p bs) = true := by
  have hlt := leNat_lt (ordered o bs)
  rw [ordered_length, hl] at hlt
  simp only [primOk, Bool.or_eq_true, beq_iff_eq] at hp
  rcases hp with (rfl | rfl) | rfl
  · have h8 : (256 : Nat) ^ 8 = 18446744073709551616 := by decide
    simp only [h8] at hlt
    simp only [fits, decodePrim, ofStored]
    split <;> simp_all <;> omega
  · have h4 : (256 : Nat) ^ 4 = 4294967296 := by decide
    simp only [h4] at hlt
    simp only [fits, decodePrim, ofStored]
    split <;> simp_all <;> omega
  · have h4 : (256 : Nat) ^ 4 = 4294967296 := by decide
    simp only [h4] at hlt
    simp only [fits, decodePrim, ofStored]
    simp
    omega

/-- an unsigned 32-bit field: the value is the stored number, in `[0, 2^32)` -/
theorem decode_u32 (o : ByteOrder) (bs : Bytes) (hl : bs.length = 4) :
    decodePrim o ⟨false, 4⟩ bs = (leNat (ordered o bs) : Int)
      ∧ 0 ≤ decodePrim o ⟨false, 4⟩ bs ∧ decodePrim o ⟨false, 4⟩ bs < 4294967296 := by
  have hlt := leNat_lt (ordered o bs)
  rw [ordered_length, hl] at hlt
  have h4 : (256 : Nat) ^ 4 = 4294967296 := by decide
  simp only [h4] at hlt
  simp [decodePrim, ofStored]
  omega

/-- reading a time value of a well-formed shape from enough bytes always succeeds and yields the
stored seconds and microseconds -/
theorem readTv_eq (o : ByteOrder) (s : TvShape) (buf : Bytes) (hs : shapeOk s = true)
    (hlen : s.size ≤ buf.length) :
    readTv o s buf = some (decodePrim o s.sec (slice buf s.secOff s.sec.bytes),
      match s.usec with
      | none => 0
      | some (p, off) => decodePrim o p (slice buf off p.bytes)) := by
  obtain ⟨size, sec, secOff, usec⟩ := s
  simp only [shapeOk, Bool.and_eq_true, decide_eq_true_eq] at hs
  obtain ⟨⟨hsec, hso⟩, hu⟩ := hs
  have hl1 : (slice buf secOff sec.bytes).length = sec.bytes :=
    slice_length _ _ _ (by simp only at hlen; omega)
  have hf1 := fits_decode o sec _ hsec hl1
  have hts : tvSecType = ⟨true, 8⟩ := by decide
  have htu : tvUsecType = ⟨true, 8⟩ := by decide
  cases usec with
  | none => simp [readTv, readAt, hl1, hts, hf1]
  | some pu =>
    obtain ⟨p, off⟩ := pu
    simp only [Bool.and_eq_true, decide_eq_true_eq] at hu
    have hl2 : (slice buf off p.bytes).length = p.bytes :=
      slice_length _ _ _ (by simp only at hlen; omega)
    have hf2 := fits_decode o p _ hu.1 hl2
    simp [readTv, readAt, hl1, hl2, hts, htu, hf1, hf2]

/-! ### F3: the ordering value is the declared field's value -/

/-- (b) for every layout and every record of the layout's size, the time value used for ordering
and filtering exists and is: (seconds stored in the time field, read with the DECLARED type at the
DECLARED offset; microseconds likewise, 0 for a scalar time field) -/
theorem C08_tv_denotes (l : Layout) (hl : l ∈ layouts) (record : Bytes)
    (hsz : record.length = l.size) :
    tvPair l record = some (fieldSec l record, fieldUsec l record) := by
  obtain ⟨hrd, hoff, hsize, hord⟩ := C08_tv_types_agree l hl
  obtain ⟨hsr, _, hin, hrs, _⟩ := layouts_wellformed l hl
  have hlen : (slice record l.offsetTv l.sizeTv).length = l.sizeTv :=
    slice_length _ _ _ (by omega)
  have hbound : l.read.size ≤ (slice record l.offsetTv l.sizeTv).length := by omega
  have hb' : l.read.size ≤ l.sizeTv := by omega
  simp only [tvPair, hsz, tvPairFromBuffer, hlen, hb', and_self, if_true]
  rw [readTv_eq _ _ _ hsr hbound]
  have hso : l.read.secOff + l.read.sec.bytes ≤ l.sizeTv := by
    have := hsr
    simp only [shapeOk, Bool.and_eq_true, decide_eq_true_eq] at this
    omega
  rw [slice_slice _ _ _ _ _ hso]
  simp only [fieldSec, fieldUsec, ← hrd, ← hoff, ← hord]
  congr 2
  cases hu : l.read.usec with
  | none => rfl
  | some pu =>
    obtain ⟨p, off⟩ := pu
    have huo : off + p.bytes ≤ l.sizeTv := by
      have := hsr
      simp only [shapeOk, hu, Bool.and_eq_true, decide_eq_true_eq] at this
      omega
    simp only
    rw [slice_slice _ _ _ _ _ huo]

/-- the same against the model of the printing side: ordering value = what the struct field holds -/
theorem C08_tv_eq_fieldTv (l : Layout) (hl : l ∈ layouts) (record : Bytes)
    (hsz : record.length = l.size) : tvPair l record = fieldTv l record := by
  obtain ⟨hrd, hoff, hsize, hord⟩ := C08_tv_types_agree l hl
  obtain ⟨_, _, hin, hrs, _⟩ := layouts_wellformed l hl
  have hlen : (slice record l.offsetTv l.sizeTv).length = l.sizeTv :=
    slice_length _ _ _ (by omega)
  have hb' : l.read.size ≤ l.sizeTv := by omega
  simp only [tvPair, fieldTv, hsz, tvPairFromBuffer, hlen, hb', and_self, if_true]
  rw [← hrd, ← hoff, ← hord, hrs]

-- non-vacuity: a Linux acct_v3 record whose `ac_btime` (u32 at 24) is 2^31 + 5, post-2038
example :
    let l := (layoutNamed "Fs_Linux_x86_Acct_v3").getD default
    let r : Bytes := List.replicate 24 7 ++ [5, 0, 0, 128] ++ List.replicate 36 9
    (layoutNamed "Fs_Linux_x86_Acct_v3").isSome ∧ r.length = l.size ∧ tvPair l r = some (2147483653, 0)
      ∧ fieldSec l r = 2147483653 ∧ fieldUsec l r = 0 := by decide

-- a Linux utmpx record: `ut_tv` = {tv_sec: i32 @340, tv_usec: i32 @344}; seconds -2, microseconds 10^6
set_option maxRecDepth 8192 in
example :
    let l := (layoutNamed "Fs_Linux_x86_Utmpx").getD default
    let r : Bytes := List.replicate 340 1 ++ [254, 255, 255, 255, 64, 66, 15, 0] ++ List.replicate 36 0
    (layoutNamed "Fs_Linux_x86_Utmpx").isSome ∧ r.length = l.size ∧ tvPair l r = some (-2, 1000000) := by decide

/-- for a layout whose time field is declared unsigned 32-bit (`ac_btime` of Linux acct / acct_v3): the
ordering value is the stored number itself, lies in `[0, 2^32)`, microseconds are 0 -/
theorem C08_tv_unsigned_range (l : Layout) (hl : l ∈ layouts) (hu : l.decl.sec = ⟨false, 4⟩)
    (record : Bytes) (hsz : record.length = l.size) :
    ∃ v : Int, tvPair l record = some (v, fieldUsec l record) ∧ v = (storedSec l record : Int)
      ∧ 0 ≤ v ∧ v < 4294967296 := by
  refine ⟨fieldSec l record, C08_tv_denotes l hl record hsz, ?_⟩
  obtain ⟨_, hsd, _, _, hfin⟩ := layouts_wellformed l hl
  have hso : l.decl.secOff + l.decl.sec.bytes ≤ l.decl.size := by
    have := hsd
    simp only [shapeOk, Bool.and_eq_true, decide_eq_true_eq] at this
    omega
  have hlen : (slice record (l.fieldOffset + l.decl.secOff) l.decl.sec.bytes).length = 4 := by
    rw [slice_length _ _ _ (by omega), hu]
  have := decode_u32 structByteOrder _ hlen
  simp only [fieldSec, storedSec, hu] at this ⊢
  exact this

/-- monotone in the stored value: of two records of such a layout, the one storing the smaller
number has the smaller ordering value — also across 2^31 -/
theorem C08_tv_monotone_unsigned (l : Layout) (hl : l ∈ layouts) (hu : l.decl.sec = ⟨false, 4⟩)
    (r₁ r₂ : Bytes) (h₁ : r₁.length = l.size) (h₂ : r₂.length = l.size) :
    ∃ v₁ v₂ u₁ u₂ : Int, tvPair l r₁ = some (v₁, u₁) ∧ tvPair l r₂ = some (v₂, u₂)
      ∧ (storedSec l r₁ < storedSec l r₂ ↔ v₁ < v₂) ∧ (storedSec l r₁ = storedSec l r₂ ↔ v₁ = v₂) := by
  obtain ⟨v₁, e₁, s₁, _, _⟩ := C08_tv_unsigned_range l hl hu r₁ h₁
  obtain ⟨v₂, e₂, s₂, _, _⟩ := C08_tv_unsigned_range l hl hu r₂ h₂
  refine ⟨v₁, v₂, _, _, e₁, e₂, ?_, ?_⟩ <;> omega

-- the hypothesis is satisfiable: exactly the two Linux acct layouts declare an unsigned 32-bit time
example : (layouts.filter fun l => l.decl.sec == ⟨false, 4⟩).map (·.name)
    = ["Fs_Linux_x86_Acct", "Fs_Linux_x86_Acct_v3"] := by decide

/-! ### F4: what a signed read of an unsigned field does -/

/-- little-endian bytes of a 32-bit number -/
def le32 (n : Nat) : Bytes :=
  [UInt8.ofNat n, UInt8.ofNat (n / 256), UInt8.ofNat (n / 65536), UInt8.ofNat (n / 16777216)]

/-- a 64-byte acct_v3 record with `ac_version` 3 and `ac_btime` = `n` -/
def acctV3Rec (n : Nat) : Bytes := [0, 3] ++ List.replicate 22 0 ++ le32 n ++ List.replicate 36 0

/-- the acct_v3 layout as generated, and as it would be generated if `tv_pair_from_buffer` read
`ac_btime` with the (equally wide) signed `ll_time_t` -/
def acctV3 : Layout := (layoutNamed "Fs_Linux_x86_Acct_v3").getD default
def acctV3SignedRead : Layout := { acctV3 with read := { acctV3.read with sec := ⟨true, 4⟩ } }

/-- a layout found by name is a row of the table -/
theorem layoutNamed_mem {n : String} {l : Layout} (h : layoutNamed n = some l) : l ∈ layouts :=
  List.mem_of_find?_eq_some h

theorem acctV3_mem : acctV3 ∈ layouts := by
  have hs : (layoutNamed "Fs_Linux_x86_Acct_v3").isSome = true := by decide
  unfold acctV3
  cases h : layoutNamed "Fs_Linux_x86_Acct_v3" with
  | none => simp [h] at hs
  | some l => exact layoutNamed_mem h

/-- (c) counter-model. Record 0 stores 2^31 (19 Jan 2038 03:14:08), record 1 stores 2^31 − 1.
Declared type u32: record 1 is earlier, print order [1, 0], `-a 1` keeps both.
Read as i32: record 0 becomes −2^31, sorts FIRST, and any `-a` bound drops it — while the printing
side (declared type) still shows 2147483648. -/
theorem signed_read_of_unsigned_misorders :
    let file := [acctV3Rec (2 ^ 31), acctV3Rec (2 ^ 31 - 1)]
    acctV3.name = "Fs_Linux_x86_Acct_v3"
    ∧ decodePrim .native ⟨false, 4⟩ (le32 (2 ^ 31 - 1)) < decodePrim .native ⟨false, 4⟩ (le32 (2 ^ 31))
    ∧ decodePrim .native ⟨true, 4⟩ (le32 (2 ^ 31)) < decodePrim .native ⟨true, 4⟩ (le32 (2 ^ 31 - 1))
    ∧ tvPair acctV3 (acctV3Rec (2 ^ 31)) = some (2147483648, 0)
    ∧ tvPair acctV3SignedRead (acctV3Rec (2 ^ 31)) = some (-2147483648, 0)
    ∧ fieldTv acctV3SignedRead (acctV3Rec (2 ^ 31)) = some (2147483648, 0)
    ∧ fixedPrint (recsFrom (tvPair acctV3) 0 file) none none = [1, 0]
    ∧ fixedPrint (recsFrom (tvPair acctV3SignedRead) 0 file) none none = [0, 1]
    ∧ fixedPrint (recsFrom (tvPair acctV3) 0 file) (some (1, 0)) none = [1, 0]
    ∧ fixedPrint (recsFrom (tvPair acctV3SignedRead) 0 file) (some (1, 0)) none = [1]
    ∧ ¬ (acctV3SignedRead.read = acctV3SignedRead.decl) := by decide

/-! ### F5: connection to the sort model -/

theorem recsFrom_idx_ge (tv : Bytes → Option (Int × Int)) (file : List Bytes) (i : Nat) :
    ∀ r ∈ recsFrom tv i file, i ≤ r.idx := by
  induction file generalizing i with
  | nil => simp [recsFrom]
  | cons x xs ih =>
    intro r hr
    simp only [recsFrom] at hr
    split at hr
    · rcases List.mem_cons.1 hr with rfl | h
      · exact Nat.le_refl _
      · have := ih (i + 1) r h; omega
    · have := ih (i + 1) r hr; omega

theorem recsFrom_pairwise (tv : Bytes → Option (Int × Int)) (file : List Bytes) (i : Nat) :
    (recsFrom tv i file).Pairwise (fun r s => r.idx < s.idx) := by
  induction file generalizing i with
  | nil => simp [recsFrom]
  | cons x xs ih =>
    simp only [recsFrom]
    split
    · refine List.pairwise_cons.2 ⟨?_, ih (i + 1)⟩
      intro s hs
      have := recsFrom_idx_ge tv xs (i + 1) s hs
      simp only
      omega
    · exact ih (i + 1)

/-- with the declared-field reading, no record of the right size is skipped for lack of a time value -/
theorem recsFrom_tvPair (l : Layout) (hl : l ∈ layouts) (file : List Bytes)
    (hsz : ∀ r ∈ file, r.length = l.size) (i : Nat) :
    recsFrom (tvPair l) i file
      = recsFrom (fun r => some (fieldSec l r, fieldUsec l r)) i file := by
  induction file generalizing i with
  | nil => rfl
  | cons x xs ih =>
    have hx := C08_tv_denotes l hl x (hsz x List.mem_cons_self)
    simp only [recsFrom, hx]
    rw [ih (fun r hr => hsz r (List.mem_cons_of_mem _ hr))]

/-- (d) C08 over the record BYTES: for every layout, a file of records of the layout's size is
printed as: the records whose DECLARED time field is not (0, 0) and lies within the window, stably
sorted by that field's value -/
theorem C08_file_order (l : Layout) (hl : l ∈ layouts) (file : List Bytes)
    (hsz : ∀ r ∈ file, r.length = l.size) (a b : Option (Int × Int)) :
    filePrint l file a b =
      (stableSort (fun r => (r.tv.1, r.tv.2, 0))
        ((recsFrom (fun r => some (fieldSec l r, fieldUsec l r)) 0 file).filter (fixedKeep a b))).map (·.idx) := by
  unfold filePrint
  rw [recsFrom_tvPair l hl file hsz]
  exact C08_order (recsFrom_pairwise _ _ _) a b

theorem key_is_tvPair_of_record_slice : keyIsTvPairOfRecordSlice = true := by decide

-- three acct_v3 records: 2^31 + 1, 2^31 − 1, and a null time; window from 2^31 − 1
example :
    let file := [acctV3Rec (2 ^ 31 + 1), acctV3Rec (2 ^ 31 - 1), acctV3Rec 0, acctV3Rec (2 ^ 31 - 2)]
    (∀ r ∈ file, r.length = acctV3.size)
    ∧ filePrint acctV3 file none none = [3, 1, 0]
    ∧ filePrint acctV3 file (some (2147483647, 0)) none = [1, 0]
    ∧ filePrint acctV3 file none (some (2147483647, 0)) = [3, 1] := by decide

end S4V.Props.FixedSpec
