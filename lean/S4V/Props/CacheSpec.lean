/-
Property theorems for the cached `LineReader::find_line` model
(`S4V.Model.LinesCached`): the caches (LRU, `lines`, `foend_to_fobeg`, shortcuts
A1a / A1b) are TRANSPARENT. For every byte string, every history of `find` /
`drop` operations and every block size, every `find` answers exactly what a
fresh cache-free lookup answers, i.e. the true line containing the offset.

All proofs appeal to `S4V.Lemmas.LinesCached`; this file holds the readable
statements. Core Lean only.
-/
import S4V.Lemmas.LinesCached
import S4V.Props.LinesSpec

namespace S4V.Props.CacheSpec
open S4V.Model.Lines S4V.Model.LinesCached
open S4V.Props.LinesSpec (findLine_spec findLine_done contiguous_of_chain Contiguous)

private abbrev L.Inv := @S4V.Lemmas.LinesCached.Inv

/-- running examples: `"ab\ncd\n"` and `"ab\n\ncd\n"` (has a one-byte line at 3) -/
def ex1 : Bytes := [97, 98, 10, 99, 100, 10]
def ex2 : Bytes := [97, 98, 10, 10, 99, 100, 10]

/-! ### 1. the invariant -/

/-- `(b, e)` are the bounds (first byte, last byte) of a line of `d` -/
def TrueLine (d : Bytes) (b e : Nat) : Prop :=
  e < d.length ∧ lineStart d e = b ∧ lineEnd d b = e

instance (d : Bytes) (b e : Nat) : Decidable (TrueLine d b e) := by
  unfold TrueLine; exact inferInstance

/-- a true line is exactly: starts at 0 or after a newline, ends with a newline or
at the end of the file, and has no newline before its last byte -/
theorem trueLine_iff (d : Bytes) (b e : Nat) :
    TrueLine d b e ↔
      b ≤ e ∧ e < d.length ∧ (b = 0 ∨ d[b - 1]? = some NL) ∧
        (d[e]? = some NL ∨ e = d.length - 1) ∧ ∀ k, b ≤ k → k < e → d[k]? ≠ some NL := by
  constructor
  · intro h
    have hle : b ≤ e := S4V.Lemmas.LinesCached.IsLine.le h
    obtain ⟨h1, h2, h3⟩ := h
    have hb : b < d.length := by omega
    have hs := LinesSpec.lineStart_zero_or_nl d e
    have he := LinesSpec.lineEnd_nl_or_last d b hb
    rw [h2] at hs; rw [h3] at he
    refine ⟨hle, h1, hs, he, ?_⟩
    intro k hk1 hk2
    have := LinesSpec.no_nl_in_line d e h1 k (by omega)
      (by have := LinesSpec.le_lineEnd d e h1; omega)
    exact this
  · rintro ⟨h1, h2, h3, h4, h5⟩
    refine ⟨h2, ?_, ?_⟩
    · exact LinesSpec.lineStart_unique d e b h1 h3 h5
    · exact LinesSpec.lineEnd_unique d b e h1 h2 h4 h5

/-- every offset of a true line has that line's bounds -/
theorem TrueLine.of_mem {d : Bytes} {b e fo : Nat} (h : TrueLine d b e) (h1 : b ≤ fo)
    (h2 : fo ≤ e) : lineStart d fo = b ∧ lineEnd d fo = e :=
  S4V.Lemmas.LinesCached.IsLine.of_mem h h1 h2

/-- the invariant of the caches of a reader of file `d` -/
structure Inv (d : Bytes) (s : Store) : Prop where
  /-- every stored line is a true line of the file -/
  lines_true : ∀ b e, (b, e) ∈ s.lines → TrueLine d b e
  /-- the keys (begin offsets) of `lines` are distinct -/
  lines_keys : s.lines.Pairwise (fun p q => p.1 ≠ q.1)
  /-- every (end, begin) ever recorded is a true line (never pruned, so dropped
  lines may still be mentioned) -/
  ends_true : ∀ e b, (e, b) ∈ s.endToBeg → TrueLine d b e
  /-- a stored line has its end recorded -/
  lines_ends : ∀ b e, (b, e) ∈ s.lines → (e, b) ∈ s.endToBeg
  /-- every LRU entry is the cache-free answer -/
  lru_true : ∀ fo r, (fo, r) ∈ s.lru → r = findLinePlain d fo
  lru_len : s.lru.length ≤ lruCap
  /-- LRU keys (requested offsets) are distinct -/
  lru_keys : s.lru.Pairwise (fun p q => p.1 ≠ q.1)

theorem inv_iff (d : Bytes) (s : Store) : Inv d s ↔ L.Inv d s := by
  constructor
  · intro h
    exact {
      lines_true := fun p hp => h.lines_true p.1 p.2 hp
      lines_keys := h.lines_keys
      ends_true := fun p hp => h.ends_true p.1 p.2 hp
      lines_ends := fun p hp => h.lines_ends p.1 p.2 hp
      lru_true := fun p hp => h.lru_true p.1 p.2 hp
      lru_len := h.lru_len
      lru_keys := h.lru_keys }
  · intro h
    exact {
      lines_true := fun b e hp => h.lines_true (b, e) hp
      lines_keys := h.lines_keys
      ends_true := fun e b hp => h.ends_true (e, b) hp
      lines_ends := fun b e hp => h.lines_ends (b, e) hp
      lru_true := fun fo r hp => h.lru_true (fo, r) hp
      lru_len := h.lru_len
      lru_keys := h.lru_keys }

theorem inv_empty (d : Bytes) : Inv d empty :=
  (inv_iff d empty).mpr (S4V.Lemmas.LinesCached.inv_empty d)

example : Inv ex1 empty := inv_empty ex1
example : TrueLine ex1 3 5 := by decide
example : ¬ TrueLine ex1 0 3 := by decide

/-! ### `leastEndGE` on a set of true lines -/

/-- `foend_to_fobeg.range(fo..).next()` returns a member with the least end `≥ fo` -/
theorem leastEndGE_some {m : List (Nat × Nat)} {fo : Nat} {x : Nat × Nat}
    (h : leastEndGE m fo = some x) : x ∈ m ∧ fo ≤ x.1 ∧ ∀ y ∈ m, fo ≤ y.1 → x.1 ≤ y.1 :=
  S4V.Lemmas.LinesCached.leastEndGE_some h

theorem leastEndGE_none {m : List (Nat × Nat)} {fo : Nat} (h : leastEndGE m fo = none) :
    ∀ y ∈ m, y.1 < fo :=
  S4V.Lemmas.LinesCached.leastEndGE_none h

/-- if all entries are true lines, the entry found is THE line containing `fo`,
or lies entirely after `fo` -/
theorem leastEndGE_true_line {d : Bytes} {m : List (Nat × Nat)} {fo e b : Nat}
    (hm : ∀ p ∈ m, TrueLine d p.2 p.1) (h : leastEndGE m fo = some (e, b)) :
    (b ≤ fo ∧ fo ≤ e ∧ lineStart d fo = b ∧ lineEnd d fo = e) ∨ fo < b :=
  S4V.Lemmas.LinesCached.leastEndGE_true_line hm h

/-- if all entries are true lines and the line containing `fo` was ever stored,
it is the entry found -/
theorem leastEndGE_finds {d : Bytes} {m : List (Nat × Nat)} {fo b e : Nat}
    (hm : ∀ p ∈ m, TrueLine d p.2 p.1) (hmem : (e, b) ∈ m) (h1 : b ≤ fo) (h2 : fo ≤ e) :
    leastEndGE m fo = some (e, b) :=
  S4V.Lemmas.LinesCached.leastEndGE_finds hm hmem h1 h2

example : leastEndGE [(5, 3), (2, 0)] 1 = some (2, 0) := by decide
example : (0 ≤ 1 ∧ 1 ≤ 2 ∧ lineStart ex1 1 = 0 ∧ lineEnd ex1 1 = 2) ∨ 1 < 0 :=
  leastEndGE_true_line (d := ex1) (m := [(5, 3), (2, 0)]) (by decide) (by decide)
example : leastEndGE [(5, 3), (2, 0)] 4 = some (5, 3) :=
  leastEndGE_finds (d := ex1) (by decide) (by decide) (by decide) (by decide)
/-- only the later line was stored: the entry found lies after `fo` -/
example : (3 ≤ 1 ∧ 1 ≤ 5 ∧ lineStart ex1 1 = 3 ∧ lineEnd ex1 1 = 5) ∨ 1 < 3 :=
  leastEndGE_true_line (d := ex1) (m := [(5, 3)]) (by decide) (by decide)

/-! ### 2. one lookup: the caches are transparent -/

/-- projection form -/
theorem findLineCached_spec {d : Bytes} {s : Store} (h : Inv d s) (fo : Nat) :
    (findLineCached d s fo).1 = findLinePlain d fo ∧ Inv d (findLineCached d s fo).2 := by
  have := S4V.Lemmas.LinesCached.findLineCached_spec ((inv_iff d s).mp h) fo
  exact ⟨this.1, (inv_iff _ _).mpr this.2⟩

/-- main theorem: whatever the (invariant-satisfying) caches hold, a lookup
answers what a fresh cache-free lookup answers, and the invariant is kept.
Holds for every `fo`, also `fo ≥ d.length`, and for `d = []`. -/
theorem findLineCached_transparent {d : Bytes} {s : Store} (fo : Nat) (h : Inv d s) :
    let (r, s') := findLineCached d s fo
    r = findLinePlain d fo ∧ Inv d s' :=
  findLineCached_spec h fo

/-- shortcuts A1a / A1b: after a `check_store` miss for `fo`, a stored line
containing `fo - 1` must end at `fo - 1`, hence with a newline: `fo` begins a line -/
theorem shortcut_sound {d : Bytes} {s : Store} (hs : Inv d s) {fo b e : Nat} (h0 : fo ≠ 0)
    (hfo : fo < d.length) (hmiss : getLinep s fo = none) (hmem : (b, e) ∈ s.lines)
    (h1 : b ≤ fo - 1) (h2 : fo - 1 ≤ e) : lineStart d fo = fo :=
  S4V.Lemmas.LinesCached.prev_line_ends ((inv_iff d s).mp hs) h0 hfo hmiss hmem h1 h2

/-- the answer, spelled out -/
theorem findLineCached_answer {d : Bytes} {s : Store} (h : Inv d s) (fo : Nat) :
    (findLineCached d s fo).1 =
      if fo < d.length then .found (lineEnd d fo + 1) (lineStart d fo) (lineEnd d fo)
      else .done := by
  rw [(findLineCached_spec h fo).1]
  unfold findLinePlain
  by_cases hfo : fo < d.length
  · rw [if_neg (by omega), if_pos hfo]
  · rw [if_pos (by omega), if_neg hfo]

/-- the store after `find 0` on `ex1`: line `(0, 2)` stored -/
def st1 : Store := (findLineCached ex1 empty 0).2
/-- the store after `find 3` on `ex2`: the one-byte line `(3, 3)` stored -/
def st2 : Store := (findLineCached ex2 empty 3).2

example : st1 = ⟨[(0, 2)], [(2, 0)], [(0, .found 3 0 2)]⟩ := by decide
example : Inv ex1 st1 := (findLineCached_spec (inv_empty ex1) 0).2
/-- `find 3` after `find 0` on `"ab\ncd\n"`: `check_store` misses, no stored line
begins at 2, `get_linep(2)` hits: shortcut A1b -/
example : lruGet st1.lru 3 = none ∧ linesGet st1.lines 3 = none ∧ getLinep st1 3 = none ∧
    (linesGet st1.lines 2).isSome = false ∧ (getLinep st1 2).isSome = true := by decide
example : (findLineCached ex1 st1 3).1 = .found 6 3 5 := by decide
example : (findLineCached ex1 st1 3).1 = findLinePlain ex1 3 :=
  (findLineCached_spec (findLineCached_spec (inv_empty ex1) 0).2 3).1
example : lineStart ex1 3 = 3 :=
  shortcut_sound (s := st1) (b := 0) (e := 2) (findLineCached_spec (inv_empty ex1) 0).2
    (by decide) (by decide) (by decide) (by decide) (by decide) (by decide)
/-- `find 4` after `find 3` on `"ab\n\ncd\n"`: a stored line begins at 3: shortcut A1a -/
example : lruGet st2.lru 4 = none ∧ linesGet st2.lines 4 = none ∧ getLinep st2 4 = none ∧
    (linesGet st2.lines 3).isSome = true := by decide
example : (findLineCached ex2 st2 4).1 = .found 7 4 6 := by decide
/-- `check_store` hit through `get_linep` (offset 1 of the stored line `(0, 2)`), then LRU hit -/
example : lruGet st1.lru 1 = none ∧ linesGet st1.lines 1 = none ∧ getLinep st1 1 = some (0, 2) ∧
    (findLineCached ex1 st1 1).1 = .found 3 0 2 ∧
    lruGet (findLineCached ex1 st1 1).2.lru 1 = some (.found 3 0 2) := by decide
/-- past the end and the empty file -/
example : (findLineCached ex1 st1 6).1 = .done ∧ (findLineCached [] empty 0).1 = .done := by decide
example : (let (r, s') := findLineCached ex1 st1 4; r = findLinePlain ex1 4 ∧ Inv ex1 s') :=
  findLineCached_transparent 4 (findLineCached_spec (inv_empty ex1) 0).2

/-! ### 3. `drop_line` and whole histories -/

theorem dropLine_inv {d : Bytes} {s : Store} (b : Nat) (h : Inv d s) : Inv d (dropLine s b) :=
  (inv_iff _ _).mpr (S4V.Lemmas.LinesCached.Inv.dropLine ((inv_iff d s).mp h) b)

theorem applyOp_transparent {d : Bytes} {s : Store} (op : Op) (h : Inv d s) :
    (applyOp d s op).1 = (match op with
      | .find fo => some (findLinePlain d fo)
      | .drop _ => none) ∧ Inv d (applyOp d s op).2 := by
  have := S4V.Lemmas.LinesCached.applyOp_spec ((inv_iff d s).mp h) op
  exact ⟨this.1, (inv_iff _ _).mpr this.2⟩

/-- from any store satisfying the invariant (warm caches) -/
theorem runOps_transparent_from {d : Bytes} {s : Store} (ops : List Op) (h : Inv d s) :
    (runOps d s ops).1 = ops.map (fun op => match op with
      | .find fo => some (findLinePlain d fo)
      | .drop _ => none) ∧ Inv d (runOps d s ops).2 := by
  have := S4V.Lemmas.LinesCached.runOps_spec ops ((inv_iff d s).mp h)
  exact ⟨this.1, (inv_iff _ _).mpr this.2⟩

/-- every history from a fresh reader: every `find` answers the cache-free answer -/
theorem runOps_transparent (d : Bytes) (ops : List Op) :
    (runOps d empty ops).1 = ops.map (fun op => match op with
      | .find fo => some (findLinePlain d fo)
      | .drop _ => none) :=
  (runOps_transparent_from ops (inv_empty d)).1

/-- every reachable store satisfies the invariant -/
theorem runOps_inv (d : Bytes) (ops : List Op) : Inv d (runOps d empty ops).2 :=
  (runOps_transparent_from ops (inv_empty d)).2

example : Inv ex1 (dropLine st1 0) := dropLine_inv 0 (findLineCached_spec (inv_empty ex1) 0).2
example : dropLine st1 0 = ⟨[], [(2, 0)], []⟩ := by decide
/-- find, A1b, LRU hit, drop, find again (now through the walk, A2) -/
example : (runOps ex1 empty [.find 0, .find 3, .find 3, .drop 1, .find 1]).1 =
    [some (.found 3 0 2), some (.found 6 3 5), some (.found 6 3 5), none, some (.found 3 0 2)] := by
  decide
example : (runOps ex1 empty [.find 0, .find 3, .find 3, .drop 1, .find 1]).1 =
    [some (findLinePlain ex1 0), some (findLinePlain ex1 3), some (findLinePlain ex1 3), none,
      some (findLinePlain ex1 1)] :=
  runOps_transparent ex1 _
/-- A1a history -/
example : (runOps ex2 empty [.find 3, .find 4, .find 4]).1 =
    [some (.found 4 3 3), some (.found 7 4 6), some (.found 7 4 6)] := by decide
example : Inv ex2 (runOps ex2 empty [.find 3, .find 4, .find 4]).2 := runOps_inv ex2 _

/-! ### 4. link to the block walk -/

/-- what the caller of the block walk sees: next offset and the bounds of the
line, computed from the returned parts -/
def ofRes (bs : Nat) : Res → R
  | .done => .done
  | .found n ps =>
    .found n (match ps.head? with | some p => p.foBeg bs | none => 0) (lineFoEnd bs ps)

/-- the cache-free answer is what the block walk `findLine` returns (bounds read
off the returned parts) -/
theorem findLinePlain_eq_ofRes (bs : Nat) (d : Bytes) (fo : Nat) (hbs : 1 ≤ bs) :
    ofRes bs (findLine bs d fo) = findLinePlain d fo := by
  rcases Nat.lt_or_ge fo d.length with hfo | hfo
  · obtain ⟨parts, h1, _, _, h4, h5⟩ := findLine_spec bs d fo hbs hfo
    rw [h1, S4V.Lemmas.LinesCached.findLinePlain_found (by omega)]
    cases parts with
    | nil =>
      -- impossible: the chain of parts covers `[lineStart, lineEnd + 1)`
      obtain ⟨parts', g1, g2⟩ := S4V.Lemmas.Lines.findLine_chain bs d fo hbs hfo
      rw [h1] at g1
      injection g1 with _ g1
      subst g1
      have := LinesSpec.lineStart_le d fo
      have := LinesSpec.le_lineEnd d fo hfo
      exact absurd rfl (g2.ne_nil (by omega))
    | cons p ps =>
      simp only [ofRes, List.head?_cons]
      rw [h4.1, h5]
  · rw [findLine_done bs d fo hfo, S4V.Lemmas.LinesCached.findLinePlain_done (Or.inr hfo)]
    rfl

/-- the form with the bounds taken from the specification -/
theorem findLinePlain_eq_findLine (bs : Nat) (d : Bytes) (fo : Nat) (hbs : 1 ≤ bs) :
    (match findLine bs d fo with
      | .done => R.done
      | .found n _ => R.found n (lineStart d fo) (lineEnd d fo)) = findLinePlain d fo := by
  rcases Nat.lt_or_ge fo d.length with hfo | hfo
  · obtain ⟨parts, h1, _⟩ := findLine_spec bs d fo hbs hfo
    rw [h1, S4V.Lemmas.LinesCached.findLinePlain_found (by omega)]
  · rw [findLine_done bs d fo hfo, S4V.Lemmas.LinesCached.findLinePlain_done (Or.inr hfo)]

/-- composite: for every block size, every byte string, every history of finds
and drops, the cached reader returns what the block walk on a fresh reader
returns, which is the true line (`LinesSpec.findLine_spec`) -/
theorem cached_eq_block_walk (bs : Nat) (d : Bytes) (ops : List Op) (hbs : 1 ≤ bs) :
    (runOps d empty ops).1 = ops.map (fun op => match op with
      | .find fo => some (ofRes bs (findLine bs d fo))
      | .drop _ => none) := by
  rw [runOps_transparent]
  apply List.map_congr_left
  intro op _
  cases op with
  | find fo => simp only [findLinePlain_eq_ofRes bs d fo hbs]
  | drop _ => rfl

/-- composite, spelled out: every `find fo` of every history answers the true line -/
theorem cached_true_line (d : Bytes) (ops : List Op) :
    (runOps d empty ops).1 = ops.map (fun op => match op with
      | .find fo =>
        some (if fo < d.length then R.found (lineEnd d fo + 1) (lineStart d fo) (lineEnd d fo)
          else R.done)
      | .drop _ => none) := by
  rw [runOps_transparent]
  apply List.map_congr_left
  intro op _
  cases op with
  | find fo =>
    simp only [findLinePlain]
    by_cases hfo : fo < d.length
    · rw [if_neg (by omega), if_pos hfo]
    · rw [if_pos (by omega), if_neg hfo]
  | drop _ => rfl

example : ofRes 2 (findLine 2 ex1 4) = .found 6 3 5 := by decide
example : ofRes 2 (findLine 2 ex1 4) = findLinePlain ex1 4 :=
  findLinePlain_eq_ofRes 2 ex1 4 (by decide)
example : (match findLine 4 ex1 1 with
    | .done => R.done
    | .found n _ => R.found n (lineStart ex1 1) (lineEnd ex1 1)) = findLinePlain ex1 1 :=
  findLinePlain_eq_findLine 4 ex1 1 (by decide)
example : (runOps ex1 empty [.find 0, .find 3, .drop 1]).1 =
    [some (ofRes 2 (findLine 2 ex1 0)), some (ofRes 2 (findLine 2 ex1 3)), none] :=
  cached_eq_block_walk 2 ex1 _ (by decide)

/-! ### 5. the invariant matters: a false line poisons later lookups -/

/-- `"ab\ncd"` -/
def ex5 : Bytes := [97, 98, 10, 99, 100]

/-- a store holding the FALSE line `(0, 3)` (wrong end; the true line is `(0, 2)`) -/
def poisoned : Store := ⟨[(0, 3)], [(3, 0)], []⟩

/-- a later `find 1` returns the false line instead of the true one -/
theorem false_line_poisons :
    (findLineCached ex5 poisoned 1).1 = .found 4 0 3 ∧ findLinePlain ex5 1 = .found 3 0 2 ∧
      (findLineCached ex5 poisoned 1).1 ≠ findLinePlain ex5 1 ∧ ¬ Inv ex5 poisoned := by
  refine ⟨by decide, by decide, by decide, ?_⟩
  intro h
  exact absurd (h.lines_true 0 3 (by decide)) (by decide)

/-- a false line that ends too early `(0, 1)` poisons the NEXT line through
shortcut A1b: `find 2` answers a "line" beginning at 2 instead of `(0, 2)` -/
theorem false_line_poisons_shortcut :
    (findLineCached ex5 ⟨[(0, 1)], [(1, 0)], []⟩ 2).1 = .found 3 2 2 ∧
      findLinePlain ex5 2 = .found 3 0 2 := by decide

end S4V.Props.CacheSpec
