/-
An obligation over a fact regenerated from the source, with the counter-model of the seeded change that showed the fact
matters (wave 7). See DESIGN.md §10.5.
-/
import S4V.Gen.Journal

namespace S4V.Props.FactsJournal

/-! ### C09: journal order, not receive-time order -/

/-- insert into a list kept sorted by key, after equal keys -/
def insSorted (x : Int × Nat) : List (Int × Nat) → List (Int × Nat)
  | [] => [x]
  | y :: ys => if x.1 < y.1 then x :: y :: ys else y :: insSorted x ys

/-- the order in which entries (receive time, position in the journal) are handed out: straight from the enumeration
(`bypass = true`), or sorted by receive time through the fill buffer (an unbounded buffer is the worst case) -/
def handOut (bypass : Bool) (es : List (Int × Nat)) : List (Int × Nat) :=
  if bypass then es else es.foldl (fun acc e => insSorted e acc) []

/-- **C09_journal_order.** Unfolds the regenerated `realtimeBypassesSortBuffer`: entries are printed in the order the
journal enumerates them. -/
theorem C09_journal_order (es : List (Int × Nat)) :
    handOut S4V.Gen.Journal.realtimeBypassesSortBuffer es = es := by
  have h : S4V.Gen.Journal.realtimeBypassesSortBuffer = true := by decide
  simp [handOut, h]

/-- counter-model (seeded change C09-d): through the sort buffer a journal whose clock was set back is reordered -/
theorem sort_buffer_reorders : handOut false [(100, 0), (50, 1), (60, 2)] = [(50, 1), (60, 2), (100, 0)] := by decide

end S4V.Props.FactsJournal
