/-
C13 — prepended fields, separators and colour are pure decoration.
C19 — the summary agrees with what was printed.

Statements over the byte-level model `S4V.Model.Print` of printers.rs / the print arm of
`processing_loop` / `SummaryPrinted`.  Notation used below:

  render p last o m   chunks one print call writes (p = escape bytes of the file's three colour
                      specs, last = the printer's `color_spec_last`, o = colour / file field /
                      datetime field of this message)
  bytesOf cs          the bytes on stdout;   plainOf cs  the same without termcolor's escapes;
  stripEsc bytes      delete every `ESC [ … m` from a byte stream (what an observer can do);
  stripFields fd out  delete the leading bytes `fd` from every printed line of `out`;
  runOut / runAcct    stdout and `summaryprinted` of a whole run (sequence of print events).
-/
import S4V.Lemmas.Print
import S4V.Lemmas.PrintBuf

namespace S4V.Props.PrintSpec
open S4V.Model.Print S4V.Lemmas.Print S4V.Lemmas.PrintBuf

/-- the bytes of a print call with the escapes taken out -/
def plainStream (p : Pal) (last : Last) (o : Opts) (m : Msg) : Bytes := plainOf (render p last o m).1

/-- the lines the fields are put in front of: the message's lines for a text log; the
`\n`-terminated pieces of the payload for event-log records and journal entries -/
def linesOf : Msg → List Bytes
  | .sysline m => m.lines
  | .fixedstruct m => [m.data]
  | .evtx m => nlLines m.data
  | .journal m => nlLines m.data

/-- datetime span well-formed (`debug_assert_le!(dt_beg, dt_end)` in the source) -/
def spanOk : Msg → Prop
  | .sysline m => m.dtBeg ≤ m.dtEnd
  | .fixedstruct m => m.beg ≤ m.fin
  | .evtx m => m.beg ≤ m.fin
  | .journal m => m.beg ≤ m.fin

def noOpts : Opts := ⟨false, none, none⟩

/-! ## C13 -/

/-- what a printer writes and counts never depends on the colour state or palette -/
theorem C13_plainStream_eq (p : Pal) (last : Last) (o : Opts) (m : Msg) :
    plainStream p last o m = wrOf (ops o m) := exec_plain p last (ops o m)

/-- no options: stdout is exactly the message bytes, for every kind of message -/
theorem C13_plain (p : Pal) (last : Last) (m : Msg) : bytesOf (render p last noOpts m).1 = m.payload := by
  cases m with
  | sysline m =>
    have h : noSetc (print_sysline noOpts m) = true := by
      show noSetc (m.lines.flatMap lineOps) = true
      apply noSetc_flatMap; intro l; unfold lineOps; split <;> rfl
    show bytesOf (exec p last (print_sysline noOpts m)).1 = m.lines.flatten
    rw [exec_bytes_noSetc _ _ _ h, wrOf_print_sysline_nocolor _ _ rfl]
    simp [decorated, noOpts, optBytes]
  | fixedstruct m => simp [render, ops, print_fixedstruct, noOpts, print_fixedstruct_, exec, bytesOf, Chunk.bytes, Msg.payload]
  | evtx m => simp [render, ops, print_evtx, noOpts, print_buf_, exec, bytesOf, Chunk.bytes, Msg.payload]
  | journal m => simp [render, ops, print_journalentry, noOpts, print_buf_, exec, bytesOf, Chunk.bytes, Msg.payload]

/-- text logs, event-log records, journal entries: with any option tuple the stream without
escapes is, per line, file field ++ datetime field ++ line — the same order and the same bytes
for both colour settings -/
theorem C13_field_order (p : Pal) (last : Last) (o : Opts) (m : Msg) (hs : spanOk m)
    (hk : m.kind ≠ .fixedstruct) (hpre : plainOpts o = false) :
    plainStream p last o m = decorated o (linesOf m) := by
  rw [C13_plainStream_eq]
  cases m with
  | sysline m => exact wrOf_print_sysline o m hs
  | fixedstruct m => exact absurd rfl hk
  | evtx m => simp [ops, wrOf_print_evtx o m hs, hpre, linesOf]
  | journal m => simp [ops, wrOf_print_journalentry o m hs, hpre, linesOf]

/-- text logs: also with no prefix at all (then `decorated` is the concatenation of the lines) -/
theorem C13_field_order_sysline (p : Pal) (last : Last) (o : Opts) (m : SysMsg) (hs : m.dtBeg ≤ m.dtEnd) :
    plainStream p last o (.sysline m) = decorated o m.lines := by
  rw [C13_plainStream_eq]; exact wrOf_print_sysline o m hs

/-- accounting records: the fields once in front of the record — file then datetime, in all
eight variants -/
theorem C13_field_order_fixedstruct (p : Pal) (last : Last) (o : Opts) (m : BufMsg) (hs : m.beg ≤ m.fin) :
    plainStream p last o (.fixedstruct m) = optBytes o.file ++ optBytes o.date ++ m.data := by
  rw [C13_plainStream_eq]; exact wrOf_print_fixedstruct o m hs

/-- "the fields come in the same order (file, then datetime) for every kind of message and every
colour setting" — as a statement about one-line messages of all four kinds -/
def C13_field_order_full : Prop :=
  ∀ (p : Pal) (last : Last) (o : Opts) (m : Msg), spanOk m → linesOf m = [m.payload] →
    plainStream p last o m = optBytes o.file ++ (optBytes o.date ++ m.payload)

/-- … holds of the code: every kind, every colour setting, every combination of fields -/
theorem C13_field_order_full_holds : C13_field_order_full := by
  intro p last o m hs h1
  cases m with
  | sysline m => rw [C13_field_order_sysline p last o m hs]; simp [decorated, linesOf] at *; simp [h1]
  | fixedstruct m =>
    rw [C13_field_order_fixedstruct p last o m hs]; simp [Msg.payload]
  | evtx m =>
    rw [C13_plainStream_eq]; simp only [ops, wrOf_print_evtx o m hs]
    split
    · rename_i hp; obtain ⟨c, f, d⟩ := o; cases f <;> cases d <;> simp_all [plainOpts, optBytes, Msg.payload]
    · simp [decorated, linesOf] at *; simp [h1]
  | journal m =>
    rw [C13_plainStream_eq]; simp only [ops, wrOf_print_journalentry o m hs]
    split
    · rename_i hp; obtain ⟨c, f, d⟩ := o; cases f <;> cases d <;> simp_all [plainOpts, optBytes, Msg.payload]
    · simp [decorated, linesOf] at *; simp [h1]

/-- counter-model of the defect that was repaired: `print_fixedstruct_prependfile_prependdate`
(accounting record, no colour, both fields) used to write the datetime field BEFORE the file-name
field -/
def print_fixedstruct_swapped (f d : Bytes) (m : BufMsg) : List Op := [.wr d, .wr f, .wr m.data]

/-- with that variant `C13_field_order_full` was false: file field `F`, datetime field `D`,
record `x\n` came out as `DFx\n`, not `FDx\n` -/
theorem swapped_order_differs :
    wrOf (print_fixedstruct_swapped [70] [68] ⟨[120, 10], 0, 0⟩) ≠
      optBytes (some [70]) ++ optBytes (some [68]) ++ (⟨[120, 10], 0, 0⟩ : BufMsg).data := by decide

/-- colour adds nothing but escapes: same stream without them, for every kind of message and
every combination of fields -/
theorem C13_colour_only_escapes (p p' : Pal) (last last' : Last) (f d : Option Bytes) (m : Msg) (hs : spanOk m) :
    plainStream p last ⟨true, f, d⟩ m = plainStream p' last' ⟨false, f, d⟩ m := by
  rw [C13_plainStream_eq, C13_plainStream_eq]
  cases m with
  | sysline m => simp [ops, wrOf_print_sysline _ m hs, decorated]
  | fixedstruct m => simp [ops, wrOf_print_fixedstruct _ m hs]
  | evtx m => simp [ops, wrOf_print_evtx _ m hs, decorated, plainOpts]
  | journal m => simp [ops, wrOf_print_journalentry _ m hs, decorated, plainOpts]

/-- the escapes can be removed from the *byte stream*: termcolor's bytes are runs of `ESC[…m`
(hypothesis on the palette) and neither fields nor message contain an ESC byte -/
theorem C13_stripEsc (p : Pal) (hp : WFPal p) (last : Last) (o : Opts) (m : Msg) (hesc : ESC ∉ wrOf (ops o m)) :
    stripEsc (bytesOf (render p last o m).1) = plainStream p last o m := by
  have := strip_exec p hp last (ops o m) hesc []
  simpa [stripEsc, stripEscAux, render, C13_plainStream_eq] using this

/-- C13, text logs: delete the escapes, then from every printed line the file and datetime fields:
what is left is the message -/
theorem C13_strip (p : Pal) (hp : WFPal p) (last : Last) (o : Opts) (m : SysMsg)
    (hs : m.dtBeg ≤ m.dtEnd) (hl : WFLines m.lines)
    (hnl : NL ∉ optBytes o.file ++ optBytes o.date)
    (hesc : ESC ∉ wrOf (ops o (.sysline m))) :
    stripFields (optBytes o.file ++ optBytes o.date) (stripEsc (bytesOf (render p last o (.sysline m)).1))
      = (Msg.sysline m).payload := by
  rw [C13_stripEsc p hp last o _ hesc, C13_field_order_sysline p last o m hs]
  have := stripFields_decorated (optBytes o.file ++ optBytes o.date) hnl m.lines hl
  simpa [decorated, Msg.payload] using this

/-- C13, event-log records and journal entries: the same, provided the rendered record is empty
or ends in `\n` -/
theorem C13_strip_buf (p : Pal) (hp : WFPal p) (last : Last) (o : Opts) (m : Msg) (hk : m.kind = .evtx ∨ m.kind = .journal)
    (hs : spanOk m) (hend : m.payload = [] ∨ endsNL m.payload = true)
    (hnl : NL ∉ optBytes o.file ++ optBytes o.date)
    (hesc : ESC ∉ wrOf (ops o m)) :
    stripFields (optBytes o.file ++ optBytes o.date) (stripEsc (bytesOf (render p last o m).1)) = m.payload := by
  rw [C13_stripEsc p hp last o _ hesc]
  have key : ∀ d : Bytes, (d = [] ∨ endsNL d = true) →
      stripFields (optBytes o.file ++ optBytes o.date) (decorated o (nlLines d)) = d := by
    intro d hd
    have := stripFields_decorated (optBytes o.file ++ optBytes o.date) hnl (nlLines d)
      (wfLines_of_isLine _ (nlLines_isLine d))
    rw [nlLines_flatten_of_endsNL d hd] at this
    simpa [decorated] using this
  have plain : ∀ d : Bytes, plainOpts o = true → stripFields (optBytes o.file ++ optBytes o.date) d = d := by
    intro d hpo
    obtain ⟨c, f, dd⟩ := o
    have hu : unprefix [] = id := by funext l; simp [unprefix]
    cases f <;> cases dd <;> simp_all [plainOpts, optBytes]
    simp [stripFields, hu, pieces_flatten]
  cases m with
  | sysline m => simp [Msg.kind] at hk
  | fixedstruct m => simp [Msg.kind] at hk
  | evtx m =>
    rw [C13_plainStream_eq]; simp only [ops, wrOf_print_evtx o m hs, Msg.payload] at *
    split
    · rename_i hpo; exact plain _ hpo
    · exact key _ hend
  | journal m =>
    rw [C13_plainStream_eq]; simp only [ops, wrOf_print_journalentry o m hs, Msg.payload] at *
    split
    · rename_i hpo; exact plain _ hpo
    · exact key _ hend

/-- the same statement without "ends in `\n`" -/
def C13_strip_buf_full : Prop :=
  ∀ (p : Pal) (_ : WFPal p) (last : Last) (o : Opts) (m : BufMsg), m.beg ≤ m.fin →
    NL ∉ optBytes o.file ++ optBytes o.date → ESC ∉ wrOf (ops o (.evtx m)) →
    stripFields (optBytes o.file ++ optBytes o.date) (stripEsc (bytesOf (render p last o (.evtx m)).1)) = m.data

/-- … is false: in prepend mode the `find_byte('\n')` loop never writes an unterminated tail
(`a\nb` printed with a file field loses the `b`) -/
theorem C13_strip_buf_full_false : ¬ C13_strip_buf_full := by
  intro h
  have hp : WFPal ⟨[], [], []⟩ := ⟨⟨[], rfl, by simp⟩, ⟨[], rfl, by simp⟩, ⟨[], rfl, by simp⟩⟩
  have := h ⟨[], [], []⟩ hp none ⟨false, some [70], none⟩ ⟨[97, 10, 98], 0, 0⟩ (by decide) (by decide) (by decide)
  revert this; decide

/-- accounting records: the escapes removed, what is left is the file field, the datetime field
and the record -/
theorem C13_strip_fixedstruct (p : Pal) (hp : WFPal p) (last : Last) (o : Opts) (m : BufMsg) (hs : m.beg ≤ m.fin)
    (hesc : ESC ∉ wrOf (ops o (.fixedstruct m))) :
    (stripEsc (bytesOf (render p last o (.fixedstruct m)).1)).drop ((optBytes o.file).length + (optBytes o.date).length)
      = m.data := by
  rw [C13_stripEsc p hp last o _ hesc, C13_field_order_fixedstruct p last o m hs]
  simp [List.drop_append]

/-! ### separator and added newline -/

theorem runOut_cons (pal : Nat → Pal) (sep : Bytes) (ls : Lasts) (ev : Ev) (r : List Ev) :
    runOut pal sep ls (ev :: r) =
      (render (pal ev.pid) (ls ev.pid) ev.o ev.m).1 ++ coordAfter sep ev.m ev.isLast ++
        runOut pal sep (ls.set ev.pid (render (pal ev.pid) (ls ev.pid) ev.o ev.m).2) r := rfl

/-- the newline the coordinator supplies after a text log's unterminated last message -/
def addedNL (ev : Ev) : Bytes :=
  match ev.m with
  | .sysline s => if ev.isLast && !endsNL s.lines.flatten then [NL] else []
  | _ => []

theorem plainOf_coordAfter (sep : Bytes) (ev : Ev) : plainOf (coordAfter sep ev.m ev.isLast) = sep ++ addedNL ev := by
  unfold coordAfter addedNL
  by_cases hs : sep = [] <;> cases hm : ev.m <;> simp [hs, plainOf, Chunk.bytes]
  all_goals (split <;> simp [plainOf, Chunk.bytes])

/-- C13: over a whole run the stream without escapes is, per message, what its printer wrote,
then exactly one separator, then the supplied newline if any — the separator never falls inside
a message and there is none before the first -/
theorem C13_separator (pal : Nat → Pal) (sep : Bytes) (ls : Lasts) (evs : List Ev) :
    plainOf (runOut pal sep ls evs) = evs.flatMap (fun ev => wrOf (ops ev.o ev.m) ++ (sep ++ addedNL ev)) := by
  induction evs generalizing ls with
  | nil => rfl
  | cons ev r ih =>
    rw [runOut_cons, plainOf_append, plainOf_append, ih, plainOf_coordAfter]
    simp [List.flatMap_cons, render, exec_plain]

/-! ### alignment (`-w`) -/

theorem align_le_fold (ns : List Name) (w : Nat) (n : Name) (hn : n ∈ ns) :
    n.cols ≤ ns.foldl (fun w n => max w n.cols) w := by
  induction ns generalizing w with
  | nil => simp at hn
  | cons a r ih =>
    have mono : ∀ (xs : List Name) (w : Nat), w ≤ xs.foldl (fun w n => max w n.cols) w := by
      intro xs
      induction xs with
      | nil => intro w; exact Nat.le_refl _
      | cons b s ihs => intro w; exact Nat.le_trans (Nat.le_max_left _ _) (ihs _)
    rcases List.mem_cons.mp hn with h | h
    · subst h; exact Nat.le_trans (Nat.le_max_right _ _) (mono r _)
    · exact ih _ h

theorem replicate_one_sum (k : Nat) : (List.replicate k 1).sum = k := by
  induction k with
  | zero => rfl
  | succ k ih => simp [List.replicate_succ, ih]; omega

/-- **C13_align** — `-w`: every printed name, padded as the code pads it, fills exactly the common width
(the widest printed name, in display columns), so the separators line up — for arbitrary names (wide
characters count two columns). Unfolds the generated `ALIGN_PADS_BY_COLUMNS`. -/
theorem C13_align_full_holds (names : List Name) :
    ∀ n ∈ names, (padName n (alignWidth names)).cols = alignWidth names := by
  intro n hn
  have hle := align_le_fold names 0 n hn
  unfold alignWidth at *
  simp only [padName, padNameWith, padMeasure, S4V.Gen.Print.ALIGN_PADS_BY_COLUMNS, Name.cols, List.sum_append,
    replicate_one_sum, if_true] at *
  omega

/-- the fold attains its value: a non-zero width is the width of one of the names -/
theorem align_fold_attained (ns : List Name) (w : Nat) :
    ns.foldl (fun w n => max w n.cols) w = w ∨ ∃ n ∈ ns, n.cols = ns.foldl (fun w n => max w n.cols) w := by
  induction ns generalizing w with
  | nil => exact .inl rfl
  | cons a r ih =>
    simp only [List.foldl_cons]
    rcases ih (max w a.cols) with h | ⟨n, hn, h⟩
    · rw [h]
      rcases Nat.le_total w a.cols with hle | hle
      · exact .inr ⟨a, by simp, by rw [Nat.max_eq_right hle]⟩
      · exact .inl (Nat.max_eq_left hle)
    · exact .inr ⟨n, by simp [hn], h⟩

/-- **C13_align_widest_printed** — "aligned names are padded to the widest PRINTED name": the `-w` width the
code computes is an upper bound of every printing source's name and is attained by a printing source
(or is 0 when nothing prints); sources that print nothing do not widen it. Unfolds the generated
`ALIGN_OVER_PRINTING_SOURCES`. -/
theorem C13_align_widest_printed (srcs : List (Name × Bool)) :
    (∀ s ∈ srcs, s.2 = true → s.1.cols ≤ alignWidthSrcs srcs) ∧
    (alignWidthSrcs srcs = 0 ∨ ∃ s ∈ srcs, s.2 = true ∧ s.1.cols = alignWidthSrcs srcs) := by
  have hnames : alignNames S4V.Gen.Print.ALIGN_OVER_PRINTING_SOURCES srcs = (srcs.filter (·.2)).map (·.1) := by
    simp [alignNames, S4V.Gen.Print.ALIGN_OVER_PRINTING_SOURCES]
  unfold alignWidthSrcs
  rw [hnames]
  constructor
  · intro s hs hp
    exact align_le_fold _ 0 s.1 (List.mem_map.mpr ⟨s, List.mem_filter.mpr ⟨hs, hp⟩, rfl⟩)
  · rcases align_fold_attained ((srcs.filter (·.2)).map (·.1)) 0 with h | ⟨n, hn, h⟩
    · exact .inl h
    · obtain ⟨s, hs, rfl⟩ := List.mem_map.mp hn
      have := List.mem_filter.mp hs
      exact .inr ⟨s, this.1, this.2, h⟩

/-- a silent source with the widest name does not change the width -/
example : alignWidthSrcs [([1, 1, 1], true), ([1, 1, 1, 1, 1, 1, 1, 1, 1], false), ([1, 1], true)] = 3 := by decide

/-- the statement for a width taken over ALL sources (the loop over `map_pathid_path`) -/
def C13_align_over_all_sources : Prop :=
  ∀ srcs : List (Name × Bool),
    alignWidth (alignNames false srcs) = 0 ∨ ∃ s ∈ srcs, s.2 = true ∧ s.1.cols = alignWidth (alignNames false srcs)

/-- … is false: a source that prints nothing but has the widest name over-pads every printed name -/
theorem align_over_all_sources_overpads : ¬ C13_align_over_all_sources := by
  intro h
  have := h [([1, 1, 1], true), ([1, 1, 1, 1, 1, 1, 1, 1, 1], false)]
  revert this; decide

/-- names whose chars are all one column wide (ASCII) -/
theorem C13_align (names : List Name) (_h : ∀ n ∈ names, ∀ c ∈ n, c = 1) :
    ∀ n ∈ names, (padName n (alignWidth names)).cols = alignWidth names :=
  C13_align_full_holds names

example : (padName [2, 2, 2] (alignWidth [[2, 2, 2], [1, 1, 1, 1, 1]])).cols = 6 := by decide

/-- the statement for the padding as it was before the repair (pad by `char` count) -/
def C13_align_charcount : Prop :=
  ∀ names : List Name, ∀ n ∈ names, (padNameWith false n (alignWidth names)).cols = alignWidth names

/-- … is false (was F9): the width is measured in display columns but `{:<width}` pads by `char` count.
Three double-width chars beside a 5-column ASCII name: width 6, 3 chars → 3 spaces → 9 columns -/
theorem char_count_padding_misaligns : ¬ C13_align_charcount := by
  intro h
  have := h [[2, 2, 2], [1, 1, 1, 1, 1]] [2, 2, 2] (by simp)
  revert this; decide

/-- the prepend separator is literal text in the datetime field (F17 repaired): generated flag -/
theorem C13_prepend_separator_literal : S4V.Gen.Print.PREPEND_SEPARATOR_LITERAL = true := by decide

/-- the file-name field is the name, the padding and the prepend separator, nothing else -/
theorem C13_fileField (name : Bytes) (nchars width : Nat) (psep : Bytes) :
    fileField name nchars width psep = name ++ List.replicate (width - nchars) SP ++ psep := rfl

/-! ## C19 -/

/-- bytes one print event puts on stdout, escapes not counted -/
def evBytes (sep : Bytes) (ev : Ev) : Nat := printedOf ev.o ev.m + (sep ++ addedNL ev).length

theorem runAcct_total_bytes (sep : Bytes) (a : Acct) (evs : List Ev) :
    (runAcct sep a evs).total.bytes = a.total.bytes + (evs.map (evBytes sep)).sum := by
  induction evs generalizing a with
  | nil => simp [runAcct]
  | cons ev r ih =>
    simp only [runAcct, ih, account_total_bytes, List.map_cons, List.sum_cons, evBytes, coordLen, plainOf_coordAfter]
    omega

theorem plain_len (pal : Nat → Pal) (sep : Bytes) (ls : Lasts) (evs : List Ev) :
    (plainOf (runOut pal sep ls evs)).length = (evs.map (evBytes sep)).sum := by
  rw [C13_separator]
  induction evs with
  | nil => rfl
  | cons ev r ih => simp [List.flatMap_cons, ih, evBytes, printedOf]; omega

/-- C19: "Printed bytes" is the length of stdout *with the escapes taken out* -/
theorem C19_total_bytes (pal : Nat → Pal) (sep : Bytes) (ls : Lasts) (evs : List Ev) :
    (runAcct sep {} evs).total.bytes = (plainOf (runOut pal sep ls evs)).length := by
  rw [runAcct_total_bytes, plain_len]; simp

/-- … observable on the byte stream when escapes are well-formed and nothing else has an ESC -/
theorem C19_total_bytes_stripped (pal : Nat → Pal) (hp : ∀ i, WFPal (pal i)) (sep : Bytes) (hsep : ESC ∉ sep)
    (ls : Lasts) (evs : List Ev) (hesc : ∀ ev ∈ evs, ESC ∉ wrOf (ops ev.o ev.m)) :
    (runAcct sep {} evs).total.bytes = (stripEsc (bytesOf (runOut pal sep ls evs))).length := by
  rw [C19_total_bytes pal sep ls evs]
  congr 1
  have gen : ∀ (evs : List Ev) (ls : Lasts), (∀ ev ∈ evs, ESC ∉ wrOf (ops ev.o ev.m)) → ∀ rest : Bytes,
      stripEscAux .n (bytesOf (runOut pal sep ls evs) ++ rest) = plainOf (runOut pal sep ls evs) ++ stripEscAux .n rest := by
    intro evs
    induction evs with
    | nil => intro ls _ rest; rfl
    | cons ev r ih =>
      intro ls h rest
      have hev := h ev (by simp)
      have hr := ih (ls.set ev.pid (render (pal ev.pid) (ls ev.pid) ev.o ev.m).2) (fun e he => h e (by simp [he])) rest
      have hco : ESC ∉ plainOf (coordAfter sep ev.m ev.isLast) := by
        rw [plainOf_coordAfter]; unfold addedNL
        cases ev.m <;> simp [hsep] <;> (intros; decide)
      rw [runOut_cons]
      simp only [bytesOf_append, plainOf_append, List.append_assoc, render]
      rw [strip_exec _ (hp _) _ _ hev, bytesOf_coordAfter, strip_noESC _ _ hco]
      simp only [render] at hr
      rw [hr, exec_plain]
  have := gen evs ls hesc []
  simpa [stripEsc, stripEscAux] using this.symm

theorem noSetc_ops_nocolor (o : Opts) (m : Msg) (hc : o.color = false) : noSetc (ops o m) = true := by
  obtain ⟨c, f, d⟩ := o
  subst hc
  have hl : ∀ l, noSetc (lineOps l) = true := by intro l; unfold lineOps; split <;> rfl
  cases m <;> cases f <;> cases d <;>
    simp [ops, print_sysline, print_fixedstruct, print_evtx, print_journalentry, print_sysline_, print_sysline_prependdate,
      print_sysline_prependfile, print_sysline_prependfile_prependdate, print_fixedstruct_, print_fixedstruct_prependdate,
      print_fixedstruct_prependfile, print_fixedstruct_prependfile_prependdate, print_buf_, print_buf_prepend, noSetc, optB] <;>
    (apply noSetc_flatMap; intro l; simp [noSetc, hl])

/-- with `--color never`: "Printed bytes" is literally the length of stdout -/
theorem C19_total_bytes_nocolor (pal : Nat → Pal) (sep : Bytes) (ls : Lasts) (evs : List Ev)
    (hc : ∀ ev ∈ evs, ev.o.color = false) :
    (runAcct sep {} evs).total.bytes = (bytesOf (runOut pal sep ls evs)).length := by
  rw [C19_total_bytes pal sep ls evs]
  congr 1
  induction evs generalizing ls with
  | nil => rfl
  | cons ev r ih =>
    rw [runOut_cons, plainOf_append, plainOf_append, bytesOf_append, bytesOf_append, bytesOf_coordAfter,
      ih _ (fun e he => hc e (by simp [he]))]
    simp only [render]
    rw [exec_bytes_noSetc _ _ _ (noSetc_ops_nocolor _ _ (hc ev (by simp))), exec_plain]

/-- "Printed bytes equals the bytes written to stdout" for every run -/
def C19_total_bytes_full : Prop :=
  ∀ (pal : Nat → Pal) (sep : Bytes) (evs : List Ev),
    (runAcct sep {} evs).total.bytes = (bytesOf (runOut pal sep (fun _ => none) evs)).length

/-- … is false with `--color always`: the escape bytes are written but not counted -/
theorem C19_total_bytes_full_false : ¬ C19_total_bytes_full := by
  intro h
  have := h (fun _ => ⟨[27, 91, 109], [27, 91, 49, 109], [27, 91, 52, 109]⟩) []
    [⟨0, ⟨true, none, none⟩, .sysline ⟨[[120, 10]], 0, 0⟩, false, 0, 0⟩]
  revert this; decide

/-- sums over the per-file map -/
theorem runAcct_perFile_bytes (sep : Bytes) (a : Acct) (evs : List Ev) :
    sumBy (·.bytes) (runAcct sep a evs).perFile = sumBy (·.bytes) a.perFile + (evs.map (fun ev => printedOf ev.o ev.m)).sum := by
  induction evs generalizing a with
  | nil => simp [runAcct]
  | cons ev r ih =>
    simp only [runAcct, ih, account, sumBy_mapUpdate_bytes, List.map_cons, List.sum_cons]; omega

/-- C19: the per-file byte counts add up to the total less the separators and supplied newlines -/
theorem C19_per_file (sep : Bytes) (evs : List Ev) :
    sumBy (·.bytes) (runAcct sep {} evs).perFile + (evs.map (fun ev => (sep ++ addedNL ev).length)).sum
      = (runAcct sep {} evs).total.bytes := by
  rw [runAcct_perFile_bytes, runAcct_total_bytes]
  have : ∀ evs : List Ev, (evs.map (evBytes sep)).sum =
      (evs.map (fun ev => printedOf ev.o ev.m)).sum + (evs.map (fun ev => (sep ++ addedNL ev).length)).sum := by
    intro evs
    induction evs with
    | nil => rfl
    | cons e r ih => simp only [List.map_cons, List.sum_cons, ih, evBytes]; omega
  rw [this]; simp [sumBy]

def countKind (k : Kind) (evs : List Ev) : Nat := (evs.map (fun ev => if ev.m.kind = k then 1 else 0)).sum

theorem account_counts (a : Acct) (sep : Bytes) (pid : Nat) (m : Msg) (isLast : Bool) (dt : Int) (pr fl : Nat) :
    let t := (account a sep pid m isLast dt pr fl).total
    t.syslines = a.total.syslines + (if m.kind = .sysline then 1 else 0) ∧
    t.fixedstructentries = a.total.fixedstructentries + (if m.kind = .fixedstruct then 1 else 0) ∧
    t.evtxentries = a.total.evtxentries + (if m.kind = .evtx then 1 else 0) ∧
    t.journalentries = a.total.journalentries + (if m.kind = .journal then 1 else 0) ∧
    t.lines = a.total.lines + m.nlines := by
  obtain ⟨r1, r2, r3, r4, r5, _, _⟩ := coordAcct_rest a.total sep m isLast
  simp only [account, update_syslines, update_fixed, update_evtx, update_journal, update_lines] at *
  rw [r1, r2, r3, r4, r5]
  refine ⟨rfl, rfl, rfl, rfl, ?_⟩
  cases m <;> simp [Msg.kind, Msg.nlines]

theorem runAcct_counts (sep : Bytes) (a : Acct) (evs : List Ev) :
    let t := (runAcct sep a evs).total
    t.syslines = a.total.syslines + countKind .sysline evs ∧
    t.fixedstructentries = a.total.fixedstructentries + countKind .fixedstruct evs ∧
    t.evtxentries = a.total.evtxentries + countKind .evtx evs ∧
    t.journalentries = a.total.journalentries + countKind .journal evs ∧
    t.lines = a.total.lines + (evs.map (fun ev => ev.m.nlines)).sum ∧
    sumBy (·.lines) (runAcct sep a evs).perFile = sumBy (·.lines) a.perFile + (evs.map (fun ev => ev.m.nlines)).sum ∧
    sumBy msgsOf (runAcct sep a evs).perFile = sumBy msgsOf a.perFile + evs.length := by
  induction evs generalizing a with
  | nil => simp [runAcct, countKind]
  | cons ev r ih =>
    have h := ih (account a sep ev.pid ev.m ev.isLast ev.dt (printedOf ev.o ev.m) ev.flushed)
    have hc := account_counts a sep ev.pid ev.m ev.isLast ev.dt (printedOf ev.o ev.m) ev.flushed
    have hn : ev.m.kind ≠ .sysline → ev.m.nlines = 0 := by
      intro hk; cases hm : ev.m <;> simp_all [Msg.kind, Msg.nlines]
    simp only [runAcct, countKind, List.map_cons, List.sum_cons, List.length_cons] at *
    obtain ⟨h1, h2, h3, h4, h5, h6, h7⟩ := h
    obtain ⟨c1, c2, c3, c4, c5⟩ := hc
    refine ⟨by omega, by omega, by omega, by omega, by omega, ?_, ?_⟩
    · rw [h6]; simp only [account, sumBy_mapUpdate_lines]
      by_cases hk : ev.m.kind = .sysline
      · simp [hk]; omega
      · simp [hk, hn hk]
    · rw [h7]; simp only [account, sumBy_mapUpdate_msgs]; omega

/-- C19: the message counters count the printed messages of each kind; "Printed lines" is the
number of lines of the printed *text-log* messages only (records of the other kinds add none,
whatever they contain); per-file lines and messages add up to the totals -/
theorem C19_counts (sep : Bytes) (evs : List Ev) :
    let a := runAcct sep {} evs
    a.total.syslines = countKind .sysline evs ∧
    a.total.fixedstructentries = countKind .fixedstruct evs ∧
    a.total.evtxentries = countKind .evtx evs ∧
    a.total.journalentries = countKind .journal evs ∧
    a.total.lines = (evs.map (fun ev => ev.m.nlines)).sum ∧
    sumBy (·.lines) a.perFile = a.total.lines ∧
    sumBy msgsOf a.perFile = evs.length := by
  have h := runAcct_counts sep {} evs
  simp only [] at h
  obtain ⟨h1, h2, h3, h4, h5, h6, h7⟩ := h
  refine ⟨?_, ?_, ?_, ?_, ?_, ?_, ?_⟩
  · simpa using h1
  · simpa using h2
  · simpa using h3
  · simpa using h4
  · simpa using h5
  · rw [h6, h5]; simp [sumBy]
  · rw [h7]; simp [sumBy]

/-! ### first / last printed datetime -/

theorem account_dt_eq (a : Acct) (sep : Bytes) (pid : Nat) (m : Msg) (isLast : Bool) (dt : Int) (pr fl : Nat) :
    (account a sep pid m isLast dt pr fl).total.dtFirst = (a.total.updateDt dt).dtFirst ∧
    (account a sep pid m isLast dt pr fl).total.dtLast = (a.total.updateDt dt).dtLast := by
  obtain ⟨_, _, _, _, _, r6, r7⟩ := coordAcct_rest a.total sep m isLast
  cases hk : m.kind <;> simp [account, hk, SumPr.update, SumPr.updateDt, r6, r7]

theorem account_dt_some (a : Acct) (sep : Bytes) (pid : Nat) (m : Msg) (isLast : Bool) (dt : Int) (pr fl : Nat)
    {f l : Int} (hf : a.total.dtFirst = some f) (hl : a.total.dtLast = some l) :
    (account a sep pid m isLast dt pr fl).total.dtFirst = some (min dt f) ∧
    (account a sep pid m isLast dt pr fl).total.dtLast = some (max dt l) := by
  obtain ⟨h1, h2⟩ := account_dt_eq a sep pid m isLast dt pr fl
  rw [h1, h2]
  simp only [SumPr.updateDt, hf, hl]
  constructor
  · rw [Int.min_def]; split <;> split <;> simp <;> omega
  · rw [Int.max_def]; split <;> split <;> simp <;> omega

theorem account_dt_none (a : Acct) (sep : Bytes) (pid : Nat) (m : Msg) (isLast : Bool) (dt : Int) (pr fl : Nat)
    (hf : a.total.dtFirst = none) (hl : a.total.dtLast = none) :
    (account a sep pid m isLast dt pr fl).total.dtFirst = some dt ∧
    (account a sep pid m isLast dt pr fl).total.dtLast = some dt := by
  obtain ⟨h1, h2⟩ := account_dt_eq a sep pid m isLast dt pr fl
  rw [h1, h2]
  simp [SumPr.updateDt, hf, hl]

/-- C19: "Datetime printed first / last" bound every printed instant and are printed instants -/
theorem C19_first_last (sep : Bytes) (evs : List Ev) (hne : evs ≠ []) :
    ∃ f l, (runAcct sep {} evs).total.dtFirst = some f ∧ (runAcct sep {} evs).total.dtLast = some l ∧
      (∀ ev ∈ evs, f ≤ ev.dt ∧ ev.dt ≤ l) ∧ (∃ ev ∈ evs, ev.dt = f) ∧ (∃ ev ∈ evs, ev.dt = l) := by
  have gen : ∀ (evs : List Ev) (a : Acct) (f l : Int), a.total.dtFirst = some f → a.total.dtLast = some l →
      ∃ f' l', (runAcct sep a evs).total.dtFirst = some f' ∧ (runAcct sep a evs).total.dtLast = some l' ∧
        f' ≤ f ∧ l ≤ l' ∧ (∀ ev ∈ evs, f' ≤ ev.dt ∧ ev.dt ≤ l') ∧
        (f' = f ∨ ∃ ev ∈ evs, ev.dt = f') ∧ (l' = l ∨ ∃ ev ∈ evs, ev.dt = l') := by
    intro evs
    induction evs with
    | nil => intro a f l hf hl; exact ⟨f, l, hf, hl, Int.le_refl _, Int.le_refl _, by simp, Or.inl rfl, Or.inl rfl⟩
    | cons ev r ih =>
      intro a f l hf hl
      have hd := account_dt_some a sep ev.pid ev.m ev.isLast ev.dt (printedOf ev.o ev.m) ev.flushed hf hl
      obtain ⟨f', l', h1, h2, h3, h4, h5, h6, h7⟩ := ih _ _ _ hd.1 hd.2
      have m1 : min ev.dt f ≤ ev.dt := Int.min_le_left _ _
      have m2 : min ev.dt f ≤ f := Int.min_le_right _ _
      have x1 : ev.dt ≤ max ev.dt l := Int.le_max_left _ _
      have x2 : l ≤ max ev.dt l := Int.le_max_right _ _
      have mc : min ev.dt f = ev.dt ∨ min ev.dt f = f := by rw [Int.min_def]; split <;> simp
      have xc : max ev.dt l = ev.dt ∨ max ev.dt l = l := by rw [Int.max_def]; split <;> simp
      refine ⟨f', l', h1, h2, Int.le_trans h3 m2, Int.le_trans x2 h4, ?_, ?_, ?_⟩
      · intro e he
        rcases List.mem_cons.mp he with h | h
        · subst h; exact ⟨Int.le_trans h3 m1, Int.le_trans x1 h4⟩
        · exact h5 e h
      · rcases h6 with h | ⟨e, he, h⟩
        · rcases mc with c | c
          · exact Or.inr ⟨ev, by simp, by rw [h, c]⟩
          · exact Or.inl (by rw [h, c])
        · exact Or.inr ⟨e, by simp [he], h⟩
      · rcases h7 with h | ⟨e, he, h⟩
        · rcases xc with c | c
          · exact Or.inr ⟨ev, by simp, by rw [h, c]⟩
          · exact Or.inl (by rw [h, c])
        · exact Or.inr ⟨e, by simp [he], h⟩
  cases evs with
  | nil => exact absurd rfl hne
  | cons ev r =>
    have hd := account_dt_none {} sep ev.pid ev.m ev.isLast ev.dt (printedOf ev.o ev.m) ev.flushed rfl rfl
    obtain ⟨f', l', h1, h2, h3, h4, h5, h6, h7⟩ := gen r _ ev.dt ev.dt hd.1 hd.2
    refine ⟨f', l', h1, h2, ?_, ?_, ?_⟩
    · intro e he
      rcases List.mem_cons.mp he with h | h
      · subst h; exact ⟨h3, h4⟩
      · exact h5 e h
    · rcases h6 with h | ⟨e, he, h⟩
      · exact ⟨ev, by simp, h.symm⟩
      · exact ⟨e, by simp [he], h⟩
    · rcases h7 with h | ⟨e, he, h⟩
      · exact ⟨ev, by simp, h.symm⟩
      · exact ⟨e, by simp [he], h⟩

/- C19 "stdout unchanged by --summary" is structural in the model: `runOut` (stdout) has no
summary parameter and `runAcct` produces no chunks; in the source every summary update sits under
`if cli_opt_summary`, writes nothing, and the summary text goes through `eprintln!`. It is
checked on the real binary (stdout with and without `-s` compared byte for byte). -/

/-! ## C13 — lines split over blocks (`lineparts`)

`hlParts parts b e` is the loop of `print_color_line_highlight_dt!` over the parts of the first
line of a message; `hlPart` is its body, and `S4V.Gen.Print.hlPartSegs` is the same body
translated from the source on every run. -/

/-- the hand-written body is the translated one: the five cases, their comparisons, the bounds of
every `&slice[..]` and the colour of every write (a source change regenerates `hlPartSegs` and
breaks this proof) -/
theorem hlPart_matches_source (at_ : Nat) (slice : Bytes) (b e : Nat) :
    hlPart at_ slice b e = (S4V.Gen.Print.hlPartSegs at_ slice b e).flatMap segOps := by
  unfold hlPart S4V.Gen.Print.hlPartSegs
  simp only []
  split
  · simp [segOps, specOfNat]
  · split
    · simp [segOps, specOfNat]
    · split
      · simp [segOps, specOfNat]
      · split <;> simp [segOps, specOfNat]

/-- C13: whatever the partition of the line and wherever the datetime lies relative to the part
boundaries, the slices handed to `buffer_write_or_return!` are the line: nothing lost, nothing
duplicated, order kept. (Holds for every `b ≤ e`, also past the end of the line, and even if a
part were empty.) -/
theorem C13_parts_bytes (parts : List Bytes) {b e : Nat} (hbe : b ≤ e) :
    wrOf (hlParts parts b e) = parts.flatten := by
  have := tags_hlPartsAt hbe parts 0 none
  rw [← tagsOf_snd none, hlParts, this, paint_snd]

/-- the bytes a list of tagged bytes has under one spec -/
def underOf (s : Spec) (ts : List (Option Spec × UInt8)) : Bytes := (ts.filter (fun t => t.1 = some s)).map Prod.snd

/-- C13: every byte of the line is written under the text colour except exactly the bytes
`[b, e)` of the line, which are written under the datetime colour — byte by byte, in order,
whatever colour was in force before -/
theorem C13_parts_dt (parts : List Bytes) {b e : Nat} (hbe : b ≤ e) (cur : Option Spec) :
    tagsOf cur (hlParts parts b e) =
      tag .txt (parts.flatten.take b) ++ tag .dt (parts.flatten.extract b e) ++ tag .txt (parts.flatten.drop e) := by
  rw [hlParts, tags_hlPartsAt hbe parts 0 cur, paint_zero _ hbe]

theorem underOf_append (s : Spec) (a b : List (Option Spec × UInt8)) : underOf s (a ++ b) = underOf s a ++ underOf s b := by
  simp [underOf]

theorem underOf_tag (s s' : Spec) (x : Bytes) : underOf s (tag s' x) = if s' = s then x else [] := by
  induction x with
  | nil => simp [underOf, tag]
  | cons c r ih =>
    simp only [underOf, tag, List.map_cons] at *
    by_cases h : s' = s
    · simp [h] at *; exact ih
    · simp [h] at *

/-- … as byte strings: under the datetime colour exactly `line[b..e]`, under the text colour the
rest, under the default colour nothing -/
theorem C13_parts_dt_bytes (parts : List Bytes) {b e : Nat} (hbe : b ≤ e) (cur : Option Spec) :
    underOf .dt (tagsOf cur (hlParts parts b e)) = parts.flatten.extract b e ∧
    underOf .txt (tagsOf cur (hlParts parts b e)) = parts.flatten.take b ++ parts.flatten.drop e ∧
    underOf .dflt (tagsOf cur (hlParts parts b e)) = [] := by
  rw [C13_parts_dt parts hbe cur]
  simp [underOf_append, underOf_tag]

/-- corollary: a multi-part first line gives the same plain and counted streams as the one-part
line of the first half of the model, so every C13 theorem above extends to lines split over blocks -/
theorem hlParts_eq_hlLine (p : Pal) (last : Last) (parts : List Bytes) {b e : Nat} (hbe : b ≤ e) :
    plainOf (exec p last (hlParts parts b e)).1 = plainOf (exec p last (hlLine parts.flatten b e)).1 ∧
    dataOf (exec p last (hlParts parts b e)).1 = dataOf (exec p last (hlLine parts.flatten b e)).1 := by
  simp [exec_plain, exec_data, C13_parts_bytes parts hbe, wrOf_hlLine _ hbe]

/-- … and for non-empty parts (what the line reader builds) the whole byte stream, escapes
included, and the colour left set are those of the one-part line: the `prt run` rendering of the
first half of the model is right for lines split over blocks too -/
theorem hlParts_stream_eq_hlLine (p : Pal) (last : Last) (parts : List Bytes) (hne : ∀ q ∈ parts, q ≠ [])
    {b e : Nat} (hbe : b ≤ e) :
    bytesOf (exec p last (hlParts parts b e)).1 = bytesOf (exec p last (hlLine parts.flatten b e)).1 ∧
    (exec p last (hlParts parts b e)).2 = (exec p last (hlLine parts.flatten b e)).2 :=
  exec_hlParts_eq_hlLine p last parts hne hbe

/-- the hypotheses are satisfiable: `ab|cdef`, datetime `[1,4)` straddling the boundary -/
example : (∀ q ∈ [[97, 98], [99, 100, 101, 102]], q ≠ ([] : Bytes)) ∧ 1 ≤ 4 := by decide

/-- the planted defect (`&slice[$dt_end..]` for `&slice[($dt_end - at)..]` in the first case):
counter-model of the per-part body -/
def hlPart_bad (at_ : Nat) (slice : Bytes) (b e : Nat) : List Op :=
  let at_end := at_ + slice.length
  if at_ ≤ b ∧ e < at_end then
    wrNE .txt (slice.take (b - at_)) ++ wrNE .dt ((slice.take (e - at_)).drop (b - at_)) ++ wrNE .txt (slice.drop e)
  else hlPart at_ slice b e

/-- … loses bytes as soon as the datetime lies in a later part: line `ab|cdef`, datetime `[3,4)` -/
theorem bad_slice_loses_bytes :
    wrOf (hlPart_bad 0 [97, 98] 3 4 ++ hlPart_bad 2 [99, 100, 101, 102] 3 4) ≠ [97, 98, 99, 100, 101, 102] := by decide

/-! ## C19 — what a print call returns and what it puts on stdout

`printM env F o m d` runs one call of `print_sysline` / `print_fixedstruct` / `print_evtx` /
`print_journalentry` on the printer's buffer (`Env.code`: `BUFFER_USE`/`BUFFER_CAP` from the
source) and returns the tuple the coordinator adds to `summaryprinted.bytes` / `.flushed`
(`Flags.code`: the order of every `Ok((_, _))` and of every `Ok((p, f)) => …`, from the source). -/

theorem runD_snoc_flush (env : Env) (d : Dev) (ms : List MOp) :
    runD env d (ms ++ [.flush]) = ((flushD (runD env d ms).1).1, (runD env d ms).2 + (flushD (runD env d ms).1).2) := by
  rw [runD_append]; simp [runD, stepD, cnt_add_zero]

/-- with the tuple orders of the source, every print call is the flat run of its macro calls and
returns `(printed, flushed)` -/
theorem printM_code (p : Pal) (o : Opts) (m : MsgP) (d : Dev) :
    printM (Env.code p) Flags.code o m d =
      ((runD (Env.code p) d (opsM o m)).1, ((runD (Env.code p) d (opsM o m)).2.printed, (runD (Env.code p) d (opsM o m)).2.flushed)) := by
  cases m with
  | sysline s =>
    obtain ⟨c, f, dt⟩ := o
    cases c <;> cases f <;> cases dt <;>
      simp [printM, print_sysline_M, sysNoColorM, flatM, tup, opsM, sysOpsM, ncLoop_flat, runD_snoc_flush, optM,
        Flags.code, S4V.Gen.Print.retPrintedFirst, S4V.Gen.Print.lineAddStraight, cnt_add_printed, cnt_add_flushed]
  | fixedstruct b =>
    obtain ⟨c, f, dt⟩ := o
    cases c <;> cases f <;> cases dt <;>
      simp [printM, flatM, tup, retFlag, MsgP.flat, Msg.kind, Flags.code, S4V.Gen.Print.retPrintedFirst]
  | evtx b =>
    obtain ⟨c, f, dt⟩ := o
    cases c <;> cases f <;> cases dt <;>
      simp [printM, flatM, tup, retFlag, MsgP.flat, Msg.kind, Flags.code, S4V.Gen.Print.retPrintedFirst]
  | journal b =>
    obtain ⟨c, f, dt⟩ := o
    cases c <;> cases f <;> cases dt <;>
      simp [printM, flatM, tup, retFlag, MsgP.flat, Msg.kind, Flags.code, S4V.Gen.Print.retPrintedFirst]

/-- every print function ends in `buffer_flush_or_return!` or `setcolor_or_return!` -/
theorem opsM_ends (o : Opts) (m : MsgP) : endsFlushing (opsM o m) = true := by
  obtain ⟨c, f, dt⟩ := o
  cases m <;> cases c <;> cases f <;> cases dt <;>
    simp [opsM, sysOpsM, sysColorOpsM, fixedOpsM, evtxOpsM, journalOpsM, endsFlushing_append, endsFlushing_cons, endsFlushing]

theorem env_code_use (p : Pal) : (Env.code p).use = true := rfl

/-- C19: for every message (any number of lines and parts, any lengths — also far beyond the
2056-byte buffer), every option set and every colour state, from a printer with an empty buffer:
the first component of the returned tuple — what the coordinator adds to `Printed bytes` — is
the number of bytes the call wrote to stdout through `buffer_write_or_return!` (escape bytes are
written by termcolor and are not counted: finding F6); these bytes are exactly the slices of
the calls, in order; the buffer is empty again; stdout, escapes included, is what the same calls
produce without a buffer (the first half of the model), with the same final colour state; the
second component is the `flushed` count of the macros -/
theorem C19_printed_eq_written (p : Pal) (last : Last) (o : Opts) (m : MsgP) :
    let r := printM (Env.code p) Flags.code o m (Dev.fresh last)
    r.2.1 = (dataOf r.1.out).length ∧
    r.1.buf = [] ∧
    dataOf r.1.out = wrOf (erase (opsM o m)) ∧
    bytesOf r.1.out = bytesOf (exec p last (erase (opsM o m))).1 ∧
    r.1.last = (exec p last (erase (opsM o m))).2 ∧
    r.2.2 = (runD (Env.code p) (Dev.fresh last) (opsM o m)).2.flushed := by
  simp only [printM_code]
  obtain ⟨h1, h2, h3, h4⟩ := runD_spec (Env.code p) (env_code_use p) (Dev.fresh last) (opsM o m)
  have hb : (runD (Env.code p) (Dev.fresh last) (opsM o m)).1.buf = [] :=
    runD_buf_of_ends _ _ _ (opsM_ends o m)
  have e1 : pend (Dev.fresh last) = [] := rfl
  have e2 : pdata (Dev.fresh last) = [] := rfl
  have e3 : (Dev.fresh last).buf = [] := rfl
  have e4 : (Dev.fresh last).last = last := rfl
  have e5 : (Env.code p).pal = p := rfl
  rw [e1, e4, e5] at h1
  rw [e4, e5] at h2
  rw [e2] at h3
  rw [e3] at h4
  simp only [pend, pdata, hb, List.append_nil, List.nil_append, List.length_nil, Nat.zero_add, Nat.add_zero] at h1 h3 h4
  refine ⟨?_, hb, h3, h1, h2, trivial⟩
  rw [h3]; exact h4

/-- the bytes of the calls of the buffer layer are those of the first half of the model for the
same message with every line as one string: `Printed bytes` of the coordinator model
(`printedOf`) is what the code returns -/
theorem wrM_opsM (o : Opts) (m : MsgP) (hs : spanOk m.flat) : wrOf (erase (opsM o m)) = wrOf (ops o m.flat) := by
  have hcl : ∀ (pre : List MOp) (b e : Nat), b ≤ e → ∀ (first : Bool) (ls : List (List Bytes)),
      wrM (colorLoopM pre b e first ls) = ls.flatMap (fun l => wrM pre ++ l.flatten) := by
    intro pre b e hbe first ls
    induction ls generalizing first with
    | nil => rfl
    | cons l r ih =>
      simp only [colorLoopM, wrM_append, ih, List.flatMap_cons]
      cases first <;> simp [wrM_withFlush, C13_parts_bytes l hbe, wrM_append, wrM_map_wr]
  have hpl : ∀ (pre : List MOp) (b e : Nat), b ≤ e → ∀ (at_ : Nat) (ls : List Bytes),
      wrM (prependColorLoopM pre b e at_ ls) = ls.flatMap (fun l => wrM pre ++ l) := by
    intro pre b e hbe at_ ls
    induction ls generalizing at_ with
    | nil => rfl
    | cons l r ih =>
      simp only [prependColorLoopM, wrM_append, ih, List.flatMap_cons, wrM_withFlush, wrOf_hlAt l at_ hbe]
  obtain ⟨c, f, dt⟩ := o
  show wrM (opsM ⟨c, f, dt⟩ m) = _
  cases m with
  | sysline s =>
    have hs' : s.dtBeg ≤ s.dtEnd := hs
    rw [show ops ⟨c, f, dt⟩ (MsgP.sysline s).flat = print_sysline ⟨c, f, dt⟩ s.flat from rfl,
      wrOf_print_sysline _ _ hs']
    cases c
    · simp [opsM, sysOpsM, wrM_append, wrM_flatMap, wrM_optM, wrM_map_wr, decorated, SysMsgP.flat, List.flatMap_map]
    · cases f <;> cases dt <;>
        simp [opsM, sysOpsM, sysColorOpsM, wrM_append, hcl _ _ _ hs', wrM_optM, optM, decorated, SysMsgP.flat,
          List.flatMap_map, optBytes]
  | fixedstruct b =>
    have hs' : b.beg ≤ b.fin := hs
    rw [show ops ⟨c, f, dt⟩ (MsgP.fixedstruct b).flat = print_fixedstruct ⟨c, f, dt⟩ b from rfl,
      wrOf_print_fixedstruct _ _ hs']
    cases c <;> cases f <;> cases dt <;>
      simp [opsM, fixedOpsM, wrM_append, wrM_optM, optM, wrM_withFlush, wrOf_hlBuf _ hs', optBytes]
  | evtx b =>
    have hs' : b.beg ≤ b.fin := hs
    rw [show ops ⟨c, f, dt⟩ (MsgP.evtx b).flat = print_evtx ⟨c, f, dt⟩ b from rfl, wrOf_print_evtx _ _ hs']
    cases c <;> cases f <;> cases dt <;>
      simp [opsM, evtxOpsM, wrM_append, wrM_optM, optM, wrM_withFlush, wrOf_hlBuf _ hs', optBytes, plainOpts,
        wrM_flatMap, hpl _ _ _ hs', decorated]
  | journal b =>
    have hs' : b.beg ≤ b.fin := hs
    rw [show ops ⟨c, f, dt⟩ (MsgP.journal b).flat = print_journalentry ⟨c, f, dt⟩ b from rfl,
      wrOf_print_journalentry _ _ hs']
    cases c <;> cases f <;> cases dt <;>
      simp [opsM, journalOpsM, journalPreM, wrM_append, wrM_optM, optM, wrM_withFlush, wrOf_hlBuf _ hs', optBytes,
        plainOpts, wrM_flatMap, hpl _ _ _ hs', decorated]

/-- C19: the count a print call returns is the `printedOf` the accounting theorems
(`C19_total_bytes*`, `C19_per_file`) are stated with -/
theorem C19_printed_is_printedOf (p : Pal) (last : Last) (o : Opts) (m : MsgP) (hs : spanOk m.flat) :
    (printM (Env.code p) Flags.code o m (Dev.fresh last)).2.1 = printedOf o m.flat := by
  obtain ⟨h1, _, h3, _⟩ := C19_printed_eq_written p last o m
  rw [h1, h3, wrM_opsM o m hs, printedOf]

/-- C19, `--color never`: the returned count is literally the number of bytes the call put on stdout -/
theorem C19_printed_eq_stdout_nocolor (p : Pal) (last : Last) (o : Opts) (m : MsgP) (hc : o.color = false) :
    (printM (Env.code p) Flags.code o m (Dev.fresh last)).2.1 =
      (bytesOf (printM (Env.code p) Flags.code o m (Dev.fresh last)).1.out).length := by
  obtain ⟨h1, _, h3, h4, _⟩ := C19_printed_eq_written p last o m
  have hn : noSetc (erase (opsM o m)) = true := by
    obtain ⟨c, f, dt⟩ := o
    subst hc
    have hw : ∀ l : List Bytes, noSetc (erase (l.map MOp.wr)) = true := by
      intro l; induction l with
      | nil => rfl
      | cons x r ih => simpa [erase, noSetc] using ih
    have hfm : ∀ {α} (g : α → List MOp) (xs : List α), (∀ x, noSetc (erase (g x)) = true) →
        noSetc (erase (xs.flatMap g)) = true := by
      intro α g xs hg
      induction xs with
      | nil => rfl
      | cons x r ih => simp [List.flatMap_cons, erase_append, noSetc_append, hg x, ih]
    cases m <;> cases f <;> cases dt <;>
      simp [opsM, sysOpsM, fixedOpsM, evtxOpsM, journalOpsM, erase_append, noSetc_append, optM, erase, noSetc] <;>
      (apply hfm; intro l; simp [erase_append, noSetc_append, erase, noSetc, hw])
  rw [h1, h4, exec_bytes_noSetc _ _ _ hn, h3]

/-- the tuple orders of the source, except that `print_sysline_prependdate` ends in
`Ok((flushed, printed))` — the planted defect -/
def Flags.swapped : Flags :=
  { Flags.code with ret := { Flags.code.ret with print_sysline_prependdate := false } }

/-- counter-model: with that swap, any 3000-byte one-line message printed with a datetime field
returns 2 as `printed` (the two flushes: the buffer holding the field, then the oversized line
written directly) while 3001 bytes went to stdout -/
theorem swapped_printed_flushed_differs (line : Bytes) (hl : line.length = 3000) :
    let r := printM (Env.code ⟨[], [], []⟩) Flags.swapped ⟨false, none, some [68]⟩ (.sysline ⟨[[line]], 0, 0⟩) (Dev.fresh none)
    r.2 = (2, 3001) ∧ (bytesOf r.1.out).length = 3001 ∧ r.2.1 ≠ (bytesOf r.1.out).length := by
  simp [printM, print_sysline_M, sysNoColorM, ncLoop, print_line_M, runD, stepD, writeD, flushD, Flags.swapped, Flags.code,
    S4V.Gen.Print.retPrintedFirst, S4V.Gen.Print.lineAddStraight, Env.code, S4V.Gen.Print.BUFFER_USE, S4V.Gen.Print.BUFFER_CAP,
    Dev.fresh, hl, tup, addRes, cnt_add_def, bytesOf, Chunk.bytes]

/-- … while the code as it is returns (3001, 2) for the same call -/
theorem unswapped_same_call (line : Bytes) (hl : line.length = 3000) :
    (printM (Env.code ⟨[], [], []⟩) Flags.code ⟨false, none, some [68]⟩ (.sysline ⟨[[line]], 0, 0⟩) (Dev.fresh none)).2 = (3001, 2) := by
  simp [printM, print_sysline_M, sysNoColorM, ncLoop, print_line_M, runD, stepD, writeD, flushD, Flags.code,
    S4V.Gen.Print.retPrintedFirst, S4V.Gen.Print.lineAddStraight, Env.code, S4V.Gen.Print.BUFFER_USE, S4V.Gen.Print.BUFFER_CAP,
    Dev.fresh, hl, tup, addRes, cnt_add_def]

/-- the hypothesis is satisfiable -/
example : (List.replicate 3000 (120 : UInt8)).length = 3000 := List.length_replicate ..

/-- the same defect in the other place: `Ok((f, p)) => { printed += p; flushed += f; }` -/
def Flags.crossed : Flags :=
  { Flags.code with add := { Flags.code.add with print_sysline_prependdate := false } }

theorem crossed_printed_flushed_differs (line : Bytes) (hl : line.length = 3000) :
    let r := printM (Env.code ⟨[], [], []⟩) Flags.crossed ⟨false, none, some [68]⟩ (.sysline ⟨[[line]], 0, 0⟩) (Dev.fresh none)
    r.2.1 ≠ (bytesOf r.1.out).length := by
  simp [printM, print_sysline_M, sysNoColorM, ncLoop, print_line_M, runD, stepD, writeD, flushD, Flags.crossed, Flags.code,
    S4V.Gen.Print.retPrintedFirst, S4V.Gen.Print.lineAddStraight, Env.code, S4V.Gen.Print.BUFFER_USE, S4V.Gen.Print.BUFFER_CAP,
    Dev.fresh, hl, tup, addRes, cnt_add_def, bytesOf, Chunk.bytes]

/-! ### the hypotheses are satisfiable -/

example : WFPal ⟨[27, 91, 48, 109, 27, 91, 51, 55, 109], [27, 91, 48, 109], [27, 91, 48, 109, 27, 91, 52, 109]⟩ :=
  ⟨⟨[[27, 91, 48, 109], [27, 91, 51, 55, 109]], rfl, by
      intro p hp; simp at hp; rcases hp with h | h <;> subst h
      · exact ⟨[48], rfl, by decide⟩
      · exact ⟨[51, 55], rfl, by decide⟩⟩,
   ⟨[[27, 91, 48, 109]], rfl, by intro p hp; simp at hp; subst hp; exact ⟨[48], rfl, by decide⟩⟩,
   ⟨[[27, 91, 48, 109], [27, 91, 52, 109]], rfl, by
      intro p hp; simp at hp; rcases hp with h | h <;> subst h
      · exact ⟨[48], rfl, by decide⟩
      · exact ⟨[52], rfl, by decide⟩⟩⟩

example : WFLines [[97, 10], [32, 98, 10], [99]] :=
  ⟨⟨[97], rfl, by decide⟩, ⟨[32, 98], rfl, by decide⟩, Or.inr ⟨by decide, by decide⟩⟩

/-- a concrete decorated two-line message, colour on: strip gives back the message -/
example :
    stripFields [70, 58, 68, 58]
      (stripEsc (bytesOf (render ⟨[27, 91, 48, 109], [27, 91, 49, 109], [27, 91, 52, 109]⟩ none
        ⟨true, some [70, 58], some [68, 58]⟩ (.sysline ⟨[[50, 48, 32, 97, 10], [32, 98, 10]], 0, 2⟩)).1))
      = [50, 48, 32, 97, 10, 32, 98, 10] := by decide

end S4V.Props.PrintSpec
