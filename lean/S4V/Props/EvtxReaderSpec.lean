/-
Property C10 (also C03 window, C19 reader-side counters), the event-log READER as a whole:
`EvtxReader::new` (parser settings) → `analyze` (both arms of the record loop) → `next()` until `None` → `summary()`,
as `exec_evtxprocessor` drives it. Model: `S4V.Model.EvtxReader`; regenerated parts: `S4V.Gen.Evtx`,
`EVTX_ANALYZE` (`S4V.Gen.Summary`), the map key (`S4V.Gen.Keys`), `tsPassFilters` (`S4V.Gen.Filter`),
`workerEvtx` (`S4V.Gen.Worker`).

  items                 what `EvtxParser::records()` yields: `ok ts id` | `err`, in file order
  evsFrom 0 items       the `ok` items as (creation time, enumeration index) — an `err` uses up an index, nothing else
  okTs items            their creation times
  outIdx a b items      the enumeration indices of the records `next()` hands out, in order

The order / exactly-once statements are NOT re-proved here: `C10_errors_do_not_drop_records` shows that the reader's
output is `evtxPrint` of `S4V.Model.SortDrain` on the `ok` items, whatever `err` items lie between them, and
`SortSpec.C10_order` / `SummaryReaderSpec.evtx_reader_reports` are applied to that.

ASSUMPTION of the model (not a theorem, and FALSE of the evtx crate for some damaged files): `records()` yields a FINITE
list. Finding F-evtx-size0 (tools/evtx_size0_witness.py): a record whose 4-byte size field is 0 makes evtx 0.8.5 repeat
the same `Err` for ever (its chunk iterator advances by that size field after a failed record), `records()` collects them
into an unbounded Vec, and `EvtxReader::analyze` never returns. The tie's generator therefore never writes size 0.

Counter-models (`*_loses_*`, `*_would_*`): the other value of each regenerated choice, run on a concrete file.
-/
import S4V.Lemmas.EvtxReader
import S4V.Props.SortSpec
import S4V.Props.SummaryReaderSpec
import S4V.Props.WorkerProtoSpec

namespace S4V.Props.EvtxReaderSpec
open S4V.Gen.Evtx S4V.Gen.Summary S4V.Gen.Filter S4V.Gen.Keys S4V.Gen.Worker
open S4V.Model.Summary S4V.Model.SortDrain S4V.Model.EvtxReader S4V.Lemmas.EvtxReader
open S4V.Props.SummaryReaderSpec (inWin minL maxL)

/-! ### parser settings (`EvtxReader::new`) -/

/-- the regenerated builder chain does not switch chunk-checksum validation on -/
theorem C10_chunk_validation_off : PARSER_VALIDATE_CHECKSUMS = false := by decide

/-- so every chunk's items reach `analyze`, whatever its stored CRC32 -/
theorem C10_every_chunk_is_read (cs : List Chunk) :
    parserItems genCfg.validate cs = cs.flatMap (·.items) := by
  simp [parserItems, genCfg, PARSER_VALIDATE_CHECKSUMS]

/-- with validation on, each chunk with a stale CRC is replaced by one `err` -/
theorem validation_on_replaces_stale_chunks (cs : List Chunk) :
    parserItems true cs = cs.flatMap (fun c => if c.crcOk then c.items else [Item.err]) := by
  unfold parserItems
  congr 1
  funext c
  cases c.crcOk <;> simp

/-- counter-model (planted bug C10-d, `.validate_checksums(true)`): a log copied from a running system — the middle
chunk's checksum is stale, its records intact. Now: all five records. With validation on: the two records of that chunk
are gone (and an error is reported instead). -/
theorem validation_on_loses_stale_chunk :
    let cs : List Chunk := [⟨true, [.ok 10 1, .ok 20 2]⟩, ⟨false, [.ok 15 3, .ok 25 4]⟩, ⟨true, [.ok 30 5]⟩]
    (run none none cs).seq = [(1, 10), (3, 15), (2, 20), (4, 25), (5, 30)]
    ∧ (run none none cs).errorReported = false
    ∧ (runWith { genCfg with validate := true } none none cs).seq = [(1, 10), (2, 20), (5, 30)]
    ∧ (runWith { genCfg with validate := true } none none cs).errorReported = true := by decide

/-! ### `analyze`, closed form -/

theorem analyze_eq (a b : Option Int) (items : List Item) :
    analyze genCfg a b items {} =
      { ev := S4V.Model.Summary.analyze EVTX_ANALYZE a b (okTs items) {}
        events := build (((evsFrom 0 items).filter (win a b)).map fun e => (evtxKey e, e.idx))
        outOfOrder := descents none (okTs items)
        error := lastErr 0 none items
        analyzed := true } := by
  unfold S4V.Model.EvtxReader.analyze
  rw [foldl_step a b items { rd := {} } rfl rfl]
  simp [build, List.foldl_map]

/-! ### `next()` until `None` -/

/-- `pop_first` until the map is empty hands the entries out in key order -/
theorem drainNext_all_of (cfg : Cfg) (hp : cfg.popsFirst = true) (n : Nat) : ∀ (rd : Reader), rd.events.length ≤ n →
    drainNext cfg n rd = (rd.events, { rd with events := [] }) := by
  induction n with
  | zero =>
    intro rd h
    have : rd.events = [] := List.eq_nil_of_length_eq_zero (by omega)
    obtain ⟨ev, events, ooo, err, an⟩ := rd
    simp_all [drainNext]
  | succ n ih =>
    intro rd h
    obtain ⟨ev, events, ooo, err, an⟩ := rd
    cases events with
    | nil => simp [drainNext, next, hp]
    | cons x r =>
      have h' : r.length ≤ n := by simpa using h
      simp only [drainNext, next, hp, if_true]
      rw [ih ⟨ev, r, ooo, err, an⟩ h']

/-- … because the regenerated `NEXT_POPS_FIRST` is `true` -/
theorem drainNext_all (n : Nat) (rd : Reader) (h : rd.events.length ≤ n) :
    drainNext genCfg n rd = (rd.events, { rd with events := [] }) :=
  drainNext_all_of genCfg (by decide) n rd h

/-- the enumeration indices of the records handed out by `next()`, in order -/
def outIdx (a b : Option Int) (items : List Item) : List Nat :=
  let rd := analyze genCfg a b items {}
  (drainNext genCfg rd.events.length rd).1.map (·.2)

theorem run_seq (a b : Option Int) (cs : List Chunk) :
    (run a b cs).seq = (outIdx a b (cs.flatMap (·.items))).map (recAt (cs.flatMap (·.items))) := by
  simp only [run, runWith, outIdx, C10_every_chunk_is_read, List.map_map]
  rfl

/-! ### C10: every `ok` record inside the window exactly once, in (creation time, enumeration) order — whatever `err`
items lie between them -/

theorem evsFrom_ge (items : List Item) : ∀ (k : Nat), ∀ e ∈ evsFrom k items, k ≤ e.idx := by
  induction items with
  | nil => intro k e he; simp [evsFrom] at he
  | cons it r ih =>
    intro k e he
    cases it with
    | ok ts id =>
      simp only [evsFrom, List.mem_cons] at he
      rcases he with rfl | he
      · exact Nat.le_refl _
      · have := ih (k + 1) e he; omega
    | err => have := ih (k + 1) e he; omega

/-- enumeration indices strictly increase along the file -/
theorem evsFrom_pairwise (items : List Item) : ∀ (k : Nat),
    (evsFrom k items).Pairwise (fun r s => r.idx < s.idx) := by
  induction items with
  | nil => intro k; simp [evsFrom]
  | cons it r ih =>
    intro k
    cases it with
    | ok ts id =>
      simp only [evsFrom, List.pairwise_cons]
      exact ⟨fun e he => by have := evsFrom_ge r (k + 1) e he; show k < e.idx; omega, ih (k + 1)⟩
    | err => exact ih (k + 1)

/-- the reader IS the map pipeline of `S4V.Model.SortDrain` on the `ok` items: an `Err(_)` from the parser neither
ends the loop nor disturbs the keys (because the regenerated `ERR_ARM_EXIT` is `next`) -/
theorem C10_errors_do_not_drop_records (a b : Option Int) (items : List Item) :
    outIdx a b items = evtxPrint (evsFrom 0 items) a b := by
  simp only [outIdx, analyze_eq]
  rw [drainNext_all]
  · rfl
  · exact Nat.le_refl _

/-- … hence (by `SortSpec.C10_order`) the output is the stable sort by creation time of the `ok` records inside the
window -/
theorem C10_reader_order (a b : Option Int) (items : List Item) :
    outIdx a b items =
      (stableSort (fun e => (e.ts, 0, 0))
        ((evsFrom 0 items).filter fun e => tsPassFilters e.ts a b == .InRange)).map (·.idx) := by
  rw [C10_errors_do_not_drop_records]
  exact SortSpec.C10_order (evsFrom_pairwise items 0) a b

/-- … each exactly once and nothing else -/
theorem C10_reader_each_once (a b : Option Int) (items : List Item) :
    (outIdx a b items).Perm
      (((evsFrom 0 items).filter fun e => tsPassFilters e.ts a b == .InRange).map (·.idx)) := by
  rw [C10_reader_order]
  exact (S4V.Lemmas.SortDrain.stableSort_perm _ _).map _

theorem C10_reader_nodup (a b : Option Int) (items : List Item) : (outIdx a b items).Nodup := by
  rw [(C10_reader_each_once a b items).nodup_iff, List.Nodup, List.pairwise_map]
  exact ((evsFrom_pairwise items 0).sublist List.filter_sublist).imp (fun h => Nat.ne_of_lt h)

/-! #### the same, on what is printed: `(payload id, creation time)` -/

/-- the `ok` items as `(creation time, payload id)`, in file order -/
def okRecs : List Item → List (Int × Nat)
  | [] => []
  | .ok ts id :: r => (ts, id) :: okRecs r
  | .err :: r => okRecs r

theorem okRecs_filter_isOk (items : List Item) : okRecs (items.filter (·.isOk)) = okRecs items := by
  induction items with
  | nil => rfl
  | cons it r ih =>
    have h1 : ∀ ts id, (Item.ok ts id).isOk = true := fun _ _ => rfl
    have h2 : Item.err.isOk = false := rfl
    cases it <;> simp [okRecs, List.filter_cons, ih, h1, h2]

theorem evsFrom_lookup (r : List Item) : ∀ (pre : List Item), ∀ e ∈ evsFrom pre.length r,
    ∃ id, (pre ++ r)[e.idx]? = some (Item.ok e.ts id) := by
  induction r with
  | nil => intro pre e he; simp [evsFrom] at he
  | cons it r ih =>
    intro pre e he
    have happ : pre ++ it :: r = (pre ++ [it]) ++ r := by simp
    cases it with
    | ok ts id =>
      simp only [evsFrom, List.mem_cons] at he
      rcases he with rfl | he
      · exact ⟨id, by simp⟩
      · have := ih (pre ++ [Item.ok ts id]) e (by simpa using he)
        rw [happ]; exact this
    | err =>
      have := ih (pre ++ [Item.err]) e (by simpa [evsFrom] using he)
      rw [happ]; exact this

theorem recAt_of_mem {items : List Item} {e : Ev} (he : e ∈ evsFrom 0 items) :
    (recAt items e.idx).2 = e.ts := by
  obtain ⟨id, h⟩ := evsFrom_lookup items [] e (by simpa using he)
  simp only [List.nil_append] at h
  simp [recAt, h]

def pay (items : List Item) (e : Ev) : Int × Nat := (e.ts, (recAt items e.idx).1)

theorem evsFrom_map_pay (r : List Item) : ∀ (pre : List Item),
    (evsFrom pre.length r).map (pay (pre ++ r)) = okRecs r := by
  induction r with
  | nil => intro pre; simp [evsFrom, okRecs]
  | cons it r ih =>
    intro pre
    have happ : pre ++ it :: r = (pre ++ [it]) ++ r := by simp
    cases it with
    | ok ts id =>
      have := ih (pre ++ [Item.ok ts id])
      rw [← happ] at this
      simp only [List.length_append, List.length_cons, List.length_nil] at this
      simp [evsFrom, okRecs, this, pay, recAt]
    | err =>
      have := ih (pre ++ [Item.err])
      rw [← happ] at this
      simp only [List.length_append, List.length_cons, List.length_nil] at this
      simp [evsFrom, okRecs, this]

/-- C10 on the messages sent: they are the `ok` records inside the window, stably sorted by creation time — an
expression in which the `err` items do not occur -/
theorem C10_reader_payloads (a b : Option Int) (cs : List Chunk) :
    (run a b cs).seq =
      (stableSort (fun p : Int × Nat => (p.1, 0, 0))
        ((okRecs (cs.flatMap (·.items))).filter fun p => tsPassFilters p.1 a b == .InRange)).map
        fun p => (p.2, p.1) := by
  rw [run_seq, C10_reader_order, List.map_map]
  have hp := evsFrom_map_pay (cs.flatMap (·.items)) []
  simp only [List.nil_append, List.length_nil] at hp
  rw [← hp, List.filter_map, S4V.Lemmas.SortDrain.stableSort_map, List.map_map]
  apply List.map_congr_left
  intro e he
  have he' : e ∈ evsFrom 0 (cs.flatMap (·.items)) :=
    (List.mem_filter.1 (S4V.Lemmas.SortDrain.mem_stableSort.1 he)).1
  have := recAt_of_mem he'
  simp only [Function.comp, pay]
  rw [← this]

/-- removing the unreadable records from the parser's output changes nothing in what is sent -/
theorem C10_errors_are_transparent (a b : Option Int) (items : List Item) :
    (run a b [⟨true, items⟩]).seq = (run a b [⟨true, items.filter (·.isOk)⟩]).seq := by
  rw [C10_reader_payloads, C10_reader_payloads]
  simp [okRecs_filter_isOk]

-- non-vacuity: errors before, between and after the records; a tie (indices 1 and 4); both bounds hit
example :
    let items : List Item := [.err, .ok 30 7, .err, .err, .ok 30 8, .ok 10 9, .ok 31 1, .err, .ok 9 2, .ok 20 3, .err]
    outIdx (some 10) (some 30) items = [5, 9, 1, 4]
    ∧ evsFrom 0 items = [⟨30, 1⟩, ⟨30, 4⟩, ⟨10, 5⟩, ⟨31, 6⟩, ⟨9, 8⟩, ⟨20, 9⟩]
    ∧ (run (some 10) (some 30) [⟨true, items⟩]).seq = [(9, 10), (3, 20), (7, 30), (8, 30)]
    ∧ (run (some 10) (some 30) [⟨true, items.filter (·.isOk)⟩]).seq = [(9, 10), (3, 20), (7, 30), (8, 30)] := by decide

/-! ### C19: the reader's counters and first/last datetimes -/

theorem lastErr_isSome (items : List Item) : ∀ (k : Nat) (e : Option Nat),
    (lastErr k e items).isSome = (e.isSome || items.any (fun it => !it.isOk)) := by
  induction items with
  | nil => intro k e; simp [lastErr]
  | cons it r ih =>
    intro k e
    cases it with
    | ok ts id => simp [lastErr, ih, Item.isOk]
    | err => simp [lastErr, ih, Item.isOk]

/-- what `summary()` reports after `analyze`: `evtx_reader_reports` of `SummaryReaderSpec` applies to the `ok` items —
the `err` items are not counted as processed, they only set the error text -/
theorem C19_reader_counters (a b : Option Int) (items : List Item) :
    let rd := analyze genCfg a b items {}
    let recs := okTs items
    let acc := recs.filter (inWin a b)
    rd.ev.processed = recs.length ∧ rd.ev.accepted = acc.length ∧
    rd.ev.firstProcessed = minL recs ∧ rd.ev.lastProcessed = maxL recs ∧
    rd.ev.firstAccepted = minL acc ∧ rd.ev.lastAccepted = maxL acc ∧
    rd.outOfOrder = descents none recs ∧
    rd.error.isSome = items.any (fun it => !it.isOk) ∧ rd.analyzed = true := by
  obtain ⟨h1, h2, _, h4, h5, h6, h7⟩ := SummaryReaderSpec.evtx_reader_reports a b (okTs items)
  simp only [analyze_eq, lastErr_isSome]
  refine ⟨h1, h2, h4, h5, h6, h7, ?_⟩
  simp

/-- each `SummaryEvtxReader` field reports the reader field of the same meaning (regenerated `SUMMARY_SOURCES`) -/
theorem C19_summary_fields (rd : Reader) (fsz : Nat) :
    summary rd fsz .processed = .n rd.ev.processed ∧ summary rd fsz .accepted = .n rd.ev.accepted ∧
    summary rd fsz .firstProcessed = .t rd.ev.firstProcessed ∧ summary rd fsz .lastProcessed = .t rd.ev.lastProcessed ∧
    summary rd fsz .firstAccepted = .t rd.ev.firstAccepted ∧ summary rd fsz .lastAccepted = .t rd.ev.lastAccepted ∧
    summary rd fsz .filesz = .n fsz ∧ summary rd fsz .outOfOrder = .n rd.outOfOrder := by
  refine ⟨rfl, rfl, rfl, rfl, rfl, rfl, rfl, rfl⟩

/-- "out of order" counts the records older than the record stored before them, over ALL `ok` records (the block
precedes the window filter) -/
example : descents none [30, 30, 10, 31, 9, 20] = 2
    ∧ (analyze genCfg (some 25) none [.ok 30 1, .err, .ok 30 2, .ok 10 3, .ok 31 4, .ok 9 5, .ok 20 6] {}).outOfOrder = 2 := by
  decide

/-! ### counter-models: the other values of the regenerated choices -/

/-- `break` / `return` in the `Err` arm: everything stored after the first unreadable record is lost -/
theorem err_arm_break_loses_the_rest :
    let cs : List Chunk := [⟨true, [.ok 10 1, .err, .ok 5 2, .ok 20 3]⟩]
    (run none none cs).seq = [(2, 5), (1, 10), (3, 20)]
    ∧ (runWith { genCfg with errExit := .leaveLoop } none none cs).seq = [(1, 10)]
    ∧ (runWith { genCfg with errExit := .returnEarly } none none cs).seq = [(1, 10)]
    ∧ (runWith { genCfg with errExit := .returnEarly } none none cs).rd.analyzed = false
    ∧ (run none none cs).rd.analyzed = true := by decide

/-- an `Err` arm that does not keep the error: a damaged file is reported as clean -/
theorem err_arm_without_store_hides_error :
    let cs : List Chunk := [⟨true, [.ok 10 1, .err]⟩]
    (run none none cs).errorReported = true
    ∧ (runWith { genCfg with errStores := false } none none cs).errorReported = false := by decide

/-- `pop_last` instead of `pop_first`: newest first -/
theorem pop_last_would_reverse :
    let cs : List Chunk := [⟨true, [.ok 20 1, .ok 10 2, .ok 20 3]⟩]
    (run none none cs).seq = [(2, 10), (1, 20), (3, 20)]
    ∧ (runWith { genCfg with popsFirst := false } none none cs).seq = [(3, 20), (1, 20), (2, 10)] := by decide

/-- the out-of-order block behind the window filter would count only among accepted records -/
theorem ooo_behind_filter_would_differ :
    let cs : List Chunk := [⟨true, [.ok 30 1, .ok 10 2, .ok 40 3]⟩]
    (run (some 25) none cs).rd.outOfOrder = 1
    ∧ (runWith { genCfg with oooBeforeFilter := false } (some 25) none cs).rd.outOfOrder = 0 := by decide

/-! ### the worker loop (`exec_evtxprocessor`) -/

/-- the regenerated call order: open, analyze, drain with `next()`, `summary_complete()`, drop the reader (and its
temporary file), only then the `FileSummary`; `analyze` gets (after, before) in that order -/
theorem W_evtx_steps :
    WORKER_STEPS = [.new, .analyze, .drainNext, .summaryComplete, .dropReader, .sendSummary]
    ∧ WORKER_ANALYZE_ARGS = (.after, .before) := by decide

/-- were the two bounds passed the other way round, a window would select the wrong records -/
example :
    let cs : List Chunk := [⟨true, [.ok 10 1, .ok 20 2, .ok 30 3]⟩]
    (run (some 15) none cs).seq = [(2, 20), (3, 30)] ∧ (run none (some 15) cs).seq = [(1, 10)] := by decide

open S4V.Model.WorkerProto in
/-- the drain loop of the regenerated skeleton: any number of `NewMessage(_, false)`, then the `FileSummary(ok)` -/
theorem W_evtx_loop (env : Env) (st : Store) (hst : st = initStore) (n : Nat) :
    Exec env [.loop [.ite .opaque [] [.brk], .set 0 (some false), .send (.newMessage (.var 0))],
              .send (.fileSummary .ok)] st
      (List.replicate n (Ev.msg false) ++ [Ev.summary true]) .normal st := by
  subst hst
  induction n with
  | zero =>
    have hb : Exec env [.ite .opaque [] [.brk], .set 0 (some false), .send (.newMessage (.var 0))] initStore [] .brk initStore :=
      Exec.iteAbrupt (c := false) rfl (Exec.brk _ _) (by decide)
    have hk : Exec env [.send (.fileSummary .ok)] initStore [Ev.summary true] .normal initStore :=
      Exec.send rfl (Exec.nil _)
    simpa using Exec.loopBrk hb hk
  | succ n ih =>
    have hbody : Exec env [.ite .opaque [] [.brk], .set 0 (some false), .send (.newMessage (.var 0))] initStore
        ([] ++ [Ev.msg false]) .normal initStore :=
      Exec.iteNormal (c := true) rfl (Exec.nil _)
        (Exec.set (b := false) (by simp [setVals]) (Exec.send (by decide) (Exec.nil _)))
    have := Exec.loopIter hbody (Or.inl rfl) ih
    simpa [List.replicate_succ] using this

open S4V.Model.WorkerProto in
/-- what the coordinator receives from the worker of an event-log file that opens: `FileInfo(ok)`, one
`NewMessage(_, is_last = false)` per record handed out by `next()`, `FileSummary(ok)` — producible by the regenerated
skeleton `workerEvtx` for every count -/
theorem W_evtx_ok_trace (env : Env) (n : Nat) :
    Produces env workerEvtx ([Ev.fileInfo true] ++ List.replicate n (Ev.msg false) ++ [Ev.summary true]) := by
  refine ⟨.normal, initStore, ?_, Or.inl rfl⟩
  unfold workerEvtx
  have h := W_evtx_loop env initStore rfl n
  have h2 : Exec env (.send (.fileInfo .ok) :: [.loop [.ite .opaque [] [.brk], .set 0 (some false), .send (.newMessage (.var 0))],
      .send (.fileSummary .ok)]) initStore (Ev.fileInfo true :: (List.replicate n (Ev.msg false) ++ [Ev.summary true])) .normal initStore :=
    Exec.send rfl h
  have := Exec.iteNormal (g := .opaque) (a := []) (b := [.send (.fileInfo .err), .send (.fileSummary .err), .ret])
    (c := true) (env := env) (st := initStore) rfl (Exec.nil _) h2
  simpa using this

open S4V.Model.WorkerProto in
/-- … and of one that does not (`EvtxReader::new` fails: `!` in the tie): `FileInfo(err)`, `FileSummary(err)` -/
theorem W_evtx_new_failed_trace (env : Env) :
    Produces env workerEvtx [Ev.fileInfo false, Ev.summary false] := by
  refine ⟨.ret, initStore, ?_, Or.inr rfl⟩
  unfold workerEvtx
  exact Exec.iteAbrupt (c := false) rfl
    (Exec.send rfl (Exec.send rfl (Exec.ret _ _))) (by decide)

end S4V.Props.EvtxReaderSpec
