/-
Properties C08 and C12 — the record walk of `FixedStructReader` for EVERY block size `≥ 1`.

`S4V.Props.FixedWalkSpec` proves `readData_spec`, `preprocess_spec`, `walk_spec`, `C08_walk_is_stable_sort` for requests
spanning at most two blocks (block size `≥` record size). `S4V.Lemmas.FixedWalkMany` proves the remaining arm of
`BlockReader::read_data` / `read_data_to_buffer` (Many: first partial block, `skip(1).take(len-2)` whole blocks, last
partial block) exact, so `ReadsExact d I span` holds for every `span`, and the theorems are restated here without the
`bs ≥ sz` / `bs ≥ tvSz` hypotheses:

* `readData_spec_any`            `read_data_to_buffer(beg, end, false, buf)` = `d[beg, min end |d|)`, for every block size and
                                 every request; `Done` iff empty, `Err` iff the buffer is shorter;
* `preprocess_spec_any`, `walk_spec_any`, `C08_walk_is_stable_sort_any`
* `runOut_spec`                  what `new` + the worker loop deliver (error kind of `new`, or the sequence sent, the
                                 counters, `first_entry_fileoffset`, the map size) is a function of the file alone;
* `C12_fixed_blocksz_independent`  hence the same for any two block sizes `≥ 1` (plain reader), and
  `C12_fixed_reader_independent`   for any two faithful readers (plain at any block size / streamed with blocks kept).

The Many arm as coded was found EXACT (exhaustively on small cases against the spec, in the model and on the real code
through `s4h fwalk` `rd` requests): there is no `_full_false` here.

Counter-models (`many_*_wrong`): the off-by-one edits of the five regenerated facts of the Many arm
(`S4V.Model.FixedWalkMany.ManyCfg`) each make `ReadDataSpecAny` false on a 3- or 6-byte file.
-/
import S4V.Lemmas.FixedWalkMany
import S4V.Model.FixedWalkMany
import S4V.Props.FixedWalkSpec

namespace S4V.Props.FixedWalkManySpec
open S4V.Gen.Blocks S4V.Gen.Stream S4V.Gen.Keys S4V.Gen.FixedWalk S4V.Model.Lines S4V.Model.Stream
  S4V.Model.SortDrain S4V.Model.FixedWalk S4V.Model.FixedWalkMany S4V.Lemmas.SortDrain S4V.Lemmas.Stream
  S4V.Lemmas.StreamKeep S4V.Lemmas.FixedWalk S4V.Lemmas.FixedWalkRead S4V.Lemmas.FixedWalkMany S4V.Props.FixedWalkSpec

/-! ### `read_data_to_buffer` -/

/-- the specification of one `read_data_to_buffer(beg, end, false, buffer[..len])` on a file with content `d` -/
def readSpec (d : Bytes) (beg e len : Nat) : R3 Bytes :=
  if beg ≥ min e d.length then R3.done
  else if len < min e d.length - beg then R3.err
  else R3.found (sl d beg (min e d.length))

/-- **readData_spec_any** — from any state of a faithful reader (plain file: any history of reads and drops; streamed file
with blocks kept: any history), for EVERY block size `bs ≥ 1` (`Faithful.hbs`) and EVERY request `[beg, end)` — one
block, two blocks or any number of blocks — `read_data_to_buffer` returns exactly `d[beg, min end |d|)`: `Done` iff that
range is empty, `Err` iff the buffer is shorter than the range; the reader invariant is re-established. -/
theorem readData_spec_any {d : Bytes} {bs : Nat} {I : Rd → Prop} (hF : Faithful d bs I) (r : Rd) (beg e len : Nat)
    (hr : I r) (hlen : 1 ≤ len) :
    ∃ r', I r' ∧ readDataToBuffer r beg e false len = (readSpec d beg e len, r') := by
  obtain ⟨r', h1, _, h3⟩ := read_exact_any hF r beg e len hr hlen
  exact ⟨r', h1, h3⟩

/-- the plain reader answers requests of any length exactly -/
theorem plain_exact_any (d : Bytes) (bs : Nat) (hbs : 1 ≤ bs) (span : Nat) : ReadsExact d (PlainI d bs) span :=
  readsExact_any (faithful_plain d bs hbs) span

/-- the streamed reader that keeps its blocks answers requests of any length exactly -/
theorem keep_exact_any (d : Bytes) (bs : Nat) (hbs : 1 ≤ bs) (span : Nat) : ReadsExact d (KeepI d bs) span :=
  readsExact_any (faithful_keep d bs hbs) span

/-- `readData_spec_any` on a fresh plain reader: every block size, every request -/
theorem readData_plain_any (d : Bytes) (bs : Nat) (hbs : 1 ≤ bs) (beg e len : Nat) (hlen : 1 ≤ len) :
    (readDataToBuffer (Rd.new .plain bs d [] []) beg e false len).1 = readSpec d beg e len := by
  obtain ⟨r', _, h⟩ := readData_spec_any (faithful_plain d bs hbs) (Rd.new .plain bs d [] []) beg e len
    ⟨PInv.new bs d [] [] hbs, rfl⟩ hlen
  rw [h]

-- non-vacuity: block size 1, a 5-block request (Many arm), then a request running past the end of the file
example : ∃ r', PlainI [1, 2, 3, 4, 5, 6, 7] 1 r' ∧
    readDataToBuffer (Rd.new .plain 1 [1, 2, 3, 4, 5, 6, 7] [] []) 1 6 false 5 = (R3.found [2, 3, 4, 5, 6], r') :=
  readData_spec_any (faithful_plain [1, 2, 3, 4, 5, 6, 7] 1 (by decide)) _ 1 6 5 ⟨PInv.new 1 _ [] [] (by decide), rfl⟩ (by decide)
example : ∀ bs ∈ [1, 2, 3],
    (readDataSeq (Rd.new .plain bs [1, 2, 3, 4, 5, 6, 7] [] []) [(1, 6, false, 5), (2, 99, false, 7), (0, 7, false, 6), (7, 9, false, 1)]).1
      = [.found [2, 3, 4, 5, 6], .found [3, 4, 5, 6, 7], .err, .done] := by decide

/-! ### counter-models of the Many arm -/

/-- `readData_spec_any` for an implementation `f` of `read_data_to_buffer`, on fresh plain readers -/
def ReadDataSpecAny (f : Rd → Nat → Nat → Bool → Nat → R3 Bytes × Rd) : Prop :=
  ∀ (bs : Nat) (d : Bytes) (beg e len : Nat), 1 ≤ bs → 1 ≤ len →
    (f (Rd.new .plain bs d [] []) beg e false len).1 = readSpec d beg e len

/-- the source values satisfy it -/
theorem readDataSpecAny_source : ReadDataSpecAny (readDataToBufferC mcfg0) := by
  intro bs d beg e len hbs hlen
  rw [readDataToBufferC_mcfg0]
  exact readData_plain_any d bs hbs beg e len hlen

/-- counter-model — `take(len_ - 2)` → `take(len_ - 1)`: the last block is copied twice (one byte too many, or `Err` on a
buffer of the right size) -/
theorem many_take_len_minus_one_wrong : ¬ ReadDataSpecAny (readDataToBufferC { mcfg0 with midLess := 1 }) := by
  intro h
  exact absurd (h 1 [1, 2, 3] 0 3 3 (by decide) (by decide)) (by decide)

example : (readDataToBufferC { mcfg0 with midLess := 1 } (Rd.new .plain 1 [1, 2, 3] [] []) 0 3 false 3).1 = .err
    ∧ (readDataToBufferC { mcfg0 with midLess := 1 } (Rd.new .plain 1 [1, 2, 3] [] []) 0 3 false 4).1 = .found [1, 2, 3, 3] := by
  decide

/-- counter-model — `take(len_ - 2)` → `take(len_ - 3)`: a middle block is lost -/
theorem many_take_len_minus_three_wrong : ¬ ReadDataSpecAny (readDataToBufferC { mcfg0 with midLess := 3 }) := by
  intro h
  exact absurd (h 1 [1, 2, 3] 0 3 3 (by decide) (by decide)) (by decide)

/-- counter-model — `skip(1)` → `skip(0)`: the first block is copied twice -/
theorem many_skip_zero_wrong : ¬ ReadDataSpecAny (readDataToBufferC { mcfg0 with midSkip := 0 }) := by
  intro h
  exact absurd (h 1 [1, 2, 3] 0 3 4 (by decide) (by decide)) (by decide)

/-- counter-model — `skip(1)` → `skip(2)` -/
theorem many_skip_two_wrong : ¬ ReadDataSpecAny (readDataToBufferC { mcfg0 with midSkip := 2 }) := by
  intro h
  exact absurd (h 1 [1, 2, 3] 0 3 3 (by decide) (by decide)) (by decide)

/-- counter-model — `while bo1 <= bo2` → `while bo1 < bo2`: the last block is never read, the data stops short -/
theorem many_loop_exclusive_wrong : ¬ ReadDataSpecAny (readDataToBufferC { mcfg0 with loopInclusive := false }) := by
  intro h
  exact absurd (h 1 [1, 2, 3] 0 3 3 (by decide) (by decide)) (by decide)

example : (readDataToBufferC { mcfg0 with loopInclusive := false } (Rd.new .plain 1 [1, 2, 3] [] []) 0 3 false 3).1
    = .found [1, 2] := by decide

/-- counter-model — first part one byte shorter (`len - bi1 - 1`): a byte at the first block boundary is lost -/
theorem many_first_short_wrong :
    ¬ ReadDataSpecAny (readDataToBufferC { mcfg0 with firstN := fun bi1 _ len => len - bi1 - 1 }) := by
  intro h
  exact absurd (h 2 [1, 2, 3, 4, 5, 6] 0 6 6 (by decide) (by decide)) (by decide)

/-- counter-model — first part one byte longer (`len - bi1 + 1`): the slice `[bi1 .. bi1 + n]` leaves the block, a panic -/
theorem many_first_long_wrong :
    ¬ ReadDataSpecAny (readDataToBufferC { mcfg0 with firstN := fun bi1 _ len => len - bi1 + 1 }) := by
  intro h
  exact absurd (h 2 [1, 2, 3, 4, 5, 6] 0 6 6 (by decide) (by decide)) (by decide)

/-- counter-model — last part one byte shorter (`bi2 - 1`): the last byte is lost -/
theorem many_last_short_wrong :
    ¬ ReadDataSpecAny (readDataToBufferC { mcfg0 with lastN := fun _ bi2 _ => bi2 - 1 }) := by
  intro h
  exact absurd (h 2 [1, 2, 3, 4, 5, 6] 0 6 6 (by decide) (by decide)) (by decide)

/-- counter-model — last part one byte longer (`bi2 + 1`): a byte beyond `end` is returned -/
theorem many_last_long_wrong :
    ¬ ReadDataSpecAny (readDataToBufferC { mcfg0 with lastN := fun _ bi2 _ => bi2 + 1 }) := by
  intro h
  exact absurd (h 2 [1, 2, 3, 4, 5, 6] 0 5 6 (by decide) (by decide)) (by decide)

/-- the generated facts of the Many arm the theorems above rest on -/
theorem generated_facts_many :
    RD_MANY_LOOP_INCLUSIVE = true ∧ MANY_MID_SKIP = 1 ∧ MANY_MID_LESS = 2
    ∧ manyFirstN 3 5 8 = 5 ∧ manyFirstBeg 3 5 5 8 = 3 ∧ manyFirstEnd 3 5 5 8 = 8 ∧ manyFirstDstFromAt = false
    ∧ manyMidN 3 5 8 = 8 ∧ manyMidBeg 3 5 8 8 = 0 ∧ manyMidEnd 3 5 8 8 = 8 ∧ manyMidDstFromAt = true
    ∧ manyLastN 3 5 8 = 5 ∧ manyLastBeg 3 5 5 8 = 0 ∧ manyLastEnd 3 5 5 8 = 5 ∧ manyLastDstFromAt = true
    ∧ LEN_CHECK_STRICT = true := by decide

/-! ### `preprocess_timevalues`, the walk: every block size -/

/-- **preprocess_spec_any** — `preprocess_spec` for every block size `≥ 1` (a time value may span any number of blocks) -/
theorem preprocess_spec_any {d : Bytes} {bs : Nat} {I : Rd → Prop} (hF : Faithful d bs I) (p : P)
    (a b : Option (Int × Int)) (hsz : 1 ≤ p.sz) (htv : 1 ≤ p.tvSz) (hin : p.tvOff + p.tvSz ≤ p.sz)
    (hdiv : d.length % p.sz = 0) (r : Rd) (hr : I r) :
    ∃ r' k, I r' ∧ r'.bs = r.bs ∧
      preprocess cfg0 p a b r =
        (.found (k, build (((recsOf p d).filter (fixedKeep a b)).map fun x => (fixedKey x, x.idx))), r')
      ∧ k.total = (nonNull (recsOf p d)).length
      ∧ k.invalid = noneCount p d (offs p.sz (d.length / p.sz) 0)
      ∧ k.noPass = ((nonNull (recsOf p d)).filter (fun x => !fixedKeep a b x)).length
      ∧ k.ooo = descents none (nonNull (recsOf p d)) :=
  preprocess_spec (readsExact_any hF p.tvSz) p a b hsz htv hin (Nat.le_refl _) hdiv r hr

/-- **walk_spec_any** — `walk_spec` for every block size `≥ 1` (a record may span any number of blocks): one entry per
key of the map, in ascending `(tv, fo)` order, each with the bytes `d[fo, fo + sz)`, then `Done` -/
theorem walk_spec_any {d : Bytes} {bs : Nat} {I : Rd → Prop} (hF : Faithful d bs I) (p : P)
    (a b : Option (Int × Int)) (hsz : 1 ≤ p.sz) (htv : 1 ≤ p.tvSz) (hin : p.tvOff + p.tvSz ≤ p.sz)
    (hdiv : d.length % p.sz = 0) (r : Rd) (hr : I r) (scored : List (Nat × Bytes)) (hsc : CacheOk p d scored)
    (buflen : Nat) (hbuf : p.sz ≤ buflen) {fr : FR} {k : Cnt} {fef mx : Nat}
    (hnew : frNew cfg0 p a b r scored = .ok fr k fef mx) :
    fr.map = build (((recsOf p d).filter (fixedKeep a b)).map fun x => (fixedKey x, x.idx))
    ∧ ∃ fr', walk cfg0 p buflen fr = (fr.map.map (emitOf p d), .done, fr') :=
  walk_spec (readsExact_any hF p.sz) p a b hsz htv hin (Nat.le_refl _) hdiv r hr scored hsc buflen hbuf hnew

/-- **C08_walk_is_stable_sort_any** — for every block size `≥ 1`, plain or streamed (blocks kept): the offsets the worker
visits are the non-null in-window records of the file stably sorted by time value (equal times in file order) -/
theorem C08_walk_is_stable_sort_any {d : Bytes} {bs : Nat} {I : Rd → Prop} (hF : Faithful d bs I) (p : P)
    (a b : Option (Int × Int)) (hsz : 1 ≤ p.sz) (htv : 1 ≤ p.tvSz) (hin : p.tvOff + p.tvSz ≤ p.sz)
    (hdiv : d.length % p.sz = 0) (r : Rd) (hr : I r) (scored : List (Nat × Bytes)) (hsc : CacheOk p d scored)
    (buflen : Nat) (hbuf : p.sz ≤ buflen) {fr : FR} {k : Cnt} {fef mx : Nat}
    (hnew : frNew cfg0 p a b r scored = .ok fr k fef mx) :
    ∃ fr', walk cfg0 p buflen fr = (fr.map.map (emitOf p d), .done, fr')
      ∧ fr.map.map (·.2) =
          (stableSort (fun x : Rec => (x.tv.1, x.tv.2, 0)) ((recsOf p d).filter (fixedKeep a b))).map (·.idx) :=
  C08_walk_is_stable_sort (readsExact_any hF p.sz) p a b hsz htv hin (Nat.le_refl _) hdiv r hr scored hsc buflen hbuf hnew

-- non-vacuity: the toy layout (2-byte records) at block size 1 — every record spans two blocks, and with `pW` below
-- (5-byte records) every record is assembled by the Many arm
example : (match frNew cfg0 pT none none (rdNew cfg0 .plain 1 dT [] []) [] with | .ok .. => true | _ => false) = true := by
  decide

/-! ### C12: what is delivered does not depend on the block size -/

/-- what `FixedStructReader::new` + the worker loop deliver -/
inductive Out where
  /-- `new` succeeded: entries sent, how the loop ended, the counters of `preprocess_timevalues`,
  `first_entry_fileoffset`, `map_tvpair_fo_max_len` -/
  | sent (es : List Emit) (e : End) (k : Cnt) (firstEntryFo maxLen : Nat)
  | noValid
  | notInWindow
  | io
  | panic
  deriving DecidableEq, Repr, Inhabited

/-- `new` from reader state `r` (with `scored` cached by `score_file`), then the worker loop -/
def runOut (p : P) (a b : Option (Int × Int)) (r : Rd) (scored : List (Nat × Bytes)) (buflen : Nat) : Out :=
  match frNew cfg0 p a b r scored with
  | .ok fr k fef mx => let w := walk cfg0 p buflen fr; .sent w.1 w.2.1 k fef mx
  | .errNoValid => .noValid
  | .errNotInWindow => .notInWindow
  | .errIo => .io
  | .panic => .panic

/-- the map of the file: non-null in-window records keyed `(tv, fo)` -/
def specMap (p : P) (a b : Option (Int × Int)) (d : Bytes) : Map :=
  build (((recsOf p d).filter (fixedKeep a b)).map fun x => (fixedKey x, x.idx))

/-- the counters of the file -/
def specCnt (p : P) (a b : Option (Int × Int)) (d : Bytes) : Cnt :=
  { total := (nonNull (recsOf p d)).length,
    invalid := noneCount p d (offs p.sz (d.length / p.sz) 0),
    noPass := ((nonNull (recsOf p d)).filter (fun x => !fixedKeep a b x)).length,
    ooo := descents none (nonNull (recsOf p d)) }

/-- what must be delivered for a file with content `d`: no reader, no block size -/
def specOut (p : P) (a b : Option (Int × Int)) (d : Bytes) : Out :=
  if (specMap p a b d).isEmpty then (if (specCnt p a b d).noPass > 0 then .notInWindow else .noValid)
  else .sent ((specMap p a b d).map (emitOf p d)) .done (specCnt p a b d) (firstEntryFo d.length (specMap p a b d))
    (specMap p a b d).length

/-- **runOut_spec** — for every faithful reader (any block size `≥ 1`, any state), any cached records that are records of
the file, and a buffer of at least one record: `new` + the worker loop deliver exactly `specOut`, a function of the file
content, the layout and the window alone. -/
theorem runOut_spec {d : Bytes} {bs : Nat} {I : Rd → Prop} (hF : Faithful d bs I) (p : P)
    (a b : Option (Int × Int)) (hsz : 1 ≤ p.sz) (htv : 1 ≤ p.tvSz) (hin : p.tvOff + p.tvSz ≤ p.sz)
    (hdiv : d.length % p.sz = 0) (r : Rd) (hr : I r) (scored : List (Nat × Bytes)) (hsc : CacheOk p d scored)
    (buflen : Nat) (hbuf : p.sz ≤ buflen) :
    runOut p a b r scored buflen = specOut p a b d := by
  obtain ⟨r', k, h1, _, h3, c1, c2, c3, c4⟩ := preprocess_spec_any hF p a b hsz htv hin hdiv r hr
  have hk : k = specCnt p a b d := by
    obtain ⟨t, i, n, o⟩ := k
    simp only at c1 c2 c3 c4
    simp only [specCnt, c1, c2, c3, c4]
  subst hk
  have hfsz : r'.fsz = d.length := (hF.st r' h1).2
  change preprocess cfg0 p a b r = (.found (specCnt p a b d, specMap p a b d), r') at h3
  by_cases hemp : (specMap p a b d).isEmpty = true
  · have hnew : frNew cfg0 p a b r scored =
        if (specCnt p a b d).noPass > 0 then .errNotInWindow else .errNoValid := by
      unfold frNew
      rw [h3]
      simp only [hemp, if_true]
    unfold runOut specOut
    rw [hnew, if_pos hemp]
    by_cases hnp : (specCnt p a b d).noPass > 0
    · rw [if_pos hnp, if_pos hnp]
    · rw [if_neg hnp, if_neg hnp]
  · have hnew : frNew cfg0 p a b r scored =
        .ok { rd := r', map := specMap p a b d,
              cache := scored.filter (fun e => (specMap p a b d).any (fun x => x.2 == e.1)),
              use := useBuild r'.bs p.sz (specMap p a b d),
              processed := (scored.filter (fun e => (specMap p a b d).any (fun x => x.2 == e.1))).length }
          (specCnt p a b d) (firstEntryFo d.length (specMap p a b d)) (specMap p a b d).length := by
      unfold frNew
      rw [h3]
      simp only [hemp, Bool.false_eq_true, if_false, hfsz]
    obtain ⟨_, fr', hw⟩ := walk_spec_any hF p a b hsz htv hin hdiv r hr scored hsc buflen hbuf hnew
    unfold runOut specOut
    rw [hnew, if_neg hemp]
    simp only [hw]

/-- **C12_fixed_reader_independent** — any two faithful readers of the same content (plain at block size `bs₁`, plain or
streamed-with-blocks-kept at block size `bs₂`, each in any reachable state, with any cached records) deliver the same:
same error kind of `new`, or the same sequence sent, loop end, counters, first entry offset and map size. -/
theorem C12_fixed_reader_independent {d : Bytes} {bs₁ bs₂ : Nat} {I₁ I₂ : Rd → Prop} (hF₁ : Faithful d bs₁ I₁)
    (hF₂ : Faithful d bs₂ I₂) (p : P) (a b : Option (Int × Int)) (hsz : 1 ≤ p.sz) (htv : 1 ≤ p.tvSz)
    (hin : p.tvOff + p.tvSz ≤ p.sz) (hdiv : d.length % p.sz = 0) (r₁ r₂ : Rd) (hr₁ : I₁ r₁) (hr₂ : I₂ r₂)
    (scored₁ scored₂ : List (Nat × Bytes)) (hsc₁ : CacheOk p d scored₁) (hsc₂ : CacheOk p d scored₂)
    (buflen : Nat) (hbuf : p.sz ≤ buflen) :
    runOut p a b r₁ scored₁ buflen = runOut p a b r₂ scored₂ buflen := by
  rw [runOut_spec hF₁ p a b hsz htv hin hdiv r₁ hr₁ scored₁ hsc₁ buflen hbuf,
    runOut_spec hF₂ p a b hsz htv hin hdiv r₂ hr₂ scored₂ hsc₂ buflen hbuf]

/-- **C12_fixed_blocksz_independent** — the plain reader `new` builds: for ANY two block sizes `≥ 1` (smaller than, equal
to or larger than a record; records aligned with blocks or not) the outcome of `new` and the sequence the worker sends are
the same. -/
theorem C12_fixed_blocksz_independent (d : Bytes) (p : P) (a b : Option (Int × Int)) (hsz : 1 ≤ p.sz) (htv : 1 ≤ p.tvSz)
    (hin : p.tvOff + p.tvSz ≤ p.sz) (hdiv : d.length % p.sz = 0) (bs₁ bs₂ : Nat) (h₁ : 1 ≤ bs₁) (h₂ : 1 ≤ bs₂)
    (scored₁ scored₂ : List (Nat × Bytes)) (hsc₁ : CacheOk p d scored₁) (hsc₂ : CacheOk p d scored₂)
    (buflen : Nat) (hbuf : p.sz ≤ buflen) :
    runOut p a b (rdNew cfg0 .plain bs₁ d [] []) scored₁ buflen
      = runOut p a b (rdNew cfg0 .plain bs₂ d [] []) scored₂ buflen :=
  C12_fixed_reader_independent (faithful_plain d bs₁ h₁) (faithful_plain d bs₂ h₂) p a b hsz htv hin hdiv _ _
    (plain_new d bs₁ h₁) (plain_new d bs₂ h₂) scored₁ scored₂ hsc₁ hsc₂ buflen hbuf

/-- the same between a plain file and a streamed one (gz / bz2 / lz4, any chunking of the decoder) at any block sizes -/
theorem C12_fixed_plain_vs_streamed (d : Bytes) (p : P) (a b : Option (Int × Int)) (hsz : 1 ≤ p.sz) (htv : 1 ≤ p.tvSz)
    (hin : p.tvOff + p.tvSz ≤ p.sz) (hdiv : d.length % p.sz = 0) (bs₁ bs₂ : Nat) (h₁ : 1 ≤ bs₁) (h₂ : 1 ≤ bs₂)
    (kind : Kind) (hk : kind = .gz ∨ kind = .bz2 ∨ kind = .lz4) (cs csPre : List Nat)
    (scored₁ scored₂ : List (Nat × Bytes)) (hsc₁ : CacheOk p d scored₁) (hsc₂ : CacheOk p d scored₂)
    (buflen : Nat) (hbuf : p.sz ≤ buflen) :
    runOut p a b (rdNew cfg0 .plain bs₁ d [] []) scored₁ buflen
      = runOut p a b (rdNew cfg0 kind bs₂ d cs csPre) scored₂ buflen :=
  C12_fixed_reader_independent (faithful_plain d bs₁ h₁) (faithful_keep d bs₂ h₂) p a b hsz htv hin hdiv _ _
    (plain_new d bs₁ h₁) (keep_new kind d bs₂ cs csPre h₂ hk) scored₁ scored₂ hsc₁ hsc₂ buflen hbuf

/-! ### concrete runs -/

/-- a toy layout with 5-byte records, the time (seconds) in byte 1: at block size 1 every record spans 5 blocks, at block
size 2 or 3 three or two -/
def pW : P :=
  { sz := 5, tvOff := 1, tvSz := 2,
    tvOf := fun b => match b with | [x, y] => some (x.toNat, y.toNat) | _ => none,
    newOk := fun _ => true }

/-- three records: times (3,0), (1,0), (2,0) -/
def dW : Bytes := [10, 3, 0, 11, 12, 20, 1, 0, 21, 22, 30, 2, 0, 31, 32]

/-- `runOut` on the toy file: the same for block sizes 1 (Many arm, 5 blocks per record), 2, 3, 4 (Many / Two), 5, 7, 64 -/
theorem runOut_example :
    ∀ bs ∈ [1, 2, 3, 4, 5, 7, 64], runOut pW none none (rdNew cfg0 .plain bs dW [] []) [] 8 =
      .sent [.msg 5 [20, 1, 0, 21, 22] false, .msg 10 [30, 2, 0, 31, 32] true, .msg 0 [10, 3, 0, 11, 12] false] .done
        { total := 3, ooo := 1 } 0 3 := by decide

/-- … and it is `specOut` (the hypotheses of `runOut_spec` hold for `pW`, `dW`) -/
example : runOut pW none none (rdNew cfg0 .plain 1 dW [] []) [] 8 = specOut pW none none dW :=
  runOut_spec (faithful_plain dW 1 (by decide)) pW none none (by decide) (by decide) (by decide) (by decide) _
    (plain_new dW 1 (by decide)) [] (fun _ h => by cases h) 8 (by decide)

/-- a window that excludes everything: `new` fails the same way at every block size -/
example : ∀ bs ∈ [1, 2, 5, 64], runOut pW (some (9, 0)) none (rdNew cfg0 .plain bs dW [] []) [] 8 = .notInWindow := by decide

end S4V.Props.FixedWalkManySpec
