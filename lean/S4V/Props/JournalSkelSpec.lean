/-
C09 over the REGENERATED enumeration loop. `S4V.Gen.JournalSkel.SKEL` is the control skeleton of
`JournalReader::analyze` / `next` / `next_fill_buffer` / `next_common` and of the worker loop of
`exec_journalprocessor`, translated from the source text as data (gen/gen_journal.py, whole-body
shape checks); `S4V.Model.JournalSkel` interprets it over an abstract journal. Here: the interpreter
of the regenerated skeleton IS the hand model of `S4V.Model.Journal` (so `C09_window`, `C09_stop_iff`,
`C09_all_once`, `C09_order` hold of the regenerated form), the worker sends every entry `next` finds,
and each one-edit mutant of the source (`S4V.Gen.JournalSkelMutants`) breaks the property.
-/
import S4V.Model.JournalSkel
import S4V.Gen.JournalSkelMutants
import S4V.Props.C09

namespace S4V.Props.JournalSkelSpec
open S4V.Model.JournalSkel S4V.Gen.JournalSkel S4V.Gen.Journal S4V.Gen.Filter S4V.Model.Journal S4V.Props.C09

variable {α : Type}

/-! ### one call of the regenerated `next_common` -/

theorem nc_nil (b : Option Int) : nextCommon SKEL b ([] : List (Item α)) = (.done, []) := rfl

theorem nc_fault (b : Option Int) (r : List (Item α)) : nextCommon SKEL b (.fault :: r) = (.err, r) := rfl

theorem nc_noRt (b : Option Int) (t : Int) (p : α) (r : List (Item α)) :
    nextCommon SKEL b (.entry t false p :: r) = (.errIgnore, r) := rfl

/-- the stop test sits BEFORE the entry is returned, and is the regenerated `stopAt` -/
theorem nc_entry (b : Option Int) (t : Int) (p : α) (r : List (Item α)) :
    nextCommon SKEL b (.entry t true p :: r) = if stopAt t b then (.done, r) else (.found t p, r) := by
  simp only [nextCommon, SKEL, common, runSteps, retOut, stopAt, List.mem_singleton, beq_iff_eq]
  by_cases h : emPassFilters t none b = .AfterRange <;> simp [h]

/-! ### the hand model with faults: what the worker sends and how it ends -/

/-- the worker over a journal with faults, written by hand: an unreadable receive time skips the entry
(`ErrIgnore`), a failing `sd_journal_next` ends the run with `FileErrIo`, the stop test or the end of the
journal end it with `FILEOK` -/
def handF (b : Option Int) : List (Item α) → List α × WResult
  | [] => ([], .ok)
  | .fault :: _ => ([], .ioErr)
  | .entry _ false _ :: r => handF b r
  | .entry t true p :: r => if stopAt t b then ([], .ok) else (p :: (handF b r).1, (handF b r).2)

theorem skel_via : SKEL.via = .dispatch := rfl
theorem skel_onFound : SKEL.worker.onFound = [.send] := rfl
theorem skel_onDone : SKEL.worker.onDone = [.brk] := rfl
theorem skel_onErr : SKEL.worker.onErr = [.record, .brk] := rfl
theorem skel_onErrIgnore : SKEL.worker.onErrIgnore = [] := rfl

theorem workerLoop_eq_handF (b : Option Int) (l : List (Item α)) :
    ∀ (fuel : Nat) (st : FillSt α) (sent : List α), l.length < fuel →
      workerLoop SKEL b fuel l st sent false = ⟨sent ++ (handF b l).1, (handF b l).2⟩ := by
  induction l with
  | nil =>
    intro fuel st sent h
    cases fuel with
    | zero => simp at h
    | succ f => simp [workerLoop, next, skel_via, nc_nil, skel_onDone, runWActs, handF]
  | cons i r ih =>
    intro fuel st sent h
    cases fuel with
    | zero => simp at h
    | succ f =>
      have hf : r.length < f := by simp at h; omega
      cases i with
      | fault => simp [workerLoop, next, skel_via, nc_fault, skel_onErr, runWActs, handF]
      | entry t ok p =>
        cases ok with
        | false => simp [workerLoop, next, skel_via, nc_noRt, skel_onErrIgnore, runWActs, handF, ih f st sent hf]
        | true =>
          by_cases hs : stopAt t b = true
          · simp [workerLoop, next, skel_via, nc_entry, skel_onDone, runWActs, handF, hs]
          · simp [workerLoop, next, skel_via, nc_entry, skel_onFound, runWActs, handF, hs, ih f st (sent ++ [p]) hf]

/-! ### interpreter of the regenerated skeleton = the hand model of `S4V.Model.Journal` -/

/-- an entry of the hand model as a position of the abstract journal (payload = the entry itself) -/
def toItem (e : Entry) : Item Entry := .entry e.realtime true e

theorem handF_map (b : Option Int) (es : List Entry) : handF b (es.map toItem) = (iterate b es, .ok) := by
  induction es with
  | nil => rfl
  | cons e r ih =>
    simp only [List.map_cons, toItem, handF, iterate]
    by_cases hs : stopAt e.realtime b = true <;> simp [hs, ih]

/-- `analyze` regenerated: `seek_head` without `--dt-after`, else `seek_realtime_usec(after)` = the hand model's `seek` -/
theorem analyze_eq_seek (a : Option Int) (es : List Entry) :
    runAnalyze SKEL.analyze false a (es.map toItem) = some ((seek a es).map toItem) := by
  cases a with
  | none => rfl
  | some x =>
    simp only [runAnalyze, SKEL, analyze, Bool.false_and, Bool.false_eq_true, ↓reduceIte, doSeekCall, seek, Option.some.injEq]
    induction es with
    | nil => rfl
    | cons e r ih =>
      simp only [List.map_cons, List.dropWhile_cons, toItem]
      by_cases h : e.realtime < x <;> simp [h, ih, toItem]

theorem seek_length_le (a : Option Int) (es : List Entry) : (seek a es).length ≤ es.length := by
  cases a with
  | none => exact Nat.le_refl _
  | some x => exact (List.dropWhile_sublist _).length_le

/-- **C09_iteration_skeleton_is_model.** The worker regenerated from the source (`analyze(after)`, then
`loop { match next(before) … }` with `next` = `next_dispatch` = `next_common`), run over a fault-free journal,
sends exactly the hand model's `select after before` — in that order — and ends with `FILEOK`; whatever the value
`g` of a condition in front of the loop would be (the regenerated skeleton has none). -/
theorem C09_iteration_skeleton_is_model (g : Bool) (a b : Option Int) (es : List Entry) (fuel : Nat) (h : es.length < fuel) :
    runWorker SKEL g false a b (es.map toItem) fuel = ⟨select a b es, .ok⟩ := by
  have hg : SKEL.worker.guard = none := rfl
  unfold runWorker
  rw [analyze_eq_seek]
  simp only [hg, Option.isSome_none, Bool.false_and, Bool.false_eq_true, ↓reduceIte]
  rw [workerLoop_eq_handF _ _ _ _ _ (Nat.lt_of_le_of_lt (by rw [List.length_map]; exact seek_length_le a es) h), handF_map]
  simp [select]

example (es : List Entry) : es.length < fuelFor (es.map toItem) := by simp [fuelFor]; omega

/-- `C09_window` of the regenerated form -/
theorem C09_skel_window (a b : Option Int) (es : List Entry) (hs : es.Pairwise (fun x y => x.realtime ≤ y.realtime)) :
    (runWorker SKEL true false a b (es.map toItem) (fuelFor (es.map toItem))).sent
      = es.filter (fun e => emPassFilters e.realtime a b == .InRange) := by
  rw [C09_iteration_skeleton_is_model _ _ _ _ _ (by simp [fuelFor]; omega)]
  exact C09_window a b es hs

/-- each enumerated entry once, in enumeration order (no window) -/
theorem C09_skel_all_once (es : List Entry) :
    runWorker SKEL true false none none (es.map toItem) (fuelFor (es.map toItem)) = ⟨es, .ok⟩ := by
  rw [C09_iteration_skeleton_is_model _ _ _ _ _ (by simp [fuelFor]; omega), C09_all_once]

/-- never duplicated or reordered, whatever the window and the receive times -/
theorem C09_skel_order (a b : Option Int) (es : List Entry) :
    (runWorker SKEL true false a b (es.map toItem) (fuelFor (es.map toItem))).sent.Sublist es := by
  rw [C09_iteration_skeleton_is_model _ _ _ _ _ (by simp [fuelFor]; omega)]
  exact C09_order a b es

example : (runWorker SKEL true false (some 20) (some 20) (exEntries.map toItem) 9).sent.map (·.cursor) = [[100], [101]] := by decide

/-! ### the worker loop, with faults -/

/-- the positions that end the run: a failing `sd_journal_next`, or a readable entry past `--dt-before` -/
def ends (b : Option Int) : Item α → Bool
  | .fault => true
  | .entry t ok _ => ok && stopAt t b

def readable : Item α → Option α
  | .entry _ true p => some p
  | _ => none

theorem ends_fault (b : Option Int) : ends b (.fault : Item α) = true := rfl
theorem ends_entry (b : Option Int) (t : Int) (ok : Bool) (p : α) : ends b (.entry t ok p) = (ok && stopAt t b) := rfl
theorem readable_true (t : Int) (p : α) : readable (.entry t true p) = some p := rfl
theorem readable_false (t : Int) (p : α) : readable (.entry t false p) = none := rfl

theorem handF_sent (b : Option Int) (l : List (Item α)) :
    (handF b l).1 = (l.takeWhile (fun i => !ends b i)).filterMap readable := by
  induction l with
  | nil => rfl
  | cons i r ih =>
    cases i with
    | fault => simp [handF, ends_fault]
    | entry t ok p =>
      cases ok with
      | false => simp [handF, ends_entry, List.filterMap_cons, readable_false, ih]
      | true =>
        by_cases hs : stopAt t b = true
        · simp [handF, ends_entry, hs]
        · simp [handF, ends_entry, readable_true, hs, ih]

theorem handF_result (b : Option Int) (l : List (Item α)) :
    (handF b l).2 = (match l.dropWhile (fun i => !ends b i) with | .fault :: _ => .ioErr | _ => .ok) := by
  induction l with
  | nil => rfl
  | cons i r ih =>
    cases i with
    | fault => simp [handF, ends_fault]
    | entry t ok p =>
      cases ok with
      | false => simp [handF, ends_entry, ih]
      | true => by_cases hs : stopAt t b = true <;> simp [handF, ends_entry, hs, ih]

/-- **C09_worker_sends_every_found_entry.** The regenerated worker loop has no exit but `Done` and `Err` and
nothing in front of it: over ANY journal (faults included) it sends the payload of every entry with a readable
receive time, in journal order, up to the first position that ends the run; the file result is `FileErrIo` exactly
when that position is a failing `sd_journal_next`. -/
theorem C09_worker_sends_every_found_entry (g : Bool) (b : Option Int) (all : List (Item α)) :
    runWorker SKEL g false none b all (fuelFor all)
      = ⟨(all.takeWhile (fun i => !ends b i)).filterMap readable,
         match all.dropWhile (fun i => !ends b i) with | .fault :: _ => .ioErr | _ => .ok⟩ := by
  have hg : SKEL.worker.guard = none := rfl
  have ha : runAnalyze SKEL.analyze false none all = some all := rfl
  unfold runWorker
  rw [ha]
  simp only [hg, Option.isSome_none, Bool.false_and, Bool.false_eq_true, ↓reduceIte]
  rw [workerLoop_eq_handF _ _ _ _ _ (by simp [fuelFor]; omega), handF_sent, handF_result]
  simp

/-- a failing seek ends the worker before the loop: nothing is sent, the file result is the error -/
theorem C09_worker_analyze_error (g : Bool) (a b : Option Int) (all : List (Item α)) (fuel : Nat) :
    runWorker SKEL g true a b all fuel = ⟨[], .analyzeErr⟩ := by
  cases a <;> rfl

example : runWorker SKEL true false none (some 3)
    ([.entry 1 true 0, .entry 2 false 1, .entry 3 true 2, .fault, .entry 4 true 3] : List (Item Nat)) 12 = ⟨[0, 2], .ioErr⟩ := by decide

/-! ### counter-models: the skeleton re-translated from the source with ONE edit (`S4V.Gen.JournalSkelMutants`) -/

/-- what `C09_iteration_skeleton_is_model` says of a skeleton -/
def IsModel (sk : Skel) : Prop :=
  ∀ (g : Bool) (a b : Option Int) (es : List Entry) (fuel : Nat), es.length < fuel →
    runWorker sk g false a b (es.map toItem) fuel = ⟨select a b es, .ok⟩

theorem SKEL_isModel : IsModel SKEL := fun g a b es fuel h => C09_iteration_skeleton_is_model g a b es fuel h

def ent (t : Int) : Entry := ⟨t, [], 0, []⟩

/-- stop test moved behind the `Found` return: an entry after `--dt-before` is sent -/
theorem mutant_stopAfterReturn : ¬ IsModel S4V.Gen.JournalSkelMutants.stopAfterReturn.SKEL := by
  intro h
  have := h true none (some 20) [ent 10, ent 30] 3 (by decide)
  revert this; decide

/-- `<=` in the stop comparison: the entry exactly AT `--dt-before` is lost (the bound is inclusive) -/
theorem mutant_stopGe : ¬ IsModel S4V.Gen.JournalSkelMutants.stopGe.SKEL := by
  intro h
  have := h true none (some 20) [ent 10, ent 20] 3 (by decide)
  revert this; decide

/-- `seek_head` although `--dt-after` is given: entries before the bound are sent. Nothing downstream removes them:
`next_common` passes `&None` as the after-bound of `em_pass_filters`, and the main thread prints what it receives. -/
theorem mutant_seekHeadAlways : ¬ IsModel S4V.Gen.JournalSkelMutants.seekHeadAlways.SKEL := by
  intro h
  have := h true (some 20) none [ent 10, ent 30] 3 (by decide)
  revert this; decide

/-- seeded C09-e: a condition in front of the loop; when it is false nothing is sent -/
theorem mutant_workerGuarded : ¬ IsModel S4V.Gen.JournalSkelMutants.workerGuarded.SKEL := by
  intro h
  have := h false none none [ent 10] 2 (by decide)
  revert this; decide

/-- seeded C09-d: `next` through the fill buffer; a journal whose receive times step back comes out sorted -/
theorem mutant_nextViaFill : ¬ IsModel S4V.Gen.JournalSkelMutants.nextViaFill.SKEL := by
  intro h
  have := h true none none [ent 30, ent 10] 6 (by decide)
  revert this; decide

/-- `Done => {}` (no `break`): the loop has no exit at the end of the journal -/
theorem mutant_doneNoBreak : ¬ IsModel S4V.Gen.JournalSkelMutants.doneNoBreak.SKEL := by
  intro h
  have := h true none none [ent 10] 5 (by decide)
  revert this; decide

/-- return-code tests of `sd_journal_next` swapped: the end of the journal is reported as `FileErrIo` -/
theorem mutant_zeroIsErr : ¬ IsModel S4V.Gen.JournalSkelMutants.zeroIsErr.SKEL := by
  intro h
  have := h true none none [ent 10] 5 (by decide)
  revert this; decide

/-- the fill buffer itself (not on the path of the hard-wired override) still hands out every entry once: on the
example it is a permutation sorted by (receive time, index) -/
example : (runWorker S4V.Gen.JournalSkelMutants.nextViaFill.SKEL true false none none
    ([.entry 30 true 0, .entry 10 true 1, .entry 30 true 2, .entry 20 true 3] : List (Item Nat)) 10) = ⟨[1, 3, 0, 2], .ok⟩ := by decide

end S4V.Props.JournalSkelSpec
