/-
C04 (anchored state "DATETIME_PARSE_DATAS order — first matching pattern wins during block-zero analysis;
afterwards one pattern is fixed per file") — which pattern a text log is read with.

Model: `S4V.Model.PatSel` (mirror of `SyslineReader::{new, parse_datetime_in_line, find_datetime_in_line,
dt_patterns_update, dt_patterns_analysis, parse_datetime_in_line_cached, clear_syslines, remove_sysline}` and of
`SyslogProcessor::blockzero_analysis_syslines` at the level of lines). "Row r parses line ℓ to instant t" is an
abstract matrix `M`. Shape flags and constants are regenerated from the source (`S4V.Gen.PatSel`); every
theorem below goes through lemmas that unfold them, so e.g. an ascending sort, `pop_first`, counting on a cache
hit or a cache that is not emptied by `clear_syslines` regenerate different constants and the proofs fail.

Proved here
* `C04_patsel_consts`            the regenerated facts (173 rows, one row kept, count-descending stable order,
                                 ties keep the lowest index, LRU of 8 enabled, re-parse when > 1 row was used)
* `C04_tryorder_spec`            the try order IS the rows sorted by count descending, ties by ascending index
* `C04_first_line_first_match`   a new reader gives its first line to the lowest-index row that matches
* `C04_chosen_pattern`           after analysis exactly one row is left; it has the maximum count and is the lowest
                                 index among those; `C04_analysis_fails_iff_nothing_matched`
* `C04_analysis_idempotent_order` afterwards only that row is tried: a line only other rows match is a continuation line
* `C04_single_notation_stable`   a file whose first recognised line is read by row p and whose later lines, whenever
                                 any row recognises them, are recognised by p: p is chosen, every line is dated
                                 identically before and after analysis, whatever number k of lines is parsed
                                 before analysis (`C04_single_notation_blocksize_independent`); the hypothesis is
                                 needed: `C04_single_notation_needs_hypothesis`
* `C04_mixed_notation_full_false` (finding F30) without it the row kept and the dates depend on k: witness = a file
                                 mixing two notations (`mixed_notation_witness`)
* `C04_parse_cache_transparent`  with one row left the LRU cache never changes an answer (fixed `year_opt`)
* `cache_stale_row_before_analysis`  counter-model: BEFORE analysis a cached entry can name a row the uncached
                                 parser would no longer pick (not reachable through block zero: a line is only
                                 re-parsed right after it was stored)
* `C04_year_change_clears`       the cache is emptied by `clear_syslines`/`remove_sysline`, which
                                 `process_missing_year` calls before the first parse with the file's year and right
                                 after every year step; `stale_year_if_not_cleared`: counter-model without that

Tie B: harness/src/c_patsel.rs against `runFile` (driver `drv_patsel`).
-/
import S4V.Lemmas.PatSel

namespace S4V.Props.PatSelSpec
open S4V.Model.PatSel S4V.Lemmas.PatSel
open S4V.Gen.PatSel

theorem C04_patsel_consts :
    N_ROWS = 173 ∧ DT_PATTERN_MAX = 1 ∧ TRY_ORDER_DESC = true ∧ SHORT_TEST_STRICT = true ∧
    S4V.Gen.Consts.DATETIME_STR_MIN = 8 ∧ TIE_KEEPS_LOWEST = true ∧
    PARSE_LRU_CAP = 8 ∧ PARSE_CACHE_ENABLED = true ∧ ANALYSIS_CLEARS_PARSE_CACHE = false ∧
    REPARSE_IF_ROWS_ABOVE = 1 := by decide

/-! ### try order -/

/-- For every state whose counts are an index-ordered map: the rows are tried in THE order that is a
permutation of the map's entries sorted by count descending, equal counts by ascending index. -/
theorem C04_tryorder_spec (st : St) (h : KeysAsc st.counts) :
    ∃ l : Counts, l.Perm st.counts ∧ l.Pairwise Before ∧ tryOrder st = l.map Prod.fst ∧
      ∀ l' : Counts, l'.Perm st.counts → l'.Pairwise Before → l' = l :=
  ⟨sortCounts st.counts, sortCounts_perm _, sortCounts_sorted _ h, rfl,
    fun l' hp hs => sortCounts_unique st.counts l' h hp hs⟩

/-- the invariant holds for a new reader and is kept by parsing and by analysis -/
theorem C04_keysAsc_invariant (M : Matrix) (n : Nat) :
    KeysAsc (fresh n).counts ∧
    (∀ st ℓ, KeysAsc st.counts → KeysAsc (parseLine M st ℓ).2.counts) ∧
    (∀ st, KeysAsc st.counts → KeysAsc (analysis st).2.counts) := by
  refine ⟨keysAsc_fresh n, ?_, ?_⟩
  · intro st ℓ h
    unfold parseLine
    cases findDt M st ℓ with
    | none => exact h
    | some v => exact keysAsc_bump _ _ h
  · intro st h
    unfold analysis
    by_cases hm : maxCount st.counts = 0
    · simp only [hm, if_true]; exact h
    · simp only [hm, if_false]
      rw [popDown_eq]
      exact List.Pairwise.sublist ((List.take_sublist _ _).trans List.filter_sublist) h

/-- a new reader tries the rows in table order -/
theorem C04_fresh_order (n : Nat) : tryOrder (fresh n) = List.range n := tryOrder_fresh n

/-- "first matching pattern wins": the first line a new reader parses is given to the LOWEST-index row that
parses it (lines shorter than `DATETIME_STR_MIN` = 8 bytes are not looked at) -/
theorem C04_first_line_first_match (M : Matrix) (n : Nat) (ℓ : Bytes) (r : Nat) (t : Int) :
    (parseLine M (fresh n) ℓ).1 = some (r, t) ↔
      8 ≤ ℓ.length ∧ r < n ∧ M r ℓ = some t ∧ ∀ r' < r, M r' ℓ = none := by
  rw [parseLine_fresh]
  by_cases h : tooShort ℓ = true
  · have := (tooShort_iff ℓ).mp h
    simp only [h, if_true]
    constructor
    · intro h'; cases h'
    · intro h'; omega
  · have h8 : ¬ ℓ.length < 8 := fun h' => h ((tooShort_iff ℓ).mpr h')
    have hf : tooShort ℓ = false := by simpa using h
    simp only [hf, Bool.false_eq_true, if_false, firstMatch_range]
    constructor
    · intro h'; exact ⟨by omega, h'⟩
    · intro h'; exact h'.2

/-! ### analysis -/

/-- `dt_patterns_analysis` returning true leaves exactly one row `p`; its count `m` is the maximum, and `p` is
the lowest index among the rows with that count -/
theorem C04_chosen_pattern (st : St) (hk : KeysAsc st.counts) (ht : (analysis st).1 = true) :
    ∃ p m, (analysis st).2.counts = [(p, m)] ∧ (analysis st).2.analyzed = true ∧ chosen (analysis st).2 = some p ∧
      0 < m ∧ (p, m) ∈ st.counts ∧ ∀ q ∈ st.counts, q.2 ≤ m ∧ (q.2 = m → p ≤ q.1) := by
  obtain ⟨p, m, h1, h2, h3, h4⟩ := analysis_true st hk ht
  exact ⟨p, m, by rw [h1], by rw [h1], by rw [h1]; rfl, h2, h3, h4⟩

/-- it returns false exactly when every count is 0 … -/
theorem C04_analysis_false_iff (st : St) : (analysis st).1 = false ↔ ∀ p ∈ st.counts, p.2 = 0 :=
  analysis_false_iff st

/-- … i.e. when none of the lines parsed so far was recognised by any row -/
theorem C04_analysis_fails_iff_nothing_matched (M : Matrix) (n k : Nat) (lines : List Bytes) :
    (runK M n k lines).ok = false ↔ ∀ r ∈ (runK M n k lines).before, r = none :=
  runK_ok_iff M n k lines

/-- after analysis only the chosen row is tried, for every later line and however many: each line is dated by
that row alone -/
theorem C04_analysis_idempotent_order (M : Matrix) (st : St) (hk : KeysAsc st.counts) (ht : (analysis st).1 = true) :
    ∃ p, chosen (analysis st).2 = some p ∧ tryOrder (analysis st).2 = [p] ∧
      ∀ ls : List Bytes, (parseAll M (analysis st).2 ls).1 = ls.map (dateP M p) ∧
        tryOrder (parseAll M (analysis st).2 ls).2 = [p] := by
  obtain ⟨p, m, h1, _⟩ := analysis_true st hk ht
  refine ⟨p, by rw [h1]; rfl, by rw [h1]; exact tryOrder_single p m true, ?_⟩
  intro ls
  obtain ⟨c', _, h⟩ := parseAll_single M p true ls m
  rw [h1, h]
  exact ⟨rfl, tryOrder_single p c' true⟩

/-- so a line that only OTHER rows recognise becomes a continuation line -/
theorem C04_other_notation_becomes_continuation (M : Matrix) (p : Nat) (ℓ : Bytes) (h : M p ℓ = none) :
    dateP M p ℓ = none := by
  simp [dateP, h]

/-! ### one notation per file -/

/-- Main statement. `lines = pre ++ ℓ0 :: post`; no row recognises a line of `pre`; `ℓ0` is recognised and
its first-matching row (table order) is `p`; every line of `post` that ANY row recognises is recognised by `p`.
Then for every number `k > |pre|` of lines parsed before analysis: analysis succeeds, `p` is kept, the first
`k` lines were dated before analysis exactly as `p` alone dates them, and so is every line afterwards. -/
theorem C04_single_notation_stable (M : Matrix) (n p : Nat) (t0 : Int) (pre : List Bytes) (ℓ0 : Bytes)
    (post : List Bytes) (k : Nat)
    (ha1 : ∀ ℓ ∈ pre, NoMatch M n ℓ)
    (ha2 : tooShort ℓ0 = false) (ha3 : firstMatch M ℓ0 (List.range n) = some (p, t0))
    (hb : ∀ ℓ ∈ post, NoMatch M n ℓ ∨ (M p ℓ).isSome)
    (hk : pre.length < k) :
    runK M n k (pre ++ ℓ0 :: post) =
      ⟨true, ((pre ++ ℓ0 :: post).take k).map (dateP M p), some p, (pre ++ ℓ0 :: post).map (dateP M p)⟩ :=
  runK_single M n p t0 pre ℓ0 post k ha1 ha2 ha3 hb hk

/-- … hence the row kept and every date are independent of how many lines block zero holds, and the dates
before analysis are a prefix of the dates after it -/
theorem C04_single_notation_blocksize_independent (M : Matrix) (n p : Nat) (t0 : Int) (pre : List Bytes)
    (ℓ0 : Bytes) (post : List Bytes) (k1 k2 : Nat)
    (ha1 : ∀ ℓ ∈ pre, NoMatch M n ℓ)
    (ha2 : tooShort ℓ0 = false) (ha3 : firstMatch M ℓ0 (List.range n) = some (p, t0))
    (hb : ∀ ℓ ∈ post, NoMatch M n ℓ ∨ (M p ℓ).isSome)
    (hk1 : pre.length < k1) (hk2 : pre.length < k2) :
    (runK M n k1 (pre ++ ℓ0 :: post)).row = (runK M n k2 (pre ++ ℓ0 :: post)).row ∧
    (runK M n k1 (pre ++ ℓ0 :: post)).after = (runK M n k2 (pre ++ ℓ0 :: post)).after ∧
    (runK M n k1 (pre ++ ℓ0 :: post)).before = (runK M n k1 (pre ++ ℓ0 :: post)).after.take k1 := by
  rw [runK_single M n p t0 pre ℓ0 post k1 ha1 ha2 ha3 hb hk1, runK_single M n p t0 pre ℓ0 post k2 ha1 ha2 ha3 hb hk2]
  exact ⟨rfl, rfl, by simp [List.map_take]⟩

/-- when block zero holds no recognised line, analysis fails (the file is rejected: findings F1/F2) -/
theorem C04_no_recognised_line_before_analysis (M : Matrix) (n : Nat) (pre rest : List Bytes) (k : Nat)
    (ha1 : ∀ ℓ ∈ pre, NoMatch M n ℓ) (hk : k ≤ pre.length) :
    (runK M n k (pre ++ rest)).ok = false := by
  rw [runK_ok_iff, runK_eq]
  have htake : (pre ++ rest).take k = pre.take k := by
    rw [List.take_append, (by omega : k - pre.length = 0)]; simp
  have hb := parseAll_noMatch M n (fresh n) (keys_fresh n) (pre.take k) (fun ℓ hℓ => ha1 ℓ (List.mem_of_mem_take hℓ))
  intro r hr
  have : r ∈ (parseAll M (fresh n) ((pre ++ rest).take k)).1 := by
    split at hr <;> exact hr
  rw [htake, hb] at this
  simp only [List.mem_map] at this
  obtain ⟨_, _, rfl⟩ := this
  rfl

/-! #### the hypotheses are satisfiable; the witness for F30 -/

/-- two notations: row 0 reads lines `B…`, row 1 reads lines `A…` -/
def lineA : Bytes := List.replicate 8 65
def lineB : Bytes := List.replicate 8 66
def junk : Bytes := List.replicate 9 32
def M2 : Matrix := fun r ℓ =>
  if r = 1 ∧ ℓ = lineA then some 10 else if r = 0 ∧ ℓ = lineB then some 20 else none

example : runK M2 2 2 ([junk] ++ lineA :: [junk, lineA]) =
    ⟨true, [none, some (1, 10)], some 1, [none, some (1, 10), none, some (1, 10)]⟩ := by decide

example : (∀ ℓ ∈ [junk], NoMatch M2 2 ℓ) ∧ tooShort lineA = false ∧
    firstMatch M2 lineA (List.range 2) = some (1, 10) ∧
    (∀ ℓ ∈ [junk, lineA], NoMatch M2 2 ℓ ∨ (M2 1 ℓ).isSome) := by
  refine ⟨?_, by decide, by decide, ?_⟩
  · intro ℓ hℓ; simp only [List.mem_singleton] at hℓ; subst hℓ
    right; intro r hr
    have : r = 0 ∨ r = 1 := by omega
    rcases this with rfl | rfl <;> decide
  · intro ℓ hℓ
    simp only [List.mem_cons, List.not_mem_nil, or_false] at hℓ
    rcases hℓ with rfl | rfl
    · left; right; intro r hr
      have : r = 0 ∨ r = 1 := by omega
      rcases this with rfl | rfl <;> decide
    · right; decide

/-- a log that mixes two notations: one `A` line, then `B` lines (finding F30) -/
def mixed_notation_witness : List Bytes := [lineA, lineB, lineB]

/-- the unrestricted statement: "the row kept and the dates do not depend on how many lines are parsed before
analysis (as long as analysis succeeds)" -/
def C04_mixed_notation_full : Prop :=
  ∀ (M : Matrix) (n : Nat) (lines : List Bytes) (k1 k2 : Nat),
    (runK M n k1 lines).ok = true → (runK M n k2 lines).ok = true →
    (runK M n k1 lines).row = (runK M n k2 lines).row ∧ (runK M n k1 lines).after = (runK M n k2 lines).after

/-- F30: with one line in block zero the file is read in notation `A` (the `B` lines become continuation
lines); with all three, in notation `B` (the `A` line, before the first recognised line, is not a message) -/
theorem C04_mixed_notation_full_false : ¬ C04_mixed_notation_full := by
  intro h
  have := h M2 2 mixed_notation_witness 1 3 (by decide) (by decide)
  revert this
  decide

theorem mixed_notation_runs :
    runK M2 2 1 mixed_notation_witness = ⟨true, [some (1, 10)], some 1, [some (1, 10), none, none]⟩ ∧
    -- a tie (one line each): the LOWER index wins although the file starts in notation `A`
    runK M2 2 2 mixed_notation_witness = ⟨true, [some (1, 10), some (0, 20)], some 0, [none, some (0, 20), some (0, 20)]⟩ ∧
    runK M2 2 3 mixed_notation_witness =
      ⟨true, [some (1, 10), some (0, 20), some (0, 20)], some 0, [none, some (0, 20), some (0, 20)]⟩ := by decide

/-- the hypothesis of `C04_single_notation_stable` on later lines cannot be dropped, even for "dated identically
before and after analysis" alone: in the witness the `B` lines are dated before analysis and not after (k = 1 … 3) -/
theorem C04_single_notation_needs_hypothesis :
    (runK M2 2 3 mixed_notation_witness).before ≠ (runK M2 2 3 mixed_notation_witness).after.take 3 ∧
    ¬ (∀ ℓ ∈ [lineB, lineB], NoMatch M2 2 ℓ ∨ (M2 1 ℓ).isSome) := by
  refine ⟨by decide, ?_⟩
  intro h
  rcases h lineB List.mem_cons_self with h | h
  · rcases h with h | h
    · revert h; decide
    · have := h 0 (by omega); revert this; decide
  · revert h; decide

/-! ### the LRU cache of parse results -/

/-- Fixed `year_opt` (one matrix `M`), one row left, cache consistent (`CacheOK`; true when analysis returns:
see `S4V.Lemmas.PatSel`): the cached parser answers exactly what the uncached one does, for every key, and
stays consistent — so for any sequence of calls. -/
theorem C04_parse_cache_transparent (M : Matrix) (L : Nat → Bytes) (p : Nat) (rs : RSt) (h : CacheOK M L p rs) :
    (∀ k, (parseLineCached M rs k (L k)).1 = (parseLine M rs.st (L k)).1 ∧
          CacheOK M L p (parseLineCached M rs k (L k)).2) ∧
    (∀ ks : List Nat, (parseAllCached M rs (ks.map (fun k => (k, L k)))).1 = ks.map (fun k => dateP M p (L k))) :=
  ⟨fun k => ⟨(parseLineCached_transparent M L p rs k h).1, (parseLineCached_transparent M L p rs k h).2.2⟩,
   fun ks => (parseAllCached_single M L p ks rs h).1⟩

/-- `CacheOK` holds when the cache is empty and one row is left (the state `clear_syslines` produces after
analysis) -/
theorem cacheOK_of_empty (M : Matrix) (L : Nat → Bytes) (p c : Nat) (a : Bool) :
    CacheOK M L p ⟨⟨[(p, c)], a⟩, []⟩ :=
  ⟨⟨c, rfl⟩, fun e he => by cases he⟩

/-- line read by rows 0 and 1 (different instants) / by row 1 only -/
def lineX : Bytes := List.replicate 8 88
def lineY : Bytes := List.replicate 8 89
def M3 : Matrix := fun r ℓ =>
  if ℓ = lineX then (if r = 0 then some 1 else if r = 1 then some 2 else none)
  else if ℓ = lineY then (if r = 1 then some 3 else none) else none

/-- BEFORE analysis the cache is not transparent in general: `X` (key 0) is stored as row 0; two `Y` lines then
make row 1 the most used; the cached parser still answers row 0 for key 0, the uncached one row 1. -/
theorem cache_stale_row_before_analysis :
    let rs := (parseAllCached M3 (RSt.fresh 2) [(0, lineX), (8, lineY), (16, lineY)]).2
    (parseLineCached M3 rs 0 lineX).1 = some (0, 1) ∧ (parseLine M3 rs.st lineX).1 = some (1, 2) := by decide

/-- a year-less line: its instant depends on the fill year -/
def Myear : Option Nat → Matrix := fun y r ℓ =>
  if r = 0 ∧ ℓ = lineX then some (match y with | none => 1972 | some y => Int.ofNat y) else none

/-- what `process_missing_year` relies on: both of its calls into the reader empty the parse cache -/
theorem C04_year_change_clears (rs : RSt) :
    YEAR_START_CLEARS = true ∧ YEAR_STEP_CLEARS = true ∧
    (clearSyslines rs).cache = [] ∧ (removeSysline rs).cache = [] ∧
    (clearSyslines rs).st = rs.st ∧ (removeSysline rs).st = rs.st := by
  refine ⟨by decide, by decide, ?_, ?_, ?_, ?_⟩ <;>
    simp [clearSyslines, removeSysline, CLEAR_SYSLINES_CLEARS_PARSE_CACHE, REMOVE_SYSLINE_CLEARS_PARSE_CACHE]

/-- after either call the next parse of any line is a real parse with the matrix then in force -/
theorem C04_after_clear_fresh_parse (M' : Matrix) (rs : RSt) (k : Nat) (ℓ : Bytes) :
    (parseLineCached M' (clearSyslines rs) k ℓ).1 = (parseLine M' rs.st ℓ).1 ∧
    (parseLineCached M' (removeSysline rs) k ℓ).1 = (parseLine M' rs.st ℓ).1 := by
  have h1 : clearSyslines rs = ⟨rs.st, []⟩ := by simp [clearSyslines, CLEAR_SYSLINES_CLEARS_PARSE_CACHE]
  have h2 : removeSysline rs = ⟨rs.st, []⟩ := by simp [removeSysline, REMOVE_SYSLINE_CLEARS_PARSE_CACHE]
  rw [h1, h2]
  unfold parseLineCached
  simp only [PARSE_CACHE_ENABLED, if_true, lruGet, List.lookup]
  cases h : parseLine M' rs.st ℓ with
  | mk r st' => cases r <;> simp

/-- counter-model: were the cache NOT emptied when the year changes, the line stored with the dummy year 1972
during block-zero analysis would keep that date under the file's year -/
theorem stale_year_if_not_cleared :
    let rs := (parseLineCached (Myear none) ⟨⟨[(0, 0)], true⟩, []⟩ 0 lineX).2
    (parseLineCached (Myear (some 2024)) rs 0 lineX).1 = some (0, 1972) ∧
    (parseLineCached (Myear (some 2024)) (clearSyslines rs) 0 lineX).1 = some (0, 2024) := by decide

end S4V.Props.PatSelSpec
