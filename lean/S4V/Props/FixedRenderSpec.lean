/-
C08, last sentence: "Each printed line shows that record's own field values and nothing else."

What is printed for one accounting record is `FixedStruct::as_bytes`. Its 16 `match` arms are translated
into render programs (`S4V.Gen.FixedRender.layouts`, gen/gen_fixedrender.py, which also pins the body of
every `set_buffer_at_or_err_*!` macro); `S4V.Model.FixedRender.render` interprets them. Every theorem
below that speaks about "every layout" is decided over the GENERATED table (unfolded, so a change of
`as_bytes` or of a struct definition regenerates a different table and the proof is re-run against it)
and lifted through the general interpreter lemmas of `S4V.Lemmas.FixedRender`.

  C08_render_tables_agree          same 16 layouts / sizes as the time-field table `S4V.Gen.Fixed`
  C08_render_fields_in_bounds      every read lies inside the record, inside the struct field it names;
                                   fields + alignment holes tile the struct; distinct ops read disjoint bytes
  C08_render_locality              the text of record k of a file depends on that record's bytes only
  C08_render_depends_only_on_shown_fields
  C08_render_shape                 label₁ value₁ … labelₙ valueₙ [label] "\n" NUL; labels non-empty, pairwise distinct
  C08_render_covers_fields         shown ∪ omitted = all fields, disjoint; the omitted ones, by name
  C08_render_omitted_non_padding   the only omitted non-padding field: netbsd_x8664 lastlogx.ll_ss
  C08_render_types_agree           every `number!` type argument equals the field's declared type
  C08_render_time_is_key_field     the number between dt_beg and dt_end is the field the sort key is read from
  C08_render_injective_on_shown_num  records differing (only) in a shown numeric field render differently
  C08_render_cstr_*                what is NOT shown of a text field (after the first NUL; bytes ≥ 0x80 of a
                                   `c_char` array become NUL) — `C08_render_injective_on_shown_full` is FALSE
  C08_render_single_line_full      FALSE: a `\n` inside a text field is copied verbatim
  C08_render_ends_with_newline_nul F12 as coded
-/
import S4V.Lemmas.FixedRender

namespace S4V.Props.FixedRenderSpec
open S4V.Gen.Fixed (Prim)
open S4V.Gen.FixedRender
open S4V.Model.Fixed (Bytes leNat ofStored slice)
open S4V.Model.FixedRender
open S4V.Lemmas.FixedRender

theorem forall_layouts {p : LayoutR → Bool} (h : layouts.all p = true) : ∀ l ∈ layouts, p l = true :=
  List.all_eq_true.mp h

/-! ### the table -/

theorem C08_render_tables_agree :
    layouts.length = 16 ∧ (layouts.map (·.name)).Nodup
      ∧ layouts.map (fun l => (l.name, l.size)) = S4V.Gen.Fixed.layouts.map (fun l => (l.name, l.size))
      ∧ epilogue = [10, 0] ∧ cCharSigned = true := by decide

/-! ### reads are in bounds, inside the named field, pairwise disjoint; the fields tile the struct -/

def insertRange (x : Nat × Nat) : List (Nat × Nat) → List (Nat × Nat)
  | [] => [x]
  | y :: r => if x.1 ≤ y.1 then x :: y :: r else y :: insertRange x r

def sortRanges (xs : List (Nat × Nat)) : List (Nat × Nat) := xs.foldr insertRange []

/-- the ranges, in order, are non-empty, start at `s`, and each starts where its predecessor ends -/
def tilesFrom : Nat → List (Nat × Nat) → Option Nat
  | s, [] => some s
  | s, (o, n) :: r => if o = s ∧ 0 < n then tilesFrom (s + n) r else none

/-- fields and alignment holes together cover `[0, size)` exactly once -/
def fieldsTile (l : LayoutR) : Bool :=
  tilesFrom 0 (sortRanges (l.fields.map (fun f => (f.off, f.size)) ++ l.holes)) == some l.size

/-- the op names exactly one top-level field (value ops) and all its reads lie inside that field -/
def opInField (l : LayoutR) (o : Op) : Bool :=
  ((opReads o).isEmpty || (opTops o).length == 1) &&
  (opTops o).all fun t =>
    match l.fields[t]? with
    | some fld => (opReads o).all fun rg => decide (fld.off ≤ rg.1) && decide (rg.1 + rg.2 ≤ fld.off + fld.size)
    | none => false

def rangesDisjoint (a b : Nat × Nat) : Bool := decide (a.1 + a.2 ≤ b.1) || decide (b.1 + b.2 ≤ a.1)

/-- the one place where the code reads a byte twice: `0b…` bits, then the names, of the same flag byte -/
def sameFlagByte : Op → Op → Bool
  | .bin4 f, .flagNames g _ _ _ => decide (f = g)
  | _, _ => false

def opsDisjoint (o o' : Op) : Bool := (opReads o).all fun a => (opReads o').all (rangesDisjoint a)

def readsDisjoint : List Op → Bool
  | [] => true
  | o :: r => (r.all fun o' => sameFlagByte o o' || opsDisjoint o o') && readsDisjoint r

def inBounds (l : LayoutR) : Bool := (l.prog.flatMap opReads).all fun rg => decide (rg.1 + rg.2 ≤ l.size)

theorem C08_render_fields_in_bounds : ∀ l ∈ layouts,
    inBounds l = true ∧ (l.prog.all (opInField l)) = true ∧ fieldsTile l = true ∧ readsDisjoint l.prog = true := by
  have h : layouts.all (fun l => inBounds l && l.prog.all (opInField l) && fieldsTile l && readsDisjoint l.prog) = true := by
    decide +kernel
  intro l hl
  have := forall_layouts h l hl
  simp only [Bool.and_eq_true] at this
  exact ⟨this.1.1.1, this.1.1.2, this.1.2, this.2⟩

/-- formal reading of `inBounds`: every byte an op reads has an offset `< size` -/
theorem C08_render_reads_below_size {l : LayoutR} (hl : l ∈ layouts) :
    ∀ rg ∈ l.prog.flatMap opReads, rg.1 + rg.2 ≤ l.size := by
  intro rg h
  have := List.all_eq_true.mp (C08_render_fields_in_bounds l hl).1 rg h
  simpa using this

/-! ### locality -/

/-- the text printed for record `k` of a file (records of `l.size` bytes) is a function of that record's
bytes: any two files that hold the same bytes at `[k·size, (k+1)·size)` print the same text for it -/
theorem C08_render_locality (l : LayoutR) (d d' : Bytes) (k : Nat)
    (h : slice d (k * l.size) l.size = slice d' (k * l.size) l.size) :
    render l (slice d (k * l.size) l.size) = render l (slice d' (k * l.size) l.size) := by rw [h]

/-- index list and byte ranges of the fields the program shows -/
def shown (l : LayoutR) : List Nat := l.prog.flatMap opTops

def shownRanges (l : LayoutR) : List (Nat × Nat) :=
  (shown l).filterMap fun t => l.fields[t]?.map fun f => (f.off, f.size)

theorem shown_covers_reads : ∀ l ∈ layouts, covers (shownRanges l) (l.prog.flatMap opReads) = true := by
  have h : layouts.all (fun l => covers (shownRanges l) (l.prog.flatMap opReads)) = true := by decide +kernel
  exact forall_layouts h

/-- two records that agree on the bytes of the SHOWN fields print the same text: omitted fields,
alignment holes and everything outside the record never reach the output -/
theorem C08_render_depends_only_on_shown_fields {l : LayoutR} (hl : l ∈ layouts) {r r' : Bytes}
    (h : AgreeOn (shownRanges l) r r') : render l r = render l r' :=
  render_congr l (agreeOn_of_covers (shown_covers_reads l hl) h)

/-! ### shape -/

def shapeOk (l : LayoutR) : Bool :=
  wellLabelled none (l.prog.flatMap kinds) && litsNonEmpty l.prog
    && decide ((labels l.prog).Nodup) && (labels l.prog).all (fun s => !s.isEmpty)

theorem shape_all : ∀ l ∈ layouts, shapeOk l = true := by
  have h : layouts.all shapeOk = true := by decide +kernel
  exact forall_layouts h

/-- The line is the concatenation of pieces — fixed strings of the program (`lit`) and texts of field
values (`val`; `cont` = the flag names continuing the flag bits) — followed by `\n` and NUL. For every
layout and every record: each value piece is immediately preceded by a literal piece (so the line starts
with a label and two values never touch), literals are non-empty, and the labels of the layout (runs of
literals) are pairwise distinct. What a value piece is: `emit`, i.e. the canonical text of the decoded
field — see `value_text_*` below. -/
theorem C08_render_shape {l : LayoutR} (hl : l ∈ layouts) (r : Bytes) :
    render l r = (progPieces r l.prog).flatMap (·.2) ++ [10, 0]
      ∧ wellLabelled none ((progPieces r l.prog).map (·.1)) = true
      ∧ (∀ p ∈ progPieces r l.prog, p.1 = .lit → p.2 ≠ [])
      ∧ (labels l.prog).Nodup ∧ (∀ s ∈ labels l.prog, s ≠ []) := by
  have h := shape_all l hl
  simp only [shapeOk, Bool.and_eq_true, decide_eq_true_eq] at h
  obtain ⟨⟨⟨h1, h2⟩, h3⟩, h4⟩ := h
  refine ⟨?_, ?_, ?_, h3, ?_⟩
  · rw [progPieces_text]; rfl
  · rw [progPieces_kinds]; exact h1
  · intro p hp hk
    simp only [progPieces, List.mem_flatMap] at hp
    obtain ⟨op, hop, hpo⟩ := hp
    have hne := List.all_eq_true.mp h2 op hop
    cases op <;> simp [pieces] at hpo
    case str s => subst hpo; intro hs; simp at hne; exact hne hs
    case byte b => subst hpo; simp
    case utType => subst hpo; simp at hk
    case num => subst hpo; simp at hk
    case f32 => subst hpo; simp at hk
    case bin4 => subst hpo; simp at hk
    case cstrn => subst hpo; simp at hk
    case flagNames => subst hpo; simp at hk
    case addr p' t off w l4 l6 =>
      simp only [Bool.and_eq_true, Bool.not_eq_true', List.isEmpty_eq_false_iff] at hne
      split at hpo
      · simp only [List.mem_cons, List.not_mem_nil, or_false] at hpo
        rcases hpo with hpo | hpo
        · subst hpo; exact hne.1
        · subst hpo; simp at hk
      · simp only [List.mem_cons, List.not_mem_nil, or_false] at hpo
        rcases hpo with hpo | hpo
        · subst hpo; exact hne.2
        · subst hpo; simp at hk
  · intro s hs
    have := List.all_eq_true.mp h4 s hs
    simpa using this

/-- what the value pieces are (`fieldInt` = the field decoded with its DECLARED primitive type) -/
theorem value_text_num (r : Bytes) (f : IntRef) (c : Prim) : emit r (.num f c) = decInt (fieldInt r f) := rfl
theorem value_text_utType (r : Bytes) (f : IntRef) (p : Prim) : emit r (.utType f p) = utTypeText (fieldInt r f) := rfl
theorem value_text_cstrn (r : Bytes) (s : String) (t off len : Nat) (sg : Bool) :
    emit r (.cstrn s t off len sg) = cstrText r off len sg := rfl
theorem value_text_f32 (r : Bytes) (s : String) (t off : Nat) : emit r (.f32 s t off) = fmtF32 (storedAt r off 4) := rfl

/-- F12 as coded: every rendered record ends with `\n` and a counted NUL -/
theorem C08_render_ends_with_newline_nul (l : LayoutR) (r : Bytes) :
    ∃ line, render l r = line ++ [10, 0] := ⟨progText r l.prog, rfl⟩

/-! ### which fields are shown -/

def coverOk (l : LayoutR) : Bool :=
  (List.range l.fields.length).all (fun i => (shown l).contains i != l.omitted.contains i)
    && (shown l ++ l.omitted).all (fun i => decide (i < l.fields.length)) && decide (l.omitted.Nodup)

/-- shown ∪ omitted = all fields of the struct, shown ∩ omitted = ∅ -/
theorem C08_render_covers_fields : ∀ l ∈ layouts,
    (∀ i, i < l.fields.length → (i ∈ shown l ↔ i ∉ l.omitted))
      ∧ (∀ i ∈ shown l ++ l.omitted, i < l.fields.length) ∧ l.omitted.Nodup := by
  have h : layouts.all coverOk = true := by decide +kernel
  intro l hl
  have := forall_layouts h l hl
  simp only [coverOk, Bool.and_eq_true, decide_eq_true_eq, List.all_eq_true, List.mem_range] at this
  obtain ⟨⟨h1, h2⟩, h3⟩ := this
  refine ⟨?_, h2, h3⟩
  intro i hi
  have := h1 i hi
  by_cases a : i ∈ shown l <;> by_cases b : i ∈ l.omitted <;> simp_all

def fieldName (l : LayoutR) (i : Nat) : String := (l.fields.getD i default).name

/-- the omitted fields of every layout, by name -/
theorem C08_render_omitted_table :
    layouts.map (fun l => (l.name, l.omitted.map (fieldName l))) =
      [("Fs_Freebsd_x8664_Utmpx", ["__gap1", "__ut_spare"]),
       ("Fs_Linux_Arm64Aarch64_Lastlog", []),
       ("Fs_Linux_Arm64Aarch64_Utmpx", ["__glibc_reserved"]),
       ("Fs_Linux_x86_Acct", ["ac_pad"]),
       ("Fs_Linux_x86_Acct_v3", []),
       ("Fs_Linux_x86_Lastlog", []),
       ("Fs_Linux_x86_Utmpx", ["__glibc_reserved"]),
       ("Fs_Netbsd_x8632_Acct", ["__gap1", "__gap3"]),
       ("Fs_Netbsd_x8632_Lastlogx", []),
       ("Fs_Netbsd_x8632_Utmpx", ["ut_pad"]),
       ("Fs_Netbsd_x8664_Lastlog", []),
       ("Fs_Netbsd_x8664_Lastlogx", ["ll_ss"]),
       ("Fs_Netbsd_x8664_Utmp", []),
       ("Fs_Netbsd_x8664_Utmpx", ["__gap1", "ut_pad"]),
       ("Fs_Openbsd_x86_Lastlog", []),
       ("Fs_Openbsd_x86_Utmp", [])] := by decide +kernel

/-- exactly one omitted field is not padding by name: `netbsd_x8664::lastlogx.ll_ss` (the code says
"ll_ss is not printable"; the netbsd_x8632 arm DOES print its `ll_ss`) -/
theorem C08_render_omitted_non_padding :
    (layouts.flatMap fun l => (l.omitted.filter fun i => !(l.fields.getD i default).pad).map fun i => (l.name, fieldName l i))
      = [("Fs_Netbsd_x8664_Lastlogx", "ll_ss")] := by decide +kernel

/-! ### declared types -/

def typesAgree (l : LayoutR) : Bool :=
  l.prog.all fun
    | .num f c => decide (f.prim = c)
    | .utType f p => decide (f.prim = p)
    | .addr _ _ _ w _ _ => decide (w = ⟨true, 4⟩)
    | _ => true

/-- the type argument of every `set_buffer_at_or_err_number!` (which the macro uses only for a size
assertion) resolves to the same primitive as the field's declared type — no value is shown with a
width or signedness other than its declaration's -/
theorem C08_render_types_agree : ∀ l ∈ layouts, typesAgree l = true := by
  have h : layouts.all typesAgree = true := by decide +kernel
  exact forall_layouts h

/-- the `num` ops between `dtBeg` and `dtEnd` -/
def timeOps : List Op → List (Nat × Prim)
  | [] => []
  | .dtBeg :: r => (r.takeWhile (· ≠ .dtEnd)).filterMap fun
      | .num f _ => some (f.off, f.prim)
      | _ => none
  | _ :: r => timeOps r

def timeOpsExpected (t : S4V.Gen.Fixed.Layout) : List (Nat × Prim) :=
  (t.fieldOffset + t.decl.secOff, t.decl.sec) ::
    match t.decl.usec with
    | some (p, o) => [(t.fieldOffset + o, p)]
    | none => []

/-- the number(s) shown between `dt_beg` and `dt_end` are read from the field — offset, width,
signedness — that `from_fixedstructptr` takes the record's time from (`S4V.Gen.Fixed`: `fieldOffset`,
`decl`), seconds then microseconds -/
theorem C08_render_time_is_key_field :
    layouts.map (fun l => timeOps l.prog) = S4V.Gen.Fixed.layouts.map timeOpsExpected := by decide +kernel

/-! ### a shown number determines the line -/

theorem readsDisjoint_split {pre post : List Op} {op : Op} (h : readsDisjoint (pre ++ op :: post) = true)
    (hop : ∀ o, sameFlagByte op o = false) (hop' : ∀ o, sameFlagByte o op = false) :
    (∀ o ∈ pre, opsDisjoint o op = true) ∧ (∀ o ∈ post, opsDisjoint op o = true) := by
  induction pre with
  | nil =>
    simp only [List.nil_append, readsDisjoint, Bool.and_eq_true, List.all_eq_true] at h
    refine ⟨by simp, fun o ho => ?_⟩
    have := h.1 o ho
    simpa [hop o] using this
  | cons p pre ih =>
    simp only [List.cons_append, readsDisjoint, Bool.and_eq_true, List.all_eq_true] at h
    have ⟨h1, h2⟩ := ih h.2
    refine ⟨fun o ho => ?_, h2⟩
    rcases List.mem_cons.mp ho with rfl | ho
    · have := h.1 op (by simp)
      simpa [hop' o] using this
    · exact h1 o ho

theorem rangesDisjoint_not_mem {a b : Nat × Nat} (h : rangesDisjoint a b = true) {i : Nat}
    (h1 : a.1 ≤ i) (h2 : i < a.1 + a.2) : ¬ (b.1 ≤ i ∧ i < b.1 + b.2) := by
  simp only [rangesDisjoint, Bool.or_eq_true, decide_eq_true_eq] at h
  omega

/-- Two records (of one layout) that hold the same bytes everywhere except inside ONE shown numeric
field, and whose values of that field differ, are printed differently: decimal text is injective and the
rest of the line is the same on both sides. (`readsDisjoint`, decided for every layout, guarantees that no
other op looks at the field's bytes, so the hypothesis `hsame` is satisfiable for every `num` op.) -/
theorem C08_render_injective_on_shown_num {l : LayoutR} (hl : l ∈ layouts) {pre post : List Op} {f : IntRef} {c : Prim}
    (hp : l.prog = pre ++ .num f c :: post) {r r' : Bytes}
    (hsame : ∀ i, i < l.size → ¬ (f.off ≤ i ∧ i < f.off + f.prim.bytes) → r[i]? = r'[i]?)
    (hdiff : fieldInt r f ≠ fieldInt r' f) : render l r ≠ render l r' := by
  have hb := C08_render_fields_in_bounds l hl
  have hrd := hb.2.2.2
  rw [hp] at hrd
  have ⟨d1, d2⟩ := readsDisjoint_split hrd (fun o => rfl) (fun o => by cases o <;> rfl)
  have hin := C08_render_reads_below_size hl
  rw [hp] at hin
  refine render_ne_of_mid hp ?_ ?_ (fun h => hdiff (decInt_injective h))
  · intro rg hrg i h1 h2
    obtain ⟨o, ho, hro⟩ := List.mem_flatMap.mp hrg
    have hdis := List.all_eq_true.mp (List.all_eq_true.mp (d1 o ho) rg hro) (f.off, f.prim.bytes) (by simp [opReads])
    have hlt := hin rg (by simp only [List.flatMap_append, List.mem_append]; exact Or.inl hrg)
    exact hsame i (by omega) (rangesDisjoint_not_mem hdis h1 h2)
  · intro rg hrg i h1 h2
    obtain ⟨o, ho, hro⟩ := List.mem_flatMap.mp hrg
    have hdis := List.all_eq_true.mp (d2 o ho) (f.off, f.prim.bytes) (by simp [opReads])
    have hdis := List.all_eq_true.mp hdis rg hro
    have hlt := hin rg (by
      simp only [List.flatMap_append, List.flatMap_cons, List.mem_append]; exact Or.inr (Or.inr hrg))
    have : rangesDisjoint rg (f.off, f.prim.bytes) = true := by
      simp only [rangesDisjoint, Bool.or_eq_true, decide_eq_true_eq] at hdis ⊢; omega
    exact hsame i (by omega) (rangesDisjoint_not_mem this h1 h2)

/-- decoding is injective too: equal values of a field ⇒ equal bytes of the field (so "the values
differ" above is the same as "the field's bytes differ") -/
theorem fieldInt_injective {r r' : Bytes} {f : IntRef}
    (h1 : (slice r f.off f.prim.bytes).length = f.prim.bytes) (h2 : (slice r' f.off f.prim.bytes).length = f.prim.bytes)
    (h : fieldInt r f = fieldInt r' f) : slice r f.off f.prim.bytes = slice r' f.off f.prim.bytes := by
  apply leNat_injective _ _ (by rw [h1, h2])
  have b1 := leNat_lt (slice r f.off f.prim.bytes)
  have b2 := leNat_lt (slice r' f.off f.prim.bytes)
  rw [h1] at b1; rw [h2] at b2
  unfold fieldInt storedAt ofStored at h
  have e : (256 : Nat) ^ f.prim.bytes = 2 ^ (8 * f.prim.bytes) := by
    rw [show (256 : Nat) = 2 ^ 8 by rfl, ← Nat.pow_mul]
  rw [e] at b1 b2
  generalize leNat (slice r f.off f.prim.bytes) = a at *
  generalize leNat (slice r' f.off f.prim.bytes) = b at *
  generalize 2 ^ (8 * f.prim.bytes) = P at *
  split at h <;> split at h <;> omega

/-! ### text fields: what is not shown -/

theorem takeWhile_nul (a b : Bytes) (ha : ∀ x ∈ a, x ≠ 0) : (a ++ 0 :: b).takeWhile (· ≠ 0) = a := by
  induction a with
  | nil => simp
  | cons x xs ih =>
    have hx : x ≠ 0 := ha x (by simp)
    simp only [List.cons_append, List.takeWhile_cons, ne_eq, hx, not_false_eq_true, decide_true, if_true]
    rw [ih (fun y hy => ha y (by simp [hy]))]

/-- the bytes of a text field after its first NUL never reach the line -/
theorem C08_render_cstr_hidden_after_nul {r r' : Bytes} {off len : Nat} {a b b' : Bytes} (sg : Bool)
    (ha : ∀ x ∈ a, x ≠ 0) (h : slice r off len = a ++ 0 :: b) (h' : slice r' off len = a ++ 0 :: b') :
    cstrText r off len sg = cstrText r' off len sg := by
  simp only [cstrText, h, h', takeWhile_nul a _ ha]

def ascii (s : String) : Bytes := s.toList.map fun c => UInt8.ofNat c.toNat

/-- little-endian bytes of `v`, `n` of them -/
def le : Nat → Nat → Bytes
  | 0, _ => []
  | n + 1, v => UInt8.ofNat (v % 256) :: le n (v / 256)

def padTo (n : Nat) (bs : Bytes) : Bytes := bs ++ List.replicate (n - bs.length) 0

def netbsdLastlog : LayoutR := layouts.getD 10 default

/-- netbsd_x8664 `lastlog` (32 bytes): `ll_time: i64`, `ll_line: [c_char; 8]`, `ll_host: [c_char; 16]` -/
def lastlogRec (line host : Bytes) : Bytes := le 8 1700000000 ++ padTo 8 line ++ padTo 16 host

example : netbsdLastlog.name = "Fs_Netbsd_x8664_Lastlog" ∧ netbsdLastlog ∈ layouts
    ∧ render netbsdLastlog (lastlogRec (ascii "ttyp0") (ascii "host.example"))
      = ascii "ll_time 1700000000 ll_line 'ttyp0' ll_host 'host.example'\n\x00" := by decide +kernel

/-- on the target where `c_char = i8` every byte ≥ 0x80 of a `c_char` text field is written as a NUL
byte (`u8::try_from(i8)` fails, `Err(_) => 0`): "é" (C3 A9) in a host name prints as two NUL bytes -/
theorem C08_render_cstr_high_bit_becomes_nul :
    render netbsdLastlog (lastlogRec (ascii "ttyp0") [0x63, 0x61, 0x66, 0xC3, 0xA9])
      = ascii "ll_time 1700000000 ll_line 'ttyp0' ll_host 'caf\x00\x00'\n\x00" := by decide +kernel

/-- "the line determines every shown field" -/
def C08_render_injective_on_shown_full : Prop :=
  ∀ l ∈ layouts, ∀ r r' : Bytes, r.length = l.size → r'.length = l.size →
    render l r = render l r' → AgreeOn (shownRanges l) r r'

/-- FALSE, two ways: bytes after the first NUL are not shown, and all bytes ≥ 0x80 of a `c_char` field
collapse to NUL. Witness for the second: `ll_line` = `80` vs `81`. -/
theorem C08_render_injective_on_shown_full_false : ¬ C08_render_injective_on_shown_full := by
  intro h
  have h1 := h netbsdLastlog (by decide +kernel) (lastlogRec [0x80] []) (lastlogRec [0x81] [])
    (by decide +kernel) (by decide +kernel) (by decide +kernel)
  have h2 := h1 (8, 8) (by decide +kernel) 8 (by decide) (by decide)
  exact absurd h2 (by decide +kernel)

/-- "one record, one line" -/
def C08_render_single_line_full : Prop :=
  ∀ l ∈ layouts, ∀ r : Bytes, r.length = l.size → 10 ∉ progText r l.prog

/-- FALSE: text fields are copied verbatim up to the first NUL, so a `\n` stored in a field splits the
record's text (`ll_line` = "a\nb") -/
theorem C08_render_single_line_full_false : ¬ C08_render_single_line_full := by
  intro h
  exact absurd (h netbsdLastlog (by decide +kernel) (lastlogRec [0x61, 10, 0x62] []) (by decide +kernel)) (by decide +kernel)

/-! ### non-vacuity -/

def linuxUtmpx : LayoutR := layouts.getD 6 default

/-- a Linux x86_64 `utmpx` record (384 bytes) -/
def utmpxRec (utType : Nat) (addr : Bytes) : Bytes :=
  le 2 utType ++ [0, 0] ++ le 4 1234 ++ padTo 32 (ascii "pts/0") ++ padTo 4 (ascii "ts/0") ++ padTo 32 (ascii "root")
    ++ padTo 256 (ascii "192.168.1.5") ++ le 2 0 ++ le 2 65535 ++ le 4 0 ++ le 4 1700000000 ++ le 4 123456
    ++ padTo 16 addr ++ padTo 20 []

example : linuxUtmpx.name = "Fs_Linux_x86_Utmpx" ∧ linuxUtmpx ∈ layouts ∧ (utmpxRec 7 [192, 168, 1, 5]).length = linuxUtmpx.size
    ∧ render linuxUtmpx (utmpxRec 7 [192, 168, 1, 5]) = ascii
      "ut_type USER_PROCESS ut_pid 1234 ut_line 'pts/0' ut_id 'ts/0' ut_user 'root' ut_host '192.168.1.5' e_termination 0 e_exit -1 ut_session '0' ut_xtime 1700000000.123456 ut_addr 192.168.1.5\n\x00"
    ∧ renderInto printBufferSize linuxUtmpx (utmpxRec 7 [192, 168, 1, 5])
        = .ok (render linuxUtmpx (utmpxRec 7 [192, 168, 1, 5])) 149 166 := by decide +kernel

/-- `ut_type` outside the name table is shown as a number; an address with a non-zero word 1..3 is shown as
four host-endian 32-bit words in hex (2001:db8::1 is stored as `20 01 0d b8 00 … 01`) -/
example : render linuxUtmpx (utmpxRec 12 [0x20, 0x01, 0x0d, 0xb8, 0, 0, 0, 0, 0, 0, 0, 0, 0, 0, 0, 1]) = ascii
      "ut_type 12 ut_pid 1234 ut_line 'pts/0' ut_id 'ts/0' ut_user 'root' ut_host '192.168.1.5' e_termination 0 e_exit -1 ut_session '0' ut_xtime 1700000000.123456 ut_addr_v6 B80D0120:0:0:1000000\n\x00" := by
  decide +kernel

def acctV3 : LayoutR := layouts.getD 4 default

/-- a Linux `acct_v3` record (64 bytes): flag byte, `ac_etime` as `f32` bits, `ac_comm` -/
def acctV3Rec (flag : Nat) (etimeBits : Nat) : Bytes :=
  le 1 flag ++ le 1 3 ++ le 2 34816 ++ le 4 0 ++ le 4 1000 ++ le 4 1000 ++ le 4 4321 ++ le 4 1 ++ le 4 1700000000
    ++ le 4 etimeBits ++ le 2 1 ++ le 2 2 ++ le 2 3 ++ le 2 4 ++ le 2 5 ++ le 2 6 ++ le 2 7 ++ le 2 8 ++ padTo 16 (ascii "cat")

example : acctV3.name = "Fs_Linux_x86_Acct_v3" ∧ (acctV3Rec 0x12 0x40490fdb).length = acctV3.size
    ∧ render acctV3 (acctV3Rec 0x12 0x40490fdb) = ascii
      "ac_flag 0b10010 (ASU|AXSIG) ac_version 3 ac_tty 34816 ac_exitcode 0 ac_uid 1000 ac_gid 1000 ac_pid 4321 ac_ppid 1 ac_btime 1700000000 ac_etime 3.1415927 ac_utime 1 ac_stime 2 ac_mem 3 ac_io 4 ac_rw 5 ac_minflt 6 ac_majflt 7 ac_swaps 8 ac_comm 'cat'\n\x00" := by
  decide +kernel

/-- a flag byte with only unnamed bits prints an empty pair of parentheses; `f32` extremes -/
example : (render acctV3 (acctV3Rec 0x20 0x00000001)).take 60 = ascii
      "ac_flag 0b100000 () ac_version 3 ac_tty 34816 ac_exitcode 0 " := by
  decide +kernel

example : fmtF32 0x00000001 = ascii "0.000000000000000000000000000000000000000000001"
    ∧ fmtF32 0x7f7fffff = ascii "340282350000000000000000000000000000000"
    ∧ fmtF32 0x80000000 = ascii "-0" ∧ fmtF32 0xffc00000 = ascii "NaN" ∧ fmtF32 0xff800000 = ascii "-inf"
    ∧ fmtF32 0x3dcccccd = ascii "0.1" ∧ fmtF32 0x4b800000 = ascii "16777216" := by decide +kernel

/-- the hypotheses of `C08_render_injective_on_shown_num` are satisfiable: `ll_time` of the 32-byte lastlog -/
example : ∃ l ∈ layouts, ∃ pre post f c, ∃ r r' : Bytes, l.prog = pre ++ .num f c :: post
    ∧ (∀ i, i < l.size → ¬ (f.off ≤ i ∧ i < f.off + f.prim.bytes) → r[i]? = r'[i]?)
    ∧ fieldInt r f ≠ fieldInt r' f ∧ render l r ≠ render l r' :=
  ⟨netbsdLastlog, by decide +kernel, [netbsdLastlog.prog.getD 0 default, .dtBeg], netbsdLastlog.prog.drop 3,
    ⟨"ll_time", 0, 0, ⟨true, 8⟩⟩, ⟨true, 8⟩, lastlogRec [] [], le 8 1700000001 ++ padTo 24 [],
    by decide +kernel, by decide +kernel, by decide +kernel, by decide +kernel⟩

end S4V.Props.FixedRenderSpec
