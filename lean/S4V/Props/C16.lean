/-
C16 — the reader for a file is chosen from its name alone, for every name.
Also hosts the two classification facts C15 needs (`C16_explicit_always`,
`C16_same_type`).

Statements are about `S4V.Model.Path.classify` (hand model of
`pathbuf_to_filetype_impl`) over the tables regenerated from the source
(`S4V.Gen.PathTables`). Helper lemmas live in `S4V.Lemmas.Path`.
-/
import S4V.Lemmas.Path

namespace S4V.Props.C16
open S4V.Model.Path S4V.Model.PathTypes S4V.Gen.PathTables S4V.Lemmas.Path

/-- Classification terminates, without error, for every byte string: the fuel
`|name| + 1` always suffices (each recursive call strictly shortens the name). -/
theorem C16_terminates (n : Bytes) (ua : Bool) : (classify n ua).isSome :=
  classify_isSome n ua

/-- … and the answer does not depend on how much spare fuel there is. -/
theorem C16_fuel_irrelevant (n : Bytes) (ua : Bool) (fta : Arch) (f : Nat)
    (h : n.length + 1 ≤ f) : classifyAux f n ua fta = classifyAux (n.length + 1) n ua fta :=
  classifyAux_fuel n ua fta f h

/-- A file named explicitly (`unparseable_are_text = true`) is always attempted. -/
theorem C16_explicit_always (n : Bytes) (r : Result) (h : classify n true = some r) :
    r.kind ≠ .unparsable :=
  classify_true_ne_unparsable n r h

example : classify [97] true = some ⟨.text, .normal⟩ := by decide

/-- A walked file that is kept gets the type it would get if named. -/
theorem C16_same_type (n : Bytes) (r : Result) (h : classify n false = some r)
    (hk : r.kind ≠ .unparsable) : classify n true = some r :=
  classify_false_true n r h hk

example : classify [97] false = some ⟨.text, .normal⟩ ∧ Kind.text ≠ .unparsable := by decide

/-- Rotation: a trailing component that is numeric or unrecognised is skipped. -/
theorem C16_rotation (n k : Bytes) (ua : Bool) (hn : n ≠ []) (hk : k ≠ [])
    (hdot : DOT ∉ k) (hjunk : ∀ b ∈ k, b ∉ junkChars) (hutf : isUtf8 k = true)
    (hrow : lookup suffixTable (asciiLower k) = .nomatch) :
    classify (n ++ DOT :: k) ua = classify n ua :=
  classify_rotation n k ua hn hk hdot hjunk hutf hrow

example : ([97] : Bytes) ≠ [] ∧ ([49] : Bytes) ≠ [] ∧ DOT ∉ ([49] : Bytes) ∧ (∀ b ∈ ([49] : Bytes), b ∉ junkChars)
    ∧ isUtf8 [49] = true ∧ lookup suffixTable (asciiLower [49]) = .nomatch := by decide

/-- One compression suffix selects the container and leaves the type unchanged. -/
theorem C16_compress (n k : Bytes) (ua : Bool) (a : Arch) (r : Result) (hn : n ≠ [])
    (hrow : lookup suffixTable (asciiLower k) = .compress a) (hutf : isUtf8 k = true)
    (h : classify n ua = some r) (hk : r.kind ≠ .unparsable) (harch : r.arch = .normal) :
    classify (n ++ DOT :: k) ua = some ⟨r.kind, a⟩ :=
  classify_compress n k ua a r hn hrow hutf h hk harch

/-- With two compression suffixes the inner one wins (stated, since the property says "one"). -/
theorem C16_compress_inner_wins (n k : Bytes) (ua : Bool) (a : Arch) (r : Result) (hn : n ≠ [])
    (hrow : lookup suffixTable (asciiLower k) = .compress a) (hutf : isUtf8 k = true)
    (h : classify n ua = some r) (harch : r.arch ≠ .normal) :
    classify (n ++ DOT :: k) ua = some r :=
  classify_compress_inner n k ua a r hn hrow hutf h harch

/-- `a` + `.GZ`: hypotheses of `C16_compress`; `a.xz` + `.GZ`: hypotheses of `C16_compress_inner_wins`. -/
example : lookup suffixTable (asciiLower [71, 90]) = .compress .gz ∧ isUtf8 [71, 90] = true
    ∧ ([97] : Bytes) ≠ [] ∧ classify [97] false = some ⟨.text, .normal⟩
    ∧ ([97, 46, 120, 122] : Bytes) ≠ [] ∧ classify [97, 46, 120, 122] false = some ⟨.text, .xz⟩ := by
  decide

/-- Letter case never matters. -/
theorem C16_case (n : Bytes) (ua : Bool) : classify (asciiLower n) ua = classify n ua :=
  classify_asciiLower n ua

/-- Trailing junk characters never matter (UTF-8 names). -/
theorem C16_junk_trailing_partial (n j : Bytes) (ua : Bool) (hutf : isUtf8 n = true)
    (hj : ∀ b ∈ j, b ∈ junkChars) : classify (n ++ j) ua = classify n ua :=
  classify_junk_trailing n j ua hutf hj

example : isUtf8 [97, 46, 108, 111, 103] = true ∧ ∀ b ∈ ([126] : Bytes), b ∈ junkChars := by decide

/-- The unrestricted statement. -/
def C16_junk_trailing_full : Prop :=
  ∀ (n j : Bytes) (ua : Bool), (∀ b ∈ j, b ∈ junkChars) → classify (n ++ j) ua = classify n ua

/-- It is false for names that are not UTF-8 (`to_str()` yields `""`, so nothing is trimmed):
witness `\xFF.log~` (Unparsable when walked) vs `\xFF.log` (text). -/
theorem C16_junk_trailing_full_false : ¬ C16_junk_trailing_full :=
  junk_trailing_full_false

/-- The first recognised type word from the right decides (suffix position).
The word must be non-empty: see `C16_type_word_full_false`. -/
theorem C16_type_word (n w : Bytes) (ua : Bool) (hn : n ≠ []) (hw : w ≠ []) (hutf : isUtf8 w = true)
    (hdot : DOT ∉ w) (hjunk : ∀ b ∈ w, b ∉ junkChars) :
    classify (n ++ DOT :: w) ua =
      (match lookup suffixTable (asciiLower w) with
       | .evtx => some ⟨.evtx, .normal⟩
       | .journal => some ⟨.journal, .normal⟩
       | .text => some ⟨.text, .normal⟩
       | .fixed t => some ⟨.fixed t, .normal⟩
       | .tarArchive => some ⟨.archiveTar, .normal⟩
       | .nonlog => some (fallback ua .normal)
       | .compress a => classifyAux (n.length + 1) n ua a
       | .nomatch => classify n ua) :=
  classify_type_word n w ua hn hw hutf hdot hjunk

example : ([97] : Bytes) ≠ [] ∧ ([108, 111, 103] : Bytes) ≠ [] ∧ isUtf8 [108, 111, 103] = true
    ∧ DOT ∉ ([108, 111, 103] : Bytes) ∧ ∀ b ∈ ([108, 111, 103] : Bytes), b ∉ junkChars := by decide

/-- The statement as first written, without `w ≠ []`. -/
def C16_type_word_full : Prop :=
  ∀ (n w : Bytes) (ua : Bool), n ≠ [] → isUtf8 w = true → DOT ∉ w → (∀ b ∈ w, b ∉ junkChars) →
    classify (n ++ DOT :: w) ua =
      (match lookup suffixTable (asciiLower w) with
       | .evtx => some ⟨.evtx, .normal⟩
       | .journal => some ⟨.journal, .normal⟩
       | .text => some ⟨.text, .normal⟩
       | .fixed t => some ⟨.fixed t, .normal⟩
       | .tarArchive => some ⟨.archiveTar, .normal⟩
       | .nonlog => some (fallback ua .normal)
       | .compress a => classifyAux (n.length + 1) n ua a
       | .nomatch => classify n ua)

/-- It is false for the empty word: `..a.` walked is text (cleaned to `a.`, whose extension is
empty), while `..a` is `Unparsable` (cleaned path keeps the extension `a`, a known non-log). -/
theorem C16_type_word_full_false : ¬ C16_type_word_full := by
  intro h
  have := h [46, 46, 97] [] false (by decide) (by decide) (by decide) (by decide)
  revert this
  decide

/-- A name none of whose components is recognised is read as text
(here: a single junk-free component without dots). -/
theorem C16_default_text (n : Bytes) (ua : Bool) (hn : n ≠ []) (hutf : isUtf8 n = true)
    (hdot : DOT ∉ n) (hjunk : ∀ b ∈ n, b ∉ junkChars)
    (hrow : lookup nameTable (asciiLower n) = .nomatch ∨ lookup nameTable (asciiLower n) = .text) :
    classify n ua = some ⟨.text, .normal⟩ :=
  classify_default_text n ua hn hutf hdot hjunk hrow

example : ([97] : Bytes) ≠ [] ∧ isUtf8 [97] = true ∧ DOT ∉ ([97] : Bytes)
    ∧ (∀ b ∈ ([97] : Bytes), b ∉ junkChars) ∧ lookup nameTable (asciiLower [97]) = .nomatch := by decide

/-- Leading junk: stated in full, false in one corner (`..x`, `~.x` when walking). -/
def C16_junk_leading_full : Prop :=
  ∀ (n j : Bytes) (ua : Bool), isUtf8 n = true → (∀ b ∈ j, b ∈ junkCharsLead) →
    classify (j ++ n) ua = classify n ua

theorem C16_junk_leading_full_false : ¬ C16_junk_leading_full :=
  junk_leading_full_false

/-- Leading junk characters other than `.` never matter …
(`hutf` is not actually needed: `S4V.Lemmas.Path.classify_junk_leading'`.) -/
theorem C16_junk_leading_partial (n j : Bytes) (ua : Bool) (hutf : isUtf8 n = true)
    (hj : ∀ b ∈ j, b ∈ junkChars) (hn : startsWithIn junkCharsLead n = false) :
    classify (j ++ n) ua = classify n ua :=
  classify_junk_leading n j ua hutf hj hn

example : isUtf8 [97] = true ∧ (∀ b ∈ ([126] : Bytes), b ∈ junkChars)
    ∧ startsWithIn junkCharsLead [97] = false := by decide

/-- … and neither does one leading `.` (a hidden file).
(`hutf` is not actually needed: `S4V.Lemmas.Path.classify_hidden'`.) -/
theorem C16_hidden_partial (n : Bytes) (ua : Bool) (hutf : isUtf8 n = true)
    (hn : startsWithIn junkCharsLead n = false) :
    classify (DOT :: n) ua = classify n ua :=
  classify_hidden n ua hutf hn

end S4V.Props.C16
