/-
C17 — memory held while a text log is streamed: the retained-data bound for GENERAL message geometry.

Model: `S4V.Model.Mem` (stage-3 loop + drop path, counts only; facts regenerated from the source in
`S4V.Gen.Stream`).  Invariant and lemmas: `S4V.Lemmas.MemGeneral` (built on `S4V.Lemmas.Mem`).

`Geometry M B P msgs` (decidable): any number of messages; every message has `1 ..= M` lines, all of
them inside the blocks `fb j ..= lb j`, `lb j < fb j + B` (a message spans at most `B` blocks); message
`j + 1` starts no earlier than the block in which message `j` ends; at most `P` messages start in one
block (`fb j < fb (j + P)`).  `P` is what "any number of messages per block" means for a block of
finitely many bytes (`P ≤ blocksz`); without it the `syslines` map of the code holds every message that
starts in the last `B + 1` blocks, however many those are (`dense_is_needed`).
`Crossed msgs` (decidable): every block boundary below the last block of the file is crossed by a line,
i.e. no line ends on the last byte of a block (F25) — needed for the `blocks` map of a plain file only.

Proved
* `C17_bound_general`: for EVERY `msgs` with `Geometry M B P msgs` and a consumer that is not lagging, with
  `S = P (B + 1) + 2`:   syslines high ≤ S,   lines high ≤ M S + 1   (plain or streamed, with or without
  `Crossed`);   blocks high ≤ 2 on a streamed reader;   blocks high ≤ 5 B − 3 on a plain file with `Crossed`.
  `C17_bound_general_subsumes_partial`: for `Straddling M` (`B = 2`, `P = 1`) these are the 7 / 5 M + 1 / 5
  of `C17_bound_partial_general`.
* The three side conditions are exactly the known growth mechanisms, each refuted for EVERY bound
  (general in the number of messages, not evaluated instances):
  - `prompt_is_needed` (F8): `Geometry 1 2 1 ∧ Crossed`, consumer lagging ⇒ lines high ≥ number of messages;
  - `crossed_is_needed` (F25): `Geometry 1 1 2` without `Crossed`, plain file, prompt consumer ⇒ every
    block is retained;
  - `visit_all_is_needed` (seeded change C17-a, `DROP_LINES_VISITS_ALL = false`): `Geometry 3 2 1 ∧ Crossed`,
    prompt consumer ⇒ lines high ≥ number of messages.
  `C17_unbounded_false` closes the item left open in `MemSpec` (`C17_unbounded_stmt` is false).
* `C17_bound_general_skip` — MODEL REPAIR found by the end-to-end tie.  `SyslogProcessor::drop_data` returns early
  `if blockoffset == self.drop_block_last`, and `drop_block_last` is initialised with 0 (`DROP_BLOCK_LAST_INIT`,
  regenerated): the first drop target of every file, 0, is therefore never executed, and the messages of blocks
  0, 1 and 2 are all stored when the first drop (target 1) runs.  `S4V.Model.Mem` left the short-cut out as
  "idempotent"; its `lines high` / `syslines high` are one block's worth of messages below what `s4 --summary`
  reports.  `S4V.Model.MemSkip.runS` adds exactly that skip; its three marks EQUAL the binary's on 30 of 34
  generated files (plain and gz, `--blocksz` 64 … 4096, 1 / 3 / 5-line messages) and differ on the other 4 only in
  `lines high` (block sizes 64 / 128: the consumer's lag, F8).  The same invariant proves the same bounds for
  `runS` with `max B 2` in place of `B` (identical for `B ≥ 2`; for single-block messages the `B = 2` values, which
  the binary attains: `syslines high: 8` = `P (2 + 1) + 2` for block-aligned 32-byte lines at `--blocksz 64`).
  `packed 3` attains the `runS` bounds 15 lines / 14 messages.
* No third growth family exists in the model: exhaustive evaluation over all periodic geometries with
  pattern length ≤ 5, line span ≤ 4 blocks, aligned gaps allowed on streamed readers (scratch runs, not part
  of the build) found no violation of the bounds before they were proved.
-/
import S4V.Model.Mem
import S4V.Model.MemSkip
import S4V.Lemmas.Mem
import S4V.Lemmas.MemGeneral
import S4V.Props.MemSpec

namespace S4V.Props.MemGeneralSpec
open S4V.Model.Mem S4V.Model.MemSkip S4V.Gen.Consts S4V.Gen.Stream S4V.Lemmas.Mem S4V.Lemmas.MemGeneral

/-- the facts of the drop path this file rests on, as regenerated from the source: `drop_lines` visits
every line, `drop_sysline` hands over all lines, `drop_line` keeps the last part's block, the sysline
leaves the map before the unwrap, `drop_data_try` is `if bo_first > 1 { drop_data(bo_first - 2) }`,
streamed readers drop the block behind the one just read -/
theorem code_facts :
    DROP_LINES_VISITS_ALL = true ∧ DROP_SYSLINE_PASSES_ALL_LINES = true ∧ LINE_DROP_KEEP_PARTS = 1
    ∧ SYSLINE_REMOVED_BEFORE_UNWRAP = true ∧ DROP_TRY_GUARD = 1 ∧ DROP_TRY_BACK = 2 ∧ DROP_BLOCK_LAST_INIT = 0
    ∧ S4V.Gen.Blocks.READ_BLOCK_LOOKBACK_DROP = true := by
  decide

/-- the code as extracted is the `visitAll = true` instance of the model (unfolds
`DROP_LINES_VISITS_ALL`: a regenerated `false` breaks this and every bound below) -/
theorem run_visits_all : run = runG true := by
  funext streamed lag msgs
  simp only [run, code_facts.1]

def marks (s : St) : Nat × Nat × Nat := (s.bHigh, s.lHigh, s.sHigh)

/-- **C17_bound_general**: for every file whose messages have at most `M` lines, span at most `B` blocks
and start at most `P` to a block, read with a consumer that is not lagging:
`syslines high ≤ P (B + 1) + 2` and `lines high ≤ M (P (B + 1) + 2) + 1` on a plain file and on a streamed
reader; `blocks high ≤ 2` on a streamed reader (gz / bz2 / lz4 look-back drop); `blocks high ≤ 5 B − 3` on a
plain file in which no line ends on a block end (`Crossed`) — whatever the number of messages. -/
theorem C17_bound_general (M B P : Nat) (msgs : List Msg) (h : Geometry M B P msgs) :
    ((run false prompt msgs).lHigh ≤ M * (P * (B + 1) + 2) + 1 ∧ (run false prompt msgs).sHigh ≤ P * (B + 1) + 2
      ∧ (Crossed msgs → (run false prompt msgs).bHigh ≤ 5 * B - 3))
    ∧ ((run true prompt msgs).bHigh ≤ 2 ∧ (run true prompt msgs).lHigh ≤ M * (P * (B + 1) + 2) + 1
      ∧ (run true prompt msgs).sHigh ≤ P * (B + 1) + 2) := by
  rw [run_visits_all]
  have h1 := runG_bounded (streamed := false) h
  have h2 := runG_bounded (streamed := true) h
  refine ⟨⟨h1.2.1, h1.2.2, fun hc => ?_⟩, ⟨runG_streamed_bHigh true prompt msgs, h2.2.1, h2.2.2⟩⟩
  have := h1.1 ⟨rfl, hc⟩
  unfold bBoundW at this
  omega

/-- the refined model (`S4V.Model.MemSkip`: the first drop target, 0, never runs because `drop_block_last`
starts at 0) is the `visitAll = true` instance as well -/
theorem runS_visits_all : runS = runSG true := by
  funext streamed lag msgs
  simp only [runS, code_facts.1]

/-- **C17_bound_general_skip**: the same theorem for the model that matches the binary's marks exactly
(`runS`): the window of stored messages is `max B 2` blocks wide instead of `B` (blocks 0, 1 and 2 are all
stored when the first drop runs), i.e. the bounds are those of `C17_bound_general` for `B ≥ 2` and the
`B = 2` ones for single-block messages -/
theorem C17_bound_general_skip (M B P : Nat) (msgs : List Msg) (h : Geometry M B P msgs) :
    ((runS false prompt msgs).lHigh ≤ M * (P * (max B 2 + 1) + 2) + 1
      ∧ (runS false prompt msgs).sHigh ≤ P * (max B 2 + 1) + 2
      ∧ (Crossed msgs → (runS false prompt msgs).bHigh ≤ 4 * B - 3 + max B 2))
    ∧ ((runS true prompt msgs).bHigh ≤ 2 ∧ (runS true prompt msgs).lHigh ≤ M * (P * (max B 2 + 1) + 2) + 1
      ∧ (runS true prompt msgs).sHigh ≤ P * (max B 2 + 1) + 2) := by
  rw [runS_visits_all]
  have h1 := runSG_bounded (streamed := false) h
  have h2 := runSG_bounded (streamed := true) h
  exact ⟨⟨h1.2.1, h1.2.2, fun hc => h1.1 ⟨rfl, hc⟩⟩, ⟨runSG_streamed_bHigh true prompt msgs, h2.2.1, h2.2.2⟩⟩

/-- for messages that may span two blocks or more the two models have the same bounds -/
theorem C17_bound_general_skip_ge2 (M B P : Nat) (msgs : List Msg) (h : Geometry M B P msgs) (hB : 2 ≤ B) :
    ((runS false prompt msgs).lHigh ≤ M * (P * (B + 1) + 2) + 1 ∧ (runS false prompt msgs).sHigh ≤ P * (B + 1) + 2
      ∧ (Crossed msgs → (runS false prompt msgs).bHigh ≤ 5 * B - 3))
    ∧ ((runS true prompt msgs).bHigh ≤ 2 ∧ (runS true prompt msgs).lHigh ≤ M * (P * (B + 1) + 2) + 1
      ∧ (runS true prompt msgs).sHigh ≤ P * (B + 1) + 2) := by
  have := C17_bound_general_skip M B P msgs h
  have e : max B 2 = B := by omega
  rw [e] at this
  refine ⟨⟨this.1.1, this.1.2.1, fun hc => ?_⟩, this.2⟩
  have := this.1.2.2 hc
  omega

/-! ### the hypotheses are decidable and satisfiable -/

/-- several messages per block (`packed 3 n`: three one-line messages inside each block, then one crossing
into the next: 4 messages start in every block); 4-block messages (`long7`); the old families; and the two
excluded shapes: `aligned` fails `Crossed` only, `long7` is outside `B = 2` -/
example : Geometry 1 2 4 (packed 3 6) ∧ Crossed (packed 3 6)
    ∧ Geometry 7 4 1 (long7 5) ∧ Crossed (long7 5)
    ∧ Geometry 1 2 1 (straddle 6) ∧ Crossed (straddle 6)
    ∧ Geometry 1 1 2 (aligned 7) ∧ ¬ Crossed (aligned 7)
    ∧ ¬ Geometry 7 2 1 (long7 5) ∧ ¬ Geometry 1 2 3 (packed 3 6) := by
  decide

/-- evaluated instances: the marks do not move between 5 and 40 blocks' worth of messages and lie under the
bounds of `C17_bound_general` (`packed 3`: `M, B, P = 1, 2, 4` ⇒ 7 / 15 / 14; `long7`: `7, 4, 1` ⇒ 17 / 50 / 7) -/
theorem C17_bound_general_instances :
    marks (run false prompt (packed 3 5)) = (4, 12, 11) ∧ marks (run false prompt (packed 3 10)) = (4, 12, 11)
    ∧ marks (run false prompt (packed 3 40)) = (4, 12, 11) ∧ marks (run true prompt (packed 3 40)) = (2, 12, 11)
    ∧ marks (run false prompt (long7 20)) = (13, 29, 4) := by
  decide +kernel

/-- the refined model on the same instances: `packed 3` ATTAINS the bounds `syslines ≤ P (B + 1) + 2 = 14`,
`lines ≤ M · 14 + 1 = 15`; and the single-block corner where the two models differ: block-aligned one-line
messages, two to a block (`B = 1`, `P = 2`) — `run` stays at 7 lines / 6 messages (its bound), `runS` reaches
9 / 8 = `P (2 + 1) + 2`, which is what the binary reports (`syslines high: 8`, 32-byte lines at `--blocksz 64`) -/
theorem C17_bound_general_skip_instances :
    marks (runS false prompt (packed 3 5)) = (4, 15, 14) ∧ marks (runS false prompt (packed 3 40)) = (4, 15, 14)
    ∧ marks (runS true prompt (packed 3 40)) = (2, 15, 14)
    ∧ marks (run true prompt (aligned 40)) = (2, 7, 6) ∧ marks (runS true prompt (aligned 40)) = (2, 9, 8)
    ∧ marks (runS false prompt (straddle 40)) = (7, 6, 5) ∧ marks (runS false prompt (long7 20)) = (13, 29, 4) := by
  decide +kernel

/-- the general theorem on the 4-block family that `C17_bound_partial_general` could not reach (prompt
consumer): 17 blocks / 50 lines / 7 messages at most, once the instance is in the geometry -/
theorem long7_prompt_bounded (n : Nat) (h : Geometry 7 4 1 (long7 n)) (hc : Crossed (long7 n)) :
    (run false prompt (long7 n)).bHigh ≤ 17 ∧ (run false prompt (long7 n)).lHigh ≤ 50
      ∧ (run false prompt (long7 n)).sHigh ≤ 7 := by
  have := (C17_bound_general 7 4 1 (long7 n) h).1
  exact ⟨this.2.2 hc, this.1, this.2.1⟩

/-- **C17_bound_general_subsumes_partial**: `Straddling M` is the instance `B = 2`, `P = 1` with every
boundary crossed; the general bounds then read 7 / 5 M + 1 / 5 (plain) and 2 / 5 M + 1 / 5 (streamed) -/
theorem C17_bound_general_subsumes_partial (M : Nat) (msgs : List Msg) (h : Straddling M msgs) :
    ((run false prompt msgs).bHigh ≤ 7 ∧ (run false prompt msgs).lHigh ≤ 5 * M + 1 ∧ (run false prompt msgs).sHigh ≤ 5)
    ∧ ((run true prompt msgs).bHigh ≤ 2 ∧ (run true prompt msgs).lHigh ≤ 5 * M + 1 ∧ (run true prompt msgs).sHigh ≤ 5) := by
  obtain ⟨hG, hc⟩ := Straddling.geometry h
  have := C17_bound_general M 2 1 msgs hG
  have e : M * (1 * (2 + 1) + 2) + 1 = 5 * M + 1 := by omega
  rw [e] at this
  exact ⟨⟨this.1.2.2 hc, this.1.1, this.1.2.1⟩, this.2⟩

/-! ### each side condition is needed (for every bound, not only at evaluated sizes) -/

/-- **prompt_is_needed** (F8): inside the geometry (one-line messages over two blocks, every boundary
crossed) a consumer that is as far behind as the channel allows makes `lines high` at least the number
of messages — plain or streamed -/
theorem prompt_is_needed (streamed : Bool) :
    ¬ ∃ c, ∀ msgs : List Msg, Geometry 1 2 1 msgs → Crossed msgs → (run streamed lagging msgs).lHigh ≤ c := by
  rintro ⟨c, h⟩
  obtain ⟨hG, hc⟩ := Straddling.geometry (straddle_Straddling (c + 1))
  have h1 := h (straddle (c + 1)) hG hc
  have h2 := runG_lagging_grows (straddle_Straddling (c + 1)) true streamed
  rw [run_visits_all] at h1
  have : (straddle (c + 1)).length = c + 1 := by simp [straddle]
  omega

/-- **crossed_is_needed** (F25): one-line messages, two to a block, line ends on block ends, PROMPT consumer,
plain file: `blocks high` is at least the number of blocks of the file -/
theorem crossed_is_needed :
    ¬ ∃ c, ∀ msgs : List Msg, Geometry 1 1 2 msgs → (run false prompt msgs).bHigh ≤ c := by
  rintro ⟨c, h⟩
  have h1 := h (aligned (2 * c + 3)) (aligned_geometry _)
  have h2 := aligned_keeps_all true prompt (2 * c + 3) (by omega)
  rw [run_visits_all] at h1
  omega

/-- … while its lines and messages stay bounded: 7 and 6 by `C17_bound_general` — the values the evaluated
instances of `MemSpec.aligned_prompt_grows` attain -/
theorem aligned_lines_bounded (n : Nat) :
    (run false prompt (aligned n)).lHigh ≤ 7 ∧ (run false prompt (aligned n)).sHigh ≤ 6 := by
  have := (C17_bound_general 1 1 2 (aligned n) (aligned_geometry n)).1
  exact ⟨this.1, this.2.1⟩

/-- **visit_all_is_needed** (seeded change C17-a): with `drop_lines` in its short-circuit form
(`lines.into_iter().any(|l| self.drop_line(l))`, regenerated as `DROP_LINES_VISITS_ALL = false`) the bound
fails inside the geometry, with a prompt consumer, plain or streamed -/
theorem visit_all_is_needed (streamed : Bool) :
    ¬ ∃ c, ∀ msgs : List Msg, Geometry 3 2 1 msgs → Crossed msgs → (runG false streamed prompt msgs).lHigh ≤ c := by
  rintro ⟨c, h⟩
  obtain ⟨hG, hc⟩ := cross3_geometry (c + 1)
  have h1 := h (cross3 (c + 1)) hG hc
  have h2 := runG_short_circuit_grows streamed prompt (c + 1)
  omega

/-- **dense_is_needed**: the parameter `P` is not an artefact of the proof — `n` one-line messages inside
one block are all stored at once (nothing is behind the drop target until the file moves on two blocks) -/
theorem dense_is_needed :
    marks (run false prompt (List.replicate 10 [⟨0, 0⟩])) = (1, 10, 10)
    ∧ marks (run false prompt (List.replicate 20 [⟨0, 0⟩])) = (1, 20, 20)
    ∧ Geometry 1 1 20 (List.replicate 20 [⟨0, 0⟩]) ∧ Crossed (List.replicate 20 [⟨0, 0⟩]) := by
  decide +kernel

open S4V.Props.MemSpec in
/-- **C17_unbounded_false**: the literal unrestricted claim of `MemSpec` ("one bound for every number of
messages, every consumer, plain or streamed") is false — by the aligned family at EVERY size -/
theorem C17_unbounded_false : ¬ C17_unbounded_stmt := by
  rintro ⟨B, h⟩
  have h1 := (h false prompt (2 * B + 3)).2.2.2
  have h2 := aligned_keeps_all true prompt (2 * B + 3) (by omega)
  rw [run_visits_all] at h1
  omega

end S4V.Props.MemGeneralSpec
