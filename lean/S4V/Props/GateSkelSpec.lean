/-
C02 / C12 — the block-zero acceptance gate REGENERATED from the source: gen/gen_gate.py turns
`process_stage0_valid_file_check`, `blockzero_analysis{,_bytes,_lines,_syslines}` into data
(`S4V.Gen.Gate.skel`), `S4V.Model.GateSkel` interprets it, and here the interpreter is proved EQUAL to
the hand model `gate` on all inputs. Hence every theorem of `GateSpec` holds of the regenerated form
(§2), F1 / F2 are restated over it (§3), and nine one-token edits of the source text, re-translated
by the same translator (`S4V.Gen.GateMutants`), are proved to change a verdict (§4).
-/
import S4V.Model.GateSkel
import S4V.Gen.GateMutants
import S4V.Props.GateSpec

namespace S4V.Props.GateSkelSpec
open S4V.Model.Lines hiding Res
open S4V.Gen.Blocks S4V.Gen.Consts S4V.Model.Gate S4V.Model.GateSkel S4V.Gen.Gate
open S4V.Props.GateSpec S4V.Lemmas.Gate

theorem linesLoop_eq (th : Thresholds) (bs : Nat) (d : Bytes) (e : Env) (fuel fo found : Nat) :
    runLoop th S4V.Gen.Gate.lines.loop (lineFind bs d) bs e fuel fo found
      = gateLinesLoop bs d e.foundMin fuel fo found := by
  induction fuel generalizing fo found with
  | zero => simp [runLoop, gateLinesLoop]
  | succ n ih =>
    unfold runLoop gateLinesLoop
    simp only [S4V.Gen.Gate.lines, lineFind, List.all_cons, List.all_nil, List.any_cons, List.any_nil,
      evalCond, evalCmp, evalOpd, Bool.and_true, Bool.or_false]
    by_cases h : found ≥ e.foundMin
    · simp [h, Nat.not_lt.mpr h]
    · have h' : found < e.foundMin := Nat.lt_of_not_ge h
      simp only [h, h', decide_true, if_true, if_false]
      cases hf : findLineInBlock bs d fo with
      | found foNext ps =>
        have := ih foNext (found + 1)
        simp only [S4V.Gen.Gate.lines] at this
        by_cases hb : blockOffsetAtFileOffset foNext bs = 0
        · simp [hb, this]
        · have hb' : ¬ 0 = blockOffsetAtFileOffset foNext bs := fun h => hb h.symm
          simp [hb, hb']
      | part ps => simp
      | done => simp

private theorem syslLoop_aux (th : Thresholds) (L : Loop)
    (hL : L = ⟨[⟨.lt, .found, .foundMin⟩, ⟨.eq, .boFo, (.lit 0)⟩], 1, 1, []⟩)
    (P : Bytes → Option Int) (bs : Nat) (d : Bytes) (e : Env) (fuel fo found : Nat) :
    runLoop th L (findSyslineInBlock P bs d (d.length + 1)) bs e fuel fo found
      = gateSyslinesLoop P bs d e.foundMin fuel fo found := by
  subst hL
  induction fuel generalizing fo found with
  | zero => simp [runLoop, gateSyslinesLoop]
  | succ n ih =>
    unfold runLoop gateSyslinesLoop
    simp only [List.all_cons, List.all_nil, List.any_nil, evalCond, evalCmp, evalOpd, Bool.and_true]
    by_cases h : found ≥ e.foundMin
    · simp [h, Nat.not_lt.mpr h]
    · have h' : found < e.foundMin := Nat.lt_of_not_ge h
      by_cases hb : blockOffsetAtFileOffset fo bs = 0
      · simp only [h, h', hb, decide_true, Bool.and_self, if_true, ne_eq, not_true_eq_false, or_self, if_false]
        cases hf : findSyslineInBlock P bs d (d.length + 1) fo with
        | found foNext => simp [ih]
        | donePartial => simp
        | done => simp
      · simp [h, hb]

/-- pass one of `blockzero_analysis_syslines`, as regenerated, is the hand loop -/
theorem syslLoop_eq (th : Thresholds) (P : Bytes → Option Int) (bs : Nat) (d : Bytes) (e : Env) (fuel fo found : Nat) :
    runLoop th S4V.Gen.Gate.syslines.loop (findSyslineInBlock P bs d (d.length + 1)) bs e fuel fo found
      = gateSyslinesLoop P bs d e.foundMin fuel fo found :=
  syslLoop_aux th _ rfl P bs d e fuel fo found

/-- pass two (the recount after `clear_syslines`) is the same loop -/
theorem syslLoop2_eq (th : Thresholds) (P : Bytes → Option Int) (bs : Nat) (d : Bytes) (e : Env) (fuel fo found : Nat) :
    runLoop th S4V.Gen.Gate.syslines.pass2 (findSyslineInBlock P bs d (d.length + 1)) bs e fuel fo found
      = gateSyslinesLoop P bs d e.foundMin fuel fo found :=
  syslLoop_aux th _ rfl P bs d e fuel fo found

/-- the interpreter of the regenerated skeleton IS the hand model, for every threshold table -/
theorem gateSkelWith_is_model (th : Thresholds) (multi : Bool) (P : Bytes → Option Int) (bs : Nat) (d : Bytes) :
    gateSkelWith th S4V.Gen.Gate.skel multi P bs d = gateWith th P bs d := by
  unfold gateSkelWith gateWith
  by_cases h0 : d.length = 0
  · simp [S4V.Gen.Gate.skel, S4V.Gen.Gate.stage0, runChecks, evalCond, evalCmp, evalOpd, env0, h0, resVerdict]
  · simp only [S4V.Gen.Gate.skel, S4V.Gen.Gate.stage0, S4V.Gen.Gate.analysis, runChecks, runSteps, runFn, evalCond, evalCmp,
      evalOpd, env0, h0, decide_false, if_false, Option.getD_none, ne_eq, not_true_eq_false, Bool.false_eq_true]
    unfold runBytes
    simp only [S4V.Gen.Gate.bytes, runChecks, evalCond, evalCmp, evalOpd, env0]
    by_cases h1 : (blockAt d bs 0).length < min th.bytesMin bs
    · simp [h1, resVerdict]
    · simp only [h1, decide_false, if_false, Bool.false_eq_true]
      by_cases h2 : (List.take th.nullMax (blockAt d bs 0)).all (· == 0) = true
      · simp [h2, resVerdict]
      · simp only [h2, if_false, Option.getD_none, not_true_eq_false, Bool.false_eq_true]
        unfold runLines runFinal
        simp only [linesLoop_eq]
        simp only [S4V.Gen.Gate.lines, lookup, evalCond, evalCmp, evalOpd, env0]
        by_cases h3 : gateLinesLoop bs d (th.lineMin (blockAt d bs 0).length) (d.length + 1) 0 0
            < th.lineMin (blockAt d bs 0).length
        · simp [h3, Nat.not_le.mpr h3, resVerdict]
        · simp only [h3, Nat.not_lt.mp h3, ge_iff_le, decide_true, if_true, if_false, not_true_eq_false]
          unfold runSyslines runFinal
          simp only [syslLoop_eq, syslLoop2_eq]
          simp only [S4V.Gen.Gate.syslines, lookup, runChecks, evalCond, evalCmp, evalOpd, env0, Bool.if_true_left, ite_self]
          generalize gateSyslinesLoop P bs d (th.syslineMin (blockAt d bs 0).length) (d.length + 1) 0 0 = f
          by_cases h4 : f = 0
          · simp [h4, resVerdict]
          · by_cases h5 : f < th.syslineMin (blockAt d bs 0).length
            · simp [h4, h5, Nat.not_le.mpr h5, resVerdict]
            · simp [h4, h5, Nat.not_lt.mp h5, resVerdict]

/-- **C02/C12**: the gate regenerated from the source text (skeleton + thresholds) equals the hand model
on all inputs, whichever way the pattern count of pass one falls -/
theorem C02_gate_skeleton_is_model (multi : Bool) (P : Bytes → Option Int) (bs : Nat) (d : Bytes) :
    gateSkel multi P bs d = gate P bs d :=
  gateSkelWith_is_model generated multi P bs d

/-! ### 2. the properties of `GateSpec`, of the regenerated gate -/

/-- the block-free characterisation holds of the regenerated gate -/
theorem C02_gateSkel_eq_gateSpec (multi : Bool) (P : Bytes → Option Int) (bs : Nat) (d : Bytes) (hbs : 1 ≤ bs)
    (hP : RejectsShort P) : gateSkel multi P bs d = gateSpec generated P bs d := by
  rw [C02_gate_skeleton_is_model, gate_eq_gateSpec P bs d hbs hP]

/-- no message inside block zero: the regenerated gate never accepts -/
theorem C02_gateSkel_reject_no_message (multi : Bool) (P : Bytes → Option Int) (bs : Nat) (d : Bytes) (hbs : 1 ≤ bs)
    (hP : RejectsShort P) (h0 : acceptedInBlockZero P bs d = 0) : gateSkel multi P bs d ≠ .ok := by
  rw [C02_gate_skeleton_is_model]; exact gate_reject_no_message P bs d hbs hP h0

/-- a parser that accepts nothing: never accepted -/
theorem C02_gateSkel_reject_no_timestamp (multi : Bool) (P : Bytes → Option Int) (bs : Nat) (d : Bytes)
    (hP : ∀ l, P l = none) : gateSkel multi P bs d ≠ .ok := by
  rw [C02_gate_skeleton_is_model]; exact gate_reject_no_timestamp P bs d hP

/-- block sizes that hold the whole file agree -/
theorem C12_gateSkel_bs_independent_whole_file (m₁ m₂ : Bool) (P : Bytes → Option Int) (bs₁ bs₂ : Nat) (d : Bytes)
    (hP : RejectsShort P) (hlen : BLOCKZERO_ANALYSIS_BYTES_MIN ≤ d.length)
    (h₁ : d.length ≤ bs₁) (h₂ : d.length ≤ bs₂) : gateSkel m₁ P bs₁ d = gateSkel m₂ P bs₂ d := by
  rw [C02_gate_skeleton_is_model, C02_gate_skeleton_is_model]
  exact gate_bs_independent_whole_file P bs₁ bs₂ d hP hlen h₁ h₂

/-- the second pass never changes the verdict (same parser, counters reset to the generated values) -/
theorem gateSkel_pass2_irrelevant (P : Bytes → Option Int) (bs : Nat) (d : Bytes) :
    gateSkel true P bs d = gateSkel false P bs d := by
  rw [C02_gate_skeleton_is_model, C02_gate_skeleton_is_model]

example : gateSkel true P1 8 exF1 = gateSpec generated P1 8 exF1 :=
  C02_gateSkel_eq_gateSpec true P1 8 exF1 (by decide) P1_rejectsShort
example : gateSkel false P1 14 exF1 = gateSkel true P1 65536 exF1 :=
  C12_gateSkel_bs_independent_whole_file _ _ P1 14 65536 exF1 P1_rejectsShort (by decide) (by decide) (by decide)

/-! ### 3. F1 / F2 over the regenerated gate -/

/-- the wish: the block size does not change the verdict of the regenerated gate -/
def gateSkel_full : Prop :=
  ∀ (multi : Bool) (P : Bytes → Option Int) (bs₁ bs₂ : Nat) (d : Bytes), 1 ≤ bs₁ → 1 ≤ bs₂ →
    gateSkel multi P bs₁ d = gateSkel multi P bs₂ d

/-- F1 evaluated on the regenerated skeleton itself (kernel-decided, not via the equality) -/
theorem exF1_skel : gateSkel false P1 8 exF1 = .noSyslines ∧ gateSkel false P1 64 exF1 = .ok := by decide

theorem gateSkel_full_false : ¬ gateSkel_full := by
  intro h
  have := h false P1 8 64 exF1 (by decide) (by decide)
  rw [exF1_skel.1, exF1_skel.2] at this
  cases this

/-- F2 (threshold regimes) on the regenerated skeleton with the small threshold table -/
theorem gateSkel_threshold_dependence :
    (gateSkelWith smallTh S4V.Gen.Gate.skel false P1 15 exF2 = .ok ∧
      gateSkelWith smallTh S4V.Gen.Gate.skel false P1 32 exF2 = .noLines) ∧
    (gateSkelWith smallTh S4V.Gen.Gate.skel true P1 15 exF2' = .ok ∧
      gateSkelWith smallTh S4V.Gen.Gate.skel true P1 32 exF2' = .noSyslines) := by
  decide

/-- strongest true variant: equal verdicts whenever the block-free characterisations agree -/
theorem gateSkel_partial (multi : Bool) (P : Bytes → Option Int) (bs₁ bs₂ : Nat) (d : Bytes)
    (h₁ : 1 ≤ bs₁) (h₂ : 1 ≤ bs₂) (hP : RejectsShort P)
    (h : gateSpec generated P bs₁ d = gateSpec generated P bs₂ d) :
    gateSkel multi P bs₁ d = gateSkel multi P bs₂ d := by
  rw [C02_gateSkel_eq_gateSpec multi P bs₁ d h₁ hP, C02_gateSkel_eq_gateSpec multi P bs₂ d h₂ hP, h]

/-! ### 4. counter-models: the skeleton re-translated from the source with one edit each -/
open S4V.Gen.GateMutants

def six : Bytes := [49, 97, 10, 49, 98, 10]
def three : Bytes := [49, 97, 10]
def z20 : Bytes := List.replicate 20 0
/-- accepts exactly the one-byte cut `"1"` that block zero of 8 bytes leaves of `exF1` -/
def P49 : Bytes → Option Int := fun l => if l = [49] then some 0 else none

/-- `blocksz0 <= require_sz`: a six-byte log is refused as too small -/
theorem mutant_tooSmallLe_wrong :
    gate P1 64 six = .ok ∧ gateSkelWith generated tooSmallLe.skel false P1 64 six = .tooSmall := by decide

/-- final `found > found_min` in the sysline analysis: nothing is ever accepted (here: `exF1`) -/
theorem mutant_syslFinalGt_wrong :
    gate P1 64 exF1 = .ok ∧ gateSkelWith generated syslFinalGt.skel false P1 64 exF1 = .noSyslines := by decide

/-- `if 0 == block_offset(fo) { break; }`: the line loop stops after one line inside block zero -/
theorem mutant_linesLoopBlock_wrong :
    gateWith smallTh P1 32 exTwo = .ok ∧ gateSkelWith smallTh linesLoopBlock.skel false P1 32 exTwo = .noLines := by
  decide

/-- sysline analysis consulting the LINE map: two messages no longer suffice in the upper regime -/
theorem mutant_syslWrongMap_wrong :
    gateWith smallTh P1 32 exTwo = .ok ∧ gateSkelWith smallTh syslWrongMap.skel false P1 32 exTwo = .noSyslines := by
  decide

/-- NUL check before the size check: three NUL bytes are `FileErrNullBytes`, not `FileErrTooSmall` -/
theorem mutant_bytesOrder_wrong :
    gate P1 64 [0, 0, 0] = .tooSmall ∧ gateSkelWith generated bytesOrder.skel false P1 64 [0, 0, 0] = .nullBytes := by
  decide

/-- line analysis before byte analysis: twenty NUL bytes are `FileErrNoLinesFound`, not `FileErrNullBytes` -/
theorem mutant_callOrder_wrong :
    gateWith smallTh P1 32 z20 = .nullBytes ∧ gateSkelWith smallTh callOrder.skel false P1 32 z20 = .noLines := by
  decide

/-- too-small return dropped: a three-byte file is accepted -/
theorem mutant_tooSmallDropped_wrong :
    gate P1 64 three = .tooSmall ∧ gateSkelWith generated tooSmallDropped.skel false P1 64 three = .ok := by decide

/-- early return after the line analysis dropped: `FileErrNoLinesFound` is lost -/
theorem mutant_linesRetDropped_wrong :
    gateWith smallTh P1 32 exF2 = .noLines ∧ gateSkelWith smallTh linesRetDropped.skel false P1 32 exF2 = .noSyslines := by
  decide

/-- partial message of pass one not counted: refused, whether or not pass two runs -/
theorem mutant_partialNotCounted_wrong :
    gate P49 8 exF1 = .ok ∧ gateSkelWith generated partialNotCounted.skel false P49 8 exF1 = .noSyslines ∧
      gateSkelWith generated partialNotCounted.skel true P49 8 exF1 = .noSyslines := by decide

/-- each mutant skeleton is NOT the hand model: `C02_gate_skeleton_is_model` fails for all nine -/
theorem mutants_are_not_model :
    (∀ G ∈ [tooSmallLe.skel, syslFinalGt.skel, linesLoopBlock.skel, syslWrongMap.skel, bytesOrder.skel,
        callOrder.skel, tooSmallDropped.skel, linesRetDropped.skel, partialNotCounted.skel],
      ¬ ∀ th multi P bs d, gateSkelWith th G multi P bs d = gateWith th P bs d) := by
  intro G hG h
  simp only [List.mem_cons, List.mem_nil_iff, or_false] at hG
  rcases hG with rfl | rfl | rfl | rfl | rfl | rfl | rfl | rfl | rfl
  · have := h generated false P1 64 six; rw [mutant_tooSmallLe_wrong.2] at this; exact absurd this (by decide)
  · have := h generated false P1 64 exF1; rw [mutant_syslFinalGt_wrong.2] at this; exact absurd this (by decide)
  · have := h smallTh false P1 32 exTwo; rw [mutant_linesLoopBlock_wrong.2] at this; exact absurd this (by decide)
  · have := h smallTh false P1 32 exTwo; rw [mutant_syslWrongMap_wrong.2] at this; exact absurd this (by decide)
  · have := h generated false P1 64 [0, 0, 0]; rw [mutant_bytesOrder_wrong.2] at this; exact absurd this (by decide)
  · have := h smallTh false P1 32 z20; rw [mutant_callOrder_wrong.2] at this; exact absurd this (by decide)
  · have := h generated false P1 64 three; rw [mutant_tooSmallDropped_wrong.2] at this; exact absurd this (by decide)
  · have := h smallTh false P1 32 exF2; rw [mutant_linesRetDropped_wrong.2] at this; exact absurd this (by decide)
  · have := h generated false P49 8 exF1; rw [mutant_partialNotCounted_wrong.2.1] at this; exact absurd this (by decide)

end S4V.Props.GateSkelSpec
