/-
Property theorems for the acceptance gate (`S4V.Model.Gate`), the "block-zero
analysis" that decides whether a text log is processed at all.

C12 says "the read block size never changes what is printed". Everything above
the gate is proved independent of the block size `bs`; the gate is NOT, because
it only looks at block zero (the first `bs` bytes):

* F1: a first message whose newline is not inside block zero is seen as a
  partial line cut at the start offset (one byte at offset 0), which no real
  parser accepts: the file is rejected at a small `bs`, accepted at a large one.
* F2: the number of lines / messages demanded grows with the size of block
  zero (1/1 below `SYSLOG_SZ_MAX`, 3/2 from there on): a file of one long
  message is accepted at a small `bs` and rejected at a large one.

What does hold: `gate_partial` / `gate_partial_any` (a `P`-accepted line lying
inside a block zero below the threshold size: accepted, at every such `bs`),
`gate_ok_of_counts` (both threshold regimes), `gate_eq_gateSpec` (exact
block-free characterisation of the verdict for parsers that reject one-byte
inputs) with `gate_bs_independent_whole_file`, `gate_reject_no_timestamp`
(nothing accepted by `P`: never accepted, at any `bs`) and `gate_fuel_enough`
(the fuel of the loops suffices).

All proofs appeal to `S4V.Lemmas.Gate`. Core Lean only.
-/
import S4V.Lemmas.Gate

namespace S4V.Props.GateSpec
open S4V.Gen.Blocks S4V.Gen.Consts S4V.Model.Lines S4V.Model.Gate S4V.Lemmas.Gate

/-- tiny parser for the examples: a message is a line that starts with `'1'`
and has at least one more byte (so the one-byte cut of F1 is not a message) -/
def P1 : Bytes → Option Int
  | 49 :: _ :: _ => some 0
  | _ => none

/-! ### 1a. the verdict depends on the block size (F1, generated thresholds) -/

/-- the wish: the block size does not change the verdict -/
def gate_full : Prop :=
  ∀ (P : Bytes → Option Int) (bs₁ bs₂ : Nat) (d : Bytes), 1 ≤ bs₁ → 1 ≤ bs₂ →
    gate P bs₁ d = gate P bs₂ d

/-- `"1aaaaaaaaa\n1b\n"`: the first line (11 bytes) is longer than 8, shorter than 64 -/
def exF1 : Bytes := [49, 97, 97, 97, 97, 97, 97, 97, 97, 97, 10, 49, 98, 10]

/-- block zero of 8 bytes holds no newline: `findLineInBlock` yields the partial
line `"1"` (defect: cut at the start offset), `P1` rejects it -/
theorem exF1_small : gate P1 8 exF1 = .noSyslines := by decide

theorem exF1_large : gate P1 64 exF1 = .ok := by decide

example : findLineInBlock 8 exF1 0 = .part [⟨0, 0, 1⟩] := by decide
example : lineBytes exF1 8 [⟨0, 0, 1⟩] = [49] := by decide

/-- F1 under the thresholds of the source: same file, same parser, two block
sizes, two verdicts -/
theorem gate_full_false : ¬ gate_full := by
  intro h
  have := h P1 8 64 exF1 (by decide) (by decide)
  rw [exF1_small, exF1_large] at this
  cases this

/-! ### 1b. the thresholds depend on the size of block zero (F2) -/

/-- shape of the generated line threshold: one line below `SYSLOG_SZ_MAX` bytes
of block zero, three from there on -/
theorem threshold_shape : ∀ n, lineCountMin n = if n < SYSLOG_SZ_MAX then 1 else 3 := by
  intro n
  unfold lineCountMin SYSLOG_SZ_MAX
  split <;> simp [*]

/-- shape of the generated message threshold: one below `SYSLOG_SZ_MAX`, two from there on -/
theorem threshold_shape_sysline :
    ∀ n, syslineCountMin n = if n < SYSLOG_SZ_MAX then 1 else 2 := by
  intro n
  unfold syslineCountMin SYSLOG_SZ_MAX
  split <;> simp [*]

example : lineCountMin 8095 = 1 ∧ lineCountMin 8096 = 3 := by decide
example : syslineCountMin 8095 = 1 ∧ syslineCountMin 8096 = 2 := by decide

/-- thresholds of the generated shape with `16` in place of `SYSLOG_SZ_MAX = 8096` -/
def smallTh : Thresholds :=
  ⟨BLOCKZERO_ANALYSIS_BYTES_MIN, BLOCKZERO_ANALYSIS_BYTES_NULL_MAX,
    fun n => if n < 16 then 1 else 3, fun n => if n < 16 then 1 else 2⟩

/-- `"1a\nbbbbbbbbbbbbbbbb\n"`: one message of two lines, 20 bytes -/
def exF2 : Bytes :=
  [49, 97, 10, 98, 98, 98, 98, 98, 98, 98, 98, 98, 98, 98, 98, 98, 98, 98, 98, 10]

/-- `"1a\nb\nc\ndddddddddddd\n"`: one message of four lines, 20 bytes -/
def exF2' : Bytes :=
  [49, 97, 10, 98, 10, 99, 10, 100, 100, 100, 100, 100, 100, 100, 100, 100, 100, 100, 100, 10]

/-- F2 with small thresholds: a single 20-byte message is accepted when block
zero has 15 bytes (one line, one message suffice) and rejected when block zero
holds the whole file (three lines, two messages demanded). `smallTh` has the
shape of the generated thresholds (`threshold_shape`, `threshold_shape_sysline`)
with 16 for 8096, so the same happens to the real gate with a single message of
8096 bytes or more (too large a witness for the kernel). -/
theorem gate_threshold_dependence :
    (gateWith smallTh P1 15 exF2 = .ok ∧ gateWith smallTh P1 32 exF2 = .noLines) ∧
    (gateWith smallTh P1 15 exF2' = .ok ∧ gateWith smallTh P1 32 exF2' = .noSyslines) := by
  decide

/-- the wish for arbitrary thresholds, and its refutation by F2 alone -/
def gateWith_full : Prop :=
  ∀ (th : Thresholds) (P : Bytes → Option Int) (bs₁ bs₂ : Nat) (d : Bytes), 1 ≤ bs₁ → 1 ≤ bs₂ →
    gateWith th P bs₁ d = gateWith th P bs₂ d

theorem gateWith_full_false : ¬ gateWith_full := by
  intro h
  have := h smallTh P1 15 32 exF2 (by decide) (by decide)
  rw [gate_threshold_dependence.1.1, gate_threshold_dependence.1.2] at this
  cases this

/-! ### 2. what does not depend on the block size -/

/-- generalised form: under (i) enough bytes in block zero, (ii) its first
`NULL_MAX` bytes not all zero, (iii) block zero smaller than `SYSLOG_SZ_MAX`,
(iv) SOME line of `d` — starting at a line start `s`, after any number of
non-message lines — ends inside block zero and is accepted by `P`:
the file is accepted. -/
theorem gate_partial_any (P : Bytes → Option Int) (bs : Nat) (d : Bytes) (s : Nat) (hbs : 1 ≤ bs)
    (h1 : min BLOCKZERO_ANALYSIS_BYTES_MIN bs ≤ min bs d.length)
    (h2 : (d.take (min BLOCKZERO_ANALYSIS_BYTES_NULL_MAX (min bs d.length))).all (· == 0) = false)
    (h3 : min bs d.length < SYSLOG_SZ_MAX)
    (hs : s < d.length) (hst : s = 0 ∨ d[s - 1]? = some NL)
    (hE : lineEnd d s < bs)
    (hP : P ((d.drop s).take (lineEnd d s + 1 - s)) ≠ none) :
    gate P bs d = .ok := by
  have h2' : (d.take (min generated.nullMax bs)).all (· == 0) = false := by
    rw [List.take_eq_take_min] at h2 ⊢
    rw [← h2]
    congr 2
    simp only [generated]
    omega
  have h3' : min bs d.length < 8096 := h3
  exact gateWith_ok generated P bs d s hbs h1 h2'
    (by simp only [generated, lineCountMin, h3', ↓reduceIte]; omega)
    (by simp only [generated, syslineCountMin, h3', ↓reduceIte]) hs hst hE hP

/-- the target statement: (i)–(iii) as above, (iv) the FIRST line of `d` ends
inside block zero and `P` accepts it -/
theorem gate_partial (P : Bytes → Option Int) (bs : Nat) (d : Bytes) (hbs : 1 ≤ bs)
    (h1 : min BLOCKZERO_ANALYSIS_BYTES_MIN bs ≤ min bs d.length)
    (h2 : (d.take (min BLOCKZERO_ANALYSIS_BYTES_NULL_MAX (min bs d.length))).all (· == 0) = false)
    (h3 : min bs d.length < SYSLOG_SZ_MAX)
    (hE : lineEnd d 0 < bs)
    (hP : P (d.take (lineEnd d 0 + 1)) ≠ none) :
    gate P bs d = .ok := by
  have hd : 0 < d.length := by
    have : 1 ≤ min BLOCKZERO_ANALYSIS_BYTES_MIN bs := by
      simp only [BLOCKZERO_ANALYSIS_BYTES_MIN]; omega
    omega
  exact gate_partial_any P bs d 0 hbs h1 h2 h3 hd (Or.inl rfl) hE (by simpa using hP)

/-- the conditions (i)–(iv) of `gate_partial_any` at block size `bs`, for the line starting at `s` -/
def SmallOk (P : Bytes → Option Int) (bs : Nat) (d : Bytes) (s : Nat) : Prop :=
  min BLOCKZERO_ANALYSIS_BYTES_MIN bs ≤ min bs d.length ∧
  (d.take (min BLOCKZERO_ANALYSIS_BYTES_NULL_MAX (min bs d.length))).all (· == 0) = false ∧
  min bs d.length < SYSLOG_SZ_MAX ∧
  s < d.length ∧ (s = 0 ∨ d[s - 1]? = some NL) ∧ lineEnd d s < bs ∧
  P ((d.drop s).take (lineEnd d s + 1 - s)) ≠ none

instance (P : Bytes → Option Int) (bs : Nat) (d : Bytes) (s : Nat) : Decidable (SmallOk P bs d s) := by
  unfold SmallOk; infer_instance

/-- two block sizes that both satisfy (i)–(iv) (possibly through different
lines) give the same verdict: accepted -/
theorem gate_bs_independent_small (P : Bytes → Option Int) (bs₁ bs₂ : Nat) (d : Bytes)
    (s₁ s₂ : Nat) (hbs₁ : 1 ≤ bs₁) (hbs₂ : 1 ≤ bs₂)
    (h₁ : SmallOk P bs₁ d s₁) (h₂ : SmallOk P bs₂ d s₂) :
    gate P bs₁ d = gate P bs₂ d := by
  obtain ⟨a1, a2, a3, a4, a5, a6, a7⟩ := h₁
  obtain ⟨b1, b2, b3, b4, b5, b6, b7⟩ := h₂
  rw [gate_partial_any P bs₁ d s₁ hbs₁ a1 a2 a3 a4 a5 a6 a7,
    gate_partial_any P bs₂ d s₂ hbs₂ b1 b2 b3 b4 b5 b6 b7]

/-- a file smaller than `SYSLOG_SZ_MAX` whose first byte is not NUL and that
has a `P`-accepted line ending at offset `e`: accepted at EVERY block size
above `e` and at least `BYTES_MIN` — the verdict is constant on that range -/
theorem gate_bs_independent_above (P : Bytes → Option Int) (bs : Nat) (d : Bytes) (s : Nat)
    (hlen : BLOCKZERO_ANALYSIS_BYTES_MIN ≤ d.length) (hmax : d.length < SYSLOG_SZ_MAX)
    (h0 : d[0]? ≠ some 0)
    (hs : s < d.length) (hst : s = 0 ∨ d[s - 1]? = some NL)
    (hP : P ((d.drop s).take (lineEnd d s + 1 - s)) ≠ none)
    (hbs : BLOCKZERO_ANALYSIS_BYTES_MIN ≤ bs) (hE : lineEnd d s < bs) :
    gate P bs d = .ok := by
  simp only [BLOCKZERO_ANALYSIS_BYTES_MIN] at hlen hbs
  refine gate_partial_any P bs d s (by omega) (by simp only [BLOCKZERO_ANALYSIS_BYTES_MIN]; omega)
    ?_ (by omega) hs hst hE hP
  cases d with
  | nil => simp at hlen
  | cons b rest =>
    have hb : b ≠ 0 := by simpa using h0
    have : min BLOCKZERO_ANALYSIS_BYTES_NULL_MAX (min bs (b :: rest).length)
        = (min BLOCKZERO_ANALYSIS_BYTES_NULL_MAX (min bs (b :: rest).length) - 1) + 1 := by
      simp only [BLOCKZERO_ANALYSIS_BYTES_NULL_MAX]; omega
    rw [this, List.take_succ_cons, List.all_cons]
    simp [hb]

/-- `"aa\n1b\nccc\n"`: a headless first line, then a message -/
def exHead : Bytes := [97, 97, 10, 49, 98, 10, 99, 99, 99, 10]

example : gate P1 64 exF1 = .ok :=
  gate_partial P1 64 exF1 (by decide) (by decide) (by decide) (by decide) (by decide) (by decide)
example : gate P1 8 exHead = .ok :=
  gate_partial_any P1 8 exHead 3 (by decide) (by decide) (by decide) (by decide) (by decide)
    (by decide) (by decide) (by decide)
example : gate P1 11 exF1 = gate P1 64 exF1 :=
  gate_bs_independent_small P1 11 64 exF1 0 0 (by decide) (by decide) (by decide) (by decide)
example : gate P1 6 exHead = gate P1 9 exHead :=
  gate_bs_independent_small P1 6 9 exHead 3 3 (by decide) (by decide) (by decide) (by decide)
example : gate P1 1000 exHead = .ok :=
  gate_bs_independent_above P1 1000 exHead 3 (by decide) (by decide) (by decide) (by decide)
    (by decide) (by decide) (by decide) (by decide)
/-- the hypothesis "the line ends inside block zero" cannot be dropped: F1 -/
example : ¬ lineEnd exF1 0 < 8 ∧ gate P1 8 exF1 ≠ .ok := by decide

/-! ### 2b. both threshold regimes: counting inside block zero -/

/-- number of lines that start inside block zero (specification, no block walk):
`lc bs d fo` counts from line start `fo` on -/
def linesInBlockZero (bs : Nat) (d : Bytes) : Nat := lc bs d 0

/-- number of `P`-accepted lines that lie entirely inside block zero -/
def acceptedInBlockZero (P : Bytes → Option Int) (bs : Nat) (d : Bytes) : Nat := acc P bs d 0

/-- the defining equations of the two counts (walking the lines by `lineEnd`) -/
theorem lc_step (bs : Nat) (d : Bytes) (fo : Nat) :
    lc bs d fo = if fo < d.length ∧ fo < bs then 1 + lc bs d (lineEnd d fo + 1) else 0 :=
  lc_eq bs d fo

theorem acc_step (P : Bytes → Option Int) (bs : Nat) (d : Bytes) (fo : Nat) :
    acc P bs d fo =
      if fo < d.length ∧ lineEnd d fo < bs then
        (if (P ((d.drop fo).take (lineEnd d fo + 1 - fo))).isSome then 1 else 0)
          + acc P bs d (lineEnd d fo + 1)
      else 0 :=
  acc_eq P bs d fo

/-- the general sufficient condition, any thresholds: enough bytes, not all
NUL, at least `lineMin` lines starting inside block zero and at least
`syslineMin ≥ 1` accepted lines lying inside block zero -/
theorem gateWith_ok_of_counts (th : Thresholds) (P : Bytes → Option Int) (bs : Nat) (d : Bytes)
    (hbs : 1 ≤ bs)
    (h1 : min th.bytesMin bs ≤ min bs d.length)
    (h2 : (d.take (min th.nullMax bs)).all (· == 0) = false)
    (hl : th.lineMin (min bs d.length) ≤ linesInBlockZero bs d)
    (hs1 : 1 ≤ th.syslineMin (min bs d.length))
    (hs : th.syslineMin (min bs d.length) ≤ acceptedInBlockZero P bs d) :
    gateWith th P bs d = .ok :=
  gateWith_ok_counts th P bs d hbs h1 h2 hl hs1 hs

/-- the same for the thresholds of the source, in both regimes (block zero
below / from `SYSLOG_SZ_MAX`) -/
theorem gate_ok_of_counts (P : Bytes → Option Int) (bs : Nat) (d : Bytes) (hbs : 1 ≤ bs)
    (h1 : min BLOCKZERO_ANALYSIS_BYTES_MIN bs ≤ min bs d.length)
    (h2 : (d.take (min BLOCKZERO_ANALYSIS_BYTES_NULL_MAX bs)).all (· == 0) = false)
    (hl : lineCountMin (min bs d.length) ≤ linesInBlockZero bs d)
    (hs : syslineCountMin (min bs d.length) ≤ acceptedInBlockZero P bs d) :
    gate P bs d = .ok := by
  refine gateWith_ok_counts generated P bs d hbs h1 h2 hl ?_ hs
  simp only [generated, syslineCountMin]
  split <;> omega

/-- two block sizes that both see enough lines and messages in their block zero agree -/
theorem gate_bs_independent_counts (P : Bytes → Option Int) (bs₁ bs₂ : Nat) (d : Bytes)
    (hbs₁ : 1 ≤ bs₁) (hbs₂ : 1 ≤ bs₂)
    (a1 : min BLOCKZERO_ANALYSIS_BYTES_MIN bs₁ ≤ min bs₁ d.length)
    (a2 : (d.take (min BLOCKZERO_ANALYSIS_BYTES_NULL_MAX bs₁)).all (· == 0) = false)
    (a3 : lineCountMin (min bs₁ d.length) ≤ linesInBlockZero bs₁ d)
    (a4 : syslineCountMin (min bs₁ d.length) ≤ acceptedInBlockZero P bs₁ d)
    (b1 : min BLOCKZERO_ANALYSIS_BYTES_MIN bs₂ ≤ min bs₂ d.length)
    (b2 : (d.take (min BLOCKZERO_ANALYSIS_BYTES_NULL_MAX bs₂)).all (· == 0) = false)
    (b3 : lineCountMin (min bs₂ d.length) ≤ linesInBlockZero bs₂ d)
    (b4 : syslineCountMin (min bs₂ d.length) ≤ acceptedInBlockZero P bs₂ d) :
    gate P bs₁ d = gate P bs₂ d := by
  rw [gate_ok_of_counts P bs₁ d hbs₁ a1 a2 a3 a4, gate_ok_of_counts P bs₂ d hbs₂ b1 b2 b3 b4]

/-- `"aa\n1a\nx\n1b\nccccccccc\n"`: five lines, two messages, 21 bytes -/
def exTwo : Bytes :=
  [97, 97, 10, 49, 97, 10, 120, 10, 49, 98, 10, 99, 99, 99, 99, 99, 99, 99, 99, 99, 10]

example : linesInBlockZero 32 exTwo = 5 ∧ acceptedInBlockZero P1 32 exTwo = 2 := by decide
example : linesInBlockZero 9 exTwo = 4 ∧ acceptedInBlockZero P1 9 exTwo = 1 := by decide
/-- upper regime of `smallTh` (block zero of 21 ≥ 16 bytes: 3 lines, 2 messages demanded) -/
example : gateWith smallTh P1 32 exTwo = .ok :=
  gateWith_ok_of_counts smallTh P1 32 exTwo (by decide) (by decide) (by decide) (by decide)
    (by decide) (by decide)
example : gate P1 9 exTwo = .ok :=
  gate_ok_of_counts P1 9 exTwo (by decide) (by decide) (by decide) (by decide) (by decide)
example : gate P1 9 exTwo = gate P1 32 exTwo :=
  gate_bs_independent_counts P1 9 32 exTwo (by decide) (by decide) (by decide) (by decide)
    (by decide) (by decide) (by decide) (by decide) (by decide) (by decide)

/-! ### 2c. exact characterisation for parsers that reject the one-byte cut

For a parser that accepts no input of at most one byte (`RejectsShort`; every
real datetime parser: `DATETIME_STR_MIN = 8`) the partial line of F1 is never a
message, and the gate is exactly `gateSpec`: a cascade of five tests on the two
counts `lc bs d 0` / `acc P bs d 0`, with no block walk and no fuel. The whole
dependence of the verdict on `bs` is the dependence of these counts and of the
thresholds on `bs` (F1 = a line leaving block zero is not counted by `acc`,
F2 = `lineMin`/`syslineMin` of `min bs |d|`). -/

theorem P1_rejectsShort : RejectsShort P1 := by
  intro l hl
  match l, hl with
  | [], _ => rfl
  | [b], _ => unfold P1; split <;> simp_all
  | _ :: _ :: _, h => simp at h

theorem gateWith_eq_gateSpec (th : Thresholds) (P : Bytes → Option Int) (bs : Nat) (d : Bytes)
    (hbs : 1 ≤ bs) (hP : RejectsShort P) (hs1 : 1 ≤ th.syslineMin (min bs d.length)) :
    gateWith th P bs d = gateSpec th P bs d :=
  gateWith_eq_spec th P bs d hbs hP hs1

/-- the gate of the source is `gateSpec` -/
theorem gate_eq_gateSpec (P : Bytes → Option Int) (bs : Nat) (d : Bytes) (hbs : 1 ≤ bs)
    (hP : RejectsShort P) : gate P bs d = gateSpec generated P bs d := by
  refine gateWith_eq_spec generated P bs d hbs hP ?_
  simp only [generated, syslineCountMin]
  split <;> omega

/-- the `gateSpec` cascade, spelt out for the generated thresholds -/
theorem gateSpec_generated (P : Bytes → Option Int) (bs : Nat) (d : Bytes) :
    gateSpec generated P bs d =
      if d.length = 0 then .empty
      else if min bs d.length < min BLOCKZERO_ANALYSIS_BYTES_MIN bs then .tooSmall
      else if (d.take (min BLOCKZERO_ANALYSIS_BYTES_NULL_MAX bs)).all (· == 0) then .nullBytes
      else if linesInBlockZero bs d < lineCountMin (min bs d.length) then .noLines
      else if acceptedInBlockZero P bs d < syslineCountMin (min bs d.length) then .noSyslines
      else .ok := rfl

/-- no message lying inside block zero: never accepted (strong form of
`gate_reject_no_timestamp`: `P` may accept other inputs) -/
theorem gate_reject_no_message (P : Bytes → Option Int) (bs : Nat) (d : Bytes) (hbs : 1 ≤ bs)
    (hP : RejectsShort P) (h0 : acceptedInBlockZero P bs d = 0) : gate P bs d ≠ .ok := by
  rw [gate_eq_gateSpec P bs d hbs hP, gateSpec_generated, h0]
  have : 0 < syslineCountMin (min bs d.length) := by
    simp only [syslineCountMin]; split <;> omega
  rw [if_pos this]
  repeat' split
  all_goals simp

/-- block sizes that hold the whole file (of at least `BYTES_MIN` bytes) all agree -/
theorem gate_bs_independent_whole_file (P : Bytes → Option Int) (bs₁ bs₂ : Nat) (d : Bytes)
    (hP : RejectsShort P) (hlen : BLOCKZERO_ANALYSIS_BYTES_MIN ≤ d.length)
    (h₁ : d.length ≤ bs₁) (h₂ : d.length ≤ bs₂) : gate P bs₁ d = gate P bs₂ d := by
  have : 1 ≤ d.length := by simp only [BLOCKZERO_ANALYSIS_BYTES_MIN] at hlen; omega
  rw [gate_eq_gateSpec P bs₁ d (by omega) hP, gate_eq_gateSpec P bs₂ d (by omega) hP,
    gateSpec_whole generated P bs₁ d hlen h₁, gateSpec_whole generated P bs₂ d hlen h₂]

example : gate P1 8 exF1 = gateSpec generated P1 8 exF1 :=
  gate_eq_gateSpec P1 8 exF1 (by decide) P1_rejectsShort
example : gateSpec generated P1 8 exF1 = .noSyslines ∧ gateSpec generated P1 64 exF1 = .ok := by
  decide
example : acceptedInBlockZero P1 8 exF1 = 0 ∧ acceptedInBlockZero P1 64 exF1 = 2 := by decide
example : gate P1 8 exF1 ≠ .ok :=
  gate_reject_no_message P1 8 exF1 (by decide) P1_rejectsShort (by decide)
example : gate P1 14 exF1 = gate P1 65536 exF1 :=
  gate_bs_independent_whole_file P1 14 65536 exF1 P1_rejectsShort (by decide) (by decide)
    (by decide)
example : gateWith smallTh P1 32 exF2' = gateSpec smallTh P1 32 exF2' :=
  gateWith_eq_gateSpec smallTh P1 32 exF2' (by decide) P1_rejectsShort (by decide)
/-- `RejectsShort` cannot be dropped: a parser that accepts the one-byte cut
sees a message where `gateSpec` counts none -/
example : gate (fun l => if l = [49] then some 0 else none) 8 exF1 = .ok ∧
    gateSpec generated (fun l => if l = [49] then some 0 else none) 8 exF1 = .noSyslines := by
  decide

/-! ### 3. a file without timestamps is never accepted -/

/-- whatever the block size (and the thresholds), a file in which the parser
recognises nothing is not accepted -/
theorem gateWith_reject_no_timestamp (th : Thresholds) (P : Bytes → Option Int) (bs : Nat)
    (d : Bytes) (hP : ∀ l, P l = none) : gateWith th P bs d ≠ .ok :=
  gateWith_none th P bs d hP

theorem gate_reject_no_timestamp (P : Bytes → Option Int) (bs : Nat) (d : Bytes)
    (hP : ∀ l, P l = none) : gate P bs d ≠ .ok :=
  gateWith_none generated P bs d hP

example : gate (fun _ => none) 64 exF1 ≠ .ok := gate_reject_no_timestamp _ 64 exF1 (fun _ => rfl)
example : gate (fun _ => none) 64 exF1 = .noSyslines := by decide

/-! ### 4. the fuel of the loops suffices -/

/-- more fuel does not change what the line loop counts -/
theorem gateLinesLoop_fuel_enough (bs : Nat) (d : Bytes) (m k : Nat) (hbs : 1 ≤ bs) :
    gateLinesLoop bs d m (d.length + 1 + k) 0 0 = gateLinesLoop bs d m (d.length + 1) 0 0 :=
  gateLinesLoop_fuel bs d m hbs k (d.length + 1) 0 0 (by omega)

/-- more fuel does not change what the sysline loop counts -/
theorem gateSyslinesLoop_fuel_enough (P : Bytes → Option Int) (bs : Nat) (d : Bytes) (m k : Nat)
    (hbs : 1 ≤ bs) :
    gateSyslinesLoop P bs d m (d.length + 1 + k) 0 0
      = gateSyslinesLoop P bs d m (d.length + 1) 0 0 :=
  gateSyslinesLoop_fuel P bs d m hbs k (d.length + 1) 0 0 (by omega)

/-- more fuel does not change the result of one sysline search, from any offset -/
theorem findSyslineInBlock_fuel_enough (P : Bytes → Option Int) (bs : Nat) (d : Bytes)
    (k fo : Nat) (hbs : 1 ≤ bs) :
    findSyslineInBlock P bs d (d.length + 1 + k) fo = findSyslineInBlock P bs d (d.length + 1) fo :=
  findSyslineInBlock_fuel P bs d hbs k (d.length + 1) fo (by omega)

/-- part B of the sysline search never stops for lack of fuel -/
theorem sibPartB_never_out_of_fuel (P : Bytes → Option Int) (bs : Nat) (d : Bytes)
    (fin0 fo1 fin : Nat) (hbs : 1 ≤ bs) :
    sibPartB P bs d fin0 (d.length + 1) fo1 fin ≠ .done :=
  sibPartB_ne_done P bs d fin0 hbs (d.length + 1) fo1 fin (by omega) (by omega)

/-- the gate in which EVERY loop (line loop, sysline loop, sysline search,
part B) gets `k` more units of fuel returns the same verdict: no loop of the
model is ever cut short by its fuel -/
theorem gate_fuel_enough (k : Nat) (P : Bytes → Option Int) (bs : Nat) (d : Bytes)
    (hbs : 1 ≤ bs) : gateWithF k generated P bs d = gate P bs d :=
  gateWithF_eq k generated P bs d hbs

example : gateLinesLoop 4 exHead 3 (exHead.length + 1 + 5) 0 0
    = gateLinesLoop 4 exHead 3 (exHead.length + 1) 0 0 :=
  gateLinesLoop_fuel_enough 4 exHead 3 5 (by decide)
example : gateSyslinesLoop P1 8 exHead 2 (exHead.length + 1 + 5) 0 0
    = gateSyslinesLoop P1 8 exHead 2 (exHead.length + 1) 0 0 :=
  gateSyslinesLoop_fuel_enough P1 8 exHead 2 5 (by decide)
example : findSyslineInBlock P1 16 exHead (exHead.length + 1 + 5) 0 = .found 10 := by
  rw [findSyslineInBlock_fuel_enough P1 16 exHead 5 0 (by decide)]; decide
example : sibPartB P1 8 exHead 5 (exHead.length + 1) 6 5 = .donePartial := by decide
example : gateWithF 7 generated P1 8 exHead = .ok := by
  rw [gate_fuel_enough 7 P1 8 exHead (by decide)]; decide

/-! ### verdicts of the model on small inputs -/

example : gate P1 4 [] = .empty := by decide
example : gate P1 64 [49, 97, 10] = .tooSmall := by decide
example : gate P1 3 [49, 97, 10] = .ok ∧ gate P1 2 [49, 97, 10] = .noSyslines := by decide
example : gate P1 64 [0, 0, 0, 0, 0, 0, 0, 0] = .nullBytes := by decide
example : gate P1 64 [97, 97, 97, 97, 97, 97, 97, 10] = .noSyslines := by decide
example : gateWith smallTh P1 32 exF2 = .noLines := gate_threshold_dependence.1.2

end S4V.Props.GateSpec
