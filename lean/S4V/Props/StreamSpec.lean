/-
C05 — block assembly is transparent: whatever the container, `read_block` hands the
layers above the same blocks the plain file gives.

Model: `S4V.Model.Stream` (mirrors `BlockReader::new`, `read_block`, `read_block_File*`,
`drop_block`, and the copy loop of `decompress_to_ntf`). A decoder is the decompressed bytes
plus an ARBITRARY script of chunk sizes; the theorems quantify over every script.

What is proved (all `bs ≥ 1`, all `d` including `[]`, one byte, exact multiples of `bs`):
* `assemble_eq_gz`, `assemble_eq_bz2`, `assemble_eq_lz4` — every chunking: reading blocks
  `0, 1, …, k` in order answers `blockAt d bs j` at step `j` (and `Done` past the last block);
  the lz4 proof unfolds the generated `LZ4_FILL_LOOP` (the fill loop of `read_block_FileLz4`);
* `assemble_eq_lz4_single_read_false` — the defect repaired in the source ("`.lz4` logs were
  corrupted when a read stopped short at a frame block boundary"), kept as a counter-model: with
  ONE `read` per block (`Kind.lz4Single`, the reader before the repair) the statement is false — a
  short read leaves zero padding and shifts everything after it; that reader is right only for
  decoders that fill the buffer on every read (`assemble_eq_lz4_single_read_fills`);
* `C05_blocks_equal` — a streamed reader asked in non-decreasing order answers exactly what
  the plain reader answers;
* `C05_lookback` — as coded the look-back keeps ONLY the highest block decoded (L = 0): under
  non-decreasing requests no dropped block is asked for, all earlier blocks are gone;
  `C05_lookback_one_full_false` — "one block behind is still there" is false: the request is
  answered `Done`;
* `plain_any_order`, `extract_eq` (the temporary file of `decompress_to_ntf` holds exactly `d`),
  `prepass_size` (bz2/lz4 size pre-pass finds `|d|` for every chunking).
-/
import S4V.Lemmas.Stream

namespace S4V.Props.StreamSpec
open S4V.Gen.Blocks S4V.Gen.Stream S4V.Model.Lines S4V.Model.Stream S4V.Lemmas.Stream

/-- the answer of a correct reader for block `k`: `Done` past the end or for an empty file,
otherwise the `k`-th `bs`-sized slice of `d` -/
theorem specRes_eq (d : Bytes) (bs k : Nat) :
    specRes d bs k = if k > blockOffsetLast d.length bs ∨ d = [] then S4V.Model.Stream.Res.done else S4V.Model.Stream.Res.found (blockAt d bs k) := by
  unfold specRes
  by_cases h : k > blockOffsetLast d.length bs
  · simp [h]
  · cases d with
    | nil => simp
    | cons _ _ => simp

theorem range_pairwise (n : Nat) : (List.range n).Pairwise (· ≤ ·) :=
  List.Pairwise.imp (fun h => Nat.le_of_lt h) List.pairwise_lt_range

/-- **assemble_eq** (generic form): for a kind whose block decode is right (`DecOk`), reading
`0, 1, …, k` in order gives the blocks of `d` -/
theorem assemble_eq (kind : Kind) (bs : Nat) (d : Bytes) (cs csPre : List Nat) (k : Nat) (hbs : 1 ≤ bs)
    (hk : DecOk kind bs cs) :
    (readSeq (Rd.new kind bs d cs csPre) (List.range (k + 1))).1 = (List.range (k + 1)).map (specRes d bs) := by
  obtain ⟨h, e⟩ := SInv.new kind bs d cs csPre hbs hk
  have := readSeq_stream d (List.range (k + 1)) _ 0 h (fun x _ => by omega) (range_pairwise _)
  rw [e] at this
  exact this

/-- gz: every chunking of the inflater, every block size, every content -/
theorem assemble_eq_gz (bs : Nat) (d : Bytes) (cs : List Nat) (k : Nat) (hbs : 1 ≤ bs) :
    (readSeq (Rd.new .gz bs d cs []) (List.range (k + 1))).1 = (List.range (k + 1)).map (specRes d bs) :=
  assemble_eq .gz bs d cs [] k hbs (Or.inl rfl)

/-- bz2: every chunking of the decoder and of the size pre-pass -/
theorem assemble_eq_bz2 (bs : Nat) (d : Bytes) (cs csPre : List Nat) (k : Nat) (hbs : 1 ≤ bs) :
    (readSeq (Rd.new .bz2 bs d cs csPre) (List.range (k + 1))).1 = (List.range (k + 1)).map (specRes d bs) :=
  assemble_eq .bz2 bs d cs csPre k hbs (Or.inr (Or.inl rfl))

/-- lz4: every chunking of the frame decoder (it returns short at every frame-block boundary) and
of the size pre-pass. Rests on `decodeBlock_spec`, whose lz4 case unfolds the generated
`LZ4_FILL_LOOP`: `read_block_FileLz4` reads into the unfilled rest of the block until it is full. -/
theorem assemble_eq_lz4 (bs : Nat) (d : Bytes) (cs csPre : List Nat) (k : Nat) (hbs : 1 ≤ bs) :
    (readSeq (Rd.new .lz4 bs d cs csPre) (List.range (k + 1))).1 = (List.range (k + 1)).map (specRes d bs) :=
  assemble_eq .lz4 bs d cs csPre k hbs (Or.inr (Or.inr (Or.inl rfl)))

/-- the flag the lz4 theorems stand on, as generated from the source -/
theorem lz4_fill_loop_generated : LZ4_FILL_LOOP = true := by decide

/-- the short read that used to corrupt the output: the second read returns 2 of the 3 bytes asked
for; the loop asks again for the rest -/
example : (readSeq (Rd.new .lz4 3 [1, 2, 3, 4, 5, 6, 7, 8, 9, 10] [3, 2, 3, 3] []) [0, 1, 2, 3]).1
    = [.found [1, 2, 3], .found [4, 5, 6], .found [7, 8, 9], .found [10]] := by decide
example : (readSeq (Rd.new .lz4 4 [1, 2, 3, 4, 5, 6, 7, 8, 9] [1, 1, 1, 9, 0, 2] [5]) [0, 1, 2, 3]).1
    = [.found [1, 2, 3, 4], .found [5, 6, 7, 8], .found [9], .done] := by decide
/-- `Ok(0) => break`: a stream that ends before the block is full leaves the zero padding (only
reachable when the stored decoder delivers less than the size pre-pass counted) -/
example : (fillBreak 4 ⟨[1, 2], [1]⟩ 4 []).1 = [1, 2, 0, 0] := by decide

/-- the lz4 reader BEFORE the repair (one `read` per block): "every chunking" -/
def assemble_eq_lz4_single_read : Prop :=
  ∀ (bs : Nat) (d : Bytes) (cs csPre : List Nat) (k : Nat), 1 ≤ bs →
    (readSeq (Rd.new .lz4Single bs d cs csPre) (List.range (k + 1))).1 = (List.range (k + 1)).map (specRes d bs)

/-- the repaired defect as a counter-model — witness: 10 bytes, `bs = 3`, a decoder whose second
read returns 2 of the 3 bytes asked for (lz4_flex does that at every frame-block boundary):
block 1 is `[4, 5, 0]`, every later block is shifted by one byte and the last byte of the file is
never delivered -/
theorem assemble_eq_lz4_single_read_false : ¬ assemble_eq_lz4_single_read := by
  intro h
  have := h 3 [1, 2, 3, 4, 5, 6, 7, 8, 9, 10] [3, 2, 3, 3] [] 3 (by decide)
  revert this
  decide

example : (readSeq (Rd.new .lz4Single 3 [1, 2, 3, 4, 5, 6, 7, 8, 9, 10] [3, 2, 3, 3] []) [0, 1, 2, 3]).1
    = [.found [1, 2, 3], .found [4, 5, 0], .found [6, 7, 8], .found [9]] := by decide

/-- the single read was right only for decoders that fill the buffer on every read -/
theorem assemble_eq_lz4_single_read_fills (bs : Nat) (d : Bytes) (cs csPre : List Nat) (k : Nat) (hbs : 1 ≤ bs)
    (hfill : Fills bs cs) :
    (readSeq (Rd.new .lz4Single bs d cs csPre) (List.range (k + 1))).1 = (List.range (k + 1)).map (specRes d bs) :=
  assemble_eq .lz4Single bs d cs csPre k hbs (Or.inr (Or.inr (Or.inr ⟨rfl, hfill⟩)))

/-- the hypotheses are satisfiable: the empty script (always full reads) fills -/
example : Fills 3 [] := by intro c hc; cases hc
example : Fills 3 [3, 7, 3] := by intro c hc; simp at hc; omega

/-- **C05_blocks_equal**: asked for blocks in non-decreasing order, a streamed reader (gz, bz2,
lz4 — every chunking) returns what the plain reader returns -/
theorem C05_blocks_equal (kind : Kind) (bs : Nat) (d : Bytes) (cs csPre : List Nat) (ks : List Nat)
    (hbs : 1 ≤ bs) (hk : DecOk kind bs cs) (hord : ks.Pairwise (· ≤ ·)) :
    (readSeq (Rd.new kind bs d cs csPre) ks).1 = (readSeq (Rd.new .plain bs d [] []) ks).1 := by
  obtain ⟨h, e⟩ := SInv.new kind bs d cs csPre hbs hk
  have h1 := readSeq_stream d ks _ 0 h (fun x _ => by omega) hord
  have h2 := readSeq_plain d ks _ (PInv.new bs d [] [] hbs)
  rw [e] at h1
  rw [h1, h2]
  rfl

/-- lz4 in particular: every chunking of the frame decoder, every non-decreasing request order -/
theorem C05_blocks_equal_lz4 (bs : Nat) (d : Bytes) (cs csPre : List Nat) (ks : List Nat)
    (hbs : 1 ≤ bs) (hord : ks.Pairwise (· ≤ ·)) :
    (readSeq (Rd.new .lz4 bs d cs csPre) ks).1 = (readSeq (Rd.new .plain bs d [] []) ks).1 :=
  C05_blocks_equal .lz4 bs d cs csPre ks hbs (Or.inr (Or.inr (Or.inl rfl))) hord

/-- the plain reader answers every request sequence, in any order -/
theorem plain_any_order (bs : Nat) (d : Bytes) (ks : List Nat) (hbs : 1 ≤ bs) :
    (readSeq (Rd.new .plain bs d [] []) ks).1 = ks.map (specRes d bs) :=
  readSeq_plain d ks _ (PInv.new bs d [] [] hbs)

/-- non-vacuity with concrete chunkings: one byte at a time; sizes larger than asked; zeros (clamped to 1) -/
example : (readSeq (Rd.new .gz 4 [1, 2, 3, 4, 5, 6, 7, 8, 9] [1, 1, 1, 9, 0, 2] []) [0, 1, 2, 3]).1
    = [.found [1, 2, 3, 4], .found [5, 6, 7, 8], .found [9], .done] := by decide
example : (readSeq (Rd.new .bz2 4 [1, 2, 3, 4, 5, 6, 7, 8] [3, 3] [1, 5]) [0, 1, 2]).1
    = [.found [1, 2, 3, 4], .found [5, 6, 7, 8], .done] := by decide
example : (readSeq (Rd.new .gz 4 [] [] []) [0, 1]).1 = [.done, .done] := by decide
example : (readSeq (Rd.new .bz2 1 [7] [] []) [0, 1]).1 = [.found [7], .done] := by decide
example : [0, 0, 2, 5].Pairwise (· ≤ ·) := by decide

/-- **C05_lookback** — the look-back as coded has depth 0. After any non-decreasing request
sequence on a streamed reader: every answer is the right one (so no dropped block was asked
for), and in the final state the only block still held is the highest one decoded. -/
theorem C05_lookback (kind : Kind) (bs : Nat) (d : Bytes) (cs csPre : List Nat) (ks : List Nat) (k : Nat)
    (hbs : 1 ≤ bs) (hk : DecOk kind bs cs) (hord : (ks ++ [k]).Pairwise (· ≤ ·))
    (hd : d ≠ []) (hlast : k ≤ blockOffsetLast d.length bs) :
    (readSeq (Rd.new kind bs d cs csPre) (ks ++ [k])).1 = (ks ++ [k]).map (specRes d bs)
    ∧ mget (readSeq (Rd.new kind bs d cs csPre) (ks ++ [k])).2.blocks k = some (blockAt d bs k)
    ∧ ∀ j, j < k → mget (readSeq (Rd.new kind bs d cs csPre) (ks ++ [k])).2.blocks j = none := by
  obtain ⟨h, e⟩ := SInv.new kind bs d cs csPre hbs hk
  have h1 := readSeq_stream d (ks ++ [k]) _ 0 h (fun x _ => by omega) hord
  rw [e] at h1
  refine ⟨h1, ?_⟩
  have := lookback_state d ks k _ h hord hd (by rw [e]; exact hlast)
  rw [e] at this
  exact this

/-- "a block one behind the highest read is still available" (look-back depth 1) -/
def C05_lookback_one_full : Prop :=
  ∀ (bs : Nat) (d : Bytes) (k : Nat), 1 ≤ bs → k + 1 ≤ blockOffsetLast d.length bs →
    (readSeq (Rd.new .gz bs d [] []) [k, k + 1, k]).1 = [k, k + 1, k].map (specRes d bs)

/-- false as coded: `bo_at_old < bo_at ⇒ drop_block(bo_at_old)` drops the predecessor as soon as
its successor is decoded, and a request for it falls through to a loop that starts above it:
the answer is `Done` (release build; `debug_panic!` in a debug build) -/
theorem C05_lookback_one_full_false : ¬ C05_lookback_one_full := by
  intro h
  have := h 1 [1, 2] 0 (by decide) (by decide)
  revert this
  decide

example : (readSeq (Rd.new .gz 1 [1, 2] [] []) [0, 1, 0]).1 = [.found [1], .found [2], .done] := by decide

/-- the temporary file written by `decompress_to_ntf` (journal / evtx inside gz, bz2, lz4, tar)
holds exactly the decompressed bytes, for every chunking -/
theorem extract_eq (d : Bytes) (cs : List Nat) : decompressToNtf d cs = d := by
  unfold decompressToNtf decompressToNtfG
  rw [show copyLoopG NTF_COPY_STOPS_ONLY_AT_EOF = copyLoop from rfl, copyLoop_spec NTF_BUF_SZ (by decide) _ _ _ (by simp)]
  simp

/-- counter-model (seeded change C05-d): a copy loop that ALSO stops after a read shorter than its buffer
truncates the temporary file as soon as the decoder returns a short chunk before the end of the data
(lz4_flex's `FrameDecoder::read` never crosses a frame block boundary) -/
theorem short_read_stop_truncates :
    decompressToNtfG false [1, 2, 3, 4, 5] [2, 3] = [1, 2] ∧ decompressToNtfG true [1, 2, 3, 4, 5] [2, 3] = [1, 2, 3, 4, 5] := by
  decide

example : decompressToNtf [1, 2, 3, 4, 5] [2, 0, 9] = [1, 2, 3, 4, 5] := by decide

/-- the bz2 / lz4 size pre-pass of `new` finds the decompressed size for every chunking -/
theorem prepass_size (d : Bytes) (csPre : List Nat) :
    countLoop PREPASS_BUF_SZ (d.length + 1) ⟨d, csPre⟩ 0 = d.length := by
  rw [countLoop_spec PREPASS_BUF_SZ (by decide) _ _ _ (by simp)]
  simp

/-! ### xz and tar: whole-buffer split -/

/-- xz: `new` decompresses everything and splits it; every request sequence, in any order, gets
the blocks of `d` (nothing is decoded later, nothing is dropped by the reader itself) -/
theorem assemble_eq_xz (bs : Nat) (d : Bytes) (cs csPre : List Nat) (ks : List Nat) (hbs : 1 ≤ bs) :
    (readSeq (Rd.new .xz bs d cs csPre) ks).1 = ks.map (specRes d bs) := by
  by_cases hd : d = []
  · subst hd
    rw [readSeq_xz_nil]
    apply List.map_congr_left
    intro k _
    rw [specRes_nil]
  · have h := XInv.new bs d cs csPre hbs hd
    have := readSeq_xz d ks _ h
    rw [(xz_new bs d cs csPre hbs hd).2.2.2.2.1] at this
    exact this

/-- **C05_xz_extra_block**: when `bs ∣ |d|` the split loop of `new` (`while blockoffset <= len / blocksz`)
stores one extra, EMPTY block at key `|d| / bs` and records it in `blocks_read`. It is never
handed out: that key is above `blockoffset_last`, where `read_block` answers `Done` before looking
at any storage; `filesz_actual` is still `|d|`. (It does count in `blocks_highest`.) -/
theorem C05_xz_extra_block (bs : Nat) (d : Bytes) (cs csPre : List Nat) (hbs : 1 ≤ bs) (hd : d ≠ [])
    (hdiv : d.length % bs = 0) :
    mget (Rd.new .xz bs d cs csPre).blocks (d.length / bs) = some []
    ∧ d.length / bs ∈ (Rd.new .xz bs d cs csPre).blocksRead
    ∧ (Rd.new .xz bs d cs csPre).fsz = d.length
    ∧ d.length / bs = blockOffsetLast d.length bs + 1
    ∧ ∀ ks : List Nat, (readSeq (Rd.new .xz bs d cs csPre) (ks ++ [d.length / bs])).1
        = ks.map (specRes d bs) ++ [.done] := by
  obtain ⟨e1, e2, e3, _, _, _⟩ := xz_new bs d cs csPre hbs hd
  have hlen : 0 < d.length := List.length_pos_iff.mpr hd
  have hb := Lemmas.Blocks.blockOffsetLast_bounds d.length bs hbs hlen
  have hdm := Nat.div_add_mod' d.length bs
  have hq : d.length / bs = blockOffsetLast d.length bs + 1 := by
    have h1 : d.length / bs * bs = d.length := by omega
    have h2 : blockOffsetLast d.length bs < d.length / bs := by
      apply Nat.lt_of_mul_lt_mul_right (a := bs); omega
    have h3 : d.length / bs ≤ blockOffsetLast d.length bs + 1 := by
      apply Nat.le_of_mul_le_mul_right (c := bs) _ (by omega); omega
    omega
  refine ⟨?_, ?_, e3, hq, ?_⟩
  · rw [e1, mget_xzList d bs _ _ (by omega)]
    congr 1
    rw [← List.length_eq_zero_iff, Lemmas.Blocks.blockAt_length]
    omega
  · rw [e2]; exact (xzKeys_mem _ _).mpr (by omega)
  · intro ks
    rw [assemble_eq_xz bs d cs csPre _ hbs, List.map_append]
    congr 1
    simp only [List.map_cons, List.map_nil]
    unfold specRes
    rw [if_pos (by omega)]

/-- the quirk exists: 4 bytes, `bs = 2` — three stored blocks, the third empty; a request for it is `Done` -/
example : (Rd.new .xz 2 [1, 2, 3, 4] [] []).blocks = [(2, []), (1, [3, 4]), (0, [1, 2])] := by decide
example : (readSeq (Rd.new .xz 2 [1, 2, 3, 4] [] []) [0, 1, 2]).1 = [.found [1, 2], .found [3, 4], .done] := by decide
example : (Rd.new .xz 2 [1, 2, 3, 4, 5] [] []).blocks = [(2, [5]), (1, [3, 4]), (0, [1, 2])] := by decide

/-- tar: the first miss reads the whole member (`read_exact` per block); every request sequence,
in any order, gets the blocks of `d` -/
theorem assemble_eq_tar (bs : Nat) (d : Bytes) (cs csPre : List Nat) (ks : List Nat) (hbs : 1 ≤ bs) :
    (readSeq (Rd.new .tar bs d cs csPre) ks).1 = ks.map (specRes d bs) :=
  readSeq_tar d ks _ (TInv.new bs d cs csPre hbs)

example : (readSeq (Rd.new .tar 2 [1, 2, 3] [] []) [1, 0, 2]).1 = [.found [3], .found [1, 2], .done] := by decide

/-- every container kind learns the right size in `new` -/
theorem new_fsz (kind : Kind) (bs : Nat) (d : Bytes) (cs csPre : List Nat) (hbs : 1 ≤ bs) :
    (Rd.new kind bs d cs csPre).fsz = d.length := by
  cases kind with
  | plain => rfl
  | gz => rfl
  | tar => rfl
  | bz2 => exact prepass_size d csPre
  | lz4 => exact prepass_size d csPre
  | lz4Single => exact prepass_size d csPre
  | xz =>
    by_cases hd : d = []
    · subst hd; rfl
    · exact (xz_new bs d cs csPre hbs hd).2.2.1

/-! ### which .gz files `BlockReader::new` refuses by size -/

/-- the size test of the gz arm of `BlockReader::new` as a parameterised predicate: `onDiskOnly = true` refuses a file
whose size ON DISK exceeds `GZ_MAX_SZ`; `false` (the other shape) refuses by the uncompressed size of the trailer -/
def gzRefused (onDiskOnly : Bool) (diskSz uncompressedSz : Nat) : Bool :=
  if onDiskOnly then decide (GZ_MAX_SZ < diskSz) else decide (GZ_MAX_SZ < uncompressedSz)

/-- **C05_gz_accepts_by_disk_size.** Unfolds the regenerated `GZ_LIMIT_ON_DISK_SIZE_ONLY`: a .gz at most `GZ_MAX_SZ`
bytes on disk is never refused for its size, however much it inflates to (the streamed reader then assembles the
plain file's blocks: `assemble_eq`). -/
theorem C05_gz_accepts_by_disk_size (diskSz uncompressedSz : Nat) (h : diskSz ≤ GZ_MAX_SZ) :
    gzRefused GZ_LIMIT_ON_DISK_SIZE_ONLY diskSz uncompressedSz = false := by
  have hg : GZ_LIMIT_ON_DISK_SIZE_ONLY = true := by decide
  simp [gzRefused, hg]; omega

/-- counter-model (seeded change C05-e): with the limit on the uncompressed size a 7.7 MB .gz that inflates to
537 000 960 bytes is refused, although the same bytes print as a plain file -/
theorem limit_on_uncompressed_size_refuses : gzRefused false 7700000 537000960 = true := by decide

end S4V.Props.StreamSpec
