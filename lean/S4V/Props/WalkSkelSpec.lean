/-
C15 (and C01 tie order) over the REGENERATED form of `process_path` / the stdin splice.

`S4V.Gen.WalkSkel.skel` / `.splice` are translated from the source text by gen/gen_walkskel.py; the
interpreter `S4V.Model.WalkSkel` reads every decision from them. Here:

* `C15_process_path_skeleton_is_model`: interpreter(skeleton) = the hand model (`Model.WalkTar.expandArgFull`)
  for a named file, and for a directory whose jwalk stream lists the files of `walk` (kinds file / dir);
  `C15_stream_of_tree` discharges that hypothesis for the pre-order, name-sorted stream of a finite tree;
* `C15_splice_skeleton_is_model`: interpreter(splice) = `spliceStdin`;
* hence the `WalkSpec` theorems hold of the regenerated form (`C15_skel_*`);
* counter-models: the skeleton re-translated from EDITED source text (`S4V.Gen.WalkSkelMutants`) — every one
  makes the interpreter differ from the hand model on a concrete input.
-/
import S4V.Props.WalkSpec
import S4V.Model.WalkSkel
import S4V.Gen.WalkSkelMutants

namespace S4V.Props.WalkSkelSpec
open S4V.Model.Walk S4V.Model.Path S4V.Model.PathTypes S4V.Gen.PathTables
open S4V.Model.WalkTar S4V.Gen.WalkTar S4V.Gen.WalkSkel S4V.Model.WalkSkel
open S4V.Lemmas.Walk

/-! ### the loop -/

theorem collect_append (s : Sink) (a b : List (Sink × SRes)) :
    collect s (a ++ b) = collect s a ++ collect s b := by
  simp [collect, List.filterMap_append]

theorem collect_tag_same (s : Sink) (rs : List SRes) : collect s (tag s rs) = rs := by
  induction rs with
  | nil => rfl
  | cons r rs ih => simpa [collect, tag] using ih

theorem classifyWith_false (p : List Bytes) : classifyWith false p = classifyWalked p := rfl

/-- one turn of the regenerated loop body: a directory pushes nothing; a regular file pushes, to the returned
vector, exactly what the hand model's `expandWalked` lists for it (a `.tar`: its members, in place) -/
theorem body_real (u : Bool) (fs : TarFs) (par : List Bytes) (w : WEntry)
    (hk : w.kind = .file ∨ w.kind = .dir) :
    collect .paths (bodyEmit u fs par w skel.steps none)
      = if w.kind = .file then
          (expandWalked u fs ⟨par ++ w.path, (classifyWalked w.path).out⟩).map .res
        else [] := by
  rcases hk with h | h
  · simp only [skel, bodyEmit, h, classifyWith_false]
    generalize (classifyWalked w.path).out = o
    cases o <;>
      simp [expandWalked, collect_tag_same, walkedTar, walkTarPassesFlag, walkTarFlagLit, Function.comp_def]
  · simp [skel, bodyEmit, h, collect]

theorem filesOf_cons (w : WEntry) (ws : List WEntry) :
    filesOf (w :: ws) = (if w.kind = .file then [w.path] else []) ++ filesOf ws := by
  by_cases h : w.kind = .file <;> simp [filesOf, h]

/-- The regenerated walk loop + epilogue = the hand model's loop over the files of the stream, in stream order. -/
theorem C15_loop_skeleton_is_model (u : Bool) (fs : TarFs) (par : List Bytes) (ws : List WEntry)
    (hk : ∀ w ∈ ws, w.kind = .file ∨ w.kind = .dir) :
    runLoop skel u fs par ws
      = ((filesOf ws).flatMap fun p => expandWalked u fs ⟨par ++ p, (classifyWalked p).out⟩).map .res := by
  have hafter : skel.after.contains After.appendDeferred = false := by decide
  simp only [runLoop, hafter, emits]
  induction ws with
  | nil => simp [collect, filesOf]
  | cons w ws ih =>
    have hw := hk w (by simp)
    have ih' := ih (fun x hx => hk x (by simp [hx]))
    simp only [Bool.false_eq_true, if_false, List.append_nil] at ih' ⊢
    rw [List.flatMap_cons, collect_append, body_real u fs par w hw, ih', filesOf_cons]
    by_cases h : w.kind = .file <;> simp [h]

/-- the regenerated `std_path.is_file()` branch = the hand model's named branch -/
theorem C15_named_skeleton_is_model (u : Bool) (fs : TarFs) (p : List Bytes) (c : Bytes) :
    namedSkel skel u fs p c = (expandNamed u fs (classifyNamed p c)).map .res := by
  simp only [namedSkel, skel, classifyNamed, expandNamed]
  cases hc : classify c true with
  | none => simp
  | some r =>
    obtain ⟨k, a⟩ := r
    cases k <;>
      simp [namedTar, namedTarPassesFlag, namedTarFlagLit, Function.comp_def]

theorem classifyWalked_path (p : List Bytes) : (classifyWalked p).path = p := by
  unfold classifyWalked; split
  · rfl
  · split <;> rfl

/-- what the file system is to the interpreter, given what it is to the hand model -/
def argOf (ws : List WEntry) : Arg → SArg
  | .file p c => .file p c
  | .dir par _ => .dir par ws

/-- **The regenerated `process_path` is the hand model.** For a named file unconditionally; for a directory
`t` (below `par`) provided the jwalk stream `ws` consists of regular files and directories and lists the files
that `walk` lists, in that order (`C15_stream_of_tree`: the pre-order name-sorted stream of `t` does). -/
theorem C15_process_path_skeleton_is_model (includeHidden u : Bool) (fs : TarFs) (a : Arg) (ws : List WEntry)
    (hk : ∀ w ∈ ws, w.kind = .file ∨ w.kind = .dir)
    (hf : ∀ par t, a = .dir par t → filesOf ws = walk includeHidden t) :
    processPathSkel skel u fs (argOf ws a) = (expandArgFull includeHidden u fs a).map .res := by
  cases a with
  | file p c => exact C15_named_skeleton_is_model u fs p c
  | dir par t =>
    simp only [argOf, processPathSkel, expandArgFull, expandDirAll]
    rw [C15_loop_skeleton_is_model u fs par ws hk, hf par t rfl, List.flatMap_map]
    simp only [classifyWalked_path]

/-- **The regenerated loop of `main` is the hand model** (`expandArgsFull` with the flag `main` passes): the
arguments are expanded in order, every result list appended in order. `aws` pairs each argument with its jwalk
stream (irrelevant for a named file). -/
theorem C15_main_skeleton_is_model (includeHidden : Bool) (fs : TarFs) (aws : List (Arg × List WEntry))
    (h : ∀ aw ∈ aws, (∀ w ∈ aw.2, w.kind = .file ∨ w.kind = .dir)
      ∧ ∀ par t, aw.1 = .dir par t → filesOf aw.2 = walk includeHidden t) :
    mainSkel skel mainLoop fs (aws.map fun aw => argOf aw.2 aw.1)
      = (expandArgsFull includeHidden mainUnparseableAreText fs (aws.map (·.1))).map .res := by
  have e1 : mainLoop.argsReversed = false := rfl
  have e2 : mainLoop.resultsReversed = false := rfl
  have e3 : mainLoop.flag = mainUnparseableAreText := rfl
  simp only [mainSkel, e1, e2, e3, Bool.false_eq_true, if_false, expandArgsFull]
  induction aws with
  | nil => rfl
  | cons aw rest ih =>
    have haw := h aw (by simp)
    have ih' := ih (fun x hx => h x (by simp [hx]))
    simp only [List.map_cons, List.flatMap_cons, List.map_append, ih',
      C15_process_path_skeleton_is_model includeHidden mainUnparseableAreText fs aw.1 aw.2 haw.1 haw.2]

/-- a missing / unreadable argument: one error result, nothing walked -/
theorem C15_skel_missing (u : Bool) (fs : TarFs) :
    processPathSkel skel u fs (.missing .notFound) = [.argErr .notExist]
    ∧ processPathSkel skel u fs (.missing .denied) = [.argErr .noPermissions]
    ∧ processPathSkel skel u fs (.missing .other) = [.argErr .err] := by
  refine ⟨rfl, rfl, rfl⟩

/-! ### the stream of a finite tree -/

theorem insertE_map (f : List WEntry → List (List Bytes)) (x : EBlock) : ∀ l : List EBlock,
    (insertE x l).map (fun b => (b.1, f b.2)) = insertBlock (x.1, f x.2) (l.map fun b => (b.1, f b.2))
  | [] => rfl
  | y :: ys => by
    simp only [insertE, List.map_cons, insertBlock]
    split
    · rfl
    · simp [insertE_map f x ys]

theorem sortE_map (f : List WEntry → List (List Bytes)) : ∀ l : List EBlock,
    (sortE l).map (fun b => (b.1, f b.2)) = sortBlocks (l.map fun b => (b.1, f b.2))
  | [] => rfl
  | x :: xs => by simp [sortE, sortBlocks, insertE_map, sortE_map f xs]

theorem filesOf_append (a b : List WEntry) : filesOf (a ++ b) = filesOf a ++ filesOf b := by
  simp [filesOf, List.filterMap_append]

theorem filesOf_flatMap (bs : List EBlock) :
    filesOf (bs.flatMap (·.2)) = flatten (bs.map fun b => (b.1, filesOf b.2)) := by
  induction bs with
  | nil => rfl
  | cons b bs ih => simp [List.flatMap_cons, filesOf_append, flatten, ih] at *

theorem filesOf_pre (n : Bytes) (ws : List WEntry) : filesOf (ws.map (pre n)) = (filesOf ws).map (n :: ·) := by
  induction ws with
  | nil => rfl
  | cons w ws ih =>
    simp only [List.map_cons, filesOf_cons, ih, pre]
    by_cases h : w.kind = .file <;> simp [h]

mutual
theorem entriesN_files (ih : Bool) : ∀ t : Node, filesOf (entriesN ih t) = walkN ih t
  | .file n => by simp [entriesN, walkN, filesOf]
  | .dir n cs => by
    simp only [entriesN, walkN, filesOf_cons, filesOf_pre, filesOf_flatMap, sortE_map, entriesL_files ih cs]
    simp
theorem entriesL_files (ih : Bool) : ∀ cs : List Node,
    (entriesL ih cs).map (fun b => (b.1, filesOf b.2)) = walkL ih cs
  | [] => rfl
  | c :: cs => by
    simp only [entriesL, walkL, List.map_append, entriesL_files ih cs]
    split <;> simp [entriesN_files ih c]
end

theorem pre_kind (n : Bytes) (l : List WEntry) (h : ∀ w ∈ l, w.kind = .file ∨ w.kind = .dir) :
    ∀ w ∈ l.map (pre n), w.kind = .file ∨ w.kind = .dir := by
  intro w hw
  obtain ⟨x, hx, rfl⟩ := List.mem_map.mp hw
  exact h x hx

theorem insertE_mem (x : EBlock) : ∀ (l : List EBlock) (b : EBlock), b ∈ insertE x l → b = x ∨ b ∈ l
  | [], b, h => by simp_all [insertE]
  | y :: ys, b, h => by
    simp only [insertE] at h
    split at h
    · simpa using h
    · rcases List.mem_cons.mp h with h | h
      · simp [h]
      · rcases insertE_mem x ys b h with h | h <;> simp [h]

theorem sortE_mem : ∀ (l : List EBlock) (b : EBlock), b ∈ sortE l → b ∈ l
  | [], b, h => by simp [sortE] at h
  | x :: xs, b, h => by
    rcases insertE_mem _ _ b (by simpa [sortE] using h) with h | h
    · simp [h]
    · simp [sortE_mem xs b h]

mutual
theorem entriesN_kinds (ih : Bool) : ∀ t : Node, ∀ w ∈ entriesN ih t, w.kind = .file ∨ w.kind = .dir
  | .file n => by simp [entriesN]
  | .dir n cs => by
    intro w hw
    simp only [entriesN, List.mem_cons] at hw
    rcases hw with rfl | hw
    · simp
    · refine pre_kind n _ ?_ w hw
      intro x hx
      obtain ⟨b, hb, hxb⟩ := List.mem_flatMap.mp hx
      exact entriesL_kinds ih cs b (sortE_mem _ b hb) x hxb
theorem entriesL_kinds (ih : Bool) : ∀ cs : List Node, ∀ b ∈ entriesL ih cs,
    ∀ w ∈ b.2, w.kind = .file ∨ w.kind = .dir
  | [] => by simp [entriesL]
  | c :: cs => by
    intro b hb
    simp only [entriesL, List.mem_append] at hb
    rcases hb with hb | hb
    · split at hb
      · simp only [List.mem_singleton] at hb
        subst hb
        exact entriesN_kinds ih c
      · simp at hb
    · exact entriesL_kinds ih cs b hb
end

/-- The pre-order, name-sorted stream of a finite tree (directories included) is a stream of regular files and
directories whose files are exactly `walk`, in order. -/
theorem C15_stream_of_tree (includeHidden : Bool) (t : Node) :
    (∀ w ∈ entriesN includeHidden t, w.kind = .file ∨ w.kind = .dir)
    ∧ filesOf (entriesN includeHidden t) = walk includeHidden t :=
  ⟨entriesN_kinds includeHidden t, entriesN_files includeHidden t⟩

/-- `process_path(dir)` read off the regenerated skeleton, on the tree's own stream = the hand model -/
theorem C15_process_path_skeleton_is_model_tree (includeHidden u : Bool) (fs : TarFs) (par : List Bytes) (t : Node) :
    processPathSkel skel u fs (.dir par (entriesN includeHidden t))
      = (expandArgFull includeHidden u fs (.dir par t)).map .res := by
  have h := C15_process_path_skeleton_is_model includeHidden u fs (.dir par t) (entriesN includeHidden t)
    (entriesN_kinds includeHidden t) (by intro par' t' e; cases e; exact entriesN_files includeHidden t)
  simpa [argOf] using h

/-- the walker options of the regenerated loop head: links followed, hidden entries included, sorted -/
theorem C15_skel_walk_options :
    skel.followLinks = true ∧ skel.skipHiddenFalse = true ∧ skel.sorted = true
    ∧ skel.skipHiddenFalse = walkIncludesHidden := by decide

/-! ### WalkSpec over the regenerated form -/

/-- the plain files the regenerated loop lists come in strictly increasing path order (`C15_walk_order`) -/
theorem C15_skel_walk_order (t : Node) (h : okN t = true) :
    (filesOf (entriesN skel.skipHiddenFalse t)).Pairwise (fun p q => pathLt p q = true) := by
  rw [entriesN_files]
  exact S4V.Props.WalkSpec.C15_walk_order _ t h

/-- every file of the tree is listed by the regenerated loop (`C15_full_holds`) -/
theorem C15_skel_walk_complete (t : Node) : (filesOf (entriesN skel.skipHiddenFalse t)).Perm (files t) := by
  rw [entriesN_files]
  exact S4V.Props.WalkSpec.C15_walk_complete t

/-- naming a directory = naming the sorted list of its kept files (`C15_dir_eq_explicit_tar`), stated of the
regenerated `process_path` on both sides -/
theorem C15_skel_dir_eq_explicit_tar (includeHidden u : Bool) (fs : TarFs) (parent : List Bytes) (t : Node)
    (hok : okN t = true) (hh : noHiddenN t = true)
    (l : List (List Bytes)) (hl : l.Perm (files t)) (hs : l.Pairwise (fun p q => pathLt p q = true))
    (hutf : ∀ p ∈ l, toStringLossy (joinPath (parent ++ p)) = joinPath (parent ++ p)) :
    (processPathSkel skel u fs (.dir parent (entriesN includeHidden t)))
      = ((expandArgsFull includeHidden u fs [.dir parent t])).map .res
    ∧ (expandArgsFull includeHidden u fs [.dir parent t]).filter Res.attempted
      = (((l.filter S4V.Props.WalkSpec.keptWhenWalked).map (S4V.Props.WalkSpec.fileArg parent)).flatMap
          fun a => expandArgFull includeHidden u fs a).filter Res.attempted := by
  refine ⟨?_, ?_⟩
  · simp [expandArgsFull, C15_process_path_skeleton_is_model_tree]
  · exact S4V.Props.WalkSpec.C15_dir_eq_explicit_tar includeHidden u fs parent t hok hh l hl hs hutf

/-! ### the stdin splice -/

theorem spliceSkelAux_real (stdin : List Bytes) : ∀ (seen : Bool) (args : List Bytes),
    spliceSkelAux splice stdin seen args = spliceAux stdin seen args
  | _, [] => rfl
  | seen, a :: rest => by
    have h1 := spliceSkelAux_real stdin seen rest
    have h2 := spliceSkelAux_real stdin true rest
    simp only [spliceSkelAux, spliceAux, splice, DASH]
    by_cases ha : a = [45]
    · cases seen <;> simp_all [splice]
    · simp_all [splice]

/-- **The regenerated `"-"` arm is the hand model**: stdin lines are pushed at the position of the first `-`. -/
theorem C15_splice_skeleton_is_model (stdin args : List Bytes) :
    spliceSkel splice stdin args = spliceStdin stdin args := by
  unfold spliceSkel spliceStdin
  rw [spliceSkelAux_real]
  simp [splice]

/-- `C15_stdin` of the regenerated form -/
theorem C15_skel_stdin (lines pre post : List Bytes) (hpre : DASH ∉ pre) :
    spliceSkel splice lines (pre ++ DASH :: post) = pre ++ lines ++ post.filter (· ≠ DASH) := by
  rw [C15_splice_skeleton_is_model]
  exact S4V.Props.WalkSpec.C15_stdin lines pre post hpre

/-! ### non-vacuity -/

/-- `d/{b.log, a.tar, a/z.log}` with `a.tar` holding `x.png`, `y.log` -/
def exTree : Node := .dir [100] [.file [98, 46, 108, 111, 103], .file [97, 46, 116, 97, 114],
  .dir [97] [.file [122, 46, 108, 111, 103]]]
def exFs : TarFs := fun _ =>
  ⟨[⟨[[120, 46, 112, 110, 103]], .regular, false⟩, ⟨[[121, 46, 108, 111, 103]], .regular, false⟩], false⟩

/-- the stream has directories in it, the tar is expanded between its neighbours, five results -/
example : (entriesN true exTree).length = 5
    ∧ (processPathSkel skel true exFs (.dir [] (entriesN true exTree))).length = 4
    ∧ processPathSkel skel true exFs (.dir [] (entriesN true exTree))
        = (expandArgFull true true exFs (.dir [] exTree)).map .res := by decide

example : spliceSkel splice [[120], [121]] [[97], [45], [98], [45]] = [[97], [120], [121], [98]] := by decide

/-! ### counter-models: the skeleton re-translated from EDITED source text

Each `S4V.Gen.WalkSkelMutants.<name>` is what gen_walkskel.py translates from the source with one edit.
The interpreter run on it differs from the hand model on a concrete input: the proofs above cannot survive
the corresponding regression (they unfold `skel` / `splice`), and the property itself fails. -/

open S4V.Gen.WalkSkelMutants

/-- `d/{a.tar, b.log}` as jwalk streams it -/
def mStream : List WEntry := [⟨[[100]], .dir⟩, ⟨[[100], [97, 46, 116, 97, 114]], .file⟩,
  ⟨[[100], [98, 46, 108, 111, 103]], .file⟩]
def mTree : Node := .dir [100] [.file [97, 46, 116, 97, 114], .file [98, 46, 108, 111, 103]]

example : mStream = entriesN true mTree := by decide

/-- seeded C01-c: the tar's members are pushed to a second vector appended after the loop — they come AFTER
`b.log` although `a.tar` sorts before it; the result is a permutation in the wrong order -/
theorem tar_deferred_breaks_order :
    processPathSkel tarDeferred true exFs (.dir [] mStream)
      ≠ (expandArgFull true true exFs (.dir [] mTree)).map .res
    ∧ processPathSkel tarDeferred true exFs (.dir [] mStream)
      = ((expandArgFull true true exFs (.dir [] mTree)).map SRes.res).rotateLeft 2 := by decide

/-- walked files classified with `true`: a known non-log name (`x.png`) is listed as a valid text file -/
theorem walked_are_text_lists_nonlogs :
    processPathSkel walkedAreText true exFs (.dir [] [⟨[[100], [120, 46, 112, 110, 103]], .file⟩])
      = [.res (.plain [[100], [120, 46, 112, 110, 103]] (.valid ⟨.text, .normal⟩))]
    ∧ processPathSkel skel true exFs (.dir [] [⟨[[100], [120, 46, 112, 110, 103]], .file⟩])
      = [.res (.plain [[100], [120, 46, 112, 110, 103]] .notSupported)] := by decide

/-- the `!is_file()` block removed: the walked directory itself is listed as a text file -/
theorem dirs_as_files_lists_dirs :
    processPathSkel dirsAsFiles true exFs (.dir [] [⟨[[100]], .dir⟩])
      = [.res (.plain [[100]] (.valid ⟨.text, .normal⟩))]
    ∧ processPathSkel skel true exFs (.dir [] [⟨[[100]], .dir⟩]) = [] := by decide

/-- the `is_dir` skip removed: every directory is listed as `FileErrNotAFile` (takes a PathId) -/
theorem dirs_not_a_file_lists_dirs :
    processPathSkel dirsNotAFile true exFs (.dir [] [⟨[[100]], .dir⟩]) = [.notAFile [[100]]] := by decide

/-- a named file classified with `false`: `s4 x.png` would answer `FileValid(x.png, Unparsable)` -/
theorem named_not_text_differs :
    processPathSkel namedNotText true exFs (.file [[120, 46, 112, 110, 103]] [120, 46, 112, 110, 103])
      ≠ (expandArgFull true true exFs (.file [[120, 46, 112, 110, 103]] [120, 46, 112, 110, 103])).map .res := by decide

/-- the walk arm hands `true` instead of the caller's flag: with `u = false` a non-log member is listed valid -/
theorem walk_tar_flag_true_differs :
    processPathSkel walkTarFlagTrue false exFs (.dir [] mStream)
      ≠ (expandArgFull true false exFs (.dir [] mTree)).map .res := by decide

/-- `paths.iter().rev()` in `main`: the runs of two named files swap (their PathIds, hence tie order) -/
theorem args_reversed_swaps :
    mainSkel skel argsReversed exFs [.file [[97]] [97], .file [[98]] [98]]
      = (mainSkel skel mainLoop exFs [.file [[97]] [97], .file [[98]] [98]]).reverse
    ∧ mainSkel skel argsReversed exFs [.file [[97]] [97], .file [[98]] [98]]
      ≠ mainSkel skel mainLoop exFs [.file [[97]] [97], .file [[98]] [98]] := by decide

/-- `process_path(path, false)` in `main`: a non-log member of a named tar is dropped -/
theorem main_not_text_drops_member :
    mainSkel skel mainNotText exFs [.file [[97, 46, 116, 97, 114]] [97, 46, 116, 97, 114]]
      ≠ mainSkel skel mainLoop exFs [.file [[97, 46, 116, 97, 114]] [97, 46, 116, 97, 114]] := by decide

/-- seeded C15-c / C01-b: the stdin block after the argument loop appends instead of splicing -/
theorem stdin_after_loop_appends :
    spliceSkel stdinAfterLoop [[120]] [[45], [98]] = [[98], [120]]
    ∧ spliceStdin [[120]] [[45], [98]] = [[120], [98]] := by decide

/-- in general: with the block after the loop, stdin paths are last whatever the position of `-` -/
theorem stdin_after_loop_general (lines pre post : List Bytes) (hpre : DASH ∉ pre) :
    spliceSkel stdinAfterLoop lines (pre ++ DASH :: post) = pre ++ post.filter (· ≠ DASH) ++ lines := by
  have hd : stdinAfterLoop.dash = DASH := rfl
  have h1 : stdinAfterLoop.secondSkipped = true := rfl
  have h2 : stdinAfterLoop.marks = true := rfl
  have h3 : stdinAfterLoop.readsInArm = false := rfl
  have h4 : stdinAfterLoop.readsAfterLoop = true := rfl
  have aux : ∀ (seen : Bool) (args : List Bytes),
      spliceSkelAux stdinAfterLoop lines seen args = args.filter (· ≠ DASH) := by
    intro seen args
    induction args generalizing seen with
    | nil => rfl
    | cons a rest ih =>
      by_cases ha : a = DASH
      · cases seen <;> simp [spliceSkelAux, hd, h1, h2, h3, ha, ih]
      · simp [spliceSkelAux, hd, ha, ih]
  simp only [spliceSkel, aux, seenAtEnd, hd, h2, h4, List.filter_append]
  simp
  intro a ha e
  exact hpre (e ▸ ha)

/-- the guard removed: a second `-` reads stdin again (here: pushes the lines twice) -/
theorem second_dash_reads_twice :
    spliceSkel secondDashReads [[120]] [[45], [45]] = [[120], [120]]
    ∧ spliceStdin [[120]] [[45], [45]] = [[120]] := by decide

end S4V.Props.WalkSkelSpec
