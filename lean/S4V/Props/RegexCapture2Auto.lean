/-
C04, regex slice, stage 4b — capture theorems for rows whose catalogues are DERIVED from the generated
regex (`symEntriesOf`): RFC 5424-style `<PRI>` rows 15 / 12, RFC 3164 rows 19 (with year) / 23
(year-less), RFC 2822 row 38, epoch row 100, the ad-hoc notations of rows 94 (`2023 Aug 31 20:01:05`)
and 58 (`08-Feb-2023 12:13:09.827`), and the named-zone row 78.

Each theorem: for EVERY selection `sel` of catalogue entries and concrete words (`Valid body sel`: one
entry of the piece's catalogue per item of the row, and a byte string the entry's symbolic word
denotes) and every admissible tail, `search` on `flat sel ++ tail` matches at 0, spans exactly the
words, and the slots are `capsAt` — so `groupText … g` is the word of the piece that records group
`g` (`…_groups`). The catalogues are everything the item's regex can consume (all literals / case
forms / counts, the ASCII part of every class) minus the overrides noted at each row, where a
rendering would be captured differently (see the `_full_false` statements in `RegexCapture2`).
-/
import S4V.Gen.Regex
import S4V.Lemmas.RegexRows
import S4V.Props.RegexCapture2

namespace S4V.Props.RegexCapture2Auto
open S4V.Model.Regex S4V.Gen.Regex S4V.Lemmas.RegexStep S4V.Lemmas.RegexSym S4V.Lemmas.RegexRows
open S4V.Props.RegexCapture2 (sepT)

/-- day forms `08` / `8` (no space padding: after a greedy `[[:blank:]]+` the pad belongs to the blanks) -/
def dayNoPad (g : Nat) : List Entry := grp g (cws (day2Words ++ day1Words))
def notBlankSym : Sym := [(0,8),(10,31),(33,255)]

/-- rows `^ body (?P<g>class|$)` -/
theorem auto_end_search {re : Re} {body : List Piece} {endItem : Re} {g : Nat} {s : Sym}
    (hre : ∀ e, re = catL (.bol :: (body ++ [Piece.mk endItem (endDom g s e)]).map Piece.item))
    (hok : ∀ e, rowOk (body ++ [Piece.mk endItem (endDom g s e)]) (tailSym e) = true)
    (hsl : rowSlotsOk body = true) (sel : Sel) (hv : Valid body sel) (tail : List UInt8) (ht : TailIn s tail) :
    search re (flat sel ++ tail) = some ⟨0, (flat sel).length + tailLen tail, capsAt 0 [] (sel ++ [endEw g s tail])⟩ ∧
    ∀ g', groupText (flat sel ++ tail) (capsAt 0 [] (sel ++ [endEw g s tail])) g' = selText g' (sel ++ [endEw g s tail]) :=
  ⟨search_row_end hre hok (allOK_of_valid hsl hv) ht,
   fun g' => groupText_end g' g s sel tail (allOK_slots (allOK_of_valid hsl hv))⟩

/-- rows `^ body` (no final group): the tail only has to satisfy the follow condition `tF` -/
theorem auto_search {re : Re} {body : List Piece} {tF : Sym}
    (hre : re = catL (.bol :: body.map Piece.item)) (hne : body ≠ [])
    (hok : rowOk body tF = true) (hsl : rowSlotsOk body = true) (sel : Sel) (hv : Valid body sel)
    (tail : List UInt8) (ht : TailF tF tail) :
    search re (flat sel ++ tail) = some ⟨0, (flat sel).length, capsAt 0 [] sel⟩ ∧
    ∀ g', groupText (flat sel ++ tail) (capsAt 0 [] sel) g' = selText g' sel :=
  ⟨search_row_bol hre hne hok (allOK_of_valid hsl hv) ht,
   fun g' => groupText_row g' sel tail (allOK_slots (allOK_of_valid hsl hv))⟩

/-! ### (3) RFC 5424 style: rows 15 (`<PRI>YYYY-MM-DDTHH:MM:SS`) and 12 (… `±HH:MM`) -/

def body15 : List Piece := autoPieces (bodyItems re15) [(9, nonNull (symEntriesOf sepT))]
theorem re15_eq (e : Bool) : re15 = catL (.bol :: (body15 ++ [Piece.mk (lastItem re15) (endDom 7 nonAlnum e)]).map Piece.item) := by
  cases e <;> rfl
set_option maxRecDepth 100000 in
theorem ok15 : (∀ e : Bool, rowOk (body15 ++ [Piece.mk (lastItem re15) (endDom 7 nonAlnum e)]) (tailSym e) = true) ∧
    rowSlotsOk body15 = true := by decide +kernel

theorem C04_rfc5424_search (sel : Sel) (hv : Valid body15 sel) (tail : List UInt8) (ht : TailIn nonAlnum tail) :
    search row15.re (flat sel ++ tail) = some ⟨0, (flat sel).length + tailLen tail, capsAt 0 [] (sel ++ [endEw 7 nonAlnum tail])⟩ ∧
    ∀ g', groupText (flat sel ++ tail) (capsAt 0 [] (sel ++ [endEw 7 nonAlnum tail])) g' = selText g' (sel ++ [endEw 7 nonAlnum tail]) :=
  auto_end_search re15_eq ok15.1 ok15.2 sel hv tail ht

/-- row 12 ends with the zone group: any tail -/
def body12 : List Piece := autoPieces ((itemsOf re12).drop 1) [(9, nonNull (symEntriesOf sepT))]
theorem re12_eq : re12 = catL (.bol :: body12.map Piece.item) := by rfl
set_option maxRecDepth 100000 in
theorem ok12 : rowOk body12 anyByte = true ∧ rowSlotsOk body12 = true := by decide +kernel

theorem C04_rfc5424_zc_search (sel : Sel) (hv : Valid body12 sel) (tail : List UInt8) :
    search row12.re (flat sel ++ tail) = some ⟨0, (flat sel).length, capsAt 0 [] sel⟩ ∧
    ∀ g', groupText (flat sel ++ tail) (capsAt 0 [] sel) g' = selText g' sel :=
  auto_search re12_eq (by decide) ok12.1 ok12.2 sel hv tail (tailF_any tail)

/-! ### (4) RFC 3164: rows 19 (`<PRI>Mmm dd HH:MM:SS YYYY`) and 23 (year-less) -/

def body19 : List Piece := autoPieces (bodyItems re19) [(6, dayNoPad 2)]
theorem re19_eq (e : Bool) : re19 = catL (.bol :: (body19 ++ [Piece.mk (lastItem re19) (endDom 7 nonDigit e)]).map Piece.item) := by
  cases e <;> rfl
set_option maxRecDepth 100000 in
theorem ok19 : (∀ e : Bool, rowOk (body19 ++ [Piece.mk (lastItem re19) (endDom 7 nonDigit e)]) (tailSym e) = true) ∧
    rowSlotsOk body19 = true := by decide +kernel

theorem C04_rfc3164_year_search (sel : Sel) (hv : Valid body19 sel) (tail : List UInt8) (ht : TailIn nonDigit tail) :
    search row19.re (flat sel ++ tail) = some ⟨0, (flat sel).length + tailLen tail, capsAt 0 [] (sel ++ [endEw 7 nonDigit tail])⟩ ∧
    ∀ g', groupText (flat sel ++ tail) (capsAt 0 [] (sel ++ [endEw 7 nonDigit tail])) g' = selText g' (sel ++ [endEw 7 nonDigit tail]) :=
  auto_end_search re19_eq ok19.1 ok19.2 sel hv tail ht

/-- row 23 ends with `[[:blank:]]*`: the tail must not start with a blank (it would be taken too) -/
def body23 : List Piece := autoPieces ((itemsOf re23).drop 1) [(6, dayNoPad 2)]
theorem re23_eq : re23 = catL (.bol :: body23.map Piece.item) := by rfl
set_option maxRecDepth 100000 in
theorem ok23 : rowOk body23 notBlankSym = true ∧ rowSlotsOk body23 = true := by decide +kernel

theorem C04_rfc3164_search (sel : Sel) (hv : Valid body23 sel) (tail : List UInt8) (ht : TailF notBlankSym tail) :
    search row23.re (flat sel ++ tail) = some ⟨0, (flat sel).length, capsAt 0 [] sel⟩ ∧
    ∀ g', groupText (flat sel ++ tail) (capsAt 0 [] sel) g' = selText g' sel :=
  auto_search re23_eq (by decide) ok23.1 ok23.2 sel hv tail ht

/-! ### (5) RFC 2822: row 38 (`Wed, 21 Oct 2015 07:28:00 +0000`) -/

def body38 : List Piece := autoPieces (bodyItems re38) []
theorem re38_eq (e : Bool) : re38 = catL (.bol :: (body38 ++ [Piece.mk (lastItem re38) (endDom 11 nonDigit e)]).map Piece.item) := by
  cases e <;> rfl
set_option maxRecDepth 100000 in
theorem ok38 : (∀ e : Bool, rowOk (body38 ++ [Piece.mk (lastItem re38) (endDom 11 nonDigit e)]) (tailSym e) = true) ∧
    rowSlotsOk body38 = true := by decide +kernel

theorem C04_rfc2822_search (sel : Sel) (hv : Valid body38 sel) (tail : List UInt8) (ht : TailIn nonDigit tail) :
    search row38.re (flat sel ++ tail) = some ⟨0, (flat sel).length + tailLen tail, capsAt 0 [] (sel ++ [endEw 11 nonDigit tail])⟩ ∧
    ∀ g', groupText (flat sel ++ tail) (capsAt 0 [] (sel ++ [endEw 11 nonDigit tail])) g' = selText g' (sel ++ [endEw 11 nonDigit tail]) :=
  auto_end_search re38_eq ok38.1 ok38.2 sel hv tail ht

/-! ### (6) epoch seconds: row 100 (`1716853121 …`) -/

def body100 : List Piece := autoPieces ((itemsOf re100).drop 1) []
theorem re100_eq : re100 = catL (.bol :: body100.map Piece.item) := by rfl
set_option maxRecDepth 100000 in
theorem ok100 : rowOk body100 anyByte = true ∧ rowSlotsOk body100 = true := by decide +kernel

theorem C04_epoch_search (sel : Sel) (hv : Valid body100 sel) (tail : List UInt8) :
    search row100.re (flat sel ++ tail) = some ⟨0, (flat sel).length, capsAt 0 [] sel⟩ ∧
    ∀ g', groupText (flat sel ++ tail) (capsAt 0 [] sel) g' = selText g' sel :=
  auto_search re100_eq (by decide) ok100.1 ok100.2 sel hv tail (tailF_any tail)

/-! ### (7) ad-hoc notations with a named month and a 4-digit year: rows 94 and 58 -/

def body94 : List Piece := autoPieces (bodyItems re94) [(4, dayNoPad 4), (5, nonNull (symEntriesOf ((bodyItems re94).getD 5 .eps)))]
theorem re94_eq (e : Bool) : re94 = catL (.bol :: (body94 ++ [Piece.mk (lastItem re94) (endDom 9 nonAlnum e)]).map Piece.item) := by
  cases e <;> rfl
set_option maxRecDepth 100000 in
theorem ok94 : (∀ e : Bool, rowOk (body94 ++ [Piece.mk (lastItem re94) (endDom 9 nonAlnum e)]) (tailSym e) = true) ∧
    rowSlotsOk body94 = true := by decide +kernel

theorem C04_adhoc_YbdHMS_search (sel : Sel) (hv : Valid body94 sel) (tail : List UInt8) (ht : TailIn nonAlnum tail) :
    search row94.re (flat sel ++ tail) = some ⟨0, (flat sel).length + tailLen tail, capsAt 0 [] (sel ++ [endEw 9 nonAlnum tail])⟩ ∧
    ∀ g', groupText (flat sel ++ tail) (capsAt 0 [] (sel ++ [endEw 9 nonAlnum tail])) g' = selText g' (sel ++ [endEw 9 nonAlnum tail]) :=
  auto_end_search re94_eq ok94.1 ok94.2 sel hv tail ht

/-- the class of row 58's final group: not a letter, digit, `+` or `-` -/
def end58 : Sym := [(0,42),(44,44),(46,47),(58,64),(91,96),(123,127)]
def body58 : List Piece := autoPieces (bodyItems re58) []
theorem re58_eq (e : Bool) : re58 = catL (.bol :: (body58 ++ [Piece.mk (lastItem re58) (endDom 9 end58 e)]).map Piece.item) := by
  cases e <;> rfl
set_option maxRecDepth 100000 in
theorem ok58 : (∀ e : Bool, rowOk (body58 ++ [Piece.mk (lastItem re58) (endDom 9 end58 e)]) (tailSym e) = true) ∧
    rowSlotsOk body58 = true := by decide +kernel

theorem C04_adhoc_dbYHMSf_search (sel : Sel) (hv : Valid body58 sel) (tail : List UInt8) (ht : TailIn end58 tail) :
    search row58.re (flat sel ++ tail) = some ⟨0, (flat sel).length + tailLen tail, capsAt 0 [] (sel ++ [endEw 9 end58 tail])⟩ ∧
    ∀ g', groupText (flat sel ++ tail) (capsAt 0 [] (sel ++ [endEw 9 end58 tail])) g' = selText g' (sel ++ [endEw 9 end58 tail]) :=
  auto_end_search re58_eq ok58.1 ok58.2 sel hv tail ht

/-! ### the hypotheses are satisfiable: the rows' own test lines split along the derived catalogues -/

def splitsB (body : List Piece) (line : String) : Bool :=
  match chooseSel body line.toUTF8.toList with
  | some (sel, rest) => validB body sel && (flat sel ++ rest == line.toUTF8.toList)
  | none => false

/-- `splitsB body line = true` yields a selection satisfying `Valid body` (the hypothesis of the theorems above) -/
theorem valid_of_splitsB {body : List Piece} {line : String} (h : splitsB body line = true) :
    ∃ sel rest, Valid body sel ∧ flat sel ++ rest = line.toUTF8.toList := by
  unfold splitsB at h
  split at h
  · next sel rest _ =>
    simp only [Bool.and_eq_true, beq_iff_eq] at h
    exact ⟨sel, rest, valid_of_validB h.1, h.2⟩
  · cases h

set_option maxRecDepth 100000 in
example : splitsB body15 "<14>2023-02-01T15:00:36 (HOST)" = true ∧ splitsB body12 "<14>2023-02-01T15:00:36-08:00 (HOST)" = true ∧
    splitsB body19 "<14>Jan  1 15:00:36 2023 HOST dropbear" = true ∧ splitsB body23 "<14>Jan  1 15:00:36 HOST dropbear" = true ∧
    splitsB body38 "Mon, 28 Jun 2022 01:51:12 +1230" = true ∧ splitsB body100 "1716853121 execve(" = true ∧
    splitsB body94 "2023 Aug 31 20:01:05 [ERROR]" = true ∧ splitsB body58 "08-Feb-2023 12:13:09.827 INFO" = true := by
  decide +kernel

end S4V.Props.RegexCapture2Auto
