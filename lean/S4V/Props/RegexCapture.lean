/-
C04, regex slice, stage 3 — from the regex capture to the post-capture model, for the RFC 3339
family: row 71 of `DATETIME_PARSE_DATAS`
`^YYYY[ /\-]?MM[ /\-]?DD[ T\-:]?HH[:]?MM[:]?SS[.,]f{1,9}[[:blank:]]?±HH:MM([[:^digit:]]|$)` (`DTFSS_YmdHMSfzc`).

* `re71_eq`                 the generated AST of row 71 is the regex written out below (a source
                            change to the row, or a row inserted before it, breaks this `rfl`)
* `C04_rfc3339_search`      for EVERY field tuple in range (year 1969–2099, month 01–12, day 01–31,
                            hour 00–24, minute 00–59, second 00–60, 1–9 fraction digits, sign `+`/`-`,
                            zone hours 00–29, zone minutes 00–99) and every tail that is empty or starts
                            with an ASCII non-digit, `search` on the line `YYYY-MM-DDTHH:MM:SS.f±HH:MM tail`
                            matches at 0 with each group spanning exactly its rendered field
* `C04_rfc3339_captures`    hence the `Captures` handed to the post-capture model
                            (`S4V.Model.DtParse.capturesToInstant`, theorem `C04_normalise_parse`) are
                            exactly the rendered fields
-/
import S4V.Gen.Regex
import S4V.Lemmas.RegexStep
import S4V.Lemmas.DtParse

namespace S4V.Props.RegexCapture
open S4V.Model.Regex S4V.Gen.Regex S4V.Lemmas.RegexStep
open S4V.Model.DtParse (dchar Captures)
open S4V.Lemmas.DtParse (dec2 dec4)

def dig : Re := .cls [(48, 57)]
def d05 : Re := .cls [(48, 53)]
def yearRe : Re := altL [.lit [49,57,54,57], catL [.lit [49,57], .cls [(55,57)], dig], catL [.lit [50,48], .rep dig 2 (some 2)]]
def monthLits : List (List UInt8) := (List.range' 1 12).map dec2
def dayLits : List (List UInt8) := (List.range' 1 31).map dec2 ++ (List.range' 1 9).map (fun d => [dchar d]) ++ (List.range' 1 9).map (fun d => [32, dchar d])
def hourLits : List (List UInt8) := (List.range' 0 25).map dec2
def minuteRe : Re := catL [d05, dig]
def secondRe : Re := altL [catL [d05, dig], .lit [54,48]]
def tzRe : Re := catL [.cls [(43,43),(45,45),(8722,8722)], .cls [(48,50)], dig, .lit [58], .rep dig 2 (some 2)]
def endRe : Re := altL [.cls [(0,47),(58,55295),(57344,1114111)], .eol]

theorem dchar_toNat (n : Nat) : (dchar n).toNat = 48 + n % 10 := by
  unfold dchar
  have : n % 10 < 10 := Nat.mod_lt _ (by decide)
  simp
  omega

theorem isD_dchar (n : Nat) : isD (dchar n) := by
  unfold isD; rw [dchar_toNat]; omega

variable {p : Nat} {r : List UInt8} {c : Caps}

/-- literal tables: each rendered value is the first alternative that is a prefix of itself -/
theorem month_find : ∀ M ∈ List.range' 1 12, monthLits.find? (fun l => isPrefix l (dec2 M)) = some (dec2 M) := by
  decide +kernel
theorem day_find : ∀ D ∈ List.range' 1 31, dayLits.find? (fun l => isPrefix l (dec2 D)) = some (dec2 D) := by
  decide +kernel
theorem hour_find : ∀ H ∈ List.range' 0 25, hourLits.find? (fun l => isPrefix l (dec2 H)) = some (dec2 H) := by
  decide +kernel
theorem lits_len : (monthLits ++ dayLits ++ hourLits).all (fun l => decide (l.length ≤ 2)) = true := by
  decide +kernel

theorem step_month {M : Nat} (h : 1 ≤ M ∧ M ≤ 12) :
    Step (altL (monthLits.map .lit)) p (dec2 M ++ r) c (p + 2) r c := by
  refine step_lits (w := dec2 M) ?_ (month_find M (by rw [List.mem_range'_1]; omega))
  intro l hl
  have := List.all_eq_true.mp lits_len l (by simp [hl])
  simpa [dec2] using this

theorem step_day {D : Nat} (h : 1 ≤ D ∧ D ≤ 31) :
    Step (altL (dayLits.map .lit)) p (dec2 D ++ r) c (p + 2) r c := by
  refine step_lits (w := dec2 D) ?_ (day_find D (by rw [List.mem_range'_1]; omega))
  intro l hl
  have := List.all_eq_true.mp lits_len l (by simp [hl])
  simpa [dec2] using this

theorem step_hour {H : Nat} (h : H ≤ 24) :
    Step (altL (hourLits.map .lit)) p (dec2 H ++ r) c (p + 2) r c := by
  refine step_lits (w := dec2 H) ?_ (hour_find H (by rw [List.mem_range'_1]; omega))
  intro l hl
  have := List.all_eq_true.mp lits_len l (by simp [hl])
  simpa [dec2] using this

theorem d05_step {n : Nat} (h : n % 10 ≤ 5) : Step d05 p (dchar n :: r) c (p + 1) r c := by
  apply step_cls
  · rw [dchar_toNat]; omega
  · rw [dchar_toNat]
    simp only [inRanges, List.any_cons, List.any_nil, Bool.or_false, Bool.and_eq_true, decide_eq_true_eq]
    omega

theorem step_minute {N : Nat} (h : N ≤ 59) : Step minuteRe p (dec2 N ++ r) c (p + 2) r c :=
  step_cat (d05_step (by omega)) (digit_step (isD_dchar N))

theorem step_second {S : Nat} (h : S ≤ 60) : Step secondRe p (dec2 S ++ r) c (p + 2) r c := by
  by_cases h60 : S = 60
  · subst h60
    refine step_altR (fails_cat (fails_cls (b := 54) (by decide) (by decide))) ?_
    exact step_lit (r := r) [54, 48]
  · exact step_altL (step_cat (d05_step (by omega)) (digit_step (isD_dchar S)))

theorem step_year {Y : Nat} (h : 1969 ≤ Y ∧ Y ≤ 2099) : Step yearRe p (dec4 Y ++ r) c (p + 4) r c := by
  by_cases h1 : Y = 1969
  · subst h1
    exact step_altL (step_lit (r := r) [49, 57, 54, 57])
  · by_cases h2 : Y < 2000
    · -- 19[789]d
      have e1 : Y / 1000 = 1 := by omega
      have e2 : Y / 100 = 19 := by omega
      have hc : 55 ≤ (dchar (Y / 10)).toNat ∧ (dchar (Y / 10)).toNat ≤ 57 := by
        rw [dchar_toNat]; omega
      have hne : (54 : UInt8) ≠ dchar (Y / 10) := by
        intro he
        have := congrArg UInt8.toNat he
        simp at this
        omega
      simp only [dec4, e1, e2]
      refine step_altR (fails_lit ?_) (step_altL ?_)
      · show isPrefix [49, 57, 54, 57] (dchar 1 :: dchar 19 :: dchar (Y / 10) :: dchar Y :: r) = false
        simp [isPrefix, hne]
      · refine step_cat (step_lit (r := dchar (Y / 10) :: dchar Y :: r) [49, 57]) (step_cat (step_cls ?_ ?_) (digit_step (isD_dchar Y)))
        · omega
        · simp only [inRanges, List.any_cons, List.any_nil, Bool.or_false, Bool.and_eq_true, decide_eq_true_eq]
          omega
    · -- 20dd
      have e1 : Y / 1000 = 2 := by omega
      have e2 : Y / 100 = 20 := by omega
      simp only [dec4, e1, e2]
      refine step_altR (fails_lit ?_) (step_altR (fails_cat (fails_lit ?_)) ?_)
      · rfl
      · rfl
      · refine step_cat (step_lit (r := dchar (Y / 10) :: dchar Y :: r) [50, 48]) ?_
        exact step_digits_exact (ds := [dchar (Y / 10), dchar Y]) (by
          intro d hd
          simp at hd
          rcases hd with rfl | rfl <;> exact isD_dchar _)

theorem step_tz {sign : UInt8} {oh om : Nat} (hs : sign = 43 ∨ sign = 45) (hoh : oh ≤ 29) :
    Step tzRe p (sign :: (dec2 oh ++ 58 :: (dec2 om ++ r))) c (p + 6) r c := by
  refine step_cat (step_cls ?_ ?_) (step_cat (step_cls (b := dchar (oh / 10)) ?_ ?_) (step_cat (digit_step (isD_dchar oh))
    (step_cat (step_lit (r := dec2 om ++ r) [58]) (step_digits_exact (ds := dec2 om) ?_))))
  · rcases hs with rfl | rfl <;> decide
  · rcases hs with rfl | rfl <;> decide
  · rw [dchar_toNat]; omega
  · rw [dchar_toNat]
    simp only [inRanges, List.any_cons, List.any_nil, Bool.or_false, Bool.and_eq_true, decide_eq_true_eq]
    omega
  · intro d hd
    simp [dec2] at hd
    rcases hd with rfl | rfl <;> exact isD_dchar _

/-- the tail after the stamp: nothing, or something starting with an ASCII non-digit -/
def TailOK : List UInt8 → Prop := StopsDigits

/-- bytes the final `([[:^digit:]]|$)` consumes -/
def endLen : List UInt8 → Nat
  | [] => 0
  | _ :: _ => 1

theorem step_end {tail : List UInt8} (ht : TailOK tail) : Step endRe p tail c (p + endLen tail) (tail.drop (endLen tail)) c := by
  cases tail with
  | nil => exact step_altR fails_cls_nil step_eol
  | cons x t =>
    obtain ⟨h1, h2⟩ := ht
    refine step_altL (step_cls h1 ?_)
    simp only [inRanges, List.any_cons, List.any_nil, Bool.or_false, Bool.or_eq_true, Bool.and_eq_true,
      decide_eq_true_eq]
    unfold isD at h2
    omega

def sepD : Re := .rep (.cls [(32,32),(45,45),(47,47)]) 0 (some 1)
def sepT : Re := .rep (.cls [(32,32),(45,45),(58,58),(84,84)]) 0 (some 1)
def colonQ : Re := .rep (.cls [(58,58)]) 0 (some 1)
def blankQ : Re := .rep (.cls [(9,9),(32,32)]) 0 (some 1)

/-- row 71 written out -/
def rfc3339Re : Re := catL [.bol, .group 1 yearRe, sepD, .group 2 (altL (monthLits.map .lit)), sepD,
  .group 3 (altL (dayLits.map .lit)), sepT, .group 4 (altL (hourLits.map .lit)), colonQ, .group 5 minuteRe, colonQ,
  .group 6 secondRe, .cls [(44,44),(46,46)], .group 7 (.rep dig 1 (some 9)), blankQ, .group 8 tzRe, .group 9 endRe]

/-- the generated row 71 IS that regex -/
theorem re71_eq : re71 = rfc3339Re := by rfl

/-- `YYYY-MM-DDTHH:MM:SS.f±HH:MM` followed by `tail` -/
def render (Y M D H N S : Nat) (frac : List UInt8) (sign : UInt8) (oh om : Nat) (tail : List UInt8) : List UInt8 :=
  dec4 Y ++ 45 :: (dec2 M ++ 45 :: (dec2 D ++ 84 :: (dec2 H ++ 58 :: (dec2 N ++ 58 :: (dec2 S ++ 46 ::
    (frac ++ sign :: (dec2 oh ++ 58 :: (dec2 om ++ tail))))))))

/-- the capture slots `search` reports for such a line (`f` = number of fraction digits, `e` = 0/1 bytes
taken by the final group) -/
def expectCaps (f e : Nat) : Caps :=
  [(9, 20 + f + 6, 20 + f + 6 + e), (8, 20 + f, 20 + f + 6), (7, 20, 20 + f), (6, 17, 19), (5, 14, 16), (4, 11, 13),
   (3, 8, 10), (2, 5, 7), (1, 0, 4)]

theorem sign_props {sign : UInt8} (hs : sign = 43 ∨ sign = 45) :
    sign.toNat < 128 ∧ ¬ isD sign ∧ inRanges [(9, 9), (32, 32)] sign.toNat = false := by
  rcases hs with rfl | rfl <;> refine ⟨by decide, ?_, by decide⟩ <;> (unfold isD; decide)

theorem rfc3339_step (Y M D H N S : Nat) (frac : List UInt8) (sign : UInt8) (oh om : Nat) (tail : List UInt8)
    (hY : 1969 ≤ Y ∧ Y ≤ 2099) (hM : 1 ≤ M ∧ M ≤ 12) (hD : 1 ≤ D ∧ D ≤ 31) (hH : H ≤ 24) (hN : N ≤ 59)
    (hS : S ≤ 60) (hf : ∀ d ∈ frac, isD d) (hf1 : 1 ≤ frac.length) (hf9 : frac.length ≤ 9)
    (hs : sign = 43 ∨ sign = 45) (hoh : oh ≤ 29) (ht : TailOK tail) :
    Step rfc3339Re 0 (render Y M D H N S frac sign oh om tail) []
      (20 + frac.length + 6 + endLen tail) (tail.drop (endLen tail)) (expectCaps frac.length (endLen tail)) := by
  obtain ⟨s1, s2, s3⟩ := sign_props hs
  unfold render rfc3339Re expectCaps
  exact
    step_cat step_bol <|
    step_cat (step_group 1 (step_year hY)) <|
    step_cat (step_opt_take (step_cls (b := 45) (by decide) (by decide))) <|
    step_cat (step_group 2 (step_month hM)) <|
    step_cat (step_opt_take (step_cls (b := 45) (by decide) (by decide))) <|
    step_cat (step_group 3 (step_day hD)) <|
    step_cat (step_opt_take (step_cls (b := 84) (by decide) (by decide))) <|
    step_cat (step_group 4 (step_hour hH)) <|
    step_cat (step_opt_take (step_cls (b := 58) (by decide) (by decide))) <|
    step_cat (step_group 5 (step_minute hN)) <|
    step_cat (step_opt_take (step_cls (b := 58) (by decide) (by decide))) <|
    step_cat (step_group 6 (step_second hS)) <|
    step_cat (step_cls (b := 46) (by decide) (by decide)) <|
    step_cat (step_group 7 (step_digits 1 9 hf hf1 hf9 ⟨s1, s2⟩)) <|
    step_cat (step_opt_skip (fails_cls s1 s3)) <|
    step_cat (step_group 8 (step_tz hs hoh)) <|
    step_group 9 (step_end ht)

/-- **search on an RFC 3339 line**: the match starts at 0, ends after the zone (plus the one
non-digit byte the last group takes, if any), and the nine groups sit exactly on the fields -/
theorem C04_rfc3339_search (Y M D H N S : Nat) (frac : List UInt8) (sign : UInt8) (oh om : Nat) (tail : List UInt8)
    (hY : 1969 ≤ Y ∧ Y ≤ 2099) (hM : 1 ≤ M ∧ M ≤ 12) (hD : 1 ≤ D ∧ D ≤ 31) (hH : H ≤ 24) (hN : N ≤ 59)
    (hS : S ≤ 60) (hf : ∀ d ∈ frac, isD d) (hf1 : 1 ≤ frac.length) (hf9 : frac.length ≤ 9)
    (hs : sign = 43 ∨ sign = 45) (hoh : oh ≤ 29) (ht : TailOK tail) :
    search row71.re (render Y M D H N S frac sign oh om tail) =
      some ⟨0, 20 + frac.length + 6 + endLen tail, expectCaps frac.length (endLen tail)⟩ := by
  show search re71 _ = _
  rw [re71_eq]
  exact search_of_step (rfc3339_step Y M D H N S frac sign oh om tail hY hM hD hH hN hS hf hf1 hf9 hs hoh ht)

/-! ### from capture slots to the `Captures` of the post-capture model -/

/-- `match_.as_bytes()` of a slot -/
def sliceOf (line : List UInt8) (ab : Nat × Nat) : List UInt8 := (line.drop ab.1).take (ab.2 - ab.1)

/-- `captures.name(<name>).map(|m| m.as_bytes())` -/
def capField (row : Row) (line : List UInt8) (caps : Caps) (name : String) : Option (List UInt8) :=
  ((row.names.lookup name).bind (capGet caps)).map (sliceOf line)

/-- the named groups as `captures_to_buffer_bytes` reads them -/
def capturesOf (row : Row) (line : List UInt8) (caps : Caps) : Captures :=
  { year := capField row line caps "year", month := capField row line caps "month",
    day := capField row line caps "day", hour := capField row line caps "hour",
    minute := capField row line caps "minute", second := capField row line caps "second",
    fractional := capField row line caps "fractional", tz := capField row line caps "tz",
    epoch := capField row line caps "epoch" }

theorem sliceOf_mid (pre w post : List UInt8) {a b : Nat} (ha : a = pre.length) (hb : b = a + w.length) :
    sliceOf (pre ++ (w ++ post)) (a, b) = w := by
  subst ha hb
  simp [sliceOf]

/-- **captures = rendered fields** -/
theorem C04_rfc3339_captures (Y M D H N S : Nat) (frac : List UInt8) (sign : UInt8) (oh om : Nat) (tail : List UInt8)
    (e : Nat) :
    capturesOf row71 (render Y M D H N S frac sign oh om tail) (expectCaps frac.length e) =
      { year := some (dec4 Y), month := some (dec2 M), day := some (dec2 D), hour := some (dec2 H),
        minute := some (dec2 N), second := some (dec2 S), fractional := some frac,
        tz := some (sign :: (dec2 oh ++ 58 :: dec2 om)), epoch := none } := by
  have htz : sliceOf (render Y M D H N S frac sign oh om tail) (20 + frac.length, 20 + frac.length + 6) =
      sign :: (dec2 oh ++ 58 :: dec2 om) := by
    have e : render Y M D H N S frac sign oh om tail =
        (dec4 Y ++ 45 :: (dec2 M ++ 45 :: (dec2 D ++ 84 :: (dec2 H ++ 58 :: (dec2 N ++ 58 :: (dec2 S ++ 46 :: frac))))))
          ++ ((sign :: (dec2 oh ++ 58 :: dec2 om)) ++ tail) := by
      simp [render, dec4, dec2]
    rw [e]
    exact sliceOf_mid _ _ _ (by simp [dec4, dec2]; omega) (by simp [dec2])
  have hfr : sliceOf (render Y M D H N S frac sign oh om tail) (20, 20 + frac.length) = frac := by
    simp [sliceOf, render, dec4, dec2]
  have fld : ∀ (name : String) (w : List UInt8),
      ((row71.names.lookup name).bind (capGet (expectCaps frac.length e))).map
        (sliceOf (render Y M D H N S frac sign oh om tail)) = some w →
      capField row71 (render Y M D H N S frac sign oh om tail) (expectCaps frac.length e) name = some w :=
    fun _ _ h => h
  have h1 := fld "year" (dec4 Y) (by
    simp [row71, expectCaps, capGet]; simp [sliceOf, render, dec4, dec2])
  have h2 := fld "month" (dec2 M) (by
    simp [row71, expectCaps, capGet, List.lookup]; simp [sliceOf, render, dec4, dec2])
  have h3 := fld "day" (dec2 D) (by
    simp [row71, expectCaps, capGet, List.lookup]; simp [sliceOf, render, dec4, dec2])
  have h4 := fld "hour" (dec2 H) (by
    simp [row71, expectCaps, capGet, List.lookup]; simp [sliceOf, render, dec4, dec2])
  have h5 := fld "minute" (dec2 N) (by
    simp [row71, expectCaps, capGet, List.lookup]; simp [sliceOf, render, dec4, dec2])
  have h6 := fld "second" (dec2 S) (by
    simp [row71, expectCaps, capGet, List.lookup]; simp [sliceOf, render, dec4, dec2])
  have h7 := fld "fractional" frac (by
    simp [row71, expectCaps, capGet, List.lookup]; exact hfr)
  have h8 := fld "tz" (sign :: (dec2 oh ++ 58 :: dec2 om)) (by
    simp [row71, expectCaps, capGet, List.lookup]; exact htz)
  have h9 : capField row71 (render Y M D H N S frac sign oh om tail) (expectCaps frac.length e) "epoch" = none := by
    simp [capField, row71, List.lookup]
  simp only [capturesOf, h1, h2, h3, h4, h5, h6, h7, h8, h9]

/-- **capture → post-capture model, RFC 3339 family**: for every field tuple in range the model's
`search` of row 71 finds the stamp at offset 0 and hands exactly the rendered fields to
`captures_to_buffer_bytes` (`capturesOf` is the `Captures` argument of `capturesToInstant`, about which
`S4V.Props.TimeSpec.C04_normalise_parse` speaks) -/
theorem C04_rfc3339_end_to_end (Y M D H N S : Nat) (frac : List UInt8) (sign : UInt8) (oh om : Nat) (tail : List UInt8)
    (hY : 1969 ≤ Y ∧ Y ≤ 2099) (hM : 1 ≤ M ∧ M ≤ 12) (hD : 1 ≤ D ∧ D ≤ 31) (hH : H ≤ 24) (hN : N ≤ 59)
    (hS : S ≤ 60) (hf : ∀ d ∈ frac, isD d) (hf1 : 1 ≤ frac.length) (hf9 : frac.length ≤ 9)
    (hs : sign = 43 ∨ sign = 45) (hoh : oh ≤ 29) (ht : TailOK tail) :
    ∃ res, search row71.re (render Y M D H N S frac sign oh om tail) = some res ∧ res.start = 0 ∧
      capturesOf row71 (render Y M D H N S frac sign oh om tail) res.caps =
        { year := some (dec4 Y), month := some (dec2 M), day := some (dec2 D), hour := some (dec2 H),
          minute := some (dec2 N), second := some (dec2 S), fractional := some frac,
          tz := some (sign :: (dec2 oh ++ 58 :: dec2 om)), epoch := none } :=
  ⟨_, C04_rfc3339_search Y M D H N S frac sign oh om tail hY hM hD hH hN hS hf hf1 hf9 hs hoh ht, rfl,
    C04_rfc3339_captures Y M D H N S frac sign oh om tail _⟩

/-- the hypotheses are satisfiable and the pieces fit: `2023-01-06T14:35:00.506282-08:00 (host)` is
such a line; the model's `search` + `capturesToInstant` give 2023-01-06 22:35:00.506282 UTC -/
example : render 2023 1 6 14 35 0 "506282".toUTF8.toList 45 8 0 " (host)".toUTF8.toList =
    "2023-01-06T14:35:00.506282-08:00 (host)".toUTF8.toList := by decide +kernel

example :
    (search row71.re "2023-01-06T14:35:00.506282-08:00 (host)".toUTF8.toList).bind (fun res =>
      S4V.Model.DtParse.capturesToInstant row71.dtfs
        (capturesOf row71 "2023-01-06T14:35:00.506282-08:00 (host)".toUTF8.toList res.caps) 0 none) =
    some 1673044500506282000 := by decide +kernel

end S4V.Props.RegexCapture
