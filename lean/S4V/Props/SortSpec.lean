/-
Properties C08 (accounting records) and C10 (event-log records): the records
that pass the window are printed exactly once each, ordered by time value,
records with equal time value in file / enumeration order.

`C08_order` and `C10_order` unfold the GENERATED constants
`fixedKeyHasOffset` / `evtxKeyHasIndex` (`S4V.Gen.Keys`). If the source stops
putting the file offset / enumeration index into the map key, the constants
are regenerated as `false`, the key-distinctness steps below become false
statements and this file stops compiling (`key_without_index_loses` shows the
loss that would then occur).
-/
import S4V.Lemmas.SortDrain
import S4V.Props.FilterSpec

namespace S4V.Props.SortSpec
open S4V.Gen.Filter S4V.Gen.Keys S4V.Model.SortDrain S4V.Lemmas.SortDrain
open S4V.Props.FilterSpec (lexLe fixedKeep_iff tsPassFilters_iff)

/-! ### S1-S3: the map in general -/

/-- S1: walking the map yields strictly increasing keys, whatever was inserted -/
theorem build_sorted (xs : List (Key × Nat)) :
    (build xs).Pairwise (fun x y => klt x.1 y.1 = true) :=
  build_ksorted xs

/-- S3: with pairwise distinct keys the map content is the (stable) sort of the input by key -/
theorem build_eq_stableSort {xs : List (Key × Nat)} (h : (xs.map (·.1)).Nodup) :
    build xs = stableSort (·.1) xs :=
  Lemmas.SortDrain.build_eq_stableSort h

/-- S2: with pairwise distinct keys nothing is lost or duplicated -/
theorem build_mem_of_distinct {xs : List (Key × Nat)} (h : (xs.map (·.1)).Nodup) :
    (build xs).Perm xs := by
  rw [build_eq_stableSort h]; exact stableSort_perm _ _

/-- S2, membership form: every inserted entry is in the map and nothing else is -/
theorem build_mem_iff_of_distinct {xs : List (Key × Nat)} (h : (xs.map (·.1)).Nodup)
    (x : Key × Nat) : x ∈ build xs ↔ x ∈ xs :=
  (build_mem_of_distinct h).mem_iff

/-- S2, counting form: every inserted entry is in the map exactly as often as in the input (once,
since keys are distinct) -/
theorem build_count_of_distinct {xs : List (Key × Nat)} (h : (xs.map (·.1)).Nodup)
    (x : Key × Nat) : (build xs).count x = xs.count x :=
  (build_mem_of_distinct h).count_eq x

-- out-of-order keys, distinct: sorted, complete
example :
    let xs : List (Key × Nat) := [((5, 0, 2), 20), ((3, 1, 0), 21), ((3, 1, 7), 22), ((-4, 9, 0), 23)]
    (xs.map (·.1)).Nodup
    ∧ build xs = [((-4, 9, 0), 23), ((3, 1, 0), 21), ((3, 1, 7), 22), ((5, 0, 2), 20)]
    ∧ build xs = stableSort (·.1) xs := by decide
-- an equal key replaces (the hypothesis of S2/S3 is needed), the result is still strictly sorted
example :
    let xs : List (Key × Nat) := [((5, 0, 0), 20), ((3, 1, 0), 21), ((5, 0, 0), 22)]
    ¬ (xs.map (·.1)).Nodup
    ∧ build xs = [((3, 1, 0), 21), ((5, 0, 0), 22)]
    ∧ stableSort (·.1) xs = [((3, 1, 0), 21), ((5, 0, 0), 20), ((5, 0, 0), 22)] := by decide

/-! ### S4: accounting records (C08) -/

/-- indices strictly increasing in list order are injective -/
theorem idx_inj {α : Type _} {idx : α → Nat} {l : List α}
    (h : l.Pairwise (fun x y => idx x < idx y)) {r s : α} (hr : r ∈ l) (hs : s ∈ l)
    (e : idx r = idx s) : r = s := by
  induction l with
  | nil => cases hr
  | cons x xs ih =>
    rw [List.pairwise_cons] at h
    rcases List.mem_cons.1 hr with hr' | hr' <;> rcases List.mem_cons.1 hs with hs' | hs'
    · rw [hr', hs']
    · have := h.1 s hs'; rw [hr'] at e; omega
    · have := h.1 r hr'; rw [hs'] at e; omega
    · exact ih h.2 hr' hs'

/-- the map keys of records with different index differ — because the GENERATED
`fixedKeyHasOffset` is `true` -/
theorem fixedKey_ne {r s : Rec} (h : r.idx < s.idx) : fixedKey r ≠ fixedKey s := by
  simp [fixedKey, fixedKeyHasOffset]
  omega

/-- for a later record `x` and an earlier record `y`, comparing full keys is the same as comparing
time values only — because the GENERATED `fixedKeyHasOffset` is `true` the tie is decided by the
index, and the later record is never placed before the earlier one -/
theorem fixedKey_klt {y x : Rec} (h : y.idx < x.idx) :
    klt (fixedKey x) (fixedKey y) = klt (x.tv.1, x.tv.2, 0) (y.tv.1, y.tv.2, 0) := by
  rw [Bool.eq_iff_iff, klt_iff, klt_iff]
  simp [fixedKey, fixedKeyHasOffset]
  omega

/-- the printed records, as records: map content equals the sort by full key -/
theorem fixedPrint_eq_sort_fixedKey {recs : List Rec}
    (h : recs.Pairwise (fun r s => r.idx < s.idx)) (a b : Option (Int × Int)) :
    fixedPrint recs a b = (stableSort fixedKey (recs.filter (fixedKeep a b))).map (·.idx) := by
  have hL : (recs.filter (fixedKeep a b)).Pairwise (fun r s => r.idx < s.idx) :=
    h.sublist List.filter_sublist
  have hnd : (((recs.filter (fixedKeep a b)).map fun r => (fixedKey r, r.idx)).map (·.1)).Nodup := by
    rw [List.map_map, List.Nodup, List.pairwise_map]
    exact hL.imp (fun h => fixedKey_ne h)
  unfold fixedPrint drain
  rw [build_eq_stableSort hnd, stableSort_map, List.map_map]
  rfl

/-- S4 / C08: the print order is: the kept records, stably sorted by time value -/
theorem C08_order {recs : List Rec} (h : recs.Pairwise (fun r s => r.idx < s.idx))
    (a b : Option (Int × Int)) :
    fixedPrint recs a b =
      (stableSort (fun r => (r.tv.1, r.tv.2, 0)) (recs.filter (fixedKeep a b))).map (·.idx) := by
  rw [fixedPrint_eq_sort_fixedKey h]
  congr 1
  exact stableSort_congr (R := fun y x => y.idx < x.idx) (fun y x hyx => fixedKey_klt hyx)
    (h.sublist List.filter_sublist)

-- out-of-order times, a tie (idx 8 and 24), a null record (idx 16), a window with one record on
-- each bound (idx 8/24 on the lower, idx 32 on the upper) and one outside (idx 40, idx 48)
example :
    let recs : List Rec := [⟨(5, 0), 0⟩, ⟨(3, 1), 8⟩, ⟨(0, 0), 16⟩, ⟨(3, 1), 24⟩, ⟨(8, 0), 32⟩,
      ⟨(3, 0), 40⟩, ⟨(8, 1), 48⟩, ⟨(4, 999999), 56⟩]
    recs.Pairwise (fun r s => r.idx < s.idx)
    ∧ fixedPrint recs (some (3, 1)) (some (8, 0)) = [8, 24, 56, 0, 32]
    ∧ (stableSort (fun r : Rec => (r.tv.1, r.tv.2, 0))
        (recs.filter (fixedKeep (some (3, 1)) (some (8, 0))))).map (·.idx) = [8, 24, 56, 0, 32]
    ∧ fixedPrint recs none none = [40, 8, 24, 56, 0, 32, 48] := by decide

/-! ### S5: event-log records (C10) -/

theorem evtxKey_ne {r s : Ev} (h : r.idx < s.idx) : evtxKey r ≠ evtxKey s := by
  simp [evtxKey, evtxKeyHasIndex]
  omega

theorem evtxKey_klt {y x : Ev} (h : y.idx < x.idx) :
    klt (evtxKey x) (evtxKey y) = klt (x.ts, 0, 0) (y.ts, 0, 0) := by
  rw [Bool.eq_iff_iff, klt_iff, klt_iff]
  simp [evtxKey, evtxKeyHasIndex]
  omega

theorem evtxPrint_eq_sort_evtxKey {evs : List Ev}
    (h : evs.Pairwise (fun r s => r.idx < s.idx)) (a b : Option Int) :
    evtxPrint evs a b =
      (stableSort evtxKey (evs.filter fun e => tsPassFilters e.ts a b == .InRange)).map (·.idx) := by
  have hL : (evs.filter fun e => tsPassFilters e.ts a b == .InRange).Pairwise
      (fun r s => r.idx < s.idx) := h.sublist List.filter_sublist
  have hnd : (((evs.filter fun e => tsPassFilters e.ts a b == .InRange).map
      fun e => (evtxKey e, e.idx)).map (·.1)).Nodup := by
    rw [List.map_map, List.Nodup, List.pairwise_map]
    exact hL.imp (fun h => evtxKey_ne h)
  unfold evtxPrint drain
  rw [build_eq_stableSort hnd, stableSort_map, List.map_map]
  rfl

/-- S5 / C10: the print order is: the events within the window, stably sorted by creation time -/
theorem C10_order {evs : List Ev} (h : evs.Pairwise (fun r s => r.idx < s.idx))
    (a b : Option Int) :
    evtxPrint evs a b =
      (stableSort (fun e => (e.ts, 0, 0))
        (evs.filter fun e => tsPassFilters e.ts a b == .InRange)).map (·.idx) := by
  rw [evtxPrint_eq_sort_evtxKey h]
  congr 1
  exact stableSort_congr (R := fun y x => y.idx < x.idx) (fun y x hyx => evtxKey_klt hyx)
    (h.sublist List.filter_sublist)

-- out-of-order times, a three-way tie (idx 1, 3, 4), both bounds hit (10 and 30), two outside
example :
    let evs : List Ev := [⟨30, 0⟩, ⟨20, 1⟩, ⟨10, 2⟩, ⟨20, 3⟩, ⟨20, 4⟩, ⟨9, 5⟩, ⟨31, 6⟩, ⟨-5, 7⟩]
    evs.Pairwise (fun r s => r.idx < s.idx)
    ∧ evtxPrint evs (some 10) (some 30) = [2, 1, 3, 4, 0]
    ∧ (stableSort (fun e : Ev => (e.ts, 0, 0))
        (evs.filter fun e => tsPassFilters e.ts (some 10) (some 30) == .InRange)).map (·.idx)
        = [2, 1, 3, 4, 0]
    ∧ evtxPrint evs none none = [7, 5, 2, 1, 3, 4, 0, 6] := by decide

/-! ### S6: why the index must be part of the key -/

/-- the accounting-record pipeline with the time value alone as map key -/
def buildNoIdx (recs : List Rec) (a b : Option (Int × Int)) : List Nat :=
  drain (build ((recs.filter (fixedKeep a b)).map fun r => ((r.tv.1, r.tv.2, 0), r.idx)))

/-- with the time value alone as key, of two records with the same time value only the later one
survives: three records in, two out -/
theorem key_without_index_loses :
    let recs : List Rec := [⟨(5, 0), 0⟩, ⟨(3, 1), 8⟩, ⟨(5, 0), 16⟩]
    recs.Pairwise (fun r s => r.idx < s.idx)
    ∧ (recs.filter (fixedKeep none none)).length = 3
    ∧ buildNoIdx recs none none = [8, 16]
    ∧ (buildNoIdx recs none none).length = 2
    ∧ fixedPrint recs none none = [8, 0, 16] := by decide

/-- the same for event-log records -/
def evtxNoIdx (evs : List Ev) (a b : Option Int) : List Nat :=
  drain (build ((evs.filter fun e => tsPassFilters e.ts a b == .InRange).map
    fun e => ((e.ts, 0, 0), e.idx)))

theorem evtx_key_without_index_loses :
    let evs : List Ev := [⟨20, 0⟩, ⟨10, 1⟩, ⟨20, 2⟩]
    evtxNoIdx evs none none = [1, 2] ∧ evtxPrint evs none none = [1, 0, 2] := by decide

/-! ### S7: the same in plain words -/

/-- time value of the record with index `i` (for reading the statements below) -/
def tvOf (recs : List Rec) (i : Nat) : Int × Int :=
  match recs.find? (fun r => r.idx == i) with
  | some r => r.tv
  | none => (0, 0)

theorem tvOf_idx {recs : List Rec} (h : recs.Pairwise (fun r s => r.idx < s.idx)) {r : Rec}
    (hr : r ∈ recs) : tvOf recs r.idx = r.tv := by
  unfold tvOf
  cases hf : recs.find? (fun s => s.idx == r.idx) with
  | none =>
    have := List.find?_eq_none.1 hf r hr
    simp at this
  | some s =>
    have hs := List.mem_of_find?_eq_some hf
    have he := List.find?_some hf
    simp only [beq_iff_eq] at he
    rw [idx_inj h hs hr he]

/-- C08: every record that is not null and lies within the window is printed exactly once, and
nothing else is printed -/
theorem C08_each_once {recs : List Rec} (h : recs.Pairwise (fun r s => r.idx < s.idx))
    (a b : Option (Int × Int)) :
    (fixedPrint recs a b).Perm ((recs.filter (fixedKeep a b)).map (·.idx)) := by
  rw [C08_order h]
  exact (stableSort_perm _ _).map _

/-- C08, membership form, with the filter spelled out -/
theorem C08_mem_iff {recs : List Rec} (h : recs.Pairwise (fun r s => r.idx < s.idx))
    (a b : Option (Int × Int)) (i : Nat) :
    i ∈ fixedPrint recs a b ↔
      ∃ r ∈ recs, r.idx = i ∧ r.tv ≠ (0, 0) ∧ (∀ f, a = some f → lexLe f r.tv)
        ∧ (∀ f, b = some f → lexLe r.tv f) := by
  rw [(C08_each_once h a b).mem_iff]
  simp only [List.mem_map, List.mem_filter, fixedKeep_iff]
  constructor
  · rintro ⟨r, ⟨hr, hk⟩, e⟩; exact ⟨r, hr, e, hk⟩
  · rintro ⟨r, hr, e, hk⟩; exact ⟨r, ⟨hr, hk⟩, e⟩

/-- no index is printed twice -/
theorem C08_nodup {recs : List Rec} (h : recs.Pairwise (fun r s => r.idx < s.idx))
    (a b : Option (Int × Int)) : (fixedPrint recs a b).Nodup := by
  rw [(C08_each_once h a b).nodup_iff, List.Nodup, List.pairwise_map]
  exact (h.sublist List.filter_sublist).imp (fun h => Nat.ne_of_lt h)

/-- the printed records are strictly increasing in `(time value, index)` -/
theorem fixedPrint_strict {recs : List Rec} (h : recs.Pairwise (fun r s => r.idx < s.idx))
    (a b : Option (Int × Int)) :
    (stableSort fixedKey (recs.filter (fixedKeep a b))).Pairwise
      (fun r s => klt (fixedKey r) (fixedKey s) = true) := by
  have hnd : (((recs.filter (fixedKeep a b)).map fun r => (fixedKey r, r.idx)).map (·.1)).Nodup := by
    rw [List.map_map, List.Nodup, List.pairwise_map]
    exact (h.sublist List.filter_sublist).imp (fun h => fixedKey_ne h)
  have hs := build_sorted ((recs.filter (fixedKeep a b)).map fun r => (fixedKey r, r.idx))
  rw [build_eq_stableSort hnd, stableSort_map, List.pairwise_map] at hs
  exact hs

/-- transfer of a property of the printed records to the printed indices -/
theorem fixedPrint_pairwise {recs : List Rec} (h : recs.Pairwise (fun r s => r.idx < s.idx))
    (a b : Option (Int × Int)) {P : Rec → Rec → Prop}
    (hP : ∀ r s, klt (fixedKey r) (fixedKey s) = true → P r s) :
    (fixedPrint recs a b).Pairwise
      (fun i j => ∀ r ∈ recs, ∀ s ∈ recs, r.idx = i → s.idx = j → P r s) := by
  rw [fixedPrint_eq_sort_fixedKey h, List.pairwise_map]
  refine (fixedPrint_strict h a b).imp_of_mem ?_
  intro r' s' hr' hs' hlt r hr s hs er es
  have hr'' : r' ∈ recs := (List.mem_filter.1 (mem_stableSort.1 hr')).1
  have hs'' : s' ∈ recs := (List.mem_filter.1 (mem_stableSort.1 hs')).1
  rw [idx_inj h hr hr'' er, idx_inj h hs hs'' es]
  exact hP _ _ hlt

/-- C08: of any two printed records, the one printed first has the smaller or equal time value -/
theorem C08_time_sorted' {recs : List Rec} (h : recs.Pairwise (fun r s => r.idx < s.idx))
    (a b : Option (Int × Int)) :
    (fixedPrint recs a b).Pairwise
      (fun i j => ∀ r ∈ recs, ∀ s ∈ recs, r.idx = i → s.idx = j → lexLe r.tv s.tv) := by
  refine fixedPrint_pairwise h a b ?_
  intro r s hlt
  rw [klt_iff] at hlt
  simp [fixedKey, fixedKeyHasOffset] at hlt
  unfold lexLe
  omega

/-- C08: of any two printed records with the same time value, the one printed first comes first
in the file -/
theorem C08_ties_file_order' {recs : List Rec} (h : recs.Pairwise (fun r s => r.idx < s.idx))
    (a b : Option (Int × Int)) :
    (fixedPrint recs a b).Pairwise
      (fun i j => ∀ r ∈ recs, ∀ s ∈ recs, r.idx = i → s.idx = j → r.tv = s.tv → i < j) := by
  have := fixedPrint_pairwise h a b (P := fun r s => r.tv = s.tv → r.idx < s.idx) (by
    intro r s hlt e
    rw [klt_iff] at hlt
    simp [fixedKey, fixedKeyHasOffset, e] at hlt
    omega)
  refine this.imp ?_
  intro i j hij r hr s hs er es e
  have := hij r hr s hs er es e
  omega

/-- from the quantified form to the lookup form -/
theorem pairwise_tvOf {recs : List Rec} (h : recs.Pairwise (fun r s => r.idx < s.idx))
    {l : List Nat} (hl : ∀ i ∈ l, ∃ r ∈ recs, r.idx = i) {Q : Nat → Nat → Int × Int → Int × Int → Prop}
    (hp : l.Pairwise (fun i j => ∀ r ∈ recs, ∀ s ∈ recs, r.idx = i → s.idx = j → Q i j r.tv s.tv)) :
    l.Pairwise (fun i j => Q i j (tvOf recs i) (tvOf recs j)) := by
  refine hp.imp_of_mem ?_
  intro i j hi hj hq
  obtain ⟨r, hr, er⟩ := hl i hi
  obtain ⟨s, hs, es⟩ := hl j hj
  have := hq r hr s hs er es
  rw [← er, ← es, tvOf_idx h hr, tvOf_idx h hs]
  rw [← er, ← es] at this
  exact this

theorem fixedPrint_mem_recs {recs : List Rec} (h : recs.Pairwise (fun r s => r.idx < s.idx))
    (a b : Option (Int × Int)) : ∀ i ∈ fixedPrint recs a b, ∃ r ∈ recs, r.idx = i := by
  intro i hi
  obtain ⟨r, hr, e, _⟩ := (C08_mem_iff h a b i).1 hi
  exact ⟨r, hr, e⟩

/-- C08: the time values along the output never decrease -/
theorem C08_time_sorted {recs : List Rec} (h : recs.Pairwise (fun r s => r.idx < s.idx))
    (a b : Option (Int × Int)) :
    ((fixedPrint recs a b).map (tvOf recs)).Pairwise lexLe := by
  rw [List.pairwise_map]
  exact pairwise_tvOf h (fixedPrint_mem_recs h a b) (Q := fun _ _ x y => lexLe x y)
    (C08_time_sorted' h a b)

/-- C08: records with equal time value are printed in file order (for any two, hence in particular
for two adjacent ones) -/
theorem C08_ties_file_order {recs : List Rec} (h : recs.Pairwise (fun r s => r.idx < s.idx))
    (a b : Option (Int × Int)) :
    (fixedPrint recs a b).Pairwise (fun i j => tvOf recs i = tvOf recs j → i < j) :=
  pairwise_tvOf h (fixedPrint_mem_recs h a b) (Q := fun i j x y => x = y → i < j)
    (C08_ties_file_order' h a b)

/-- adjacent form of `C08_ties_file_order` -/
theorem C08_ties_file_order_adjacent {recs : List Rec}
    (h : recs.Pairwise (fun r s => r.idx < s.idx)) (a b : Option (Int × Int))
    (pre post : List Nat) (i j : Nat) (hout : fixedPrint recs a b = pre ++ i :: j :: post)
    (htie : tvOf recs i = tvOf recs j) : i < j := by
  have := C08_ties_file_order h a b
  rw [hout, List.pairwise_append] at this
  exact (List.pairwise_cons.1 this.2.1).1 j List.mem_cons_self htie

example :
    let recs : List Rec := [⟨(5, 0), 0⟩, ⟨(3, 1), 8⟩, ⟨(0, 0), 16⟩, ⟨(3, 1), 24⟩, ⟨(8, 0), 32⟩,
      ⟨(3, 0), 40⟩, ⟨(8, 1), 48⟩, ⟨(4, 999999), 56⟩]
    let out := fixedPrint recs (some (3, 1)) (some (8, 0))
    recs.Pairwise (fun r s => r.idx < s.idx)
    ∧ out = [8, 24, 56, 0, 32]
    ∧ (recs.filter (fixedKeep (some (3, 1)) (some (8, 0)))).map (·.idx) = [0, 8, 24, 32, 56]
    ∧ out.map (tvOf recs) = [(3, 1), (3, 1), (4, 999999), (5, 0), (8, 0)]
    ∧ (out.map (tvOf recs)).Pairwise lexLe
    ∧ out.Pairwise (fun i j => tvOf recs i = tvOf recs j → i < j) := by decide

/-! #### event-log records -/

def tsOf (evs : List Ev) (i : Nat) : Int :=
  match evs.find? (fun e => e.idx == i) with
  | some e => e.ts
  | none => 0

theorem tsOf_idx {evs : List Ev} (h : evs.Pairwise (fun r s => r.idx < s.idx)) {e : Ev}
    (he : e ∈ evs) : tsOf evs e.idx = e.ts := by
  unfold tsOf
  cases hf : evs.find? (fun s => s.idx == e.idx) with
  | none =>
    have := List.find?_eq_none.1 hf e he
    simp at this
  | some s =>
    have hs := List.mem_of_find?_eq_some hf
    have hi := List.find?_some hf
    simp only [beq_iff_eq] at hi
    rw [idx_inj h hs he hi]

/-- C10: every event within the window is printed exactly once, and nothing else is printed -/
theorem C10_each_once {evs : List Ev} (h : evs.Pairwise (fun r s => r.idx < s.idx))
    (a b : Option Int) :
    (evtxPrint evs a b).Perm
      ((evs.filter fun e => tsPassFilters e.ts a b == .InRange).map (·.idx)) := by
  rw [C10_order h]
  exact (stableSort_perm _ _).map _

/-- C10, membership form, with the filter spelled out -/
theorem C10_mem_iff {evs : List Ev} (h : evs.Pairwise (fun r s => r.idx < s.idx))
    (a b : Option Int) (i : Nat) :
    i ∈ evtxPrint evs a b ↔
      ∃ e ∈ evs, e.idx = i ∧ (∀ x, a = some x → x ≤ e.ts) ∧ (∀ y, b = some y → e.ts ≤ y) := by
  rw [(C10_each_once h a b).mem_iff]
  simp only [List.mem_map, List.mem_filter, beq_iff_eq, tsPassFilters_iff]
  constructor
  · rintro ⟨r, ⟨hr, hk⟩, e⟩; exact ⟨r, hr, e, hk⟩
  · rintro ⟨r, hr, e, hk⟩; exact ⟨r, ⟨hr, hk⟩, e⟩

theorem C10_nodup {evs : List Ev} (h : evs.Pairwise (fun r s => r.idx < s.idx))
    (a b : Option Int) : (evtxPrint evs a b).Nodup := by
  rw [(C10_each_once h a b).nodup_iff, List.Nodup, List.pairwise_map]
  exact (h.sublist List.filter_sublist).imp (fun h => Nat.ne_of_lt h)

theorem evtxPrint_strict {evs : List Ev} (h : evs.Pairwise (fun r s => r.idx < s.idx))
    (a b : Option Int) :
    (stableSort evtxKey (evs.filter fun e => tsPassFilters e.ts a b == .InRange)).Pairwise
      (fun r s => klt (evtxKey r) (evtxKey s) = true) := by
  have hnd : (((evs.filter fun e => tsPassFilters e.ts a b == .InRange).map
      fun e => (evtxKey e, e.idx)).map (·.1)).Nodup := by
    rw [List.map_map, List.Nodup, List.pairwise_map]
    exact (h.sublist List.filter_sublist).imp (fun h => evtxKey_ne h)
  have hs := build_sorted ((evs.filter fun e => tsPassFilters e.ts a b == .InRange).map
    fun e => (evtxKey e, e.idx))
  rw [build_eq_stableSort hnd, stableSort_map, List.pairwise_map] at hs
  exact hs

theorem evtxPrint_pairwise {evs : List Ev} (h : evs.Pairwise (fun r s => r.idx < s.idx))
    (a b : Option Int) {P : Ev → Ev → Prop}
    (hP : ∀ r s, klt (evtxKey r) (evtxKey s) = true → P r s) :
    (evtxPrint evs a b).Pairwise
      (fun i j => ∀ r ∈ evs, ∀ s ∈ evs, r.idx = i → s.idx = j → P r s) := by
  rw [evtxPrint_eq_sort_evtxKey h, List.pairwise_map]
  refine (evtxPrint_strict h a b).imp_of_mem ?_
  intro r' s' hr' hs' hlt r hr s hs er es
  have hr'' : r' ∈ evs := (List.mem_filter.1 (mem_stableSort.1 hr')).1
  have hs'' : s' ∈ evs := (List.mem_filter.1 (mem_stableSort.1 hs')).1
  rw [idx_inj h hr hr'' er, idx_inj h hs hs'' es]
  exact hP _ _ hlt

theorem C10_time_sorted' {evs : List Ev} (h : evs.Pairwise (fun r s => r.idx < s.idx))
    (a b : Option Int) :
    (evtxPrint evs a b).Pairwise
      (fun i j => ∀ r ∈ evs, ∀ s ∈ evs, r.idx = i → s.idx = j → r.ts ≤ s.ts) := by
  refine evtxPrint_pairwise h a b ?_
  intro r s hlt
  rw [klt_iff] at hlt
  simp [evtxKey, evtxKeyHasIndex] at hlt
  omega

theorem C10_ties_enum_order' {evs : List Ev} (h : evs.Pairwise (fun r s => r.idx < s.idx))
    (a b : Option Int) :
    (evtxPrint evs a b).Pairwise
      (fun i j => ∀ r ∈ evs, ∀ s ∈ evs, r.idx = i → s.idx = j → r.ts = s.ts → i < j) := by
  have := evtxPrint_pairwise h a b (P := fun r s => r.ts = s.ts → r.idx < s.idx) (by
    intro r s hlt e
    rw [klt_iff] at hlt
    simp [evtxKey, evtxKeyHasIndex, e] at hlt
    omega)
  refine this.imp ?_
  intro i j hij r hr s hs er es e
  have := hij r hr s hs er es e
  omega

theorem pairwise_tsOf {evs : List Ev} (h : evs.Pairwise (fun r s => r.idx < s.idx))
    {l : List Nat} (hl : ∀ i ∈ l, ∃ r ∈ evs, r.idx = i) {Q : Nat → Nat → Int → Int → Prop}
    (hp : l.Pairwise (fun i j => ∀ r ∈ evs, ∀ s ∈ evs, r.idx = i → s.idx = j → Q i j r.ts s.ts)) :
    l.Pairwise (fun i j => Q i j (tsOf evs i) (tsOf evs j)) := by
  refine hp.imp_of_mem ?_
  intro i j hi hj hq
  obtain ⟨r, hr, er⟩ := hl i hi
  obtain ⟨s, hs, es⟩ := hl j hj
  have := hq r hr s hs er es
  rw [← er, ← es, tsOf_idx h hr, tsOf_idx h hs]
  rw [← er, ← es] at this
  exact this

theorem evtxPrint_mem_evs {evs : List Ev} (h : evs.Pairwise (fun r s => r.idx < s.idx))
    (a b : Option Int) : ∀ i ∈ evtxPrint evs a b, ∃ r ∈ evs, r.idx = i := by
  intro i hi
  obtain ⟨r, hr, e, _⟩ := (C10_mem_iff h a b i).1 hi
  exact ⟨r, hr, e⟩

/-- C10: the creation times along the output never decrease -/
theorem C10_time_sorted {evs : List Ev} (h : evs.Pairwise (fun r s => r.idx < s.idx))
    (a b : Option Int) :
    ((evtxPrint evs a b).map (tsOf evs)).Pairwise (· ≤ ·) := by
  rw [List.pairwise_map]
  exact pairwise_tsOf h (evtxPrint_mem_evs h a b) (Q := fun _ _ x y => x ≤ y)
    (C10_time_sorted' h a b)

/-- C10: events with equal creation time are printed in enumeration order -/
theorem C10_ties_enum_order {evs : List Ev} (h : evs.Pairwise (fun r s => r.idx < s.idx))
    (a b : Option Int) :
    (evtxPrint evs a b).Pairwise (fun i j => tsOf evs i = tsOf evs j → i < j) :=
  pairwise_tsOf h (evtxPrint_mem_evs h a b) (Q := fun i j x y => x = y → i < j)
    (C10_ties_enum_order' h a b)

theorem C10_ties_enum_order_adjacent {evs : List Ev}
    (h : evs.Pairwise (fun r s => r.idx < s.idx)) (a b : Option Int)
    (pre post : List Nat) (i j : Nat) (hout : evtxPrint evs a b = pre ++ i :: j :: post)
    (htie : tsOf evs i = tsOf evs j) : i < j := by
  have := C10_ties_enum_order h a b
  rw [hout, List.pairwise_append] at this
  exact (List.pairwise_cons.1 this.2.1).1 j List.mem_cons_self htie

example :
    let evs : List Ev := [⟨30, 0⟩, ⟨20, 1⟩, ⟨10, 2⟩, ⟨20, 3⟩, ⟨20, 4⟩, ⟨9, 5⟩, ⟨31, 6⟩, ⟨-5, 7⟩]
    let out := evtxPrint evs (some 10) (some 30)
    evs.Pairwise (fun r s => r.idx < s.idx)
    ∧ out = [2, 1, 3, 4, 0]
    ∧ (evs.filter fun e => tsPassFilters e.ts (some 10) (some 30) == .InRange).map (·.idx)
        = [0, 1, 2, 3, 4]
    ∧ out.map (tsOf evs) = [10, 20, 20, 20, 30]
    ∧ (out.map (tsOf evs)).Pairwise (· ≤ ·)
    ∧ out.Pairwise (fun i j => tsOf evs i = tsOf evs j → i < j) := by decide

end S4V.Props.SortSpec
